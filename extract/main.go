// verifextract lists, from the current source of the repository, the facts the C01 and C15 checks
// compare with their reviewed expectations:
//
//	maprange <file>:<func>  <expr>  <type>      every `range` over a map in non-test code of pkg/ and internal/
//	randfield <file>:<type>.<field> <type>      struct fields that hold a random generator
//	globalrand <file>:<func> <call>             uses of math/rand package-level functions, time.Now, crypto/rand
//	globalvar <file> <name> <type>              package-level variables of mutable type (map, slice, pointer, struct, chan, func)
//	globalwrite <file>:<func> <name>            assignments to / mutations of package-level variables outside init()
//	globalalias <file>:<func> <name> <how>      a package-level slice/map/pointer/array is re-sliced, assigned to another variable, returned or has its
//	                                            address taken outside init(): later writes through that alias do not show as globalwrite
//	concurrency <file>:<func> <go|select|sync> goroutine starts, select statements and uses of sync / sync/atomic (scheduling-dependent constructs)
package main

import (
	"fmt"
	"go/ast"
	"go/token"
	"go/types"
	"os"
	"sort"
	"strings"

	"golang.org/x/tools/go/packages"
)

func main() {
	root := "/repo"
	if len(os.Args) > 1 {
		root = os.Args[1]
	}
	cfg := &packages.Config{Mode: packages.NeedName | packages.NeedFiles | packages.NeedSyntax | packages.NeedTypes | packages.NeedTypesInfo | packages.NeedImports,
		Dir: root, Tests: false, Env: append(os.Environ(), "GOFLAGS=-mod=mod", "GOPROXY=off", "GOSUMDB=off", "GOTOOLCHAIN=local")}
	pkgs, err := packages.Load(cfg, "./pkg/...", "./internal/...", "./cmd/...")
	if err != nil {
		fmt.Fprintln(os.Stderr, err)
		os.Exit(2)
	}
	var out []string
	for _, p := range pkgs {
		if len(p.Errors) > 0 {
			fmt.Fprintln(os.Stderr, "package errors:", p.PkgPath, p.Errors[0])
			os.Exit(2)
		}
		globals := map[types.Object]bool{}
		for _, f := range p.Syntax {
			fname := strings.TrimPrefix(p.Fset.Position(f.Pos()).Filename, root+"/")
			if strings.HasSuffix(fname, "_test.go") || strings.HasSuffix(fname, ".pb.go") || strings.Contains(fname, "verif_hook") {
				continue
			}
			// struct fields that hold a random generator: a generator kept in an object can outlive the run it was
			// seeded for (every holder is a reviewed site)
			for _, d := range f.Decls {
				gd, ok := d.(*ast.GenDecl)
				if !ok || gd.Tok != token.TYPE {
					continue
				}
				for _, sp := range gd.Specs {
					ts := sp.(*ast.TypeSpec)
					st, ok := ts.Type.(*ast.StructType)
					if !ok {
						continue
					}
					for _, fl := range st.Fields.List {
						t := p.TypesInfo.TypeOf(fl.Type)
						if t == nil {
							continue
						}
						if s := t.String(); strings.Contains(s, "math/rand.Rand") || strings.Contains(s, "math/rand.Source") {
							names := "embedded"
							if len(fl.Names) > 0 {
								names = fl.Names[0].Name
							}
							out = append(out, fmt.Sprintf("randfield %s:%s.%s %s", fname, ts.Name.Name, names, s))
						}
					}
				}
			}
			for _, d := range f.Decls {
				gd, ok := d.(*ast.GenDecl)
				if !ok || gd.Tok != token.VAR {
					continue
				}
				for _, sp := range gd.Specs {
					vs := sp.(*ast.ValueSpec)
					for _, n := range vs.Names {
						obj := p.TypesInfo.Defs[n]
						if obj == nil || n.Name == "_" {
							continue
						}
						if mutableType(obj.Type()) {
							globals[obj] = true
							out = append(out, fmt.Sprintf("globalvar %s %s %s", fname, n.Name, typeClass(obj.Type())))
						}
						// a process-wide random generator object (a run must draw from its own)
						if ts := obj.Type().String(); strings.Contains(ts, "math/rand.Rand") || strings.Contains(ts, "math/rand.Source") {
							out = append(out, fmt.Sprintf("globalrand %s:var %s %s", fname, n.Name, ts))
						}
					}
				}
			}
		}
		for _, f := range p.Syntax {
			fname := strings.TrimPrefix(p.Fset.Position(f.Pos()).Filename, root+"/")
			if strings.HasSuffix(fname, "_test.go") || strings.HasSuffix(fname, ".pb.go") || strings.Contains(fname, "verif_hook") {
				continue
			}
			for _, d := range f.Decls {
				fd, ok := d.(*ast.FuncDecl)
				if !ok || fd.Body == nil {
					continue
				}
				fn := fd.Name.Name
				if fd.Recv != nil && len(fd.Recv.List) > 0 {
					fn = recvName(fd.Recv.List[0].Type) + "." + fn
				}
				// positions of sort calls in this function: a range whose keys are sorted afterwards is marked
				var sortCalls []token.Pos
				ast.Inspect(fd.Body, func(n ast.Node) bool {
					if c, ok := n.(*ast.CallExpr); ok {
						if sel, ok := c.Fun.(*ast.SelectorExpr); ok {
							if id, ok := sel.X.(*ast.Ident); ok {
								if pn, ok := p.TypesInfo.Uses[id].(*types.PkgName); ok {
									if path := pn.Imported().Path(); path == "sort" || path == "slices" {
										sortCalls = append(sortCalls, c.Pos())
									}
								}
							}
						}
					}
					return true
				})
				ast.Inspect(fd.Body, func(n ast.Node) bool {
					switch v := n.(type) {
					case *ast.RangeStmt:
						if t := p.TypesInfo.TypeOf(v.X); t != nil {
							if _, ok := t.Underlying().(*types.Map); ok {
								mark := ""
								for _, sp := range sortCalls {
									if sp > v.End() {
										mark = " sorted-after"
									}
								}
								out = append(out, fmt.Sprintf("maprange %s:%s %s%s", fname, fn, exprStr(v.X), mark))
							}
						}
					case *ast.CallExpr:
						if sel, ok := v.Fun.(*ast.SelectorExpr); ok {
							if id, ok := sel.X.(*ast.Ident); ok {
								if pn, ok := p.TypesInfo.Uses[id].(*types.PkgName); ok {
									path := pn.Imported().Path()
									if (path == "math/rand" && sel.Sel.Name != "New" && sel.Sel.Name != "NewSource") || (path == "time" && sel.Sel.Name == "Now") || path == "crypto/rand" {
										out = append(out, fmt.Sprintf("globalrand %s:%s %s.%s", fname, fn, path, sel.Sel.Name))
									}
								}
							}
						}
						// delete(global, k) / append to global handled through assignments below
						if id, ok := v.Fun.(*ast.Ident); ok && id.Name == "delete" && len(v.Args) > 0 {
							if g := rootGlobal(p.TypesInfo, v.Args[0], globals); g != "" && fn != "init" {
								out = append(out, fmt.Sprintf("globalwrite %s:%s %s", fname, fn, g))
							}
						}
					case *ast.AssignStmt:
						for _, rh := range v.Rhs {
							if g := aliasable(p.TypesInfo, rh, globals); g != "" && fn != "init" {
								out = append(out, fmt.Sprintf("globalalias %s:%s %s assigned", fname, fn, g))
							}
						}
						for _, l := range v.Lhs {
							if g := rootGlobal(p.TypesInfo, l, globals); g != "" && fn != "init" {
								out = append(out, fmt.Sprintf("globalwrite %s:%s %s", fname, fn, g))
							}
						}
					case *ast.SliceExpr:
						if g := aliasable(p.TypesInfo, v.X, globals); g != "" && fn != "init" {
							out = append(out, fmt.Sprintf("globalalias %s:%s %s reslice", fname, fn, g))
						}
					case *ast.UnaryExpr:
						if v.Op == token.AND {
							if g := rootGlobal(p.TypesInfo, v.X, globals); g != "" && fn != "init" {
								out = append(out, fmt.Sprintf("globalalias %s:%s %s address", fname, fn, g))
							}
						}
					case *ast.ReturnStmt:
						for _, r := range v.Results {
							if g := aliasable(p.TypesInfo, r, globals); g != "" {
								out = append(out, fmt.Sprintf("globalalias %s:%s %s returned", fname, fn, g))
							}
						}
					case *ast.GoStmt:
						out = append(out, fmt.Sprintf("concurrency %s:%s go", fname, fn))
					case *ast.SelectStmt:
						out = append(out, fmt.Sprintf("concurrency %s:%s select", fname, fn))
					case *ast.SelectorExpr:
						if id, ok := v.X.(*ast.Ident); ok {
							if pn, ok := p.TypesInfo.Uses[id].(*types.PkgName); ok {
								if path := pn.Imported().Path(); path == "sync" || path == "sync/atomic" {
									out = append(out, fmt.Sprintf("concurrency %s:%s %s.%s", fname, fn, path, v.Sel.Name))
								}
							}
						}
					case *ast.IncDecStmt:
						if g := rootGlobal(p.TypesInfo, v.X, globals); g != "" && fn != "init" {
							out = append(out, fmt.Sprintf("globalwrite %s:%s %s", fname, fn, g))
						}
					}
					return true
				})
			}
		}
	}
	sort.Strings(out)
	prev := ""
	for _, l := range out {
		if l != prev {
			fmt.Println(l)
		}
		prev = l
	}
}

func recvName(e ast.Expr) string {
	switch v := e.(type) {
	case *ast.StarExpr:
		return recvName(v.X)
	case *ast.Ident:
		return v.Name
	case *ast.IndexExpr:
		return recvName(v.X)
	case *ast.IndexListExpr:
		return recvName(v.X)
	}
	return "?"
}

func exprStr(e ast.Expr) string {
	switch v := e.(type) {
	case *ast.Ident:
		return v.Name
	case *ast.SelectorExpr:
		return exprStr(v.X) + "." + v.Sel.Name
	case *ast.CallExpr:
		return exprStr(v.Fun) + "()"
	case *ast.IndexExpr:
		return exprStr(v.X) + "[]"
	case *ast.StarExpr:
		return "*" + exprStr(v.X)
	case *ast.ParenExpr:
		return exprStr(v.X)
	}
	return "expr"
}

// the package-level variable an lvalue writes through (x, x[k], x.f, *x), if any
func rootGlobal(info *types.Info, e ast.Expr, globals map[types.Object]bool) string {
	for {
		switch v := e.(type) {
		case *ast.Ident:
			if obj := info.Uses[v]; obj != nil && globals[obj] {
				return v.Name
			}
			return ""
		case *ast.IndexExpr:
			e = v.X
		case *ast.SelectorExpr:
			// pkg.Var of another package is not tracked; x.f of a local global is
			if id, ok := v.X.(*ast.Ident); ok {
				if _, isPkg := info.Uses[id].(*types.PkgName); isPkg {
					return ""
				}
			}
			e = v.X
		case *ast.StarExpr:
			e = v.X
		case *ast.ParenExpr:
			e = v.X
		default:
			return ""
		}
	}
}

// a bare use of a package-level variable whose value shares storage with the variable (slice, map, pointer)
func aliasable(info *types.Info, e ast.Expr, globals map[types.Object]bool) string {
	if pe, ok := e.(*ast.ParenExpr); ok {
		e = pe.X
	}
	id, ok := e.(*ast.Ident)
	if !ok {
		return ""
	}
	obj := info.Uses[id]
	if obj == nil || !globals[obj] {
		return ""
	}
	switch obj.Type().Underlying().(type) {
	case *types.Slice, *types.Map, *types.Pointer, *types.Chan:
		return id.Name
	}
	return ""
}

func mutableType(t types.Type) bool {
	switch t.Underlying().(type) {
	case *types.Map, *types.Slice, *types.Pointer, *types.Chan, *types.Struct, *types.Interface, *types.Array:
		return true
	case *types.Basic:
		return true // reassignable scalars count too; constants are not `var`
	}
	return true
}

func typeClass(t types.Type) string {
	switch t.Underlying().(type) {
	case *types.Map:
		return "map"
	case *types.Slice:
		return "slice"
	case *types.Pointer:
		return "pointer"
	case *types.Chan:
		return "chan"
	case *types.Struct:
		return "struct"
	case *types.Interface:
		return "interface"
	case *types.Signature:
		return "func"
	case *types.Array:
		return "array"
	}
	return "scalar"
}
