package main

import (
	"fmt"
	"math"
	"math/rand"

	"github.com/simimpact/srsim/pkg/model"
	"github.com/simimpact/srsim/pkg/simulation"
	_ "github.com/simimpact/srsim/pkg/statistics/agg/overview"
	"verifharness/wire"
)

func init() { components["agg"] = aggComp{} }

type aggComp struct{}

func deref(p *float64) float64 {
	if p == nil {
		return math.NaN()
	}
	return *p
}

func descRec(name string, d *model.DescriptiveStats) *wire.Rec {
	return wire.R("desc").S("name", name).F("min", deref(d.Min)).F("max", deref(d.Max)).F("mean", deref(d.Mean)).F("sd", deref(d.SD))
}

func overRec(name string, idx int, o *model.OverviewStats) *wire.Rec {
	h := make([]int, len(o.Hist))
	for i, c := range o.Hist {
		h[i] = int(c)
	}
	return wire.R("over").S("name", name).I("idx", idx).F("sd", deref(o.SD)).F("min", deref(o.Min)).F("max", deref(o.Max)).
		F("mean", deref(o.Mean)).F("q1", deref(o.Q1)).F("q2", deref(o.Q2)).F("q3", deref(o.Q3)).Is("hist", h)
}

func (aggComp) Exec(c *wire.Case, w *wire.Writer) {
	w.Case(c.ID)
	defer w.End()
	var aggs simulation.Aggregators
	for _, op := range c.Ops {
		w.Op(op)
		func() {
			defer func() {
				if r := recover(); r != nil {
					w.Ob(wire.R("panic").S("msg", firstLine(fmt.Sprint(r))))
				}
			}()
			switch op.Name {
			case "cfg":
				cfg := &model.SimConfig{Settings: &model.SimulatorSettings{Iterations: uint32(op.Int("iters")), CycleLimit: uint32(op.Int("cycles"))}}
				var err error
				aggs, err = simulation.InitializeAggregators(op.Int("iters"), cfg)
				if err != nil {
					w.Ob(wire.R("err"))
				}
			case "add":
				if aggs == nil {
					w.Ob(wire.R("nocfg"))
					return
				}
				aggs.Add(&model.IterationResult{TotalDamageDealt: op.Flt("dealt"), TotalDamageTaken: op.Flt("taken"), TotalAv: op.Flt("av"),
					CumulativeDamageDealtByCycle: op.Flts("cdealt"), CumulativeDamageTakenByCycle: op.Flts("ctaken")})
			case "flush":
				if aggs == nil {
					w.Ob(wire.R("nocfg"))
					return
				}
				st := aggs.Flush()
				w.Ob(wire.R("iters").I("n", int(st.Iterations)))
				w.Ob(descRec("dealt", st.TotalDamageDealt))
				w.Ob(descRec("taken", st.TotalDamageTaken))
				w.Ob(descRec("av", st.TotalAv))
				w.Ob(overRec("dpc", 0, st.TotalDamageDealtPerCycle))
				for i, o := range st.DamageDealtByCycle {
					w.Ob(overRec("dealtByCycle", i, o))
				}
				for i, o := range st.DamageTakenByCycle {
					w.Ob(overRec("takenByCycle", i, o))
				}
			default:
				w.Ob(wire.R("badop"))
			}
		}()
	}
}

func cbrtTable(n int) []float64 {
	out := make([]float64, n+1)
	for i := range out {
		out[i] = math.Pow(float64(i), 1.0/3.0)
	}
	return out
}

type aggIter struct {
	dealt, taken, av float64
	cd, ct           []float64
}

func aggCase(id string, iters, cycles int, its []aggIter, perm []int) *wire.Case {
	ops := []*wire.Rec{wire.R("cfg").I("iters", iters).I("cycles", cycles)}
	for _, i := range perm {
		it := its[i]
		ops = append(ops, wire.R("add").F("dealt", it.dealt).F("taken", it.taken).F("av", it.av).Fs("cdealt", it.cd).Fs("ctaken", it.ct))
	}
	ops = append(ops, wire.R("flush").Fs("cbrt", cbrtTable(len(its)+1)))
	return &wire.Case{ID: id, Ops: ops}
}

func genIter(r *rand.Rand, kind int, cycles int) aggIter {
	n := cycles
	if kind != 3 {
		n = r.Intn(cycles + 2) // series of different lengths (may exceed the configured limit)
	}
	mkSeries := func(scale float64) ([]float64, float64) {
		s := make([]float64, n)
		cum := 0.0
		for i := range s {
			switch kind {
			case 1:
				// zero damage
			case 2:
				cum += scale
			default:
				cum += math.Floor(r.Float64()*scale*100) / 100
			}
			s[i] = cum
		}
		return s, cum
	}
	cd, d := mkSeries(5000)
	ct, t := mkSeries(800)
	av := float64(n)*100 - math.Floor(r.Float64()*50)
	if n == 0 {
		av = pick(r, 55.0, 30) // zero total action value (NaN damage per cycle) is outside the checked domain
	}
	if kind == 2 && n > 0 {
		av = float64(n) * 100
	}
	return aggIter{d, t, av, cd, ct}
}

func (aggComp) Gen(r *rand.Rand, tier string, n int) []*wire.Case {
	var cases []*wire.Case
	identity := func(k int) []int {
		p := make([]int, k)
		for i := range p {
			p[i] = i
		}
		return p
	}
	// directed: single result, identical results, zero damage, unreached cycles, different lengths
	one := []aggIter{{1000, 50, 250, []float64{400, 800, 1000}, []float64{10, 30, 50}}}
	cases = append(cases, aggCase("d-single", 1, 3, one, identity(1)))
	cases = append(cases, aggCase("d-unreached-cycles", 1, 6, one, identity(1)))
	same := []aggIter{one[0], one[0], one[0], one[0]}
	cases = append(cases, aggCase("d-identical", 4, 3, same, identity(4)))
	zero := []aggIter{{0, 0, 300, []float64{0, 0, 0}, []float64{0, 0, 0}}, {0, 0, 280, []float64{0, 0, 0}, []float64{0, 0, 0}}}
	cases = append(cases, aggCase("d-zero-damage", 2, 3, zero, identity(2)))
	mixed := []aggIter{{900, 10, 150, []float64{500, 900}, []float64{10, 10}}, {2500, 70, 420, []float64{500, 1200, 1800, 2300, 2500}, []float64{0, 20, 40, 60, 70}},
		{100, 0, 90, []float64{100}, []float64{0}}, {0, 0, 40, nil, nil}}
	{
		a := aggCase("d-lengths", 4, 3, mixed, identity(4))
		a.Ops = append(a.Ops, aggCase("", 4, 3, mixed, []int{3, 2, 1, 0}).Ops...)
		cases = append(cases, a)
	}
	{
		// a big batch with a long tail (a few extreme iterations): the bin-width rule asks for well over a hundred bins
		var tail []aggIter
		for i := 0; i < 3000; i++ {
			d := float64(i % 10)
			if i == 1234 {
				d = 800
			}
			if i == 2345 {
				d = 1000
			}
			tail = append(tail, aggIter{d, d / 2, 100, []float64{d}, []float64{d / 2}})
		}
		a := aggCase("d-long-tail", 3000, 1, tail, identity(3000))
		rev := make([]int, 3000)
		for i := range rev {
			rev[i] = 2999 - i
		}
		a.Ops = append(a.Ops, aggCase("", 3000, 1, tail, rev).Ops...)
		cases = append(cases, a)
	}
	{
		// flush, add more, flush again: the second report covers everything added so far
		a := aggCase("d-two-flushes", 4, 3, mixed, []int{1, 0})
		more := aggCase("", 4, 3, mixed, []int{2, 3})
		a.Ops = append(a.Ops, more.Ops[1:]...)
		cases = append(cases, a)
	}
	{
		// more results than announced (server mode takes the count from the request, not from the configuration)
		three := []aggIter{{36, 3, 290, []float64{10, 21, 36}, []float64{1, 2, 3}}, {66, 6, 295, []float64{20, 41, 66}, []float64{2, 4, 6}}, {96, 9, 280, []float64{30, 61, 96}, []float64{3, 6, 9}}}
		a := aggCase("d-more-than-announced", 2, 3, three, identity(3))
		a.Ops = append(a.Ops, aggCase("", 2, 3, three, []int{2, 1, 0}).Ops...)
		a.Ops = append(a.Ops, aggCase("", 1, 3, three, []int{1, 2, 0}).Ops...)
		cases = append(cases, a)
	}
	cases = append(cases, aggCase("d-none", 0, 2, nil, nil))
	for i := 0; i < n; i++ {
		k := 1 + r.Intn(40)
		if r.Intn(6) == 0 {
			k = 1 + r.Intn(3)
		}
		cycles := r.Intn(6)
		kind := r.Intn(5)
		its := make([]aggIter, k)
		for j := range its {
			its[j] = genIter(r, kind, cycles)
		}
		// the same multiset of results in two arrival orders within one case
		// the announced iteration count is only a capacity hint: fewer, as many or more results may arrive
		announced := pick(r, k, k, k-1, 1+k/2, 2*k, 0, 1)
		if announced < 0 {
			announced = 0
		}
		a := aggCase(fmt.Sprintf("r%d", i), announced, cycles, its, identity(k))
		b := aggCase("", announced, cycles, its, r.Perm(k))
		// periodic flushes (the server pool flushes every few results): statistics are cumulative
		for nf := r.Intn(3); nf > 0 && k > 1; nf-- {
			at := 2 + r.Intn(k-1) // after the cfg op and at least one add
			fl := wire.R("flush").Fs("cbrt", cbrtTable(k+1))
			b.Ops = append(b.Ops[:at], append([]*wire.Rec{fl}, b.Ops[at:]...)...)
		}
		a.Ops = append(a.Ops, b.Ops...)
		cases = append(cases, a)
	}
	return cases
}
