package main

import (
	"bytes"
	"compress/gzip"
	"context"
	"fmt"
	"io"
	"math/rand"
	"os"
	"os/exec"
	"path/filepath"
	"strconv"
	"time"

	"github.com/simimpact/srsim/pkg/logic/gcs/eval"
	"github.com/simimpact/srsim/pkg/logic/gcs/parse"
	"github.com/simimpact/srsim/pkg/model"
	"github.com/simimpact/srsim/pkg/simulation"
	"google.golang.org/protobuf/encoding/protojson"
	"verifharness/wire"
)

// The command-line batch (cmd/srsim/execute.go, package main) is driven as a program: the binary is
// built from the repository's working tree and run on a generated configuration with a seed; the
// statistics it writes are compared with the aggregator model over the iteration results of the
// seeds it must have used (the batch's own generator, seeded with the batch seed, hands one seed to
// every iteration).  Operations of the `agg` vocabulary are regenerated here from what the
// implementation did: `cfg`, one `add` per iteration result (computed in this process with the real
// simulation.Run), `flush` with the statistics of the result file as its observation.

func init() { components["cli"] = cliComp{} }

type cliComp struct{}

var cliBin string
var cliBuildErr string

func repoDir() string {
	if v := os.Getenv("VERIF_REPO"); v != "" {
		return v
	}
	return "/repo"
}

func cliScratch() string {
	exe, err := os.Executable()
	if err != nil {
		exe = os.TempDir() + "/x"
	}
	d := filepath.Join(filepath.Dir(exe), fmt.Sprintf("cli-scratch-%d", os.Getpid()))
	_ = os.MkdirAll(d, 0o755)
	return d
}

func cliBuild() {
	if cliBin != "" || cliBuildErr != "" {
		return
	}
	bin := filepath.Join(cliScratch(), "srsim-cli")
	cmd := exec.Command("go", "build", "-o", bin, "./cmd/srsim")
	cmd.Dir = repoDir()
	out, err := cmd.CombinedOutput()
	if err != nil {
		cliBuildErr = firstLine(string(out) + " " + err.Error())
		return
	}
	cliBin = bin
}

// the scratch directory (binary, configuration, output) goes when the process ends
func cliCleanup() {
	if cliBin != "" || cliBuildErr != "" {
		_ = os.RemoveAll(cliScratch())
	}
}

func (cliComp) Exec(c *wire.Case, w *wire.Writer) {
	w.Case(c.ID)
	defer w.End()
	cliBuild()
	for _, op := range c.Ops {
		if op.Name != "cli" {
			continue // regenerated below
		}
		w.Op(op)
		if cliBin == "" {
			w.Ob(wire.R("nobuild").S("msg", cliBuildErr))
			continue
		}
		cfg := realConfig(op)
		script := unhex(op.Str("script"))
		cfg.Logic = &model.SimConfig_Gcsl{Gcsl: script}
		b, err := cfg.MarshalJSON()
		if err != nil {
			w.Ob(wire.R("marshal-error"))
			continue
		}
		dir := filepath.Join(cliScratch(), "run")
		_ = os.RemoveAll(dir)
		_ = os.MkdirAll(dir, 0o755)
		cfgPath := filepath.Join(dir, "config.yaml")
		_ = os.WriteFile(cfgPath, b, 0o644)
		iters, workers, seed := op.Int("iters"), op.Int("workers"), op.Int("cseed")
		ctx, cancel := context.WithTimeout(context.Background(), realDeadline())
		cmd := exec.CommandContext(ctx, cliBin, "run", "-i", strconv.Itoa(iters), "-w", strconv.Itoa(workers), "--seed", strconv.Itoa(seed), "-n", "-o", filepath.Join(dir, "out"), cfgPath)
		var so bytes.Buffer
		cmd.Stdout, cmd.Stderr = &so, &so
		rerr := cmd.Run()
		timedOut := ctx.Err() == context.DeadlineExceeded
		cancel()
		if timedOut {
			w.Ob(wire.R("hang"))
			continue
		}
		// the iteration results the batch must have aggregated: one run per seed drawn from the batch's generator
		list, perr := parse.New(script).Parse()
		var its []*model.IterationResult
		failed := perr != nil
		if !failed {
			rng := rand.New(rand.NewSource(int64(seed)))
			for i := 0; i < iters; i++ {
				res, err := func() (res *model.IterationResult, err error) {
					defer func() {
						if r := recover(); r != nil {
							err = fmt.Errorf("panic: %v", r)
						}
					}()
					return simulation.Run(&simulation.RunOpts{Config: realConfig(op), Eval: eval.New(context.TODO(), list.Program), Seed: rng.Int63()})
				}()
				if err != nil {
					failed = true
					break
				}
				its = append(its, res)
			}
		}
		st := cliReadResult(filepath.Join(dir, "out", "result.gz"))
		if failed {
			// a batch one of whose iterations fails reports the failure and writes no statistics
			w.Ob(wire.R("cli").S("kind", "failing").B("exit0", rerr == nil).B("result", st != nil))
			continue
		}
		if rerr != nil || st == nil {
			w.Ob(wire.R("cli").S("kind", "no-result").B("exit0", rerr == nil).B("result", st != nil).S("out", clip(firstLine(lastLines(so.String())))))
			continue
		}
		w.Ob(wire.R("cli").S("kind", "result").B("exit0", true).B("result", true))
		w.Op(wire.R("cfg").I("iters", iters).I("cycles", op.Int("cycles")))
		for _, it := range its {
			w.Op(wire.R("add").F("dealt", it.TotalDamageDealt).F("taken", it.TotalDamageTaken).F("av", it.TotalAv).Fs("cdealt", it.CumulativeDamageDealtByCycle).Fs("ctaken", it.CumulativeDamageTakenByCycle))
		}
		w.Op(wire.R("flush").Fs("cbrt", cbrtTable(len(its)+1)))
		w.Ob(wire.R("iters").I("n", int(st.Iterations)))
		w.Ob(descRec("dealt", orDesc(st.TotalDamageDealt)))
		w.Ob(descRec("taken", orDesc(st.TotalDamageTaken)))
		w.Ob(descRec("av", orDesc(st.TotalAv)))
		w.Ob(overRec("dpc", 0, orOver(st.TotalDamageDealtPerCycle)))
		for i, o := range st.DamageDealtByCycle {
			w.Ob(overRec("dealtByCycle", i, orOver(o)))
		}
		for i, o := range st.DamageTakenByCycle {
			w.Ob(overRec("takenByCycle", i, orOver(o)))
		}
	}
}

func orDesc(d *model.DescriptiveStats) *model.DescriptiveStats {
	if d == nil {
		return &model.DescriptiveStats{}
	}
	return d
}

func orOver(o *model.OverviewStats) *model.OverviewStats {
	if o == nil {
		return &model.OverviewStats{}
	}
	return o
}

func lastLines(s string) string {
	if len(s) > 300 {
		s = s[len(s)-300:]
	}
	return s
}

func cliReadResult(path string) *model.Statistics {
	f, err := os.Open(path)
	if err != nil {
		return nil
	}
	defer f.Close()
	gz, err := gzip.NewReader(f)
	if err != nil {
		return nil
	}
	data, err := io.ReadAll(gz)
	if err != nil {
		return nil
	}
	res := new(model.SimResult)
	if err := (protojson.UnmarshalOptions{AllowPartial: true, DiscardUnknown: true}).Unmarshal(data, res); err != nil {
		return nil
	}
	if res.Statistics == nil {
		return &model.Statistics{}
	}
	return res.Statistics
}

func (cliComp) Gen(r *rand.Rand, tier string, n int) []*wire.Case {
	chars, lcs, relics := repoKeys("character.go"), repoKeys("lightcone.go"), repoKeys("relic.go")
	var cases []*wire.Case
	if len(chars) == 0 || len(lcs) == 0 || len(relics) == 0 {
		return []*wire.Case{{ID: "d-nokeys", Ops: []*wire.Rec{wire.R("nokeys")}}}
	}
	sample := realSpec{chars: []string{"danheng"}, lcs: []string{"only_silence_remains"}, eidols: []int{0}, levels: []int{80}, relics: []string{"-"}, abil: 1, energy: 50,
		enemies: []string{"dummy"}, elevel: 8, ehp: 20000, cycles: 3, seed: 1,
		script: "set_default_action(danheng, attack(LowestHP));\nregister_skill_cb(danheng, fn () { return skill(LowestHP); });\nregister_ult_cb(danheng, fn () { return ult(LowestHP); });\n"}
	op := func(s realSpec, iters, workers, seed int) *wire.Rec {
		return s.rec("cli").I("iters", iters).I("workers", workers).I("cseed", seed)
	}
	mk := func(id string, ops ...*wire.Rec) { cases = append(cases, &wire.Case{ID: id, Ops: ops}) }
	// the same batch from one worker and from several: the statistics are those of the same multiset
	mk("d-sample", op(sample, 12, 1, 7), op(sample, 12, 4, 7))
	mk("d-single-iteration", op(sample, 1, 1, 3), op(sample, 1, 3, 3))
	mk("d-more-workers-than-iterations", op(sample, 3, 8, 11), op(sample, 3, 1, 11))
	{
		bad := sample
		bad.chars = []string{"no_such_character"}
		mk("d-failing", op(bad, 5, 2, 1))
	}
	for i := 0; i < n; i++ {
		s := realSpecGen(r, chars, lcs, relics)
		s.cycles = pick(r, 1, 2, 3, 5)
		if s.ehp > 20000 {
			s.ehp = 20000
		}
		iters, seed := 2+r.Intn(24), pick(r, r.Intn(100000), r.Intn(100000), 1, 1<<40)
		mk(fmt.Sprintf("r%d", i), op(s, iters, 1, seed), op(s, iters, 2+r.Intn(4), seed))
	}
	_ = time.Second
	return cases
}
