// Package wire implements the line protocol shared with the Lean drivers.
//
//	case <id>
//	op <name> k=v ...
//	ob <name> k=v ...
//	end
//
// Floats travel as "x" + 16 hex digits (raw IEEE-754 bits); NaN is "xNaN".
package wire

import (
	"bufio"
	"fmt"
	"io"
	"math"
	"strconv"
	"strings"
)

type Rec struct {
	Name string
	KV   [][2]string
}

func R(name string) *Rec { return &Rec{Name: name} }

func (r *Rec) S(k, v string) *Rec {
	v = strings.Map(func(c rune) rune {
		if c == ' ' || c == '\n' || c == '\t' || c == '\r' {
			return '_'
		}
		return c
	}, v)
	r.KV = append(r.KV, [2]string{k, v})
	return r
}
func (r *Rec) I(k string, v int) *Rec     { return r.S(k, strconv.Itoa(v)) }
func (r *Rec) I64(k string, v int64) *Rec { return r.S(k, strconv.FormatInt(v, 10)) }
func (r *Rec) F(k string, v float64) *Rec { return r.S(k, FStr(v)) }
func (r *Rec) B(k string, v bool) *Rec {
	if v {
		return r.S(k, "1")
	}
	return r.S(k, "0")
}
func (r *Rec) Is(k string, v []int) *Rec {
	s := make([]string, len(v))
	for i, x := range v {
		s[i] = strconv.Itoa(x)
	}
	return r.S(k, strings.Join(s, ","))
}
func (r *Rec) Fs(k string, v []float64) *Rec {
	s := make([]string, len(v))
	for i, x := range v {
		s[i] = FStr(x)
	}
	return r.S(k, strings.Join(s, ","))
}
func (r *Rec) Ss(k string, v []string) *Rec { return r.S(k, strings.Join(v, ",")) }

func FStr(v float64) string {
	if math.IsNaN(v) {
		return "xNaN"
	}
	return fmt.Sprintf("x%016x", math.Float64bits(v))
}

func ParseF(s string) (float64, bool) {
	if s == "xNaN" {
		return math.NaN(), true
	}
	if !strings.HasPrefix(s, "x") {
		return 0, false
	}
	u, err := strconv.ParseUint(s[1:], 16, 64)
	if err != nil {
		return 0, false
	}
	return math.Float64frombits(u), true
}

func (r *Rec) String() string {
	var b strings.Builder
	b.WriteString(r.Name)
	for _, kv := range r.KV {
		b.WriteByte(' ')
		b.WriteString(kv[0])
		b.WriteByte('=')
		b.WriteString(kv[1])
	}
	return b.String()
}

func (r *Rec) Get(k string) (string, bool) {
	for _, kv := range r.KV {
		if kv[0] == k {
			return kv[1], true
		}
	}
	return "", false
}
func (r *Rec) Str(k string) string { v, _ := r.Get(k); return v }
func (r *Rec) Int(k string) int {
	v, _ := r.Get(k)
	n, _ := strconv.Atoi(v)
	return n
}
func (r *Rec) Flt(k string) float64 {
	v, _ := r.Get(k)
	f, _ := ParseF(v)
	return f
}
func (r *Rec) Bool(k string) bool { v, _ := r.Get(k); return v == "1" || v == "true" }
func (r *Rec) List(k string) []string {
	v, ok := r.Get(k)
	if !ok || v == "" {
		return nil
	}
	return strings.Split(v, ",")
}
func (r *Rec) Ints(k string) []int {
	var out []int
	for _, s := range r.List(k) {
		n, _ := strconv.Atoi(s)
		out = append(out, n)
	}
	return out
}
func (r *Rec) Flts(k string) []float64 {
	var out []float64
	for _, s := range r.List(k) {
		f, _ := ParseF(s)
		out = append(out, f)
	}
	return out
}
func (r *Rec) Has(k string) bool { _, ok := r.Get(k); return ok }

func ParseRec(fields []string) *Rec {
	r := &Rec{}
	if len(fields) == 0 {
		return r
	}
	r.Name = fields[0]
	for _, t := range fields[1:] {
		i := strings.IndexByte(t, '=')
		if i < 0 {
			r.KV = append(r.KV, [2]string{t, ""})
		} else {
			r.KV = append(r.KV, [2]string{t[:i], t[i+1:]})
		}
	}
	return r
}

// Case is one operation sequence.
type Case struct {
	ID  string
	Ops []*Rec
}

// ReadCases parses a file of cases (ob lines are ignored).
func ReadCases(rd io.Reader) ([]*Case, error) {
	sc := bufio.NewScanner(rd)
	sc.Buffer(make([]byte, 1<<20), 1<<26)
	var out []*Case
	var cur *Case
	for sc.Scan() {
		f := strings.Fields(sc.Text())
		if len(f) == 0 {
			continue
		}
		switch f[0] {
		case "case":
			cur = &Case{}
			if len(f) > 1 {
				cur.ID = f[1]
			}
		case "op":
			if cur != nil {
				cur.Ops = append(cur.Ops, ParseRec(f[1:]))
			}
		case "end":
			if cur != nil {
				out = append(out, cur)
				cur = nil
			}
		}
	}
	return out, sc.Err()
}

// Writer emits cases with the implementation's observations.
type Writer struct{ W *bufio.Writer }

func (w *Writer) Case(id string) { fmt.Fprintf(w.W, "case %s\n", id) }
func (w *Writer) Op(r *Rec)      { fmt.Fprintf(w.W, "op %s\n", r.String()) }
func (w *Writer) Ob(r *Rec)      { fmt.Fprintf(w.W, "ob %s\n", r.String()) }
func (w *Writer) End()           { fmt.Fprintf(w.W, "end\n"); w.W.Flush() }
