package main

// Component "sim": whole-battle runs of pkg/simulation with *scripted* content.
//
// Characters (verifchar0..3), one enemy kind (verifenemy) and four modifiers are registered once;
// what each of them does in a given case is a small program of engine API calls taken from the
// case (`progs`), and the script (logic.Eval) answers from decision tables of the case.  The
// observation is the ordered event log (lifecycle, action/insert/attack/hit brackets, HP, SP,
// energy and gauge changes, deaths), content markers carrying the values the Lean model takes as
// an oracle (HP ratio after an HP primitive, the enemy's random target pick), the battle-start
// facts (speeds, max HP, energy) and the iteration result.

import (
	"fmt"
	"math/rand"
	"os"
	"strconv"
	"strings"
	"time"

	"github.com/simimpact/srsim/pkg/engine"
	"github.com/simimpact/srsim/pkg/engine/event"
	"github.com/simimpact/srsim/pkg/engine/info"
	"github.com/simimpact/srsim/pkg/engine/logging"
	"github.com/simimpact/srsim/pkg/engine/modifier"
	"github.com/simimpact/srsim/pkg/engine/target/character"
	"github.com/simimpact/srsim/pkg/engine/target/enemy"
	"github.com/simimpact/srsim/pkg/key"
	"github.com/simimpact/srsim/pkg/logic"
	"github.com/simimpact/srsim/pkg/model"
	"github.com/simimpact/srsim/pkg/simulation"
	"verifharness/wire"
)

func init() {
	components["sim"] = simComp{}
	registerScripted()
}

type simComp struct{}

const simEventCap = 6000

// ---- scripted content -------------------------------------------------------------------------

type simCmd struct {
	op   byte
	sel  string
	a, b int
	c    int
}

type simDec struct {
	typ string
	ev  int
}

type simUlt struct {
	target int
	typ    string
	ev     int
}

// the case being run (the harness runs one simulation at a time)
type simRun struct {
	state   info.ActionState
	progs   [][]simCmd
	attack  map[key.TargetID]int
	skill   map[key.TargetID]int
	ult     map[key.TargetID]int
	action  map[key.TargetID]int
	start   int
	next    map[int][]simDec
	dflt    map[int]simDec
	ults    [][]simUlt
	calls   map[int]int
	ultCall int
	log     *simLogger
	eng     engine.Engine
	nchars  int
	charIdx int
	enmIdx  int
	cattack []int
	cskill  []int
	cult    []int
	eaction []int
}

var curSim *simRun

type simLogger struct {
	recs []*wire.Rec
	n    int
}

func (l *simLogger) add(r *wire.Rec) { l.recs = append(l.recs, r) }

func (l *simLogger) Log(e any) {
	l.n++
	if l.n > simEventCap {
		panic("verif: event cap reached")
	}
	if r := simEventRec(e); r != nil {
		l.recs = append(l.recs, r)
	}
}

func ids(l []key.TargetID) []int {
	out := make([]int, len(l))
	for i, t := range l {
		out[i] = int(t)
	}
	return out
}

func simEventRec(e any) *wire.Rec {
	switch v := e.(type) {
	case event.Initialize:
		return wire.R("Initialize")
	case event.CharactersAdded:
		l := []int{}
		for _, c := range v.Characters {
			l = append(l, int(c.ID))
		}
		return wire.R("CharactersAdded").Is("ids", l)
	case event.EnemiesAdded:
		l := []int{}
		for _, c := range v.Enemies {
			l = append(l, int(c.ID))
		}
		return wire.R("EnemiesAdded").Is("ids", l)
	case event.TurnTargetsAdded:
		return wire.R("TurnTargetsAdded").Is("ids", ids(v.Targets)).S("order", orderStr(v.TurnOrder))
	case event.BattleStart:
		r := wire.R("BattleStart")
		var uid, isc []int
		var spd, mhp, en, men []float64
		for _, s := range v.CharStats {
			uid, isc = append(uid, int(s.ID())), append(isc, 1)
			spd, mhp, en, men = append(spd, s.SPD()), append(mhp, s.MaxHP()), append(en, s.Energy()), append(men, s.MaxEnergy())
		}
		for _, s := range v.EnemyStats {
			uid, isc = append(uid, int(s.ID())), append(isc, 0)
			spd, mhp, en, men = append(spd, s.SPD()), append(mhp, s.MaxHP()), append(en, s.Energy()), append(men, s.MaxEnergy())
		}
		return r.Is("ids", uid).Is("ischar", isc).Fs("spd", spd).Fs("maxhp", mhp).Fs("energy", en).Fs("maxenergy", men)
	case event.TurnStart:
		return wire.R("TurnStart").I("active", int(v.Active)).F("delta", v.DeltaAV).F("total", v.TotalAV).S("order", orderStr(v.TurnOrder))
	case event.Phase1Start:
		return wire.R("Phase1Start")
	case event.Phase1End:
		return wire.R("Phase1End")
	case event.Phase2Start:
		return wire.R("Phase2Start")
	case event.Phase2End:
		return wire.R("Phase2End")
	case event.TurnEnd:
		return wire.R("TurnEnd")
	case event.TurnReset:
		return wire.R("TurnReset").I("t", int(v.ResetTarget)).F("cost", v.GaugeCost).S("order", orderStr(v.TurnOrder))
	case event.GaugeChange:
		return wire.R("GaugeChange").I("t", int(v.Target)).I64("old", int64(v.OldGauge)).I64("new", int64(v.NewGauge)).S("order", orderStr(v.TurnOrder))
	case event.Termination:
		return wire.R("Termination").I("reason", int(v.Reason)).F("total", v.TotalAV)
	case event.ActionStart:
		return wire.R("ActionStart").I("owner", int(v.Owner)).I("type", int(v.AttackType)).B("insert", v.IsInsert)
	case event.ActionEnd:
		return wire.R("ActionEnd").I("owner", int(v.Owner)).I("type", int(v.AttackType)).B("insert", v.IsInsert)
	case event.InsertStart:
		return wire.R("InsertStart").I("owner", int(v.Owner)).S("key", string(v.Key)).I("prio", int(v.Priority))
	case event.InsertEnd:
		return wire.R("InsertEnd").I("owner", int(v.Owner)).S("key", string(v.Key)).I("prio", int(v.Priority))
	case event.AttackStart:
		return wire.R("AttackStart").I("a", int(v.Attacker)).I("type", int(v.AttackType))
	case event.AttackEnd:
		return wire.R("AttackEnd").I("a", int(v.Attacker)).I("type", int(v.AttackType))
	case event.HitStart:
		return wire.R("HitStart").I("a", int(v.Attacker)).I("d", int(v.Defender))
	case event.HitEnd:
		return wire.R("HitEnd").I("a", int(v.Attacker)).I("d", int(v.Defender)).F("total", v.TotalDamage).F("ratio", v.HPRatioRemaining)
	case *event.HealStart:
		return wire.R("HealStart").I("src", int(v.Healer.ID())).I("t", int(v.Target.ID()))
	case event.HealEnd:
		return wire.R("HealEnd").I("src", int(v.Healer)).I("t", int(v.Target))
	case event.HPChange:
		return wire.R("HPChange").I("t", int(v.Target)).F("old", v.OldHPRatio).F("new", v.NewHPRatio).B("dmg", v.IsHPChangeByDamage)
	case event.LimboWaitHeal:
		return wire.R("LimboWaitHeal").I("t", int(v.Target)).B("c", v.IsCancelled)
	case event.TargetDeath:
		return wire.R("TargetDeath").I("t", int(v.Target)).I("killer", int(v.Killer))
	case event.SPChange:
		return wire.R("SPChange").I("old", v.OldSP).I("new", v.NewSP)
	case event.EnergyChange:
		return wire.R("EnergyChange").I("t", int(v.Target)).F("old", v.OldEnergy).F("new", v.NewEnergy)
	}
	return nil
}

func orderStr(ts []event.TurnStatus) string {
	if len(ts) == 0 {
		return "-"
	}
	parts := make([]string, len(ts))
	for i, t := range ts {
		parts[i] = fmt.Sprintf("%d:%d", int(t.ID), t.Gauge)
	}
	return strings.Join(parts, "|")
}

const (
	modRevive key.Modifier = "verif-revive"
	modDot    key.Modifier = "verif-dot"
	modFreeze key.Modifier = "verif-freeze"
	modP2     key.Modifier = "verif-p2"
	modBext   key.Modifier = "verif-bext"
	modDis    key.Modifier = "verif-disable"
	modCtr    key.Modifier = "verif-counter"
	// a revive whose insert comes late (priority 600: after inserted actions and ultimates)
	modReviveLate key.Modifier = "verif-revive-late"
	// a damage-over-time effect whose phase-1 attack hits the owner's whole side
	modDotAll key.Modifier = "verif-dot-all"
)

var simMods = []key.Modifier{modRevive, modDot, modFreeze, modP2, modBext, modDis, modCtr, modReviveLate, modDotAll}

type scriptedChar struct {
	eng engine.Engine
	id  key.TargetID
}

func (c *scriptedChar) Attack(t key.TargetID, st info.ActionState) {
	curSim.withState(st, func() { curSim.runProg(curSim.attack[c.id], c.id, t) })
}
func (c *scriptedChar) Skill(t key.TargetID, st info.ActionState) {
	curSim.withState(st, func() { curSim.runProg(curSim.skill[c.id], c.id, t) })
}
func (c *scriptedChar) Technique(t key.TargetID, _ info.ActionState) {}
func (c *scriptedChar) Ult(t key.TargetID, st info.ActionState) {
	curSim.withState(st, func() { curSim.runProg(curSim.ult[c.id], c.id, t) })
}

type scriptedEnemy struct {
	eng engine.Engine
	id  key.TargetID
}

func (e *scriptedEnemy) Action(t key.TargetID, _ info.ActionState) {
	curSim.log.add(wire.R("pick").I("t", int(t)))
	curSim.runProg(curSim.action[e.id], e.id, t)
}

// kinds: target types of attack / skill / ult, skill-point need and gain, max energy
var simKinds = []struct {
	attackT, skillT, ultT model.TargetType
	spNeed, spAdd         int
	maxEnergy             float64
	spd, hp               float64
	skillCheck            int // 0: no custom Skill.CanUse; 1: one that always allows; 2: one that never allows
}{
	{model.TargetType_ENEMIES, model.TargetType_ENEMIES, model.TargetType_ENEMIES, 1, 1, 100, 100, 1000, 0},
	{model.TargetType_ENEMIES, model.TargetType_ALLIES, model.TargetType_ALLIES, 1, 1, 120, 120, 800, 0},
	{model.TargetType_ENEMIES, model.TargetType_SELF, model.TargetType_SELF, 2, 1, 90, 90, 1200, 0},
	{model.TargetType_ENEMIES, model.TargetType_ENEMIES, model.TargetType_ENEMIES, 0, 2, 110, 134, 600, 0},
	{model.TargetType_ENEMIES, model.TargetType_ENEMIES, model.TargetType_ENEMIES, 1, 1, 100, 105, 900, 0},  // two ultimates (info.MultiUlt)
	{model.TargetType_ENEMIES, model.TargetType_ENEMIES, model.TargetType_ENEMIES, 1, 1, 100, 100, 1000, 1}, // a custom skill check on top of the skill-point cost
	{model.TargetType_ENEMIES, model.TargetType_ENEMIES, model.TargetType_ENEMIES, 1, 1, 100, 100, 1000, 2}, // a custom skill check that never allows the skill
	{model.TargetType_ENEMIES, model.TargetType_SELF, model.TargetType_ENEMIES, 1, 1, 100, 100, 1000, 0},    // skill on itself, ultimate on the enemies
	{model.TargetType_ENEMIES, model.TargetType_ENEMIES, model.TargetType_ALLIES, 1, 1, 100, 100, 1000, 0},  // skill on the enemies, ultimate on the team
}

// kind 4 has two ultimates and no single one
type scriptedMultiChar struct {
	eng engine.Engine
	id  key.TargetID
}

func (c *scriptedMultiChar) Attack(t key.TargetID, _ info.ActionState) {
	curSim.runProg(curSim.attack[c.id], c.id, t)
}
func (c *scriptedMultiChar) Skill(t key.TargetID, _ info.ActionState) {
	curSim.runProg(curSim.skill[c.id], c.id, t)
}
func (c *scriptedMultiChar) Technique(t key.TargetID, _ info.ActionState) {}
func (c *scriptedMultiChar) UltAttack(t key.TargetID, _ info.ActionState) {
	curSim.runProg(curSim.ult[c.id], c.id, t)
}
func (c *scriptedMultiChar) UltSkill(t key.TargetID, _ info.ActionState) {
	curSim.runProg(curSim.ult[c.id], c.id, t)
}

var counterDepth int

func skillCheckOf(k int) func(engine.Engine, info.CharInstance) bool {
	switch k {
	case 1:
		return func(engine.Engine, info.CharInstance) bool { return true }
	case 2:
		return func(engine.Engine, info.CharInstance) bool { return false }
	}
	return nil
}

func registerScripted() {
	for i, k := range simKinds {
		character.Register(key.Character(fmt.Sprintf("verifchar%d", i)), character.Config{
			Create: func(e engine.Engine, id key.TargetID, _ info.Character) info.CharInstance {
				cs := curSim
				idx := cs.charIdx
				cs.charIdx++
				cs.attack[id], cs.skill[id], cs.ult[id] = cs.cattack[idx], cs.cskill[idx], cs.cult[idx]
				if i == 4 {
					return &scriptedMultiChar{eng: e, id: id}
				}
				return &scriptedChar{eng: e, id: id}
			},
			Promotions: []character.PromotionData{{MaxLevel: 80, ATKBase: 100, DEFBase: 100, HPBase: k.hp, SPD: k.spd, CritChance: 0.05, CritDMG: 0.5, Aggro: 100}},
			Rarity:     4,
			Element:    model.DamageType_PHYSICAL,
			Path:       model.Path_ABUNDANCE,
			MaxEnergy:  k.maxEnergy,
			SkillInfo: character.SkillInfo{
				Attack: character.Attack{SPAdd: k.spAdd, TargetType: k.attackT},
				Skill:  character.Skill{SPNeed: k.spNeed, TargetType: k.skillT, CanUse: skillCheckOf(k.skillCheck)},
				Ult:    character.Ult{TargetType: k.ultT},
			},
		})
	}
	enemy.Register("verifenemy", enemy.Config{
		Create: func(e engine.Engine, id key.TargetID, _ info.Enemy) info.EnemyInstance {
			cs := curSim
			cs.action[id] = cs.eaction[cs.enmIdx]
			cs.enmIdx++
			return &scriptedEnemy{eng: e, id: id}
		},
		Curve: enemy.Curve1,
		Rank:  model.EnemyRank_ELITE,
		Base:  enemy.BaseStats{ATK: 100, DEF: 100, HP: 100, SPD: 100, Stance: 30, CritChance: 0, CritDMG: 0, MinFatigue: 0},
	})
	for _, rv := range []struct {
		name key.Modifier
		prio info.InsertPriority
	}{{modRevive, info.CharReviveSelf}, {modReviveLate, 600}} {
		rv := rv
		modifier.Register(rv.name, modifier.Config{
			Listeners: modifier.Listeners{
				OnLimboWaitHeal: func(mod *modifier.Instance) bool {
					owner := mod.Owner()
					mod.Engine().InsertAbility(info.Insert{
						Key:      "verif-revive",
						Source:   owner,
						Priority: rv.prio,
						Execute: func() {
							mod.Engine().SetHP(info.ModifyAttribute{Key: "verif-revive", Target: owner, Source: owner, Amount: mod.OwnerStats().MaxHP() * 0.5})
							curSim.mark(owner)
							mod.RemoveSelf()
						},
					})
					return true
				},
			},
		})
	}
	modifier.Register(modDotAll, modifier.Config{
		Listeners: modifier.Listeners{
			OnPhase1: func(mod *modifier.Instance) {
				side := mod.Engine().Enemies()
				if mod.Engine().IsCharacter(mod.Owner()) {
					side = mod.Engine().Characters()
				}
				mod.Engine().Attack(info.Attack{Key: "verif-dot", Source: mod.Source(), Targets: side,
					AttackType: model.AttackType_DOT, DamageType: model.DamageType_FIRE, DamageValue: 400})
			},
		},
	})
	modifier.Register(modDot, modifier.Config{
		Listeners: modifier.Listeners{
			OnPhase1: func(mod *modifier.Instance) {
				mod.Engine().Attack(info.Attack{Key: "verif-dot", Source: mod.Source(), Targets: []key.TargetID{mod.Owner()},
					AttackType: model.AttackType_DOT, DamageType: model.DamageType_FIRE, DamageValue: 400})
			},
		},
	})
	modifier.Register(modFreeze, modifier.Config{
		BehaviorFlags: []model.BehaviorFlag{model.BehaviorFlag_STAT_CTRL, model.BehaviorFlag_DISABLE_ACTION},
	})
	// strikes back from inside the announcement of an attack (an Attack call made by an AttackStart listener)
	modifier.Register(modCtr, modifier.Config{
		Listeners: modifier.Listeners{
			OnBeforeBeingAttacked: func(mod *modifier.Instance, e event.AttackStart) {
				// an announcement made from inside this strike would announce again, without end: a (recoverable)
				// panic instead of a stack overflow, so that the case is reported
				counterDepth++
				defer func() { counterDepth-- }()
				if counterDepth > 64 {
					panic("verif: the strike made from an attack announcement was announced as an attack of its own (64 levels deep)")
				}
				mod.Engine().Attack(info.Attack{Key: "verif-counter", Source: mod.Owner(), Targets: []key.TargetID{e.Attacker},
					AttackType: model.AttackType_NORMAL, DamageType: model.DamageType_PHYSICAL, DamageValue: 50})
			},
		},
	})
	modifier.Register(modDis, modifier.Config{
		BehaviorFlags: []model.BehaviorFlag{model.BehaviorFlag_DISABLE_ACTION},
	})
	modifier.Register(modBext, modifier.Config{
		BehaviorFlags: []model.BehaviorFlag{model.BehaviorFlag_BREAK_EXTEND},
	})
	modifier.Register(modP2, modifier.Config{
		Listeners: modifier.Listeners{
			OnPhase2: func(mod *modifier.Instance) {
				o := mod.Owner()
				mod.Engine().ModifyHPByRatio(info.ModifyHPByRatio{Key: "verif-p2", Target: o, Source: o, Ratio: -0.6, RatioType: model.ModifyHPRatioType_MAX_HP, Floor: 0})
				curSim.mark(o)
			},
		},
	})
}

// the action state of the character action that is running (nil inside inserts and enemy actions)
func (s *simRun) withState(st info.ActionState, f func()) {
	old := s.state
	s.state = st
	defer func() { s.state = old }()
	f()
}

func (s *simRun) mark(t key.TargetID) {
	s.log.add(wire.R("mark").I("t", int(t)).F("r", s.eng.HPRatio(t)))
}

func (s *simRun) resolve(sel string, src, pt key.TargetID) []key.TargetID {
	switch sel[0] {
	case 's':
		return []key.TargetID{src}
	case 'p':
		return []key.TargetID{pt}
	case 'o':
		if s.eng.IsCharacter(src) {
			return s.eng.Enemies()
		}
		return s.eng.Characters()
	case 'f':
		if s.eng.IsCharacter(src) {
			return s.eng.Characters()
		}
		return s.eng.Enemies()
	case 'u':
		n, _ := strconv.Atoi(sel[1:])
		return []key.TargetID{key.TargetID(n)}
	}
	return nil
}

var abortFlags = []model.BehaviorFlag{model.BehaviorFlag_STAT_CTRL, model.BehaviorFlag_DISABLE_ACTION}

func (s *simRun) runProg(p int, src, pt key.TargetID) {
	if p < 0 || p >= len(s.progs) {
		return
	}
	e := s.eng
	for _, c := range s.progs[p] {
		switch c.op {
		case 'A': // attack: a = attack type, b = repetitions, c = flat damage
			for i := 0; i < c.b; i++ {
				e.Attack(info.Attack{Key: "verif-attack", HitIndex: i, Source: src, Targets: s.resolve(c.sel, src, pt),
					AttackType: model.AttackType(c.a), DamageType: model.DamageType_PHYSICAL, DamageValue: float64(c.c)})
			}
		case 'E':
			// a character's own action ends its attack through the action state it was handed
			if s.state != nil {
				s.state.EndAttack()
			} else {
				e.EndAttack()
			}
		case 'H': // heal each selected unit by a flat amount a
			for _, t := range s.resolve(c.sel, src, pt) {
				e.Heal(info.Heal{Key: "verif-heal", Source: src, Targets: []key.TargetID{t}, HealValue: float64(c.a)})
				s.mark(t)
			}
		case 'C': // HP change by ratio on each selected unit (default: self): a percent of max HP taken away (given, when negative), floor b
			for _, t := range s.resolve(c.sel, src, pt) {
				e.ModifyHPByRatio(info.ModifyHPByRatio{Key: "verif-cost", Target: t, Source: src, Ratio: -float64(c.a) / 100, RatioType: model.ModifyHPRatioType_MAX_HP, Floor: float64(c.b)})
				s.mark(t)
			}
		case 'I': // insert ability: a = program, b = priority, c = abort flags
			prog, prio := c.a, c.b
			var fl []model.BehaviorFlag
			if c.c != 0 {
				fl = abortFlags
			}
			e.InsertAbility(info.Insert{Key: key.Insert(fmt.Sprintf("verif-insert-%d", prog)), Source: src, Priority: info.InsertPriority(prio), AbortFlags: fl,
				Execute: func() { s.runProg(prog, src, pt) }})
		case 'T':
			for _, t := range s.resolve(c.sel, src, pt) {
				e.InsertAction(t)
			}
		case 'G': // set gauge to a
			for _, t := range s.resolve(c.sel, src, pt) {
				e.SetGauge(info.ModifyAttribute{Key: "verif-gauge", Target: t, Source: src, Amount: float64(c.a)})
			}
		case 'N': // fixed energy change a
			for _, t := range s.resolve(c.sel, src, pt) {
				e.ModifyEnergyFixed(info.ModifyAttribute{Key: "verif-energy", Target: t, Source: src, Amount: float64(c.a)})
			}
		case 'M': // add modifier kind a (once)
			for _, t := range s.resolve(c.sel, src, pt) {
				if (c.a == 0 || c.a == 7) && (e.HasModifier(t, modRevive) || e.HasModifier(t, modReviveLate)) {
					continue // one revive effect per unit
				}
				if (c.a == 1 || c.a == 8) && (e.HasModifier(t, modDot) || e.HasModifier(t, modDotAll)) {
					continue // one damage-over-time effect per unit
				}
				if !e.HasModifier(t, simMods[c.a]) {
					e.AddModifier(t, info.Modifier{Name: simMods[c.a], Source: src})
				}
			}
		case 'R':
			for _, t := range s.resolve(c.sel, src, pt) {
				e.RemoveModifier(t, simMods[c.a])
			}
		case 'B': // a shield of flat strength a on each selected unit (hits on it are absorbed in part: total damage and HP damage differ)
			for _, t := range s.resolve(c.sel, src, pt) {
				e.AddShield("verif-shield", info.Shield{Source: src, Target: t, BaseShield: info.ShieldMap{}, ShieldValue: float64(c.a)})
			}
		case 'S':
			e.ModifySP(info.ModifySP{Key: "verif-sp", Source: src, Amount: c.a})
		case 'Z':
			// a kit that works on the lists the engine hands out as if they were its own (they must be): overwrites
			// every entry, appends, reslices — as target.Retarget does in place with its Targets argument
			for _, l := range [][]key.TargetID{e.Enemies(), e.Characters(), e.Neutrals()} {
				for i := range l {
					l[i] = l[len(l)-1]
				}
				l = append(l, 99)
				_ = l
			}
			// and the engine's own retarget over the engine's own list, with a filter that drops the first unit
			first := key.TargetID(-1)
			if en := e.Enemies(); len(en) > 0 {
				first = en[0]
			}
			_ = e.Retarget(info.Retarget{Targets: e.Enemies(), Filter: func(t key.TargetID) bool { return t != first }, IncludeLimbo: true, DisableRandom: true})
		}
	}
}

// ---- script ------------------------------------------------------------------------------------

type simEval struct{ s *simRun }

func toAction(d simDec) logic.Action {
	return logic.Action{Type: logic.ActionType(d.typ), TargetEvaluator: key.TargetEvaluator(d.ev)}
}

func (ev simEval) Init(e engine.Engine) error {
	s := ev.s
	s.eng = e
	e.Events().BattleStart.Subscribe(func(event.BattleStart) {
		if s.start >= 0 {
			chars, enemies := e.Characters(), e.Enemies()
			if len(chars) > 0 && len(enemies) > 0 {
				s.runProg(s.start, chars[0], enemies[0])
			}
		}
	})
	return nil
}

func (ev simEval) NextAction(id key.TargetID) (logic.Action, error) {
	s := ev.s
	l := s.next[int(id)]
	if len(l) == 0 {
		return logic.Action{Type: logic.ActionAttack, TargetEvaluator: 100}, nil
	}
	d := l[s.calls[int(id)]%len(l)]
	s.calls[int(id)]++
	return toAction(d), nil
}

func (ev simEval) DefaultAction(id key.TargetID) (logic.Action, error) {
	d, ok := ev.s.dflt[int(id)]
	if !ok {
		return logic.Action{Type: logic.ActionAttack, TargetEvaluator: 100}, nil
	}
	return toAction(d), nil
}

func (ev simEval) UltCheck() ([]logic.Action, error) {
	s := ev.s
	if len(s.ults) == 0 {
		return nil, nil
	}
	l := s.ults[s.ultCall%len(s.ults)]
	s.ultCall++
	var out []logic.Action
	for _, u := range l {
		out = append(out, logic.Action{Type: logic.ActionType(u.typ), Target: key.TargetID(u.target), TargetEvaluator: key.TargetEvaluator(u.ev)})
	}
	return out, nil
}

// ---- wire ---------------------------------------------------------------------------------------

func parseProgs(s string) [][]simCmd {
	var out [][]simCmd
	if s == "" || s == "-" {
		return out
	}
	for _, p := range strings.Split(s, ";") {
		var prog []simCmd
		if p != "" && p != "_" {
			for _, c := range strings.Split(p, "+") {
				f := strings.Split(c, ".")
				cmd := simCmd{op: f[0][0], sel: "s"}
				if len(f[0]) > 1 {
					cmd.sel = f[0][1:]
				}
				at := func(i int) int {
					if i < len(f) {
						n, _ := strconv.Atoi(f[i])
						return n
					}
					return 0
				}
				cmd.a, cmd.b, cmd.c = at(1), at(2), at(3)
				prog = append(prog, cmd)
			}
		}
		out = append(out, prog)
	}
	return out
}

var decNames = map[byte]string{'a': "attack", 's': "skill", 'u': "ult", 'x': "", 'v': "ult_attack", 'w': "ult_skill", 'e': "end"}

func parseDec(s string) simDec {
	n, _ := strconv.Atoi(s[1:])
	return simDec{typ: decNames[s[0]], ev: n}
}

// "1:a100,s101|2:a3"
func parseDecTable(s string) map[int][]simDec {
	out := map[int][]simDec{}
	if s == "" || s == "-" {
		return out
	}
	for _, part := range strings.Split(s, "|") {
		kv := strings.SplitN(part, ":", 2)
		id, _ := strconv.Atoi(kv[0])
		for _, d := range strings.Split(kv[1], ",") {
			out[id] = append(out[id], parseDec(d))
		}
	}
	return out
}

// "1u100+2u101|_|1u3": per call a list of target+type+evaluator
func parseUlts(s string) [][]simUlt {
	var out [][]simUlt
	if s == "" || s == "-" {
		return out
	}
	for _, part := range strings.Split(s, "|") {
		var l []simUlt
		if part != "_" {
			for _, u := range strings.Split(part, "+") {
				i := strings.IndexAny(u, "asuxvwe")
				t, _ := strconv.Atoi(u[:i])
				d := parseDec(u[i:])
				l = append(l, simUlt{target: t, typ: d.typ, ev: d.ev})
			}
		}
		out = append(out, l)
	}
	return out
}

func (simComp) Exec(c *wire.Case, w *wire.Writer) {
	w.Case(c.ID)
	defer w.End()
	for _, op := range c.Ops {
		w.Op(op)
		if op.Name != "run" {
			w.Ob(wire.R("badop"))
			continue
		}
		s := &simRun{
			progs: parseProgs(op.Str("progs")), attack: map[key.TargetID]int{}, skill: map[key.TargetID]int{}, ult: map[key.TargetID]int{}, action: map[key.TargetID]int{},
			start: op.Int("start"), next: parseDecTable(op.Str("next")), dflt: map[int]simDec{}, ults: parseUlts(op.Str("ults")), calls: map[int]int{},
			log: &simLogger{}, cattack: op.Ints("cattack"), cskill: op.Ints("cskill"), cult: op.Ints("cult"), eaction: op.Ints("eaction"),
		}
		for id, l := range parseDecTable(op.Str("dflt")) {
			s.dflt[id] = l[0]
		}
		cfg := &model.SimConfig{Settings: &model.SimulatorSettings{CycleLimit: uint32(op.Int("cycles")), Iterations: 1}}
		kinds, cspd, cen := op.Ints("ckind"), op.Flts("cspd"), op.Flts("cenergy")
		for i, k := range kinds {
			ch := &model.Character{Key: fmt.Sprintf("verifchar%d", k), Level: 80, MaxLevel: 80, LightCone: &model.LightCone{Key: "arrows", Level: 1, MaxLevel: 20, Imposition: 1},
				StartEnergy: cen[i]}
			if cspd[i] != 0 {
				ch.Relics = []*model.Relic{{Key: "musketeer_of_wild_wheat", MainStat: &model.RelicStat{Stat: model.Property_SPD_FLAT, Amount: cspd[i]}}}
			}
			cfg.Characters = append(cfg.Characters, ch)
		}
		ehp, espd := op.Flts("ehp"), op.Flts("espd")
		for i := range ehp {
			cfg.Enemies = append(cfg.Enemies, &model.Enemy{Key: "verifenemy", Level: 1, BaseStats: &model.BaseStats{Hp: ehp[i], Spd: espd[i]}})
		}
		s.nchars = len(kinds)
		curSim = s
		counterDepth = 0
		var res *model.IterationResult
		var err error
		crashed := ""
		// the run gets its own goroutine and a deadline: a run that neither returns nor reaches the event cap
		// (a loop that emits nothing) is reported as a hang and the process ends after this case
		done := make(chan struct{})
		go func() {
			defer close(done)
			defer func() {
				if r := recover(); r != nil {
					crashed = firstLine(fmt.Sprint(r))
				}
			}()
			res, err = simulation.Run(&simulation.RunOpts{Config: cfg, Eval: simEval{s}, Seed: int64(op.Int("seed")), Loggers: []logging.Logger{s.log}})
		}()
		hung := false
		select {
		case <-done:
		case <-time.After(simDeadline()):
			hung = true
		}
		if hung {
			w.Ob(wire.R("hang").I("events", s.log.n))
			w.End()
			os.Exit(0) // the spinning goroutine cannot be stopped; cases after this one are not executed
		}
		for _, r := range s.log.recs {
			w.Ob(r)
		}
		switch {
		case crashed != "" && strings.Contains(crashed, "event cap"):
			w.Ob(wire.R("capped"))
		case crashed != "":
			w.Ob(wire.R("panic").S("msg", crashed))
		case err != nil:
			w.Ob(wire.R("runerr").S("msg", firstLine(err.Error())))
		default:
			w.Ob(wire.R("result").F("dealt", res.TotalDamageDealt).F("taken", res.TotalDamageTaken).F("av", res.TotalAv).
				Fs("cd", res.CumulativeDamageDealtByCycle).Fs("ct", res.CumulativeDamageTakenByCycle))
		}
		curSim = nil
	}
}

func simDeadline() time.Duration {
	if v, err := strconv.Atoi(os.Getenv("VERIF_SIM_DEADLINE_MS")); err == nil && v > 0 {
		return time.Duration(v) * time.Millisecond
	}
	return 20 * time.Second
}

func (simComp) Gen(r *rand.Rand, tier string, n int) []*wire.Case {
	return simGen(r, tier, n)
}
