package main

import (
	"math"
	"math/rand"
)

// pick returns a random element.
func pick[T any](r *rand.Rand, xs ...T) T { return xs[r.Intn(len(xs))] }

// amount draws a "finite amount" with a bias towards boundaries.
func amount(r *rand.Rand, scale float64) float64 {
	switch r.Intn(10) {
	case 0:
		return 0
	case 1:
		return scale
	case 2:
		return -scale
	case 3:
		return scale * 10
	case 4:
		return -scale * 10
	case 5:
		return math.Round(r.Float64()*scale*2 - scale)
	default:
		return (r.Float64()*2 - 1) * scale * 1.5
	}
}

func frac(r *rand.Rand) float64 {
	switch r.Intn(8) {
	case 0:
		return 0
	case 1:
		return 1
	case 2:
		return 0.5
	default:
		return r.Float64()
	}
}
