package main

import (
	"fmt"
	"math/rand"
	"strings"

	"github.com/simimpact/srsim/pkg/engine/attribute"
	"github.com/simimpact/srsim/pkg/engine/combat"
	"github.com/simimpact/srsim/pkg/engine/event"
	"github.com/simimpact/srsim/pkg/engine/info"
	"github.com/simimpact/srsim/pkg/engine/logging"
	"github.com/simimpact/srsim/pkg/engine/prop"
	"github.com/simimpact/srsim/pkg/engine/shield"
	"github.com/simimpact/srsim/pkg/key"
	"github.com/simimpact/srsim/pkg/model"
	"verifharness/wire"
)

func init() { components["combat"] = combatComp{} }

type combatComp struct{}

// scriptedSource feeds chosen draws to the run's *rand.Rand.
type scriptedSource struct {
	q  []int64
	fb rand.Source // what an exhausted script falls back to (nil: zeros; a constant stream makes rand.Shuffle spin)
}

func (s *scriptedSource) Int63() int64 {
	if len(s.q) == 0 {
		if s.fb != nil {
			return s.fb.Int63()
		}
		return 0
	}
	v := s.q[0]
	s.q = s.q[1:]
	return v
}
func (s *scriptedSource) Seed(int64) {}

// stubTarget implements engine.Target for the combat manager (only IsCharacter is used).
type stubTarget struct{ chars map[key.TargetID]bool }

func (t *stubTarget) IsValid(key.TargetID) bool              { return true }
func (t *stubTarget) IsAlive(key.TargetID) bool              { return true }
func (t *stubTarget) IsCharacter(id key.TargetID) bool       { return t.chars[id] }
func (t *stubTarget) IsEnemy(id key.TargetID) bool           { return !t.chars[id] }
func (t *stubTarget) AdjacentTo(key.TargetID) []key.TargetID { return nil }
func (t *stubTarget) Characters() []key.TargetID             { return nil }
func (t *stubTarget) Enemies() []key.TargetID                { return nil }
func (t *stubTarget) Neutrals() []key.TargetID               { return nil }
func (t *stubTarget) AddNeutralTarget() key.TargetID         { return 0 }
func (t *stubTarget) RemoveNeutralTarget(key.TargetID)       {}
func (t *stubTarget) Retarget(info.Retarget) []key.TargetID  { return nil }

var dmgTypes = []model.DamageType{0, 1, 2, 3, 4, 5, 6, 7}

func cstatsProps(op *wire.Rec) info.PropMap {
	pm := info.PropMap{
		prop.ATKBase: op.Flt("atk"), prop.DEFBase: op.Flt("def"), prop.HPBase: op.Flt("maxhp"),
		prop.AllDamagePercent: op.Flt("alldmg"), prop.DOTDamagePercent: op.Flt("dot"), prop.BreakEffect: op.Flt("be"),
		prop.AllDamageRES: op.Flt("allres"), prop.AllDamagePEN: op.Flt("allpen"), prop.AllDamageTaken: op.Flt("alltaken"),
		prop.AllDamageReduce: op.Flt("reduce"), prop.Fatigue: op.Flt("fatigue"),
		prop.CritChance: op.Flt("cc"), prop.CritDMG: op.Flt("cd"), prop.HealBoost: op.Flt("healboost") / 2, prop.HealBoostConvert: op.Flt("healboost") / 2, prop.HealTaken: op.Flt("healtaken"),
		prop.EnergyRegen: op.Flt("regen"), prop.AllStanceDMGPercent: op.Flt("stancepct"),
		// percentage and flat parts of ATK and DEF (absent: 0): the stat is base x (1 + percent) + flat, not below 0
		prop.ATKPercent: op.Flt("atkpct"), prop.ATKFlat: op.Flt("atkflat") / 2, prop.ATKConvert: op.Flt("atkflat") / 2, prop.DEFPercent: op.Flt("defpct"), prop.DEFFlat: op.Flt("defflat") * 0.25, prop.DEFConvert: op.Flt("defflat") * 0.75, // the flat part arrives as a flat and a converted addend
	}
	for i, v := range op.Flts("dmgpct") {
		pm[prop.DamagePercent(dmgTypes[i])] = v
	}
	for i, v := range op.Flts("res") {
		pm[prop.DamageRES(dmgTypes[i])] = v
	}
	for i, v := range op.Flts("pen") {
		pm[prop.DamagePEN(dmgTypes[i])] = v
	}
	for i, v := range op.Flts("taken") {
		pm[prop.DamageTaken(dmgTypes[i])] = v
	}
	delete(pm, prop.Property(0))
	return pm
}

func combatEventRec(e any) *wire.Rec {
	if r := attrEventRec(e); r != nil {
		return r
	}
	if r := shieldEventRec(e); r != nil {
		return r
	}
	tg := func(ts []key.TargetID) []int {
		out := make([]int, len(ts))
		for i, t := range ts {
			out[i] = int(t)
		}
		return out
	}
	ki := func(k string) int { var n int; fmt.Sscanf(strings.TrimPrefix(k, "a"), "%d", &n); return n }
	switch v := e.(type) {
	case event.AttackStart:
		return wire.R("AttackStart").I("key", ki(string(v.Key))).I("src", int(v.Attacker)).Is("targets", tg(v.Targets)).I("atype", int(v.AttackType)).I("dtype", int(v.DamageType))
	case event.AttackEnd:
		return wire.R("AttackEnd").I("key", ki(string(v.Key))).I("src", int(v.Attacker)).Is("targets", tg(v.Targets)).I("atype", int(v.AttackType)).I("dtype", int(v.DamageType))
	case event.HitStart:
		return wire.R("HitStart").I("src", int(v.Attacker)).I("tgt", int(v.Defender))
	case event.HitEnd:
		return wire.R("HitEnd").I("src", int(v.Attacker)).I("tgt", int(v.Defender)).F("base", v.BaseDamage).F("defm", v.DefenceMultiplier).
			F("res", v.Resistance).F("vul", v.Vulnerability).F("tough", v.ToughnessMultiplier).F("fatigue", v.Fatigue).F("reduce", v.AllDamageReduce).
			F("critdmg", v.CritDamage).F("total", v.TotalDamage).F("hpdmg", v.HPDamage).F("shielddmg", v.ShieldDamage).F("hprem", v.HPRatioRemaining).B("crit", v.IsCrit)
	case *event.HealStart:
		return wire.R("HealStart").I("src", int(v.Healer.ID())).I("tgt", int(v.Target.ID()))
	case event.HealEnd:
		return wire.R("HealEnd").I("src", int(v.Healer)).I("tgt", int(v.Target)).F("amount", v.HealAmount).F("overflow", v.OverflowHealAmount)
	}
	return nil
}

func (combatComp) Exec(c *wire.Case, w *wire.Writer) {
	w.Case(c.ID)
	defer w.End()
	ev := &event.System{}
	stub := &stubEval{props: map[key.TargetID]info.PropMap{}, weak: map[key.TargetID]info.WeaknessMap{}}
	attr := attribute.New(ev, stub)
	shm := shield.New(ev, attr)
	tgt := &stubTarget{chars: map[key.TargetID]bool{}}
	src := &scriptedSource{}
	mgr := combat.New(ev, attr, shm, tgt, rand.New(src))
	lg := &recLogger{conv: combatEventRec}
	logging.InitLoggers(lg)
	defer logging.InitLoggers()
	weak := map[key.TargetID]info.WeaknessMap{}
	var healAdj *wire.Rec
	ev.HealStart.Subscribe(func(e *event.HealStart) {
		// a listener that answers a heal with a heal of its own (to another unit), before it adjusts anything
		if op := healAdj; op != nil && op.Has("nest") {
			healAdj = nil // the listener's own heal is an ordinary one
			bh := info.HealMap{}
			for k, v := range parseTerms(op.List("nterms")) {
				bh[model.HealFormula(k)] = v
			}
			mgr.Heal(info.Heal{Key: "nested", Targets: []key.TargetID{key.TargetID(op.Int("ntgt"))}, Source: key.TargetID(op.Int("nsrc")), BaseHeal: bh, HealValue: op.Flt("nflat")})
			healAdj = op
		}
		if healAdj == nil || !healAdj.Has("adj") {
			return
		}
		e.HealValue += healAdj.Flt("aflat")
		if k := healAdj.Int("akind"); k != 0 {
			e.BaseHeal[model.HealFormula(k)] = healAdj.Flt("aterm")
		}
		e.Healer.AddProperty("adj", prop.ATKFlat, healAdj.Flt("aatk"))
		e.Target.AddProperty("adj", prop.HealTaken, healAdj.Flt("ataken"))
	}, 1)
	// a hit listener that adjusts the stats snapshots of the hit it is given (of every hit, or of the hit on one defender only)
	var hitAdj *wire.Rec
	ev.HitStart.Subscribe(func(e event.HitStart) {
		if hitAdj == nil || !hitAdj.Has("hadj") {
			return
		}
		if only := hitAdj.Int("honly"); only != 0 && key.TargetID(only) != e.Defender {
			return
		}
		e.Hit.Attacker.AddProperty("hadj", prop.AllDamagePercent, hitAdj.Flt("hdmg"))
		e.Hit.Attacker.AddProperty("hadj", prop.CritChance, hitAdj.Flt("hcrit"))
		e.Hit.Defender.AddProperty("hadj", prop.AllDamageTaken, hitAdj.Flt("htaken"))
		// a further damage reduction of the defender and a further fatigue of the attacker: these stack multiplicatively with what is there
		if x := hitAdj.Flt("hreduce"); x != 0 {
			e.Hit.Defender.AddProperty("hadj", prop.AllDamageReduce, x)
		}
		if x := hitAdj.Flt("hfatigue"); x != 0 {
			e.Hit.Attacker.AddProperty("hadj", prop.Fatigue, x)
		}
	})
	// units registered with revive=1 hold their death back (LimboWaitHeal cancelled): they wait at 0 HP for a heal
	revive := map[key.TargetID]bool{}
	ev.LimboWaitHeal.Subscribe(func(e event.LimboWaitHeal) bool { return revive[e.Target] }, 1)
	known := map[key.TargetID]bool{}
	for _, op := range c.Ops {
		w.Op(op)
		id := key.TargetID(op.Int("id"))
		func() {
			defer func() {
				if r := recover(); r != nil {
					w.Ob(wire.R("panic").S("msg", firstLine(fmt.Sprint(r))))
				}
			}()
			switch op.Name {
			case "unit":
				if known[id] {
					return
				}
				revive[id] = op.Bool("revive")
				known[id] = true
				stub.props[id] = cstatsProps(op)
				tgt.chars[id] = op.Bool("char")
				// the unit's weaknesses: every other one innate (its attributes), the rest implanted by a modifier
				wm := info.NewWeaknessMap()
				stub.weak[id] = info.NewWeaknessMap()
				for i, d := range op.Ints("weak") {
					if i%2 == 0 {
						wm[model.DamageType(d)] = true
					} else {
						stub.weak[id][model.DamageType(d)] = true
					}
				}
				weak[id] = wm
				_ = attr.AddTarget(id, info.Attributes{Level: op.Int("level"), HPRatio: op.Flt("hpr"), Energy: op.Flt("energy"), MaxEnergy: op.Flt("maxenergy"),
					Stance: op.Flt("stance"), MaxStance: op.Flt("maxstance"), Weakness: wm})
			case "stats":
				if !known[id] {
					return
				}
				stub.props[id] = cstatsProps(op)
				tgt.chars[id] = op.Bool("char")
				for k := range weak[id] {
					delete(weak[id], k)
				}
				stub.weak[id] = info.NewWeaknessMap()
				for i, d := range op.Ints("weak") {
					if i%2 == 0 {
						weak[id][model.DamageType(d)] = true
					} else {
						stub.weak[id][model.DamageType(d)] = true
					}
				}
			case "shield":
				t := key.TargetID(op.Int("tgt"))
				s := key.TargetID(op.Int("src"))
				save := stub.props[s]
				save2 := stub.props[t]
				stub.props[s] = info.PropMap{}
				stub.props[t] = info.PropMap{}
				lgsave := lg.recs
				shm.AddShield(key.Shield(fmt.Sprintf("k%d", op.Int("key"))), info.Shield{Source: s, Target: t, BaseShield: info.ShieldMap{}, ShieldValue: op.Flt("hp")})
				lg.recs = lgsave
				stub.props[s] = save
				stub.props[t] = save2
			case "sethp":
				_ = attr.SetHP(info.ModifyAttribute{Key: "k", Target: id, Source: id, Amount: op.Flt("amt")}, false)
			case "attack":
				var ts []key.TargetID
				for _, t := range op.Ints("targets") {
					ts = append(ts, key.TargetID(t))
				}
				bd := info.DamageMap{}
				for k, v := range parseTerms(op.List("terms")) {
					bd[model.DamageFormula(k)] = v
				}
				src.q = nil
				for _, u := range op.Flts("draws") {
					src.q = append(src.q, int64(u*(1<<63))) // Float64() = float64(Int63())/2^63
				}
				hitAdj = op
				defer func() { hitAdj = nil }()
				mgr.Attack(info.Attack{Key: key.Attack(fmt.Sprintf("a%d", op.Int("key"))), Targets: ts, Source: key.TargetID(op.Int("src")),
					AttackType: model.AttackType(op.Int("atype")), DamageType: model.DamageType(op.Int("dtype")), BaseDamage: bd,
					EnergyGain: op.Flt("energy"), StanceDamage: op.Flt("stance"), HitRatio: op.Flt("ratio"), AsPureDamage: op.Bool("pure"),
					DamageValue: op.Flt("flat")})
			case "endattack":
				mgr.EndAttack()
			case "heal":
				var ts []key.TargetID
				for _, t := range op.Ints("targets") {
					ts = append(ts, key.TargetID(t))
				}
				bh := info.HealMap{}
				for k, v := range parseTerms(op.List("terms")) {
					bh[model.HealFormula(k)] = v
				}
				healAdj = op
				mgr.Heal(info.Heal{Key: "h", Targets: ts, Source: key.TargetID(op.Int("src")), BaseHeal: bh, HealValue: op.Flt("flat")})
				healAdj = nil
			default:
				w.Ob(wire.R("badop"))
			}
		}()
		for _, r := range lg.take() {
			w.Ob(r)
		}
	}
}

// ---- generation ----

type cunit struct {
	id    int
	level int
	char  bool
}

func sevenVals(r *rand.Rand, choices ...float64) []float64 {
	out := make([]float64, 8)
	for i := 1; i < 8; i++ {
		out[i] = pick(r, choices...)
	}
	return out
}

func cstatsInto(r *rand.Rand, op *wire.Rec, u cunit, extreme bool) *wire.Rec {
	res := sevenVals(r, 0, 0.2, -0.2, 0.4)
	pen := sevenVals(r, 0, 0, 0.1, 0.25)
	taken := sevenVals(r, 0, 0, 0.1, 0.35)
	alltaken, reduce, cc := pick(r, 0.0, 0.1, 0.25), pick(r, 0.0, 0.08, 0.3), pick(r, 0.05, 0.5, 0.7, 1.2, 0)
	if extreme {
		res = sevenVals(r, 1.5, -1.6, 0.95, 0.9, -1)
		pen = sevenVals(r, 0, 0.8, 0)
		taken = sevenVals(r, 0, 1.5, 3)
		alltaken, reduce = pick(r, 0.0, 1.2, 2.5), pick(r, 0.99, 0.995, 1, 0.5)
	}
	var weak []int
	for d := 1; d <= 7; d++ {
		if r.Intn(3) == 0 {
			weak = append(weak, d)
		}
	}
	return op.I("id", u.id).F("atk", pick(r, 700.0, 1234.5, 2000, 0)).F("def", pick(r, 400.0, 1100.75, 0, 600)).F("maxhp", pick(r, 1000.0, 3200.5, 100000)).
		I("level", u.level).F("alldmg", pick(r, 0.0, 0.1, 0.3)).Fs("dmgpct", sevenVals(r, 0, 0.144, 0.388)).F("dot", pick(r, 0.0, 0.3)).F("be", pick(r, 0.0, 0.2, 1.1)).
		F("allres", pick(r, 0.0, 0, 0.1)).Fs("res", res).F("allpen", pick(r, 0.0, 0, 0.12)).Fs("pen", pen).F("alltaken", alltaken).Fs("taken", taken).
		F("reduce", reduce).F("fatigue", pick(r, 0.0, 0, 0.15)).F("cc", cc).F("cd", pick(r, 0.5, 1.2, 2.44)).
		F("healboost", pick(r, 0.0, 0.1, 0.345)).F("healtaken", pick(r, 0.0, 0, 0.2)).F("regen", pick(r, 0.0, 0.05, 0.194)).F("stancepct", pick(r, 0.0, 0.2, 0.5)).
		Is("weak", weak).B("char", u.char).
		F("atkpct", pick(r, 0.0, 0, 0.3, -0.5)).F("atkflat", pick(r, 0.0, 0, 120.5)). // ATK stays off its clamp here (heal listeners add to its flat part; the clamp itself is C06's)
		F("defpct", pick(r, 0.0, 0, 0.2, -1.2, -0.5)).F("defflat", pick(r, 0.0, 0, 150, -800))
}

func cunitOp(r *rand.Rand, u cunit, extreme bool) *wire.Rec {
	maxS := pick(r, 60.0, 90, 0, 120)
	op := wire.R("unit").F("hpr", pick(r, 1.0, 0.5, 0.25, frac(r))).F("energy", pick(r, 0.0, 50, 100)).F("maxenergy", pick(r, 100.0, 120)).
		F("stance", pick(r, maxS, 0, maxS/2)).F("maxstance", maxS).B("revive", r.Intn(4) == 0)
	return cstatsInto(r, op, u, extreme)
}

func bbdOf(level int) float64 {
	if level >= 0 && level < len(combat.BreakBaseDamage) {
		return combat.BreakBaseDamage[level]
	}
	return 0
}

func attackOp(r *rand.Rand, k int, src cunit, targets []int) *wire.Rec {
	terms := map[int]float64{}
	for t := 0; t < 1+r.Intn(3); t++ {
		terms[pick(r, 1, 1, 2, 3, 4)] = pick(r, 0.5, 1, 2.2, 0.013, 0.3)
	}
	atype := pick(r, 1, 2, 3, 4, 5, 8, 9, 1, 2)
	var draws []float64
	for range targets {
		draws = append(draws, pick(r, 0.0, 0.05, 0.049999999999999996, 0.5, 0.7, 0.9999999999999999, float64(r.Int63n(1<<53))/(1<<53)))
	}
	op := wire.R("attack").I("key", k).I("src", src.id).Is("targets", targets).I("atype", atype).I("dtype", pick(r, 1, 2, 3, 4, 5, 6, 7)).
		Ss("terms", termsStr(terms)).F("flat", pick(r, 0.0, 0, 55.5)).F("ratio", pick(r, 0.0, 1, 0.45, 0.55, -1)).B("pure", r.Intn(6) == 0).
		F("energy", pick(r, 0.0, 20, 30)).F("stance", pick(r, 0.0, 30, 60, 90)).F("bbd", bbdOf(src.level)).Fs("draws", draws)
	if r.Intn(3) == 0 {
		only := 0
		if len(targets) > 0 && r.Intn(3) != 0 {
			only = targets[r.Intn(len(targets))]
		}
		op.I("hadj", 1).I("honly", only).F("hdmg", pick(r, 0.0, 0.5, 1)).F("hcrit", pick(r, 0.0, 0.3, 1)).F("htaken", pick(r, 0.0, 0.25)).
			F("hreduce", pick(r, 0.0, 0, 0.2, 0.35)).F("hfatigue", pick(r, 0.0, 0, 0.15))
	}
	return op
}

func healOp(r *rand.Rand, src int, targets []int, adj bool) *wire.Rec {
	terms := map[int]float64{}
	for t := 0; t < r.Intn(4); t++ {
		terms[pick(r, 1, 2, 3, 4, 5)] = pick(r, 0.05, 0.1, 0.25, 0.013)
	}
	op := wire.R("heal").I("src", src).Is("targets", targets).Ss("terms", termsStr(terms)).F("flat", pick(r, 0.0, 15, 200.5, 5000))
	if adj {
		op.I("adj", 1).F("aflat", pick(r, 0.0, 7, -3)).I("akind", pick(r, 0, 1, 4, 5)).F("aterm", pick(r, 0.1, 0.33)).F("aatk", pick(r, 0.0, 100)).F("ataken", pick(r, 0.0, 0.15))
	}
	return op
}

// withNestedHeal makes the heal's HealStart listener perform a heal of its own on a unit that is not among the outer targets
func withNestedHeal(r *rand.Rand, op *wire.Rec, src int, units []int) *wire.Rec {
	var free []int
	for _, u := range units {
		in := false
		for _, t := range op.Ints("targets") {
			in = in || t == u
		}
		if !in {
			free = append(free, u)
		}
	}
	if len(free) == 0 {
		return op
	}
	terms := map[int]float64{pick(r, 1, 3, 4, 5): pick(r, 0.05, 0.5, 0.2)}
	if r.Intn(3) == 0 {
		terms[pick(r, 2, 4)] = 0.1
	}
	return op.I("nest", 1).I("nsrc", pick(r, src, free[r.Intn(len(free))])).I("ntgt", free[r.Intn(len(free))]).Ss("nterms", termsStr(terms)).F("nflat", pick(r, 0.0, 30))
}

func (combatComp) Gen(r *rand.Rand, tier string, n int) []*wire.Case {
	var cases []*wire.Case
	mk := func(id string, ops ...*wire.Rec) { cases = append(cases, &wire.Case{ID: id, Ops: ops}) }
	zero7 := make([]float64, 8)
	plainU := func(id int, char bool, hpr float64) *wire.Rec {
		return wire.R("unit").F("hpr", hpr).F("energy", 0).F("maxenergy", 100).F("stance", 60).F("maxstance", 60).
			I("id", id).F("atk", 1000).F("def", 500).F("maxhp", 2000).I("level", 80).F("alldmg", 0).Fs("dmgpct", zero7).F("dot", 0).F("be", 0).
			F("allres", 0).Fs("res", zero7).F("allpen", 0).Fs("pen", zero7).F("alltaken", 0).Fs("taken", zero7).F("reduce", 0).F("fatigue", 0).
			F("cc", 0.05).F("cd", 0.5).F("healboost", 0).F("healtaken", 0).F("regen", 0).F("stancepct", 0).Is("weak", []int{2}).B("char", char)
	}
	set := func(op *wire.Rec, k string, v string) *wire.Rec {
		for i := range op.KV {
			if op.KV[i][0] == k {
				op.KV[i][1] = v
			}
		}
		return op
	}
	seven := func(idx int, v float64) string {
		a := make([]float64, 8)
		a[idx] = v
		return wire.R("x").Fs("v", a).Str("v")
	}
	atk := func(k, src int, tg []int, atype, dtype int, draw float64) *wire.Rec {
		dr := make([]float64, len(tg))
		for i := range dr {
			dr[i] = draw
		}
		return wire.R("attack").I("key", k).I("src", src).Is("targets", tg).I("atype", atype).I("dtype", dtype).Ss("terms", termsStr(map[int]float64{1: 1})).
			F("flat", 0).F("ratio", 1).B("pure", false).F("energy", 20).F("stance", 30).F("bbd", bbdOf(80)).Fs("draws", dr)
	}
	// directed pairs: the same hit with a property set on the attacker only / the defender only
	for _, f := range []string{"taken", "res", "pen", "dmgpct"} {
		mk("d-att-"+f, set(plainU(1, true, 1), f, seven(2, 0.3)), plainU(2, false, 1), atk(1, 1, []int{2}, 1, 2, 0.5), wire.R("endattack"))
		mk("d-def-"+f, plainU(1, true, 1), set(plainU(2, false, 1), f, seven(2, 0.3)), atk(1, 1, []int{2}, 1, 2, 0.5), wire.R("endattack"))
	}
	for _, f := range []string{"alltaken", "allres", "allpen", "alldmg", "reduce", "fatigue", "stancepct", "regen", "def", "atk", "cd", "be", "dot"} {
		mk("d-att-"+f, set(plainU(1, true, 1), f, wire.FStr(0.25)), plainU(2, false, 1), atk(1, 1, []int{2}, 1, 2, 0.01), wire.R("endattack"))
		mk("d-def-"+f, plainU(1, true, 1), set(plainU(2, false, 1), f, wire.FStr(0.25)), atk(1, 1, []int{2}, 1, 2, 0.01), wire.R("endattack"))
	}
	// crit threshold: draw equal to / just below / above the crit chance; non-crit attack types
	for i, d := range []float64{0.05, 0.049999999999999996, 0.050000000000000044, 0} {
		mk(fmt.Sprintf("d-crit-%d", i), plainU(1, true, 1), plainU(2, false, 1), atk(1, 1, []int{2}, 2, 1, d))
	}
	// a hit listener that changes the snapshots of one hit only: the other hits of the same attack must not see it
	mk("d-hit-adj-one-target", plainU(1, true, 1), plainU(2, false, 1), plainU(3, false, 1), plainU(4, false, 1),
		atk(1, 1, []int{2, 3, 4}, 1, 2, 0.5).I("hadj", 1).I("honly", 2).F("hdmg", 1).F("hcrit", 0).F("htaken", 0.25), wire.R("endattack"),
		atk(2, 1, []int{2, 3, 4}, 1, 2, 0.2).I("hadj", 1).I("honly", 3).F("hdmg", 0).F("hcrit", 1).F("htaken", 0), wire.R("endattack"),
		atk(3, 1, []int{3, 2, 3}, 2, 2, 0.5).I("hadj", 1).I("honly", 0).F("hdmg", 0.5).F("hcrit", 0).F("htaken", 0.1), wire.R("endattack"))
	// defence pushed to and below its clamp by percentage and flat reductions
	// a hit listener's damage reduction / fatigue on top of what the unit already has: the remaining shares multiply (10 % and 20 % give 28 %)
	mk("d-hit-adj-stacking", plainU(1, true, 1), set(plainU(2, false, 1), "reduce", wire.FStr(0.1)), set(plainU(3, false, 1), "fatigue", wire.FStr(0.3)),
		atk(1, 1, []int{2}, 1, 2, 0.5).I("hadj", 1).I("honly", 0).F("hdmg", 0).F("hcrit", 0).F("htaken", 0).F("hreduce", 0.2).F("hfatigue", 0), wire.R("endattack"),
		atk(2, 3, []int{1}, 1, 2, 0.5).I("hadj", 1).I("honly", 0).F("hdmg", 0).F("hcrit", 0).F("htaken", 0).F("hreduce", 0).F("hfatigue", 0.15), wire.R("endattack"),
		atk(3, 1, []int{3}, 1, 2, 0.5).I("hadj", 1).I("honly", 0).F("hdmg", 0).F("hcrit", 0).F("htaken", 0).F("hreduce", 0.2).F("hfatigue", 0.15), wire.R("endattack"))
	mk("d-def-clamp", plainU(1, true, 1), plainU(2, false, 1).F("defpct", -1.2).F("defflat", 150), plainU(3, false, 1).F("defflat", -800), plainU(4, false, 1).F("defpct", -0.5).F("defflat", 100),
		atk(1, 1, []int{2, 3, 4}, 1, 2, 0.5), wire.R("endattack"))
	// weaknesses: innate ones (first of the list) and implanted by a modifier (second), hit by each element and by one it is not weak to
	mk("d-weak-implanted", plainU(1, true, 1), set(plainU(2, false, 1), "weak", "3,2"), set(plainU(3, false, 1), "weak", "4,5,2"),
		atk(1, 1, []int{2, 3}, 1, 2, 0.5), atk(2, 1, []int{2, 3}, 1, 3, 0.5), atk(3, 1, []int{2, 3}, 1, 5, 0.5), atk(4, 1, []int{2, 3}, 1, 6, 0.5), wire.R("endattack"))
	mk("d-crit-dot", plainU(1, true, 1), plainU(2, false, 1), atk(1, 1, []int{2}, 4, 1, 0), atk(2, 1, []int{2}, 9, 1, 0), atk(3, 1, []int{2}, 5, 1, 0))
	// clamps
	mk("d-clamp-res", plainU(1, true, 1), set(plainU(2, false, 1), "res", seven(2, 0.95)), atk(1, 1, []int{2}, 1, 2, 0.5),
		set(wire.R("stats"), "x", ""), atk(2, 1, []int{2}, 1, 2, 0.5))
	mk("d-clamp-res-low", set(plainU(1, true, 1), "pen", seven(2, 1.5)), plainU(2, false, 1), atk(1, 1, []int{2}, 1, 2, 0.5))
	mk("d-clamp-vul", plainU(1, true, 1), set(set(plainU(2, false, 1), "alltaken", wire.FStr(2)), "taken", seven(2, 1)), atk(1, 1, []int{2}, 1, 2, 0.5))
	mk("d-clamp-reduce", plainU(1, true, 1), set(plainU(2, false, 1), "reduce", wire.FStr(0.995)), atk(1, 1, []int{2}, 1, 2, 0.5))
	// shields: below / equal / above the damage; enemy attacker gives energy to the defender
	for i, hp := range []float64{100, 337.5, 5000} {
		mk(fmt.Sprintf("d-shield-%d", i), plainU(1, false, 1), plainU(2, true, 1), wire.R("shield").I("key", 1).I("src", 2).I("tgt", 2).F("hp", hp),
			wire.R("shield").I("key", 2).I("src", 2).I("tgt", 2).F("hp", 50), atk(1, 1, []int{2}, 1, 1, 0.5), wire.R("endattack"))
	}
	mk("d-multi", plainU(1, true, 1), plainU(2, false, 1), plainU(3, false, 0.01), atk(1, 1, []int{2, 3, 2}, 3, 2, 0.01), atk(2, 1, []int{3}, 3, 2, 0.01), wire.R("endattack"), wire.R("endattack"))
	mk("d-dead-source", plainU(1, true, 1), plainU(2, false, 1), wire.R("sethp").I("id", 1).F("amt", 0), atk(1, 1, []int{2}, 1, 1, 0.5),
		wire.R("heal").I("src", 1).Is("targets", []int{2}).Ss("terms", nil).F("flat", 10))
	// heals: missing HP, overflow, listener adjustments
	hl := func(src int, tg []int, terms map[int]float64, flat float64) *wire.Rec {
		return wire.R("heal").I("src", src).Is("targets", tg).Ss("terms", termsStr(terms)).F("flat", flat)
	}
	mk("d-heal-flat", plainU(1, true, 1), plainU(2, true, 0.5), hl(1, []int{2}, nil, 15))
	mk("d-heal-overflow", plainU(1, true, 1), plainU(2, true, 0.9), hl(1, []int{2}, map[int]float64{1: 0.5}, 15), hl(1, []int{2}, nil, 1))
	mk("d-heal-lost", plainU(1, true, 1), plainU(2, true, 0.25), hl(1, []int{2, 1}, map[int]float64{5: 0.2, 4: 0.01}, 0))
	// a unit that waits in limbo for a heal: the heal brings it back with exactly the healed amount; a healer in limbo heals nothing
	mk("d-heal-limbo", plainU(1, true, 1), plainU(2, true, 1).B("revive", true), plainU(3, false, 1),
		set(atk(1, 3, []int{2}, 1, 2, 0.5), "flat", wire.FStr(100000)), wire.R("endattack"), hl(2, []int{1}, map[int]float64{1: 0.1}, 15),
		hl(1, []int{2, 1}, map[int]float64{1: 0.1}, 150), hl(1, []int{2}, map[int]float64{1: 0.1}, 15), set(atk(2, 3, []int{2}, 1, 2, 0.5), "flat", wire.FStr(100000)), wire.R("endattack"),
		hl(1, []int{2}, map[int]float64{2: 0.5}, 0), set(atk(3, 3, []int{1}, 1, 2, 0.5), "flat", wire.FStr(100000)), wire.R("endattack"), hl(2, []int{1}, map[int]float64{1: 0.1}, 15))
	// a heal listener that heals somebody else from inside the announcement of a heal: both heals have their own documented amounts
	mk("d-heal-nested", plainU(1, true, 1), plainU(2, true, 0.1), plainU(3, true, 0.25), plainU(4, false, 0.5),
		hl(1, []int{2}, map[int]float64{1: 0.1}, 10).I("nest", 1).I("nsrc", 1).I("ntgt", 3).Ss("nterms", termsStr(map[int]float64{4: 0.5})).F("nflat", 0),
		hl(1, []int{2, 4}, map[int]float64{1: 0.05, 5: 0.1}, 0).I("nest", 1).I("nsrc", 3).I("ntgt", 3).Ss("nterms", termsStr(map[int]float64{3: 0.01, 2: 0.02})).F("nflat", 5).I("adj", 1).F("aflat", 7).I("akind", 3).F("aterm", 0.05).F("aatk", 100).F("ataken", 0.2))
	mk("d-heal-adj", plainU(1, true, 1), plainU(2, true, 0.5), hl(1, []int{2}, map[int]float64{1: 0.1}, 15).I("adj", 1).F("aflat", 7).I("akind", 0).F("aterm", 0).F("aatk", 0).F("ataken", 0),
		hl(1, []int{2}, map[int]float64{1: 0.1}, 0).I("adj", 1).F("aflat", 0).I("akind", 3).F("aterm", 0.05).F("aatk", 100).F("ataken", 0.2))
	mk("d-heal-bonus", set(plainU(1, true, 1), "healboost", wire.FStr(0.3)), set(plainU(2, true, 0.1), "healtaken", wire.FStr(0.2)), hl(1, []int{2}, map[int]float64{3: 0.1}, 5),
		hl(2, []int{1, 2}, map[int]float64{3: 0.1}, 5))
	// remove the malformed helper op from d-clamp-res
	for _, c := range cases {
		var ops []*wire.Rec
		for _, o := range c.Ops {
			if o.Name != "stats" || o.Has("id") {
				ops = append(ops, o)
			}
		}
		c.Ops = ops
	}
	for i := 0; i < n; i++ {
		units := []cunit{{1, pick(r, 1, 50, 80), true}, {2, pick(r, 20, 80, 95), true}, {3, pick(r, 50, 90), false}, {4, pick(r, 1, 85), false}}
		extreme := r.Intn(5) == 0
		var ops []*wire.Rec
		for _, u := range units {
			ops = append(ops, cunitOp(r, u, extreme))
		}
		l := 3 + r.Intn(12)
		for j := 0; j < l; j++ {
			switch r.Intn(12) {
			case 0, 1, 2, 3, 4:
				src := units[r.Intn(4)]
				var tg []int
				for t := 0; t < 1+r.Intn(3); t++ {
					tg = append(tg, pick(r, 1, 2, 3, 4))
				}
				ops = append(ops, attackOp(r, j+1, src, tg))
			case 5:
				ops = append(ops, wire.R("endattack"))
			case 6, 7, 8:
				var tg []int
				for t := 0; t < 1+r.Intn(2); t++ {
					tg = append(tg, pick(r, 1, 2, 3, 4))
				}
				hsrc := pick(r, 1, 2, 3)
				hop := healOp(r, hsrc, tg, r.Intn(2) == 0)
				if r.Intn(4) == 0 {
					hop = withNestedHeal(r, hop, hsrc, []int{1, 2, 3, 4})
				}
				ops = append(ops, hop)
			case 9:
				u := units[r.Intn(4)]
				ops = append(ops, cstatsInto(r, wire.R("stats"), u, extreme))
			case 10:
				ops = append(ops, wire.R("shield").I("key", pick(r, 1, 2)).I("src", pick(r, 1, 2)).I("tgt", pick(r, 1, 2, 3, 4)).F("hp", pick(r, 50.0, 300, 1500, 20000)))
			default:
				ops = append(ops, wire.R("sethp").I("id", pick(r, 1, 2, 3, 4)).F("amt", pick(r, 0.0, 1, 500, 100000)))
			}
		}
		mk(fmt.Sprintf("r%d", i), ops...)
	}
	return cases
}
