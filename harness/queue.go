package main

import (
	"fmt"
	"math/rand"

	"github.com/simimpact/srsim/pkg/engine/info"
	"github.com/simimpact/srsim/pkg/engine/queue"
	"github.com/simimpact/srsim/pkg/key"
	"verifharness/wire"
)

func init() { components["queue"] = queueComp{} }

type queueComp struct{}

func (queueComp) Exec(c *wire.Case, w *wire.Writer) {
	w.Case(c.ID)
	defer w.End()
	q := queue.New()
	var executed []int
	for _, op := range c.Ops {
		w.Op(op)
		func() {
			defer func() {
				if r := recover(); r != nil {
					w.Ob(wire.R("crash"))
				}
			}()
			switch op.Name {
			case "insert":
				tag := op.Int("tag")
				q.Insert(queue.Task{Execute: func() { executed = append(executed, tag) }, Priority: info.InsertPriority(op.Int("prio")), Source: key.TargetID(op.Int("src"))})
			case "pop":
				t := q.Pop()
				executed = nil
				t.Execute()
				tag := -1
				if len(executed) == 1 {
					tag = executed[0]
				}
				w.Ob(wire.R("popped").I("tag", tag).I("prio", int(t.Priority)).I("src", int(t.Source)))
			case "isempty":
				w.Ob(wire.R("empty").B("b", q.IsEmpty()))
			default:
				w.Ob(wire.R("badop"))
			}
		}()
	}
}

var insertPrios = []int{45, 48, 55, 58, 65, 75, 115, 145, 148, 155, 158, 165, 175, 215, 500, 1000}

func (queueComp) Gen(r *rand.Rand, tier string, n int) []*wire.Case {
	var cases []*wire.Case
	mk := func(id string, ops ...*wire.Rec) { cases = append(cases, &wire.Case{ID: id, Ops: ops}) }
	tag := 0
	ins := func(p int) *wire.Rec {
		tag++
		return wire.R("insert").I("prio", p).I("src", 1+tag%3).I("tag", tag)
	}
	pop := func() *wire.Rec { return wire.R("pop") }
	mk("d-fifo", ins(75), ins(75), ins(75), ins(75), pop(), pop(), ins(75), pop(), pop(), pop(), wire.R("isempty"))
	mk("d-prio", ins(500), ins(75), ins(1000), ins(45), ins(115), pop(), pop(), pop(), pop(), pop(), wire.R("isempty"))
	mk("d-mid-drain", ins(115), ins(115), ins(500), pop(), ins(75), ins(115), pop(), ins(45), pop(), pop(), pop(), pop())
	mk("d-empty-pop", wire.R("isempty"), pop(), ins(75), pop(), pop())
	mk("d-negative", ins(-5), ins(0), ins(-5), ins(3), pop(), pop(), pop(), pop())
	// bursts: many tasks pending at once (the backing store grows and may shrink again), drained completely, refilled
	for _, k := range []int{10, 11, 12, 20, 21, 33, 70} {
		tag = 0
		var ops []*wire.Rec
		for j := 0; j < k; j++ {
			ops = append(ops, ins(pick(r, 75, 115, 75, 115, 500)))
		}
		for j := 0; j < k-2; j++ {
			ops = append(ops, pop())
		}
		ops = append(ops, ins(45), ins(115), pop(), pop(), pop(), pop(), pop(), wire.R("isempty"))
		mk(fmt.Sprintf("d-burst-%d", k), ops...)
	}
	{
		// a queue that has served very many tasks (the insertion counter only ever grows): order and first-in first-out hold on
		tag = 0
		var ops []*wire.Rec
		for j := 0; j < 65534; j++ {
			ops = append(ops, ins(75), pop())
		}
		ops = append(ops, ins(45), ins(45), ins(45), pop(), pop(), pop(), ins(49), ins(48), pop(), pop(), ins(115), ins(75), ins(115), pop(), pop(), pop(), wire.R("isempty"))
		mk("d-long-life", ops...)
	}
	if tier == "thorough" {
		// exhaustive: all words over {insert p (p in 3 priorities), pop} up to length 8 with at most 7 pending
		alpha := []int{75, 115, 500, -1}
		var rec func(word []int, pending int)
		count := 0
		rec = func(word []int, pending int) {
			if len(word) > 0 {
				var ops []*wire.Rec
				tag = 0
				for _, a := range word {
					if a < 0 {
						ops = append(ops, pop())
					} else {
						ops = append(ops, ins(a))
					}
				}
				mk(fmt.Sprintf("x%d", count), ops...)
				count++
			}
			if len(word) == 8 {
				return
			}
			for _, a := range alpha {
				if a < 0 && pending == 0 {
					continue
				}
				np := pending + 1
				if a < 0 {
					np = pending - 1
				}
				rec(append(append([]int{}, word...), a), np)
			}
		}
		rec(nil, 0)
	}
	for i := 0; i < n; i++ {
		tag = 0
		var ops []*wire.Rec
		pending := 0
		l := 5 + r.Intn(60)
		few := r.Intn(2) == 0
		burst := 0
		if i%4 == 0 {
			burst = 8 + r.Intn(30) // a burst of insertions somewhere, drained afterwards
		}
		at := r.Intn(l)
		for j := 0; j < l; j++ {
			if burst > 0 && j == at {
				for k := 0; k < burst; k++ {
					ops = append(ops, ins(insertPrios[r.Intn(len(insertPrios))]))
					pending++
				}
				for k := 0; k < burst-r.Intn(6); k++ {
					ops = append(ops, pop())
					if pending > 0 {
						pending--
					}
				}
			}
			if r.Intn(5) < 3 || (pending == 0 && r.Intn(20) != 0) {
				p := insertPrios[r.Intn(len(insertPrios))]
				if few {
					p = pick(r, 75, 115, 500)
				}
				ops = append(ops, ins(p))
				pending++
			} else if r.Intn(10) == 0 {
				ops = append(ops, wire.R("isempty"))
			} else {
				ops = append(ops, pop())
				if pending > 0 {
					pending--
				}
			}
		}
		mk(fmt.Sprintf("r%d", i), ops...)
	}
	return cases
}
