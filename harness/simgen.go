package main

import (
	"fmt"
	"math/rand"
	"strings"

	"verifharness/wire"
)

// simCaseSpec is a readable description of a run; String renders the `run` op.
type simSpec struct {
	ckind   []int
	cspd    []float64
	cenergy []float64
	cattack []int
	cskill  []int
	cult    []int
	ehp     []float64
	espd    []float64
	eaction []int
	cycles  int
	start   int
	progs   []string
	next    string
	dflt    string
	ults    string
	seed    int
}

func (s simSpec) op() *wire.Rec {
	progs := strings.Join(s.progs, ";")
	if progs == "" {
		progs = "-"
	}
	def := func(x string) string {
		if x == "" {
			return "-"
		}
		return x
	}
	return wire.R("run").Is("ckind", s.ckind).Fs("cspd", s.cspd).Fs("cenergy", s.cenergy).Is("cattack", s.cattack).Is("cskill", s.cskill).Is("cult", s.cult).
		Fs("ehp", s.ehp).Fs("espd", s.espd).Is("eaction", s.eaction).I("cycles", s.cycles).I("start", s.start).S("progs", progs).
		S("next", def(s.next)).S("dflt", def(s.dflt)).S("ults", def(s.ults)).I("seed", s.seed)
}

func simGen(r *rand.Rand, tier string, n int) []*wire.Case {
	var cases []*wire.Case
	mk := func(id string, s simSpec) { cases = append(cases, &wire.Case{ID: id, Ops: []*wire.Rec{s.op()}}) }
	base := func() simSpec {
		return simSpec{ckind: []int{0, 1}, cspd: []float64{0, 0}, cenergy: []float64{0, 0}, cattack: []int{0, 0}, cskill: []int{1, 2}, cult: []int{3, 3},
			ehp: []float64{3000, 3000}, espd: []float64{90, 110}, eaction: []int{4, 4}, cycles: 3, start: -1,
			progs: []string{"Ap.1.1.500", "Ap.2.2.700", "Hp.300", "Ao.3.1.900+E", "Ap.1.1.150"}, seed: 7}
	}
	// directed: the ways a battle can end and a unit can die
	mk("d-timeout", base())
	{
		s := base()
		s.ehp = []float64{400, 600}
		mk("d-win", s)
	}
	{
		s := base()
		s.progs[4] = "Ao.1.2.2000"
		mk("d-loss", s)
	}
	{
		s := base()
		s.cycles = 0
		mk("d-cycle-zero", s)
	}
	{
		s := base() // a side that is empty from the start: the whole protocol prefix, then the decision at the first exit check
		s.ehp, s.espd, s.eaction = nil, nil, nil
		mk("d-no-enemies", s)
	}
	{
		s := base()
		s.ehp, s.espd, s.eaction = nil, nil, nil
		s.cycles = 0
		s.cenergy = []float64{100, 100}
		s.ults = "1u100+2u100"
		mk("d-no-enemies-cycle-zero", s)
	}
	{
		s := base() // custom skill checks: one that allows (the skill-point cost still counts), one that never allows
		s.ckind = []int{5, 5}
		s.next = "1:s100,s101,s102,s100,s100|2:s100,s100,s100,s100"
		s.dflt = "1:a101|2:a102"
		s.cycles = 5
		mk("d-custom-skill-check", s)
	}
	{
		s := base()
		s.ckind = []int{6, 5}
		s.next = "1:s100,s100,a100|2:s100,s100,s100,s100,s100"
		s.dflt = "1:a101"
		s.cycles = 5
		mk("d-custom-skill-check-never", s)
	}
	{
		s := base() // skill decisions, SP running out, fall back to the default attack
		s.next = "1:s100,s101,s102,s100|2:s1,s2,a100"
		s.dflt = "1:a101|2:a102"
		mk("d-skill-sp", s)
	}
	{
		s := base() // ults asked for with and without energy; energy granted by attacks
		s.cenergy = []float64{100, 60}
		s.progs[0] = "Ap.1.1.500+Ns.60"
		s.ults = "1u100+2u1|_|2u2|1u101"
		mk("d-ults", s)
	}
	{
		s := base() // a character with two ultimates: needs ult_attack / ult_skill, always aims at the lowest HP
		s.ckind = []int{4, 0}
		s.cenergy = []float64{100, 100}
		s.ehp = []float64{6000, 6000, 6000}
		s.espd = []float64{60, 61, 62}
		s.eaction = []int{4, 4, 4}
		s.progs[0] = "Au5.1.2.2500+Ns.100"
		s.progs[4] = "Ap.1.1.50"
		s.ults = "1v100|1w100+2u102|1v5|1u100|2v100|1w3"
		s.cult = []int{1, 3} // the first character's ultimate hits its primary target
		mk("d-multi-ult", s)
	}
	{
		s := base() // HP cost kills the actor during its own action
		s.progs[0] = "Ap.1.1.100+C.100.0+Ap.1.1.100"
		mk("d-hpcost-death", s)
	}
	{
		s := base() // damage over time kills in phase 1 of the victim's own turn
		s.ehp = []float64{700, 5000}
		s.progs[0] = "Mp.1+Ap.1.1.100"
		mk("d-dot-death", s)
	}
	{
		s := base() // multi-kill by one attack, battle ends in the middle of an action
		s.ehp = []float64{500, 500}
		s.progs[0] = "Ao.1.1.2000"
		mk("d-multikill", s)
	}
	{
		s := base() // every enemy killed by one ultimate run from the queue: the battle is decided inside the queue
		s.ehp = []float64{500, 500}
		s.cenergy = []float64{100, 0}
		s.ults = "1u100"
		mk("d-ult-multikill", s)
	}
	{
		s := base() // the same from an inserted ability, three adjacent enemies
		s.ehp = []float64{500, 500, 500}
		s.espd = []float64{90, 110, 95}
		s.eaction = []int{4, 4, 4}
		s.progs[0] = "Ap.1.1.100+I.3.115.0"
		mk("d-insert-multikill", s)
	}
	{
		s := base() // kill inside an insert; inserted action; insert from a unit that dies first
		s.ehp = []float64{800, 5000}
		s.progs = append(s.progs, "Ap.8.1.900", "Ap.1.1.50")
		s.progs[0] = "Ap.1.1.100+I.5.115.0+Tf"
		s.progs[4] = "Ap.1.1.150+I.6.215.1"
		mk("d-insert-kill", s)
	}
	{
		s := base() // revive: limbo, heal from the queue, back in the fight; second death is final
		s.start = 5
		s.progs = append(s.progs, "Mu1.0+Mu2.0")
		s.progs[4] = "Ap.1.1.5000"
		s.cycles = 4
		mk("d-revive", s)
	}
	{
		s := base() // an extra action queued for a unit that is held at zero and whose revive comes later than the action: taken, not performed
		s.start = 5
		s.progs = append(s.progs, "Mu1.7+Mu2.7")
		s.progs[4] = "Au1.1.1.9000+Tu1+I.0.115.0"
		s.cycles = 4
		mk("d-limbo-extra-action", s)
		t := base() // ... the same with the ordinary (early) revive, and with both kinds asked for on one unit
		t.start = 5
		t.progs = append(t.progs, "Mu1.0+Mu1.7+Mu2.7+Mu2.0")
		t.progs[4] = "Ao.1.1.9000+Tu1+Tu2"
		t.cycles = 4
		mk("d-limbo-extra-action-both", t)
	}
	{
		s := base() // a phase-1 tick that takes down units other than the acting one (a damage-over-time effect that hits the owner's whole side)
		s.ehp = []float64{6000, 300}
		s.progs[0] = "Mu3.8+Ap.1.1.10"
		s.cycles = 4
		mk("d-phase1-splash-kill", s)
		t := base() // ... on the characters' side, with a revive about
		t.start = 5
		t.progs = append(t.progs, "Mu2.0")
		t.progs[4] = "Mu1.8+Ap.1.1.10"
		t.progs[0] = "C.90.1+Ap.1.1.10"
		t.progs[1] = "C.90.1+Ap.1.1.10"
		t.cycles = 4
		mk("d-phase1-splash-kill-chars", t)
	}
	{
		s := base() // kits whose skill and ultimate are aimed at different sides: every rule, named units of either side
		s.ckind = []int{7, 8}
		s.cenergy = []float64{100, 100}
		s.ults = "1u100|2u100|1u101+2u102|1u3|2u1|1u1|2u3|1u102|2u101"
		s.next = "1:s100,s1,s3|2:s100,s3,s2"
		s.progs[0] = "Ap.1.1.100+Ns.200"
		s.progs[1] = "Ap.1.1.100+Ns.200"
		s.progs[2] = "Hp.10+Ns.200"
		s.cycles = 5
		mk("d-ult-other-side", s)
	}
	{
		s := base() // energy just short of full (within half a point): the ultimate cannot be used yet
		s.ckind = []int{0, 3}
		s.cenergy = []float64{99.5, 109.75}
		s.ults = "1u100+2u100|1u100+2u100|1u100|2u100"
		s.cycles = 3
		mk("d-energy-almost-full", s)
	}
	{
		s := base() // shielded defenders on both sides: the totals are those of the hits, not of the HP they removed
		s.start = 5
		s.progs = append(s.progs, "Bu1.300+Bu2.100+Bu3.400+Bu4.50")
		s.cycles = 4
		mk("d-shielded-totals", s)
	}
	{
		s := base() // both sides wiped out in the same death check (a killing blow paid for with the last HP): one decision, one termination
		s.ckind, s.cspd, s.cenergy, s.cattack, s.cskill, s.cult = []int{0}, []float64{0}, []float64{0}, []int{0}, []int{1}, []int{3}
		s.ehp, s.espd, s.eaction = []float64{500}, []float64{90}, []int{4}
		s.progs[0] = "Ap.1.1.9000+C.100.0"
		mk("d-mutual-wipe", s)
	}
	{
		s := base() // ... whole teams on both sides, from an enemy's turn, and from inside an insert
		s.progs[4] = "Ao.1.1.9000+Cf.100.0"
		mk("d-mutual-wipe-teams", s)
		t := base()
		t.progs = append(t.progs, "Ao.3.1.9000+Cf.100.0+E")
		t.progs[0] = "Ap.1.1.10+I.5.115.0"
		mk("d-mutual-wipe-insert", t)
	}
	{
		s := base() // the whole team taken to zero by one enemy action, everybody held by a revive: nobody is announced, all are back after the queue
		s.start = 5
		s.progs = append(s.progs, "Mu1.0+Mu2.0")
		s.progs[4] = "Ao.1.1.9000"
		s.cycles = 4
		mk("d-revive-all-down", s)
	}
	{
		s := base() // ... only one of them held: the other is announced, the held one is not, and fights on alone
		s.start = 5
		s.progs = append(s.progs, "Mu2.0")
		s.progs[4] = "Ao.1.1.9000"
		s.cycles = 4
		mk("d-revive-last-one-held", s)
	}
	{
		s := base() // a lone character held at zero by the enemy's own action
		s.ckind, s.cspd, s.cenergy, s.cattack, s.cskill, s.cult = []int{0}, []float64{0}, []float64{0}, []int{0}, []int{1}, []int{3}
		s.start = 5
		s.progs = append(s.progs, "Mu1.0")
		s.progs[4] = "Ap.1.1.9000"
		s.cycles = 4
		mk("d-revive-lone", s)
	}
	{
		s := base() // limbo at the end of the turn: the phase-2 listener drains a unit that has a revive
		s.start = 5
		s.progs = append(s.progs, "Mu1.0+Mu1.3")
		mk("d-limbo-turn-end", s)
	}
	{
		s := base() // a unit killed in limbo at the end of its turn is healed and hit again by id afterwards: announced once
		s.start = 5
		s.progs = append(s.progs, "Mu1.0+Mu1.3")
		s.progs[1] = "Hu1.400+Ap.1.1.100"
		s.progs[4] = "Au1.1.1.5000+Ap.1.1.150"
		s.next = "1:a100|2:s100,s100,a100"
		mk("d-limbo-dead-touched-again", s)
	}
	{
		s := base() // frozen units skip their action; inserts with abort flags are dropped
		s.start = 5
		s.progs = append(s.progs, "Mu1.2+Mu3.2", "Ap.8.1.100")
		s.progs[0] = "Ap.1.1.100+I.6.115.1+Rf.2"
		mk("d-freeze", s)
	}
	{
		s := base() // content that rewrites the unit lists the engine hands out: the engine's own line-up must not change
		s.ehp = []float64{300, 5000, 5000}
		s.espd = []float64{90, 110, 95}
		s.eaction = []int{4, 4, 4}
		s.progs[0] = "Z+Ap.1.1.400+Z"
		s.progs[4] = "Z+Ap.1.1.150"
		s.cycles = 4
		mk("d-lists-are-copies", s)
	}
	{
		s := base() // units that strike back while an attack on them is being announced: no bracket of their own, hits inside the attacker's
		s.progs[0] = "Ap.1.1.100+Mo.6+Ms.6"
		s.progs[1] = "Ao.2.1.100+E+Ap.1.1.50"
		s.progs[4] = "Ap.1.1.150+Ao.1.1.20"
		s.cycles = 4
		mk("d-counter-in-announcement", s)
	}
	{
		s := base() // a unit that only carries DISABLE_ACTION (no STAT_CTRL): no action, and its queued ultimate, inserted action and abortable follow-up are dropped
		s.cenergy = []float64{0, 0}
		s.progs = append(s.progs, "Ap.1.1.50")
		s.progs[0] = "Ap.1.1.100+Ms.5+Ns.200+I.5.115.1+Ts"
		s.progs[1] = "Ap.2.1.100+Ru1.5+Nu1.200"
		s.ults = "1u100|1u100|1u100+2u100|1u100|1u100|1u100|1u100|1u100|1u100|1u100|1u100|1u100"
		s.cycles = 4
		mk("d-disable-only", s)
	}
	{
		s := base() // break extension: an enemy carrying the flag loses its action (no phase-1 queue either), a character does not
		s.progs[0] = "Ap.1.1.100+Mp.4+Ms.4"
		s.progs[1] = "Ap.2.1.100+Ro.4"
		s.cenergy = []float64{100, 0}
		s.ults = "_|1u100|_|_"
		s.cycles = 4
		mk("d-break-extend", s)
	}
	{
		s := base() // an insert queued while its source carries the abort flag, which is gone by the time the insert is taken: it runs
		s.progs = append(s.progs, "Ap.1.1.50", "Rs.2")
		s.progs[0] = "Ap.1.1.100+Ms.2+I.6.65.0+I.5.115.1"
		s.progs[1] = "Ap.2.1.100+Ms.2+I.5.115.1+I.6.215.0" // the other order: still frozen when taken: dropped
		mk("d-abort-flag-cleansed", s)
	}
	{
		s := base() // action advance: the same unit acts again; gauge changes
		s.progs[0] = "Ap.1.1.100+Gs.0"
		s.progs[1] = "Ap.2.1.100+Gf.5000"
		s.next = "1:a100,s100,a100,a100|2:a100"
		mk("d-advance", s)
	}
	{
		s := base() // named targets: valid, dead, wrong side
		s.ehp = []float64{300, 5000}
		s.next = "1:a3,a3,a4|2:a4,a1"
		mk("d-named-target", s)
	}
	{
		s := base() // named targets of the wrong class for an ally-typed / self-typed skill; absent ids
		s.ckind = []int{1, 2}
		s.next = "1:s3,s2,s1,s99,s0|2:s1,s2,s4,s2"
		s.dflt = "1:a100|2:a3"
		s.cycles = 5
		mk("d-named-wrong-class", s)
	}
	{
		s := base() // ultimates aimed at named units of either side, dead ones and absent ones
		s.ckind = []int{1, 0}
		s.cenergy = []float64{120, 100}
		s.ehp = []float64{300, 5000}
		s.progs[0] = "Ap.1.1.400+Ns.200"
		s.ults = "1u3|1u2+2u1|2u3|1u99|2u4|1u1|2u0"
		s.cycles = 4
		mk("d-named-ult-targets", s)
	}
	{
		s := base() // heal a unit that already reached zero in the same action (before the death check)
		s.ckind = []int{1, 0}
		s.cskill = []int{6, 1}
		s.progs = append(s.progs, "_", "C.100.0+Hf.300")
		s.next = "1:s100|2:a100"
		mk("d-heal-the-dead", s)
	}
	{
		s := base() // ... and by a ratio of its maximum (a different engine call), by itself and by a team mate, also after a killing hit
		s.ckind = []int{1, 1}
		s.cskill = []int{6, 7}
		s.progs = append(s.progs, "_", "C.100.0+Cf.-50.0+Cs.-100.0", "Ao.2.1.9000+Co.-40.0+Co.20.0")
		s.next = "1:s100|2:s100"
		s.cycles = 3
		mk("d-ratio-heal-the-dead", s)
	}

	{
		s := base() // a hit that removes no HP does not make its attacker the killer: HP cost after a zero-damage hit
		s.progs[0] = "Ap.1.1.100+C.100.0"
		s.progs[4] = "Ao.1.1.0"
		s.espd = []float64{150, 160}
		mk("d-killer-zero-hit", s)
	}
	{
		s := base() // ... and after a real hit by one enemy and a zero-damage hit by another
		s.progs = append(s.progs, "Ao.1.1.0")
		s.progs[0] = "Ap.1.1.100+C.100.0"
		s.espd = []float64{150, 140}
		s.eaction = []int{4, 5}
		mk("d-killer-real-then-zero", s)
	}
	{
		s := base() // skill not usable: the registered default action is performed, with ITS target rule
		s.ckind = []int{0, 0}
		s.ehp = []float64{6000, 6000}
		s.progs = []string{"Ap.1.1.100", "Au4.2.1.600+Ap.2.1.50", "Hp.300", "Ap.3.1.10", "Ap.1.1.150"}
		s.cskill = []int{1, 1}
		s.next = "1:s100,s100,s100,s100,s100|2:s100,s100,s100"
		s.dflt = "1:a101|2:a4"
		s.cycles = 4
		mk("d-fallback-default-rule", s)
	}
	{
		s := base() // lowest-HP / lowest-ratio rules with the minimum in the middle of the line-up
		s.ehp = []float64{3000, 3000, 3000, 3000}
		s.espd = []float64{60, 61, 62, 63}
		s.eaction = []int{5, 5, 5, 5}
		s.progs = []string{"Au4.1.1.2500+Au5.1.1.900+Ap.1.1.10", "Ap.2.1.10", "Hp.300", "Ap.3.1.10", "Ap.1.1.150", "_"}
		s.next = "1:a100,a102,s102,a101|2:a102,s101"
		mk("d-lowest-middle", s)
	}
	prios := []int{45, 48, 75, 115, 215, 500, 1000}
	for i := 0; i < n; i++ {
		if i%4 == 3 {
			// target-rule flavour: a long enemy line with spread-out HP, rules lowest HP / lowest ratio only
			nc, ne := 1+r.Intn(2), 3+r.Intn(3)
			s := simSpec{cycles: 2 + r.Intn(3), start: -1, seed: r.Intn(1000)}
			var next, dflts []string
			for c := 0; c < nc; c++ {
				s.ckind = append(s.ckind, pick(r, 0, 0, 3, 5, 5, 6))
				s.cspd = append(s.cspd, pick(r, 0.0, 20, 40))
				s.cenergy = append(s.cenergy, 0)
				var hits []string
				for k := 0; k < 1+r.Intn(3); k++ {
					hits = append(hits, fmt.Sprintf("Au%d.1.1.%d", nc+1+r.Intn(ne), pick(r, 300, 900, 1500, 2500)))
				}
				hits = append(hits, "Ap.1.1.50")
				s.progs = append(s.progs, strings.Join(hits, "+"))
				s.cattack, s.cskill, s.cult = append(s.cattack, c), append(s.cskill, c), append(s.cult, c)
				var ds []string
				skillHeavy := r.Intn(2) == 0 // skill points run out: the registered default action takes over
				for k := 0; k < 2+r.Intn(3); k++ {
					typ := pick(r, "a", "s")
					if skillHeavy {
						typ = "s"
					}
					ds = append(ds, fmt.Sprintf("%s%d", typ, pick(r, 101, 102, 102, 100)))
				}
				next = append(next, fmt.Sprintf("%d:%s", c+1, strings.Join(ds, ",")))
				if r.Intn(3) != 0 {
					dflts = append(dflts, fmt.Sprintf("%d:a%d", c+1, pick(r, 100, 101, 102, nc+1+r.Intn(ne))))
				}
			}
			s.progs = append(s.progs, "_")
			for e := 0; e < ne; e++ {
				s.ehp = append(s.ehp, pick(r, 3000.0, 5000, 8000))
				s.espd = append(s.espd, pick(r, 50.0, 60, 70))
				s.eaction = append(s.eaction, len(s.progs)-1)
			}
			s.next, s.dflt = strings.Join(next, "|"), strings.Join(dflts, "|")
			mk(fmt.Sprintf("r%d", i), s)
			continue
		}
		nc, ne := 1+r.Intn(3), 1+r.Intn(3)
		if r.Intn(4) == 0 {
			nc, ne = 1+r.Intn(4), 1+r.Intn(5)
		}
		if r.Intn(25) == 0 {
			ne = 0 // nobody to fight
		}
		s := simSpec{cycles: r.Intn(5), start: -1, seed: r.Intn(1000)}
		nprogs := 6 + r.Intn(5)
		sel := func() string {
			return pick(r, "p", "p", "p", "o", "f", "s", fmt.Sprintf("u%d", 1+r.Intn(nc+ne)))
		}
		dmg := func() int { return pick(r, 0, 50, 200, 500, 900, 2500) }
		cmd := func(canAttack bool) string {
			k := r.Intn(20)
			switch {
			case k < 7 && canAttack:
				return fmt.Sprintf("A%s.%d.%d.%d", sel(), pick(r, 1, 2, 3, 8, 4, 5), 1+r.Intn(2), dmg())
			case k == 7 && canAttack:
				return "E"
			case k == 8 && canAttack:
				return fmt.Sprintf("H%s.%d", sel(), pick(r, 100, 400, 5000))
			case k == 9 && canAttack:
				if r.Intn(3) == 0 { // on other units too, and as a gift (a ratio heal), also for a unit the same program has just killed
					return fmt.Sprintf("C%s.%d.%d", sel(), pick(r, 30, 100, -30, -50, -100), pick(r, 0, 0, 1))
				}
				return fmt.Sprintf("C.%d.%d", pick(r, 30, 60, 100), pick(r, 0, 0, 1))
			case k == 10 || k == 11:
				return fmt.Sprintf("I.%d.%d.%d", r.Intn(nprogs), pick(r, prios...), r.Intn(2))
			case k == 12:
				return "T" + sel()
			case k == 13:
				return fmt.Sprintf("G%s.%d", sel(), pick(r, 0, 2500, 5000, 12000))
			case k == 14:
				return fmt.Sprintf("N%s.%d", sel(), pick(r, 30, 60, 120, -50))
			case k == 15 || k == 16:
				return fmt.Sprintf("M%s.%d", sel(), r.Intn(9))
			case k == 17:
				return fmt.Sprintf("R%s.%d", sel(), r.Intn(9))
			case k == 18:
				return fmt.Sprintf("S.%d", pick(r, 1, 2, -1, -3))
			case k == 19 && r.Intn(2) == 0:
				return "Z" // treats the unit lists it is handed as its own
			case k == 19:
				return fmt.Sprintf("B%s.%d", sel(), pick(r, 100, 300, 1000)) // shields: what a hit deals and what reaches HP differ
			}
			if canAttack {
				return fmt.Sprintf("Ap.%d.1.%d", pick(r, 1, 2), dmg())
			}
			return fmt.Sprintf("M%s.%d", sel(), r.Intn(9))
		}
		for p := 0; p < nprogs; p++ {
			var cs []string
			for k := 0; k < 1+r.Intn(4); k++ {
				cs = append(cs, cmd(p != 0))
			}
			s.progs = append(s.progs, strings.Join(cs, "+"))
		}
		flavourUlts := false
		if r.Intn(6) == 0 && nprogs > 3 {
			// control effects that come and go inside one queue drain: a unit freezes itself, queues a cleanse and a
			// follow-up that must be dropped only if its source is still frozen when it is taken
			a, c, f := 1+r.Intn(nprogs-1), 1+r.Intn(nprogs-1), 1+r.Intn(nprogs-1)
			m := pick(r, 2, 2, 5) // the control effect with both flags, or the bare DISABLE_ACTION one
			s.progs[c] += fmt.Sprintf("+Rs.%d", m)
			s.progs[a] += fmt.Sprintf("+Ms.%d+Ns.200+I.%d.%d.0+I.%d.%d.1", m, c, pick(r, prios...), f, pick(r, prios...))
			flavourUlts = true
		}
		if r.Intn(2) == 0 {
			s.start = 0
		}
		var next, dflt []string
		for c := 0; c < nc; c++ {
			s.ckind = append(s.ckind, r.Intn(9))
			s.cspd = append(s.cspd, pick(r, 0.0, 0, 10, 25.5, 40))
			s.cenergy = append(s.cenergy, pick(r, 0.0, 50, 90, 100, 120, 99.5, 99.75, 119.6, 89.5))
			s.cattack = append(s.cattack, 1+r.Intn(nprogs-1))
			s.cskill = append(s.cskill, 1+r.Intn(nprogs-1))
			s.cult = append(s.cult, 1+r.Intn(nprogs-1))
			ev := func() int {
				return pick(r, 100, 100, 101, 102, 101, 102, 1+r.Intn(nc+ne), 0, 99)
			}
			if r.Intn(4) != 0 {
				var ds []string
				for k := 0; k < 1+r.Intn(4); k++ {
					ds = append(ds, fmt.Sprintf("%s%d", pick(r, "a", "s", "s", "a", "u", "x"), ev()))
				}
				next = append(next, fmt.Sprintf("%d:%s", c+1, strings.Join(ds, ",")))
			}
			if r.Intn(2) == 0 {
				dflt = append(dflt, fmt.Sprintf("%d:%s%d", c+1, pick(r, "a", "a", "s"), pick(r, 100, 101, 102, ev())))
			}
		}
		s.next, s.dflt = strings.Join(next, "|"), strings.Join(dflt, "|")
		if r.Intn(2) == 0 {
			var calls []string
			for k := 0; k < 1+r.Intn(5); k++ {
				if r.Intn(2) == 0 {
					calls = append(calls, "_")
					continue
				}
				var us []string
				for j := 0; j < 1+r.Intn(2); j++ {
					us = append(us, fmt.Sprintf("%d%s%d", 1+r.Intn(nc), pick(r, "u", "u", "u", "a", "v", "v", "w"), pick(r, 100, 101, 102, 1+r.Intn(nc+ne))))
				}
				calls = append(calls, strings.Join(us, "+"))
			}
			s.ults = strings.Join(calls, "|")
		}
		fragile := r.Intn(6) == 0 // every enemy dies to the first area attack: battles decided in the middle of a queue
		if flavourUlts && s.ults == "" {
			// ultimates asked for at every check, so that one is queued while its owner is under the effect
			var calls []string
			for k := 0; k < 12; k++ {
				calls = append(calls, fmt.Sprintf("%du100", 1+r.Intn(nc)))
			}
			s.ults = strings.Join(calls, "|")
		}
		if r.Intn(7) == 0 && ne > 0 {
			// whole-team wipes with revive effects about: the start program gives some characters (often all) a revive, and the
			// enemies' actions take everybody to zero at once
			var ms []string
			for c := 1; c <= nc; c++ {
				if r.Intn(4) != 0 {
					ms = append(ms, fmt.Sprintf("Mu%d.%d", c, pick(r, 0, 0, 7)))
				}
			}
			if len(ms) > 0 {
				s.progs[0] = strings.Join(ms, "+")
				s.start = 0
			}
			wipe := 1 + r.Intn(nprogs-1)
			s.progs[wipe] = pick(r, "Ao.1.1.9000", "Ao.1.2.6000", "Ao.3.1.9000+E", "Ap.1.1.9000+Ao.1.1.9000")
			for e := 0; e < ne; e++ {
				s.ehp = append(s.ehp, 50000)
				s.espd = append(s.espd, pick(r, 100.0, 140, 180))
				s.eaction = append(s.eaction, wipe)
			}
			mk(fmt.Sprintf("r%d", i), s)
			continue
		}
		for e := 0; e < ne; e++ {
			if fragile {
				s.ehp = append(s.ehp, pick(r, 100.0, 300))
				s.espd = append(s.espd, pick(r, 70.0, 100, 100, 120, 158.5))
				s.eaction = append(s.eaction, 1+r.Intn(nprogs-1))
				continue
			}
			s.ehp = append(s.ehp, pick(r, 300.0, 800, 2000, 6000))
			s.espd = append(s.espd, pick(r, 70.0, 100, 100, 120, 158.5))
			s.eaction = append(s.eaction, 1+r.Intn(nprogs-1))
		}
		mk(fmt.Sprintf("r%d", i), s)
	}
	return cases
}
