module verifharness

go 1.23.1

toolchain go1.23.5

require github.com/simimpact/srsim v0.0.0

require google.golang.org/protobuf v1.34.2 // indirect

replace github.com/simimpact/srsim => /repo
