module verifharness

go 1.23.1

toolchain go1.23.5

require (
	github.com/simimpact/srsim v0.0.0
	google.golang.org/protobuf v1.34.2
)

require (
	github.com/aclements/go-moremath v0.0.0-20210112150236-f10218a38794 // indirect
	github.com/go-chi/chi v1.5.5 // indirect
	github.com/go-chi/cors v1.2.1 // indirect
	gopkg.in/yaml.v2 v2.4.0 // indirect
	sigs.k8s.io/yaml v1.3.0 // indirect
)

replace github.com/simimpact/srsim => /repo
