// verifharness drives the real srsim code with generated operation sequences and
// writes the implementation's observations in the line protocol of package wire.
//
//	verifharness <component> gen  -seed S -tier quick|thorough -n N -out FILE
//	verifharness <component> exec -in FILE -out FILE
package main

import (
	"bufio"
	"flag"
	"fmt"
	"math/rand"
	"os"
	"sort"
	"strconv"
	"time"

	"verifharness/wire"
)

// Component couples a case generator with an executor against the real code.
type Component interface {
	// Gen returns directed cases first, then n random ones.
	Gen(rng *rand.Rand, tier string, n int) []*wire.Case
	// Exec runs one case against the implementation; it must recover panics.
	Exec(c *wire.Case, w *wire.Writer)
}

var components = map[string]Component{}

func caseDeadline() time.Duration {
	if v, err := strconv.Atoi(os.Getenv("VERIF_CASE_DEADLINE_MS")); err == nil && v > 0 {
		return time.Duration(v) * time.Millisecond
	}
	return 600 * time.Second
}

func main() {
	if len(os.Args) >= 2 && os.Args[1] == "real-worker" {
		realWorkerMain()
		return
	}
	if len(os.Args) < 3 {
		names := []string{}
		for k := range components {
			names = append(names, k)
		}
		sort.Strings(names)
		fmt.Fprintf(os.Stderr, "usage: verifharness <component> gen|exec ...; components: %v\n", names)
		os.Exit(2)
	}
	if os.Args[1] == "gcs-worker" {
		gcsWorkerMain()
		return
	}

	comp, ok := components[os.Args[1]]
	if !ok {
		fmt.Fprintf(os.Stderr, "unknown component %q\n", os.Args[1])
		os.Exit(2)
	}
	fs := flag.NewFlagSet(os.Args[2], flag.ExitOnError)
	seed := fs.Int64("seed", 1, "PRNG seed")
	tier := fs.String("tier", "quick", "quick|thorough")
	n := fs.Int("n", 100, "number of random cases")
	in := fs.String("in", "", "input case file (exec)")
	out := fs.String("out", "", "output file")
	_ = fs.Parse(os.Args[3:])

	var cases []*wire.Case
	switch os.Args[2] {
	case "gen":
		cases = comp.Gen(rand.New(rand.NewSource(*seed)), *tier, *n)
	case "exec":
		f, err := os.Open(*in)
		if err != nil {
			fmt.Fprintln(os.Stderr, err)
			os.Exit(2)
		}
		cases, err = wire.ReadCases(f)
		f.Close()
		if err != nil {
			fmt.Fprintln(os.Stderr, err)
			os.Exit(2)
		}
	default:
		fmt.Fprintf(os.Stderr, "unknown mode %q\n", os.Args[2])
		os.Exit(2)
	}
	o := os.Stdout
	if *out != "" {
		f, err := os.Create(*out)
		if err != nil {
			fmt.Fprintln(os.Stderr, err)
			os.Exit(2)
		}
		defer f.Close()
		o = f
	}
	w := &wire.Writer{W: bufio.NewWriterSize(o, 1<<20)}
	for i, c := range cases {
		if c.ID == "" {
			c.ID = fmt.Sprintf("%d", i)
		}
		// a deadline per case: an implementation call that does not return is reported as a hang on the
		// operation it was given (components with their own worker or deadline never get this far)
		done := make(chan struct{})
		go func() {
			defer close(done)
			comp.Exec(c, w)
		}()
		select {
		case <-done:
		case <-time.After(caseDeadline()):
			w.Ob(wire.R("hang").S("msg", "the_implementation_did_not_return_within_the_case_deadline"))
			w.End()
			cliCleanup()
			os.Exit(0) // the stuck goroutine cannot be stopped; later cases are not executed
		}
	}
	cliCleanup()
	w.W.Flush()
}
