package main

import (
	"math"
	"fmt"
	"math/rand"
	"sort"
	"strconv"
	"strings"
	"sync"

	"github.com/simimpact/srsim/pkg/engine"
	"github.com/simimpact/srsim/pkg/engine/attribute"
	"github.com/simimpact/srsim/pkg/engine/event"
	"github.com/simimpact/srsim/pkg/engine/info"
	"github.com/simimpact/srsim/pkg/engine/logging"
	"github.com/simimpact/srsim/pkg/engine/modifier"
	"github.com/simimpact/srsim/pkg/engine/prop"
	"github.com/simimpact/srsim/pkg/key"
	"github.com/simimpact/srsim/pkg/model"
	"verifharness/wire"
)

func init() { components["modifier"] = modComp{} }

type modComp struct{}

// ---- the fixed catalog of harness modifiers (registered once per process) ----

type mAct struct {
	kind string // A R S D C P
	name int
	a, b int
	x    float64
}

type mCfg struct {
	stacking, tick        int
	dur, count, max, cadd int
	status                int
	dispel                bool
	flags                 []int
	hooks                 map[string][]mAct
}

func modName(i int) key.Modifier { return key.Modifier(fmt.Sprintf("verifmod%d", i)) }

var modCatalog = buildModCatalog()

func buildModCatalog() []mCfg {
	var c []mCfg
	for s := 0; s < 7; s++ {
		c = append(c, mCfg{stacking: s, tick: 0, dur: 2, count: 1, max: 3, cadd: 1, status: 1, dispel: true})
	}
	for s := 0; s < 7; s++ {
		c = append(c, mCfg{stacking: s, tick: 1, dur: 3, count: 0, max: 5, cadd: 1, status: 2, dispel: true, flags: [][]int{{100}, {103}, {100, 103}, nil, {101}, {103, 100}, {100}}[s]})
	}
	c = append(c, mCfg{stacking: 3, status: 0})                                                                                                                                        // 14: permanent, not dispellable
	c = append(c, mCfg{stacking: 2, count: 2, status: 1, dispel: true})                                                                                                                // 15
	c = append(c, mCfg{stacking: 0, dur: 2, status: 1, hooks: map[string][]mAct{"OnAdd": {{kind: "A", name: 3, a: 2, b: 1}}, "OnRemove": {{kind: "R", name: 3}}}})                     // 16
	c = append(c, mCfg{stacking: 3, tick: 1, dur: 2, status: 2, dispel: true, hooks: map[string][]mAct{"OnPhase1": {{kind: "S"}}}})                                                    // 17
	c = append(c, mCfg{stacking: 3, count: 3, max: 3, status: 1, hooks: map[string][]mAct{"OnPhase2": {{kind: "C", name: 18, a: -1}}}})                                                // 18
	c = append(c, mCfg{stacking: 2, dur: 2, count: 1, max: 4, cadd: 1, status: 1, dispel: true, hooks: map[string][]mAct{"OnAdd": {{kind: "P", name: int(prop.ATKPercent), x: 0.1}}}}) // 19
	c = append(c, mCfg{stacking: 4, dur: 2, status: 1, hooks: map[string][]mAct{"OnExtendDuration": {{kind: "A", name: 3, a: 1, b: 1}}}})                                              // 20
	c = append(c, mCfg{stacking: 3, dur: 1, status: 2, dispel: true, hooks: map[string][]mAct{"OnRemove": {{kind: "A", name: 14}}}})                                                   // 21
	c = append(c, mCfg{stacking: 6, dur: 2, count: 1, max: 5, cadd: 1, status: 1, hooks: map[string][]mAct{"OnAdd": {{kind: "D", name: 0, a: 1}}}})                                    // 22
	c = append(c, mCfg{stacking: 3, dur: 3, status: 2, dispel: true, hooks: map[string][]mAct{"OnDispel": {{kind: "A", name: 3, a: 1, b: 1}}}})                                        // 23
	c = append(c, mCfg{stacking: 3, dur: 2, status: 1, hooks: map[string][]mAct{"OnPropertyChange": {{kind: "D", name: 24, a: 0}}}})                                                   // 24: observes property changes
	c = append(c, mCfg{stacking: 3, dur: 2, status: 1, dispel: true, hooks: map[string][]mAct{"OnExtendDuration": {{kind: "S"}}}})                                                     // 25: leaves when extended
	c = append(c, mCfg{stacking: 3, dur: 3, status: 2, dispel: true, hooks: map[string][]mAct{"OnExtendDuration": {{kind: "R", name: 14}}}})                                           // 26: removes an earlier modifier when extended
	c = append(c, mCfg{stacking: 3, count: 2, max: 6, cadd: 1, status: 1, hooks: map[string][]mAct{"OnExtendCount": {{kind: "S"}}}})                                                   // 27: leaves when its count is extended
	c = append(c, mCfg{stacking: 1, dur: 2, status: 1, dispel: true})                                                                                                                  // 28: replace-by-source without count or stack increment (count stays "infinite")
	c = append(c, mCfg{stacking: 6, dur: 2, max: 4, status: 2, dispel: true})                                                                                                          // 29: merge, the same
	c = append(c, mCfg{stacking: 2, status: 1})                                                                                                                                        // 30: replace, permanent, the same
	c = append(c, mCfg{stacking: 3, dur: 3, status: 1, hooks: map[string][]mAct{"OnPhase1": {{kind: "R", name: 17}}}})                                                                 // 31: its phase-1 listener detaches modifier 17, whose own phase-1 listener (leave) is still reached by the sweep
	c = append(c, mCfg{stacking: 3, dur: 3, status: 2, dispel: true, hooks: map[string][]mAct{"OnPhase2": {{kind: "R", name: 33}}}})                                                   // 32: the same in phase 2 ...
	c = append(c, mCfg{stacking: 3, count: 2, max: 3, status: 1, hooks: map[string][]mAct{"OnPhase2": {{kind: "S"}}}})                                                                 // 33: ... for a modifier that leaves in phase 2
	return c
}

// the harness session the registered closures talk to (one case at a time)
var modRand *scriptedSource
var modSess *modSession
var modRegisterOnce sync.Once

func registerModCatalog() {
	modRegisterOnce.Do(func() {
		for i, c := range modCatalog {
			i, c := i, c
			mk := func(kind string) func(*modifier.Instance) {
				acts, ok := c.hooks[kind]
				if !ok {
					return nil
				}
				return func(mi *modifier.Instance) { modSess.runHook(kind, mi, acts) }
			}
			modifier.Register(modName(i), modifier.Config{
				Stacking: modifier.StackingBehavior(c.stacking), TickMoment: modifier.TickMoment(c.tick),
				Duration: c.dur, Count: float64(c.count), MaxCount: float64(c.max), CountAddWhenStack: float64(c.cadd),
				StatusType: model.StatusType(c.status), CanDispel: c.dispel, BehaviorFlags: behaviorFlags(c.flags),
				Listeners: modifier.Listeners{OnAdd: mk("OnAdd"), OnRemove: mk("OnRemove"), OnDispel: mk("OnDispel"),
					OnExtendDuration: mk("OnExtendDuration"), OnExtendCount: mk("OnExtendCount"), OnPropertyChange: mk("OnPropertyChange"),
					OnPhase1: mk("OnPhase1"), OnPhase2: mk("OnPhase2")},
			})
		}
	})
}

func behaviorFlags(l []int) []model.BehaviorFlag {
	var out []model.BehaviorFlag
	for _, f := range l {
		out = append(out, model.BehaviorFlag(f))
	}
	return out
}

type stubEngine struct {
	engine.Engine
	ev   *event.System
	attr attribute.Manager
	rnd  *rand.Rand
}

func (e *stubEngine) Events() *event.System            { return e.ev }
func (e *stubEngine) Rand() *rand.Rand                 { return e.rnd }
func (e *stubEngine) IsValid(t key.TargetID) bool      { return t >= 1 && t <= 3 }
func (e *stubEngine) Stats(t key.TargetID) *info.Stats { return e.attr.Stats(t) }

type modSession struct {
	mgr     *modifier.Manager
	out     []*wire.Rec
	uids    map[*modifier.Instance]int
	counter int
	pending []int
	depth   int
	// the chance reported by the last ModifierAdded announcement (-1: none)
	lastChance float64
}

func (s *modSession) scan(t key.TargetID) {
	if len(s.pending) == 0 {
		return
	}
	for _, vi := range s.mgr.VerifInstances(t) {
		if _, ok := s.uids[vi.Inst]; !ok {
			s.uids[vi.Inst] = s.pending[len(s.pending)-1]
		}
	}
}

func (s *modSession) uidOf(mi *modifier.Instance) int {
	if u, ok := s.uids[mi]; ok {
		return u
	}
	if len(s.pending) > 0 {
		u := s.pending[len(s.pending)-1]
		s.uids[mi] = u
		return u
	}
	return -1
}

func (s *modSession) add(t key.TargetID, m info.Modifier) (bool, error) {
	valid := t >= 1 && t <= 3 && m.Source >= 1 && m.Source <= 3
	if valid {
		s.scan(t)
		s.counter++
		s.pending = append(s.pending, s.counter)
	}
	ok, err := s.mgr.AddModifier(t, m)
	if valid {
		s.scan(t)
		s.pending = s.pending[:len(s.pending)-1]
	}
	return ok, err
}

func (s *modSession) runHook(kind string, mi *modifier.Instance, acts []mAct) {
	s.depth++
	defer func() { s.depth-- }()
	if s.depth > 40 {
		panic("listener recursion too deep")
	}
	t := mi.Owner()
	s.out = append(s.out, wire.R("hook").S("kind", kind).I("t", int(t)).I("uid", s.uidOf(mi)))
	for _, a := range acts {
		switch a.kind {
		case "A":
			s.add(t, info.Modifier{Name: modName(a.name), Source: mi.Source(), Duration: a.a, Count: float64(a.b)})
		case "R":
			s.mgr.RemoveModifier(t, modName(a.name))
		case "S":
			mi.RemoveSelf()
		case "D":
			s.mgr.ExtendDuration(t, modName(a.name), a.a)
		case "C":
			s.mgr.ExtendCount(t, modName(a.name), float64(a.a))
		case "P":
			mi.AddProperty(prop.Property(a.name), a.x)
		}
	}
}

func modNameIdx(k key.Modifier) int {
	n, _ := strconv.Atoi(strings.TrimPrefix(string(k), "verifmod"))
	return n
}

func statsStr(pm info.PropMap) string {
	ks := make([]int, 0, len(pm))
	for k := range pm {
		ks = append(ks, int(k))
	}
	sort.Ints(ks)
	parts := make([]string, 0, len(ks))
	for _, k := range ks {
		parts = append(parts, fmt.Sprintf("%d:%s", k, wire.FStr(pm[prop.Property(k)])))
	}
	return strings.Join(parts, "|")
}

func modInto(r *wire.Rec, m info.Modifier) *wire.Rec {
	return r.I("name", modNameIdx(m.Name)).I("src", int(m.Source)).I("dur", m.Duration).I("count", int(m.Count)).
		I("max", int(m.MaxCount)).I("cadd", int(m.CountAddWhenStack)).S("stats", statsStr(m.Stats))
}

func (s *modSession) Log(e any) {
	switch v := e.(type) {
	case event.ModifierAdded:
		s.out = append(s.out, modInto(wire.R("Added").I("t", int(v.Target)), v.Modifier))
		s.lastChance = v.Chance
	case event.ModifierResisted:
		s.out = append(s.out, wire.R("Resisted").I("t", int(v.Target)).I("src", int(v.Source)).I("name", modNameIdx(v.Modifier)).
			F("chance", v.Chance).F("base", v.BaseChance).F("ehr", v.EffectHitRate).F("eres", v.EffectRES).F("dres", v.DebuffRES))
	case event.ModifierRemoved:
		s.out = append(s.out, modInto(wire.R("Removed").I("t", int(v.Target)), v.Modifier))
	case event.ModifierDispelled:
		s.out = append(s.out, modInto(wire.R("Dispelled").I("t", int(v.Target)), v.Modifier))
	case event.ModifierExtendedDuration:
		s.out = append(s.out, modInto(wire.R("ExtDur").I("t", int(v.Target)), v.Modifier).I("old", v.OldValue).I("new", v.NewValue))
	case event.ModifierExtendedCount:
		s.out = append(s.out, modInto(wire.R("ExtCnt").I("t", int(v.Target)), v.Modifier).I("old", int(v.OldValue)).I("new", int(v.NewValue)))
	}
}

func parseStats(s string) info.PropMap {
	if s == "" || s == "-" {
		return nil
	}
	pm := info.PropMap{}
	for _, t := range strings.Split(s, "|") {
		kv := strings.SplitN(t, ":", 2)
		k, _ := strconv.Atoi(kv[0])
		f, _ := wire.ParseF(kv[1])
		pm[prop.Property(k)] = f
	}
	return pm
}

func rawStatsStr(pm info.PropMap) string {
	var ks []int
	for k := range pm {
		ks = append(ks, int(k))
	}
	sort.Ints(ks)
	var out []string
	for _, k := range ks {
		out = append(out, fmt.Sprintf("%d:%s", k, wire.FStr(pm[prop.Property(k)])))
	}
	return strings.Join(out, "|")
}

func dresStr(m info.DebuffRESMap) string {
	var ks []int
	for k := range m {
		ks = append(ks, int(k))
	}
	sort.Ints(ks)
	var out []string
	for _, k := range ks {
		if m[model.BehaviorFlag(k)] != 0 {
			out = append(out, fmt.Sprintf("%d:%s", k, wire.FStr(m[model.BehaviorFlag(k)])))
		}
	}
	return strings.Join(out, "|")
}

func parseDres(s string) info.DebuffRESMap {
	if s == "" || s == "-" {
		return nil
	}
	m := info.NewDebuffRESMap()
	for _, t := range strings.Split(s, "|") {
		kv := strings.SplitN(t, ":", 2)
		k, _ := strconv.Atoi(kv[0])
		f, _ := wire.ParseF(kv[1])
		m[model.BehaviorFlag(k)] = f
	}
	return m
}

// "has at least one of these flags", asked with several flags in every order (all ordered pairs of the query set, one triple, none)
var flagQuerySet = []int{1, 100, 101, 102, 103}

func anyFlagQueries(has func(...model.BehaviorFlag) bool) []int {
	var out []int
	bit := func(b bool) int {
		if b {
			return 1
		}
		return 0
	}
	for _, x := range flagQuerySet {
		for _, y := range flagQuerySet {
			if x != y {
				out = append(out, bit(has(model.BehaviorFlag(x), model.BehaviorFlag(y))))
			}
		}
	}
	out = append(out, bit(has(102, 1, 103)), bit(has(103, 102, 100)), bit(has()))
	return out
}

func flagsOf(st *info.Stats) []int {
	var out []int
	for _, f := range []int{1, 100, 101, 103} {
		if st.HasBehaviorFlag(model.BehaviorFlag(f)) {
			out = append(out, f)
		}
	}
	return out
}

// weakness entries travel as <damage type>:<0|1> joined by '|' ("-" for none); explicit false entries matter
func parseWeak(s string) info.WeaknessMap {
	if s == "" || s == "-" {
		return nil
	}
	m := info.NewWeaknessMap()
	for _, t := range strings.Split(s, "|") {
		kv := strings.SplitN(t, ":", 2)
		k, _ := strconv.Atoi(kv[0])
		m[model.DamageType(k)] = len(kv) > 1 && kv[1] == "1"
	}
	return m
}

func weakStr(m info.WeaknessMap) string {
	var ks []int
	for k := range m {
		ks = append(ks, int(k))
	}
	sort.Ints(ks)
	var out []string
	for _, k := range ks {
		b := "0"
		if m[model.DamageType(k)] {
			b = "1"
		}
		out = append(out, fmt.Sprintf("%d:%s", k, b))
	}
	if len(out) == 0 {
		return "-"
	}
	return strings.Join(out, "|")
}

// the units' own weaknesses (unit 2 carries an explicit "not weak" entry)
func modBaseWeak(id int) info.WeaknessMap {
	switch id {
	case 1:
		return info.WeaknessMap{model.DamageType_FIRE: true, model.DamageType_ICE: false}
	case 2:
		return info.WeaknessMap{model.DamageType_QUANTUM: false}
	}
	return nil
}

func (modComp) Exec(c *wire.Case, w *wire.Writer) {
	w.Case(c.ID)
	defer w.End()
	registerModCatalog()
	ev := &event.System{}
	stub := &stubEval{props: map[key.TargetID]info.PropMap{}}
	modRand = &scriptedSource{fb: rand.NewSource(1)}
	eng := &stubEngine{ev: ev, rnd: rand.New(modRand)}
	sess := &modSession{uids: map[*modifier.Instance]int{}}
	modSess = sess
	logging.InitLoggers(sess)
	defer logging.InitLoggers()
	sess.mgr = modifier.NewManager(eng)
	eng.attr = attribute.New(ev, sess.mgr)
	_ = stub
	base := map[key.TargetID]info.PropMap{}
	for id := 1; id <= 3; id++ {
		bs := info.PropMap{prop.ATKBase: 1000, prop.ATKPercent: 0.1 * float64(id), prop.AllDamageReduce: 0.1, prop.SPDBase: 100}
		var dres info.DebuffRESMap
		switch id { // what the resist roll reads: unit 1 hits more surely, unit 2 resists
		case 1:
			bs[prop.EffectHitRate], bs[prop.EffectHitRateConvert] = 0.2, 0.1
		case 2:
			bs[prop.EffectRES], bs[prop.EffectRESConvert] = 0.2, 0.1
			dres = info.DebuffRESMap{model.BehaviorFlag_STAT_CTRL: 0.5, model.BehaviorFlag_STAT_DOT: 0.25}
		}
		base[key.TargetID(id)] = bs
		_ = eng.attr.AddTarget(key.TargetID(id), info.Attributes{Level: 1, HPRatio: 1, MaxEnergy: 100, BaseStats: bs, Weakness: modBaseWeak(id), BaseDebuffRES: dres})
	}
	// one description (and its maps) reused for several units, as team-wide effects do
	shared := map[string]info.PropMap{}
	for _, op := range c.Ops {
		w.Op(op)
		if op.Name == "cat" {
			continue
		}
		t := key.TargetID(op.Int("t"))
		func() {
			defer func() {
				if r := recover(); r != nil {
					sess.out = append(sess.out, wire.R("panic").S("msg", firstLine(fmt.Sprint(r))))
				}
			}()
			nm := modName(op.Int("name"))
			switch op.Name {
			case "addmod":
				var st info.PropMap
				if k := op.Str("share"); k != "" {
					if _, ok := shared[k]; !ok {
						shared[k] = parseStats(op.Str("stats"))
						if shared[k] == nil {
							shared[k] = info.NewPropMap() // a description built with an allocated, still empty map
						}
					}
					st = shared[k]
				} else {
					st = parseStats(op.Str("stats"))
				}
				// the resist roll draws from the scripted generator: one number per roll
				modRand.q = nil
				for _, u := range op.Flts("draws") {
					modRand.q = append(modRand.q, int64(u*(1<<63)))
				}
				sess.lastChance = -1
				ok, err := sess.add(t, info.Modifier{Name: nm, Source: key.TargetID(op.Int("src")), Duration: op.Int("dur"),
					Count: float64(op.Int("count")), MaxCount: float64(op.Int("max")), CountAddWhenStack: float64(op.Int("cadd")),
					TickImmediately: op.Bool("imm"), Stats: st, Weakness: parseWeak(op.Str("weak")), DebuffRES: parseDres(op.Str("dres")), Chance: op.Flt("chance")})
				if err == nil && ok && op.Has("chance") && op.Flt("chance") > 0 && sess.lastChance != -1 {
					sess.out = append(sess.out, wire.R("applied").F("chance", sess.lastChance))
				}
				if err != nil {
					kind := "invalid_target"
					if strings.Contains(err.Error(), "source") {
						kind = "invalid_source"
					}
					sess.out = append(sess.out, wire.R("err").S("kind", kind))
				} else {
					sess.out = append(sess.out, wire.R("ret").B("ok", ok))
				}
			case "rm":
				sess.mgr.RemoveModifier(t, nm)
			case "rmsrc":
				sess.mgr.RemoveModifierFromSource(t, key.TargetID(op.Int("src")), nm)
			case "rmself":
				// through the handle, as content does: also for an instance that has left its unit since (nothing may happen then)
				for inst, u := range sess.uids {
					if u == op.Int("uid") && inst.Owner() == t {
						inst.RemoveSelf()
						break
					}
				}
			case "extdur":
				sess.mgr.ExtendDuration(t, nm, op.Int("n"))
			case "extcnt":
				sess.mgr.ExtendCount(t, nm, float64(op.Int("n")))
			case "dispel":
				sess.mgr.DispelStatus(t, info.Dispel{Status: model.StatusType(op.Int("status")), Order: model.DispelOrder(op.Int("order")), Count: op.Int("count")})
			case "tick":
				phases := []info.BattlePhase{info.TurnStart, info.ModifierPhase1, info.ActionEnd, info.ModifierPhase2}
				sess.mgr.Tick(t, phases[op.Int("phase")])
			case "instprop":
				for _, vi := range sess.mgr.VerifInstances(t) {
					if sess.uids[vi.Inst] == op.Int("uid") {
						vi.Inst.AddProperty(prop.Property(op.Int("p")), op.Flt("x"))
						break
					}
				}
			case "instset", "instweak", "instdres":
				for _, vi := range sess.mgr.VerifInstances(t) {
					if sess.uids[vi.Inst] == op.Int("uid") {
						switch op.Name {
						case "instset":
							vi.Inst.SetProperty(prop.Property(op.Int("p")), op.Flt("x"))
						case "instweak":
							if op.Bool("on") {
								vi.Inst.AddWeakness(model.DamageType(op.Int("d")))
							} else {
								vi.Inst.RemoveWeakness(model.DamageType(op.Int("d")))
							}
						case "instdres":
							vi.Inst.AddDebuffRES(model.BehaviorFlag(op.Int("f")), op.Flt("x"))
						}
						break
					}
				}
			case "life":
				// the unit's HP is set (0 kills it: nothing revives here); its stats go on being its own plus its attached instances'
				_ = eng.attr.SetHP(info.ModifyAttribute{Key: "verif-life", Target: t, Source: t, Amount: op.Flt("amt")}, false)
			case "mutsnap":
				// change a stats snapshot handed out by the engine; must not reach the unit
				st := eng.attr.Stats(t)
				st.AddProperty("verif", prop.Property(op.Int("p")), op.Flt("x"))
				// a snapshot's derived values are functions of its properties at the time of the question: reading them before a
				// change must not matter for what they are after it (every stat property, every derived getter)
				derived := func(s *info.Stats) [7]float64 {
					return [7]float64{s.MaxHP(), s.CurrentHP(), s.ATK(), s.DEF(), s.SPD(), s.Aggro(), s.HP()}
				}
				stale := ""
				for _, pp := range []prop.Property{prop.HPBase, prop.HPPercent, prop.HPFlat, prop.HPConvert, prop.ATKBase, prop.ATKPercent, prop.ATKFlat, prop.ATKConvert,
					prop.DEFBase, prop.DEFPercent, prop.DEFFlat, prop.DEFConvert, prop.SPDBase, prop.SPDPercent, prop.SPDFlat, prop.SPDConvert, prop.AggroBase, prop.AggroPercent, prop.AggroFlat} {
					read, fresh := eng.attr.Stats(t), eng.attr.Stats(t)
					_ = derived(read)
					read.AddProperty("verif", pp, 37.5)
					fresh.AddProperty("verif", pp, 37.5)
					same := true
					dr, df := derived(read), derived(fresh)
					for k := range dr {
						if dr[k] != df[k] && !(math.IsNaN(dr[k]) && math.IsNaN(df[k])) {
							same = false
						}
					}
					if !same {
						stale = pp.String()
						break
					}
				}
				if stale != "" {
					sess.out = append(sess.out, wire.R("stale").S("prop", stale))
				}
			default:
				sess.out = append(sess.out, wire.R("badop"))
			}
		}()
		for _, r := range sess.out {
			w.Ob(r)
		}
		sess.out = nil
		// full attached list of every unit, and the stats the engine computes from it
		for id := 1; id <= 3; id++ {
			var uids, names, srcs, durs, counts, maxs, renew, cadds []int
			var imms []string
			var p2, stats, weaks, dress []string
			for _, vi := range sess.mgr.VerifInstances(key.TargetID(id)) {
				uids = append(uids, sess.uids[vi.Inst])
				names = append(names, modNameIdx(vi.Model.Name))
				srcs = append(srcs, int(vi.Model.Source))
				durs = append(durs, vi.Model.Duration)
				counts = append(counts, int(vi.Model.Count))
				maxs = append(maxs, int(vi.Model.MaxCount))
				renew = append(renew, vi.Renew)
				cadds = append(cadds, int(vi.Model.CountAddWhenStack))
				if vi.Model.TickImmediately {
					imms = append(imms, "1")
				} else {
					imms = append(imms, "0")
				}
				if vi.CanP2 {
					p2 = append(p2, "1")
				} else {
					p2 = append(p2, "0")
				}
				s := rawStatsStr(vi.RawStats) // the instance's own entries, zero-valued ones included
				if s == "" {
					s = "-"
				}
				stats = append(stats, s)
				weaks = append(weaks, weakStr(vi.Weakness))
				dr := dresStr(vi.Model.DebuffRES)
				if dr == "" {
					dr = "-"
				}
				dress = append(dress, dr)
			}
			st := eng.attr.Stats(key.TargetID(id))
			var weakTo []int
			for d := 1; d <= 7; d++ {
				if st.IsWeakTo(model.DamageType(d)) {
					weakTo = append(weakTo, d)
				}
			}
			w.Ob(wire.R("list").I("t", id).Is("uids", uids).Is("names", names).Is("srcs", srcs).Is("durs", durs).Is("counts", counts).
				Is("maxs", maxs).Is("renew", renew).Is("cadds", cadds).Ss("imms", imms).Ss("p2", p2).S("stats", strings.Join(stats, ";")).
				F("atkpct", st.GetProperty(prop.ATKPercent)).F("reduce", st.GetProperty(prop.AllDamageReduce)).F("atk", st.ATK()).F("spd", st.SPD()).F("cc", st.GetProperty(prop.CritChance)).
				S("weaks", strings.Join(weaks, ";")).Is("weak", weakTo).S("dress", strings.Join(dress, ";")).
				Is("scounts", []int{st.StatusCount(0), st.StatusCount(1), st.StatusCount(2)}).Is("flags", flagsOf(st)).
				Fs("dres", []float64{st.GetDebuffRES(100), st.GetDebuffRES(101), st.GetDebuffRES(103)}).
				Is("anyflag", anyFlagQueries(func(fs ...model.BehaviorFlag) bool { return st.HasBehaviorFlag(fs...) })).
				Is("mgrflag", anyFlagQueries(func(fs ...model.BehaviorFlag) bool { return sess.mgr.HasFlag(key.TargetID(id), fs...) })))
		}
	}
	modSess = nil
}

// ---- generation ----

func actStr(a mAct) string {
	switch a.kind {
	case "A":
		return fmt.Sprintf("A:%d:%d:%d", a.name, a.a, a.b)
	case "R":
		return fmt.Sprintf("R:%d", a.name)
	case "S":
		return "S"
	case "D":
		return fmt.Sprintf("D:%d:%d", a.name, a.a)
	case "C":
		return fmt.Sprintf("C:%d:%d", a.name, a.a)
	case "P":
		return fmt.Sprintf("P:%d:%s", a.name, wire.FStr(a.x))
	}
	return "?"
}

func catOps() []*wire.Rec {
	var out []*wire.Rec
	for i, c := range modCatalog {
		r := wire.R("cat").I("name", i).I("stacking", c.stacking).I("tick", c.tick).I("dur", c.dur).I("count", c.count).I("max", c.max).
			I("cadd", c.cadd).I("status", c.status).B("dispel", c.dispel).Is("flags", c.flags)
		for _, k := range []string{"OnAdd", "OnRemove", "OnDispel", "OnExtendDuration", "OnExtendCount", "OnPropertyChange", "OnPhase1", "OnPhase2"} {
			var parts []string
			for _, a := range c.hooks[k] {
				parts = append(parts, actStr(a))
			}
			v := strings.Join(parts, ";")
			if v == "" {
				v = "-"
			}
			r.S(k, v)
		}
		out = append(out, r)
	}
	return out
}

func (modComp) Gen(r *rand.Rand, tier string, n int) []*wire.Case {
	var cases []*wire.Case
	cat := catOps()
	mk := func(id string, ops ...*wire.Rec) {
		cases = append(cases, &wire.Case{ID: id, Ops: append(append([]*wire.Rec{}, cat...), ops...)})
	}
	add := func(t, name, src, dur, count int, stats string) *wire.Rec {
		if stats == "" {
			stats = "-"
		}
		return wire.R("addmod").I("t", t).I("name", name).I("src", src).I("dur", dur).I("count", count).I("max", 0).I("cadd", 0).B("imm", false).S("stats", stats)
	}
	tick := func(t, ph int) *wire.Rec { return wire.R("tick").I("t", t).I("phase", ph) }
	turn := func(t int) []*wire.Rec { return []*wire.Rec{tick(t, 0), tick(t, 1), tick(t, 2), tick(t, 3)} }
	cat2 := func(parts ...[]*wire.Rec) []*wire.Rec {
		var o []*wire.Rec
		for _, p := range parts {
			o = append(o, p...)
		}
		return o
	}
	one := func(x *wire.Rec) []*wire.Rec { return []*wire.Rec{x} }
	atk := fmt.Sprintf("%d:%s", int(prop.ATKPercent), wire.FStr(0.25))
	red := fmt.Sprintf("%d:%s", int(prop.AllDamageReduce), wire.FStr(0.2))
	// stats that push a computed stat to its lower clamp: a percentage below -100 %, flat parts of either sign
	negpct := fmt.Sprintf("%d:%s", int(prop.ATKPercent), wire.FStr(-1.5))
	flat := fmt.Sprintf("%d:%s", int(prop.ATKFlat), wire.FStr(150))
	negflat := fmt.Sprintf("%d:%s", int(prop.ATKFlat), wire.FStr(-2000))
	// converted parts (a separate addend of the flat part) and speed
	conv := fmt.Sprintf("%d:%s", int(prop.ATKConvert), wire.FStr(64))
	spd := fmt.Sprintf("%d:%s|%d:%s", int(prop.SPDPercent), wire.FStr(0.25), int(prop.SPDFlat), wire.FStr(12))
	spdconv := fmt.Sprintf("%d:%s|%d:%s", int(prop.SPDConvert), wire.FStr(8), int(prop.SPDPercent), wire.FStr(-1.5))
	// directed
	for s := 0; s < 7; s++ {
		mk(fmt.Sprintf("d-stack-%d", s), add(1, s, 1, 0, 0, ""), add(1, s, 1, 0, 0, ""), add(1, s, 2, 4, 2, ""), add(1, s, 1, 1, 0, ""), add(2, s, 1, 0, 0, ""))
	}
	mk("d-order-removeself", cat2(one(add(1, 3, 1, 0, 0, "")), one(add(1, 17, 1, 0, 0, "")), one(add(1, 3, 2, 0, 0, "")), one(add(1, 14, 1, 0, 0, "")), turn(1),
		one(wire.R("dispel").I("t", 1).I("status", 1).I("order", 2).I("count", 1)))...)
	mk("d-rmself-middle", add(1, 3, 1, 0, 0, ""), add(1, 3, 2, 0, 0, ""), add(1, 3, 3, 0, 0, ""), add(1, 14, 1, 0, 0, ""), wire.R("rmself").I("t", 1).I("uid", 2),
		wire.R("dispel").I("t", 1).I("status", 1).I("order", 1).I("count", 1))
	mk("d-rmself-stale", cat2([]*wire.Rec{add(1, 3, 1, 0, 0, ""), add(1, 3, 2, 0, 0, ""), add(1, 14, 1, 0, 0, ""), wire.R("rmself").I("t", 1).I("uid", 2), wire.R("rmself").I("t", 1).I("uid", 2),
		wire.R("rm").I("t", 1).I("name", 14), wire.R("rmself").I("t", 1).I("uid", 3), add(2, 3, 1, 1, 0, "")}, turn(2), turn(2), one(wire.R("rmself").I("t", 2).I("uid", 4)), one(wire.R("rmself").I("t", 1).I("uid", 4)))...)
	mk("d-sweep-reaches-detached", cat2([]*wire.Rec{add(1, 31, 1, 0, 0, ""), add(1, 17, 1, 0, 0, ""), add(1, 3, 1, 0, 0, ""), add(2, 17, 1, 0, 0, ""), add(2, 31, 1, 0, 0, ""), add(3, 32, 1, 0, 0, ""), add(3, 33, 1, 0, 0, ""), add(3, 33, 2, 0, 0, "")},
		turn(1), turn(2), turn(3), turn(1), turn(3))...)
	mk("d-tick", cat2(one(add(1, 3, 1, 2, 0, "")), one(add(1, 10, 1, 2, 0, "")), turn(1), turn(2), turn(1), turn(1))...)
	mk("d-tick-imm", cat2(one(tick(1, 0)), one(add(1, 3, 1, 1, 0, "").I("x", 0)), one(wire.R("addmod").I("t", 1).I("name", 3).I("src", 2).I("dur", 1).I("count", 0).I("max", 0).I("cadd", 0).B("imm", true).S("stats", "-")),
		one(tick(1, 2)), one(wire.R("addmod").I("t", 1).I("name", 3).I("src", 3).I("dur", 1).I("count", 0).I("max", 0).I("cadd", 0).B("imm", true).S("stats", "-")), one(tick(1, 3)), turn(1))...)
	mk("d-dispel-random", add(1, 0, 1, 0, 0, ""), add(1, 3, 1, 0, 0, ""), add(1, 10, 1, 0, 0, ""), add(1, 3, 2, 0, 0, ""), add(1, 14, 1, 0, 0, ""), add(1, 3, 3, 0, 0, ""), add(1, 15, 1, 0, 0, ""),
		wire.R("dispel").I("t", 1).I("status", 1).I("order", 3).I("count", 2), wire.R("dispel").I("t", 1).I("status", 1).I("order", 3).I("count", 1), wire.R("dispel").I("t", 1).I("status", 2).I("order", 3).I("count", 5),
		wire.R("dispel").I("t", 1).I("status", 1).I("order", 3).I("count", 0), wire.R("dispel").I("t", 1).I("status", 1).I("order", 3).I("count", 1), wire.R("dispel").I("t", 2).I("status", 1).I("order", 3).I("count", 1))
	mk("d-dispel", add(1, 0, 1, 0, 0, ""), add(1, 3, 1, 0, 0, ""), add(1, 10, 1, 0, 0, ""), add(1, 3, 2, 0, 0, ""), add(1, 14, 1, 0, 0, ""), add(1, 23, 1, 0, 0, ""),
		wire.R("dispel").I("t", 1).I("status", 1).I("order", 2).I("count", 2), wire.R("dispel").I("t", 1).I("status", 2).I("order", 1).I("count", 1), wire.R("dispel").I("t", 1).I("status", 2).I("order", 2).I("count", 0))
	mk("d-listeners", cat2(one(add(1, 16, 1, 0, 0, "")), one(add(1, 18, 1, 0, 0, "")), one(add(1, 20, 1, 0, 0, "")), one(add(1, 20, 1, 3, 0, "")), one(add(1, 22, 1, 0, 0, "")), one(add(1, 0, 1, 0, 0, "")), one(add(1, 22, 1, 0, 0, "")),
		turn(1), turn(1), turn(1), one(wire.R("rm").I("t", 1).I("name", 16)), one(add(1, 21, 2, 0, 0, "")), turn(1), turn(1))...)
	mk("d-negative-duration", cat2([]*wire.Rec{add(1, 0, 1, -1, 0, ""), add(1, 3, 1, 0, 0, ""), add(1, 3, 1, 5, 0, ""), add(2, 4, 1, 3, 0, ""), add(2, 4, 1, -1, 0, ""), add(3, 5, 1, 2, 0, ""), add(3, 5, 1, -1, 0, ""), add(3, 10, 1, 0, -1, "")},
		turn(1), turn(2), turn(3), turn(1), turn(2), turn(3), turn(1), turn(2), turn(3), turn(1))...)
	mk("d-no-stack-increment", cat2([]*wire.Rec{add(1, 28, 1, 0, 0, ""), add(1, 28, 1, 0, 0, ""), add(1, 29, 1, 0, 0, ""), add(1, 29, 2, 0, 0, ""), add(1, 30, 1, 0, 0, ""), add(1, 30, 1, 0, 0, "")}, turn(1), turn(1), turn(1))...)
	mk("d-extend-past-max", add(1, 3, 1, 2, 3, ""), add(1, 3, 2, 1, 0, ""), wire.R("extcnt").I("t", 1).I("name", 3).I("n", 5), wire.R("extcnt").I("t", 1).I("name", 3).I("n", 1), wire.R("extcnt").I("t", 1).I("name", 3).I("n", -2),
		add(2, 18, 1, 0, 0, ""), wire.R("extcnt").I("t", 2).I("name", 18).I("n", 9), wire.R("extcnt").I("t", 2).I("name", 18).I("n", -9))
	mk("d-extend", add(1, 3, 1, 2, 2, ""), add(1, 3, 2, 2, 0, ""), wire.R("extdur").I("t", 1).I("name", 3).I("n", 2), wire.R("extcnt").I("t", 1).I("name", 3).I("n", 1), wire.R("extcnt").I("t", 1).I("name", 3).I("n", -3),
		wire.R("rmsrc").I("t", 1).I("src", 2).I("name", 3))
	mk("d-rmsrc-multiple", add(1, 3, 2, 0, 0, ""), add(1, 3, 1, 0, 0, ""), add(1, 3, 2, 2, 0, ""), add(1, 10, 2, 0, 0, ""), add(1, 3, 2, 0, 0, atk), add(2, 3, 2, 0, 0, ""),
		wire.R("rmsrc").I("t", 1).I("src", 2).I("name", 3), wire.R("rmsrc").I("t", 1).I("src", 2).I("name", 3), add(1, 17, 3, 0, 0, ""), add(1, 17, 3, 0, 0, ""), wire.R("rmsrc").I("t", 1).I("src", 3).I("name", 17),
		wire.R("rm").I("t", 1).I("name", 3), wire.R("rm").I("t", 2).I("name", 3))
	mk("d-extend-reentrant", add(1, 14, 1, 0, 0, ""), add(1, 25, 1, 1, 0, ""), add(1, 25, 2, 2, 0, ""), add(1, 25, 3, 3, 0, ""), wire.R("extdur").I("t", 1).I("name", 25).I("n", 2),
		add(1, 26, 1, 1, 0, ""), add(1, 26, 2, 2, 0, ""), add(1, 26, 3, 3, 0, ""), wire.R("extdur").I("t", 1).I("name", 26).I("n", 2),
		add(1, 27, 1, 0, 2, ""), add(1, 27, 2, 0, 2, ""), add(1, 27, 3, 0, 2, ""), wire.R("extcnt").I("t", 1).I("name", 27).I("n", 1))
	mk("d-stats", add(1, 3, 1, 0, 0, atk), add(1, 3, 2, 0, 0, atk+"|"+red), add(1, 24, 1, 0, 0, ""), add(1, 19, 1, 0, 0, ""), add(1, 19, 1, 0, 0, ""), wire.R("rm").I("t", 1).I("name", 3),
		wire.R("mutsnap").I("t", 1).I("p", int(prop.ATKPercent)).F("x", 5), wire.R("rm").I("t", 1).I("name", 19))
	// a unit that has died keeps its instances, and its stats keep their contributions (properties, weaknesses, flags, counts, resistances)
	mk("d-stats-of-the-dead", add(1, 3, 1, 0, 0, atk+"|"+red).S("weak", "4:1").S("dres", "100:"+wire.FStr(0.25)), add(1, 7, 1, 0, 0, ""), add(2, 3, 1, 0, 0, atk), wire.R("life").I("t", 1).F("amt", 0),
		add(1, 10, 2, 0, 0, flat), wire.R("life").I("t", 1).F("amt", 500), wire.R("rm").I("t", 1).I("name", 3), wire.R("life").I("t", 2).F("amt", 1), wire.R("life").I("t", 3).F("amt", 0))
	mk("d-weakness-union", add(1, 3, 1, 0, 0, "").S("weak", "4:1"), add(1, 10, 1, 0, 0, "").S("weak", "4:0|5:1"), add(2, 3, 1, 0, 0, "").S("weak", "6:1"), add(2, 10, 1, 0, 0, "").S("weak", "2:0"),
		add(3, 3, 1, 0, 0, "").S("weak", "2:0|3:1"), add(3, 10, 1, 0, 0, "").S("weak", "2:1"), wire.R("rm").I("t", 1).I("name", 3), wire.R("rm").I("t", 3).I("name", 10))
	// resist roll: source's hit rate, target's resistance, resistance by the shape's flags; the roll equal to the chance resists
	chanceOp := func(t, name, src int, ch, draw float64) *wire.Rec {
		return add(t, name, src, 0, 0, "").F("chance", ch).Fs("draws", []float64{draw})
	}
	mk("d-resist", chanceOp(3, 3, 3, 0.5, 0.4), chanceOp(3, 3, 3, 0.5, 0.5), chanceOp(3, 3, 3, 0.5, 0.6), chanceOp(3, 3, 1, 0.5, 0.6), chanceOp(3, 3, 1, 0.5, 0.65), chanceOp(3, 3, 1, 0.5, 0.7),
		chanceOp(2, 3, 3, 1, 0.69), chanceOp(2, 3, 3, 1, 0.7), chanceOp(2, 7, 3, 1, 0.34), chanceOp(2, 7, 3, 1, 0.36), chanceOp(2, 8, 1, 1, 0.6), chanceOp(2, 8, 1, 1, 0.7), chanceOp(2, 9, 1, 1, 0.4),
		chanceOp(1, 0, 2, 0, 0.99), chanceOp(1, 0, 2, -1, 0.99), chanceOp(1, 7, 9, 1, 0.1), chanceOp(9, 7, 1, 1, 0.1), chanceOp(1, 0, 1, 1, 0.1), chanceOp(1, 0, 1, 1, 0.1))
	mk("d-instance-api", add(1, 3, 1, 0, 0, atk).S("weak", "2:0|4:1"), add(1, 10, 1, 0, 0, "").S("dres", "100:"+wire.FStr(0.25)), add(2, 3, 1, 0, 0, ""),
		wire.R("instset").I("t", 1).I("uid", 1).I("p", int(prop.ATKPercent)).F("x", 0.5), wire.R("instset").I("t", 1).I("uid", 1).I("p", int(prop.ATKPercent)).F("x", 0.5), wire.R("instset").I("t", 1).I("uid", 1).I("p", int(prop.ATKPercent)).F("x", 0),
		wire.R("instset").I("t", 1).I("uid", 2).I("p", int(prop.AllDamageReduce)).F("x", 0.3), wire.R("instset").I("t", 1).I("uid", 2).I("p", int(prop.AllDamageReduce)).F("x", 0.1),
		wire.R("instweak").I("t", 1).I("uid", 1).I("d", 2).B("on", true), wire.R("instweak").I("t", 1).I("uid", 1).I("d", 4).B("on", false), wire.R("instweak").I("t", 2).I("uid", 3).I("d", 6).B("on", true), wire.R("instweak").I("t", 2).I("uid", 3).I("d", 6).B("on", false),
		wire.R("instdres").I("t", 1).I("uid", 2).I("f", 100).F("x", 0.25), wire.R("instdres").I("t", 1).I("uid", 2).I("f", 101).F("x", -0.5), wire.R("instdres").I("t", 2).I("uid", 3).I("f", 100).F("x", 0.25), wire.R("rm").I("t", 1).I("name", 10))
	mk("d-flags-counts-dres", add(2, 7, 1, 0, 0, "").S("dres", "100:"+wire.FStr(0.25)), add(2, 8, 1, 0, 0, "").S("dres", "103:"+wire.FStr(0.5)+"|100:"+wire.FStr(0.1)), add(2, 3, 1, 0, 0, ""), add(1, 11, 1, 0, 0, "").S("dres", "101:"+wire.FStr(0.3)),
		add(1, 14, 1, 0, 0, ""), wire.R("rm").I("t", 2).I("name", 7), add(3, 9, 1, 0, 0, ""))
	mk("d-stat-parts", add(1, 3, 1, 0, 0, conv), add(1, 10, 1, 0, 0, flat), add(2, 3, 1, 0, 0, spd), add(2, 10, 1, 0, 0, spdconv), add(3, 3, 1, 0, 0, spdconv), wire.R("rm").I("t", 2).I("name", 3))
	mk("d-stat-clamp", add(1, 3, 1, 0, 0, negpct), add(1, 10, 1, 0, 0, flat), add(2, 3, 1, 0, 0, negflat), add(2, 10, 1, 0, 0, flat), add(3, 3, 1, 0, 0, negpct+"|"+flat), wire.R("rm").I("t", 1).I("name", 3))
	mk("d-shared-empty-desc", add(1, 3, 1, 0, 0, "").S("share", "e"), add(2, 3, 1, 0, 0, "").S("share", "e"), wire.R("instprop").I("t", 1).I("uid", 1).I("p", int(prop.ATKPercent)).F("x", 0.5),
		add(3, 3, 1, 0, 0, "").S("share", "e"), wire.R("instprop").I("t", 3).I("uid", 3).I("p", int(prop.AllDamageReduce)).F("x", 0.1), add(2, 10, 1, 0, 0, "").S("share", "e"))
	mk("d-shared-desc", add(1, 3, 1, 0, 0, atk).S("share", "a"), add(2, 3, 1, 0, 0, atk).S("share", "a"), wire.R("instprop").I("t", 1).I("uid", 1).I("p", int(prop.ATKPercent)).F("x", 0.5),
		add(3, 3, 1, 0, 0, atk).S("share", "a"))
	mk("d-invalid", add(9, 3, 1, 0, 0, ""), add(1, 3, 7, 0, 0, ""), wire.R("rm").I("t", 9).I("name", 3), wire.R("rmself").I("t", 1).I("uid", 5))
	for i := 0; i < n; i++ {
		var ops []*wire.Rec
		l := 6 + r.Intn(30)
		adds := 0
		cursor := map[int]int{}
		var lastAdd *wire.Rec
		for j := 0; j < l; j++ {
			t := pick(r, 1, 1, 2, 3)
			name := r.Intn(len(modCatalog))
			if r.Intn(2) == 0 {
				name = pick(r, 0, 1, 2, 3, 3, 4, 5, 6, 10, 14, 25, 26, 27, 25, 26, 17, 31, 32, 33, 33)
			}
			switch r.Intn(16) {
			case 0, 1, 2, 3, 4, 5:
				st := ""
				if r.Intn(3) == 0 {
					st = pick(r, atk, red, atk+"|"+red, atk, red, negpct, flat, negpct+"|"+flat, negflat, flat+"|"+red, conv, conv+"|"+flat, spd, spdconv, spd+"|"+conv)
				}
				// durations and counts: unspecified (0), explicit, and explicitly negative ("never expires" / "no count", overriding the shape's default)
				op := add(t, name, pick(r, 1, 2, 3), pick(r, 0, 0, 1, 2, 3, -1, -2), pick(r, 0, 0, 1, 2, -1), st)
				if r.Intn(4) == 0 {
					st = ""
					op = wire.R("addmod").I("t", t).I("name", name).I("src", pick(r, 1, 2)).I("dur", pick(r, 0, 1, 2)).I("count", pick(r, 0, 1)).I("max", pick(r, 0, 2, 6)).I("cadd", pick(r, 0, 2)).B("imm", r.Intn(2) == 0).S("stats", "-")
				}
				if r.Intn(4) == 0 {
					op.S("weak", pick(r, "2:1", "2:0|3:1", "6:1", "6:0", "3:1|4:1", "2:0", "7:1|6:0"))
				}
				if r.Intn(5) == 0 {
					op.S("dres", pick(r, "100:"+wire.FStr(0.25), "103:"+wire.FStr(0.5), "100:"+wire.FStr(0.1)+"|101:"+wire.FStr(0.3), "101:"+wire.FStr(-0.2)))
				}
				if r.Intn(4) == 0 {
					// an application that can be resisted: base chance and the roll
					op.F("chance", pick(r, 0.5, 1, 0.25, 1.5, 0, -1)).Fs("draws", []float64{pick(r, 0.0, 0.1, 0.3, 0.5, 0.65, 0.9, 0.9999999999999999)})
				}
				if st != "" && r.Intn(3) == 0 {
					op.S("share", pick(r, "a", "b")+st)
				} else if st == "" && r.Intn(4) == 0 {
					op.S("share", pick(r, "ea", "eb")) // one description with an empty map for several units
				}
				ops = append(ops, op)
				adds++
				if lastAdd == nil || r.Intn(3) == 0 {
					lastAdd = op
				} else if r.Intn(2) == 0 { // once more, the same target, shape and source
					ops = append(ops, add(lastAdd.Int("t"), lastAdd.Int("name"), lastAdd.Int("src"), 0, 0, ""))
					adds++
				}
			case 6:
				ops = append(ops, wire.R("rm").I("t", t).I("name", name))
			case 7:
				if lastAdd != nil && r.Intn(2) == 0 { // the (target, shape, source) of an earlier addition: several instances when the shape allows them
					ops = append(ops, wire.R("rmsrc").I("t", lastAdd.Int("t")).I("src", lastAdd.Int("src")).I("name", lastAdd.Int("name")))
				} else {
					ops = append(ops, wire.R("rmsrc").I("t", t).I("src", pick(r, 1, 2, 3)).I("name", name))
				}
			case 8:
				if adds > 0 {
					ops = append(ops, wire.R("rmself").I("t", t).I("uid", 1+r.Intn(adds+2)))
				}
			case 9:
				ops = append(ops, wire.R("extdur").I("t", t).I("name", name).I("n", pick(r, 1, 2, -1)))
			case 10:
				ops = append(ops, wire.R("extcnt").I("t", t).I("name", name).I("n", pick(r, 1, 2, -1, -2, 5, 9, -7))) // also past the maximum and below zero
			case 11:
				ops = append(ops, wire.R("dispel").I("t", t).I("status", pick(r, 1, 2, 0)).I("order", pick(r, 1, 2, 3)).I("count", pick(r, 0, 1, 2)))
			case 12:
				for cursor[t] != 0 {
					ops = append(ops, tick(t, cursor[t]))
					cursor[t] = (cursor[t] + 1) % 4
				}
				ops = append(ops, turn(t)...)
			case 13:
				// one phase of the target's turn at a time, so that other operations land inside a turn
				ops = append(ops, tick(t, cursor[t]))
				cursor[t] = (cursor[t] + 1) % 4
			case 14:
				if adds > 0 {
					switch r.Intn(4) {
					case 0:
						ops = append(ops, wire.R("instset").I("t", t).I("uid", 1+r.Intn(adds+1)).I("p", pick(r, int(prop.ATKPercent), int(prop.AllDamageReduce), int(prop.CritChance))).F("x", pick(r, 0.0, 0.1, 0.25, 0.3)))
					case 1:
						ops = append(ops, wire.R("instweak").I("t", t).I("uid", 1+r.Intn(adds+1)).I("d", pick(r, 2, 3, 6)).B("on", r.Intn(3) != 0))
					case 2:
						ops = append(ops, wire.R("instdres").I("t", t).I("uid", 1+r.Intn(adds+1)).I("f", pick(r, 100, 101, 103)).F("x", pick(r, 0.25, -0.25, 0.5)))
					default:
						ops = append(ops, wire.R("instprop").I("t", t).I("uid", 1+r.Intn(adds+1)).I("p", pick(r, int(prop.ATKPercent), int(prop.AllDamageReduce), int(prop.CritChance))).F("x", pick(r, 0.1, 0.3)))
					}
				}
			case 15:
				if r.Intn(3) == 0 {
					ops = append(ops, wire.R("life").I("t", t).F("amt", pick(r, 0.0, 0, 1, 500)))
				} else {
					ops = append(ops, wire.R("mutsnap").I("t", t).I("p", int(prop.ATKPercent)).F("x", 3))
				}
			default:
				ops = append(ops, wire.R("mutsnap").I("t", t).I("p", int(prop.ATKPercent)).F("x", 3))
			}
		}
		mk(fmt.Sprintf("r%d", i), ops...)
	}
	return cases
}
