package main

import (
	"fmt"

	"github.com/simimpact/srsim/pkg/engine/event"
	"verifharness/wire"
)

// recLogger collects every logged event (completion order) as wire records.
type recLogger struct {
	recs []*wire.Rec
	conv func(e any) *wire.Rec
}

func (l *recLogger) Log(e any) {
	if r := l.conv(e); r != nil {
		l.recs = append(l.recs, r)
	}
}
func (l *recLogger) take() []*wire.Rec { r := l.recs; l.recs = nil; return r }

// attrEventRec renders the attribute events.
func attrEventRec(e any) *wire.Rec {
	switch v := e.(type) {
	case event.HPChange:
		return wire.R("HPChange").I("t", int(v.Target)).F("oldr", v.OldHPRatio).F("newr", v.NewHPRatio).
			F("oldhp", v.OldHP).F("newhp", v.NewHP).B("dmg", v.IsHPChangeByDamage)
	case event.LimboWaitHeal:
		return wire.R("LimboWaitHeal").I("t", int(v.Target)).B("c", v.IsCancelled)
	case event.EnergyChange:
		return wire.R("EnergyChange").I("t", int(v.Target)).I("src", int(v.Source)).F("old", v.OldEnergy).F("new", v.NewEnergy)
	case event.StanceChange:
		return wire.R("StanceChange").I("t", int(v.Target)).I("src", int(v.Source)).F("old", v.OldStance).F("new", v.NewStance)
	case event.StanceBreak:
		return wire.R("StanceBreak").I("t", int(v.Target)).I("src", int(v.Source))
	case event.StanceReset:
		return wire.R("StanceReset").I("t", int(v.Target))
	case event.SPChange:
		return wire.R("SPChange").I("src", int(v.Source)).I("old", v.OldSP).I("new", v.NewSP)
	}
	return nil
}

func unknownEventRec(e any) *wire.Rec {
	return wire.R("Unknown").S("type", fmt.Sprintf("%T", e))
}
