package main

import (
	"fmt"
	"math/rand"
	"sort"
	"strconv"
	"strings"

	"github.com/simimpact/srsim/pkg/engine/attribute"
	"github.com/simimpact/srsim/pkg/engine/event"
	"github.com/simimpact/srsim/pkg/engine/info"
	"github.com/simimpact/srsim/pkg/engine/logging"
	"github.com/simimpact/srsim/pkg/engine/prop"
	"github.com/simimpact/srsim/pkg/engine/shield"
	"github.com/simimpact/srsim/pkg/key"
	"github.com/simimpact/srsim/pkg/model"
	"verifharness/wire"
)

func init() { components["shield"] = shieldComp{} }

type shieldComp struct{}

func shieldKeyInt(k key.Shield) int {
	if k == "" {
		return 0
	}
	n, _ := strconv.Atoi(strings.TrimPrefix(string(k), "k"))
	return n
}

func shieldEventRec(e any) *wire.Rec {
	switch v := e.(type) {
	case event.ShieldAdded:
		return wire.R("ShieldAdded").I("key", shieldKeyInt(v.ID)).I("src", int(v.Info.Source)).I("tgt", int(v.Info.Target)).F("health", v.ShieldHealth)
	case event.ShieldRemoved:
		return wire.R("ShieldRemoved").I("key", shieldKeyInt(v.ID)).I("tgt", int(v.Target))
	case event.ShieldChange:
		return wire.R("ShieldChange").I("tgt", int(v.Target)).I("key", shieldKeyInt(v.ID)).F("old", v.OldHP).F("new", v.NewHP).F("in", v.DamageIn).F("out", v.DamageOut)
	}
	return nil
}

func parseTerms(s []string) map[int]float64 {
	out := map[int]float64{}
	for _, t := range s {
		kv := strings.SplitN(t, ":", 2)
		if len(kv) != 2 {
			continue
		}
		k, _ := strconv.Atoi(kv[0])
		f, _ := wire.ParseF(kv[1])
		out[k] = f
	}
	return out
}

func termsStr(m map[int]float64) []string {
	ks := make([]int, 0, len(m))
	for k := range m {
		ks = append(ks, k)
	}
	sort.Ints(ks)
	out := make([]string, 0, len(ks))
	for _, k := range ks {
		out = append(out, fmt.Sprintf("%d:%s", k, wire.FStr(m[k])))
	}
	return out
}

func (shieldComp) Exec(c *wire.Case, w *wire.Writer) {
	w.Case(c.ID)
	defer w.End()
	ev := &event.System{}
	stub := &stubEval{props: map[key.TargetID]info.PropMap{}}
	attr := attribute.New(ev, stub)
	mgr := shield.New(ev, attr)
	lg := &recLogger{conv: shieldEventRec}
	logging.InitLoggers(lg)
	defer logging.InitLoggers()
	var readd *wire.Rec
	ev.ShieldRemoved.Subscribe(func(e event.ShieldRemoved) {
		op := readd
		if op == nil {
			return
		}
		readd = nil // once
		stub.props[e.Target] = info.PropMap{prop.HPBase: 1000}
		mgr.AddShield(key.Shield(fmt.Sprintf("k%d", op.Int("rekey"))), info.Shield{Source: e.Target, Target: e.Target, BaseShield: info.ShieldMap{}, ShieldValue: op.Flt("rehp")})
	})
	for id := 1; id <= 4; id++ {
		_ = attr.AddTarget(key.TargetID(id), info.Attributes{Level: 1, HPRatio: 1, MaxEnergy: 100})
		stub.props[key.TargetID(id)] = info.NewPropMap()
	}
	for _, op := range c.Ops {
		w.Op(op)
		tgt := key.TargetID(op.Int("tgt"))
		func() {
			defer func() {
				if r := recover(); r != nil {
					w.Ob(wire.R("panic").S("msg", firstLine(fmt.Sprint(r))))
				}
			}()
			switch op.Name {
			case "add":
				src := key.TargetID(op.Int("src"))
				stub.props[tgt] = info.PropMap{prop.HPBase: op.Flt("tgthp"), prop.ShieldTaken: op.Flt("taken")}
				sp := info.PropMap{prop.ATKBase: op.Flt("srcatk"), prop.DEFBase: op.Flt("srcdef"), prop.HPBase: op.Flt("srchp"), prop.ShieldBoost: op.Flt("boost")}
				if src == tgt {
					sp[prop.ShieldTaken] = op.Flt("taken")
				}
				stub.props[src] = sp
				bs := info.ShieldMap{}
				for k, v := range parseTerms(op.List("terms")) {
					bs[model.ShieldFormula(k)] = v
				}
				mgr.AddShield(key.Shield(fmt.Sprintf("k%d", op.Int("key"))), info.Shield{
					Source: src, Target: tgt, BaseShield: bs, ShieldValue: op.Flt("flat")})
			case "remove":
				// optionally with a listener that answers the announcement of this removal with a new shield for the same unit
				// (a backup shield: flat strength, no bonuses), from inside the announcement
				if op.Has("rekey") {
					readd = op
				}
				mgr.RemoveShield(key.Shield(fmt.Sprintf("k%d", op.Int("key"))), tgt)
				readd = nil
			case "absorb":
				out := mgr.AbsorbDamage(tgt, op.Flt("dmg"))
				lg.recs = append(lg.recs, wire.R("ret").F("out", out))
			default:
				w.Ob(wire.R("badop"))
			}
		}()
		for _, r := range lg.take() {
			w.Ob(r)
		}
		var keys []int
		var hps []float64
		for _, s := range mgr.VerifShields(tgt) {
			keys = append(keys, shieldKeyInt(s.Name))
			hps = append(hps, s.HP)
		}
		w.Ob(wire.R("list").I("tgt", int(tgt)).Is("keys", keys).Fs("hps", hps).B("shielded", mgr.IsShielded(tgt)).F("max", mgr.MaxShield(tgt)))
	}
}

func shieldAddOp(r *rand.Rand, k, src, tgt int, terms map[int]float64, flat float64) *wire.Rec {
	srchp := pick(r, 1000.0, 3200.5, 800)
	tgthp := pick(r, 1200.0, 2800.25, 900)
	if src == tgt {
		tgthp = srchp
	}
	return wire.R("add").I("key", k).I("src", src).I("tgt", tgt).Ss("terms", termsStr(terms)).F("flat", flat).
		F("srcatk", pick(r, 50.0, 700, 1234.5)).F("srcdef", pick(r, 400.0, 1100.75, 0)).F("srchp", srchp).F("tgthp", tgthp).
		F("boost", pick(r, 0.0, 0.2, 0.5, 0, 0.2, -1.5, -1)).F("taken", pick(r, 0.0, 0.1, 0.3, 0, 0.1, -1.5))
}

func (shieldComp) Gen(r *rand.Rand, tier string, n int) []*wire.Case {
	var cases []*wire.Case
	mk := func(id string, ops ...*wire.Rec) { cases = append(cases, &wire.Case{ID: id, Ops: ops}) }
	plain := func(k, src, tgt int, terms map[int]float64, flat float64) *wire.Rec {
		return wire.R("add").I("key", k).I("src", src).I("tgt", tgt).Ss("terms", termsStr(terms)).F("flat", flat).
			F("srcatk", 50).F("srcdef", 40).F("srchp", 1000).F("tgthp", 1000).F("boost", 0).F("taken", 0)
	}
	abs := func(t int, d float64) *wire.Rec { return wire.R("absorb").I("tgt", t).F("dmg", d) }
	rm := func(k, t int) *wire.Rec { return wire.R("remove").I("key", k).I("tgt", t) }
	// directed: flat value, replace vs append, damage below/equal/above each shield, pass-through
	mk("d-flat", plain(1, 1, 2, map[int]float64{1: 1}, 30), abs(2, 60))
	mk("d-flat-only", plain(1, 1, 2, map[int]float64{}, 45), abs(2, 40), abs(2, 5), abs(2, 1))
	mk("d-replace", plain(1, 1, 2, map[int]float64{1: 1}, 0), plain(2, 1, 2, map[int]float64{2: 1}, 0), plain(1, 3, 2, map[int]float64{1: 2}, 0), abs(2, 45), rm(2, 2), rm(2, 2), abs(2, 1000))
	mk("d-parallel", plain(1, 1, 2, map[int]float64{1: 1}, 0), plain(2, 1, 2, map[int]float64{1: 2}, 0), plain(3, 1, 2, map[int]float64{1: 0.5}, 0),
		abs(2, 25), abs(2, 25), abs(2, 50), abs(2, 0), abs(2, -5), abs(2, 10))
	mk("d-pass", abs(2, 10), abs(2, -1), abs(2, 0), plain(1, 1, 2, map[int]float64{1: 1}, 0), abs(3, 10))
	// damage between 0 and 1 on a shielded unit is absorbed like any other; exactly 0 and below pass through
	mk("d-small-damage", plain(1, 1, 2, map[int]float64{1: 1}, 0), abs(2, 0.5), abs(2, 1), abs(2, 0.25), abs(2, 1e-9), abs(2, 0), abs(2, 48), abs(2, 0.5))
	neg := func(op *wire.Rec) *wire.Rec { // the target's shield-taken bonus at -150 %
		for i := range op.KV {
			if op.KV[i][0] == "taken" {
				op.KV[i][1] = wire.FStr(-1.5)
			}
		}
		return op
	}
	// shields of negative strength (a bonus below -100 %, a negative flat value): still shields — a hit takes from each, none ends below zero, those at zero go
	mk("d-negative-strength", neg(plain(1, 1, 2, map[int]float64{2: 0.4}, 10)), neg(plain(2, 1, 2, map[int]float64{}, 20)), abs(2, 30), abs(2, 5),
		plain(3, 1, 2, map[int]float64{}, -25), plain(4, 1, 2, map[int]float64{1: 1}, 0), abs(2, 30), abs(2, 100), plain(5, 3, 3, map[int]float64{}, -1), abs(3, 0), abs(3, -2), abs(3, 0.5))
	// a listener that answers the removal of a shield with a backup shield, from inside the announcement: of the only shield, of one of two, under the removed key again
	mk("d-readd-on-remove", plain(1, 1, 2, map[int]float64{1: 1}, 50), rm(1, 2).I("rekey", 7).F("rehp", 40), abs(2, 25), rm(7, 2).I("rekey", 7).F("rehp", 10), abs(2, 4),
		plain(2, 1, 3, map[int]float64{1: 1}, 0), plain(3, 1, 3, map[int]float64{}, 30), rm(2, 3).I("rekey", 3).F("rehp", 99), rm(5, 3).I("rekey", 8).F("rehp", 5), abs(3, 50))
	mk("d-equal", plain(1, 1, 2, map[int]float64{1: 1}, 0), abs(2, 50), abs(2, 50))
	mk("d-three-terms", plain(1, 1, 2, map[int]float64{1: 0.1, 2: 0.7, 3: 0.013, 4: 0.0007, 5: 0.3}, 0.1), abs(2, 3))
	mk("d-total-shield", plain(1, 2, 1, map[int]float64{1: 1}, 0), plain(2, 1, 3, map[int]float64{5: 0.5}, 0), abs(3, 10))
	for i := 0; i < n; i++ {
		var ops []*wire.Rec
		l := 4 + r.Intn(25)
		for j := 0; j < l; j++ {
			tgt := pick(r, 1, 2, 2, 3)
			switch r.Intn(10) {
			case 0, 1, 2, 3:
				terms := map[int]float64{}
				for t := 0; t < r.Intn(4); t++ {
					terms[pick(r, 1, 2, 3, 4, 5)] = pick(r, 0.1, 0.25, 0.5, 1, 0.013)
				}
				ops = append(ops, shieldAddOp(r, pick(r, 1, 2, 3), pick(r, 1, 2, 3), tgt, terms, pick(r, 0.0, 0, 30, 120.5, 30, -20, -500)))
			case 4:
				op := rm(pick(r, 1, 2, 3, 4), tgt)
				if r.Intn(4) == 0 {
					op.I("rekey", pick(r, 1, 2, 5)).F("rehp", pick(r, 10.0, 75, 300))
				}
				ops = append(ops, op)
			default:
				ops = append(ops, abs(tgt, pick(r, 0.0, -3, 10, 55, 200, 1000, 0.5, 1, amount(r, 300))))
			}
		}
		mk(fmt.Sprintf("r%d", i), ops...)
	}
	return cases
}
