package main

import (
	"fmt"
	"math"
	"math/rand"
	"strconv"
	"strings"

	"github.com/simimpact/srsim/pkg/engine/event/handler"
	"github.com/simimpact/srsim/pkg/engine/logging"
	"verifharness/wire"
)

func init() { components["handler"] = handlerComp{} }

type handlerComp struct{}

// hPayload is the event type carried by the generic handlers under test.
type hPayload struct {
	H int
	V int
	C bool
}

func (p hPayload) Cancelled() handler.CancellableEvent { p.C = true; return p }

type hAct struct {
	kind string // mut, cancel, emit
	a, b int
}

type hSys struct {
	kinds   []int
	plain   map[int]*handler.EventHandler[hPayload]
	prio    map[int]*handler.PriorityEventHandler[hPayload]
	mut     map[int]*handler.MutableEventHandler[hPayload]
	canc    map[int]*handler.CancelableEventHandler[hPayload]
	probing bool
	nlog    int // emissions this logger was handed (probing ones included)
	probe   []int
	out     []*wire.Rec
	depth   int
}

func (s *hSys) emit(h, x int) (cancelled bool) {
	if h < 0 || h >= len(s.kinds) {
		return false
	}
	s.depth++
	defer func() { s.depth-- }()
	if s.depth > 64 {
		panic("emission depth exceeded")
	}
	switch s.kinds[h] {
	case 0:
		s.plain[h].Emit(hPayload{H: h, V: x})
	case 1:
		s.prio[h].Emit(hPayload{H: h, V: x})
	case 2:
		p := &hPayload{H: h, V: x}
		s.mut[h].Emit(p)
	case 3:
		return s.canc[h].Emit(hPayload{H: h, V: x})
	}
	return false
}

// run executes a listener script; returns (payload afterwards, cancelled).
func (s *hSys) run(h, kind, lid int, script []hAct, x int) (int, bool) {
	if s.probing {
		s.probe = append(s.probe, lid)
		return x, false
	}
	if len(s.out) > 20000 {
		panic("emission output cap exceeded")
	}
	s.out = append(s.out, wire.R("call").I("d", s.depth-1).I("h", h).I("lid", lid).I("x", x))
	for _, a := range script {
		switch a.kind {
		case "mut":
			if kind == 2 {
				x += a.a
			}
		case "cancel":
			if kind == 3 {
				return x, true
			}
		case "emit":
			s.emit(a.a, a.b)
		case "emitdec": // re-enter (possibly the same handler) with the payload minus one, while it is positive
			if x > 0 {
				s.emit(a.a, x-1)
			}
		}
	}
	return x, false
}

// a second registered logger: it only counts; every emission must reach it exactly once as well
type hCounter struct{ n int }

func (c *hCounter) Log(any) { c.n++ }

func (s *hSys) Log(e any) {
	s.nlog++
	if s.probing {
		return
	}
	switch v := e.(type) {
	case hPayload:
		s.out = append(s.out, wire.R("log").I("d", s.depth-1).I("h", v.H).I("x", v.V).B("c", v.C))
	case *hPayload:
		s.out = append(s.out, wire.R("log").I("d", s.depth-1).I("h", v.H).I("x", v.V).B("c", v.C))
	default:
		s.out = append(s.out, wire.R("log").S("unknown", fmt.Sprintf("%T", e)))
	}
}

func parseScript(s string) []hAct {
	var out []hAct
	if s == "" || s == "-" {
		return nil
	}
	for _, t := range strings.Split(s, ";") {
		f := strings.Split(t, ":")
		a := hAct{kind: f[0]}
		if len(f) > 1 {
			a.a, _ = strconv.Atoi(f[1])
		}
		if len(f) > 2 {
			a.b, _ = strconv.Atoi(f[2])
		}
		out = append(out, a)
	}
	return out
}

func (handlerComp) Exec(c *wire.Case, w *wire.Writer) {
	w.Case(c.ID)
	defer w.End()
	s := &hSys{plain: map[int]*handler.EventHandler[hPayload]{}, prio: map[int]*handler.PriorityEventHandler[hPayload]{},
		mut: map[int]*handler.MutableEventHandler[hPayload]{}, canc: map[int]*handler.CancelableEventHandler[hPayload]{}}
	// several registered loggers, in arrangements that include the no-op logger at every position
	second := &hCounter{}
	switch len(c.Ops) % 5 {
	case 0:
		logging.InitLoggers(s)
		second = nil
	case 1:
		logging.InitLoggers(s, second)
	case 2:
		logging.InitLoggers(logging.NewNilLogger(), s, second)
	case 3:
		logging.InitLoggers(s, logging.NewNilLogger(), second)
	default:
		logging.InitLoggers(second, s, logging.NewNilLogger())
	}
	defer logging.InitLoggers()
	for _, op := range c.Ops {
		if op.Name == "ord" {
			continue // regenerated below from what the implementation actually does
		}
		w.Op(op)
		var extra *wire.Rec
		func() {
			defer func() {
				if r := recover(); r != nil {
					s.out = append(s.out, wire.R("panic").S("msg", firstLine(fmt.Sprint(r))))
				}
			}()
			switch op.Name {
			case "mk":
				h := len(s.kinds)
				k := op.Int("kind")
				s.kinds = append(s.kinds, k)
				switch k {
				case 0:
					s.plain[h] = &handler.EventHandler[hPayload]{}
				case 1:
					s.prio[h] = &handler.PriorityEventHandler[hPayload]{}
				case 2:
					s.mut[h] = &handler.MutableEventHandler[hPayload]{}
				case 3:
					s.canc[h] = &handler.CancelableEventHandler[hPayload]{}
				}
			case "sub":
				h, lid, prio := op.Int("h"), op.Int("lid"), op.Int("prio")
				if h < 0 || h >= len(s.kinds) {
					return
				}
				script := parseScript(op.Str("script"))
				kind := s.kinds[h]
				switch kind {
				case 0:
					s.plain[h].Subscribe(func(e hPayload) { s.run(h, kind, lid, script, e.V) })
				case 1:
					s.prio[h].Subscribe(func(e hPayload) { s.run(h, kind, lid, script, e.V) }, prio)
				case 2:
					s.mut[h].Subscribe(func(e *hPayload) { e.V, _ = s.run(h, kind, lid, script, e.V) }, prio)
				case 3:
					s.canc[h].Subscribe(func(e hPayload) bool { _, c := s.run(h, kind, lid, script, e.V); return c }, prio)
				}
				// observe the order the runtime's sort chose
				s.probing, s.probe = true, nil
				s.emit(h, 0)
				s.probing = false
				extra = wire.R("ord").I("h", h).Is("lids", s.probe)
			case "emit":
				h := op.Int("h")
				if h < 0 || h >= len(s.kinds) {
					return
				}
				c := s.emit(h, op.Int("x"))
				s.out = append(s.out, wire.R("ret").I("h", h).B("c", c))
			default:
				s.out = append(s.out, wire.R("badop"))
			}
		}()
		if second != nil && second.n != s.nlog {
			s.out = append(s.out, wire.R("logger2").I("got", second.n).I("want", s.nlog))
			second.n = s.nlog
		}
		for _, r := range s.out {
			w.Ob(r)
		}
		s.out = nil
		if extra != nil {
			w.Op(extra)
		}
	}
}

func (handlerComp) Gen(r *rand.Rand, tier string, n int) []*wire.Case {
	var cases []*wire.Case
	mk := func(id string, ops ...*wire.Rec) { cases = append(cases, &wire.Case{ID: id, Ops: ops}) }
	mkh := func(k int) *wire.Rec { return wire.R("mk").I("kind", k) }
	sub := func(h, lid, prio int, script string) *wire.Rec {
		if script == "" {
			script = "-"
		}
		return wire.R("sub").I("h", h).I("lid", lid).I("prio", prio).S("script", script)
	}
	em := func(h, x int) *wire.Rec { return wire.R("emit").I("h", h).I("x", x) }
	mk("d-empty", mkh(0), mkh(1), mkh(2), mkh(3), em(0, 1), em(1, 2), em(2, 3), em(3, 4), em(9, 5))
	mk("d-plain-order", mkh(0), sub(0, 1, 5, ""), sub(0, 2, 1, ""), sub(0, 3, 3, ""), em(0, 7))
	mk("d-prio-order", mkh(1), sub(0, 1, 5, ""), sub(0, 2, -1, ""), sub(0, 3, 3, ""), sub(0, 4, 3, ""), sub(0, 5, -1, ""), em(0, 7))
	// priorities at the ends of the integer range: their order is the order of the integers (a comparison by difference wraps around)
	for k := 1; k <= 3; k++ {
		script := ""
		if k == 3 {
			script = "cancel"
		}
		mk(fmt.Sprintf("d-extreme-priorities-%d", k), mkh(k), sub(0, 1, 1, ""), sub(0, 2, math.MinInt, script), sub(0, 3, -1, script), sub(0, 4, math.MaxInt, ""), sub(0, 5, 2, ""), sub(0, 6, math.MinInt+1, ""),
			sub(0, 7, math.MaxInt-1, ""), sub(0, 8, math.MinInt, ""), em(0, 1), em(0, 2))
		mk(fmt.Sprintf("d-extreme-priorities-late-%d", k), mkh(k), sub(0, 1, -1, script), sub(0, 2, math.MaxInt, ""), em(0, 1), sub(0, 3, -2, ""), sub(0, 4, math.MaxInt, ""), sub(0, 5, 0, ""), em(0, 2))
	}
	mk("d-mutable", mkh(2), sub(0, 1, 2, "mut:10"), sub(0, 2, 1, "mut:1"), sub(0, 3, 3, "mut:100"), em(0, 0), em(0, 5))
	mk("d-cancel", mkh(3), sub(0, 1, 1, ""), sub(0, 2, 2, "cancel"), sub(0, 3, 3, ""), em(0, 1), sub(0, 4, 0, "cancel"), em(0, 2))
	mk("d-reentrant", mkh(0), mkh(2), sub(0, 1, 0, "emitdec:0"), sub(0, 2, 0, ""), sub(0, 3, 0, "emitdec:1"), sub(1, 4, 1, "mut:-1;emitdec:1"), sub(1, 5, 2, "emitdec:1"), em(0, 1), em(0, 2), em(1, 2))
	mk("d-nested", mkh(1), mkh(2), mkh(3), mkh(0), sub(0, 1, 1, "emit:1:5;emit:3:9"), sub(0, 2, 2, ""), sub(1, 3, 1, "mut:2;emit:2:1"), sub(2, 4, 1, "emit:3:4;cancel"),
		sub(3, 5, 0, ""), em(0, 1), em(1, 2))
	{ // more than 12 listeners: beyond the insertion-sort range of sort.Sort
		ops := []*wire.Rec{mkh(1), mkh(2)}
		for i := 0; i < 30; i++ {
			ops = append(ops, sub(0, i+1, pick(r, 0, 1, 1, 2, -3, 5), ""), sub(1, 100+i, pick(r, 0, 1, 2), fmt.Sprintf("mut:%d", 1<<uint(i%20))))
		}
		ops = append(ops, em(0, 1), em(1, 0))
		mk("d-many", ops...)
	}
	for i := 0; i < n; i++ {
		nh := 1 + r.Intn(4)
		var ops []*wire.Rec
		for h := 0; h < nh; h++ {
			ops = append(ops, mkh(r.Intn(4)))
		}
		lid := 0
		l := 4 + r.Intn(30)
		reentrant := i%3 == 0 // a third of the cases have listeners that re-enter handlers (bounded by small payloads)
		if reentrant {
			l = 4 + r.Intn(8)
		}
		for j := 0; j < l; j++ {
			h := r.Intn(nh)
			if r.Intn(3) != 0 {
				lid++
				var acts []string
				for a := 0; a < r.Intn(3); a++ {
					switch r.Intn(4) {
					case 0:
						if reentrant { // payloads must not grow under re-entry
							acts = append(acts, fmt.Sprintf("mut:%d", pick(r, -1, -7, 0)))
						} else {
							acts = append(acts, fmt.Sprintf("mut:%d", pick(r, 1, 10, 100, -7)))
						}
					case 1:
						if r.Intn(3) == 0 {
							acts = append(acts, "cancel")
						}
					case 2:
						if !reentrant {
							continue
						}
						// re-entrant: any handler, including this one; bounded by the payload
						acts = append(acts, fmt.Sprintf("emitdec:%d", pick(r, h, h, h+r.Intn(nh-h)))) // never to a lower handler: (handler, payload) decreases lexicographically
					default:
						if h+1 < nh { // only to higher handlers: emissions form a DAG and terminate
							y := r.Intn(50)
							if reentrant {
								y = r.Intn(4)
							}
							acts = append(acts, fmt.Sprintf("emit:%d:%d", h+1+r.Intn(nh-h-1), y))
						}
					}
				}
				ops = append(ops, sub(h, lid, pick(r, 0, 0, 1, 1, 2, -1, 100, -100, 0, 1, 2, -1, math.MaxInt, math.MinInt, math.MaxInt-1, math.MinInt+1), strings.Join(acts, ";")))
			} else {
				x := r.Intn(100)
				if reentrant {
					x = r.Intn(4)
				}
				ops = append(ops, em(pick(r, h, h, r.Intn(nh+1)), x))
			}
		}
		mk(fmt.Sprintf("r%d", i), ops...)
	}
	return cases
}
