package main

// Component "real": whole runs of the simulator with the content registered in the repository
// (characters, light cones, relic sets, the dummy enemy) and generated gcs scripts.
//
//	op run    one run: outcome, event count, log digest, result
//	op repeat the same run several times in this process and once in a fresh process (C01)
//	op after  the run alone, then again after other runs in the same process (C15)
//	op conc   several runs concurrently on goroutines, against the same runs one by one (C15)
//
// The log is the JSON rendering the repository's own loggers use (logging.Wrap + json.Marshal).

import (
	"bufio"
	"bytes"
	"compress/gzip"
	"context"
	"crypto/sha256"
	"encoding/hex"
	"encoding/json"
	"fmt"
	"io"
	"math/rand"
	"os"
	"os/exec"
	"regexp"
	"runtime/debug"
	"sort"
	"strconv"
	"strings"
	"sync"
	"time"

	"github.com/simimpact/srsim/pkg/engine/equip/lightcone"
	"github.com/simimpact/srsim/pkg/engine/equip/relic"
	"github.com/simimpact/srsim/pkg/engine/logging"
	"github.com/simimpact/srsim/pkg/engine/target/character"
	"github.com/simimpact/srsim/pkg/engine/target/enemy"
	"github.com/simimpact/srsim/pkg/logic/gcs/eval"
	"github.com/simimpact/srsim/pkg/logic/gcs/parse"
	"github.com/simimpact/srsim/pkg/model"
	"github.com/simimpact/srsim/pkg/servermode"
	"github.com/simimpact/srsim/pkg/simulation"
	"google.golang.org/protobuf/proto"
	"google.golang.org/protobuf/types/known/structpb"
	"verifharness/wire"
)

func init() { components["real"] = realComp{} }

type realComp struct{}

const realEventCap = 300000

type lineLogger struct {
	lines []string
	n     int
}

func (l *lineLogger) Log(e any) {
	l.n++
	if l.n > realEventCap {
		panic("verif: event cap reached")
	}
	res, err := json.Marshal(logging.Wrap(e))
	if err != nil {
		res = []byte(fmt.Sprintf("%T: %v", e, err))
	}
	l.lines = append(l.lines, string(res))
}

type realOut struct {
	lg      *lineLogger // the run's own logger (kept to see whether anything reaches it after the run ended)
	kind    string      // result | error | panic | capped | parse-error
	msg     string
	site    string
	lines   []string
	dealt   float64
	taken   float64
	av      float64
	cd, ct  []float64
	elapsed time.Duration
}

func (o *realOut) digest() string {
	h := sha256.New()
	for _, l := range o.lines {
		h.Write([]byte(l))
		h.Write([]byte{'\n'})
	}
	fmt.Fprintf(h, "%s|%x|%x|%x|%v|%v", o.kind, o.dealt, o.taken, o.av, o.cd, o.ct)
	return hex.EncodeToString(h.Sum(nil))[:16]
}

func realConfig(op *wire.Rec) *model.SimConfig {
	cfg := &model.SimConfig{Settings: &model.SimulatorSettings{CycleLimit: uint32(op.Int("cycles")), Iterations: 1}}
	if sc := op.Str("script"); sc != "" {
		cfg.Logic = &model.SimConfig_Gcsl{Gcsl: unhex(sc)} // as a configuration file carries it (it is logged with the configuration)
	}
	chars, lcs := op.List("chars"), op.List("lcs")
	eid, lvl := op.Ints("eidols"), op.Ints("levels")
	relics := strings.Split(op.Str("relics"), ";")
	// optional-field variations (quirk bits): 1 a trace choice (tmask) with a duplicate and an unknown id, 2 level fields left
	// unset (0), 4 relic sub stats, 8 a start HP ratio, 16 ability levels left unset, 32 enemy level unset / elite rank / resistances
	quirk, tmask := op.Int("quirk"), op.Int("tmask")
	allTraces := []string{"101", "102", "103", "201", "202", "203", "204", "205", "206", "207", "208", "209", "210"}
	for i, c := range chars {
		traces := allTraces
		if quirk&1 != 0 {
			traces = nil
			for k, t := range allTraces {
				if tmask&(1<<k) != 0 {
					traces = append(traces, t)
				}
			}
			traces = append(traces, "101", "999", "101")
		}
		abil := uint32(op.Int("abil"))
		if quirk&16 != 0 {
			abil = 0
		}
		level := uint32(lvl[i])
		if quirk&2 != 0 && i%2 == 0 {
			level = 0
		}
		ch := &model.Character{Key: c, Level: level, MaxLevel: level, Eidols: uint32(eid[i]),
			Traces:      traces,
			Abilities:   &model.Abilities{Attack: abil, Skill: abil, Ult: abil, Talent: abil},
			LightCone:   &model.LightCone{Key: lcs[i], Level: level, MaxLevel: level, Imposition: uint32(1 + i%5)},
			StartEnergy: float64(op.Int("energy"))}
		if quirk&8 != 0 {
			ch.StartHp = []float64{0.5, 0, 2.0, 0.01}[i%4]
		}
		if i < len(relics) && relics[i] != "" && relics[i] != "-" {
			for _, rk := range strings.Split(relics[i], "/") {
				n := 2
				if i := strings.LastIndex(rk, "*"); i >= 0 {
					n, _ = strconv.Atoi(rk[i+1:])
					rk = rk[:i]
				}
				for j := 0; j < n; j++ {
					rl := &model.Relic{Key: rk, MainStat: &model.RelicStat{Stat: model.Property_ATK_PERCENT, Amount: 0.1}}
					if quirk&4 != 0 {
						rl.SubStats = []*model.RelicStat{{Stat: model.Property_SPD_FLAT, Amount: 2.5}, {Stat: model.Property_CRIT_CHANCE, Amount: 0.03}, {Stat: model.Property_HP_PERCENT, Amount: 0.04}}
						if (i+j)%2 == 1 { // a slot left empty between filled ones (a relic with fewer sub stats than slots)
							rl.SubStats = []*model.RelicStat{{Stat: model.Property_SPD_FLAT, Amount: 2.5}, {}, {Stat: model.Property_DEF_FLAT, Amount: 20}, {Stat: model.Property_ATK_PERCENT, Amount: 0.05}}
						}
					}
					ch.Relics = append(ch.Relics, rl)
				}
			}
		}
		cfg.Characters = append(cfg.Characters, ch)
	}
	for i, e := range op.List("enemies") {
		en := &model.Enemy{Key: e, Level: uint32(op.Int("elevel")), BaseStats: &model.BaseStats{Hp: float64(op.Int("ehp")), Spd: 100 + float64(10*i)},
			Weaknesses: []model.DamageType{model.DamageType(1 + (i+op.Int("seed"))%7)}}
		if ep := strings.Split(op.Str("eparams"), ":"); len(ep) == 5 {
			// an enemy that fights (the dummy enemy's parameters): attack pattern, hits per action, damage, energy given, element
			hits, _ := strconv.Atoi(ep[1])
			dmg, _ := strconv.ParseFloat(ep[2], 64)
			energy, _ := strconv.ParseFloat(ep[3], 64)
			if st, err := structpb.NewStruct(map[string]any{"attack": ep[0], "hit_count": float64(hits), "damage_percent": dmg, "energy": energy, "damage_type": ep[4]}); err == nil {
				en.Parameters = st
			}
		}
		if quirk&32 != 0 {
			if i%2 == 0 {
				en.Level = 0
			}
			en.Rank = model.EnemyRank_ELITE
			en.DebuffRes = []*model.DebuffRES{{Flag: model.BehaviorFlag_STAT_CTRL, Amount: 0.5}}
			en.Weaknesses = append(en.Weaknesses, en.Weaknesses[0], model.DamageType(1+(i+3)%7))
		}
		cfg.Enemies = append(cfg.Enemies, en)
	}
	return cfg
}

// set when a run missed its deadline: its goroutine keeps spinning, so the process ends after the current case
var realHung bool

func realDeadline() time.Duration {
	if v, err := strconv.Atoi(os.Getenv("VERIF_REAL_DEADLINE_MS")); err == nil && v > 0 {
		return time.Duration(v) * time.Millisecond
	}
	return 60 * time.Second
}

func unhex(s string) string {
	b, err := hex.DecodeString(s)
	if err != nil {
		return ""
	}
	return string(b)
}

// realRun executes one run; withLog attaches a logger (the loggers are a process global, see C15)
func realRun(op *wire.Rec, withLog bool) (out *realOut) {
	out = &realOut{}
	start := time.Now()
	defer func() { out.elapsed = time.Since(start) }()
	defer func() {
		if r := recover(); r != nil {
			msg := firstLine(fmt.Sprint(r))
			if os.Getenv("VERIF_TRACE") != "" {
				fmt.Fprintf(os.Stderr, "PANIC %s\n%s\n", msg, debug.Stack())
			}
			if strings.Contains(msg, "event cap") {
				out.kind = "capped"
			} else {
				out.kind, out.msg, out.site = "panic", msg, panicSite(debug.Stack())
			}
		}
	}()
	list, err := parse.New(unhex(op.Str("script"))).Parse()
	if err != nil {
		out.kind, out.msg = "parse-error", firstLine(err.Error())
		return out
	}
	lg := &lineLogger{}
	out.lg = lg
	defer func() { out.lines = lg.lines }()
	var loggers []logging.Logger
	if withLog {
		loggers = []logging.Logger{lg}
	}
	// a deadline on the run: a loop that emits no event never reaches the event cap
	var res *model.IterationResult
	type crash struct {
		v     any
		stack []byte
	}
	done := make(chan *crash, 1)
	go func() {
		defer func() {
			if r := recover(); r != nil {
				done <- &crash{r, debug.Stack()}
			} else {
				done <- nil
			}
		}()
		ev := realEvalReuse // one evaluator value used for several runs (Init sets it up anew for each)
		if ev == nil {
			ev = eval.New(context.TODO(), list.Program)
		}
		cfg := realCfgReuse // one configuration value handed to several runs (as the worker pools do with every job of a batch)
		if cfg == nil {
			cfg = realConfig(op)
		}
		res, err = simulation.Run(&simulation.RunOpts{Config: cfg, Eval: ev, Seed: int64(op.Int("seed")), Loggers: loggers})
	}()
	select {
	case p := <-done:
		if p != nil {
			msg := firstLine(fmt.Sprint(p.v))
			if os.Getenv("VERIF_TRACE") != "" {
				fmt.Fprintf(os.Stderr, "PANIC %s\n%s\n", msg, p.stack)
			}
			out.lines = lg.lines
			if strings.Contains(msg, "event cap") {
				out.kind = "capped"
			} else {
				out.kind, out.msg, out.site = "panic", msg, panicSite(p.stack)
			}
			return out
		}
	case <-time.After(realDeadline()):
		realHung = true
		out.kind, out.msg = "hang", fmt.Sprintf("no result after %v (events so far: %d)", realDeadline(), lg.n)
		return out
	}
	out.lines = lg.lines
	if err != nil {
		out.kind, out.msg = "error", firstLine(err.Error())
		return out
	}
	out.kind = "result"
	out.dealt, out.taken, out.av = res.TotalDamageDealt, res.TotalDamageTaken, res.TotalAv
	out.cd, out.ct = res.CumulativeDamageDealtByCycle, res.CumulativeDamageTakenByCycle
	return out
}

// when set, realRun hands this evaluator to the run instead of a new one
var realEvalReuse *eval.Eval

// when set, realRun hands this configuration value to the run instead of building a new one
var realCfgReuse *model.SimConfig

var invalidKeyRe = regexp.MustCompile(`invalid (character|enemy)|(light ?cone|relic)[^:]*not|not registered|invalid light|invalid relic|unknown (character|light|relic|enemy)`)

func errClass(msg string) string {
	m := strings.ToLower(strings.ReplaceAll(msg, "_", " "))
	if invalidKeyRe.MatchString(m) {
		return "invalid-key"
	}
	return "other"
}

// the innermost frame inside the repository (file:line relative to it) of a panic's stack
func panicSite(stack []byte) string {
	for _, l := range strings.Split(string(stack), "\n") {
		l = strings.TrimSpace(l)
		if i := strings.Index(l, "/internal/"); i >= 0 && strings.Contains(l, ".go:") {
			return strings.Fields(l[i+1:])[0]
		}
		if i := strings.Index(l, "/pkg/"); i >= 0 && strings.Contains(l, ".go:") && !strings.Contains(l, "/pkg/mod/") && !strings.Contains(l, "pkg/engine/logging") {
			return strings.Fields(l[i+1:])[0]
		}
	}
	return "?"
}

func invalidWhat(msg string) string {
	m := strings.ToLower(msg)
	for _, w := range []string{"character", "lightcone", "relic", "enemy"} {
		if strings.Contains(m, "invalid "+w) || strings.Contains(m, "invalid_"+w) {
			return w
		}
	}
	return "?"
}

func outRec(name string, o *realOut) *wire.Rec {
	r := wire.R(name).S("kind", o.kind).I("events", len(o.lines)).S("digest", o.digest())
	if o.kind == "result" {
		r.F("dealt", o.dealt).F("taken", o.taken).F("av", o.av).Fs("cd", o.cd).Fs("ct", o.ct)
	}
	if o.site != "" {
		r.S("site", strings.ReplaceAll(o.site, ":", "#"))
	}
	if o.msg != "" {
		r.S("class", errClass(o.msg)).S("msg", strings.ReplaceAll(o.msg, " ", "_"))
	}
	return r
}

func firstDiff(a, b []string) (int, string, string) {
	for i := 0; i < len(a) && i < len(b); i++ {
		if a[i] != b[i] {
			x, y := around(a[i], b[i])
			return i, x, y
		}
	}
	if len(a) != len(b) {
		return min(len(a), len(b)), fmt.Sprintf("<%d lines>", len(a)), fmt.Sprintf("<%d lines>", len(b))
	}
	return -1, "", ""
}

// the parts of two lines around their first difference
func around(a, b string) (string, string) {
	i := 0
	for i < len(a) && i < len(b) && a[i] == b[i] {
		i++
	}
	lo := i - 120
	if lo < 0 {
		lo = 0
	}
	cut := func(s string) string {
		hi := i + 120
		if hi > len(s) {
			hi = len(s)
		}
		if lo > len(s) {
			return ""
		}
		return s[lo:hi]
	}
	return cut(a), cut(b)
}

func clip(s string) string {
	s = strings.ReplaceAll(s, " ", "_")
	if len(s) > 300 {
		s = s[:300]
	}
	return s
}

// fresh process: `verifharness real-worker` reads one op line, prints digest and lines count
func realWorkerMain() {
	rd := bufio.NewReaderSize(os.Stdin, 1<<20)
	line, _ := rd.ReadString('\n')
	op := wire.ParseRec(strings.Fields(strings.TrimSpace(line)))
	o := realRun(op, true)
	w := bufio.NewWriter(os.Stdout)
	fmt.Fprintf(w, "%s %s\n", o.kind, o.digest())
	for _, l := range o.lines {
		fmt.Fprintln(w, l)
	}
	w.Flush()
}

func freshRun(op *wire.Rec) (string, string, []string, error) {
	cmd := exec.Command(os.Args[0], "real-worker")
	cmd.Stdin = strings.NewReader(op.String() + "\n")
	outb, err := cmd.Output()
	if err != nil {
		if ee, ok := err.(*exec.ExitError); ok {
			return "", "", nil, fmt.Errorf("%v: %s", err, firstLine(string(ee.Stderr)))
		}
		return "", "", nil, err
	}
	lines := strings.Split(strings.TrimRight(string(outb), "\n"), "\n")
	hd := strings.Fields(lines[0])
	if len(hd) != 2 {
		return "", "", nil, fmt.Errorf("bad worker header %q", lines[0])
	}
	return hd[0], hd[1], lines[1:], nil
}

func (realComp) Exec(c *wire.Case, w *wire.Writer) {
	w.Case(c.ID)
	defer w.End()
	var prev []*wire.Rec
	for _, op := range c.Ops {
		w.Op(op)
		switch op.Name {
		case "run":
			o := realRun(op, true)
			w.Ob(wire.R("registry").Ss("chars", character.VerifRegistered()).Ss("lcs", lightcone.VerifRegistered()).Ss("relics", relic.VerifRegistered()).Ss("enemies", enemy.VerifRegistered()))
			w.Ob(outRec("out", o))
			// the verdict of the configuration check as the implementation reports it
			if o.kind == "error" && errClass(o.msg) == "invalid-key" {
				bad := o.msg[strings.LastIndex(o.msg, ":")+1:]
				w.Ob(wire.R("valid").B("ok", false).S("bad", strings.TrimSpace(strings.ReplaceAll(bad, "_", " "))).S("what", invalidWhat(o.msg)))
			} else {
				w.Ob(wire.R("valid").B("ok", true).S("bad", "-").S("what", "-"))
			}
			prev = append(prev, op)
		case "repeat":
			first := realRun(op, true)
			w.Ob(outRec("out", first))
			same := true
			for i := 0; i < op.Int("k"); i++ {
				o := realRun(op, true)
				if o.digest() != first.digest() {
					same = false
					at, a, b := firstDiff(first.lines, o.lines)
					w.Ob(wire.R("differs").S("where", "same-process").I("rep", i+1).I("line", at).S("a", clip(a)).S("b", clip(b)).S("kinds", first.kind+"/"+o.kind))
					break
				}
			}
			if same {
				// the same run with no logger attached (as the batch iterations of the command line run): the result is a function of
				// configuration, script and seed, so it is the result of the logged run
				u := realRun(op, false)
				res := func(o *realOut) string { return fmt.Sprintf("%s|%x|%x|%x|%v|%v", o.kind, o.dealt, o.taken, o.av, o.cd, o.ct) }
				if res(u) != res(first) {
					same = false
					w.Ob(wire.R("differs").S("where", "without-loggers").I("rep", 0).I("line", -1).S("a", clip(res(first))).S("b", clip(res(u))).S("kinds", first.kind+"/"+u.kind))
				}
			}
			if same {
				// the repetitions again with one evaluator value for all of them (what a caller that keeps its evaluator does):
				// every run re-initialises it, so nothing of an earlier run may show
				if list, err := parse.New(unhex(op.Str("script"))).Parse(); err == nil {
					realEvalReuse = eval.New(context.TODO(), list.Program)
					for i := 0; i < op.Int("k"); i++ {
						o := realRun(op, true)
						if o.digest() != first.digest() {
							same = false
							at, a, b := firstDiff(first.lines, o.lines)
							w.Ob(wire.R("differs").S("where", "same-evaluator").I("rep", i+1).I("line", at).S("a", clip(a)).S("b", clip(b)).S("kinds", first.kind+"/"+o.kind))
							break
						}
					}
					realEvalReuse = nil
				}
			}
			if same {
				// two runs of the same thing at the same time (no loggers: the logger list is shared, C15): a run
				// draws from its own generator, so both must end like the run alone
				var wg sync.WaitGroup
				par := make([]*realOut, 2)
				for i := range par {
					wg.Add(1)
					go func(i int) {
						defer wg.Done()
						par[i] = realRun(op, false)
					}(i)
				}
				wg.Wait()
				alone := realRun(op, false)
				for i := range par {
					if par[i].digest() != alone.digest() {
						same = false
						w.Ob(wire.R("differs").S("where", "overlapping-run").I("rep", i).I("line", -1).S("a", clip(alone.kind+":"+alone.digest())).S("b", clip(par[i].kind+":"+par[i].digest())).S("kinds", alone.kind+"/"+par[i].kind))
						break
					}
				}
			}
			if same {
				kind, dg, lines, err := freshRun(op)
				if err != nil {
					w.Ob(wire.R("workererr").S("msg", clip(err.Error())))
				} else if dg != first.digest() {
					at, a, b := firstDiff(first.lines, lines)
					w.Ob(wire.R("differs").S("where", "fresh-process").I("rep", 0).I("line", at).S("a", clip(a)).S("b", clip(b)).S("kinds", first.kind+"/"+kind))
				}
			}
		case "after":
			// this run again, after the runs executed before it in this case
			_, dg, lines, err := freshRun(op) // alone, first in its process
			o := realRun(op, true)
			w.Ob(outRec("out", o))
			if err != nil {
				w.Ob(wire.R("workererr").S("msg", clip(err.Error())))
			} else if dg != o.digest() {
				at, a, b := firstDiff(lines, o.lines)
				w.Ob(wire.R("differs").S("where", "after-other-runs").I("rep", len(prev)).I("line", at).S("a", clip(a)).S("b", clip(b)).S("kinds", "?/"+o.kind))
			}
			// a later run without loggers of its own: nothing of it may reach the logger of the run that has ended
			if o.lg != nil {
				n := len(o.lg.lines)
				later := realRun(op, false)
				if m := len(o.lg.lines); m != n {
					w.Ob(wire.R("differs").S("where", "later-run-logs").I("rep", len(prev)).I("line", n).S("a", fmt.Sprintf("<%d_lines_when_the_run_ended>", n)).S("b", clip(o.lg.lines[n])).S("kinds", o.kind+"/"+later.kind))
				}
			}
			// the same configuration VALUE for several runs, as the worker pools hand one to every job of a batch: a run
			// reads its configuration, it does not write to it
			if o.kind == "result" {
				shared := realConfig(op)
				before := proto.Clone(shared)
				realCfgReuse = shared
				var last *realOut
				for i := 0; i < 2; i++ {
					last = realRun(op, true)
				}
				realCfgReuse = nil
				if last.digest() != o.digest() {
					at, a, b := firstDiff(o.lines, last.lines)
					w.Ob(wire.R("differs").S("where", "shared-config").I("rep", len(prev)).I("line", at).S("a", clip(a)).S("b", clip(b)).S("kinds", o.kind+"/"+last.kind))
				} else if !proto.Equal(before, shared) {
					w.Ob(wire.R("differs").S("where", "shared-config").I("rep", len(prev)).I("line", -1).S("a", "<the_configuration_before_the_runs>").S("b", "<the_configuration_was_written_to>").S("kinds", o.kind+"/"+last.kind))
				}
			}
			// the same run through the server's sample endpoint (pkg/servermode/sample.go), after all the others: its log is this run's log
			if o.kind == "result" {
				cfg := realConfig(op)
				cfg.Logic = &model.SimConfig_Gcsl{Gcsl: unhex(op.Str("script"))}
				if cj, err := cfg.MarshalJSON(); err == nil {
					gz, err := func() (b []byte, err error) {
						defer func() {
							if r := recover(); r != nil {
								err = fmt.Errorf("panic: %v", r)
							}
						}()
						return servermode.VerifSampleLogs(string(cj), uint64(int64(op.Int("seed"))))
					}()
					var sl []string
					if err == nil {
						if zr, zerr := gzip.NewReader(bytes.NewReader(gz)); zerr == nil {
							data, _ := io.ReadAll(zr)
							sl = strings.Split(strings.TrimSuffix(string(data), "\n"), "\n")
						}
					}
					if at, a, b := firstDiff(o.lines, sl); err != nil || at >= 0 {
						if err != nil {
							b = firstLine(err.Error())
						}
						w.Ob(wire.R("differs").S("where", "sample-endpoint").I("rep", len(prev)).I("line", at).S("a", clip(a)).S("b", clip(b)).S("kinds", o.kind+"/sample"))
					}
				}
			}
		case "conc":
			// all runs of this case so far: one by one without loggers, then all at once
			seq := make([]*realOut, len(prev))
			for i, p := range prev {
				seq[i] = realRun(p, false)
			}
			par := make([]*realOut, len(prev))
			var wg sync.WaitGroup
			for rep := 0; rep < op.Int("k"); rep++ {
				for i, p := range prev {
					wg.Add(1)
					go func(i int, p *wire.Rec) {
						defer wg.Done()
						par[i] = realRun(p, false)
					}(i, p)
				}
				wg.Wait()
				for i := range prev {
					if par[i].digest() != seq[i].digest() {
						w.Ob(wire.R("differs").S("where", "concurrent").I("rep", i).I("line", -1).S("a", clip(seq[i].kind+":"+seq[i].msg+":"+seq[i].digest())).S("b", clip(par[i].kind+":"+par[i].msg+":"+par[i].digest())).S("kinds", seq[i].kind+"/"+par[i].kind))
					}
				}
			}
			w.Ob(wire.R("concdone").I("n", len(prev)))
		case "conclog":
			// the same, each run with its own logger: every run must see exactly its own events
			seq := make([]*realOut, len(prev))
			for i, p := range prev {
				seq[i] = realRun(p, true)
			}
			par := make([]*realOut, len(prev))
			var wg sync.WaitGroup
			for i, p := range prev {
				wg.Add(1)
				go func(i int, p *wire.Rec) {
					defer wg.Done()
					par[i] = realRun(p, true)
				}(i, p)
			}
			wg.Wait()
			for i := range prev {
				if par[i].digest() != seq[i].digest() {
					at, a, b := firstDiff(seq[i].lines, par[i].lines)
					w.Ob(wire.R("differs").S("where", "concurrent-logs").I("rep", i).I("line", at).S("a", clip(a)).S("b", clip(b)).S("kinds", seq[i].kind+"/"+par[i].kind))
					break
				}
			}
			w.Ob(wire.R("concdone").I("n", len(prev)))
		default:
			w.Ob(wire.R("badop"))
		}
		if realHung {
			w.End()
			os.Exit(0)
		}
	}
}

// ---- generation -----------------------------------------------------------------------------------

var keyRe = regexp.MustCompile(`(?m)^\s*[A-Za-z0-9_]+\s+(?:Character|LightCone|Relic|Enemy)?\s*=\s*"([A-Za-z0-9_]+)"`)

func repoKeys(file string) []string {
	root := os.Getenv("VERIF_REPO")
	if root == "" {
		root = "/repo"
	}
	b, err := os.ReadFile(root + "/pkg/key/" + file)
	if err != nil {
		return nil
	}
	var out []string
	for _, m := range keyRe.FindAllStringSubmatch(string(b), -1) {
		out = append(out, m[1])
	}
	sort.Strings(out)
	return out
}

func hexs(s string) string { return hex.EncodeToString([]byte(s)) }

// a well-formed script for the team: default action, skill and ult callbacks with conditions
func realScript(r *rand.Rand, chars []string) string {
	var sb strings.Builder
	tgt := func() string { return pick(r, "First", "LowestHP", "LowestHPRatio") }
	// a script may assign to the names the evaluator predefines (its constants): that is state of this run's script only
	if r.Intn(4) == 0 {
		sb.WriteString("WIND = FIRE - WIND;\nATK_PERCENT = ATK_PERCENT + 1;\n")
	}
	for _, c := range chars {
		fmt.Fprintf(&sb, "set_default_action(%s, attack(%s));\n", c, tgt())
		switch r.Intn(6) {
		case 5: // a decision that reads predefined constants
			fmt.Fprintf(&sb, "register_skill_cb(%s, fn () { if WIND > FIRE && ATK_PERCENT < ATK_FLAT { return skill(%s); } return attack(%s); });\n", c, tgt(), tgt())
		case 0:
			fmt.Fprintf(&sb, "register_skill_cb(%s, fn () { return skill(%s); });\n", c, tgt())
		case 1:
			fmt.Fprintf(&sb, "register_skill_cb(%s, fn () { if skill_points() >= %d { return skill(%s); } return attack(%s); });\n", c, 1+r.Intn(3), tgt(), tgt())
		case 2:
			fmt.Fprintf(&sb, "let n_%s = 0;\nregister_skill_cb(%s, fn () { n_%s = n_%s + 1; if n_%s - (n_%s / 2) * 2 == 0 { return skill(%s); } return attack(%s); });\n", c, c, c, c, c, c, tgt(), tgt())
		case 3:
			fmt.Fprintf(&sb, "register_skill_cb(%s, fn () { if hp_ratio(%s) < 0.5 && skill_ready(%s) { return skill(%s); } if rand() < 0.5 { return attack(%s); } return skill(%s); });\n", c, c, c, tgt(), tgt(), tgt())
		default:
			fmt.Fprintf(&sb, "register_skill_cb(%s, fn () { return attack(%s); });\n", c, tgt())
		}
		switch r.Intn(4) {
		case 0:
			fmt.Fprintf(&sb, "register_ult_cb(%s, fn () { return ult(%s); });\n", c, tgt())
		case 1:
			fmt.Fprintf(&sb, "register_ult_cb(%s, fn () { if energy(%s) >= max_energy(%s) { return ult(%s); } return null; });\n", c, c, c, tgt())
		case 2:
			fmt.Fprintf(&sb, "register_ult_cb(%s, fn () { if ult_ready(%s) && len(enemies()) > 0 { return ult(%s); } return null; });\n", c, c, tgt())
		}
	}
	return sb.String()
}

type realSpec struct {
	chars, lcs, enemies []string
	eidols, levels      []int
	relics              []string
	abil, energy        int
	elevel, ehp         int
	cycles, seed        int
	quirk, tmask        int // optional-field variations of the configuration (see realConfig)
	script              string
	eparams             string // how the (dummy) enemies fight: "<attack>:<hits>:<damage percent>:<energy>:<damage type>", "" = passive
}

func (s realSpec) rec(name string) *wire.Rec {
	return wire.R(name).Ss("chars", s.chars).Ss("lcs", s.lcs).Is("eidols", s.eidols).Is("levels", s.levels).S("relics", strings.Join(s.relics, ";")).
		I("abil", s.abil).I("energy", s.energy).Ss("enemies", s.enemies).I("elevel", s.elevel).I("ehp", s.ehp).I("cycles", s.cycles).I("seed", s.seed).I("quirk", s.quirk).I("tmask", s.tmask).S("script", hexs(s.script)).S("eparams", s.eparams)
}

func realSpecGen(r *rand.Rand, chars, lcs, relics []string) realSpec {
	n := 1 + r.Intn(4)
	s := realSpec{abil: pick(r, 1, 5, 9, 10, 15), energy: pick(r, 0, 50, 200), elevel: pick(r, 1, 1, 50, 80, 95, 99, 100, 2), ehp: pick(r, 50, 500, 2000, 20000, 100000, 1000000),
		cycles: pick(r, 1, 2, 3, 5, 8), seed: pick(r, r.Intn(100000), r.Intn(100000), r.Intn(100000), 0, -7, 1<<40)} // every seed, zero and negative ones too
	if r.Intn(3) == 0 {
		s.quirk = r.Intn(64)
		s.tmask = r.Intn(1 << 13)
	}
	perm := r.Perm(len(chars))
	for i := 0; i < n && i < len(perm); i++ {
		s.chars = append(s.chars, chars[perm[i]])
		s.lcs = append(s.lcs, lcs[r.Intn(len(lcs))])
		s.eidols = append(s.eidols, r.Intn(7))
		s.levels = append(s.levels, pick(r, 1, 20, 50, 80))
		switch r.Intn(5) {
		case 0:
			s.relics = append(s.relics, "-")
		case 1:
			s.relics = append(s.relics, relics[r.Intn(len(relics))]+"*4")
		case 2: // odd pieces: one of a set, three of another
			s.relics = append(s.relics, relics[r.Intn(len(relics))]+"*1/"+relics[r.Intn(len(relics))]+"*3")
		default:
			s.relics = append(s.relics, relics[r.Intn(len(relics))]+"/"+relics[r.Intn(len(relics))])
		}
	}
	for i := 0; i < 1+r.Intn(5); i++ {
		s.enemies = append(s.enemies, "dummy")
	}
	s.script = realScript(r, s.chars)
	if r.Intn(3) != 0 {
		// enemies that fight back: single / bounce / blast / area attacks, light to lethal
		s.eparams = fmt.Sprintf("%s:%d:%s:%d:%s", pick(r, "SINGLE", "BOUNCE", "BLAST", "AOE", "AOE"), pick(r, 1, 1, 2, 3), pick(r, "0.5", "1", "3", "10", "40", "200"), pick(r, 0, 10, 30),
			pick(r, "PHYSICAL", "FIRE", "ICE", "THUNDER", "WIND", "QUANTUM", "IMAGINARY"))
	}
	return s
}

func (realComp) Gen(r *rand.Rand, tier string, n int) []*wire.Case {
	chars, lcs, relics := repoKeys("character.go"), repoKeys("lightcone.go"), repoKeys("relic.go")
	var cases []*wire.Case
	if len(chars) == 0 || len(lcs) == 0 || len(relics) == 0 {
		return []*wire.Case{{ID: "d-nokeys", Ops: []*wire.Rec{wire.R("nokeys")}}}
	}
	mode := os.Getenv("VERIF_REAL_MODE") // run | repeat | isolation
	if mode == "" {
		mode = "run"
	}
	// directed: the sample configuration, unknown keys of every kind
	sample := realSpec{chars: []string{"danheng"}, lcs: []string{"only_silence_remains"}, eidols: []int{0}, levels: []int{80}, relics: []string{"-"}, abil: 1, energy: 50,
		enemies: []string{"dummy"}, elevel: 8, ehp: 20000, cycles: 10, seed: 1,
		script: "set_default_action(danheng, attack(LowestHP));\nregister_skill_cb(danheng, fn () { return skill(LowestHP); });\nregister_ult_cb(danheng, fn () { return ult(LowestHP); });\n"}
	switch mode {
	case "run":
		cases = append(cases, &wire.Case{ID: "d-sample", Ops: []*wire.Rec{sample.rec("run")}})
		for i, mut := range []func(s *realSpec){
			func(s *realSpec) { s.chars = []string{"no_such_character"} },
			func(s *realSpec) { s.lcs = []string{"no_such_cone"} },
			func(s *realSpec) { s.relics = []string{"no_such_relic*4"} },
			func(s *realSpec) { s.relics = []string{"musketeer_of_wild_wheat*1/no_such_relic*1"} },
			func(s *realSpec) { s.enemies = []string{"no_such_enemy"} },
		} {
			s := sample
			mut(&s)
			cases = append(cases, &wire.Case{ID: fmt.Sprintf("d-unknown-%d", i), Ops: []*wire.Rec{s.rec("run")}})
		}
		// the ends of the in-range enemy levels (the level curves run from 1 to 100)
		for _, lv := range []int{1, 2, 99, 100} {
			s := sample
			s.elevel, s.enemies = lv, []string{"dummy", "dummy"}
			cases = append(cases, &wire.Case{ID: fmt.Sprintf("d-enemy-level-%d", lv), Ops: []*wire.Rec{s.rec("run")}})
		}
		// every registered character at the top of every level range (abilities clamp at 9 / 15 / 15 / 15), starting with full energy,
		// its ultimate used whenever it can be and basic attacks otherwise; then the same with skills
		for _, c := range chars {
			for k, act := range []string{"attack", "skill"} {
				s := realSpecGen(r, []string{c}, lcs, relics)
				s.chars, s.eidols, s.levels, s.abil, s.energy = []string{c}, []int{6}, []int{80}, 15, 200
				s.lcs, s.relics = s.lcs[:1], s.relics[:1]
				s.quirk, s.cycles, s.ehp, s.elevel = 0, 4, 100000, 50
				s.enemies = []string{"dummy", "dummy"}
				s.script = fmt.Sprintf("set_default_action(%s, attack(First));\nregister_skill_cb(%s, fn () { return %s(First); });\nregister_ult_cb(%s, fn () { return ult(First); });\n", c, c, act, c)
				cases = append(cases, &wire.Case{ID: fmt.Sprintf("d-char-%s-maxed-%d", c, k), Ops: []*wire.Rec{s.rec("run")}})
			}
		}
		// every registered character in four teams of four (a sliding window over the registry), against enemies that fight and
		// are weak to a different element from team to team
		for i := range chars {
			team := []string{chars[i], chars[(i+1)%len(chars)], chars[(i+2)%len(chars)], chars[(i+3)%len(chars)]}
			s := realSpecGen(r, team, lcs, relics)
			s.chars = team
			s.lcs, s.eidols, s.levels, s.relics = nil, nil, nil, nil
			for range team {
				s.lcs = append(s.lcs, lcs[r.Intn(len(lcs))])
				s.eidols = append(s.eidols, pick(r, 0, 2, 6))
				s.levels = append(s.levels, 80)
				s.relics = append(s.relics, "-")
			}
			s.quirk, s.abil, s.energy, s.cycles, s.ehp, s.elevel, s.seed = 0, 10, 50, 6, 200000, 10, i
			s.enemies = []string{"dummy", "dummy", "dummy"}
			s.eparams = "AOE:1:1:10:PHYSICAL"
			s.script = realScript(r, team)
			cases = append(cases, &wire.Case{ID: fmt.Sprintf("d-team-%d", i), Ops: []*wire.Rec{s.rec("run")}})
		}
		// every registered character once, alone, with its own script
		for _, c := range chars {
			s := realSpecGen(r, []string{c}, lcs, relics)
			cases = append(cases, &wire.Case{ID: "d-char-" + c, Ops: []*wire.Rec{s.rec("run")}})
		}
		for i := 0; i < n; i++ {
			s := realSpecGen(r, chars, lcs, relics)
			if r.Intn(12) == 0 { // an unknown key somewhere
				switch r.Intn(4) {
				case 3:
					s.relics[r.Intn(len(s.relics))] = pick(r, "no_such_relic*1", relics[r.Intn(len(relics))]+"*2/no_such_relic*1", "no_such_relic*2")
				case 0:
					s.chars[r.Intn(len(s.chars))] = "no_such_character"
				case 1:
					s.lcs[r.Intn(len(s.lcs))] = "no_such_cone"
				default:
					s.enemies[r.Intn(len(s.enemies))] = "no_such_enemy"
				}
			}
			cases = append(cases, &wire.Case{ID: fmt.Sprintf("r%d", i), Ops: []*wire.Rec{s.rec("run")}})
		}
	case "repeat":
		cases = append(cases, &wire.Case{ID: "d-sample", Ops: []*wire.Rec{sample.rec("repeat").I("k", 3)}})
		for _, sd := range []int{0, -1, 1 << 40} { // particular seeds
			z := sample
			z.seed = sd
			cases = append(cases, &wire.Case{ID: fmt.Sprintf("d-seed-%d", sd), Ops: []*wire.Rec{z.rec("repeat").I("k", 3)}})
		}
		// directed: the light cones whose battle-start effects touch the whole team (they are active only on a wearer of their path)
		{
			has := func(l []string, k string) bool {
				for _, x := range l {
					if x == k {
						return true
					}
				}
				return false
			}
			team := func(id string, members ...[2]string) {
				var cs, ls []string
				for _, m := range members {
					if !has(chars, m[0]) || !has(lcs, m[1]) {
						return
					}
					cs, ls = append(cs, m[0]), append(ls, m[1])
				}
				s := realSpecGen(r, cs, lcs, relics)
				s.chars, s.lcs = cs, ls // the order given here, not a shuffle of it
				s.eidols, s.levels, s.relics = make([]int, len(cs)), make([]int, len(cs)), make([]string, len(cs))
				for i := range cs {
					s.levels[i], s.relics[i] = 80, "-"
				}
				s.quirk, s.cycles, s.ehp = 0, 4, 20000
				s.script = realScript(r, cs)
				cases = append(cases, &wire.Case{ID: id, Ops: []*wire.Rec{s.rec("repeat").I("k", 3)}})
			}
			team("d-cone-chorus", [2]string{"asta", "chorus"}, [2]string{"bronya", "chorus"}, [2]string{"danheng", "only_silence_remains"})
			team("d-cone-fine-fruit", [2]string{"natasha", "fine_fruit"}, [2]string{"asta", "chorus"}, [2]string{"gepard", "day_one_of_my_new_life"})
			team("d-cone-preservation", [2]string{"gepard", "day_one_of_my_new_life"}, [2]string{"march7th", "we_are_wildfire"}, [2]string{"natasha", "fine_fruit"}, [2]string{"bronya", "chorus"})
			team("d-cone-wildfire", [2]string{"march7th", "we_are_wildfire"}, [2]string{"gepard", "we_are_wildfire"})
			// relic sets whose effect looks at the line-up's stats when the battle starts: a wearer fast enough for it (sub stats give speed)
			relicCase := func(id, c, lc, set string) {
				if !has(chars, c) || !has(lcs, lc) || !has(relics, set) {
					return
				}
				s := realSpecGen(r, []string{c}, lcs, relics)
				s.chars, s.lcs, s.eidols, s.levels = []string{c}, []string{lc}, []int{0}, []int{80}
				other := relics[r.Intn(len(relics))]
				s.relics = []string{set + "*2/" + other + "*4"}
				s.quirk, s.tmask, s.cycles, s.ehp = 4, 0, 3, 20000
				s.script = realScript(r, s.chars)
				cases = append(cases, &wire.Case{ID: id, Ops: []*wire.Rec{s.rec("repeat").I("k", 2)}})
			}
			relicCase("d-relic-vonwacq", "danheng", "only_silence_remains", "sprightly_vonwacq")
			if tier == "thorough" {
				for _, set := range relics {
					relicCase("d-relic-"+set, pick(r, "danheng", "asta", "natasha"), pick(r, "only_silence_remains", "meshing_cogs", "perfect_timing"), set)
				}
			}
		}
		for i := 0; i < n; i++ {
			s := realSpecGen(r, chars, lcs, relics)
			cases = append(cases, &wire.Case{ID: fmt.Sprintf("r%d", i), Ops: []*wire.Rec{s.rec("repeat").I("k", 3)}})
		}
	case "isolation":
		{
			// directed: the same character twice in one process (state kept outside the run shows up)
			for _, c := range chars {
				s := realSpecGen(r, []string{c}, lcs, relics)
				s.ehp, s.cycles, s.elevel = 3000, 4, 1
				s.levels, s.abil = []int{80}, 5
				s.enemies = []string{"dummy", "dummy", "dummy"}
				first := s.rec("run")
				again := s.rec("after")
				cases = append(cases, &wire.Case{ID: "d-twice-" + c, Ops: []*wire.Rec{first, again}})
			}
			// directed: concurrent runs each with their own logger
			a, b := realSpecGen(r, chars, lcs, relics), realSpecGen(r, chars, lcs, relics)
			cases = append(cases, &wire.Case{ID: "d-concurrent-logs", Ops: []*wire.Rec{a.rec("run"), b.rec("run"), wire.R("conclog")}})
		}
		for i := 0; i < n; i++ {
			var ops []*wire.Rec
			k := 2 + r.Intn(3)
			for j := 0; j < k; j++ {
				ops = append(ops, realSpecGen(r, chars, lcs, relics).rec("run"))
			}
			// the first run again after the others; then everything concurrently
			again := *ops[0]
			again.Name = "after"
			ops = append(ops, &again, wire.R("conc").I("k", 2))
			cases = append(cases, &wire.Case{ID: fmt.Sprintf("r%d", i), Ops: ops})
		}
	}
	return cases
}
