package main

import (
	"bufio"
	"encoding/hex"
	"fmt"
	"io"
	"math/rand"
	"os"
	"os/exec"
	"runtime"
	"sort"
	"strings"
	"time"
	"unicode"
	"unicode/utf8"

	"github.com/simimpact/srsim/pkg/logic/gcs/ast"
	"github.com/simimpact/srsim/pkg/logic/gcs/parse"
	"verifharness/wire"
)

func init() {
	components["lex"] = gcsComp{mode: "lex"}
	components["parse"] = gcsComp{mode: "parse"}
}

// ---- worker process: the lexer runs in its own goroutine, whose panics cannot be recovered, so
// every input is processed by a sacrificial child process ----

func gcsWorkerMain() {
	in := bufio.NewReaderSize(os.Stdin, 1<<22)
	out := bufio.NewWriterSize(os.Stdout, 1<<20)
	for {
		line, err := in.ReadString('\n')
		if err != nil {
			return
		}
		f := strings.Fields(line)
		if (len(f) == 4 || len(f) == 5) && f[0] == "eval" {
			var src []byte
			if f[1] != "-" {
				src, _ = hex.DecodeString(f[1])
			}
			world := "-"
			if len(f) == 5 {
				world = f[4]
			}
			gcsEvalRequest(out, src, f[2], f[3], world)
			fmt.Fprintf(out, ".\n")
			out.Flush()
			continue
		}
		if len(f) != 2 {
			continue
		}
		var src []byte
		if f[1] != "-" {
			src, _ = hex.DecodeString(f[1])
		}
		switch f[0] {
		case "lex":
			for _, t := range parse.VerifLex(string(src)) {
				l := len(t.Val)
				if t.Typ == ast.ItemError {
					l = 0
				}
				fmt.Fprintf(out, "tok typ=%d pos=%d len=%d line=%d\n", int(t.Typ), int(t.Pos), l, t.Line)
			}
		case "parse":
			before := runtime.NumGoroutine()
			t0 := time.Now()
			res, err := parse.New(string(src)).Parse()
			el := time.Since(t0)
			if err == nil && (res == nil || res.Program == nil) {
				fmt.Fprintf(out, "neither\n") // no program and no error either
			} else if err != nil || res == nil {
				fmt.Fprintf(out, "perr\n")
			} else {
				fmt.Fprintf(out, "ast s=%s\n", sexprBlock(res.Program))
			}
			// give a finished lexer goroutine the chance to exit before counting
			leaked := 0
			for i := 0; i < 50; i++ {
				leaked = runtime.NumGoroutine() - before
				if leaked <= 0 {
					break
				}
				time.Sleep(time.Millisecond)
			}
			fmt.Fprintf(out, "gor leaked=%d\n", leaked)
			budget := time.Duration(50+len(src)/20) * time.Millisecond
			if el > budget {
				fmt.Fprintf(out, "slow ms=%d budget=%d\n", el.Milliseconds(), budget.Milliseconds())
			}
		}
		fmt.Fprintf(out, ".\n")
		out.Flush()
	}
}

func hx(s string) string {
	if s == "" {
		return "-"
	}
	// canonical form: invalid UTF-8 bytes become U+FFFD, as the rune-level model sees them
	return hex.EncodeToString([]byte(string([]rune(s))))
}

func sexprExpr(e ast.Expr) string {
	switch v := e.(type) {
	case nil:
		return "NILEXPR" // a missing expression: never legitimate where an expression is required
	case *ast.NumberLit:
		if v == nil {
			return "NILEXPR"
		}
		if v.IsFloat {
			return fmt.Sprintf("N(f:%s)", wire.FStr(v.FloatVal))
		}
		return fmt.Sprintf("N(i:%d)", v.IntVal)
	case *ast.StringLit:
		return fmt.Sprintf("S(%s)", hx(v.Value))
	case *ast.NullLit:
		return "Z"
	case *ast.Ident:
		return fmt.Sprintf("I(%s)", hx(v.Value))
	case *ast.CallExpr:
		args := make([]string, len(v.Args))
		for i, a := range v.Args {
			args[i] = sexprExpr(a)
		}
		return fmt.Sprintf("C(%s;%s)", sexprExpr(v.Fun), strings.Join(args, ","))
	case *ast.UnaryExpr:
		return fmt.Sprintf("U(%d;%s)", int(v.Op.Typ), sexprExpr(v.Right))
	case *ast.BinaryExpr:
		return fmt.Sprintf("B(%d;%s;%s)", int(v.Op.Typ), sexprExpr(v.Left), sexprExpr(v.Right))
	case *ast.MapExpr:
		arr := make([]string, len(v.Array))
		for i, a := range v.Array {
			arr[i] = sexprExpr(a)
		}
		keys := make([]string, 0, len(v.Fields))
		for k := range v.Fields {
			keys = append(keys, k)
		}
		sort.Strings(keys)
		fl := make([]string, len(keys))
		for i, k := range keys {
			fl[i] = hx(k) + "=" + sexprExpr(v.Fields[k])
		}
		return fmt.Sprintf("M(%s|%s)", strings.Join(arr, ","), strings.Join(fl, ","))
	case *ast.FuncLit:
		return fmt.Sprintf("F(%s;%s)", sexprArgs(v.Args), sexprBlock(v.Body))
	}
	return fmt.Sprintf("?%T", e)
}

func sexprArgs(a []*ast.Ident) string {
	s := make([]string, len(a))
	for i, x := range a {
		s[i] = hx(x.Value)
	}
	return strings.Join(s, ",")
}

func sexprBlock(b *ast.BlockStmt) string {
	if b == nil {
		return "nil"
	}
	s := make([]string, len(b.List))
	for i, n := range b.List {
		s[i] = sexprNode(n)
	}
	return "BL(" + strings.Join(s, ",") + ")"
}

func sexprNode(n ast.Node) string {
	switch v := n.(type) {
	case nil:
		return "nil"
	case *ast.BlockStmt:
		return sexprBlock(v)
	case *ast.LetStmt:
		return fmt.Sprintf("L(%s;%s)", hx(v.Ident.Val), sexprExpr(v.Val))
	case *ast.AssignStmt:
		return fmt.Sprintf("A(%s;%s)", hx(v.Ident.Val), sexprExpr(v.Val))
	case *ast.ReturnStmt:
		return fmt.Sprintf("R(%s)", sexprExpr(v.Val))
	case *ast.CtrlStmt:
		return fmt.Sprintf("K(%d)", int(v.Typ))
	case *ast.IfStmt:
		els := "nil"
		if v.ElseBlock != nil {
			els = sexprNode(v.ElseBlock)
		}
		return fmt.Sprintf("IF(%s;%s;%s)", sexprExpr(v.Condition), sexprBlock(v.IfBlock), els)
	case *ast.SwitchStmt:
		cs := make([]string, len(v.Cases))
		for i, c := range v.Cases {
			cs[i] = fmt.Sprintf("CS(%s;%s)", sexprExpr(c.Condition), sexprBlock(c.Body))
		}
		cond := "nil"
		if v.Condition != nil {
			cond = sexprExpr(v.Condition)
		}
		return fmt.Sprintf("SW(%s;%s;%s)", cond, strings.Join(cs, ","), sexprBlock(v.Default))
	case *ast.FnStmt:
		return fmt.Sprintf("FN(%s;%s;%s)", hx(v.FunVal.Val), sexprArgs(v.Args), sexprBlock(v.Body))
	case *ast.WhileStmt:
		return fmt.Sprintf("W(%s;%s)", sexprExpr(v.Condition), sexprBlock(v.WhileBlock))
	case *ast.ForStmt:
		ini, post, cond := "nil", "nil", "nil"
		if v.Cond != nil {
			cond = sexprExpr(v.Cond)
		}
		if v.Init != nil {
			ini = sexprNode(v.Init)
		}
		if v.Post != nil {
			post = sexprNode(v.Post)
		}
		return fmt.Sprintf("FOR(%s;%s;%s;%s)", ini, cond, post, sexprBlock(v.Body))
	case ast.Expr:
		return sexprExpr(v)
	}
	return fmt.Sprintf("?%T", n)
}

// ---- parent side ----

type gcsWorker struct {
	cmd *exec.Cmd
	in  io.WriteCloser
	out *bufio.Reader
}

func startGcsWorker() *gcsWorker {
	cmd := exec.Command(os.Args[0], "gcs-worker", "run")
	cmd.Env = append(os.Environ(), "GOMEMLIMIT=1GiB")
	in, _ := cmd.StdinPipe()
	outp, _ := cmd.StdoutPipe()
	cmd.Stderr = io.Discard
	if err := cmd.Start(); err != nil {
		return nil
	}
	return &gcsWorker{cmd: cmd, in: in, out: bufio.NewReaderSize(outp, 1<<20)}
}

func (w *gcsWorker) stop() {
	if w == nil {
		return
	}
	w.in.Close()
	// a healthy worker leaves when its input ends; anything else is killed
	done := make(chan struct{})
	go func() { _, _ = w.cmd.Process.Wait(); close(done) }()
	select {
	case <-done:
		return
	case <-time.After(300 * time.Millisecond):
	}
	_ = w.cmd.Process.Kill()
	<-done
}

// ask sends one request; returns the response lines and "" / "crash" / "hang".
func (w *gcsWorker) ask(mode, hx string, deadline time.Duration) ([]string, string) {
	type res struct {
		lines []string
		err   error
	}
	ch := make(chan res, 1)
	go func() {
		if _, err := fmt.Fprintf(w.in, "%s %s\n", mode, hx); err != nil {
			ch <- res{nil, err}
			return
		}
		var lines []string
		for {
			l, err := w.out.ReadString('\n')
			if err != nil {
				ch <- res{lines, err}
				return
			}
			l = strings.TrimRight(l, "\n")
			if l == "." {
				ch <- res{lines, nil}
				return
			}
			lines = append(lines, l)
		}
	}()
	select {
	case r := <-ch:
		if r.err != nil {
			return r.lines, "crash"
		}
		return r.lines, ""
	case <-time.After(deadline):
		return nil, "hang"
	}
}

type gcsComp struct{ mode string }

func (g gcsComp) Exec(c *wire.Case, w *wire.Writer) {
	w.Case(c.ID)
	defer w.End()
	wk := startGcsWorker()
	defer func() { wk.stop() }()
	for _, op := range c.Ops {
		w.Op(op)
		if op.Name != "lex" && op.Name != "parse" && op.Name != "eval" {
			w.Ob(wire.R("badop"))
			continue
		}
		h := op.Str("hex")
		if h == "" {
			h = "-" // the empty input
		}
		req := h
		if op.Name == "eval" {
			req = h + " " + op.Str("calls") + " " + op.Str("draws")
			if wd := op.Str("world"); wd != "" {
				req += " " + wd
			}
		}
		lines, status := wk.ask(op.Name, req, time.Duration(5000+len(h)/10)*time.Millisecond)
		if status != "" {
			w.Ob(wire.R(status))
			wk.stop()
			wk = startGcsWorker()
			continue
		}
		for _, l := range lines {
			w.Ob(wire.ParseRec(strings.Fields(l)))
		}
	}
}

// ---- input generation ----

func runesOf(src []byte) []string {
	var out []string
	for i := 0; i < len(src); {
		r, w := utf8.DecodeRune(src[i:])
		b := func(x bool) int {
			if x {
				return 1
			}
			return 0
		}
		out = append(out, fmt.Sprintf("%d.%d.%d.%d", r, w, b(unicode.IsLetter(r)), b(unicode.IsDigit(r))))
		i += w
	}
	return out
}

func gcsOp(mode string, src []byte) *wire.Rec {
	h := hex.EncodeToString(src)
	if h == "" {
		h = "-"
	}
	return wire.R(mode).S("hex", h).Ss("runes", runesOf(src))
}

var gcsFragments = []string{
	"let", "x", "y1", "foo-bar", "a%", "=", "==", ";", " ", "\n", "\t", "(", ")", "[", "]", "{", "}", ",", ":", "+", "-", "*", "/", "<", ">", "<=", ">=", "<>", "!=", "!", "&&", "||",
	"1", "23", "4.5", ".5", "-7", "-.2", "3.", "\"str\"", "\"a\\\"b\"", "if", "else", "while", "for", "fn", "switch", "case", "default", "break", "continue", "fallthrough", "return",
	"true", "false", "null", "a_rather_long_identifier", "12345678901234", "\"a long string literal\"", "# comment\n", "// c\n", "//", "#", "&", "|", ".", "\"open", "\\", "$", "@", "é", "日本", "٣", "-٣", ".٣", "x٣", "\xff", "\xc3", "\xe2\x82", "\r\n", "_", "%",
}

var gcsPrograms = []string{
	"let x = 1 + 2 * 3;\nif x > 5 { x = x - 1; } else if x == 0 { x = 2; } else { x = 0; }\n",
	"fn f(a, b) { return a * (b + 1); }\nlet y = f(1, 2) / 3;\nwhile y < 10 { y = y + 1; if y == 5 { break; } continue; }\n",
	"for let i = 0; i < 3; i = i + 1 { print(i); }\nfor { break; }\nfor x < 3 { x = x + 1; }\n",
	"switch x { case 1: y = 1; fallthrough; case 2: y = 2; default: y = 3; }\nswitch { case x > 1: y = 0; }\n",
	"let m = [1, 2, a = 3, b = [4], \"s\"];\nlet g = fn(q) { return !q && (q || 1) != -q; };\nregister_skill_cb(0, fn () { return skill(LowestHP); });\n",
	"let z = -x - -1; # trailing\n{ let w = null; }\nlet s = \"q\\\"uote\";",
}

// genExpr: a random well-formed gcs expression over the whole expression grammar (unary and
// binary operators, calls on any callee, parentheses, maps, function literals), with a random
// layout.  Used by the parse component so that operator/call grouping is compared tree-for-tree.
func genExpr(r *rand.Rand, d int) string {
	sp := func() string {
		return pick(r, "", " ", " ", "  ", "\n", " # c\n", "\t", "#\n", " //\n", "// \n", "#\r\n")
	}
	if d <= 0 || r.Intn(4) == 0 {
		return pick(r, "x", "y1", "f", "foo-bar", "1", "23", "4.5", ".5", "-7", "3.", "\"s\"", "true", "false", "null", "a%",
			"010", "08", "0100", "-012", "007", "00", "0.50", "1e3", "0x10", "9223372036854775807", "9223372036854775808", "+5", "1_000")
	}
	switch r.Intn(12) {
	case 0, 1, 2:
		op := pick(r, "+", "-", "*", "/", "<", "<=", ">", ">=", "==", "!=", "<>", "&&", "||")
		return genExpr(r, d-1) + sp() + op + " " + genExpr(r, d-1)
	case 3, 4:
		// unary applied to anything, including calls and parenthesised expressions
		return pick(r, "!", "- ", "!", "-  ") + genExpr(r, d-1)
	case 5, 6:
		// call: callee is an identifier, a call, a parenthesised expression or a function literal
		callee := pick(r, "f", "g", "foo-bar", genExpr(r, d-1), "("+genExpr(r, d-1)+")")
		n := r.Intn(3)
		args := make([]string, n)
		for i := range args {
			args[i] = genExpr(r, d-1)
		}
		return callee + sp() + "(" + sp() + strings.Join(args, sp()+","+sp()) + sp() + ")"
	case 7:
		return "(" + sp() + genExpr(r, d-1) + sp() + ")"
	case 8:
		return "[" + genExpr(r, d-1) + "," + sp() + "k" + sp() + "=" + sp() + genExpr(r, d-1) + "]"
	case 9:
		return "fn(a, b) {" + sp() + "return " + genExpr(r, d-1) + ";" + sp() + "}"
	case 10:
		return pick(r, "!", "- ") + pick(r, "f", "g") + "(" + genExpr(r, d-1) + ")"
	}
	return genExpr(r, d-1)
}

func indexesOf(b []byte, chars string) []int {
	var out []int
	for i, c := range b {
		if strings.IndexByte(chars, c) >= 0 {
			out = append(out, i)
		}
	}
	return out
}

func genStmtSrc(r *rand.Rand) string {
	e := func() string { return genExpr(r, 1+r.Intn(3)) }
	switch r.Intn(8) {
	case 0:
		return "let v = " + e() + ";"
	case 1:
		return "v = " + e() + ";"
	case 2:
		return "if " + e() + " { v = " + e() + "; } else { return " + e() + "; }"
	case 3:
		return "while " + e() + " { " + e() + "; }"
	case 4:
		return "switch " + e() + " { case " + e() + ": " + e() + "; default: " + e() + "; }"
	case 5:
		return "for let i = " + e() + "; " + e() + "; i = " + e() + " { " + e() + "; }"
	default:
		return e() + ";"
	}
}

func mutate(r *rand.Rand, b []byte) []byte {
	if len(b) == 0 {
		return b
	}
	out := append([]byte{}, b...)
	for k := 0; k < 1+r.Intn(3); k++ {
		i := r.Intn(len(out))
		switch r.Intn(4) {
		case 0:
			out = append(out[:i], out[i+1:]...)
		case 1:
			out[i] = byte(r.Intn(256))
		case 2:
			f := []byte(gcsFragments[r.Intn(len(gcsFragments))])
			out = append(out[:i], append(f, out[i:]...)...)
		default:
			out[i] = "(){}[];=\"#-. \n"[r.Intn(14)]
		}
		if len(out) == 0 {
			break
		}
	}
	return out
}

func (g gcsComp) Gen(r *rand.Rand, tier string, n int) []*wire.Case {
	if g.mode == "eval" {
		return evalGen(r, tier, n)
	}
	var cases []*wire.Case
	add := func(id string, srcs ...string) {
		var ops []*wire.Rec
		for _, s := range srcs {
			ops = append(ops, gcsOp(g.mode, []byte(s)))
		}
		cases = append(cases, &wire.Case{ID: id, Ops: ops})
	}
	add("d-empty", "", " ", "\n", ";")
	add("d-nonascii-digit", "let x = -٣;", "let x = .٣;", "x٣;", "-٣", ".٣", "- ٣", "let y = -١٢ + .٥;")
	add("d-numbers", "1", "-1", ".5", "-.5", "1.", "1.5.2", "- 1", "1-1", "a-1", "a -1", "a - 1", "3 .", ".", "-", "--1")
	// spellings of numbers: a literal is decimal however it is written
	add("d-number-spellings", "let x = 010;", "let x = 08;", "let x = 019;", "let x = 0100;", "let x = -012;", "let x = 007;", "let x = 00;", "let x = 0;", "f(1 + 010 * 2);", "let x = 010.5;", "let x = 0.50;",
		"let x = 0x10;", "let x = 1e3;", "let x = 0b1;", "let x = 0o7;", "let x = 1_000;", "let x = +5;", "let x = 9223372036854775807;", "let x = 9223372036854775808;", "let x = 99999999999999999999;", "let x = 000000000000000000001;")
	add("d-strings", "\"a\"", "\"a", "\"a\\", "\"a\\\n\"", "\"a\nb\"", "\"\\\"\"", "\"é日本\"")
	add("d-brackets", ")", "]", "}", "(", "((((", "()", "[]]", "{}}", "(]")
	add("d-comments", "# only", "// only", "x; # c\ny;", "x // c", "/", "/ /", "#\n#\n", "x; #\ny;", "//\nlet y = 1;", "let x = 1;\n//\nlet y = x + 2;\nf(x, y);\n", "if x { //\n y = 1; }", "let z = 1 + #\n 2;",
		"#\n", "//", "x;//", "x;#", "# a\n//\n# b\nx;", "f(a, //\n b);", "[1, #\n 2];")
	add("d-invalid-utf8", "\xff", "a\xffb", "\xc3", "\xe2\x82", "let \xff = 1;", "\"\xff\"")
	add("d-idents", "foo", "foo-bar", "foo%", "_x", "été", "日本語", "x$", "x@y", "let", "letx", "true1", "null;", "a.b", "a|b", "a&b")
	add("d-unary-call", "!f(x);", "let y = - g(1, 2);", "a && !done(t);", "!f(x)(y);", "-f(x) * 2;", "!(f)(x);", "! !f(x);", "- -x(1);", "f(x)(y)(z);", "(a + b)(c);", "fn(a){ return a; }(1);", "[1](2);")
	add("d-bad-token-in-map", "[a abcdefghijk];", "let m = [1 \"hello, world\"];", "print([0.5 12345678901]);", "[x fallthrough];", "[a abcdefghij];", "[1 2];",
		"let m = [k = 1 second_element_without_comma];", "f([1, 2 \"a long string literal\"]);", "[very_long_identifier_name = ];", "[1, 2, 3 continue];")
	add("d-rare-forms", "switch 1 { default print(1); }", "switch 1 { default: print(1); default: print(2); }", "let i = 5; for i = 0; i < 3; i = i + 1 { print(i); }", "for i = 0; i < 3; { }",
		"for x; x < 3; x = x + 1 { }", "fn f(a, a) { return a; }", "fn f(a, b, a) { return a; }", "let g = fn(a, a) { return a; };", "break 1;", "continue", "fallthrough;", "f(;", "f);", "a(b)(;",
		"x = = 1;", "1 = x;", "let true = 1;", "true = 1;", "false;", "null = 2;", "- ;", "! ;", "!;", "x !;", "(;", ");", "();", "{", "}", "{}", "{;}", ";;", "case 1: x;", "default: x;", "else { }", "if x { } else", "if x { } else if { }",
		"while x { } else { }", "return 1", "return", "return; return;", "let x = fn;", "let x = fn();", "let x = fn() { };", "fn f() { fn g() { return 1; } return g(); }")
	// a stray terminator in every statement position (top level, block, case body, default body, after a nested block)
	add("d-stray-terminators", ";", "a(); ;", "{ a(); ; }", "switch x { case 1: a(); ; }", "switch x { case 1: ; }", "switch { default: ; }", "switch x { case 1: if y { a(); }; case 2: b(); }",
		"switch x { case 1: a(); default: b(); ; }", "if x { ; }", "while x { a(); ; }", "for ; ; { ; }", "fn f() { ; } ", "switch x { ; }", "switch x { case 1: { ; } }", "switch x { case 1: a();; break; }")
	// parameter names are per function: a nested function may name a parameter like an enclosing one; within one list they are distinct
	add("d-nested-fn-params", "fn f(a, b) { let g = fn(a) { return a; }; return g(b); }", "fn f(x) { fn g(x) { return x; } return g(x); }", "fn f(a) { return fn(b) { return fn(a) { return a; }; }; }",
		"fn f(a) { fn g(a) { return a; } fn h(a) { return a; } return g(h(a)); }", "let k = fn(p, q) { return fn(q, p) { return p; }; };", "fn f(a) { return 1; } fn g(a) { return 2; }",
		"fn f(a, b) { let g = fn(c, c) { return c; }; return g(b, a); }", "fn f(a) { fn g(b, a, b) { return a; } return g(1, 2, 3); }", "fn f(a) { if a { fn g(a) { return a; } return g(a); } return fn(a) { return a; }(a); }")
	add("d-ops", "= == > >= < <= <> != ! && || & |", "a&&b||c", "a<>b", "!a", "!=")
	add("d-missing-parts", "let x = (1 + 2;", "let x = ; ;", "let x = ;", "let = 1;", "let x 1;", "x = ;", "if x { y = 1; ", "if { }", "while { }", "fn (a) { }", "fn f(a { }", "fn f(a,) { }",
		"switch x { case : y; }", "switch x { y; }", "for let i = 0 i < 3 { }", "f(1,;", "f(1 2);", "[1, 2", "[a = ]", "return ;", "let x = 1 + ;", "let x = * 2;", "x = (;", "let x = ();")
	for i, p := range gcsPrograms {
		add(fmt.Sprintf("d-prog-%d", i), p)
		// every layout keeps the tree: extra whitespace and comments between tokens
		add(fmt.Sprintf("d-prog-%d-layout", i), strings.ReplaceAll(p, " ", "  \n\t "), strings.ReplaceAll(p, ";", " ; # c\n"), strings.ReplaceAll(p, "{", "{ // open\n"), strings.ReplaceAll(p, ";", ";#\n"), strings.ReplaceAll(p, "{", "{//\n"))
	}
	// big inputs: linear time and no leak
	big := strings.Repeat(gcsPrograms[0]+gcsPrograms[1], 64*1024/(len(gcsPrograms[0])+len(gcsPrograms[1])))
	add("d-big", big, strings.Repeat("(", 60000), strings.Repeat("-", 30000)+"1;", strings.Repeat("x ", 30000), strings.Repeat("[", 20000), strings.Repeat("a+", 30000)+"1;", big[:len(big)/2]+"\"")
	// chains of prefix operators over every kind of operand (and over none): time grows with the length, not with 2^length
	add("d-prefix-chains", "x = "+strings.Repeat("-", 60)+"y;", strings.Repeat("- ", 50)+"(a + b);", strings.Repeat("-!", 40)+"y;", strings.Repeat("-", 48), strings.Repeat("!", 3000)+"y;",
		strings.Repeat("-", 30000)+"y;", "f("+strings.Repeat("-", 64)+"g(1));", "let z = "+strings.Repeat("- -", 30)+"[1, 2];", strings.Repeat("!-", 45)+"\"s\";", "x = "+strings.Repeat("-", 70)+";")
	for i := 0; i < n; i++ {
		var ops []*wire.Rec
		for j := 0; j < 4; j++ {
			var src []byte
			switch r.Intn(6) {
			case 4, 5: // grammar-directed well-formed statements
				for k := 0; k < 1+r.Intn(3); k++ {
					src = append(src, genStmtSrc(r)...)
					src = append(src, ' ')
				}
				if r.Intn(3) == 0 {
					// ... with one separator replaced by a space or a long token: error paths that print tokens
					if idx := indexesOf(src, ",()[];="); len(idx) > 0 {
						at := idx[r.Intn(len(idx))]
						rep := pick(r, " ", " a_rather_long_identifier ", " 12345678901234 ", " \"a long string literal\" ", " fallthrough ")
						src = append(append(append([]byte{}, src[:at]...), rep...), src[at+1:]...)
					}
				}
			case 0: // fragment soup
				for k := 0; k < 1+r.Intn(25); k++ {
					src = append(src, gcsFragments[r.Intn(len(gcsFragments))]...)
					if r.Intn(2) == 0 {
						src = append(src, ' ')
					}
				}
			case 1: // mutated program
				src = mutate(r, []byte(gcsPrograms[r.Intn(len(gcsPrograms))]))
			case 2: // truncated program
				p := gcsPrograms[r.Intn(len(gcsPrograms))]
				src = []byte(p[:r.Intn(len(p)+1)])
			default: // random bytes with structure characters
				for k := 0; k < r.Intn(40); k++ {
					if r.Intn(3) == 0 {
						src = append(src, byte(r.Intn(256)))
					} else {
						src = append(src, "let x=1;(){}[]\"#-.٣é \n"[r.Intn(24)])
					}
				}
			}
			if len(src) > 1<<16 {
				src = src[:1<<16]
			}
			ops = append(ops, gcsOp(g.mode, src))
		}
		cases = append(cases, &wire.Case{ID: fmt.Sprintf("r%d", i), Ops: ops})
	}
	return cases
}
