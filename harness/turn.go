package main

import (
	"fmt"
	"math/rand"
	"reflect"
	"strings"

	"github.com/simimpact/srsim/pkg/engine/attribute"
	"github.com/simimpact/srsim/pkg/engine/event"
	"github.com/simimpact/srsim/pkg/engine/info"
	"github.com/simimpact/srsim/pkg/engine/logging"
	"github.com/simimpact/srsim/pkg/engine/prop"
	"github.com/simimpact/srsim/pkg/engine/turn"
	"github.com/simimpact/srsim/pkg/key"
	"verifharness/wire"
)

func init() { components["turn"] = turnComp{} }

type turnComp struct{}

// numF renders an int64 or float64 struct field as a float (the gauge-cost fields are
// integers before the fix and floats after it; the harness must compile against both).
func numF(v reflect.Value) float64 {
	switch v.Kind() {
	case reflect.Int64, reflect.Int:
		return float64(v.Int())
	case reflect.Float64:
		return v.Float()
	}
	return 0
}

func statusInto(r *wire.Rec, st []event.TurnStatus) *wire.Rec {
	ids := make([]int, len(st))
	gs := make([]int, len(st))
	avs := make([]float64, len(st))
	for i, s := range st {
		ids[i], gs[i], avs[i] = int(s.ID), int(s.Gauge), s.AV
	}
	return r.Is("ids", ids).Is("gauges", gs).Fs("avs", avs)
}

func turnEventRec(e any) *wire.Rec {
	switch v := e.(type) {
	case event.TurnTargetsAdded:
		ids := make([]int, len(v.Targets))
		for i, t := range v.Targets {
			ids[i] = int(t)
		}
		return statusInto(wire.R("TurnTargetsAdded").Is("added", ids), v.TurnOrder)
	case event.TurnReset:
		return statusInto(wire.R("TurnReset").I("id", int(v.ResetTarget)).F("cost", numF(reflect.ValueOf(v).FieldByName("GaugeCost"))), v.TurnOrder)
	case event.GaugeChange:
		return statusInto(wire.R("GaugeChange").I("id", int(v.Target)).I("old", int(v.OldGauge)).I("new", int(v.NewGauge)), v.TurnOrder)
	case event.CurrentGaugeCostChange:
		rv := reflect.ValueOf(v)
		return wire.R("CostChange").F("old", numF(rv.FieldByName("OldCost"))).F("new", numF(rv.FieldByName("NewCost")))
	}
	return nil
}

func (turnComp) Exec(c *wire.Case, w *wire.Writer) {
	w.Case(c.ID)
	defer w.End()
	ev := &event.System{}
	stub := &stubEval{props: map[key.TargetID]info.PropMap{}}
	attr := attribute.New(ev, stub)
	mgr := turn.New(ev, attr)
	lg := &recLogger{conv: turnEventRec}
	logging.InitLoggers(lg)
	defer logging.InitLoggers()
	for _, op := range c.Ops {
		w.Op(op)
		var err error
		id := key.TargetID(op.Int("id"))
		func() {
			defer func() {
				if r := recover(); r != nil {
					lg.recs = append(lg.recs, wire.R("panic").S("msg", firstLine(fmt.Sprint(r))))
				}
			}()
			ma := info.ModifyAttribute{Key: "k", Target: id, Source: id, Amount: op.Flt("amt")}
			switch op.Name {
			case "spd":
				stub.props[id] = info.PropMap{prop.SPDBase: op.Flt("v")}
			case "add":
				var ids []key.TargetID
				for _, i := range op.Ints("ids") {
					ids = append(ids, key.TargetID(i))
				}
				mgr.AddTargets(ids...)
			case "remove":
				err = mgr.RemoveTarget(id)
			case "start":
				var a key.TargetID
				var av float64
				var st []event.TurnStatus
				a, av, st, err = mgr.StartTurn()
				if err == nil {
					lg.recs = append(lg.recs, statusInto(wire.R("started").I("id", int(a)).F("av", av), st).F("total", mgr.TotalAV()))
				}
			case "reset":
				err = mgr.ResetTurn()
			case "setgauge":
				err = mgr.SetGauge(ma)
			case "modnorm":
				err = mgr.ModifyGaugeNormalized(ma)
			case "modav":
				err = mgr.ModifyGaugeAV(ma)
			case "setcost":
				mgr.SetCurrentGaugeCost(info.ModifyCurrentGaugeCost{Key: "k", Source: id, Amount: op.Flt("amt")})
			case "modcost":
				mgr.ModifyCurrentGaugeCost(info.ModifyCurrentGaugeCost{Key: "k", Source: id, Amount: op.Flt("amt")})
			default:
				lg.recs = append(lg.recs, wire.R("badop"))
			}
		}()
		for _, r := range lg.take() {
			w.Ob(r)
		}
		if err != nil {
			w.Ob(wire.R("err").S("kind", turnErrKind(err)))
		}
		order := mgr.TurnOrder()
		ids := make([]int, len(order))
		for i, t := range order {
			ids[i] = int(t)
		}
		w.Ob(wire.R("order").Is("ids", ids).F("total", mgr.TotalAV()))
	}
}

func turnErrKind(err error) string {
	m := err.Error()
	switch {
	case strings.HasPrefix(m, "cannot find index"), strings.HasPrefix(m, "unknown target"):
		return "unknown_target"
	case strings.HasPrefix(m, "cannot start turn when already"):
		return "active_turn"
	case strings.HasPrefix(m, "target at top of order must have 0 gauge"), strings.HasPrefix(m, "no active turn"):
		return "no_active_turn"
	case strings.HasPrefix(m, "cannot start turn: no targets"), strings.HasPrefix(m, "empty"):
		return "empty_order"
	}
	return "other"
}

func (turnComp) Gen(r *rand.Rand, tier string, n int) []*wire.Case {
	var cases []*wire.Case
	mk := func(id string, ops ...*wire.Rec) { cases = append(cases, &wire.Case{ID: id, Ops: ops}) }
	spd := func(id int, v float64) *wire.Rec { return wire.R("spd").I("id", id).F("v", v) }
	add := func(ids ...int) *wire.Rec { return wire.R("add").Is("ids", ids) }
	o := func(name string) *wire.Rec { return wire.R(name) }
	g := func(name string, id int, amt float64) *wire.Rec { return wire.R(name).I("id", id).F("amt", amt) }
	three := []*wire.Rec{spd(1, 100), spd(2, 134), spd(3, 90), add(1, 2, 3)}
	cat := func(a []*wire.Rec, b ...*wire.Rec) []*wire.Rec { return append(append([]*wire.Rec{}, a...), b...) }
	mk("d-basic", cat(three, o("start"), o("reset"), o("start"), o("reset"), o("start"), o("reset"))...)
	mk("d-advance-past-zero", cat(three, o("start"), g("modnorm", 3, -2), o("reset"), o("start"))...)
	mk("d-setgauge-negative", cat(three, g("setgauge", 3, -500), o("start"), o("reset"), o("start"))...)
	mk("d-cost-half", cat(three, o("start"), g("modcost", 2, 0.5), o("reset"), o("start"), o("reset"))...)
	mk("d-cost-fraction", cat(three, o("start"), g("modcost", 2, -0.3), o("reset"), o("start"), g("setcost", 2, 1.5), g("setcost", 2, 1.5), o("reset"))...)
	mk("d-remove-actor", cat(three, o("start"), g("remove", 2, 0), o("reset"), o("start"))...)
	mk("d-actor-keeps-front", cat(three, o("start"), g("setgauge", 3, 0), g("setgauge", 1, 0), o("reset"), o("start"), o("reset"))...)
	mk("d-truncation", spd(1, 97.3), spd(2, 133.7), spd(3, 61.9), add(1, 2, 3), o("start"), g("setgauge", 3, 0), o("reset"), o("start"), o("reset"), o("start"), o("reset"))
	mk("d-ties", spd(1, 100), spd(2, 100), spd(3, 100), add(1, 2), add(3), o("start"), o("reset"), g("setgauge", 3, 10000), o("start"), o("reset"), g("modav", 2, 0), g("modav", 2, 5.5), o("start"))
	mk("d-unknown", cat(three, g("setgauge", 9, 5), g("modnorm", 9, 0.1), g("modav", 9, 1), g("remove", 9, 0))...)
	mk("d-empty", o("start"), o("reset"), add(), o("start"))
	// the order runs empty in the middle of a battle and is filled again: the clock goes on from where it was
	mk("d-refill-after-empty", cat(three, o("start"), o("reset"), o("start"), o("reset"), g("remove", 1, 0), g("remove", 2, 0), g("remove", 3, 0), o("start"), spd(4, 111), spd(5, 100), add(4), o("start"), o("reset"), add(5), o("start"), o("reset"))...)
	mk("d-double-start", cat(three, o("start"), o("start"), o("reset"), o("reset"))...)
	mk("d-speed-change", cat(three, o("start"), o("reset"), spd(3, 400), o("start"), spd(3, 10), o("reset"), o("start"))...)
	randOp := func() *wire.Rec {
		id := pick(r, 1, 2, 3)
		if r.Intn(30) == 0 {
			id = 9
		}
		switch r.Intn(14) {
		case 0, 1, 2:
			return o("start")
		case 3, 4, 5:
			return o("reset")
		case 6:
			return g("setgauge", id, pick(r, 0.0, 1, 2500, 10000, -100, 5000.7, float64(r.Intn(12000))))
		case 7:
			return g("modnorm", id, pick(r, -0.2, -0.25, 0.3, -1, -2, 0.1, 1))
		case 8:
			return g("modav", id, pick(r, -10.0, 5.5, -200, 33.3, 0))
		case 9:
			return g("modcost", id, pick(r, 0.5, -0.3, -0.2, 0.25, 1))
		case 10:
			return g("setcost", id, pick(r, 0.5, 1, 1.5, 0, 2))
		case 11:
			return spd(pick(r, 1, 2, 3), pick(r, 90.0, 100, 134, 97.3, 160.5, 61.9))
		case 12:
			if r.Intn(4) == 0 {
				return g("remove", id, 0)
			}
			return o("start")
		default:
			if r.Intn(6) == 0 {
				return add(pick(r, 4, 5))
			}
			return o("reset")
		}
	}
	for i := 0; i < n; i++ {
		ops := []*wire.Rec{spd(1, pick(r, 90.0, 100, 134, 97.3)), spd(2, pick(r, 90.0, 100, 134, 133.7)), spd(3, pick(r, 90.0, 100, 134, 61.9)), spd(4, 111), spd(5, 100), add(1, 2, 3)}
		l := 4 + r.Intn(30)
		present := map[int]bool{1: true, 2: true, 3: true}
		for j := 0; j < l; j++ {
			op := randOp()
			// added units are new (the property's domain): a unit is in the order at most once
			if op.Name == "add" {
				id := op.Ints("ids")[0]
				if present[id] {
					op = o("reset")
				} else {
					present[id] = true
				}
			}
			if op.Name == "remove" {
				delete(present, op.Int("id"))
			}
			ops = append(ops, op)
			if j == l/2 && i%7 == 0 {
				// everybody leaves, somebody new arrives
				for _, id := range []int{1, 2, 3, 4, 5} {
					if present[id] {
						ops = append(ops, g("remove", id, 0))
						delete(present, id)
					}
				}
				nid := pick(r, 4, 5)
				ops = append(ops, o("start"), add(nid), o("start"), o("reset"))
				present[nid] = true
			}
		}
		mk(fmt.Sprintf("r%d", i), ops...)
	}
	return cases
}
