package main

import (
	"fmt"
	"math/rand"
	"strings"

	"github.com/simimpact/srsim/pkg/engine/attribute"
	"github.com/simimpact/srsim/pkg/engine/event"
	"github.com/simimpact/srsim/pkg/engine/info"
	"github.com/simimpact/srsim/pkg/engine/logging"
	"github.com/simimpact/srsim/pkg/engine/prop"
	"github.com/simimpact/srsim/pkg/key"
	"github.com/simimpact/srsim/pkg/model"
	"verifharness/wire"
)

func init() { components["attr"] = attrComp{} }

type attrComp struct{}

// stubEval supplies arbitrary property vectors in place of the modifier manager.
type stubEval struct {
	props map[key.TargetID]info.PropMap
	weak  map[key.TargetID]info.WeaknessMap // weaknesses implanted by modifiers (not the innate ones of the attributes)
}

func (s *stubEval) EvalModifiers(t key.TargetID) *info.ModifierState {
	pm := info.NewPropMap()
	for k, v := range s.props[t] {
		pm[k] = v
	}
	wk := info.NewWeaknessMap()
	wk.AddAll(s.weak[t])
	return &info.ModifierState{
		Props:     pm,
		DebuffRES: info.NewDebuffRESMap(),
		Weakness:  wk,
		Counts:    map[model.StatusType]int{},
	}
}

var attrPropKeys = []struct {
	k string
	p prop.Property
}{
	{"hpbase", prop.HPBase}, {"hppct", prop.HPPercent}, {"hpflat", prop.HPFlat}, {"hpconv", prop.HPConvert},
	{"regen", prop.EnergyRegen}, {"regenconv", prop.EnergyRegenConvert}, {"stancepct", prop.AllStanceDMGPercent},
}

func (attrComp) Exec(c *wire.Case, w *wire.Writer) {
	w.Case(c.ID)
	defer w.End()
	ev := &event.System{}
	stub := &stubEval{props: map[key.TargetID]info.PropMap{}}
	svc := attribute.New(ev, stub)
	lg := &recLogger{conv: attrEventRec}
	logging.InitLoggers(lg)
	defer logging.InitLoggers()
	revive := map[key.TargetID]bool{}
	ev.LimboWaitHeal.Subscribe(func(e event.LimboWaitHeal) bool { return revive[e.Target] }, 1)

	setProps := func(op *wire.Rec) {
		id := key.TargetID(op.Int("id"))
		pm := info.NewPropMap()
		for _, pk := range attrPropKeys {
			pm[pk.p] = op.Flt(pk.k)
		}
		stub.props[id] = pm
	}
	for _, op := range c.Ops {
		w.Op(op)
		var err error
		id := key.TargetID(op.Int("id"))
		src := key.TargetID(op.Int("src"))
		func() {
			defer func() {
				if r := recover(); r != nil {
					w.Ob(wire.R("panic").S("msg", firstLine(fmt.Sprint(r))))
				}
			}()
			ma := info.ModifyAttribute{Key: "k", Target: id, Source: src, Amount: op.Flt("amt")}
			switch op.Name {
			case "add":
				_, known := stub.props[id]
				if !known {
					setProps(op)
				}
				err = svc.AddTarget(id, info.Attributes{
					Level: 1, HPRatio: op.Flt("hpr"), Energy: op.Flt("energy"), MaxEnergy: op.Flt("maxenergy"),
					Stance: op.Flt("stance"), MaxStance: op.Flt("maxstance"),
				})
			case "props":
				if _, known := stub.props[id]; known {
					setProps(op)
				}
			case "revive":
				if _, known := stub.props[id]; known {
					revive[id] = op.Bool("on")
				}
			case "sethp":
				err = svc.SetHP(ma, op.Bool("dmg"))
			case "modhp":
				err = svc.ModifyHPByAmount(ma, op.Bool("dmg"))
			case "modhpratio":
				err = svc.ModifyHPByRatio(info.ModifyHPByRatio{Key: "k", Target: id, Source: src,
					Ratio: op.Flt("ratio"), RatioType: model.ModifyHPRatioType(op.Int("typ")), Floor: op.Flt("floor")}, op.Bool("dmg"))
			case "setenergy":
				err = svc.SetEnergy(ma)
			case "modenergy":
				err = svc.ModifyEnergy(ma)
			case "modenergyfixed":
				err = svc.ModifyEnergyFixed(ma)
			case "setstance":
				err = svc.SetStance(ma)
			case "modstance":
				err = svc.ModifyStance(ma)
			case "modsp":
				err = svc.ModifySP(info.ModifySP{Key: "k", Source: src, Amount: op.Int("amt")})
			default:
				w.Ob(wire.R("badop"))
			}
		}()
		for _, r := range lg.take() {
			w.Ob(r)
		}
		if err != nil {
			w.Ob(wire.R("err").S("kind", attrErrKind(err)))
		}
		if op.Name != "modsp" {
			st := svc.State(id)
			if st == info.Invalid {
				// every getter's answer for a unit that is not registered
				w.Ob(wire.R("snap").I("id", int(id)).I("known", 0).I("sp", svc.SP()).F("hpr", svc.HPRatio(id)).F("energy", svc.Energy(id)).F("stance", svc.Stance(id)).
					F("maxenergy", svc.MaxEnergy(id)).F("maxstance", svc.MaxStance(id)).B("full", svc.FullEnergy(id)).B("alive", svc.IsAlive(id)).I("last", int(svc.LastAttacker(id))))
			} else {
				w.Ob(wire.R("snap").I("id", int(id)).I("known", 1).F("hpr", svc.HPRatio(id)).F("energy", svc.Energy(id)).
					F("stance", svc.Stance(id)).S("life", lifeName(st)).I("last", int(svc.LastAttacker(id))).I("sp", svc.SP()).
					F("maxenergy", svc.MaxEnergy(id)).F("maxstance", svc.MaxStance(id)).B("full", svc.FullEnergy(id)).F("eratio", svc.EnergyRatio(id)).B("alive", svc.IsAlive(id)))
			}
		} else {
			w.Ob(wire.R("snap").I("sp", svc.SP()))
		}
	}
}

func lifeName(s info.TargetState) string {
	switch s {
	case info.Alive:
		return "alive"
	case info.Dead:
		return "dead"
	case info.Limbo:
		return "limbo"
	}
	return "invalid"
}

func attrErrKind(err error) string {
	m := err.Error()
	switch {
	case strings.HasPrefix(m, "unknown target"):
		return "unknown_target"
	case strings.HasPrefix(m, "unknown ratio type"):
		return "ratio_type"
	case strings.HasPrefix(m, "target base stats already registered"):
		return "duplicate"
	}
	return "other"
}

func firstLine(s string) string {
	if i := strings.IndexByte(s, '\n'); i >= 0 {
		return s[:i]
	}
	return s
}

// ---- generation ----

func attrAddOp(r *rand.Rand, id int) *wire.Rec {
	maxE := pick(r, 100.0, 120, 140, 0)
	maxS := pick(r, 30.0, 60, 90, 120, 0)
	hpBase := pick(r, 100.0, 1000, 3500.5, 1)
	op := wire.R("add").I("id", id).F("hpr", pick(r, 1.0, 0.5, 0, frac(r))).
		F("energy", pick(r, frac(r)*maxE, frac(r)*maxE, maxE, maxE+35.5, 2*maxE+1)).F("maxenergy", maxE). // also more energy than fits: clamped at registration
		F("stance", pick(r, maxS, maxS*frac(r), 0)).F("maxstance", maxS)
	attrPropsInto(r, op, hpBase)
	return op
}

func attrPropsInto(r *rand.Rand, op *wire.Rec, hpBase float64) *wire.Rec {
	return op.F("hpbase", hpBase).F("hppct", pick(r, 0.0, 0.2, 0.5, -0.1)).F("hpflat", pick(r, 0.0, 50, 352.8)).
		F("hpconv", pick(r, 0.0, 0, 10)).F("regen", pick(r, 0.0, 0.05, 0.194)).F("regenconv", pick(r, 0.0, 0, 0.1)).
		F("stancepct", pick(r, 0.0, 0.2, 0.5, -0.3))
}

func attrRandOp(r *rand.Rand, ids []int) *wire.Rec {
	id := ids[r.Intn(len(ids))]
	if r.Intn(25) == 0 {
		id = 99 // unknown target
	}
	src := pick(r, ids...)
	dmg := r.Intn(2) == 0
	switch r.Intn(16) {
	case 0:
		return wire.R("sethp").I("id", id).I("src", src).F("amt", amount(r, 1000)).B("dmg", dmg)
	case 1, 2:
		return wire.R("modhp").I("id", id).I("src", src).F("amt", amount(r, 600)).B("dmg", dmg)
	case 3, 4, 5:
		return wire.R("modhpratio").I("id", id).I("src", src).F("ratio", pick(r, -0.9, -0.5, -0.3, -0.1, 0.2, 1.5, -1.5, amount(r, 1))).
			I("typ", pick(r, 1, 1, 1, 2, 2, 2, 0, 3)).F("floor", pick(r, 0.0, 1, 1, 50, 500, -10, amount(r, 300))).B("dmg", dmg)
	case 6:
		return wire.R("setenergy").I("id", id).I("src", src).F("amt", amount(r, 100))
	case 7:
		return wire.R("modenergy").I("id", id).I("src", src).F("amt", amount(r, 40))
	case 8:
		return wire.R("modenergyfixed").I("id", id).I("src", src).F("amt", amount(r, 40))
	case 9:
		return wire.R("setstance").I("id", id).I("src", src).F("amt", amount(r, 90))
	case 10, 11:
		return wire.R("modstance").I("id", id).I("src", src).F("amt", amount(r, 60))
	case 12:
		return wire.R("modsp").I("src", src).I("amt", pick(r, 1, -1, 2, -2, 7, -7, 0))
	case 13:
		return wire.R("revive").I("id", id).B("on", r.Intn(2) == 0)
	case 14:
		return attrPropsInto(r, wire.R("props").I("id", id), pick(r, 100.0, 1000, 3500.5, 1))
	default:
		return attrAddOp(r, pick(r, 1, 2, 3, 4))
	}
}

func (attrComp) Gen(r *rand.Rand, tier string, n int) []*wire.Case {
	var cases []*wire.Case
	mk := func(id string, ops ...*wire.Rec) { cases = append(cases, &wire.Case{ID: id, Ops: ops}) }
	base := func(id int, hpr float64) *wire.Rec {
		return wire.R("add").I("id", id).F("hpr", hpr).F("energy", 50).F("maxenergy", 100).F("stance", 60).F("maxstance", 60).
			F("hpbase", 100).F("hppct", 0).F("hpflat", 0).F("hpconv", 0).F("regen", 0).F("regenconv", 0).F("stancepct", 0)
	}
	hr := func(id int, ratio float64, typ int, floor float64) *wire.Rec {
		return wire.R("modhpratio").I("id", id).I("src", 2).F("ratio", ratio).I("typ", typ).F("floor", floor).B("dmg", true)
	}
	// directed: ratio reductions crossing the floor, floors above current HP, negative floors
	mk("d-floor-cross-max", base(1, 1), hr(1, -0.9, 1, 50))
	mk("d-floor-cross-cur", base(1, 1), hr(1, -0.9, 2, 50))
	mk("d-floor-above-current", base(1, 0.3), hr(1, -0.1, 1, 50))
	mk("d-floor-negative", base(1, 0.3), hr(1, -0.9, 1, -10))
	mk("d-floor-exact", base(1, 1), hr(1, -0.5, 1, 50), hr(1, -0.5, 1, 0))
	mk("d-ratio-overshoot", base(1, 0.9), hr(1, 0.5, 1, 0), hr(1, 2, 2, 0))
	mk("d-ratio-badtype", base(1, 1), hr(1, -0.5, 0, 0), hr(1, -0.5, 7, 0))
	mk("d-kill-revive", base(1, 1), wire.R("revive").I("id", 1).B("on", true),
		wire.R("modhp").I("id", 1).I("src", 2).F("amt", -500).B("dmg", true),
		wire.R("modhp").I("id", 1).I("src", 3).F("amt", 20).B("dmg", false),
		wire.R("revive").I("id", 1).B("on", false),
		wire.R("sethp").I("id", 1).I("src", 3).F("amt", 0).B("dmg", true))
	mk("d-stance-break-reset", base(1, 1),
		wire.R("modstance").I("id", 1).I("src", 2).F("amt", -30), wire.R("modstance").I("id", 1).I("src", 2).F("amt", -30),
		wire.R("modstance").I("id", 1).I("src", 2).F("amt", -30), wire.R("setstance").I("id", 1).I("src", 2).F("amt", 1000),
		wire.R("setstance").I("id", 1).I("src", 2).F("amt", 60), wire.R("setstance").I("id", 1).I("src", 2).F("amt", -5))
	mk("d-energy", base(1, 1), wire.R("modenergy").I("id", 1).I("src", 1).F("amt", 70), wire.R("modenergy").I("id", 1).I("src", 1).F("amt", 70),
		wire.R("modenergyfixed").I("id", 1).I("src", 1).F("amt", -500), wire.R("setenergy").I("id", 1).I("src", 1).F("amt", 0))
	mk("d-sp", wire.R("modsp").I("src", 1).I("amt", 7), wire.R("modsp").I("src", 1).I("amt", 1), wire.R("modsp").I("src", 1).I("amt", -9),
		wire.R("modsp").I("src", 1).I("amt", -1), wire.R("modsp").I("src", 1).I("amt", 0))
	mk("d-unknown", wire.R("sethp").I("id", 9).I("src", 1).F("amt", 5).B("dmg", false), wire.R("modstance").I("id", 9).I("src", 1).F("amt", 5),
		wire.R("modenergy").I("id", 9).I("src", 1).F("amt", 5), hr(9, -0.5, 1, 0), base(1, 1), base(1, 1))
	for i := 0; i < n; i++ {
		var ops []*wire.Rec
		ids := []int{1, 2, 3}
		for _, id := range ids {
			ops = append(ops, attrAddOp(r, id))
		}
		l := 5 + r.Intn(40)
		for j := 0; j < l; j++ {
			ops = append(ops, attrRandOp(r, ids))
		}
		mk(fmt.Sprintf("r%d", i), ops...)
	}
	return cases
}
