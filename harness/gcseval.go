package main

import (
	"context"
	"encoding/hex"
	"fmt"
	"io"
	"math/rand"
	"os"
	"strconv"
	"strings"

	"github.com/simimpact/srsim/pkg/engine"
	"github.com/simimpact/srsim/pkg/key"
	"github.com/simimpact/srsim/pkg/logic/gcs/eval"
	"github.com/simimpact/srsim/pkg/logic/gcs/parse"
	"verifharness/wire"
)

func init() { components["eval"] = gcsComp{mode: "eval"} }

// evalEngine is the engine the evaluator sees: only the random generator and the (empty) list
// of characters are used by the language core.
type evalEngine struct {
	engine.Engine
	rnd   *rand.Rand
	world *wWorld // the state the condition builtins see (gcsworld.go); nil: no units
}

func (e *evalEngine) Rand() *rand.Rand { return e.rnd }

// canonical rendering of one printed line: numbers by value (the text of 3 and 3.0 is the same)
// plus the shape of their text (the language prints plain decimal expansions, never an exponent
// or a hexadecimal form, however large or small the number), everything else by its bytes
func printedRec(line string) *wire.Rec {
	if f, err := strconv.ParseFloat(line, 64); err == nil {
		return wire.R("p").F("n", f).B("e", strings.ContainsAny(line, "eExXpP_"))
	}
	return wire.R("p").S("s", hx(line))
}

// gcsEvalRequest handles `eval <hex> <calls> <draws>` in the worker.
func gcsEvalRequest(out io.Writer, src []byte, calls, draws, world string) {
	res, err := parse.New(string(src)).Parse()
	if err != nil || res == nil {
		fmt.Fprintf(out, "perr\n")
		return
	}
	srcRand := &scriptedSource{}
	if draws != "-" {
		for _, d := range strings.Split(draws, ",") {
			f, _ := wire.ParseF(d)
			srcRand.q = append(srcRand.q, int64(f*(1<<63)))
		}
	}
	eng := &evalEngine{rnd: rand.New(srcRand), world: parseWorld(world)}
	// capture what print writes to standard output
	old := os.Stdout
	pr, pw, _ := os.Pipe()
	os.Stdout = pw
	captured := make(chan string, 1)
	go func() { b, _ := io.ReadAll(pr); captured <- string(b) }()
	var lines []string
	func() {
		defer func() {
			if r := recover(); r != nil {
				lines = append(lines, "panic msg="+strings.ReplaceAll(firstLine(fmt.Sprint(r)), " ", "_"))
			}
		}()
		ev := eval.New(context.Background(), res.Program)
		if err := ev.Init(eng); err != nil {
			lines = append(lines, "init ok=0")
			return
		}
		lines = append(lines, "init ok=1")
		if calls == "-" {
			return
		}
		for _, c := range strings.Split(calls, ",") {
			switch c[0] {
			case 'n', 'd':
				t, _ := strconv.Atoi(c[1:])
				var act interface{ String() string }
				_ = act
				if c[0] == 'n' {
					a, err := ev.NextAction(key.TargetID(t))
					if err != nil {
						lines = append(lines, "callerr")
					} else {
						lines = append(lines, fmt.Sprintf("act typ=%s ev=%d tgt=%d", a.Type, int(a.TargetEvaluator), int(a.Target)))
					}
				} else {
					a, err := ev.DefaultAction(key.TargetID(t))
					if err != nil {
						lines = append(lines, "callerr")
					} else {
						lines = append(lines, fmt.Sprintf("act typ=%s ev=%d tgt=%d", a.Type, int(a.TargetEvaluator), int(a.Target)))
					}
				}
			case 'u':
				as, err := ev.UltCheck()
				if err != nil {
					lines = append(lines, "callerr")
				} else {
					for _, a := range as {
						lines = append(lines, fmt.Sprintf("act typ=%s ev=%d tgt=%d", a.Type, int(a.TargetEvaluator), int(a.Target)))
					}
					lines = append(lines, "ultdone")
				}
			}
		}
	}()
	pw.Close()
	os.Stdout = old
	text := <-captured
	for _, l := range strings.Split(text, "\n") {
		if l == "" {
			continue
		}
		fmt.Fprintf(out, "%s\n", printedRec(l).String())
	}
	for _, l := range lines {
		fmt.Fprintf(out, "%s\n", l)
	}
}

// ---- program generation ----

type pgen struct {
	r      *rand.Rand
	sb     strings.Builder
	nvar   int
	ints   []string
	ro     []string // loop counters: readable, never assigned by generated code
	flts   []string
	fns    []string // user functions of numeric parameters
	arity  map[string]int
	inLoop int
	inFn   int
}

func (g *pgen) fresh(prefix string) string { g.nvar++; return fmt.Sprintf("%s%d", prefix, g.nvar) }

func (g *pgen) intLit() string {
	return pick(g.r, "0", "1", "2", "3", "7", "10", "100", "9223372036854775807", "010", "08", "0100", "007")
}
func (g *pgen) fltLit() string {
	return pick(g.r, "0.5", "1.5", "2.25", ".5", "3.", "0.1", "10.75", "0.5", "1.5", "2.25", "0.1", "1000000.5", "0.00001", "123456789012345678901234.0", "0.000001")
}

func (g *pgen) numExpr(d int) string {
	if d <= 0 || g.r.Intn(3) == 0 {
		switch g.r.Intn(6) {
		case 0:
			return g.fltLit()
		case 1:
			if len(g.ints)+len(g.ro) > 0 {
				return pick(g.r, append(append([]string{}, g.ints...), g.ro...)...)
			}
		case 2:
			if len(g.flts) > 0 {
				return pick(g.r, g.flts...)
			}
		case 3:
			return pick(g.r, "true", "false")
		}
		return g.intLit()
	}
	switch g.r.Intn(12) {
	case 0, 1, 2:
		return g.numExpr(d-1) + " " + pick(g.r, "+", "-", "*") + " " + g.numExpr(d-1)
	case 3:
		// now and then a floating division by zero: infinities and NaN are ordinary values
		return g.numExpr(d-1) + " / " + pick(g.r, g.fltLit(), "2", "3", "(1 + "+g.numExpr(d-2)+" * 0 + 1)", g.fltLit(), "2", "0.0", "(0.5 - 0.5)")
	case 4:
		return "(" + g.numExpr(d-1) + ")"
	case 5:
		return g.numExpr(d-1) + " " + pick(g.r, "<", "<=", ">", ">=", "==", "!=", "<>") + " " + g.numExpr(d-1)
	case 6:
		return g.numExpr(d-1) + " " + pick(g.r, "&&", "||") + " " + g.numExpr(d-1)
	case 7:
		return pick(g.r, "!", "- ") + "(" + g.numExpr(d-1) + ")"
	case 8:
		if len(g.fns) > 0 {
			f := pick(g.r, g.fns...)
			args := []string{}
			for a := 0; a < g.arity[f]; a++ {
				args = append(args, g.numExpr(d-1))
			}
			return f + "(" + strings.Join(args, ", ") + ")"
		}
	case 9:
		return "len([" + g.numExpr(d-2) + ", " + g.numExpr(d-2) + ", 3])" + pick(g.r, "", " + 0.5", " * 2")
	case 10:
		return "first([" + g.numExpr(d-1) + ", 2])"
	}
	return g.numExpr(d - 1)
}

func (g *pgen) line(indent int, s string) {
	g.sb.WriteString(strings.Repeat("  ", indent))
	g.sb.WriteString(s)
	g.sb.WriteString("\n")
}

func (g *pgen) stmts(indent, n, d int) {
	savedI, savedF := len(g.ints), len(g.flts)
	for i := 0; i < n; i++ {
		g.stmt(indent, d)
	}
	g.ints, g.flts = g.ints[:savedI], g.flts[:savedF]
}

func (g *pgen) stmt(indent, d int) {
	switch k := g.r.Intn(16); {
	case k < 3:
		v := g.fresh("v")
		e := g.numExpr(2)
		g.line(indent, "let "+v+" = "+e+";")
		g.ints = append(g.ints, v) // may hold a float; both lists are just name pools
	case k < 5 && len(g.ints) > 0:
		g.line(indent, pick(g.r, g.ints...)+" = "+g.numExpr(2)+";")
	case k < 8:
		g.line(indent, "print("+pick(g.r, g.numExpr(3), g.numExpr(2), "\"text\"", "type("+g.numExpr(1)+")", "null")+");")
	case k == 8 && d > 0:
		g.line(indent, "if "+g.numExpr(2)+" {")
		g.stmts(indent+1, 1+g.r.Intn(2), d-1)
		if g.r.Intn(2) == 0 {
			g.line(indent, "} else if "+g.numExpr(1)+" {")
			g.stmts(indent+1, 1, d-1)
		}
		if g.r.Intn(2) == 0 {
			g.line(indent, "} else {")
			g.stmts(indent+1, 1, d-1)
		}
		g.line(indent, "}")
	case k == 9 && d > 0:
		c := g.fresh("i")
		g.line(indent, "let "+c+" = 0;")
		g.line(indent, "while "+c+" < "+pick(g.r, "2", "3", "5")+" {")
		g.line(indent+1, c+" = "+c+" + 1;")
		g.ro = append(g.ro, c)
		g.inLoop++
		g.stmts(indent+1, 1+g.r.Intn(2), d-1)
		if g.r.Intn(3) == 0 {
			g.line(indent+1, "if "+c+" == 2 { "+pick(g.r, "break;", "continue;")+" }")
		}
		g.inLoop--
		g.line(indent, "}")
	case k == 10 && d > 0:
		c := g.fresh("j")
		g.line(indent, "for let "+c+" = 0; "+c+" < "+pick(g.r, "2", "4")+"; "+c+" = "+c+" + 1 {")
		g.ro = append(g.ro, c)
		g.inLoop++
		g.stmts(indent+1, 1+g.r.Intn(2), d-1)
		if g.r.Intn(3) == 0 {
			g.line(indent+1, "if "+c+" == 1 { "+pick(g.r, "break;", "continue;")+" }")
		}
		g.inLoop--
		g.ro = g.ro[:len(g.ro)-1]
		g.line(indent, "}")
	case k == 11 && d > 0:
		// case labels first, so that the switch value can be one of them (a taken case, often the last one)
		ncases := 1 + g.r.Intn(3)
		labels := make([]string, ncases)
		for c := range labels {
			labels[c] = pick(g.r, g.intLit(), g.intLit(), g.numExpr(1))
		}
		cond := pick(g.r, g.numExpr(1), "", labels[g.r.Intn(ncases)], labels[ncases-1])
		g.line(indent, "switch "+cond+" {")
		for c := 0; c < ncases; c++ {
			g.line(indent, "case "+labels[c]+":")
			g.stmts(indent+1, 1, d-1)
			if g.r.Intn(3) == 0 {
				g.line(indent+1, pick(g.r, "fallthrough;", "fallthrough;", "break;"))
			}
		}
		if g.r.Intn(2) == 0 {
			g.line(indent, "default:")
			g.stmts(indent+1, 1, d-1)
		}
		g.line(indent, "}")
	case (k == 12 || k == 15) && d > 0 && g.inFn == 0 && indent == 0:
		f := g.fresh("f")
		p := g.fresh("p")
		params := []string{p}
		// further parameters, often named like variables of the caller (arguments are evaluated in
		// the caller's scope, whatever the parameters are called)
		outer := append([]string{}, g.ints...)
		for np := g.r.Intn(3); np > 0; np-- {
			q := g.fresh("p")
			if len(outer) > 0 && g.r.Intn(2) == 0 {
				k := g.r.Intn(len(outer))
				q = outer[k]
				outer = append(outer[:k], outer[k+1:]...)
			}
			if g.r.Intn(2) == 0 {
				params = append([]string{q}, params...)
			} else {
				params = append(params, q)
			}
		}
		g.line(indent, "fn "+f+"("+strings.Join(params, ", ")+") {")
		savedI, savedRO := g.ints, g.ro
		g.ints, g.ro = append([]string{}, params...), nil
		if g.arity == nil {
			g.arity = map[string]int{}
		}
		g.arity[f] = len(params)
		g.inFn++
		g.stmts(indent+1, g.r.Intn(2), d-1)
		switch g.r.Intn(4) {
		case 0: // return from inside a loop
			c := g.fresh("k")
			g.line(indent+1, "let "+c+" = 0;")
			g.line(indent+1, "while "+c+" < 3 { "+c+" = "+c+" + 1; if "+c+" == 2 { return "+p+" * 10; } }")
		case 1:
			g.line(indent+1, "for let q = 0; q < 3; q = q + 1 { if q == 1 { return q + "+p+"; } }")
		}
		if len(params) > 1 && g.r.Intn(2) == 0 {
			// a result that depends on which argument went to which parameter
			ret := params[0]
			for _, q := range params[1:] {
				ret += " * 10 + " + q
			}
			g.line(indent+1, "return "+ret+";")
		} else {
			g.line(indent+1, "return "+g.numExpr(2)+";")
		}
		g.inFn--
		g.ints, g.ro = savedI, savedRO
		g.line(indent, "}")
		g.fns = append(g.fns, f)
		if len(params) > 1 {
			// call it at once with the caller's variables (some named like the parameters) as arguments
			args := make([]string, len(params))
			for a := range args {
				if len(g.ints) > 0 && g.r.Intn(3) != 0 {
					args[a] = pick(g.r, g.ints...)
					if g.r.Intn(3) == 0 {
						args[a] += " + " + g.intLit()
					}
				} else {
					args[a] = g.numExpr(1)
				}
			}
			g.line(indent, "print("+f+"("+strings.Join(args, ", ")+"));")
		}
	case k == 13 && d > 0:
		g.line(indent, "{")
		if len(g.ints) > 0 && g.r.Intn(2) == 0 {
			// a block that shadows a name of an enclosing scope, before or after it has read the outer one (directly, or through a nested block)
			v := pick(g.r, g.ints...)
			switch g.r.Intn(3) {
			case 0:
				g.line(indent+1, "print("+v+");")
			case 1:
				g.line(indent+1, "if "+v+" == "+v+" { print("+v+" + 1); }")
			}
			g.line(indent+1, "let "+v+" = "+g.numExpr(1)+";")
			g.line(indent+1, "print("+v+");")
		}
		g.stmts(indent+1, 1+g.r.Intn(2), d-1)
		g.line(indent, "}")
	case k == 14:
		m := g.fresh("m")
		g.line(indent, "let "+m+" = ["+g.numExpr(1)+", "+g.numExpr(1)+", "+g.intLit()+", k = "+g.numExpr(1)+"];")
		g.line(indent, pick(g.r,
			"print(len("+m+"));",
			"print(first(sort("+m+", fn(a, b) { return a < b; })));",
			"print(any("+m+", fn(a) { return a > 2; }));",
			"print(first("+m+") + len(sort("+m+", fn(a, b) { return a > b; })));",
			// a callback that assigns to its own parameter: the map itself must not change
			"print(any("+m+", fn(a) { a = a + 10; return a > 100; })); print(first("+m+"));",
			"print(any("+m+", fn(a) { a = a * 2; return a >= 8; })); print(any("+m+", fn(a) { a = a * 2; return a >= 8; })); print(first("+m+"));"))
	default:
		g.line(indent, "print("+g.numExpr(2)+");")
	}
}

func (g *pgen) illTyped() string {
	return pick(g.r,
		"print(\"a\" + 1);", "print(undefined_name);", "let dup = 1; let dup = 2;", "print(1 / 0);", "print(7 / (3 - 3));", "print(len(1));",
		"print(first(1, 2));", "fn two(a, b) { return a; } print(two(1));", "print(!\"s\");", "print(- null);", "x_unknown = 1;", "print(1(2));",
		"switch \"s\" { case 1: print(1); }", "print(any([1], fn(a, b) { return a; }));", "print(sort([2,1], fn(a) { return a; }));", "print(type());",
		"print(1.0 / 0);", "print(5 / 0.5);", "print(7 / 2 + 0.5);", "print(len([1,2,3]) + 0.5);", "print(0 / 0.0 == 0 / 0.0);",
		"for let z = unknown_a; z < 2; z = z + 1 { print(z); }", "for let z = 0; z < 2; z = z + unknown_b { print(z); }",
		"register_skill_cb(1, fn(a, b, c) { return attack(First); });", "register_ult_cb(2, fn(a, b, c, d) { return null; });",
		"fn ff() { return 1 / 0; } print(ff());", "while undefined_c { print(1); }", "switch 1 { case \"s\": print(1); }", "fn gg() { break; } print(gg());", "print(1 + \"a\");",
		"if \"s\" { print(1); } else { print(2); }", "fn hh() { return 1; } fn hh() { return 2; }", "print(first(sort([3, 1, 2], fn(a, b) { print(a); })));", "print(any([1, 2], fn(a) { return nope; }));",
		"set_default_action(1, skill(First));", "set_default_action(\"x\", attack(First));", "print(rand(1));")
}

func genProgram(r *rand.Rand) (string, string) {
	g := &pgen{r: r}
	g.stmts(0, 2+r.Intn(5), 3)
	if r.Intn(4) == 0 {
		g.line(0, g.illTyped())
		g.stmts(0, 1, 1)
	}
	calls := "-"
	if r.Intn(2) == 0 {
		thr := pick(r, "0", "1", "2", "100")
		g.line(0, "let sp = "+pick(r, "0", "1", "3")+";")
		g.line(0, "register_skill_cb(1, fn() { if sp > "+thr+" { sp = sp - 1; return skill(LowestHP); } sp = sp + 1; return "+pick(r, "attack(First)", "attack(LowestHPRatio)", "null", "ult(First)", "1")+"; });")
		g.line(0, "register_skill_cb(2, fn(t) { return "+pick(r, "skill(t)", "attack(First)")+"; });")
		if r.Intn(2) == 0 {
			g.line(0, "set_default_action(1, attack("+pick(r, "First", "LowestHP", "7")+"));")
		}
		g.line(0, "register_ult_cb(1, fn() { if sp >= 2 { return ult(First); } return null; });")
		g.line(0, "register_ult_cb(3, fn(c) { return "+pick(r, "ult_attack(c)", "null", "skill(First)")+"; });")
		calls = pick(r, "n1,n1,u,n2,n1,d1,u", "u,n1,n3,d2", "n2,u,n1,n1,n1")
	}
	return g.sb.String(), calls
}

func evalOp(src, calls string, draws []float64) *wire.Rec {
	op := gcsOp("eval", []byte(src)).S("calls", calls)
	if len(draws) == 0 {
		return op.S("draws", "-")
	}
	return op.Fs("draws", draws)
}

func evalGen(r *rand.Rand, tier string, n int) []*wire.Case {
	var cases []*wire.Case
	add := func(id string, progs ...string) {
		var ops []*wire.Rec
		for _, p := range progs {
			ops = append(ops, evalOp(p, "-", nil))
		}
		cases = append(cases, &wire.Case{ID: id, Ops: ops})
	}
	add("d-arith", "print(1 + 2 * 3);", "print(7 / 2);", "print(7 / 2 + 0.5);", "print(7 / 2.0);", "print(1 / 0.5);", "print(len([1,2,3]) + 0.5);", "print(-7 / 2);", "print(0.1 + 0.2);",
		"print(9223372036854775807 + 1);", "print(3 * 1.5 - 1);", "print(true + true);", "print(2 - - 2);", "print(!0); print(!2.5); print(!0.0);")
	add("d-nan", "let z = 0.0; let n = z / z; print(n <= 1); print(1 <= n); print(n >= 1); print(1 >= n); print(n <= n); print(n >= n); print(n < 1); print(n > 1); print(n == n); print(n != n); print(n <> 1);",
		"let i = 1 / 0.0; print(i > 100); print(0 - i < 0); print(i <= i); print(i - i <= 0); print(!(i - i)); print((i - i) && 1); print((i - i) || 0);",
		"let z = 0.0; if z / z <= 0.5 { print(1); } else { print(2); } while z / z >= 0 { print(3); break; }")
	add("d-number-spellings", "print(010); print(08); print(0100); print(-012); print(007); print(010 + 1); print(08 / 2); print(010.5); print(9223372036854775808); print(99999999999999999999 + 1);")
	add("d-number-text", "print(1000000.0); print(1000.0 * 1000); print(0.00001); print(1.0 / 3000000); print(123456789.5 * 1000000000000.0); print(1000000 * 1000000); print(21000000.0 / 2); print(0.0001); print(0.00009);")
	add("d-print-values", "print(print); print(rand); print(fn () { return 1; }); fn f(a) { return a; } print(f); print(attack(First)); print(skill(LowestHP)); print(ult(LowestHPRatio)); print(null); print(\"a b\"); let g = f; print(g); print(type); print(f(print));")
	add("d-switch-continue", "let i = 0; while i < 3 { i = i + 1; switch i { case 1: print(10); continue; case 2: print(20); default: print(99); } print(i); }",
		"let i = 0; while i < 4 { i = i + 1; switch i { case 2: continue; case 3: fallthrough; case 9: print(30); break; default: print(99); } print(i); }",
		"for let i = 0; i < 3; i = i + 1 { switch { case i == 1: continue; default: print(7); } print(i); }", "fn f(x) { switch x { case 1: continue; default: return 5; } return 6; } print(f(1)); print(f(2));")
	add("d-shadow-after-read", "let x = 1; { print(x); let x = 2; print(x); } print(x);", "let x = 1; { if x == 1 { print(x); } let x = 5; print(x); } print(x);",
		"let g = 3; fn rd() { return g; } { print(rd()); let g = 9; print(g); print(rd()); } print(g);", "fn f() { return 1; } { print(f()); fn f() { return 2; } print(f()); } print(f());",
		"let i0 = 7; for let k = 0; k < 2; k = k + 1 { print(i0); let i0 = k; print(i0); } print(i0);", "let w = 4; let n = 0; while n < 2 { n = n + 1; print(w); let w = n * 10; print(w); }",
		"let a = 1; { { print(a); } let a = 2; { print(a); let a = 3; print(a); } print(a); } print(a);", "let s = 1; switch s { case 1: print(s); let s = 8; print(s); } print(s);")
	// sort is stable: elements the comparison does not tell apart keep their order — also beyond a dozen elements
	add("d-sort-stable", "let m = [12, 10, 13, 11, 20, 21, 23, 22, 32, 33, 30, 31, 34]; let s = sort(m, fn (a, b) { return a / 10 < b / 10; }); any(s, fn (x) { print(x); return 0; }); print(first(s));",
		"let m = [43, 10, 13, 41, 11, 12, 22, 40, 20, 23, 21, 33, 31, 30, 32, 42]; let s = sort(m, fn (a, b) { return a / 10 > b / 10; }); any(s, fn (x) { print(x); return 0; });",
		"let m = [5, 3, 9, 1, 7, 3, 5, 9, 1, 7, 2, 8, 4, 6, 0, 2, 8, 4, 6, 0]; let s = sort(m, fn (a, b) { return a / 2 < b / 2; }); any(s, fn (x) { print(x); return 0; }); print(len(s));",
		"let m = [3, 1, 2, 1, 3, 2, 1, 2, 3, 1, 2, 3]; any(sort(m, fn (a, b) { return 0; }), fn (x) { print(x); return 0; });")
	// the logic operators evaluate both operands, left then right, whatever the left one is: effects and errors of the right one count
	add("d-logic-both-operands", "let n = 0; fn bump(v) { n = n + 1; print(n); return v; } print(0 && bump(1)); print(1 || bump(0)); print(1 && bump(1)); print(0 || bump(0)); print(0.0 && bump(2)); print(2.5 || bump(0)); print(n);",
		"print(0 && \"s\");", "print(1 || \"s\");", "print(0 && nosuchname);", "print(1 || (1 / 0));", "print(1.5 || nosuchfn(1));", "print(0 && rand()); print(rand());", "print(1 || null);", "print(0 && [1]);")
	add("d-compare", "print(1 < 2); print(2 <= 2); print(3 > 4); print(1 == 1.0); print(1 != 2); print(1 <> 1); print(2 && 0); print(0 || 0.0); print(0 || \"s\" == 1);")
	add("d-errors", "print(1 / 0);", "print(1.0 / 0);", "print(\"a\" + 1);", "print(nope);", "fn f(a) { return a; } print(f());", "let a = 1; let a = 2;", "print(5 / (2 - 2));", "print(type(1)); print(type(\"s\")); print(type(null)); print(type([1])); print(type(print)); print(type(fn(){ return 1; }));")
	add("d-fn-args", "let a = 1; let b = 2; fn second(b, a) { return a; } print(second(a, b)); print(second(b, a));",
		"fn gcd(a, b) { if b == 0 { return a; } return gcd(b, a - (a / b) * b); } print(gcd(12, 18)); print(gcd(48, 36));",
		"let x = 5; fn three(p, x, q) { return p * 100 + x * 10 + q; } print(three(x, x + 1, x + 2)); print(x);")
	add("d-map-field-order", "fn p(x) { print(x); return x; } let m = [zz = p(3), b = p(2), a = p(1), b = p(4)]; print(len(m));",
		"let m = [k2 = rand(), k1 = rand()]; print(1);", "let m = [b = 1 / 0, a = nope];")
	// runtime errors and odd values in every position that propagates them
	add("d-error-positions", "print(nope_fn(1));", "print((1 / 0)(2));", "fn f() { break; } print(f());", "fn f() { continue; } f(); print(1);", "fn f() { let a = 1; } print(f());",
		"print(-\"s\");", "print(-null);", "print(1 + \"a\");", "print(1 < null);", "print(1 && \"s\");", "print(\"s\" || 1);", "print([1] + 1);", "print(1 - [1]);",
		"fn f() { return 1 / 0; } print(f()); print(2);", "fn f() { return nope; } f();", "while nope { print(1); }", "while \"s\" + 1 { print(1); }",
		"while \"s\" { print(1); break; }", "if \"s\" { print(1); } else { print(2); }", "if fn() { return 1; } { print(1); } else { print(2); }", "if null { print(1); } else { print(2); }",
		"if [1] { print(1); } else { print(2); }", "if [] { print(1); } else { print(2); }", "if print { print(1); } else { print(2); }",
		"for let i = 0; i < nope; i = i + 1 { print(i); }", "for nope { print(1); }", "for let i = 0; i < 2; i = i + 1 { print(nope); }", "for let i = 0; \"s\"; i = i + 1 { print(i); if i > 1 { break; } }",
		"switch 1 { case \"s\": print(1); }", "switch 1 { case null: print(1); default: print(2); }", "switch 1 { case nope: print(1); }", "switch 1 { case 2: print(2); } print(3);",
		"switch nope { case 1: print(1); }", "switch 1 { case 1: print(nope); default: print(2); }", "switch 1 { case 1 / 0: print(1); }",
		"fn f() { return 1; } fn f() { return 2; } print(f());", "let f = 1; fn f() { return 2; } print(f);", "fn f() { return 1; } let f = 2; print(f);", "fn print() { return 1; }",
		"print(len(nope));", "print(sort(nope, fn(a, b) { return a < b; }));", "print(any(nope, fn(a) { return a; }));", "print(sort([2, 1], fn(a, b) { return nope; }));",
		"print(first(sort([3, 1, 2], fn(a, b) { print(a); })));", "print(any([1, 2], fn(a) { print(a); }));", "print(any([1, 2], fn(a) { return nope; }));",
		"print(first(sort([3, 1, 2], fn(a, b) { if a > 2 { return nope; } return a < b; })));", "print(any([0, \"s\"], fn(a) { return a; }));", "print(first(sort([2, 1, 3], fn(a, b) { return \"s\"; })));",
		"print(attack(nope));", "print(type(attack(First)));", "print(skill(\"s\"));", "register_skill_cb(nope, fn() { return attack(First); });", "register_ult_cb(1 / 0, fn() { return null; });",
		"register_skill_cb(1, nope);", "register_ult_cb(1, 5);", "let x = [a = 1]; x = 2; print(x);", "let x = 1; x = nope; print(x);", "let y = nope; print(1);", "{ print(1); print(nope); print(2); }")
	cases = append(cases, &wire.Case{ID: "d-callback-errors", Ops: []*wire.Rec{
		evalOp("register_skill_cb(1, fn() { return skill(nope); });\nregister_ult_cb(1, fn() { return 1 / 0; });\nregister_skill_cb(2, fn() { return attack(First) + 1; });", "n1,u,n2,n1", nil),
		evalOp("register_skill_cb(1, fn(t) { return skill(t); });\nregister_ult_cb(2, fn() { print(1); return ult(nope); });\nset_default_action(2, attack(nope));", "n1,u,d2", nil),
		evalOp("let c = 0;\nregister_ult_cb(1, fn() { c = c + 1; if c == 2 { return nope; } return ult(First); });\nregister_ult_cb(1, fn() { return ult(LowestHP); });", "u,u,u", nil),
	}})
	add("d-rare-forms", "let i = 5; for i = 0; i < 3; i = i + 1 { print(i); } print(i);", "fn f(a, a) { return a; } print(f(1, 2));", "let g = fn(a, a) { return a; }; print(g(1, 2));",
		"fn f() { fn g() { return 1; } return g() + 1; } print(f()); print(f());", "switch 1 { default: print(1); }", "let x = fn() { return 3; }; print(x());", "print(fn(a) { return a * 2; }(4));",
		"let print = 1;", "let len = 2; print(len);", "fn len(x) { return 7; } print(len([1]));", "let First = 5; print(First);", "First = 7; print(First); register_skill_cb(1, fn() { return attack(First); });")
	add("d-scope", "let x = 1; { let x = 2; print(x); x = 3; print(x); } print(x);", "let x = 1; if 1 { x = 5; let y = 2; } print(x); print(y);",
		"let x = 1; fn f() { return x + 1; } { let x = 10; print(f()); } print(f());", "fn g(x) { x = x + 1; return x; } let x = 5; print(g(x)); print(x);")
	add("d-loops", "let i = 0; while i < 5 { i = i + 1; if i == 2 { continue; } if i == 4 { break; } print(i); }",
		"for let i = 0; i < 3; i = i + 1 { print(i); }", "let n = 0; for { n = n + 1; if n > 2 { break; } } print(n);", "let k = 3; for k > 0 { k = k - 1; } print(k);",
		"fn f() { let i = 0; while 1 { i = i + 1; if i == 3 { return i; } } return 0 - 1; } print(f());",
		"fn f() { for let i = 0; i < 10; i = i + 1 { if i == 4 { return i * 2; } } return 0; } print(f());")
	add("d-switch-last-fallthrough", "switch 2 { case 1: print(1); case 2: print(2); fallthrough; default: print(9); }",
		"switch 1 { case 1: print(1); fallthrough; case 2: print(2); fallthrough; default: print(9); } print(0);",
		"switch { case 0: print(1); case 1.5: print(2); fallthrough; default: print(9); }", "switch 3 { case 3: print(3); fallthrough; }")
	add("d-switch", "switch 2 { case 1: print(1); case 2: print(2); fallthrough; case 3: print(3); default: print(9); }", "switch 5 { case 1: print(1); default: print(9); }",
		"switch { case 0: print(0); case 2 > 1: print(1); break; case 1: print(2); }", "switch 1 { case 1: print(1); fallthrough; }", "let r = 0; fn f(x) { switch x { case 1: return 10; case 2: r = 5; } return r; } print(f(1)); print(f(2)); print(f(3));")
	add("d-callback-params-are-local", "let m = [1, 2, 3]; print(any(m, fn(x) { x = x + 10; return x > 100; })); print(first(m)); print(any(m, fn(x) { return x > 10; }));",
		"let m = [1, 2, 3]; fn dbl(x) { x = x * 2; return x >= 6; } print(any(m, dbl)); print(any(m, dbl)); print(first(m)); print(len(m));",
		"let m = [5]; print(any(m, fn(x) { x = 0; return x; })); print(first(m));", "let v = 3; fn f(x) { x = x + 1; return x; } print(f(v)); print(v);",
		"let m = [4, 2]; let s = sort(m, fn(a, b) { return a < b; }); print(first(s)); print(first(m));")
	add("d-maps", "let m = [3, 1, 2]; print(len(m)); print(first(m)); let s = sort(m, fn(a, b) { return a < b; }); print(first(s)); print(first(m));",
		"print(any([1, 2, 3], fn(v) { return v > 2; })); print(any([], fn(v) { return 1; }));", "let e = []; print(len(e)); print(first(e));", "let m = [a = 1, b = 2, 5]; print(len(m));")
	cases = append(cases, &wire.Case{ID: "d-callbacks", Ops: []*wire.Rec{
		evalOp("let sp = 1;\nregister_skill_cb(1, fn() { if sp > 0 { sp = sp - 1; return skill(LowestHP); } return attack(First); });\nset_default_action(1, attack(First));\nregister_ult_cb(1, fn() { return ult(First); });\nregister_ult_cb(2, fn() { return null; });", "n1,n1,n1,u,d1,n2,d2", nil),
		evalOp("register_skill_cb(1, fn(a, b, c) { return attack(First); });", "n1", nil),
		evalOp("register_skill_cb(1, fn(t, f) { print(type(f)); return skill(t); });", "n1", nil),
		evalOp("register_skill_cb(1, fn() { return null; });", "n1", nil),
		evalOp("register_skill_cb(1, fn() { return ult(First); });\nregister_skill_cb(2, fn() { return 5; });\nregister_skill_cb(3, fn() { print(1); });", "n1,n2,n3", nil),
		evalOp("print(rand()); print(rand() < 0.5); let r = rand(); print(r * 2);", "-", []float64{0.25, 0.75, 0.5}),
	}})
	// the condition builtins over a small fixed world: every builtin on every kind of unit and on absent ids
	{
		w := &wWorld{sp: 3, units: []wUnit{
			{id: 1, class: "c", alive: true, key: "danheng", energy: 100, maxEnergy: 100, hp: 0.5, shielded: true, shields: []string{"k1"}, mods: []string{"atk_up"}, status: map[int]int{1: 2}, skill: 1, elem: 7, adj: []int{2}},
			{id: 2, class: "c", alive: false, key: "hook", energy: 99.5, maxEnergy: 120, hp: 0, status: map[int]int{}, skill: 2, elem: 2, adj: []int{1}},
			{id: 4, class: "e", alive: true, hp: 1, stance: 0, maxStnc: 90, mods: []string{"burn", "mark"}, status: map[int]int{2: 3, 0: 1}, weak: []int{2, 3}, adj: []int{5}},
			{id: 5, class: "e", alive: true, hp: 0.25, stance: 30, maxStnc: 120, status: map[int]int{}, weak: []int{1}, adj: []int{4}},
			{id: 6, class: "n", alive: true, hp: 1, status: map[int]int{}},
		}}
		var ops []*wire.Rec
		fns := []string{"ult_ready", "energy", "max_energy", "hp_ratio", "weakness_broken", "stance", "max_stance", "is_shielded", "skill_ready", "element", "is_valid", "is_alive", "is_character", "is_enemy"}
		for _, f := range fns {
			var sb strings.Builder
			for _, id := range []string{"1", "2", "4", "5", "6"} {
				sb.WriteString("print(" + f + "(" + id + "));\n")
			}
			ops = append(ops, evalOp(sb.String(), "-", nil).S("world", w.String()))
			for _, id := range []string{"3", "0", "1.0", "danheng", "hook", "\"s\""} {
				ops = append(ops, evalOp("print("+f+"("+id+"));", "-", nil).S("world", w.String()))
			}
			ops = append(ops, evalOp("print("+f+"());", "-", nil).S("world", w.String()), evalOp("print("+f+"(1, 2));", "-", nil).S("world", w.String()))
		}
		for _, p := range []string{"print(has_modifier(4, \"burn\")); print(has_modifier(4, \"freeze\")); print(has_modifier(1, \"atk_up\"));", "print(has_modifier(9, \"burn\"));", "print(has_modifier(4, 1));", "print(has_modifier(4));",
			"print(modifier_count(4, STATUS_DEBUFF)); print(modifier_count(4, STATUS_BUFF)); print(modifier_count(1, 1)); print(modifier_count(4, UNKNOWN_STATUS)); print(modifier_count(4, 9));", "print(modifier_count(3, 1));", "print(modifier_count(4, \"s\"));",
			"print(has_shield(1, \"k1\")); print(has_shield(1, \"k2\")); print(has_shield(4, \"k1\"));", "print(has_shield(0, \"k1\"));", "print(has_shield(1, 1));",
			"print(has_weakness(4, FIRE)); print(has_weakness(4, ICE)); print(has_weakness(4, PHYSICAL)); print(has_weakness(5, 1)); print(has_weakness(5, 99));", "print(has_weakness(1, FIRE));", "print(has_weakness(6, FIRE));", "print(has_weakness(4, \"FIRE\"));",
			"print(skill_points()); print(skill_points() + 0.5);", "print(skill_points(1));", "print(len(enemies())); print(first(enemies())); print(len(characters())); print(first(characters()));", "print(enemies(1));", "print(characters(1));",
			"print(len(adjacent_to(1))); print(first(adjacent_to(4))); print(len(adjacent_to(6))); print(first(adjacent_to(6)));", "print(adjacent_to(3));", "print(adjacent_to());",
			"print(danheng); print(hook); print(FIRE); print(STATUS_DEBUFF); print(ENEMIES); print(HUNT); print(ATK_PERCENT); print(type(energy)); print(type(danheng));", "print(march7th);",
			"let FIRE = 1; print(FIRE); print(has_weakness(4, FIRE));", "FIRE = 3; print(has_weakness(4, FIRE));", "let energy = 5; print(energy);", "fn energy(x) { return 1; } print(energy(1));",
			"print(any(enemies(), fn(e) { return weakness_broken(e); })); print(first(sort(enemies(), fn(a, b) { return hp_ratio(a) < hp_ratio(b); })));", "print(any(characters(), fn(c) { return ult_ready(c); }));",
			"print(any(characters(), fn(c) { return stance(c) > 0; }));", "let m = enemies(); let s = sort(m, fn(a, b) { return a > b; }); print(first(m)); print(first(enemies()));"} {
			ops = append(ops, evalOp(p, "-", nil).S("world", w.String()))
		}
		ops = append(ops, evalOp("register_skill_cb(danheng, fn() { if skill_ready(1) && skill_points() > 1 { return skill(LowestHP); } return attack(First); });\nregister_skill_cb(hook, fn() { if skill_ready(2) { return skill(First); } return attack(First); });\nregister_ult_cb(1, fn() { if ult_ready(danheng) { return ult(First); } return null; });\nregister_ult_cb(2, fn() { if ult_ready(hook) { return ult(First); } return null; });", "n1,n2,u", nil).S("world", w.String()))
		cases = append(cases, &wire.Case{ID: "d-conditions", Ops: ops})
		cases = append(cases, &wire.Case{ID: "d-conditions-empty-world", Ops: []*wire.Rec{
			evalOp("print(len(enemies())); print(len(characters())); print(skill_points()); print(is_valid(1)); print(is_character(1)); print(is_enemy(0));", "-", nil),
			evalOp("print(energy(1));", "-", nil), evalOp("print(first(enemies()));", "-", nil), evalOp("print(FIRE); print(type(hp_ratio));", "-", nil), evalOp("print(ult_ready(1));", "-", nil)}})
	}
	for i := 0; i < n; i++ {
		var ops []*wire.Rec
		for j := 0; j < 3; j++ {
			if (i+j)%4 == 3 {
				p, calls, w := genWorldProgram(r)
				ops = append(ops, evalOp(p, calls, nil).S("world", w.String()))
				continue
			}
			p, calls := genProgram(r)
			ops = append(ops, evalOp(p, calls, nil))
		}
		cases = append(cases, &wire.Case{ID: fmt.Sprintf("r%d", i), Ops: ops})
	}
	_ = hex.EncodeToString
	return cases
}
