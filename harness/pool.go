package main

import (
	"fmt"
	"math/rand"
	"time"

	"github.com/simimpact/srsim/pkg/model"
	"github.com/simimpact/srsim/pkg/servermode"
	"verifharness/wire"
)

// The server-mode worker pool (pkg/servermode/pool.go) driven through the verif-tagged hook VerifPoolRun:
// real configurations, real simulations, real aggregators; batches that run to the end, batches cancelled
// after a number of results, failing batches.  What is observed is what /latest would serve when the pool
// is done: how many results the published statistics summarise, against how many the pool added.

func init() { components["pool"] = poolComp{} }

type poolComp struct{}

func histSum(o *model.OverviewStats) int {
	if o == nil {
		return -1
	}
	n := 0
	for _, h := range o.Hist {
		n += int(h)
	}
	return n
}

func (poolComp) Exec(c *wire.Case, w *wire.Writer) {
	w.Case(c.ID)
	defer w.End()
	for _, op := range c.Ops {
		w.Op(op)
		if op.Name != "pool" {
			w.Ob(wire.R("badop"))
			continue
		}
		cfg := realConfig(op)
		cfg.Logic = &model.SimConfig_Gcsl{Gcsl: unhex(op.Str("script"))}
		text := op.Str("rawcfg") // a configuration text given as it is (malformed ones)
		if text == "" {
			b, err := cfg.MarshalJSON() // JSON is YAML
			if err != nil {
				w.Ob(wire.R("pool").S("kind", "marshal-error"))
				continue
			}
			text = string(b)
		} else {
			text = unhex(text)
		}
		iters := op.Int("iters")
		out := servermode.VerifPoolRun(text, iters, op.Int("workers"), op.Int("flush"), op.Int("cancel"), realDeadline())
		kind := "cancelled"
		switch {
		case !out.Done:
			w.Ob(wire.R("hang"))
			continue
		case out.Err != nil:
			kind = "error"
		case out.Added >= iters:
			kind = "completed"
		}
		rec := wire.R("pool").S("kind", kind).I("added", out.Added)
		st := out.Result.GetStatistics()
		if out.Result == nil {
			w.Ob(rec.I("iters", -1).I("dpc", -1).B("cycles", true))
			continue
		}
		// per-cycle histograms: cycle i summarises the iterations that reached it — never more than ran, never more than cycle i-1
		ok, prev := true, int(st.GetIterations())
		for _, l := range [][]*model.OverviewStats{st.GetDamageDealtByCycle(), st.GetDamageTakenByCycle()} {
			p := prev
			for _, o := range l {
				s := histSum(o)
				if s > p {
					ok = false
				}
				p = s
			}
		}
		dpc := histSum(st.GetTotalDamageDealtPerCycle())
		if dpc < 0 {
			dpc = 0 // nothing published yet
		}
		w.Ob(rec.I("iters", int(st.GetIterations())).I("dpc", dpc).B("cycles", ok))
	}
}

func (poolComp) Gen(r *rand.Rand, tier string, n int) []*wire.Case {
	chars, lcs, relics := repoKeys("character.go"), repoKeys("lightcone.go"), repoKeys("relic.go")
	var cases []*wire.Case
	if len(chars) == 0 || len(lcs) == 0 || len(relics) == 0 {
		return []*wire.Case{{ID: "d-nokeys", Ops: []*wire.Rec{wire.R("nokeys")}}}
	}
	sample := realSpec{chars: []string{"danheng"}, lcs: []string{"only_silence_remains"}, eidols: []int{0}, levels: []int{80}, relics: []string{"-"}, abil: 1, energy: 50,
		enemies: []string{"dummy"}, elevel: 8, ehp: 20000, cycles: 3, seed: 1,
		script: "set_default_action(danheng, attack(LowestHP));\nregister_skill_cb(danheng, fn () { return skill(LowestHP); });\nregister_ult_cb(danheng, fn () { return ult(LowestHP); });\n"}
	op := func(s realSpec, iters, workers, flush, cancel int) *wire.Rec {
		return s.rec("pool").I("iters", iters).I("workers", workers).I("flush", flush).I("cancel", cancel)
	}
	never := 1 << 30
	mk := func(id string, ops ...*wire.Rec) { cases = append(cases, &wire.Case{ID: id, Ops: ops}) }
	// directed: every way a batch ends, with and without interim flushes
	mk("d-complete", op(sample, 1, 1, never, 0), op(sample, 12, 3, never, 0), op(sample, 12, 2, 0, 0), op(sample, 25, 4, 3, 0))
	mk("d-cancel", op(sample, 50000000, 1, never, 5), op(sample, 50000000, 3, never, 8), op(sample, 50000000, 2, 2, 9), op(sample, 50000000, 4, 0, 1), op(sample, 50000000, 1, 5, 6))
	mk("d-cancel-near-end", op(sample, 10, 2, never, 9), op(sample, 10, 1, 3, 10), op(sample, 3, 3, never, 1))
	{
		bad := sample
		bad.chars = []string{"no_such_character"}
		badScript := sample
		badScript.script = "let x = ;"
		mk("d-failing", op(bad, 10, 2, never, 0), op(badScript, 10, 2, never, 0), op(sample, 10, 2, never, 0).S("rawcfg", hexs("settings: [1, 2")), op(sample, 10, 2, never, 0).S("rawcfg", hexs("{}")))
	}
	for i := 0; i < n; i++ {
		s := realSpecGen(r, chars, lcs, relics)
		s.cycles = pick(r, 1, 2, 3)
		if s.ehp > 20000 {
			s.ehp = 20000
		}
		var ops []*wire.Rec
		for j := 0; j < 2; j++ {
			workers, flush := 1+r.Intn(4), pick(r, never, never, 0, 1, 2, 5)
			if r.Intn(2) == 0 {
				ops = append(ops, op(s, 1+r.Intn(20), workers, flush, 0))
			} else {
				ops = append(ops, op(s, 50000000, workers, flush, 1+r.Intn(12)))
			}
		}
		mk(fmt.Sprintf("r%d", i), ops...)
	}
	_ = time.Second
	return cases
}
