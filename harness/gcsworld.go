package main

// The engine state the gcs condition builtins (pkg/logic/gcs/eval/conditions.go) look at, as a
// value that travels in the `eval` op: the worker answers the engine getters from it, the Lean
// model reads the same text.
//
//   sp:<n>/u:<id>.<c|e|n>.<alive>.<key>.<energy>.<maxenergy>.<hp>.<stance>.<maxstance>.<shielded>.
//        <shields |>.<modifiers |>.<status:count |>.<weak |>.<skill 0|1|2=error>.<element>.<adjacent |>/u:...

import (
	"fmt"
	"math/rand"
	"strconv"
	"strings"

	"github.com/simimpact/srsim/pkg/engine/info"
	"github.com/simimpact/srsim/pkg/key"
	"github.com/simimpact/srsim/pkg/model"
	"verifharness/wire"
)

type wUnit struct {
	id                                     int
	class                                  string
	alive                                  bool
	key                                    string
	energy, maxEnergy, hp, stance, maxStnc float64
	shielded                               bool
	shields, mods                          []string
	status                                 map[int]int
	weak                                   []int
	skill                                  int
	elem                                   int
	adj                                    []int
}

type wWorld struct {
	sp    int
	units []wUnit
}

func joinInts(l []int) string {
	s := make([]string, len(l))
	for i, x := range l {
		s[i] = strconv.Itoa(x)
	}
	return strings.Join(s, "|")
}

func (w *wWorld) String() string {
	if w == nil {
		return "-"
	}
	parts := []string{fmt.Sprintf("sp:%d", w.sp)}
	for _, u := range w.units {
		var st []string
		for k := 0; k <= 3; k++ {
			if c, ok := u.status[k]; ok {
				st = append(st, fmt.Sprintf("%d:%d", k, c))
			}
		}
		b := func(x bool) string {
			if x {
				return "1"
			}
			return "0"
		}
		parts = append(parts, "u:"+strings.Join([]string{strconv.Itoa(u.id), u.class, b(u.alive), u.key, wire.FStr(u.energy), wire.FStr(u.maxEnergy), wire.FStr(u.hp),
			wire.FStr(u.stance), wire.FStr(u.maxStnc), b(u.shielded), strings.Join(u.shields, "|"), strings.Join(u.mods, "|"), strings.Join(st, "|"),
			joinInts(u.weak), strconv.Itoa(u.skill), strconv.Itoa(u.elem), joinInts(u.adj)}, "."))
	}
	return strings.Join(parts, "/")
}

func splitNE(s, sep string) []string {
	if s == "" {
		return nil
	}
	return strings.Split(s, sep)
}

func parseWorld(s string) *wWorld {
	if s == "-" || s == "" {
		return nil
	}
	w := &wWorld{}
	for _, p := range strings.Split(s, "/") {
		switch {
		case strings.HasPrefix(p, "sp:"):
			w.sp, _ = strconv.Atoi(p[3:])
		case strings.HasPrefix(p, "u:"):
			f := strings.Split(p[2:], ".")
			if len(f) != 17 {
				continue
			}
			u := wUnit{class: f[1], alive: f[2] == "1", key: f[3], shielded: f[9] == "1", status: map[int]int{}}
			u.id, _ = strconv.Atoi(f[0])
			u.energy, _ = wire.ParseF(f[4])
			u.maxEnergy, _ = wire.ParseF(f[5])
			u.hp, _ = wire.ParseF(f[6])
			u.stance, _ = wire.ParseF(f[7])
			u.maxStnc, _ = wire.ParseF(f[8])
			u.shields, u.mods = splitNE(f[10], "|"), splitNE(f[11], "|")
			for _, kv := range splitNE(f[12], "|") {
				x := strings.SplitN(kv, ":", 2)
				k, _ := strconv.Atoi(x[0])
				c, _ := strconv.Atoi(x[1])
				u.status[k] = c
			}
			for _, x := range splitNE(f[13], "|") {
				d, _ := strconv.Atoi(x)
				u.weak = append(u.weak, d)
			}
			u.skill, _ = strconv.Atoi(f[14])
			u.elem, _ = strconv.Atoi(f[15])
			for _, x := range splitNE(f[16], "|") {
				d, _ := strconv.Atoi(x)
				u.adj = append(u.adj, d)
			}
			w.units = append(w.units, u)
		}
	}
	return w
}

func (w *wWorld) unit(t key.TargetID) *wUnit {
	if w == nil {
		return nil
	}
	for i := range w.units {
		if w.units[i].id == int(t) {
			return &w.units[i]
		}
	}
	return nil
}

// ---- the engine getters the condition builtins use, answered from the world ----

func (e *evalEngine) Characters() []key.TargetID { return e.ofClass("c") }
func (e *evalEngine) Enemies() []key.TargetID    { return e.ofClass("e") }
func (e *evalEngine) ofClass(c string) []key.TargetID {
	var out []key.TargetID
	if e.world != nil {
		for _, u := range e.world.units {
			if u.class == c {
				out = append(out, key.TargetID(u.id))
			}
		}
	}
	return out
}
func (e *evalEngine) CharacterInfo(t key.TargetID) (info.Character, error) {
	u := e.world.unit(t)
	if u == nil || u.class != "c" {
		return info.Character{}, fmt.Errorf("not a character: %d", t)
	}
	return info.Character{Key: key.Character(u.key), Element: model.DamageType(u.elem)}, nil
}
func (e *evalEngine) IsValid(t key.TargetID) bool { return e.world.unit(t) != nil }
func (e *evalEngine) IsAlive(t key.TargetID) bool { u := e.world.unit(t); return u != nil && u.alive }
func (e *evalEngine) IsCharacter(t key.TargetID) bool {
	u := e.world.unit(t)
	return u != nil && u.class == "c"
}
func (e *evalEngine) IsEnemy(t key.TargetID) bool {
	u := e.world.unit(t)
	return u != nil && u.class == "e"
}
func (e *evalEngine) SP() int {
	if e.world == nil {
		return 0
	}
	return e.world.sp
}
func (e *evalEngine) fl(t key.TargetID, f func(*wUnit) float64) float64 {
	if u := e.world.unit(t); u != nil {
		return f(u)
	}
	return 0
}
func (e *evalEngine) Energy(t key.TargetID) float64 {
	return e.fl(t, func(u *wUnit) float64 { return u.energy })
}
func (e *evalEngine) MaxEnergy(t key.TargetID) float64 {
	return e.fl(t, func(u *wUnit) float64 { return u.maxEnergy })
}
func (e *evalEngine) EnergyRatio(t key.TargetID) float64 {
	return e.fl(t, func(u *wUnit) float64 { return u.energy / u.maxEnergy })
}
func (e *evalEngine) HPRatio(t key.TargetID) float64 {
	return e.fl(t, func(u *wUnit) float64 { return u.hp })
}
func (e *evalEngine) Stance(t key.TargetID) float64 {
	return e.fl(t, func(u *wUnit) float64 { return u.stance })
}
func (e *evalEngine) MaxStance(t key.TargetID) float64 {
	return e.fl(t, func(u *wUnit) float64 { return u.maxStnc })
}
func (e *evalEngine) IsShielded(t key.TargetID) bool {
	u := e.world.unit(t)
	return u != nil && u.shielded
}
func (e *evalEngine) HasShield(t key.TargetID, k key.Shield) bool {
	if u := e.world.unit(t); u != nil {
		for _, s := range u.shields {
			if s == string(k) {
				return true
			}
		}
	}
	return false
}
func (e *evalEngine) HasModifier(t key.TargetID, k key.Modifier) bool {
	if u := e.world.unit(t); u != nil {
		for _, s := range u.mods {
			if s == string(k) {
				return true
			}
		}
	}
	return false
}
func (e *evalEngine) ModifierStatusCount(t key.TargetID, st model.StatusType) int {
	if u := e.world.unit(t); u != nil {
		return u.status[int(st)]
	}
	return 0
}
func (e *evalEngine) CanUseSkill(t key.TargetID) (bool, error) {
	u := e.world.unit(t)
	if u == nil || u.skill == 2 {
		return false, fmt.Errorf("cannot tell whether %d can use its skill", t)
	}
	return u.skill == 1, nil
}
func (e *evalEngine) AdjacentTo(t key.TargetID) []key.TargetID {
	var out []key.TargetID
	if u := e.world.unit(t); u != nil {
		for _, a := range u.adj {
			out = append(out, key.TargetID(a))
		}
	}
	return out
}
func (e *evalEngine) Stats(t key.TargetID) *info.Stats {
	weak := info.NewWeaknessMap()
	if u := e.world.unit(t); u != nil {
		for _, d := range u.weak {
			weak[model.DamageType(d)] = true
		}
	}
	return info.NewStats(t, &info.Attributes{Weakness: weak, BaseStats: info.NewPropMap(), BaseDebuffRES: info.NewDebuffRESMap()},
		&info.ModifierState{Props: info.NewPropMap(), DebuffRES: info.NewDebuffRESMap(), Weakness: info.NewWeaknessMap(), Counts: map[model.StatusType]int{}})
}

// ---- generation ----

var worldKeys = []string{"danheng", "march7th", "hook", "kafka"}
var worldMods = []string{"burn", "freeze", "atk_up", "mark"}
var worldShields = []string{"k1", "k2"}

func genWorld(r *rand.Rand) *wWorld {
	w := &wWorld{sp: r.Intn(6)}
	nc, ne := 1+r.Intn(3), r.Intn(4)
	id := 1
	for i := 0; i < nc+ne; i++ {
		u := wUnit{id: id, class: "c", alive: r.Intn(5) != 0, status: map[int]int{}, skill: pick(r, 0, 1, 1, 2), elem: r.Intn(8)}
		if i >= nc {
			u.class = "e"
			u.stance = pick(r, 0.0, 0, 30, 90.5)
			u.maxStnc = pick(r, 0.0, 90.5, 120)
			for d := 1; d < 8; d++ {
				if r.Intn(3) == 0 {
					u.weak = append(u.weak, d)
				}
			}
		} else {
			u.key = worldKeys[i]
			u.energy = pick(r, 0.0, 50, 99.5, 100, 120, 140)
			u.maxEnergy = pick(r, 100.0, 120, 140)
		}
		u.hp = pick(r, 0.0, 0.25, 0.5, 1)
		u.shielded = r.Intn(3) == 0
		for _, k := range worldShields {
			if r.Intn(3) == 0 {
				u.shields = append(u.shields, k)
			}
		}
		for _, k := range worldMods {
			if r.Intn(3) == 0 {
				u.mods = append(u.mods, k)
			}
		}
		for k := 0; k <= 2; k++ {
			if r.Intn(2) == 0 {
				u.status[k] = r.Intn(4)
			}
		}
		w.units = append(w.units, u)
		id++
		if r.Intn(6) == 0 {
			id++ // a gap in the ids
		}
	}
	if r.Intn(3) == 0 {
		w.units = append(w.units, wUnit{id: id, class: "n", alive: true, hp: 1, status: map[int]int{}})
	}
	for i := range w.units {
		for j := range w.units {
			if i != j && w.units[i].class == w.units[j].class && (j == i+1 || j == i-1) {
				w.units[i].adj = append(w.units[i].adj, w.units[j].id)
			}
		}
	}
	return w
}

// a call of a condition builtin with arguments of every kind (valid ids, other classes, absent ids,
// floats, strings, wrong arity)
func (g *pgen) condCall(w *wWorld) string {
	r := g.r
	ids := []string{"0", "99", "-1", "1.0", "2.5", "\"x\"", "null"}
	for _, u := range w.units {
		ids = append(ids, strconv.Itoa(u.id), strconv.Itoa(u.id))
		if u.key != "" {
			ids = append(ids, u.key)
		}
	}
	id := func() string { return pick(r, ids...) }
	one := []string{"ult_ready", "energy", "max_energy", "hp_ratio", "weakness_broken", "stance", "max_stance", "is_shielded", "skill_ready", "element",
		"is_valid", "is_alive", "is_character", "is_enemy"}
	switch r.Intn(12) {
	case 0:
		return "has_modifier(" + id() + ", " + pick(r, "\"burn\"", "\"freeze\"", "\"atk_up\"", "\"mark\"", "\"none\"", "1", "burn") + ")"
	case 1:
		return "modifier_count(" + id() + ", " + pick(r, "STATUS_BUFF", "STATUS_DEBUFF", "UNKNOWN_STATUS", "1", "2", "7", "\"s\"") + ")"
	case 2:
		return "has_shield(" + id() + ", " + pick(r, "\"k1\"", "\"k2\"", "\"k3\"", "1") + ")"
	case 3:
		return "has_weakness(" + id() + ", " + pick(r, "FIRE", "ICE", "PHYSICAL", "THUNDER", "QUANTUM", "IMAGINARY", "WIND", "INVALID_DAMAGE_TYPE", "3", "12", "\"s\"") + ")"
	case 4:
		return pick(r, "skill_points()", "skill_points(1)", "len(enemies())", "len(characters())", "first(enemies())", "first(characters())", "len(enemies(1))")
	case 5:
		return "len(adjacent_to(" + id() + "))"
	case 6:
		return "first(adjacent_to(" + id() + "))"
	case 7:
		return pick(r, one...) + "(" + id() + ", " + id() + ")"
	case 8:
		return pick(r, one...) + "()"
	}
	return pick(r, one...) + "(" + id() + ")"
}

func genWorldProgram(r *rand.Rand) (string, string, *wWorld) {
	w := genWorld(r)
	g := &pgen{r: r}
	n := 2 + r.Intn(5)
	for i := 0; i < n; i++ {
		switch r.Intn(6) {
		case 0:
			g.line(0, "if "+g.condCall(w)+" { print(1); } else { print(0); }")
		case 1:
			g.line(0, "print(any(enemies(), fn(e) { return "+pick(r, "weakness_broken(e)", "has_weakness(e, FIRE)", "hp_ratio(e) < 0.5", "is_alive(e)", "stance(e) > 10")+"; }));")
		case 2:
			g.line(0, "print(first(sort(characters(), fn(a, b) { return "+pick(r, "energy(a) > energy(b)", "hp_ratio(a) < hp_ratio(b)", "max_energy(a) - energy(a) < max_energy(b) - energy(b)")+"; })));")
		case 3:
			g.line(0, "print("+pick(r, "FIRE + ICE", "ATK_PERCENT", "HUNT", "ENEMIES", "STATUS_DEBUFF * 2", "type(energy)", "type(FIRE)", "CRIT_CHANCE - CRIT_DMG")+");")
		default:
			g.line(0, "print("+g.condCall(w)+");")
		}
	}
	calls := "-"
	if r.Intn(2) == 0 {
		c := w.units[0]
		g.line(0, fmt.Sprintf("register_skill_cb(%s, fn() { if skill_ready(%d) && skill_points() > 1 { return skill(LowestHP); } return attack(First); });", pick(r, c.key, strconv.Itoa(c.id)), c.id))
		g.line(0, fmt.Sprintf("register_ult_cb(%d, fn() { if ult_ready(%s) { return ult(First); } return null; });", c.id, pick(r, c.key, strconv.Itoa(c.id), "99")))
		calls = fmt.Sprintf("n%d,u,n%d", c.id, c.id)
	}
	return g.sb.String(), calls, w
}
