package main

// Correspondence component "dispatch": the modifier manager's event dispatch
// (pkg/engine/modifier/listener.go). Real modifier manager, real event system, real attribute
// service; harness-registered modifiers whose listeners only record that they were called.

import (
	"fmt"
	"math/rand"
	"sync"

	"github.com/simimpact/srsim/pkg/engine/attribute"
	"github.com/simimpact/srsim/pkg/engine/event"
	"github.com/simimpact/srsim/pkg/engine/info"
	"github.com/simimpact/srsim/pkg/engine/logging"
	"github.com/simimpact/srsim/pkg/engine/modifier"
	"github.com/simimpact/srsim/pkg/engine/prop"
	"github.com/simimpact/srsim/pkg/key"
	"github.com/simimpact/srsim/pkg/model"
	"verifharness/wire"
)

func init() { components["dispatch"] = dispComp{} }

type dispComp struct{}

const dispNL = 31 // listener slots, in the order of Dispatch.Ln.all

type dShape struct {
	has    [dispNL]bool
	snap   bool
	cancel bool
}

func dispName(i int) key.Modifier { return key.Modifier(fmt.Sprintf("verifdisp%d", i)) }

var dispCatalog = buildDispCatalog()

func buildDispCatalog() []dShape {
	var c []dShape
	all := func(f func(i int) bool) (h [dispNL]bool) {
		for i := range h {
			h[i] = f(i)
		}
		return
	}
	c = append(c, dShape{has: all(func(int) bool { return true }), snap: true})                // 0 everything
	c = append(c, dShape{has: all(func(int) bool { return true }), snap: false, cancel: true}) // 1 everything, no snapshot access, revives
	c = append(c, dShape{has: all(func(i int) bool { return i%2 == 0 }), snap: true})          // 2
	c = append(c, dShape{has: all(func(i int) bool { return i%2 == 1 }), snap: false, cancel: true})
	c = append(c, dShape{}) // 4 no listeners
	c = append(c, dShape{has: all(func(i int) bool { return i%3 != 0 }), snap: true, cancel: true})
	c = append(c, dShape{has: all(func(i int) bool { return i >= 12 && i <= 19 }), snap: false}) // 6 heal + hp/death only
	c = append(c, dShape{has: all(func(i int) bool { return i >= 4 && i <= 11 }), snap: true})   // 7 hits only
	return c
}

type dispSession struct {
	out  []*wire.Rec
	uids map[*modifier.Instance]int
	next int
	// set while an attach is in flight so that the new instance gets its uid on first sight
}

var dispSess *dispSession
var dispRegisterOnce sync.Once

func (s *dispSession) call(mi *modifier.Instance, ln int) {
	u, ok := s.uids[mi]
	if !ok {
		u = -1
	}
	s.out = append(s.out, wire.R("call").I("uid", u).I("ln", ln))
}

func registerDispCatalog() {
	dispRegisterOnce.Do(func() {
		for i, c := range dispCatalog {
			c := c
			var l modifier.Listeners
			h := func(k int) bool { return c.has[k] }
			if h(0) {
				l.OnBeforeAttack = func(m *modifier.Instance, e event.AttackStart) { dispSess.call(m, 0) }
			}
			if h(1) {
				l.OnBeforeBeingAttacked = func(m *modifier.Instance, e event.AttackStart) { dispSess.call(m, 1) }
			}
			if h(2) {
				l.OnAfterAttack = func(m *modifier.Instance, e event.AttackEnd) { dispSess.call(m, 2) }
			}
			if h(3) {
				l.OnAfterBeingAttacked = func(m *modifier.Instance, e event.AttackEnd) { dispSess.call(m, 3) }
			}
			if h(4) {
				l.OnBeforeHitAll = func(m *modifier.Instance, e event.HitStart) { dispSess.call(m, 4) }
			}
			if h(5) {
				l.OnBeforeHit = func(m *modifier.Instance, e event.HitStart) { dispSess.call(m, 5) }
			}
			if h(6) {
				l.OnBeforeBeingHitAll = func(m *modifier.Instance, e event.HitStart) { dispSess.call(m, 6) }
			}
			if h(7) {
				l.OnBeforeBeingHit = func(m *modifier.Instance, e event.HitStart) { dispSess.call(m, 7) }
			}
			if h(8) {
				l.OnAfterHitAll = func(m *modifier.Instance, e event.HitEnd) { dispSess.call(m, 8) }
			}
			if h(9) {
				l.OnAfterHit = func(m *modifier.Instance, e event.HitEnd) { dispSess.call(m, 9) }
			}
			if h(10) {
				l.OnAfterBeingHitAll = func(m *modifier.Instance, e event.HitEnd) { dispSess.call(m, 10) }
			}
			if h(11) {
				l.OnAfterBeingHit = func(m *modifier.Instance, e event.HitEnd) { dispSess.call(m, 11) }
			}
			if h(12) {
				l.OnBeforeDealHeal = func(m *modifier.Instance, e *event.HealStart) { dispSess.call(m, 12) }
			}
			if h(13) {
				l.OnBeforeBeingHeal = func(m *modifier.Instance, e *event.HealStart) { dispSess.call(m, 13) }
			}
			if h(14) {
				l.OnAfterDealHeal = func(m *modifier.Instance, e event.HealEnd) { dispSess.call(m, 14) }
			}
			if h(15) {
				l.OnAfterBeingHeal = func(m *modifier.Instance, e event.HealEnd) { dispSess.call(m, 15) }
			}
			if h(16) {
				l.OnHPChange = func(m *modifier.Instance, e event.HPChange) { dispSess.call(m, 16) }
			}
			if h(17) {
				l.OnLimboWaitHeal = func(m *modifier.Instance) bool { dispSess.call(m, 17); return c.cancel }
			}
			if h(18) {
				l.OnBeforeDying = func(m *modifier.Instance) { dispSess.call(m, 18) }
			}
			if h(19) {
				l.OnTriggerDeath = func(m *modifier.Instance, t key.TargetID) { dispSess.call(m, 19) }
			}
			if h(20) {
				l.OnEnergyChange = func(m *modifier.Instance, e event.EnergyChange) { dispSess.call(m, 20) }
			}
			if h(21) {
				l.OnStanceChange = func(m *modifier.Instance, e event.StanceChange) { dispSess.call(m, 21) }
			}
			if h(22) {
				l.OnBeforeBeingBreak = func(m *modifier.Instance) { dispSess.call(m, 22) }
			}
			if h(23) {
				l.OnTriggerBreak = func(m *modifier.Instance, t key.TargetID) { dispSess.call(m, 23) }
			}
			if h(24) {
				l.OnBeingBreak = func(m *modifier.Instance) { dispSess.call(m, 24) }
			}
			if h(25) {
				l.OnEndBreak = func(m *modifier.Instance) { dispSess.call(m, 25) }
			}
			if h(26) {
				l.OnBreakExtend = func(m *modifier.Instance) { dispSess.call(m, 26) }
			}
			if h(27) {
				l.OnBeforeAction = func(m *modifier.Instance, e event.ActionStart) { dispSess.call(m, 27) }
			}
			if h(28) {
				l.OnAfterAction = func(m *modifier.Instance, e event.ActionEnd) { dispSess.call(m, 28) }
			}
			if h(29) {
				l.OnShieldAdded = func(m *modifier.Instance, e event.ShieldAdded) { dispSess.call(m, 29) }
			}
			if h(30) {
				l.OnShieldRemoved = func(m *modifier.Instance, e event.ShieldRemoved) { dispSess.call(m, 30) }
			}
			modifier.Register(dispName(i), modifier.Config{
				Stacking: modifier.Multiple, CanModifySnapshot: c.snap, Listeners: l,
			})
		}
	})
}

func (dispComp) Exec(c *wire.Case, w *wire.Writer) {
	w.Case(c.ID)
	defer w.End()
	registerDispCatalog()
	ev := &event.System{}
	eng := &stubEngine{ev: ev, rnd: rand.New(rand.NewSource(1))}
	sess := &dispSession{uids: map[*modifier.Instance]int{}, next: 1}
	dispSess = sess
	logging.InitLoggers()
	mgr := modifier.NewManager(eng)
	eng.attr = attribute.New(ev, mgr)
	for id := 1; id <= 3; id++ {
		_ = eng.attr.AddTarget(key.TargetID(id), info.Attributes{Level: 1, HPRatio: 1, MaxEnergy: 100,
			BaseStats: info.PropMap{prop.HPBase: 1000, prop.SPDBase: 100}})
	}
	ids := func(l []int) []key.TargetID {
		out := make([]key.TargetID, len(l))
		for i, x := range l {
			out[i] = key.TargetID(x)
		}
		return out
	}
	for _, op := range c.Ops {
		w.Op(op)
		sess.out = nil
		func() {
			defer func() {
				if r := recover(); r != nil {
					sess.out = append(sess.out, wire.R("panic").S("msg", firstLine(fmt.Sprint(r))))
				}
			}()
			t := key.TargetID(op.Int("t"))
			a, b := key.TargetID(op.Int("a")), key.TargetID(op.Int("b"))
			at := model.AttackType(op.Int("at"))
			snap := op.Bool("snap")
			switch op.Name {
			case "attach":
				ok, err := mgr.AddModifier(t, info.Modifier{Name: dispName(op.Int("shape")), Source: t})
				if err != nil || !ok {
					sess.out = append(sess.out, wire.R("attach-failed"))
					return
				}
				for _, vi := range mgr.VerifInstances(t) {
					if _, seen := sess.uids[vi.Inst]; !seen {
						sess.uids[vi.Inst] = sess.next
					}
				}
				sess.next++
			case "detach":
				mgr.RemoveModifier(t, dispName(op.Int("shape")))
			case "attackStart":
				ev.AttackStart.Emit(event.AttackStart{Attacker: a, Targets: ids(op.Ints("ts")), AttackType: at})
			case "attackEnd":
				ev.AttackEnd.Emit(event.AttackEnd{Attacker: a, Targets: ids(op.Ints("ts")), AttackType: at})
			case "hitStart":
				ev.HitStart.Emit(event.HitStart{Attacker: a, Defender: b, Hit: &info.Hit{AttackType: at, UseSnapshot: snap}})
			case "hitEnd":
				ev.HitEnd.Emit(event.HitEnd{Attacker: a, Defender: b, AttackType: at, UseSnapshot: snap})
			case "healStart":
				ev.HealStart.Emit(&event.HealStart{Healer: eng.attr.Stats(a), Target: eng.attr.Stats(b), UseSnapshot: snap})
			case "healEnd":
				ev.HealEnd.Emit(event.HealEnd{Healer: a, Target: b, UseSnapshot: snap})
			case "hpChange":
				ev.HPChange.Emit(event.HPChange{Target: t})
			case "limbo":
				cancelled := ev.LimboWaitHeal.Emit(event.LimboWaitHeal{Target: t})
				sess.out = append(sess.out, wire.R("ret").B("c", cancelled))
			case "death":
				ev.TargetDeath.Emit(event.TargetDeath{Target: a, Killer: b})
			case "energy":
				ev.EnergyChange.Emit(event.EnergyChange{Target: t})
			case "stance":
				ev.StanceChange.Emit(event.StanceChange{Target: t})
			case "stanceBreak":
				ev.StanceBreak.Emit(event.StanceBreak{Target: a, Source: b})
			case "stanceReset":
				ev.StanceReset.Emit(event.StanceReset{Target: t})
			case "breakExtend":
				ev.BreakExtend.Emit(event.BreakExtend{Target: t})
			case "actionStart":
				ev.ActionStart.Emit(event.ActionStart{Owner: t, AttackType: at})
			case "actionEnd":
				ev.ActionEnd.Emit(event.ActionEnd{Owner: t, AttackType: at})
			case "shieldAdded":
				ev.ShieldAdded.Emit(event.ShieldAdded{Info: info.Shield{Target: t, Source: t}})
			case "shieldRemoved":
				ev.ShieldRemoved.Emit(event.ShieldRemoved{Target: t})
			default:
				sess.out = append(sess.out, wire.R("badop"))
			}
		}()
		for _, o := range sess.out {
			w.Ob(o)
		}
	}
}

var dispEvents = []string{"attackStart", "attackEnd", "hitStart", "hitEnd", "healStart", "healEnd", "hpChange", "limbo",
	"death", "energy", "stance", "stanceBreak", "stanceReset", "breakExtend", "actionStart", "actionEnd", "shieldAdded", "shieldRemoved"}

func dispAttach(t, shape int) *wire.Rec {
	c := dispCatalog[shape]
	var has []int
	for i, b := range c.has {
		if b {
			has = append(has, i)
		}
	}
	return wire.R("attach").I("t", t).I("shape", shape).Is("has", has).B("snap", c.snap).B("cancel", c.cancel)
}

func dispEvent(name string, a, b int, ts []int, at int, snap bool) *wire.Rec {
	r := wire.R(name)
	switch name {
	case "attackStart", "attackEnd":
		return r.I("a", a).Is("ts", ts).I("at", at)
	case "hitStart", "hitEnd":
		return r.I("a", a).I("b", b).I("at", at).B("snap", snap)
	case "healStart", "healEnd":
		return r.I("a", a).I("b", b).B("snap", snap)
	case "death", "stanceBreak":
		return r.I("a", a).I("b", b)
	case "actionStart", "actionEnd":
		return r.I("t", a).I("at", at)
	}
	return r.I("t", a)
}

func (dispComp) Gen(r *rand.Rand, tier string, n int) []*wire.Case {
	var cases []*wire.Case
	mk := func(id string, ops ...*wire.Rec) { cases = append(cases, &wire.Case{ID: id, Ops: ops}) }
	// directed: every event on a unit that is both roles (self-heal, self-hit), with and without snapshot
	for _, snap := range []bool{false, true} {
		var ops []*wire.Rec
		ops = append(ops, dispAttach(1, 0), dispAttach(1, 1), dispAttach(2, 5), dispAttach(1, 3))
		for _, e := range dispEvents {
			ops = append(ops, dispEvent(e, 1, 1, []int{1, 2, 1}, 1, snap))
			ops = append(ops, dispEvent(e, 1, 2, []int{2}, 4, snap))
			ops = append(ops, dispEvent(e, 2, 1, nil, 9, snap))
		}
		mk(fmt.Sprintf("d-self-roles-snap%v", snap), ops...)
	}
	mk("d-limbo-order", dispAttach(1, 0), dispAttach(1, 2), dispAttach(1, 1), dispAttach(1, 0), dispEvent("limbo", 1, 0, nil, 0, false),
		wire.R("detach").I("t", 1).I("shape", 1), dispEvent("limbo", 1, 0, nil, 0, false), dispEvent("limbo", 2, 0, nil, 0, false))
	mk("d-empty", dispEvent("healStart", 1, 2, nil, 0, true), dispEvent("hitStart", 3, 3, nil, 5, false), dispEvent("attackStart", 1, 0, nil, 1, false))
	mk("d-break-three-passes", dispAttach(1, 0), dispAttach(2, 0), dispAttach(1, 5), dispEvent("stanceBreak", 1, 2, nil, 0, false),
		dispEvent("stanceBreak", 1, 1, nil, 0, false), dispEvent("death", 1, 1, nil, 0, false), dispEvent("death", 2, 1, nil, 0, false))
	for i := 0; i < n; i++ {
		var ops []*wire.Rec
		l := 6 + r.Intn(30)
		for j := 0; j < l; j++ {
			switch k := r.Intn(10); {
			case k < 3 || j < 3:
				ops = append(ops, dispAttach(pick(r, 1, 1, 2, 3), r.Intn(len(dispCatalog))))
			case k == 3:
				ops = append(ops, wire.R("detach").I("t", pick(r, 1, 2, 3)).I("shape", r.Intn(len(dispCatalog))))
			default:
				a := pick(r, 1, 2, 3)
				b := pick(r, 1, 2, 3)
				if r.Intn(4) == 0 {
					b = a
				}
				var ts []int
				for x := r.Intn(4); x > 0; x-- {
					ts = append(ts, pick(r, 1, 2, 3))
				}
				ops = append(ops, dispEvent(dispEvents[r.Intn(len(dispEvents))], a, b, ts, r.Intn(10), r.Intn(2) == 0))
			}
		}
		mk(fmt.Sprintf("r%d", i), ops...)
	}
	return cases
}
