import Srsim.Num
import Srsim.Wire
import Srsim.Driver
