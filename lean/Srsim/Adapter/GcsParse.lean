import Srsim.Adapter.Gcs
import Srsim.Model.Gcs.Parse
/-! S-expression rendering of the parser model's trees and the `parse` wire step. -/
namespace GcsAdapter
open Gcs.Lex Gcs.Parse

def hexByte (n : Nat) : String := String.ofList [Wire.hexDigit (n / 16), Wire.hexDigit (n % 16)]

/-- UTF-8 bytes of a code point list, in hex (an invalid byte decodes to U+FFFD, as in Go) -/
def hx (w : List Nat) : String :=
  if w.isEmpty then "-" else
  String.join ((String.ofList (w.map Char.ofNat)).toUTF8.toList.map fun b => hexByte b.toNat)

def numStr (w : List Nat) : String :=
  let s := w.map Char.ofNat
  let neg := s.head? == some '-'
  let body := match s with | '-' :: r => r | '+' :: r => r | _ => s
  let ip := body.takeWhile Char.isDigit
  let rest := body.dropWhile Char.isDigit
  let digitsVal (l : List Char) : Nat := l.foldl (fun a c => a * 10 + (c.toNat - 48)) 0
  if rest.isEmpty then
    let v : Int := if neg then - (digitsVal ip : Int) else digitsVal ip
    if -9223372036854775808 ≤ v && v ≤ 9223372036854775807 then s!"N(i:{v})"
    else
      let f : Float := OfScientific.ofScientific (digitsVal ip) false 0
      s!"N(f:{Wire.fstr (if neg then -f else f)})"
  else
    let fr := rest.drop 1
    let f : Float := OfScientific.ofScientific (digitsVal (ip ++ fr)) true fr.length
    s!"N(f:{Wire.fstr (if neg then -f else f)})"

mutual
  partial def sexprE : Expr → String
    | .num w => numStr w
    | .str w => s!"S({hx w})"
    | .null => "Z"
    | .ident w => s!"I({hx w})"
    | .call f args => s!"C({sexprE f};{",".intercalate (args.map sexprE)})"
    | .unary op r => s!"U({op};{sexprE r})"
    | .binary op l r => s!"B({op};{sexprE l};{sexprE r})"
    | .map arr fields =>
      let fs := (fields.map fun kv => (hx kv.1, kv.1, kv.2)).mergeSort fun a b =>
        (String.ofList (a.2.1.map Char.ofNat)).toUTF8.toList ≤ (String.ofList (b.2.1.map Char.ofNat)).toUTF8.toList
      s!"M({",".intercalate (arr.map sexprE)}|{",".intercalate (fs.map fun kv => kv.1 ++ "=" ++ sexprE kv.2.2)})"
    | .funLit args body => s!"F({",".intercalate (args.map hx)};{sexprB body})"
  partial def sexprB (l : List Node) : String := s!"BL({",".intercalate (l.map sexprN)})"
  partial def sexprN : Node → String
    | .expr e => sexprE e
    | .block l => sexprB l
    | .letS id v => s!"L({hx id};{sexprE v})"
    | .assign id v => s!"A({hx id};{sexprE v})"
    | .ret v => s!"R({sexprE v})"
    | .ctrl k => s!"K({k})"
    | .ifS c th el => s!"IF({sexprE c};{sexprB th};{match el with | some n => sexprN n | none => "nil"})"
    | .switchS c cases d =>
      let cs := cases.map fun (e, b) => s!"CS({sexprE e};{sexprB b})"
      s!"SW({match c with | some e => sexprE e | none => "nil"};{",".intercalate cs};{match d with | some b => sexprB b | none => "nil"})"
    | .fn name args body => s!"FN({hx name};{",".intercalate (args.map hx)};{sexprB body})"
    | .while c b => s!"W({sexprE c};{sexprB b})"
    | .forS i c p b =>
      s!"FOR({match i with | some n => sexprN n | none => "nil"};{match c with | some e => sexprE e | none => "nil"};{match p with | some n => sexprN n | none => "nil"};{sexprB b})"
end

def parseStep (s : Unit) (r : Rec) : Unit × List Rec × List String :=
  let input := parseRunes r
  match lexAll input with
  | none => (s, [Rec.mk' "nofuel"], [])
  | some (toks, _) =>
    match parseProgram toks with
    | .fuel => (s, [Rec.mk' "nofuel"], [])
    | .err => (s, [Rec.mk' "perr", (Rec.mk' "gor").addI "leaked" 0], ["parse", "perr"])
    | .ok prog _ =>
      let sx := sexprB prog
      let tags := ["IF(", "SW(", "FOR(", "W(", "FN(", "F(", "M(", "C(", "U(", "B(", "L(", "A(", "R(", "K("].filter fun t => (sx.splitOn t).length > 1
      (s, [(Rec.mk' "ast").addS "s" sx, (Rec.mk' "gor").addI "leaked" 0], "parse" :: "ok" :: tags)

/-- C13 on an implementation trace: no crash, no hang, time within a linear budget, no background
work left after the parser returned -/
def parseProp (trace : List (Rec × List Rec)) : Option String := Id.run do
  for (_, obs) in trace do
    if obs.any (·.name == "crash") then return some "crash: lexing/parsing killed the process"
    if obs.any (·.name == "hang") then return some "hang: parsing did not terminate within the deadline"
    if obs.any (·.name == "neither") then return some "the parser returned neither a program nor an error"
    if obs.any (·.name == "slow") then return some "slow: parsing time is not bounded by a linear budget"
    if obs.any fun r => r.name == "gor" && r.int "leaked" > 0 then
      return some "background work (the lexer goroutine) still running after the parser returned"
  return none

/-- C14 on an implementation trace: the tree is the one the grammar (the parser model) prescribes,
programs the grammar rejects are rejected, nothing is accepted with an empty expression -/
def treeProp (trace : List (Rec × List Rec)) : Option String := Id.run do
  for (op, obs) in trace do
    if obs.any (fun r => r.name == "crash" || r.name == "hang") then return none   -- C13's business
    if obs.any fun r => r.name == "ast" && ((r.str "s").splitOn "NILEXPR").length > 1 then
      return some "a program with a missing part was accepted with an empty (nil) expression"
    let (_, mobs, _) := parseStep () op
    let m := mobs.filter fun r => r.name == "ast" || r.name == "perr"
    let o := obs.filter fun r => r.name == "ast" || r.name == "perr"
    match m, o with
    | [a], [b] =>
      if a.name == "perr" && b.name == "ast" then return some "a program the grammar rejects was accepted"
      if a.name == "ast" && b.name == "perr" then return some "a syntactically valid program was rejected"
      if a.name == "ast" && a.str "s" != b.str "s" then return some s!"tree differs from the grammar's: {b.str "s"} instead of {a.str "s"}"
    | _, _ => return some "no parse result"
  return none

end GcsAdapter
