import Srsim.Driver
import Srsim.Model.Pool
/-
Wire adapter and trace predicate for the server-mode pool (pkg/servermode/pool.go).  How many results
arrived before the batch ended, and how it ended, are runtime facts (worker scheduling, the moment of
the cancel): they are taken from the implementation's observation as the model's event sequence.  What
is then compared is what the pool published.
-/
namespace PoolAdapter
open Pool

/-- the events of a batch: its results are told apart by their arrival number only (the statistics over them are `Agg`'s business) -/
def eventsOf (kind : String) (added : Nat) : List (Ev Nat) :=
  (List.range added).map .result ++ (if kind == "cancelled" then [.cancel] else if kind == "error" then [.error] else [])

def outRec (kind : String) (s : St Nat) : Rec :=
  let p : Int := match s.published with | some l => l.length | none => -1
  (Rec.mk' "pool").addS "kind" kind |>.addI "added" s.count |>.addI "iters" p |>.addI "dpc" p |>.addB "cycles" true

def stepO (_ : Unit) (op : Rec) (obs : List Rec) : Unit × List Rec × List String :=
  if op.name != "pool" then ((), [Rec.mk' "badop"], [])
  else match obs.find? (·.name == "pool") with
    | none => ((), [], ["no-observation"])
    | some o =>
      let kind := o.str "kind"
      let c : Cfg := ⟨op.nat "iters", op.nat "flush"⟩
      let s := run c (eventsOf kind (o.nat "added"))
      ((), [outRec kind s], [kind, if op.nat "flush" < 100 then "interim-flushes" else "final-flush-only",
        if op.nat "workers" > 1 then "workers>1" else "one-worker"])

def prop (trace : List (Rec × List Rec)) : Option String := Id.run do
  for (op, obs) in trace do
    for o in obs do
      if o.name == "pool" then
        let kind := o.str "kind"
        if kind == "error" then
          if o.int "iters" != -1 then return some "a failed batch still publishes a result"
        else
          if kind == "cancelled" && op.nat "cancel" == 0 then return some "the batch stopped early though nobody cancelled it"
          if kind == "completed" && o.int "added" != op.int "iters" then
            return some s!"{o.int "added"} results were added to a batch of {op.int "iters"} iterations"
          if o.int "iters" != o.int "added" then
            return some s!"the published statistics summarise {o.int "iters"} results, {o.int "added"} were added"
          if o.int "dpc" != o.int "added" then
            return some s!"the histogram of damage per cycle sums to {o.int "dpc"}, {o.int "added"} results were added"
          if !o.bool "cycles" then return some "a per-cycle histogram summarises more values than iterations reached that cycle"
  return none

def comp : Component Unit where
  init := ()
  step := fun s _ => (s, [], [])
  prop := prop
  stepO := some stepO

end PoolAdapter
