import Srsim.Wire
import Srsim.Model.Validate
/-
Adapter for whole runs with the registered content: the model side is the configuration check
(`Validate`), fed with the registry the implementation reports; everything else of the
observation is echoed (the content packages are not modelled).
-/
namespace RealAdapter
open Validate

def relicKeys (s : String) : List String :=
  if s == "-" || s == "" then [] else (s.splitOn "/").map fun k => ((k.splitOn "*").headD k)

def cfgOf (op : Rec) : Cfg :=
  let chars := op.list "chars"
  let lcs := op.list "lcs"
  let relics := (op.str "relics").splitOn ";"
  { chars := chars.zipIdx.map fun (c, i) => { key := c, lc := lcs.getD i "", relics := relicKeys (relics.getD i "-") },
    enemies := op.list "enemies" }

def regOf (obs : List Rec) : Reg :=
  match obs.find? (·.name == "registry") with
  | some r => { chars := r.list "chars", lcs := r.list "lcs", relics := r.list "relics", enemies := r.list "enemies" }
  | none => { chars := [], lcs := [], relics := [], enemies := [] }

def verdictRec (v : Option Bad) : Rec :=
  match v with
  | none => (Rec.mk' "valid").addB "ok" true |>.addS "bad" "-" |>.addS "what" "-"
  | some (.character k) => (Rec.mk' "valid").addB "ok" false |>.addS "bad" k |>.addS "what" "character"
  | some (.lightcone k) => (Rec.mk' "valid").addB "ok" false |>.addS "bad" k |>.addS "what" "lightcone"
  | some (.relic k) => (Rec.mk' "valid").addB "ok" false |>.addS "bad" k |>.addS "what" "relic"
  | some (.enemy k) => (Rec.mk' "valid").addB "ok" false |>.addS "bad" k |>.addS "what" "enemy"

def stepO (_ : Unit) (op : Rec) (obs : List Rec) : Unit × List Rec × List String :=
  if op.name == "run" then
    let v := validate (regOf obs) (cfgOf op)
    let out := obs.map fun r => if r.name == "valid" then verdictRec v else r
    let kind := ((obs.find? (·.name == "out")).map (·.str "kind")).getD "?"
    ((), out, [kind, if v.isNone then "accepted" else "rejected"] ++ (if (op.list "chars").length > 1 then ["team"] else []))
  else ((), obs, [op.name])

/-- C20 on the implementation's outcome: a result for an accepted configuration, an error naming
the unknown key for a rejected one; never a panic, never a run that does not stop. -/
def totalProp (trace : List (Rec × List Rec)) : Option String :=
  trace.findSome? fun (op, obs) =>
    if op.name != "run" then none else
    match obs.find? (·.name == "out") with
    | none => some "no outcome"
    | some o =>
      let v := validate (regOf obs) (cfgOf op)
      let kind := o.str "kind"
      if kind == "panic" then some ("the run panicked at " ++ o.str "site" ++ ": " ++ o.str "msg")
      else if kind == "capped" then some "the run did not stop (event cap reached)"
      else if kind == "hang" then some ("the run did not stop: " ++ o.str "msg")
      else if kind == "parse-error" then some ("the generated script does not parse: " ++ o.str "msg")
      else if v.isNone && kind != "result" then some ("a configuration of registered keys was not run to completion: " ++ o.str "msg")
      else if v.isSome && !(kind == "error" && o.str "class" == "invalid-key") then some "a configuration naming an unknown key was not rejected with an error"
      else none

/-- C01 / C15: a `differs` record is a counterexample -/
def sameProp (wheres : List String) (trace : List (Rec × List Rec)) : Option String :=
  trace.findSome? fun (_, obs) =>
    obs.findSome? fun r =>
      if r.name == "differs" && wheres.contains (r.str "where") then
        some s!"{r.str "where"}: run {r.int "rep"} differs at log line {r.int "line"} ({r.str "kinds"}): {r.str "a"} <> {r.str "b"}"
      else if r.name == "workererr" then some ("fresh process failed: " ++ r.str "msg")
      else none

end RealAdapter
