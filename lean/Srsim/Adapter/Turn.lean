import Srsim.Driver
import Srsim.Model.Turn
/-! Wire adapter for the turn-manager model. -/
namespace TurnAdapter
open Turn

def init : St Float := { spd := fun _ => 0, cost := 1, totalAV := 0 }

def opOfRec (r : Rec) : Option (Op Float) :=
  let id := r.int "id"; let amt := r.flt "amt"
  match r.name with
  | "spd" => some (.spd id (r.flt "v"))
  | "add" => some (.add (r.ints "ids"))
  | "remove" => some (.remove id)
  | "start" => some .start
  | "reset" => some .reset
  | "setgauge" => some (.setGauge id amt)
  | "modnorm" => some (.modNorm id amt)
  | "modav" => some (.modAV id amt)
  | "setcost" => some (.setCost amt)
  | "modcost" => some (.modCost amt)
  | _ => none

def statusInto (r : Rec) (st : List (Int × Int × Float)) : Rec :=
  r.addIs "ids" (st.map (·.1)) |>.addIs "gauges" (st.map (·.2.1)) |>.addFs "avs" (st.map (·.2.2))

def evRec : Ev Float → Rec
  | .added ids st => statusInto ((Rec.mk' "TurnTargetsAdded").addIs "added" ids) st
  | .started id a st tot => (statusInto ((Rec.mk' "started").addI "id" id |>.addF "av" a) st).addF "total" tot
  | .reset id c st => statusInto ((Rec.mk' "TurnReset").addI "id" id |>.addF "cost" c) st
  | .gauge id o n st => statusInto ((Rec.mk' "GaugeChange").addI "id" id |>.addI "old" o |>.addI "new" n) st
  | .costChange o n => (Rec.mk' "CostChange").addF "old" o |>.addF "new" n
  | .err k => (Rec.mk' "err").addS "kind" k

def orderRec (s : St Float) : Rec :=
  (Rec.mk' "order").addIs "ids" (s.order.map (·.1)) |>.addF "total" s.totalAV

def tagsOf (s : St Float) (r : Rec) (evs : List (Ev Float)) : List String :=
  let errs := evs.filterMap fun | .err k => some ("e-" ++ k) | _ => none
  let extra :=
    match r.name with
    | "reset" => if Num.neb s.cost 1 then ["cost≠1"] else []
    | "setgauge" | "modnorm" | "modav" =>
      (if s.activeTurn then ["during-turn"] else []) ++
      (evs.filterMap fun | .gauge _ _ n _ => some (if n == 0 then "to-zero" else "moved") | _ => none)
    | "start" =>
      match evs with
      | [.started _ _ st _] => if st.any (fun t => t.2.2 == 0 && t.1 != (st.headD (0, 0, 0)).1) then ["tie-at-zero"] else []
      | _ => []
    | _ => []
  (r.name :: errs) ++ extra

def stepRec (s : St Float) (r : Rec) : St Float × List Rec × List String :=
  match opOfRec r with
  | none => (s, [Rec.mk' "badop"], [])
  | some op =>
    let (s', evs) := step s op
    -- the Go API returns the error after the events; errors are rendered last
    let recs := evs.map evRec
    (s', recs ++ [orderRec s'], tagsOf s r evs)

end TurnAdapter
