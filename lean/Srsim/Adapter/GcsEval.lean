import Srsim.Adapter.GcsParse
import Srsim.Model.Gcs.Eval
/-! Wire step for the gcs evaluator model: source → lexer → parser → evaluator, all in Lean. -/
namespace GcsAdapter
open Gcs.Lex Gcs.Parse Gcs.Eval

def mkFloat (m e : Nat) : Float := OfScientific.ofScientific m true e

def strOf (w : List Nat) : String := String.ofList (w.map Char.ofNat)

/-- `Inspect` of a value that is not a number or a map -/
def inspectStr : Val Float → String
  | .null => "null"
  | .str s => strOf s
  | .fn .. => "function"
  | .bif _ => "built-in function"
  | .act typ ev _ => typ ++ "(" ++ (if ev == 100 then "First" else if ev == 101 then "LowestHP" else if ev == 102 then "LowestHPRatio" else toString ev) ++ ")"
  | _ => "?"

def printedRec (v : Val Float) : Rec :=
  match v with
  | .int i => (Rec.mk' "p").addF "n" (Float.ofInt i) |>.addS "e" "0"
  | .flt f => (Rec.mk' "p").addF "n" f |>.addS "e" "0"
  | v => (Rec.mk' "p").addS "s" (hx ((inspectStr v).toList.map Char.toNat))

def actRec (v : Val Float) : Option Rec :=
  match v with
  | .act typ ev tgt => some ((Rec.mk' "act").addS "typ" typ |>.addI "ev" ev |>.addI "tgt" tgt)
  | _ => none

def evalFuel : Nat := 600

/-- the decision calls of an eval op against the model's decision interface (`nextAction`, `defaultAction`, `ultCheck`);
what a callback printed comes before its answer -/
def doCalls (s : St Float) (calls : List String) : List Rec := Id.run do
  let mut s := s
  let mut out : List Rec := []
  for c in calls do
    let t : Int := (c.drop 1).toString.toInt?.getD 0
    let before := s.printed.length
    if c.startsWith "n" then
      let (r, s1) := nextAction mkFloat evalFuel s t
      let pr := (s1.printed.take (s1.printed.length - before)).reverse.map printedRec
      s := s1
      out := out ++ pr ++ (match r with
        | some a => (actRec a).toList
        | none => [Rec.mk' "callerr"])
    else if c.startsWith "d" then
      out := out ++ (match defaultAction s t with
        | some a => (actRec a).toList
        | none => [Rec.mk' "callerr"])
    else if c.startsWith "u" then
      let (r, s1) := ultCheck mkFloat evalFuel s s.ultCB []
      let pr := (s1.printed.take (s1.printed.length - before)).reverse.map printedRec
      s := s1
      out := out ++ pr ++ (match r with
        | some acts => acts.flatMap (fun a => (actRec a).toList) ++ [Rec.mk' "ultdone"]
        | none => [Rec.mk' "callerr"])
  return out

/-- the `world` field of an eval op (see harness/gcsworld.go) -/
def parseWorld (w : String) : World Float :=
  if w == "" || w == "-" then {} else
  let parts := w.splitOn "/"
  let sp : Int := (parts.findSome? fun p => if p.startsWith "sp:" then (p.drop 3).toString.toInt? else none).getD 0
  let sub (x : String) : List String := if x == "" then [] else x.splitOn "|"
  let units := parts.filterMap fun p =>
    if !p.startsWith "u:" then none else
    match (p.drop 2).toString.splitOn "." with
    | [id, cls, alive, key, en, men, hp, st, mst, sh, shields, mods, status, weak, skill, elem, adj] =>
      some ({ id := id.toInt?.getD 0, cls := if cls == "c" then 0 else if cls == "e" then 1 else 2, alive := alive == "1",
              key := txt key, energy := (Wire.parseF en).getD 0, maxEnergy := (Wire.parseF men).getD 0, hp := (Wire.parseF hp).getD 0,
              stance := (Wire.parseF st).getD 0, maxStance := (Wire.parseF mst).getD 0, shielded := sh == "1",
              shields := (sub shields).map txt, mods := (sub mods).map txt,
              status := (sub status).filterMap (fun kv => match kv.splitOn ":" with
                | [k, c] => some (k.toInt?.getD 0, c.toInt?.getD 0) | _ => none),
              weak := (sub weak).filterMap String.toInt?, skill := (skill.toNat?).getD 0, elem := elem.toInt?.getD 0,
              adj := (sub adj).filterMap String.toInt? } : WUnit Float)
    | _ => none
  { sp := sp, units := units }

def evalStep (u : Unit) (r : Rec) : Unit × List Rec × List String :=
  let input := parseRunes r
  match lexAll input with
  | none => (u, [Rec.mk' "nofuel"], [])
  | some (toks, _) =>
    match parseProgram toks with
    | .fuel => (u, [Rec.mk' "nofuel"], [])
    | .err => (u, [Rec.mk' "perr"], ["perr"])
    | .ok prog _ =>
      let s0 : St Float := initSt (r.flts "draws") (parseWorld (r.str "world"))
      -- `Init` evaluates the program as a block: in a scope of its own below the global one, so a
      -- program may shadow builtins and evaluator constants
      match evalBlock mkFloat evalFuel s0 0 prog with
      | .fuel => (u, [Rec.mk' "nofuel"], [])
      | .err _ se => (u, se.printed.reverse.map printedRec ++ [(Rec.mk' "init").addI "ok" 0], ["eval", "init-err"])
      | .ok _ s1 =>
        -- output printed during Init precedes the call results only on the wire of the worker when
        -- both are flushed at the end: all printed lines come first, in order
        let calls := if r.str "calls" == "-" then [] else r.list "calls"
        let rest := doCalls { s1 with printed := [] } calls
        let printedInit := s1.printed.reverse.map printedRec
        let pr := rest.filter (·.name == "p")
        let others := rest.filter (·.name != "p")
        (u, printedInit ++ pr ++ [(Rec.mk' "init").addI "ok" 1] ++ others,
          ["eval", "init-ok"] ++ (if calls.isEmpty then [] else ["calls"]) ++ (if s1.printed.length > 3 then ["prints>3"] else [])
            ++ (if r.has "world" then ["world"] else []))

/-- C12 on an implementation trace: no crash / hang, and values, output and decisions are those of
the language semantics (the evaluator model) -/
def evalProp (trace : List (Rec × List Rec)) : Option String := Id.run do
  for (op, obs) in trace do
    if obs.any (·.name == "panic") then return some s!"panic: evaluation crashed ({(obs.find? (·.name == "panic")).map (·.str "msg")})"
    if obs.any (·.name == "crash") then return some "crash: evaluation killed the process"
    if obs.any (·.name == "hang") then return some "hang: evaluation did not terminate (bounded program)"
    let (_, mobs, _) := evalStep () op
    if mobs.any (·.name == "nofuel") then return none
    if mobs.length != obs.length then
      return some s!"semantics: {obs.length} outputs/decisions, the language semantics gives {mobs.length}"
    for (m, o) in mobs.zip obs do
      if !Wire.tolEq m o then return some s!"semantics: implementation {Wire.Rec.render o}, language semantics {Wire.Rec.render m}"
  return none

end GcsAdapter
