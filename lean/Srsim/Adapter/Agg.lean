import Srsim.Driver
import Srsim.Model.Agg
/-! Wire adapter for the aggregator model. -/
namespace AggAdapter
open Agg

structure DSt where
  configured : Bool := false
  buf : Buf Float := Buf.init 0

def iterOf (r : Rec) : IterRes Float :=
  { dealt := r.flt "dealt", taken := r.flt "taken", av := r.flt "av", cumDealt := r.flts "cdealt", cumTaken := r.flts "ctaken" }

def descRec (name : String) (d : Desc Float) : Rec :=
  (Rec.mk' "desc").addS "name" name |>.addF "min" d.min |>.addF "max" d.max |>.addF "mean" d.mean |>.addF "sd" d.sd

def overRec (name : String) (idx : Nat) : Res (Over Float) → Rec
  | .crash => (Rec.mk' "panic").addS "at" s!"{name}[{idx}]"
  | .ok o => (Rec.mk' "over").addS "name" name |>.addI "idx" idx |>.addF "sd" o.sd |>.addF "min" o.min |>.addF "max" o.max
      |>.addF "mean" o.mean |>.addF "q1" o.q1 |>.addF "q2" o.q2 |>.addF "q3" o.q3 |>.addIs "hist" (o.hist.map Int.ofNat)

def flushRecs (m : MathFns Float) (b : Buf Float) : List Rec :=
  let st := b.flush m
  [ (Rec.mk' "iters").addI "n" st.iterations, descRec "dealt" st.dealt, descRec "taken" st.taken, descRec "av" st.av,
    overRec "dpc" 0 st.dpc ] ++
  (st.dealtByCycle.zipIdx.map fun (o, i) => overRec "dealtByCycle" i o) ++
  (st.takenByCycle.zipIdx.map fun (o, i) => overRec "takenByCycle" i o)

def stepRec (s : DSt) (r : Rec) : DSt × List Rec × List String :=
  match r.name with
  | "cfg" => ({ configured := true, buf := Buf.init (r.nat "cycles") }, [], ["cfg"])
  | "add" => if s.configured then ({ s with buf := s.buf.add (iterOf r) }, [], ["add"]) else (s, [Rec.mk' "nocfg"], [])
  | "flush" =>
    if !s.configured then (s, [Rec.mk' "nocfg"], []) else
    let tbl := r.flts "cbrt"
    let m : MathFns Float := { sqrt := Float.sqrt, cbrt := fun n => tbl.getD n 0 }
    let recs := flushRecs m s.buf
    let tags := recs.filterMap fun o =>
      if o.name == "over" then
        some (if (o.ints "hist").length > 1 then "hist-bins" else if (o.ints "hist") == [0] then "empty-sample" else "hist-single")
      else none
    (s, recs, "flush" :: tags.eraseDups)
  | _ => (s, [Rec.mk' "badop"], [])

end AggAdapter
