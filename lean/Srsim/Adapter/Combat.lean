import Srsim.Driver
import Srsim.Model.Combat
/-! Wire adapter for the combat model (shared by the C04 and C17 drivers). -/
namespace CombatAdapter
open Combat

def parseTermsOf (r : Rec) (field : String) : List (Nat × Float) :=
  (r.list field).filterMap fun t => match t.splitOn ":" with
    | [k, v] => match k.toNat?, Wire.parseF v with
      | some k, some v => some (k, v)
      | _, _ => none
    | _ => none

def parseTerms (r : Rec) : List (Nat × Float) := parseTermsOf r "terms"

def weakList (r : Rec) : List Bool :=
  let w := r.ints "weak"
  (List.range 8).map fun (i : Nat) => w.contains (Int.ofNat i)

def cstats (r : Rec) : CStats Float :=
  { atk := statCalc (r.flt "atk") (r.flt "atkpct") (r.flt "atkflat"), defn := statCalc (r.flt "def") (r.flt "defpct") (r.flt "defflat"), maxHP := r.flt "maxhp", level := r.int "level",
    allDmgPct := r.flt "alldmg", dmgPct := r.flts "dmgpct", dotPct := r.flt "dot", breakEffect := r.flt "be",
    allRes := r.flt "allres", res := r.flts "res", allPen := r.flt "allpen", pen := r.flts "pen",
    allTaken := r.flt "alltaken", taken := r.flts "taken", reduce := r.flt "reduce", fatigue := r.flt "fatigue",
    critChance := r.flt "cc", critDmg := r.flt "cd", healBoost := r.flt "healboost", healTaken := r.flt "healtaken",
    weak := weakList r, isChar := r.bool "char" }

def attrUnit (r : Rec) : Attr.Unit Float :=
  { id := r.int "id", hpRatio := r.flt "hpr", energy := r.flt "energy", maxEnergy := r.flt "maxenergy",
    stance := r.flt "stance", maxStance := r.flt "maxstance", lastAttacker := r.int "id",
    hpBase := r.flt "maxhp", hpPct := 0, hpFlat := 0, hpConv := 0,
    regen := r.flt "regen", regenConv := 0, stancePct := r.flt "stancepct", revive := r.bool "revive" }

/-- the attribute-level unit also carries regen / toughness bonus; keep them in step with `stats` -/
def opOfRec (s : St Float) (r : Rec) : Option (Op Float) :=
  match r.name with
  | "unit" => some (.unit (attrUnit r) (cstats r))
  | "stats" => some (.stats (r.int "id") (cstats r) (r.flt "regen") (r.flt "stancepct"))
  | "shield" => some (.shield (r.int "key") (r.int "src") (r.int "tgt") (r.flt "hp"))
  | "sethp" => some (.sethp (r.int "id") (r.flt "amt"))
  | "attack" => some (.attack {
      key := r.int "key", src := r.int "src", targets := r.ints "targets", atkType := r.nat "atype",
      dmgType := r.nat "dtype", terms := parseTerms r, flat := r.flt "flat", hitRatio := r.flt "ratio",
      asPure := r.bool "pure", energyGain := r.flt "energy", stanceDamage := r.flt "stance",
      bbd := r.flt "bbd", draws := r.flts "draws",
      adj := if r.has "hadj" then some { onlyTgt := r.int "honly", attDmgAdd := r.flt "hdmg", attCritAdd := r.flt "hcrit", defTakenAdd := r.flt "htaken", defReduceAdd := r.flt "hreduce", attFatigueAdd := r.flt "hfatigue" } else none })
  | "endattack" => some .endAttack
  | "heal" => some (.heal {
      key := 0, src := r.int "src", targets := r.ints "targets", terms := parseTerms r, flat := r.flt "flat",
      adj := if r.has "adj" then some {
          flatAdd := r.flt "aflat", termKind := r.nat "akind", termSet := r.flt "aterm",
          healerAtkAdd := r.flt "aatk", targetTakenAdd := r.flt "ataken" } else none })
  | _ => none

def attrEvRec : Attr.Ev Float → Rec
  | .hpChange t o n oh nh d => (Rec.mk' "HPChange").addI "t" t |>.addF "oldr" o |>.addF "newr" n |>.addF "oldhp" oh |>.addF "newhp" nh |>.addB "dmg" d
  | .limbo t c => (Rec.mk' "LimboWaitHeal").addI "t" t |>.addB "c" c
  | .energyChange t s o n => (Rec.mk' "EnergyChange").addI "t" t |>.addI "src" s |>.addF "old" o |>.addF "new" n
  | .stanceChange t s o n => (Rec.mk' "StanceChange").addI "t" t |>.addI "src" s |>.addF "old" o |>.addF "new" n
  | .stanceBreak t s => (Rec.mk' "StanceBreak").addI "t" t |>.addI "src" s
  | .stanceReset t => (Rec.mk' "StanceReset").addI "t" t
  | .spChange s o n => (Rec.mk' "SPChange").addI "src" s |>.addI "old" o |>.addI "new" n
  | .errUnknownTarget => (Rec.mk' "err").addS "kind" "unknown_target"
  | .errRatioType => (Rec.mk' "err").addS "kind" "ratio_type"
  | .errDuplicate => (Rec.mk' "err").addS "kind" "duplicate"

def shieldEvRec : Shield.Ev Float → Rec
  | .added k s t h => (Rec.mk' "ShieldAdded").addI "key" k |>.addI "src" s |>.addI "tgt" t |>.addF "health" h
  | .removed k t => (Rec.mk' "ShieldRemoved").addI "key" k |>.addI "tgt" t
  | .change t k o n i out => (Rec.mk' "ShieldChange").addI "tgt" t |>.addI "key" k |>.addF "old" o |>.addF "new" n |>.addF "in" i |>.addF "out" out
  | .ret o => (Rec.mk' "ret").addF "out" o

def evRec : Ev Float → Option Rec
  | .attr (.errUnknownTarget) => none      -- combat ignores errors of the attribute service
  | .attr e => some (attrEvRec e)
  | .shield e => some (shieldEvRec e)
  | .attackStart k s ts a d => some ((Rec.mk' "AttackStart").addI "key" k |>.addI "src" s |>.addIs "targets" ts |>.addI "atype" a |>.addI "dtype" d)
  | .attackEnd k s ts a d => some ((Rec.mk' "AttackEnd").addI "key" k |>.addI "src" s |>.addIs "targets" ts |>.addI "atype" a |>.addI "dtype" d)
  | .hitStart s t => some ((Rec.mk' "HitStart").addI "src" s |>.addI "tgt" t)
  | .hitEnd s t b dm r v tg f rd cd tot hp sh rem c =>
    some ((Rec.mk' "HitEnd").addI "src" s |>.addI "tgt" t |>.addF "base" b |>.addF "defm" dm |>.addF "res" r |>.addF "vul" v
      |>.addF "tough" tg |>.addF "fatigue" f |>.addF "reduce" rd |>.addF "critdmg" cd |>.addF "total" tot |>.addF "hpdmg" hp
      |>.addF "shielddmg" sh |>.addF "hprem" rem |>.addB "crit" c)
  | .healStart s t => some ((Rec.mk' "HealStart").addI "src" s |>.addI "tgt" t)
  | .healEnd s t a o => some ((Rec.mk' "HealEnd").addI "src" s |>.addI "tgt" t |>.addF "amount" a |>.addF "overflow" o)

def tagsOf (r : Rec) (evs : List (Ev Float)) : List String :=
  let hitTags := evs.filterMap fun
    | .hitEnd _ _ _ _ _ v _ _ rd _ _ _ sh _ c =>
      some ((if c then "crit" else "nocrit") ++ (if sh > 0 then "+shielded" else "") ++ (if v == 3.5 then "+vulcap" else "")
            ++ (if rd == 0.01 then "+reducecap" else ""))
    | .healEnd _ _ _ o => some (if o > 0 then "heal-overflow" else "heal-fits")
    | .attr (.stanceBreak ..) => some "break"
    | .attr (.limbo ..) => some "kill"
    | _ => none
  (r.name ++ (if r.name == "attack" then s!"-t{r.int "atype"}" else "") ++ (if r.has "adj" then "-adj" else "")) :: hitTags.eraseDups

/-- a heal whose `HealStart` listener performs a heal of its own (fields `nsrc`, `ntgt`, `nterms`, `nflat`; the
generator aims it at a unit that is not a target of the outer heal): for each target of the outer heal the listener's
heal happens first — it is complete, and logged, before the outer `HealStart` is — and then the outer heal of that
target, exactly as it would be without the listener.  Composed from the model's own `heal` steps. -/
def nestedHeal (s : St Float) (p : HealP Float) (n : HealP Float) : St Float × List (Ev Float) :=
  if p.targets.isEmpty || lifeOfU s p.src != some .alive then step s (.heal p)
  else p.targets.foldl (fun (acc : St Float × List (Ev Float)) t =>
      let r1 := step acc.1 (.heal n)
      let r2 := step r1.1 (.heal { p with targets := [t] })
      (r2.1, acc.2 ++ r1.2 ++ r2.2)) (s, [])

def stepRec (s : St Float) (r : Rec) : St Float × List Rec × List String :=
  match opOfRec s r with
  | none => (s, [Rec.mk' "badop"], [])
  | some op =>
    let (s', evs) := match op with
      | .heal p =>
        if r.has "nest" then
          nestedHeal s p { key := 0, src := r.int "nsrc", targets := [r.int "ntgt"], flat := r.flt "nflat", adj := none,
                           terms := parseTermsOf r "nterms" }
        else step s op
      | _ => step s op
    (s', evs.filterMap evRec, tagsOf r evs ++ (if r.has "nest" then ["nested-heal"] else []))

end CombatAdapter
