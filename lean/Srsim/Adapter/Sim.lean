import Srsim.Wire
import Srsim.Model.Sim
/-
Wire adapter for the battle-driver model: the `run` operation carries the scripted content and the
script's decision tables; the implementation's observations supply the battle-start facts and the
oracle streams (hit outcomes, HP-primitive markers, enemy target picks).
-/
namespace SimAdapter
open Sim

def parseSel (s : String) : Sel :=
  match s.toList with
  | 's' :: _ => .self
  | 'p' :: _ => .primary
  | 'o' :: _ => .opp
  | 'f' :: _ => .friends
  | 'u' :: r => .unit ((String.ofList r).toInt?.getD 0)
  | _ => .self

def parseCmd (s : String) : Cmd :=
  match s.splitOn "." with
  | [] => { op := '?' }
  | h :: t =>
    let arg (i : Nat) : Int := (t.getD i "0").toInt?.getD 0
    { op := h.toList.headD '?', sel := if h.length > 1 then parseSel (h.drop 1).toString else .self, a := arg 0, b := arg 1, c := arg 2 }

def parseProgs (s : String) : List (List Cmd) :=
  if s == "" || s == "-" then [] else
  (s.splitOn ";").map fun p => if p == "" || p == "_" then [] else (p.splitOn "+").map parseCmd

def typOf (c : Char) : Nat := if c == 'a' then 0 else if c == 's' then 1 else 2

def parseDec (s : String) : Dec :=
  { typ := typOf (s.toList.headD 'a'), ev := (s.drop 1).toString.toInt?.getD 0 }

def parseDecTable (s : String) : List (Int × List Dec) :=
  if s == "" || s == "-" then [] else
  (s.splitOn "|").map fun part =>
    match part.splitOn ":" with
    | [k, v] => (k.toInt?.getD 0, (v.splitOn ",").map parseDec)
    | _ => (0, [])

def parseUltAsk (s : String) : UltAsk :=
  let ds := s.toList.takeWhile Char.isDigit
  let rest := s.toList.drop ds.length
  { target := (String.ofList ds).toInt?.getD 0,
    typ := (let c := rest.headD 'u'; if c == 'u' then 0 else if c == 'v' then 1 else if c == 'w' then 2 else 3),
    ev := (String.ofList (rest.drop 1)).toInt?.getD 0 }

def parseUlts (s : String) : List (List UltAsk) :=
  if s == "" || s == "-" then [] else
  (s.splitOn "|").map fun part => if part == "_" then [] else (part.splitOn "+").map parseUltAsk

def kinds : List Kind :=
  [ { attackT := 3, skillT := 3, ultT := 3, spNeed := 1, spAdd := 1 },
    { attackT := 3, skillT := 2, ultT := 2, spNeed := 1, spAdd := 1 },
    { attackT := 3, skillT := 1, ultT := 1, spNeed := 2, spAdd := 1 },
    { attackT := 3, skillT := 3, ultT := 3, spNeed := 0, spAdd := 2 },
    { attackT := 3, skillT := 3, ultT := 3, spNeed := 1, spAdd := 1, multi := true },
    -- a custom `Skill.CanUse` is a further condition on top of the cost: one that always allows changes nothing,
    -- one that never allows is a cost no team can pay (skill points never exceed 5)
    { attackT := 3, skillT := 3, ultT := 3, spNeed := 1, spAdd := 1 },
    { attackT := 3, skillT := 3, ultT := 3, spNeed := 1000, spAdd := 1 },
    -- kits whose skill and ultimate are aimed at different sides
    { attackT := 3, skillT := 1, ultT := 3, spNeed := 1, spAdd := 1 },
    { attackT := 3, skillT := 3, ultT := 2, spNeed := 1, spAdd := 1 } ]

def cyc {β} [Inhabited β] (l : List β) (i : Nat) : β := if l.isEmpty then default else l.getD (i % l.length) default

def cfgOf (r : Rec) : Cfg :=
  let ck := r.ints "ckind"
  let nc := ck.length
  let ne := (r.list "ehp").length
  let progs := parseProgs (r.str "progs")
  let next := parseDecTable (r.str "next")
  let dflt := parseDecTable (r.str "dflt")
  let ults := parseUlts (r.str "ults")
  let byChar (l : List Int) (id : Int) : Nat := (l.getD (id - 1).toNat 0).toNat
  { nchars := nc, nenemies := ne, cycles := r.int "cycles",
    kind := fun id => kinds.getD (ck.getD (id - 1).toNat 0).toNat default,
    progs := fun p => progs.getD p [],
    attackP := byChar (r.ints "cattack"), skillP := byChar (r.ints "cskill"), ultP := byChar (r.ints "cult"),
    actionP := fun id => ((r.ints "eaction").getD (id - 1 - nc).toNat 0).toNat,
    start := if r.int "start" < 0 then none else some (r.nat "start"),
    next := fun id k => match next.find? (·.1 == id) with
      | some (_, l) => if l.isEmpty then {} else cyc l k
      | none => {},
    dflt := fun id => match dflt.find? (·.1 == id) with
      | some (_, d :: _) => d
      | _ => {},
    ults := fun k => if ults.isEmpty then [] else cyc ults k }

def initOf (cfg : Cfg) (obs : List Rec) : S Float :=
  let bs := (obs.find? (·.name == "BattleStart")).getD (Rec.mk' "BattleStart")
  let ids := bs.ints "ids"
  let spd := bs.flts "spd"; let mhp := bs.flts "maxhp"; let en := bs.flts "energy"; let men := bs.flts "maxenergy"
  let units : List (U Float) := ids.zipIdx.map fun (id, i) =>
    { id := id, maxHP := mhp.getD i 1, ratio := 1, lastAtk := id, energy := en.getD i 0, maxEnergy := men.getD i 0 }
  let hits := (obs.filter (·.name == "HitEnd")).map fun r => (r.flt "total", r.flt "ratio")
  let marks := (obs.filter (·.name == "mark")).map fun r => r.flt "r"
  let picks := (obs.filter (·.name == "pick")).map fun r => r.int "t"
  let spdF (id : Int) : Float := match ids.findIdx? (· == id) with | some i => spd.getD i 100 | none => 100
  let _ := cfg
  { units := units, chars := [], enemies := [],
    turn := { spd := spdF, cost := 1, totalAV := 0 },
    hitO := fun n => hits.getD n (0, 0), markO := fun n => marks.getD n 0, pickO := fun n => picks.getD n 0,
    dealt := 0, taken := 0, seriesD := [0], seriesT := [0] }

def orderStr (l : List (Int × Int)) : String :=
  if l.isEmpty then "-" else "|".intercalate (l.map fun (i, g) => s!"{i}:{g}")

def keyStr (k : Nat) : String := if k == reviveKey then "verif-revive" else s!"verif-insert-{k}"

def evRec (bs : Rec) : Ev Float → Rec
  | .initialize => Rec.mk' "Initialize"
  | .charsAdded ids => (Rec.mk' "CharactersAdded").addIs "ids" ids
  | .enemiesAdded ids => (Rec.mk' "EnemiesAdded").addIs "ids" ids
  | .targetsAdded ids o => (Rec.mk' "TurnTargetsAdded").addIs "ids" ids |>.addS "order" (orderStr o)
  | .battleStart => bs
  | .turnStart a d t o => (Rec.mk' "TurnStart").addI "active" a |>.addF "delta" d |>.addF "total" t |>.addS "order" (orderStr o)
  | .phase1Start => Rec.mk' "Phase1Start"
  | .phase1End => Rec.mk' "Phase1End"
  | .phase2Start => Rec.mk' "Phase2Start"
  | .phase2End => Rec.mk' "Phase2End"
  | .turnEnd => Rec.mk' "TurnEnd"
  | .turnReset id c o => (Rec.mk' "TurnReset").addI "t" id |>.addF "cost" c |>.addS "order" (orderStr o)
  | .gauge id o n ord => (Rec.mk' "GaugeChange").addI "t" id |>.addI "old" o |>.addI "new" n |>.addS "order" (orderStr ord)
  | .termination r t => (Rec.mk' "Termination").addI "reason" r |>.addF "total" t
  | .actionStart o ty i => (Rec.mk' "ActionStart").addI "owner" o |>.addI "type" ty |>.addB "insert" i
  | .actionEnd o ty i => (Rec.mk' "ActionEnd").addI "owner" o |>.addI "type" ty |>.addB "insert" i
  | .insertStart o k p => (Rec.mk' "InsertStart").addI "owner" o |>.addS "key" (keyStr k) |>.addI "prio" p
  | .insertEnd o k p => (Rec.mk' "InsertEnd").addI "owner" o |>.addS "key" (keyStr k) |>.addI "prio" p
  | .attackStart a ty => (Rec.mk' "AttackStart").addI "a" a |>.addI "type" ty
  | .attackEnd a ty => (Rec.mk' "AttackEnd").addI "a" a |>.addI "type" ty
  | .hitStart a d => (Rec.mk' "HitStart").addI "a" a |>.addI "d" d
  | .hitEnd a d t r => (Rec.mk' "HitEnd").addI "a" a |>.addI "d" d |>.addF "total" t |>.addF "ratio" r
  | .healStart s t => (Rec.mk' "HealStart").addI "src" s |>.addI "t" t
  | .healEnd s t => (Rec.mk' "HealEnd").addI "src" s |>.addI "t" t
  | .hpChange t o n d => (Rec.mk' "HPChange").addI "t" t |>.addF "old" o |>.addF "new" n |>.addB "dmg" d
  | .limbo t c => (Rec.mk' "LimboWaitHeal").addI "t" t |>.addB "c" c
  | .death t k => (Rec.mk' "TargetDeath").addI "t" t |>.addI "killer" k
  | .sp o n => (Rec.mk' "SPChange").addI "old" o |>.addI "new" n
  | .energy t o n => (Rec.mk' "EnergyChange").addI "t" t |>.addF "old" o |>.addF "new" n
  | .pick t => (Rec.mk' "pick").addI "t" t
  | .mark t r => (Rec.mk' "mark").addI "t" t |>.addF "r" r

def turnFuel : Nat := 3000
def queueFuel : Nat := 3000

/-- the model's observations for a `run` operation -/
def runModel (op : Rec) (obs : List Rec) : List Rec × List String :=
  let cfg := cfgOf op
  let s := Sim.run cfg turnFuel queueFuel (initOf cfg obs)
  let bs := (obs.find? (·.name == "BattleStart")).getD (Rec.mk' "BattleStart")
  let evs := s.evs.reverse.map (evRec bs)
  let final : Rec :=
    match s.err with
    | some _ =>
      let msg := match obs.find? (·.name == "runerr") with | some r => r.str "msg" | none => "?"
      (Rec.mk' "runerr").addS "msg" msg
    | none =>
      (Rec.mk' "result").addF "dealt" s.dealt |>.addF "taken" s.taken |>.addF "av" s.turn.totalAV
        |>.addFs "cd" s.seriesD |>.addFs "ct" s.seriesT
  let has (n : String) := evs.any (·.name == n)
  let reason := match s.evs.find? (fun e => match e with | .termination _ _ => true | _ => false) with
    | some (.termination r _) => [s!"end-{r}"] | _ => []
  let tags := reason ++ (if s.err.isSome then ["run-error"] else []) ++
    (["TargetDeath", "LimboWaitHeal", "InsertStart", "HealStart", "GaugeChange", "EnergyChange", "SPChange"].filter has) ++
    (if evs.any (fun r => r.name == "ActionStart" && r.int "type" == 3) then ["ult"] else []) ++
    (if evs.any (fun r => r.name == "ActionStart" && r.int "type" == 2) then ["skill"] else []) ++
    (if evs.any (fun r => r.name == "ActionStart" && r.bool "insert" && r.int "type" != 3) then ["inserted-action"] else [])
  (evs ++ [final], tags)

def stepO (_ : Unit) (op : Rec) (obs : List Rec) : Unit × List Rec × List String :=
  if op.name != "run" then ((), [Rec.mk' "badop"], [])
  else if obs.any (·.name == "hang") then ((), [Rec.mk' "the-model-run-terminates"], ["hang"])
  else if obs.any (·.name == "capped") then ((), obs, ["capped"])
  else
    let (m, tags) := runModel op obs
    ((), m, tags)

end SimAdapter
