import Srsim.Driver
import Srsim.Model.Gcs.Lex
/-! Wire adapter for the gcs lexer / parser models. -/
namespace GcsAdapter
open Gcs.Lex

def parseRunes (r : Rec) : List Rn :=
  (r.list "runes").filterMap fun t => match t.splitOn "." with
    | [c, w, l, d] => match c.toNat?, w.toNat? with
      | some c, some w => some ⟨c, w, l == "1", d == "1"⟩
      | _, _ => none
    | _ => none

def tokRec (t : Tok) : Rec :=
  (Rec.mk' "tok").addI "typ" t.typ |>.addI "pos" t.pos |>.addI "len" t.len |>.addI "line" t.line

def lexStep (s : Unit) (r : Rec) : Unit × List Rec × List String :=
  let input := parseRunes r
  match lexAll input with
  | none => (s, [Rec.mk' "nofuel"], [])
  | some (toks, steps) =>
    let tags := (toks.map fun t => s!"t{t.typ}").eraseDups
    (s, toks.map tokRec, ("lex" :: (if input.any (fun x => x.w > 1) then ["multibyte"] else []) ++
        (if steps > input.length then ["steps>n"] else [])) ++ tags)

/-- C13 (lexer part) on an implementation trace: no crash / hang, the tokens tile the input in
order, the stream ends with exactly one EOF or error token -/
def lexProp (trace : List (Rec × List Rec)) : Option String := Id.run do
  for (op, obs) in trace do
    if obs.any (·.name == "crash") then return some "crash: the lexer killed the process"
    if obs.any (·.name == "hang") then return some "hang: the lexer did not terminate within the deadline"
    let total := totalBytes (parseRunes op)
    let toks := obs.filter (·.name == "tok")
    let mut at_ : Int := 0
    for t in toks do
      if t.int "pos" < at_ then return some "tokens overlap or go backwards"
      if t.int "pos" + t.int "len" > total then return some "token extends beyond the input"
      at_ := t.int "pos" + t.int "len"
    match toks.getLast? with
    | none => return some "no token emitted"
    | some l => if !(l.int "typ" == 1 || l.int "typ" == 0) then return some "token stream does not end with EOF or an error"
    if (toks.filter fun t => t.int "typ" == 1 || t.int "typ" == 0).length != 1 then
      return some "EOF / error emitted more than once"
  return none

end GcsAdapter
