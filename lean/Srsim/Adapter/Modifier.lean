import Srsim.Driver
import Srsim.Model.Modifier
/-! Wire adapter for the modifier-manager model. -/
namespace ModAdapter
open Modifier

structure DSt where
  cat : Catalog Float := []
  st : St Float := {}

def parseAct (t : String) : Option (Act Float) :=
  match t.splitOn ":" with
  | ["A", n, a, b] => some (.add n.toNat! a.toInt! b.toInt!)
  | ["R", n] => some (.remove n.toNat!)
  | ["S"] => some .removeSelf
  | ["D", n, a] => some (.extDur n.toNat! a.toInt!)
  | ["C", n, a] => some (.extCnt n.toNat! a.toInt!)
  | ["P", p, x] => (Wire.parseF x).map fun f => .addProp p.toNat! f
  | _ => none

def parseScript (s : String) : List (Act Float) :=
  if s == "-" || s == "" then [] else (s.splitOn ";").filterMap parseAct

def parseStats (s : String) : List (Nat × Float) :=
  if s == "-" || s == "" then [] else
  (s.splitOn "|").filterMap fun t => match t.splitOn ":" with
    | [k, v] => match k.toNat?, Wire.parseF v with
      | some k, some v => some (k, v)
      | _, _ => none
    | _ => none

def parseWeak (s : String) : List (Nat × Bool) :=
  if s == "-" || s == "" then [] else
  (s.splitOn "|").filterMap fun t => match t.splitOn ":" with
    | [k, v] => k.toNat?.map fun k => (k, v == "1")
    | _ => none

def weakStr (l : List (Nat × Bool)) : String :=
  if l.isEmpty then "-" else "|".intercalate ((l.mergeSort fun a b => a.1 ≤ b.1).map fun kv => s!"{kv.1}:{if kv.2 then 1 else 0}")

/-- the units' own weaknesses as the harness registers them -/
def baseWeak (t : Int) : List (Nat × Bool) :=
  if t == 1 then [(2, true), (3, false)] else if t == 2 then [(6, false)] else []

def cfgOfRec (r : Rec) : Cfg Float :=
  { stacking := r.nat "stacking", tick := r.nat "tick", dur := r.int "dur", count := r.int "count", maxCount := r.int "max",
    countAdd := r.int "cadd", status := r.nat "status", canDispel := r.bool "dispel",
    onAdd := parseScript (r.str "OnAdd"), onRemove := parseScript (r.str "OnRemove"), onDispel := parseScript (r.str "OnDispel"),
    onExtDur := parseScript (r.str "OnExtendDuration"), onExtCnt := parseScript (r.str "OnExtendCount"),
    flags := (r.ints "flags").map Int.toNat,
    onPropChange := parseScript (r.str "OnPropertyChange"), onPhase1 := parseScript (r.str "OnPhase1"),
    onPhase2 := parseScript (r.str "OnPhase2") }

def opOfRec (r : Rec) : Option (Op Float) :=
  let t := r.int "t"
  match r.name with
  | "addmod" => some (.add t { name := r.nat "name", source := r.int "src", dur := r.int "dur", count := r.int "count",
                               maxCount := r.int "max", countAdd := r.int "cadd", tickImm := r.bool "imm",
                               stats := parseStats (r.str "stats"), weak := parseWeak (r.str "weak"),
                               dres := parseStats (r.str "dres"),
                               chance := if r.has "chance" then [r.flt "chance"] else [] })
  | "rm" => some (.remove t (r.nat "name"))
  | "rmsrc" => some (.removeFromSource t (r.int "src") (r.nat "name"))
  | "rmself" => some (.removeSelf t (r.nat "uid"))
  | "extdur" => some (.extDur t (r.nat "name") (r.int "n"))
  | "extcnt" => some (.extCnt t (r.nat "name") (r.int "n"))
  | "dispel" => some (.dispel t (r.nat "status") (r.nat "order") (r.int "count"))
  | "tick" => some (.tick t (r.nat "phase"))
  | "instprop" => some (.instAddProp t (r.nat "uid") (r.nat "p") (r.flt "x"))
  | "instset" => some (.instSetProp t (r.nat "uid") (r.nat "p") (r.flt "x"))
  | "instweak" => some (.instWeak t (r.nat "uid") (r.nat "d") (r.bool "on"))
  | "instdres" => some (.instDres t (r.nat "uid") (r.nat "f") (r.flt "x"))
  | _ => none

def sortStats (l : List (Nat × Float)) : List (Nat × Float) :=
  (l.filter fun q => q.2 != 0).mergeSort fun a b => a.1 ≤ b.1

/-- `ToModel` copies the instance's properties with `AddAll` into a fresh map: the multiplicative
properties pass through `1 - (1-0)(1-v)` on the way -/
def shown (q : Nat × Float) : Float := if q.1 == 90 || q.1 == 91 then 1 - (1 - 0) * (1 - q.2) else 0 + q.2

def statsStr (l : List (Nat × Float)) : String :=
  "|".intercalate ((sortStats l).map fun q => s!"{q.1}:{Wire.fstr (shown q)}")

/-- the instance's own entries as stored (zero-valued ones included), by property -/
def rawStatsStr (l : List (Nat × Float)) : String :=
  "|".intercalate ((l.mergeSort fun a b => a.1 ≤ b.1).map fun q => s!"{q.1}:{Wire.fstr q.2}")

def instInto (r : Rec) (i : Inst Float) : Rec :=
  r.addI "name" i.name |>.addI "src" i.source |>.addI "dur" i.dur |>.addI "count" i.count |>.addI "max" i.maxCount
    |>.addI "cadd" i.countAdd |>.addS "stats" (statsStr i.stats)

def evRec : Ev Float → Rec
  | .added t i => instInto ((Rec.mk' "Added").addI "t" t) i
  | .removed t i => instInto ((Rec.mk' "Removed").addI "t" t) i
  | .dispelled t i => instInto ((Rec.mk' "Dispelled").addI "t" t) i
  | .extDur t i o n => (instInto ((Rec.mk' "ExtDur").addI "t" t) i).addI "old" o |>.addI "new" n
  | .extCnt t i o n => (instInto ((Rec.mk' "ExtCnt").addI "t" t) i).addI "old" o |>.addI "new" n
  | .hook k t u => (Rec.mk' "hook").addS "kind" k |>.addI "t" t |>.addI "uid" u
  | .err k => (Rec.mk' "err").addS "kind" k
  | .ret ok => (Rec.mk' "ret").addB "ok" ok
  | .resisted t src name c b ehr eres dres => (Rec.mk' "Resisted").addI "t" t |>.addI "src" src |>.addI "name" name
      |>.addF "chance" c |>.addF "base" b |>.addF "ehr" ehr |>.addF "eres" eres |>.addF "dres" dres
  | .applied c => (Rec.mk' "applied").addF "chance" c

/-- base stats the harness registers for unit `t` -/
def baseOf (t : Int) : List (Nat × Float) :=
  [(5, 1000), (6, 0.1 * Float.ofInt t), (90, 0.1), (13, 100)]

/-- `Stats.SPD`: base × (1 + percent) + (flat + converted), not below zero -/
def spdOf (base : List (Nat × Float)) (l : List (Inst Float)) : Float :=
  let v := propTotal base l 13 * (1 + propTotal base l 14) + (propTotal base l 15 + propTotal base l 16)
  if v < 0 then 0 else v

/-- the units' own resistances as the harness registers them -/
def baseDres (t : Int) : List (Nat × Float) := if t == 2 then [(100, 0.5), (103, 0.25)] else []

/-- the harness's "has at least one of these flags" queries: every ordered pair of the query set, two triples, the empty query -/
def flagQuerySet : List Nat := [1, 100, 101, 102, 103]
def anyFlagQueries (has : List Nat → Bool) : List Int :=
  let b (x : Bool) : Int := if x then 1 else 0
  (flagQuerySet.flatMap fun x => (flagQuerySet.filter (· != x)).map fun y => b (has [x, y])) ++
    [b (has [102, 1, 103]), b (has [103, 102, 100]), b (has [])]

def listRec (cat : Catalog Float) (s : St Float) (t : Int) : Rec :=
  let l := s.targets t
  let joinI (f : Inst Float → Int) := l.map f
  let atkpct := propTotal (baseOf t) l 6
  let base := propTotal (baseOf t) l 5
  let out := base * (1 + atkpct) + (propTotal (baseOf t) l 7 + propTotal (baseOf t) l 8)
  (Rec.mk' "list").addI "t" t |>.addIs "uids" (joinI (Int.ofNat ·.uid)) |>.addIs "names" (joinI (Int.ofNat ·.name))
    |>.addIs "srcs" (joinI (·.source)) |>.addIs "durs" (joinI (·.dur)) |>.addIs "counts" (joinI (·.count))
    |>.addIs "maxs" (joinI (·.maxCount)) |>.addIs "renew" (joinI (Int.ofNat ·.renew))
    |>.addIs "cadds" (joinI (·.countAdd))
    |>.addS "imms" (",".intercalate (l.map fun i => if i.tickImm then "1" else "0"))
    |>.addS "p2" (",".intercalate (l.map fun i => if i.canTickP2 then "1" else "0"))
    |>.addS "stats" (";".intercalate (l.map fun i => if (rawStatsStr i.stats) == "" then "-" else rawStatsStr i.stats))
    |>.addF "atkpct" atkpct |>.addF "reduce" (propTotal (baseOf t) l 90)
    |>.addF "atk" (if out < 0 then 0 else out) |>.addF "spd" (spdOf (baseOf t) l) |>.addF "cc" (propTotal (baseOf t) l 17)
    |>.addS "weaks" (";".intercalate (l.map fun i => weakStr i.weak))
    |>.addIs "weak" (((List.range 8).filter fun d => d ≥ 1 && weakTo (baseWeak t) l d).map Int.ofNat)
    |>.addS "dress" (";".intercalate (l.map fun i => if statsStr i.dres == "" then "-" else statsStr i.dres))
    |>.addIs "scounts" ([0, 1, 2].map fun k => Int.ofNat (statusCount cat l k))
    |>.addIs "flags" (([1, 100, 101, 103].filter fun f => hasFlag cat l f).map Int.ofNat)
    |>.addFs "dres" ([100, 101, 103].map fun f => debuffRes (dresTotal (baseDres t) l) [f])
    |>.addIs "anyflag" (anyFlagQueries fun fs => fs.any (hasFlag cat l))
    |>.addIs "mgrflag" (anyFlagQueries fun fs => fs.any (hasFlag cat l))

/-- oracle input of the model: for a random dispel, which candidates the run's shuffle put first —
read off the implementation's attached list after the operation (the candidates that are gone) -/
def withShuffle (d : DSt) (op : Rec) (obs : List Rec) : DSt :=
  if op.name == "dispel" && op.nat "order" == 3 then
    let t := op.int "t"
    let l := d.st.targets t
    let cand := dispelCand d.cat l (op.nat "status")
    match obs.find? (fun r => r.name == "list" && r.int "t" == t) with
    | none => d
    | some lr =>
      let after := lr.ints "uids"
      let gone := (List.range cand.length).filter fun p =>
        match l[cand.getD p 0]? with
        | some i => !after.contains (Int.ofNat i.uid)
        | none => false
      { d with st := { d.st with shuffle := gone } }
  else d

def stepRec (d : DSt) (r : Rec) : DSt × List Rec × List String :=
  if r.name == "cat" then ({ d with cat := d.cat ++ [cfgOfRec r] }, [], [])
  else if r.name == "mutsnap" then (d, [1, 2, 3].map (listRec d.cat d.st ·), ["mutsnap"])
  -- the unit's HP is set (possibly to zero): neither its attached instances nor its stats depend on whether it lives
  else if r.name == "life" then (d, [1, 2, 3].map (listRec d.cat d.st ·), ["life"])
  else
  match opOfRec r with
  | none => (d, [Rec.mk' "badop"], [])
  | some op =>
    -- the resist roll's inputs: the scripted generator of this operation and the units' hit rate / resistances
    -- as the harness registers them (base stats; no harness modifier changes them)
    let dresOf : Int → List (Nat × Float) := baseDres
    let s0 : St Float := { d.st with trace := [], draws := r.flts "draws",
                                     ehr := [(1, 0.2 + 0.1)], eres := [(2, 0.2 + 0.1)], dres := dresOf }
    match exec d.cat 60 s0 op with
    | none => (d, [Rec.mk' "nofuel"], [])
    | some s' =>
      -- the boolean result of nested AddModifier calls (made by listeners) is not observable
      let n := s'.trace.length
      let evs := (s'.trace.zipIdx.filter fun (e, k) => match e with | .ret _ => k + 1 == n | _ => true).map (·.1)
      let tags := evs.filterMap fun
        | .hook k _ _ => some ("hook-" ++ k)
        | .removed .. => some "removed"
        | .dispelled .. => some "dispelled"
        | .extDur .. => some "extdur"
        | .extCnt .. => some "extcnt"
        | .added _ i => some s!"added-s{(cfgOf d.cat i.name).stacking}"
        | .err k => some ("e-" ++ k)
        | _ => none
      ({ d with st := s' }, evs.map evRec ++ [1, 2, 3].map (listRec d.cat s' ·), (r.name :: tags).eraseDups)

end ModAdapter
