import Srsim.Driver
import Srsim.Model.Dispatch
import Srsim.Spec.DispatchSpec
/-
Wire adapter and trace predicate for the dispatch component (listener.go).
-/
namespace Dispatch

def lnOfIdx (i : Nat) : Option Ln := Ln.all[i]?

def qualifiedOf (at_ : Int) : Bool := at_ != 4 && at_ != 5 && at_ != 9

def evtOfRec (r : Rec) : Option Evt :=
  let a := r.int "a"; let b := r.int "b"; let t := r.int "t"
  let q := qualifiedOf (r.int "at"); let s := r.bool "snap"
  match r.name with
  | "attackStart" => some (.attackStart a (r.ints "ts"))
  | "attackEnd" => some (.attackEnd a (r.ints "ts"))
  | "hitStart" => some (.hitStart a b q s)
  | "hitEnd" => some (.hitEnd a b q s)
  | "healStart" => some (.healStart a b s)
  | "healEnd" => some (.healEnd a b s)
  | "hpChange" => some (.hpChange t)
  | "limbo" => some (.limbo t)
  | "death" => some (.death a b)
  | "energy" => some (.energy t)
  | "stance" => some (.stance t)
  | "stanceBreak" => some (.stanceBreak a b)
  | "stanceReset" => some (.stanceReset t)
  | "breakExtend" => some (.breakExtend t)
  | "actionStart" => some (.actionStart t)
  | "actionEnd" => some (.actionEnd t)
  | "shieldAdded" => some (.shieldAdded t)
  | "shieldRemoved" => some (.shieldRemoved t)
  | _ => none

def instOfRec (r : Rec) (uid : Nat) : Inst :=
  { uid := uid, has := (r.ints "has").filterMap (fun i => lnOfIdx i.toNat), snap := r.bool "snap", cancel := r.bool "cancel" }

def callRec (c : Call) : Rec := (Rec.mk' "call").addI "uid" c.1 |>.addI "ln" c.2.idx

def outRecs (e : Evt) (res : List Call × Bool) : List Rec :=
  res.1.map callRec ++ (if e.isLimbo then [(Rec.mk' "ret").addB "c" res.2] else [])

/-- state update shared by the model run and the predicate (attach / detach are C05's business;
here they only maintain the attached lists in attachment order) -/
def upd (s : St) (r : Rec) : St :=
  match r.name with
  | "attach" => attach s (r.int "t") (r.nat "shape") (instOfRec r)
  | "detach" => detach s (r.int "t") (r.nat "shape")
  | _ => s

def tagsOf (s : St) (e : Evt) (res : List Call × Bool) : List String :=
  let nm := match e with
    | .attackStart .. => "attackStart" | .attackEnd .. => "attackEnd" | .hitStart .. => "hitStart" | .hitEnd .. => "hitEnd"
    | .healStart .. => "healStart" | .healEnd .. => "healEnd" | .hpChange .. => "hpChange" | .limbo .. => "limbo"
    | .death .. => "death" | .energy .. => "energy" | .stance .. => "stance" | .stanceBreak .. => "stanceBreak"
    | .stanceReset .. => "stanceReset" | .breakExtend .. => "breakExtend" | .actionStart .. => "actionStart"
    | .actionEnd .. => "actionEnd" | .shieldAdded .. => "shieldAdded" | .shieldRemoved .. => "shieldRemoved"
  let self := match e with
    | .hitStart a d .. | .hitEnd a d .. | .healStart a d _ | .healEnd a d _ | .death a d | .stanceBreak a d => a == d
    | .attackStart a ts | .attackEnd a ts => ts.contains a
    | _ => false
  let skipped := (groups e).any fun g => (s.mods g.unit).any fun m => !admitted e.snapshot g m
  [nm, s!"calls{min res.1.length 4}"] ++ (if self then ["same-unit-two-roles"] else [])
    ++ (if e.snapshot then ["snapshot"] else []) ++ (if skipped then ["snapshot-skips"] else [])
    ++ (if res.2 then ["cancelled"] else [])

def comp : Component St where
  init := {}
  step s r :=
    match evtOfRec r with
    | some e =>
      let res := dispatch s.mods e
      (s, outRecs e res, tagsOf s e res)
    | none =>
      if r.name == "attach" || r.name == "detach" then (upd s r, [], [r.name]) else (s, [Rec.mk' "badop"], [])
  prop := fun trace => Id.run do
    let mut s : St := {}
    let mut i := 0
    for (op, obs) in trace do
      if obs.any (·.name == "panic") then return some s!"op#{i}: panic"
      match evtOfRec op with
      | none => s := upd s op
      | some e =>
        let want := specCalls s.mods e
        let got : List (Int × Int) := (obs.filter (·.name == "call")).map fun r => (r.int "uid", r.int "ln")
        let wantP : List (Int × Int) := want.1.map fun c => ((c.1 : Int), (c.2.idx : Int))
        for c in wantP do
          if got.count c < wantP.count c then
            return some s!"op#{i} {op.name}: listener slot {c.2} of instance {c.1} is entitled to the event but was called {got.count c} time(s), documented {wantP.count c}"
        for c in got do
          if got.count c > wantP.count c then
            return some s!"op#{i} {op.name}: listener slot {c.2} of instance {c.1} was called {got.count c} time(s), documented {wantP.count c}"
        if got != wantP then return some s!"op#{i} {op.name}: calls are the documented ones but not in role/attachment order"
        if e.isLimbo then
          let c := (obs.find? (·.name == "ret")).map (·.bool "c")
          if c != some want.2 then return some s!"op#{i} limbo: cancellation reported {c}, documented {want.2}"
      i := i + 1
    return none

end Dispatch
