/-
Line protocol shared by the Go harness and the Lean drivers.

  case <id>
  op <name> k=v k=v ...
  ob <name> k=v k=v ...      -- implementation observations caused by the preceding op
  end

Values are opaque strings without blanks; floats travel as `x` + 16 hex digits (raw
IEEE bits), integers in decimal, lists comma separated.
-/

structure Rec where
  name : String
  kv   : List (String × String)
deriving Repr, BEq, Inhabited

namespace Wire

def hexDigit (n : Nat) : Char :=
  if n < 10 then Char.ofNat (48 + n) else Char.ofNat (87 + n)

def hex16 (u : UInt64) : String :=
  let n := u.toNat
  String.ofList ((List.range 16).map fun i => hexDigit ((n >>> (4 * (15 - i))) % 16))

def hexVal (c : Char) : Option Nat :=
  if '0' ≤ c ∧ c ≤ '9' then some (c.toNat - 48)
  else if 'a' ≤ c ∧ c ≤ 'f' then some (c.toNat - 87)
  else none

def parseHex (s : String) : Option Nat :=
  s.toList.foldl (fun acc c => match acc, hexVal c with
    | some a, some d => some (a * 16 + d)
    | _, _ => none) (some 0)

/-- canonical rendering of a float: NaNs collapse to one token -/
def fstr (x : Float) : String :=
  if x.isNaN then "xNaN" else "x" ++ hex16 x.toBits

def parseF (s : String) : Option Float :=
  if s == "xNaN" then some (0.0 / 0.0)
  else if s.startsWith "x" then (parseHex (s.drop 1).toString).map fun n => Float.ofBits n.toUInt64
  else none

def istr (i : Int) : String := toString i

def parseLine (l : String) : Option (String × Rec) :=
  match (l.splitOn " ").filter (· ≠ "") with
  | [] => none
  | [k] => some (k, ⟨"", []⟩)
  | k :: n :: rest =>
    let kv := rest.map fun t => match t.splitOn "=" with
      | [a] => (a, "")
      | a :: bs => (a, "=".intercalate bs)
      | [] => ("", "")
    some (k, ⟨n, kv⟩)

def Rec.render (r : Rec) : String :=
  r.kv.foldl (fun acc (k, v) => acc ++ " " ++ k ++ "=" ++ v) r.name

end Wire

namespace Rec
def get? (r : Rec) (k : String) : Option String := (r.kv.find? (·.1 == k)).map (·.2)
def str (r : Rec) (k : String) : String := (r.get? k).getD ""
def int? (r : Rec) (k : String) : Option Int := (r.get? k).bind String.toInt?
def int (r : Rec) (k : String) : Int := (r.int? k).getD 0
def nat (r : Rec) (k : String) : Nat := (r.int k).toNat
def flt? (r : Rec) (k : String) : Option Float := (r.get? k).bind Wire.parseF
def flt (r : Rec) (k : String) : Float := (r.flt? k).getD 0.0
def bool (r : Rec) (k : String) : Bool := r.str k == "1" || r.str k == "true"
def list (r : Rec) (k : String) : List String :=
  match r.get? k with
  | none => []
  | some "" => []
  | some s => s.splitOn ","
def ints (r : Rec) (k : String) : List Int := (r.list k).filterMap String.toInt?
def flts (r : Rec) (k : String) : List Float := (r.list k).filterMap Wire.parseF
def has (r : Rec) (k : String) : Bool := (r.get? k).isSome
end Rec

/-- builder helpers for model observations -/
def Rec.mk' (name : String) : Rec := ⟨name, []⟩
def Rec.addS (r : Rec) (k v : String) : Rec := { r with kv := r.kv ++ [(k, v)] }
def Rec.addI (r : Rec) (k : String) (v : Int) : Rec := r.addS k (toString v)
def Rec.addF (r : Rec) (k : String) (v : Float) : Rec := r.addS k (Wire.fstr v)
def Rec.addB (r : Rec) (k : String) (v : Bool) : Rec := r.addS k (if v then "1" else "0")
def Rec.addIs (r : Rec) (k : String) (v : List Int) : Rec := r.addS k (",".intercalate (v.map toString))
def Rec.addFs (r : Rec) (k : String) (v : List Float) : Rec := r.addS k (",".intercalate (v.map Wire.fstr))

namespace Wire

def closeF (x y : Float) : Bool :=
  x == y || (x.isNaN && y.isNaN) || (x - y).abs ≤ 1e-9 * (x.abs + y.abs) || (x - y).abs ≤ 1e-12

def tolVal (a b : String) : Bool :=
  if a == b then true
  else
    let la := a.splitOn ","; let lb := b.splitOn ","
    la.length == lb.length && (la.zip lb).all fun (x, y) =>
      x == y || (match parseF x, parseF y with
        | some fx, some fy => closeF fx fy
        | _, _ => false)

/-- equality of two records up to float rounding (relative 1e-9) -/
def tolEq (a b : Rec) : Bool :=
  a.name == b.name && a.kv.length == b.kv.length &&
    (a.kv.zip b.kv).all fun (x, y) => x.1 == y.1 && tolVal x.2 y.2

def tolEqList (a b : List Rec) : Bool :=
  a.length == b.length && (a.zip b).all fun (x, y) => tolEq x y

end Wire
