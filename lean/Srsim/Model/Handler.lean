/-
Model of `pkg/engine/event/handler` (simple.go, priority.go, mutable.go, cancel.go) and of the
logging hook (`logging.Log` after the listeners have run).

Listeners are scripts.  Every invocation first records a `call`; then the script's actions run:
`mut k` adds k to the payload (meaningful for mutable handlers, where later listeners see it),
`emit h x` emits to another handler from inside the listener, `cancel` makes a cancelable
listener return true.  `sort.Sort` is not stable: the order among equal priorities is an
arbitrary choice of the runtime, represented by the `ord` operation (any admissible order).
Nested emissions are bounded by fuel: `none` means "did not terminate within the fuel".
-/
namespace Handler

inductive Act
  | mutate (k : Int)
  | cancel
  | emit (h : Nat) (x : Int)
  /-- emit on `h` with the current payload minus one, but only while the payload is positive
  (a listener that re-enters its own handler, with a bound) -/
  | emitDec (h : Nat)
deriving Repr, DecidableEq, Inhabited

structure L where
  lid : Nat
  prio : Int
  script : List Act
deriving Repr, Inhabited, DecidableEq

/-- kinds: 0 plain (subscription order), 1 priority, 2 mutable, 3 cancelable -/
structure H where
  kind : Nat
  ls : List L := []
deriving Repr, Inhabited

abbrev Table := List H

inductive Out
  | call (depth h lid : Nat) (payload : Int)      -- depth: nesting level of the emission
  | log (depth h : Nat) (payload : Int) (cancelled : Bool)
  | ret (h : Nat) (cancelled : Bool)        -- value reported to a top-level emitter
  | badOrder
deriving Repr, DecidableEq, Inhabited

/-- result of running something that may emit: outputs, payload afterwards, cancelled? -/
abbrev R := Option (List Out × Int × Bool)

/-- run one listener's script; `nested h x` performs an emission from inside the listener -/
def runScript (nested : Nat → Int → Option (List Out × Bool)) (kind : Nat) :
    List Act → Int → R
  | [], x => some ([], x, false)
  | .mutate k :: rest, x =>
    runScript nested kind rest (if kind == 2 then x + k else x)
  | .cancel :: rest, x =>
    if kind == 3 then some ([], x, true) else runScript nested kind rest x
  | .emit h y :: rest, x =>
    match nested h y with
    | none => none
    | some (o, _) =>
      match runScript nested kind rest x with
      | none => none
      | some (o', x', c) => some (o ++ o', x', c)
  | .emitDec h :: rest, x =>
    if x > 0 then
      match nested h (x - 1) with
      | none => none
      | some (o, _) =>
        match runScript nested kind rest x with
        | none => none
        | some (o', x', c) => some (o ++ o', x', c)
    else runScript nested kind rest x

/-- deliver to the listeners in list order; stop after the first one that cancels -/
def runListeners (nested : Nat → Int → Option (List Out × Bool)) (d h kind : Nat) :
    List L → Int → R
  | [], x => some ([], x, false)
  | l :: rest, x =>
    match runScript nested kind l.script x with
    | none => none
    | some (o, x', c) =>
      if c then some (Out.call d h l.lid x :: o, x', true)
      else
        match runListeners nested d h kind rest x' with
        | none => none
        | some (o', x'', c') => some (Out.call d h l.lid x :: o ++ o', x'', c')

/-- `Emit`: run the listeners, then log the (possibly mutated / cancelled) event once -/
def emit : Nat → Table → Nat → Nat → Int → Option (List Out × Bool)
  | 0, _, _, _, _ => none
  | f + 1, t, d, h, x =>
    match t[h]? with
    | none => some ([], false)
    | some hd =>
      match runListeners (emit f t (d + 1)) d h hd.kind hd.ls x with
      | none => none
      | some (o, x', c) => some (o ++ [Out.log d h x' c], c)

/-- insertion that keeps ascending priority, new listener after its equals (what insertion
sort does for short lists); plain handlers append -/
def insertL (kind : Nat) (ls : List L) (l : L) : List L :=
  if kind == 0 then ls ++ [l]
  else ls.filter (fun m => m.prio ≤ l.prio) ++ [l] ++ ls.filter (fun m => l.prio < m.prio)

def sortedByPrio : List L → Bool
  | [] => true
  | [_] => true
  | a :: b :: rest => decide (a.prio ≤ b.prio) && sortedByPrio (b :: rest)

/-- is `lids` an admissible execution order for the listeners `ls` of a handler of this kind? -/
def admissible (kind : Nat) (ls : List L) (lids : List Nat) : Option (List L) :=
  let picked := lids.filterMap fun i => ls.find? (·.lid == i)
  if picked.isPerm ls && picked.map (·.lid) == lids then
    if kind == 0 then (if picked.map (·.lid) == ls.map (·.lid) then some picked else none)
    else if sortedByPrio picked then some picked else none
  else none

inductive Op
  | mk (kind : Nat)                                   -- create the next handler
  | sub (h : Nat) (l : L)
  | ord (h : Nat) (lids : List Nat)                   -- the order the runtime chose
  | emit (h : Nat) (x : Int)

def setH (t : Table) (h : Nat) (hd : H) : Table := t.set h hd

/-- enough for emissions that go to later handlers or re-enter with a decreasing payload, up to the
nesting depth 64 at which the harness gives up; a top-level emission adds its payload -/
def fuelFor (t : Table) : Nat := t.length + 66

def step (t : Table) : Op → Table × List Out
  | .mk kind => (t ++ [{ kind := kind }], [])
  | .sub h l =>
    match t[h]? with
    | none => (t, [])
    | some hd => (setH t h { hd with ls := insertL hd.kind hd.ls l }, [])
  | .ord h lids =>
    match t[h]? with
    | none => (t, [])
    | some hd =>
      match admissible hd.kind hd.ls lids with
      | some ls' => (setH t h { hd with ls := ls' }, [])
      | none => (t, [Out.badOrder])
  | .emit h x =>
    if h < t.length then
      match emit (fuelFor t + x.toNat) t 0 h x with
      | none => (t, [])
      | some (o, c) => (t, o ++ [Out.ret h c])
    else (t, [])

end Handler
