import Srsim.Num
/-
Model of `pkg/engine/attribute` (modify.go, event.go, add.go, attribute.go getters).

One unit record per registered target; the stats the service reads through
`modifier.Eval` (max-HP components, energy regeneration, toughness-damage bonus) are
part of the unit record and are changed by the `props` operation, so "any stat change
between calls" is a quantification over operation lists.  The cancelable
`LimboWaitHeal` emission is modelled by the `revive` bit of the unit (a listener that
cancels while the bit is set).
-/

namespace Attr

inductive Life | alive | dead | limbo
deriving DecidableEq, Repr, Inhabited

structure Unit (α : Type) where
  id : Int
  hpRatio : α
  energy : α
  maxEnergy : α
  stance : α
  maxStance : α
  life : Life := .alive
  lastAttacker : Int
  hpBase : α
  hpPct : α
  hpFlat : α
  hpConv : α
  regen : α
  regenConv : α
  stancePct : α
  revive : Bool := false
deriving Inhabited

structure St (α : Type) where
  units : List (Unit α) := []
  sp : Int := 3
deriving Inhabited

inductive Op (α : Type)
  | add (u : Unit α)
  | props (id : Int) (hpBase hpPct hpFlat hpConv regen regenConv stancePct : α)
  | revive (id : Int) (on : Bool)
  | setHP (id src : Int) (amt : α) (dmg : Bool)
  | modHP (id src : Int) (amt : α) (dmg : Bool)
  | modHPRatio (id src : Int) (ratio : α) (typ : Nat) (floor : α) (dmg : Bool)
  | setEnergy (id src : Int) (amt : α)
  | modEnergy (id src : Int) (amt : α)
  | modEnergyFixed (id src : Int) (amt : α)
  | setStance (id src : Int) (amt : α)
  | modStance (id src : Int) (amt : α)
  | modSP (src : Int) (amt : Int)

inductive Ev (α : Type)
  | hpChange (t : Int) (oldR newR oldHP newHP : α) (dmg : Bool)
  | limbo (t : Int) (cancelled : Bool)
  | energyChange (t src : Int) (old new : α)
  | stanceChange (t src : Int) (old new : α)
  | stanceBreak (t src : Int)
  | stanceReset (t : Int)
  | spChange (src : Int) (old new : Int)
  | errUnknownTarget
  | errRatioType
  | errDuplicate

variable {α : Type} [Num α]

/-- `info.statCalc` -/
def statCalc (base pct flat : α) : α :=
  let out := base * (1 + pct) + flat
  if out < 0 then 0 else out

def Unit.maxHP (u : Unit α) : α := statCalc u.hpBase u.hpPct (u.hpFlat + u.hpConv)
def Unit.currentHP (u : Unit α) : α := u.hpRatio * u.maxHP
def Unit.energyRegen (u : Unit α) : α := u.regen + u.regenConv

def find? (s : St α) (id : Int) : Option (Unit α) := s.units.find? (·.id == id)

/-- toughness-damage bonus of the *source* of a stance modification (0 for unknown units) -/
def stancePctOf (s : St α) (id : Int) : α :=
  match find? s id with
  | some u => u.stancePct
  | none => 0

def setUnit (s : St α) (u : Unit α) : St α :=
  { s with units := s.units.map fun v => if v.id == u.id then u else v }

/-! Each helper is split into "the new unit record" and "the events emitted" so that the
state and the event list of a step are independent terms. -/

/-- `emitHPChangeEvents`, state part: the ratio is already written; when it changed the last
attacker (for damage) and the life state are updated; at zero the cancelable limbo emission
decides between `limbo` and `dead`. -/
def hpUnit (u : Unit α) (src : Int) (oldR newR : α) (dmg : Bool) : Unit α :=
  if Num.eqb oldR newR then { u with hpRatio := newR }
  else { u with hpRatio := newR, lastAttacker := if dmg then src else u.lastAttacker,
                life := if newR > 0 then .alive else if u.revive then .limbo else .dead }

/-- `emitHPChangeEvents`, event part: nothing when unchanged. -/
def hpEvents (u : Unit α) (oldR newR : α) (dmg : Bool) : List (Ev α) :=
  if Num.eqb oldR newR then []
  else .hpChange u.id oldR newR (u.maxHP * oldR) (u.maxHP * newR) dmg ::
        (if newR > 0 then [] else [.limbo u.id u.revive])

def emitHP (s : St α) (u : Unit α) (src : Int) (oldR newR : α) (dmg : Bool) : St α × List (Ev α) :=
  (setUnit s (hpUnit u src oldR newR dmg), hpEvents u oldR newR dmg)

def clamp01 (x : α) : α := if x > 1 then 1 else if x < 0 then 0 else x

def setHPU (s : St α) (u : Unit α) (src : Int) (amt : α) (dmg : Bool) : St α × List (Ev α) :=
  emitHP s u src u.hpRatio (clamp01 (amt / u.maxHP)) dmg

def clampTo (amt hi : α) : α := if amt > hi then hi else if amt < 0 then 0 else amt

def setEnergyU (s : St α) (u : Unit α) (src : Int) (amt : α) : St α × List (Ev α) :=
  (setUnit s { u with energy := clampTo amt u.maxEnergy },
   if Num.eqb u.energy (clampTo amt u.maxEnergy) then []
   else [.energyChange u.id src u.energy (clampTo amt u.maxEnergy)])

def setStanceU (s : St α) (u : Unit α) (src : Int) (amt : α) : St α × List (Ev α) :=
  (setUnit s (if Num.eqb u.stance (clampTo amt u.maxStance) then u
              else { u with stance := clampTo amt u.maxStance }),
   if Num.eqb u.stance (clampTo amt u.maxStance) then []
   else (if Num.eqb (clampTo amt u.maxStance) 0 then [.stanceBreak u.id src]
         else if Num.eqb u.stance 0 then [.stanceReset u.id] else [])
        ++ [.stanceChange u.id src u.stance (clampTo amt u.maxStance)])

def clampSP (n : Int) : Int := if n > 5 then 5 else if n < 0 then 0 else n

def step (s : St α) : Op α → St α × List (Ev α)
  | .add u =>
    match find? s u.id with
    | some _ => (s, [.errDuplicate])
    | none =>
      ({ s with units := s.units ++
          [{ u with energy := if u.energy > u.maxEnergy then u.maxEnergy else u.energy,
                    hpRatio := if u.hpRatio ≤ 0 then 1 else u.hpRatio,
                    life := .alive, lastAttacker := u.id }] }, [])
  | .props id a b c d e f g =>
    match find? s id with
    | none => (s, [])
    | some u => (setUnit s { u with hpBase := a, hpPct := b, hpFlat := c, hpConv := d,
                                    regen := e, regenConv := f, stancePct := g }, [])
  | .revive id on =>
    match find? s id with
    | none => (s, [])
    | some u => (setUnit s { u with revive := on }, [])
  | .setHP id src amt dmg =>
    match find? s id with
    | none => (s, [.errUnknownTarget])
    | some u => if u.life = .dead then (s, []) else setHPU s u src amt dmg
  | .modHP id src amt dmg =>
    match find? s id with
    | none => (s, [.errUnknownTarget])
    | some u =>
      if u.life = .dead then (s, [])
      else emitHP s u src u.hpRatio (clamp01 ((u.currentHP + amt) / u.maxHP)) dmg
  | .modHPRatio id src ratio typ floor dmg =>
    match find? s id with
    | none => (s, [.errUnknownTarget])
    | some u =>
      if u.life = .dead then (s, [])   -- the dead stay dead: HP changes are ignored
      else if typ == 2 then
        if (u.hpRatio + ratio * u.hpRatio) * u.maxHP < floor then setHPU s u src floor dmg
        else emitHP s u src u.hpRatio (clamp01 (u.hpRatio + ratio * u.hpRatio)) dmg
      else if typ == 1 then
        if (u.hpRatio + ratio) * u.maxHP < floor then setHPU s u src floor dmg
        else emitHP s u src u.hpRatio (clamp01 (u.hpRatio + ratio)) dmg
      else (s, [.errRatioType])
  | .setEnergy id src amt =>
    match find? s id with
    | none => (s, [.errUnknownTarget])
    | some u => setEnergyU s u src amt
  | .modEnergy id src amt =>
    match find? s id with
    | none => (s, [.errUnknownTarget])
    | some u => setEnergyU s u src (u.energy + amt * (1 + u.energyRegen))
  | .modEnergyFixed id src amt =>
    match find? s id with
    | none => (s, [.errUnknownTarget])
    | some u => setEnergyU s u src (u.energy + amt)
  | .setStance id src amt =>
    match find? s id with
    | none => (s, [.errUnknownTarget])
    | some u => setStanceU s u src amt
  | .modStance id src amt =>
    match find? s id with
    | none => (s, [.errUnknownTarget])
    | some u => setStanceU s u src (u.stance + amt * (1 + stancePctOf s src))
  | .modSP src amt =>
    ({ s with sp := clampSP (s.sp + amt) },
     if s.sp == clampSP (s.sp + amt) then [] else [.spChange src s.sp (clampSP (s.sp + amt))])

/-- run an operation list, concatenating the emitted events -/
def run (s : St α) : List (Op α) → St α × List (Ev α)
  | [] => (s, [])
  | op :: ops =>
    let (s1, e1) := step s op
    let (s2, e2) := run s1 ops
    (s2, e1 ++ e2)

end Attr
