/-
Model of `pkg/engine/queue` : the binary heap exactly as `container/heap` drives `minHeap`
(`Push` = append + sift-up, `Pop` = swap root with last, sift-down on the prefix, drop last),
with `Less` = lexicographic (priority, insertion id).
-/
namespace Queue

structure Task where
  prio : Int
  src : Int
  tag : Int
  id : Nat
deriving Repr, DecidableEq, Inhabited

/-- `minHeap.Less` -/
def less (a b : Task) : Bool := a.prio < b.prio || (a.prio == b.prio && a.id < b.id)

structure Q where
  heap : Array Task := #[]
  counter : Nat := 0
deriving Repr, Inhabited

/-- `heap.up` (fuel bounds the loop; `j` iterations suffice) -/
def up : Nat → Array Task → Nat → Array Task
  | 0, a, _ => a
  | f + 1, a, j =>
    let i := (j - 1) / 2
    if i == j then a
    else if h : i < a.size ∧ j < a.size then
      if less a[j] a[i] then up f (a.swapIfInBounds i j) i else a
    else a

/-- `heap.down` on the prefix of length `n` -/
def down : Nat → Array Task → Nat → Nat → Array Task
  | 0, a, _, _ => a
  | f + 1, a, i, n =>
    let j1 := 2 * i + 1
    if j1 ≥ n then a
    else
      let j := if j1 + 1 < n ∧ less (a.getD (j1 + 1) default) (a.getD j1 default) then j1 + 1 else j1
      if less (a.getD j default) (a.getD i default) then down f (a.swapIfInBounds i j) j n else a

def insert (q : Q) (prio src tag : Int) : Q :=
  let t : Task := ⟨prio, src, tag, q.counter⟩
  let a := q.heap.push t
  { heap := up a.size a (a.size - 1), counter := q.counter + 1 }

/-- `Pop`; on an empty heap the Go code panics (index out of range) -/
def pop (q : Q) : Option (Task × Q) :=
  if q.heap.size == 0 then none
  else
    let n := q.heap.size - 1
    let a := q.heap.swapIfInBounds 0 n
    let a := down a.size a 0 n
    some (a.getD n default, { q with heap := a.pop })

inductive Op
  | insert (prio src tag : Int)
  | pop
  | isEmpty

inductive Out
  | popped (tag : Int) (prio : Int) (src : Int)
  | empty (b : Bool)
  | crash
deriving DecidableEq, Repr

def step (q : Q) : Op → Q × List Out
  | .insert p s t => (insert q p s t, [])
  | .pop =>
    match pop q with
    | none => (q, [.crash])
    | some (t, q') => (q', [.popped t.tag t.prio t.src])
  | .isEmpty => (q, [.empty (q.heap.size == 0)])

end Queue
