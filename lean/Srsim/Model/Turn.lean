import Srsim.Num
/-
Model of `pkg/engine/turn` (turn.go, modify.go).

The order is a list of (unit id, gauge) with integer gauges; speeds are read through the
attribute service, modelled as the `spd` function of the state which the `spd` operation may
change at any time ("every speed change between operations").  `sort.Stable` by action value
(gauge / speed) is `List.mergeSort` (stable).  `int64(x)` is `Num.trunc`.
-/
namespace Turn

structure St (α : Type) where
  order : List (Int × Int) := []
  spd : Int → α
  cost : α
  activeTurn : Bool := false
  active : Int := 0
  totalAV : α

inductive Op (α : Type)
  | spd (id : Int) (v : α)
  | add (ids : List Int)
  | remove (id : Int)
  | start
  | reset
  | setGauge (id : Int) (amt : α)
  | modNorm (id : Int) (amt : α)
  | modAV (id : Int) (amt : α)
  | setCost (amt : α)
  | modCost (amt : α)

inductive Ev (α : Type)
  | added (ids : List Int) (status : List (Int × Int × α))
  | started (id : Int) (av : α) (status : List (Int × Int × α)) (total : α)
  | reset (id : Int) (cost : α) (status : List (Int × Int × α))
  | gauge (id : Int) (old new : Int) (status : List (Int × Int × α))
  | costChange (old new : α)
  | err (kind : String)

variable {α : Type} [Num α]

def baseGauge : Int := 10000

def ofI (i : Int) : α := Num.ofInt i

def av (s : St α) (t : Int × Int) : α := ofI t.2 / s.spd t.1

/-- `sort.Stable(orderHandler)`: ascending action value, ties keep their relative order -/
def sortOrder (s : St α) (l : List (Int × Int)) : List (Int × Int) :=
  l.mergeSort fun a b => !(decide (av s b < av s a))

def status (s : St α) : List (Int × Int × α) := s.order.map fun t => (t.1, t.2, av s t)

def gaugeOf (s : St α) (id : Int) : Option Int := (s.order.find? (·.1 == id)).map (·.2)

def setG (l : List (Int × Int)) (id : Int) (g : Int) : List (Int × Int) :=
  l.map fun t => if t.1 == id then (t.1, g) else t

/-- move the entry of `id` to position `start` (entries in between shift right by one) -/
def moveTo (l : List (Int × Int)) (id : Int) (start : Nat) : List (Int × Int) :=
  match l.find? (·.1 == id) with
  | none => l
  | some t =>
    let rest := l.filter (·.1 != id)
    rest.take start ++ [t] ++ rest.drop start

def indexOf (l : List (Int × Int)) (id : Int) : Nat := l.findIdx (·.1 == id)

def clamp0 (g : Int) : Int := if g < 0 then 0 else g

/-- order after `SetGauge`: the unit moves to the front (behind the acting unit while a turn is
open) and the list is re-sorted stably, so it ends ahead of units with the same action value -/
def setGaugeOrder (s : St α) (id : Int) (g : Int) : List (Int × Int) :=
  sortOrder s (moveTo (setG s.order id (clamp0 g)) id (if s.activeTurn && indexOf s.order id != 0 then 1 else 0))

/-- `SetGauge` with the gauge already converted to an integer -/
def setGaugeI (s : St α) (id : Int) (g : Int) : St α × List (Ev α) :=
  match gaugeOf s id with
  | none => (s, [.err "unknown_target"])
  | some prev =>
    if prev == clamp0 g then (s, [])
    else
      ({ s with order := setGaugeOrder s id g },
       [.gauge id prev (clamp0 g) (status { s with order := setGaugeOrder s id g })])

def setCostF (s : St α) (c : α) : St α × List (Ev α) :=
  ({ s with cost := c }, if Num.eqb s.cost c then [] else [.costChange s.cost c])

/-- gauges after a turn start: everybody loses `int64(av · speed)`, the acting unit ends at 0 -/
def advance (s : St α) (l : List (Int × Int)) (actor : Int) (a : α) : List (Int × Int) :=
  l.map fun t => if t.1 == actor then (t.1, 0) else (t.1, t.2 - Num.trunc (a * s.spd t.1))

def addOrder (s : St α) (ids : List Int) : List (Int × Int) :=
  sortOrder s (s.order ++ ids.map fun i => (i, baseGauge))

/-- order after `ResetTurn`: the acting unit gets `int64(BaseGauge · cost)`, goes to the back and
the list is re-sorted stably, so it ends behind units with the same action value -/
def resetOrder (s : St α) : List (Int × Int) :=
  sortOrder s (moveTo (setG s.order s.active (Num.trunc (ofI baseGauge * s.cost))) s.active s.order.length)

def step (s : St α) : Op α → St α × List (Ev α)
  | .spd id v => ({ s with spd := fun i => if i = id then v else s.spd i }, [])
  | .add ids =>
    ({ s with order := addOrder s ids }, [.added ids (status { s with order := addOrder s ids })])
  | .remove id =>
    if s.order.any (·.1 == id) then ({ s with order := s.order.eraseP (·.1 == id) }, [])
    else (s, [.err "unknown_target"])
  | .start =>
    if s.activeTurn then (s, [.err "active_turn"])
    else
      match sortOrder s s.order with
      | [] => (s, [.err "empty_order"])
      | hd :: tl =>
        ({ s with order := advance s (hd :: tl) hd.1 (av s hd), cost := 1, activeTurn := true, active := hd.1,
                  totalAV := s.totalAV + av s hd },
         [.started hd.1 (av s hd)
            (status { s with order := advance s (hd :: tl) hd.1 (av s hd) }) (s.totalAV + av s hd)])
  | .reset =>
    if !s.activeTurn then (s, [.err "no_active_turn"])
    else
      ({ s with activeTurn := false, order := resetOrder s },
       [.reset s.active s.cost (status { s with order := resetOrder s })])
  | .setGauge id amt => setGaugeI s id (Num.trunc amt)
  | .modNorm id amt =>
    match gaugeOf s id with
    | none => (s, [.err "unknown_target"])
    | some g => setGaugeI s id (Num.trunc (ofI g + amt * ofI baseGauge))
  | .modAV id amt =>
    match gaugeOf s id with
    | none => (s, [.err "unknown_target"])
    | some g => setGaugeI s id (Num.trunc (ofI g + s.spd id * amt))
  | .setCost amt => setCostF s amt
  | .modCost amt => setCostF s (s.cost + amt)

end Turn
