import Srsim.Model.Gcs.Lex
/-
Model of the gcs parser (`pkg/logic/gcs/parse/parse.go`, `parser.go`): a recursive-descent
statement parser around a Pratt expression parser, over the token list of `Gcs.Lex`.
Reading past the end of the token stream yields zero tokens (a closed channel).
Every function takes fuel; `Res.fuel` means "did not finish within the fuel".
-/
namespace Gcs.Parse
open Gcs.Lex

mutual
  inductive Expr
    | num (text : List Nat)
    | str (text : List Nat)
    | null
    | ident (text : List Nat)
    | call (f : Expr) (args : List Expr)
    | unary (op : Nat) (r : Expr)
    | binary (op : Nat) (l r : Expr)
    | map (arr : List Expr) (fields : List (List Nat × Expr))
    | funLit (args : List (List Nat)) (body : List Node)
  inductive Node
    | expr (e : Expr)
    | block (l : List Node)
    | letS (id : List Nat) (v : Expr)
    | assign (id : List Nat) (v : Expr)
    | ret (v : Expr)
    | ctrl (k : Nat)                                  -- 1 break, 2 continue, 3 fallthrough
    | ifS (c : Expr) (th : List Node) (el : Option Node)
    | switchS (c : Option Expr) (cases : List (Expr × List Node)) (dflt : Option (List Node))
    | fn (name : List Nat) (args : List (List Nat)) (body : List Node)
    | while (c : Expr) (body : List Node)
    | forS (init : Option Node) (cond : Option Expr) (post : Option Node) (body : List Node)
end

instance : Inhabited Expr := ⟨.null⟩
instance : Inhabited Node := ⟨.ctrl 0⟩

structure P where
  toks : Array Tok
  pos : Int := -1

inductive Res (α : Type)
  | ok (a : α) (p : P)
  | err
  | fuel

def zeroTok : Tok := ⟨0, 0, 0, 0, []⟩

def P.next (p : P) : Tok × P :=
  let q := { p with pos := p.pos + 1 }
  (if q.pos < q.toks.size then q.toks.getD q.pos.toNat zeroTok else zeroTok, q)

def P.backup (p : P) : P := { p with pos := if p.pos - 1 < -1 then -1 else p.pos - 1 }

def P.peek (p : P) : Tok := p.next.1

/-- precedence table; `Lowest` = 1 -/
def prec (t : TT) : Nat :=
  if t == tOr then 2 else if t == tAnd then 3 else if t == tEq || t == tNe then 4
  else if t == tLt || t == tGt || t == tLe || t == tGe then 5
  else if t == tPlus || t == tMinus then 6 else if t == tSlash || t == tAsterisk then 7
  else if t == tLParen then 9 else 1

def isBinaryOp (t : TT) : Bool :=
  t == tAnd || t == tOr || t == tPlus || t == tMinus || t == tSlash || t == tAsterisk || t == tEq || t == tNe ||
  t == tLt || t == tLe || t == tGt || t == tGe

def hasPrefix (t : TT) : Bool :=
  t == tIdent || t == tNumber || t == tBool || t == tString || t == tNull || t == kFn || t == tNot || t == tMinus ||
  t == tLParen || t == tLSq

/-- does the text of a number token parse (`strconv.ParseInt`, else `strconv.ParseFloat`)? -/
def numberOk (w : List Nat) : Bool :=
  let s := w.map Char.ofNat
  let s := match s with | '-' :: r => r | '+' :: r => r | _ => s
  let ip := s.takeWhile Char.isDigit
  let rest := s.dropWhile Char.isDigit
  match rest with
  | [] => !ip.isEmpty
  | '.' :: fr => fr.all Char.isDigit && !(ip.isEmpty && fr.isEmpty)
  | _ => false

mutual

/-- `parseExpr(pre)`: prefix rule, then infix rules while the next operator binds tighter -/
def parseExpr : Nat → P → Nat → Res Expr
  | 0, _, _ => .fuel
  | f + 1, p, pre =>
    let (t, _) := p.next
    if !hasPrefix t.typ then .err
    else
      match parsePrefix f p with
      | .ok left p1 => infixLoop f p1 pre left
      | .err => .err
      | .fuel => .fuel

def infixLoop : Nat → P → Nat → Expr → Res Expr
  | 0, _, _, _ => .fuel
  | f + 1, p, pre, left =>
    let n := p.peek
    if n.typ != tTerm && pre < prec n.typ then
      if isBinaryOp n.typ then
        let (op, p1) := p.next
        match parseExpr f p1 (prec op.typ) with
        | .ok r p2 => infixLoop f p2 pre (.binary op.typ left r)
        | .err => .err
        | .fuel => .fuel
      else if n.typ == tLParen then
        let (_, p1) := p.next
        match parseCallArgs f p1 with
        | .ok args p2 => infixLoop f p2 pre (.call left args)
        | .err => .err
        | .fuel => .fuel
      else .ok left p
    else .ok left p

def parsePrefix : Nat → P → Res Expr
  | 0, _ => .fuel
  | f + 1, p =>
    let (t, p1) := p.next
    if t.typ == tIdent then .ok (.ident t.text) p1
    else if t.typ == tNumber then (if numberOk t.text then .ok (.num t.text) p1 else .err)
    else if t.typ == tBool then
      .ok (.num (if t.text == "true".toList.map Char.toNat then [49] else [48])) p1
    else if t.typ == tString then .ok (.str t.text) p1
    else if t.typ == tNull then .ok .null p1
    else if t.typ == kFn then
      match parseFn f p false with
      | .ok (.fn _ args body) p2 => .ok (.funLit args body) p2
      | .ok _ _ => .err
      | .err => .err
      | .fuel => .fuel
    else if t.typ == tNot || t.typ == tMinus then
      match parseExpr f p1 8 with
      | .ok r p2 => .ok (.unary t.typ r) p2
      | .err => .err
      | .fuel => .fuel
    else if t.typ == tLParen then
      match parseExpr f p1 1 with
      | .ok e p2 => if p2.peek.typ == tRParen then .ok e p2.next.2 else .err
      | .err => .err
      | .fuel => .fuel
    else if t.typ == tLSq then
      if p1.peek.typ == tRSq then .ok (.map [] []) p1.next.2
      else parseMapLoop f p1 [] []
    else .err

/-- after `[`: elements `ident = expr` (fields) or `expr` (array), separated by commas -/
def parseMapLoop : Nat → P → List Expr → List (List Nat × Expr) → Res Expr
  | 0, _, _, _ => .fuel
  | f + 1, p, arr, fields =>
    let (ele, p1) := p.next
    let (nx, p2) := p1.next
    let cont (p3 : P) (arr : List Expr) (fields : List (List Nat × Expr)) : Res Expr :=
      let (n, p4) := p3.next
      if n.typ == tRSq then .ok (.map arr fields) p4
      else if n.typ == tComma then parseMapLoop f p4 arr fields
      else .err
    if ele.typ == tIdent && nx.typ == tAssign then
      match parseExpr f p2 1 with
      | .ok e p3 => cont p3 arr ((fields.filter fun kv => kv.1 != ele.text) ++ [(ele.text, e)])
      | .err => .err
      | .fuel => .fuel
    else
      match parseExpr f p 1 with
      | .ok e p3 => cont p3 (arr ++ [e]) fields
      | .err => .err
      | .fuel => .fuel

/-- after `(` of a call -/
def parseCallArgs : Nat → P → Res (List Expr)
  | 0, _ => .fuel
  | f + 1, p =>
    if p.peek.typ == tRParen then .ok [] p.next.2
    else
      match parseExpr f p 1 with
      | .ok e p1 => callArgsRest f p1 [e]
      | .err => .err
      | .fuel => .fuel

def callArgsRest : Nat → P → List Expr → Res (List Expr)
  | 0, _, _ => .fuel
  | f + 1, p, args =>
    if p.peek.typ == tComma then
      match parseExpr f p.next.2 1 with
      | .ok e p1 => callArgsRest f p1 (args ++ [e])
      | .err => .err
      | .fuel => .fuel
    else if p.peek.typ == tRParen then .ok args p.next.2
    else .err

/-- `fn [ident] ( params ) { body }`; `p` is positioned before `fn` -/
def parseFn : Nat → P → Bool → Res Node
  | 0, _, _ => .fuel
  | f + 1, p, named =>
    let (_, p1) := p.next
    let withName : Option (List Nat × P) :=
      if named then
        let (n, p2) := p1.next
        if n.typ == tIdent then some (n.text, p2) else none
      else some ([], p1)
    match withName with
    | none => .err
    | some (name, p2) =>
      if p2.peek.typ != tLParen then .err
      else
        match parseFnArgs f p2.next.2 [] with
        | .ok args p3 =>
          match parseBlock f p3 with
          | .ok body p4 => if args.eraseDups.length != args.length then .err else .ok (.fn name args body) p4
          | .err => .err
          | .fuel => .fuel
        | .err => .err
        | .fuel => .fuel

/-- after `(` of a parameter list -/
def parseFnArgs : Nat → P → List (List Nat) → Res (List (List Nat))
  | 0, _, _ => .fuel
  | f + 1, p, acc =>
    let (n, p1) := p.next
    if n.typ == tRParen then .ok acc p1
    else if n.typ != tIdent then .err
    else if p1.peek.typ == tComma then
      let p2 := p1.next.2
      if p2.peek.typ != tIdent then .err else parseFnArgs f p2 (acc ++ [n.text])
    else parseFnArgs f p1 (acc ++ [n.text])

/-- `{ statements }` -/
def parseBlock : Nat → P → Res (List Node)
  | 0, _ => .fuel
  | f + 1, p =>
    let (n, p1) := p.next
    if n.typ != tLBrace then .err else blockLoop f p1 []

def blockLoop : Nat → P → List Node → Res (List Node)
  | 0, _, _ => .fuel
  | f + 1, p, acc =>
    let n := p.peek
    if n.typ == tRBrace then .ok acc p.next.2
    else if n.typ == tEOF then .err
    else
      match parseStatement f p with
      | .ok nd p1 => blockLoop f p1 (acc ++ [nd])
      | .err => .err
      | .fuel => .fuel

/-- body of a `case` / `default`: statements up to the next case, default or `}`; `p` before `:` -/
def caseBody : Nat → P → List Node → Res (List Node)
  | 0, _, _ => .fuel
  | f + 1, p, acc =>
    let n := p.peek
    if n.typ == kDefault || n.typ == kCase || n.typ == tRBrace then .ok acc p
    else if n.typ == tEOF then .err
    else
      match parseStatement f p with
      | .ok nd p1 => caseBody f p1 (acc ++ [nd])
      | .err => .err
      | .fuel => .fuel

def switchLoop : Nat → P → Option Expr → List (Expr × List Node) → Option (List Node) → Res Node
  | 0, _, _, _, _ => .fuel
  | f + 1, p, c, cases, dflt =>
    let (n, p1) := p.next
    if n.typ == tRBrace then .ok (.switchS c cases dflt) p1
    else if n.typ == kCase then
      match parseExpr f p1 1 with
      | .ok e p2 =>
        if p2.peek.typ != tColon then .err
        else
          match caseBody f p2.next.2 [] with
          | .ok b p3 => switchLoop f p3 c (cases ++ [(e, b)]) dflt
          | .err => .err
          | .fuel => .fuel
      | .err => .err
      | .fuel => .fuel
    else if n.typ == kDefault then
      if p1.peek.typ != tColon then .err
      else
        match caseBody f p1.next.2 [] with
        | .ok b p3 => switchLoop f p3 c cases (some b)
        | .err => .err
        | .fuel => .fuel
    else .err

/-- `ident = expr` (no terminator) -/
def parseAssign : Nat → P → Res Node
  | 0, _ => .fuel
  | f + 1, p =>
    let (id, p1) := p.next
    if id.typ != tIdent then .err
    else
      let (a, p2) := p1.next
      if a.typ != tAssign then .err
      else
        match parseExpr f p2 1 with
        | .ok e p3 => .ok (.assign id.text e) p3
        | .err => .err
        | .fuel => .fuel

/-- `let ident = expr` (no terminator); `p` before `let` -/
def parseLet : Nat → P → Res Node
  | 0, _ => .fuel
  | f + 1, p =>
    let (_, p0) := p.next
    let (id, p1) := p0.next
    if id.typ != tIdent then .err
    else
      let (a, p2) := p1.next
      if a.typ != tAssign then .err
      else
        match parseExpr f p2 1 with
        | .ok e p3 => .ok (.letS id.text e) p3
        | .err => .err
        | .fuel => .fuel

def parseStatement : Nat → P → Res Node
  | 0, _ => .fuel
  | f + 1, p =>
    let n := p.peek
    let semi (r : Res Node) : Res Node :=
      match r with
      | .ok nd p1 => let (t, p2) := p1.next; if t.typ == tTerm then .ok nd p2 else .err
      | .err => .err
      | .fuel => .fuel
    if n.typ == kBreak then semi (.ok (.ctrl 1) p.next.2)
    else if n.typ == kContinue then semi (.ok (.ctrl 2) p.next.2)
    else if n.typ == kFallthrough then semi (.ok (.ctrl 3) p.next.2)
    else if n.typ == kLet then semi (parseLet f p)
    else if n.typ == kReturn then
      semi (match parseExpr f p.next.2 1 with
            | .ok e p1 => .ok (.ret e) p1
            | .err => .err
            | .fuel => .fuel)
    else if n.typ == kIf then
      match parseExpr f p.next.2 1 with
      | .ok c p1 =>
        if p1.peek.typ != tLBrace then .err
        else
          match parseBlock f p1 with
          | .ok th p2 =>
            if p2.peek.typ != kElse then .ok (.ifS c th none) p2
            else
              match parseStatement f p2.next.2 with
              | .ok (.ifS c' th' el') p3 => .ok (.ifS c th (some (.ifS c' th' el'))) p3
              | .ok (.block l) p3 => .ok (.ifS c th (some (.block l))) p3
              | .ok _ _ => .err
              | .err => .err
              | .fuel => .fuel
          | .err => .err
          | .fuel => .fuel
      | .err => .err
      | .fuel => .fuel
    else if n.typ == kSwitch then
      let p1 := p.next.2
      if p1.peek.typ != tLBrace then
        match parseExpr f p1 1 with
        | .ok c p2 => let (b, p3) := p2.next; if b.typ != tLBrace then .err else switchLoop f p3 (some c) [] none
        | .err => .err
        | .fuel => .fuel
      else switchLoop f p1.next.2 none [] none
    else if n.typ == kFn then parseFn f p true
    else if n.typ == kWhile then
      match parseExpr f p.next.2 1 with
      | .ok c p1 =>
        if p1.peek.typ != tLBrace then .err
        else
          match parseBlock f p1 with
          | .ok b p2 => .ok (.while c b) p2
          | .err => .err
          | .fuel => .fuel
      | .err => .err
      | .fuel => .fuel
    else if n.typ == kFor then parseFor f p.next.2
    else if n.typ == tLBrace then
      match parseBlock f p with
      | .ok b p1 => .ok (.block b) p1
      | .err => .err
      | .fuel => .fuel
    else if n.typ == tIdent && (p.next.2).peek.typ == tAssign then semi (parseAssign f p)
    else
      semi (match parseExpr f p 1 with
            | .ok e p1 => .ok (.expr e) p1
            | .err => .err
            | .fuel => .fuel)

/-- after the `for` keyword -/
def parseFor : Nat → P → Res Node
  | 0, _ => .fuel
  | f + 1, p =>
    if p.peek.typ == tLBrace then
      match parseBlock f p with
      | .ok b p1 => .ok (.forS none none none b) p1
      | .err => .err
      | .fuel => .fuel
    else
      let hasInit := p.peek.typ == kLet || (p.peek.typ == tIdent && (p.next.2).peek.typ == tAssign)
      let initR : Res (Option Node) :=
        if hasInit then
          match (if p.peek.typ == kLet then parseLet f p else parseAssign f p) with
          | .ok nd p1 => if p1.peek.typ != tTerm then .err else .ok (some nd) p1.next.2
          | .err => .err
          | .fuel => .fuel
        else .ok none p
      match initR with
      | .ok ini p1 =>
        match parseExpr f p1 1 with
        | .ok c p2 =>
          let postR : Res (Option Node) :=
            if p2.peek.typ == tTerm then
              let p3 := p2.next.2
              if p3.peek.typ != tLBrace then
                match parseAssign f p3 with
                | .ok nd p4 => .ok (some nd) p4
                | .err => .err
                | .fuel => .fuel
              else .ok none p3
            else .ok none p2
          match postR with
          | .ok post p5 =>
            if p5.peek.typ != tLBrace then .err
            else
              match parseBlock f p5 with
              | .ok b p6 => .ok (.forS ini (some c) post b) p6
              | .err => .err
              | .fuel => .fuel
          | .err => .err
          | .fuel => .fuel
        | .err => .err
        | .fuel => .fuel
      | .err => .err
      | .fuel => .fuel

end

/-- `parseRows`: statements until EOF -/
def parseRows : Nat → P → List Node → Res (List Node)
  | 0, _, _ => .fuel
  | f + 1, p, acc =>
    if p.peek.typ == tEOF then .ok acc p
    else
      match parseStatement f p with
      | .ok nd p1 => parseRows f p1 (acc ++ [nd])
      | .err => .err
      | .fuel => .fuel

/-- fuel that is always enough: every call consumes a token or returns -/
def fuelFor (toks : List Tok) : Nat := 6 * toks.length + 40

def parseProgram (toks : List Tok) : Res (List Node) :=
  parseRows (fuelFor toks) { toks := toks.toArray } []

end Gcs.Parse
