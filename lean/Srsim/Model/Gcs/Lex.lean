/-
Model of the gcs lexer (`pkg/logic/gcs/parse/lex.go`).

The input is a list of decoded runes: code point, width in bytes (1–4; an invalid byte decodes
to U+FFFD with width 1) and the two Unicode classifications the lexer asks for.  UTF-8 decoding
and the Unicode tables are therefore *inputs*: every theorem holds for every classification.
Positions are byte offsets.  The lexer is a state machine; `run` iterates its state functions with
fuel.  Token values are not modelled (they are `input[pos : pos+len]`).
-/
namespace Gcs.Lex

structure Rn where
  c : Nat
  w : Nat
  letter : Bool
  digit : Bool
deriving Repr, DecidableEq, Inhabited

/-- token types, numbered as `ast.TokenType` -/
abbrev TT := Nat
def tError : TT := 0
def tEOF : TT := 1
def tTerm : TT := 2
def tAssign : TT := 3
def tComma : TT := 4
def tLParen : TT := 5
def tRParen : TT := 6
def tLSq : TT := 7
def tRSq : TT := 8
def tLBrace : TT := 9
def tRBrace : TT := 10
def tColon : TT := 11
def tPlus : TT := 12
def tMinus : TT := 13
def tAsterisk : TT := 14
def tSlash : TT := 15
def tNot : TT := 17
def tAnd : TT := 18
def tOr : TT := 19
def tEq : TT := 21
def tNe : TT := 22
def tGt : TT := 23
def tGe : TT := 24
def tLt : TT := 25
def tLe : TT := 26
def tIdent : TT := 29
def tNumber : TT := 30
def tBool : TT := 31
def tString : TT := 32
def tNull : TT := 33
def kLet : TT := 35
def kWhile : TT := 36
def kIf : TT := 37
def kElse : TT := 38
def kFn : TT := 39
def kSwitch : TT := 40
def kCase : TT := 41
def kDefault : TT := 42
def kBreak : TT := 43
def kContinue : TT := 44
def kFallthrough : TT := 45
def kReturn : TT := 46
def kFor : TT := 47

structure Tok where
  typ : TT
  pos : Nat
  len : Nat
  line : Nat
  text : List Nat := []      -- code points of the token (empty for error tokens)
deriving Repr, DecidableEq, Inhabited

/-- lexer state: `rest` is the input from `pos` on; `cur` the runes of the pending item (reversed) -/
structure St where
  rest : List Rn
  cur : List Rn := []
  start : Nat := 0
  pos : Nat := 0
  line : Nat := 1
  startLine : Nat := 1
  paren : Int := 0
  sq : Int := 0
  brace : Int := 0
  out : List Tok := []       -- emitted tokens, newest first
deriving Inhabited

inductive Mode | text | comment | quote | ident | number | done
deriving DecidableEq, Repr, Inhabited

def ch (c : Char) : Nat := c.toNat

def isSpace (r : Rn) : Bool := r.c == ch ' ' || r.c == ch '\t' || r.c == ch '\n' || r.c == ch '\r'
def isAlnum (r : Rn) : Bool := r.c == ch '_' || r.c == ch '-' || r.letter || r.digit || r.c == ch '%'
def isAsciiDigit (r : Rn) : Bool := ch '0' ≤ r.c && r.c ≤ ch '9'

/-- consume the next rune (callers have checked that there is one) -/
def adv (s : St) (r : Rn) (t : List Rn) : St :=
  { s with rest := t, cur := r :: s.cur, pos := s.pos + r.w, line := if r.c == ch '\n' then s.line + 1 else s.line }

def emit (s : St) (t : TT) : St :=
  { s with out := ⟨t, s.start, s.pos - s.start, s.startLine, (s.cur.reverse.map (·.c))⟩ :: s.out,
           cur := [], start := s.pos, startLine := s.line }

def ignore (s : St) : St := { s with cur := [], start := s.pos, startLine := s.line }

def errorTok (s : St) : St := { s with out := ⟨tError, s.start, 0, s.startLine, []⟩ :: s.out }

def keywordOf (w : List Nat) : Option TT :=
  let s := String.ofList (w.map Char.ofNat)
  if s == "let" then some kLet else if s == "while" then some kWhile else if s == "if" then some kIf
  else if s == "else" then some kElse else if s == "fn" then some kFn else if s == "switch" then some kSwitch
  else if s == "case" then some kCase else if s == "default" then some kDefault else if s == "break" then some kBreak
  else if s == "continue" then some kContinue else if s == "fallthrough" then some kFallthrough
  else if s == "return" then some kReturn else if s == "for" then some kFor
  else if s == "true" || s == "false" then some tBool else if s == "null" then some tNull else none

def terminators : List Nat := [".", ",", "|", ":", ")", "(", "+", "=", ">", "<", "&", "!", ";", "[", "]"].map fun s => (s.toList.headD ' ').toNat

def atTerminator (rest : List Rn) : Bool :=
  match rest with
  | [] => true
  | r :: _ => isSpace r || terminators.contains r.c

/-- one state function call: new state and the next mode -/
def stepText (s : St) : St × Mode :=
  match s.rest with
  | [] => (emit s tEOF, .done)
  | r :: t =>
    let s1 := adv s r t
    let two (c : Char) (yes no : TT) : St × Mode :=
      match t with
      | n :: t' => if n.c == ch c then (emit (adv s1 n t') yes, .text) else (emit s1 no, .text)
      | [] => (emit s1 no, .text)
    if r.c == ch ';' then (emit s1 tTerm, .text)
    else if r.c == ch ':' then (emit s1 tColon, .text)
    else if isSpace r then (ignore s1, .text)
    else if r.c == ch '#' then (ignore s1, .comment)
    else if r.c == ch '=' then two '=' tEq tAssign
    else if r.c == ch ',' then (emit s1 tComma, .text)
    else if r.c == ch '*' then (emit s1 tAsterisk, .text)
    else if r.c == ch '+' then (emit s1 tPlus, .text)
    else if r.c == ch '/' then
      match t with
      | n :: t' => if n.c == ch '/' then (ignore (adv s1 n t'), .comment) else (emit s1 tSlash, .text)
      | [] => (emit s1 tSlash, .text)
    else if r.c == ch '.' then
      match t with
      | n :: _ => if n.digit then (s, .number) else (errorTok s1, .done)
      | [] => (errorTok s1, .done)
    else if isAsciiDigit r then (s, .number)
    else if r.c == ch '-' then
      match t with
      | n :: _ => if n.digit then (s, .number) else (emit s1 tMinus, .text)
      | [] => (emit s1 tMinus, .text)
    else if r.c == ch '>' then two '=' tGe tGt
    else if r.c == ch '<' then
      match t with
      | n :: t' =>
        if n.c == ch '=' then (emit (adv s1 n t') tLe, .text)
        else if n.c == ch '>' then (emit (adv s1 n t') tNe, .text)
        else (emit s1 tLt, .text)
      | [] => (emit s1 tLt, .text)
    else if r.c == ch '|' then
      match t with
      | n :: t' => if n.c == ch '|' then (emit (adv s1 n t') tOr, .text) else (errorTok (adv s1 n t'), .done)
      | [] => (errorTok s1, .done)
    else if r.c == ch '!' then two '=' tNe tNot
    else if r.c == ch '"' then (s1, .quote)
    else if r.c == ch '&' then
      match t with
      | n :: t' => if n.c == ch '&' then (emit (adv s1 n t') tAnd, .text) else (errorTok (adv s1 n t'), .done)
      | [] => (errorTok s1, .done)
    else if r.c == ch '(' then (let e := emit s1 tLParen; { e with paren := e.paren + 1 }, .text)
    else if r.c == ch ')' then
      let e := emit s1 tRParen
      if e.paren - 1 < 0 then (errorTok { e with paren := e.paren - 1 }, .done) else ({ e with paren := e.paren - 1 }, .text)
    else if r.c == ch '[' then (let e := emit s1 tLSq; { e with sq := e.sq + 1 }, .text)
    else if r.c == ch ']' then
      let e := emit s1 tRSq
      if e.sq - 1 < 0 then (errorTok { e with sq := e.sq - 1 }, .done) else ({ e with sq := e.sq - 1 }, .text)
    else if r.c == ch '{' then (let e := emit s1 tLBrace; { e with brace := e.brace + 1 }, .text)
    else if r.c == ch '}' then
      let e := emit s1 tRBrace
      if e.brace - 1 < 0 then (errorTok { e with brace := e.brace - 1 }, .done) else ({ e with brace := e.brace - 1 }, .text)
    else if isAlnum r then (s, .ident)
    else (errorTok s1, .done)

/-- `lexComment`: absorb up to (not including) the end of the line.
The list argument is `s.rest` (kept in step by `adv`), which makes the recursion structural. -/
def commentGo (s : St) : List Rn → St
  | [] => s
  | r :: t => if r.c == ch '\n' then s else commentGo (adv s r t) t

def stepComment (s : St) : St := commentGo s s.rest

/-- `lexQuote`: the opening quote has been consumed -/
def quoteGo (s : St) : List Rn → St × Mode
  | [] => (errorTok s, .done)
  | [r] =>
    if r.c == ch '\\' then (errorTok (adv s r []), .done)
    else if r.c == ch '\n' then (errorTok (adv s r []), .done)
    else if r.c == ch '"' then (emit (adv s r []) tString, .text)
    else (errorTok (adv s r []), .done)
  | r :: n :: t' =>
    if r.c == ch '\\' then
      if n.c == ch '\n' then (errorTok (adv (adv s r (n :: t')) n t'), .done)
      else quoteGo (adv (adv s r (n :: t')) n t') t'
    else if r.c == ch '\n' then (errorTok (adv s r (n :: t')), .done)
    else if r.c == ch '"' then (emit (adv s r (n :: t')) tString, .text)
    else quoteGo (adv s r (n :: t')) (n :: t')

def stepQuote (s : St) : St × Mode := quoteGo s s.rest

/-- `lexIdentifier`: absorb alphanumerics, then require a terminator -/
def identGo (s : St) : List Rn → St
  | [] => s
  | r :: t => if isAlnum r then identGo (adv s r t) t else s

def absorbIdent (s : St) : St := identGo s s.rest

def stepIdent (s : St) : St × Mode :=
  let s1 := absorbIdent s
  if !atTerminator s1.rest then (errorTok s1, .done)
  else
    match keywordOf (s1.cur.reverse.map (·.c)) with
    | some k => (emit s1 k, .text)
    | none => (emit s1 tIdent, .text)

def digitsGo (s : St) : List Rn → St
  | [] => s
  | r :: t => if isAsciiDigit r then digitsGo (adv s r t) t else s

def acceptRunDigits (s : St) : St := digitsGo s s.rest

/-- `lexNumber`: optional sign, digits, optional fraction -/
def stepNumber (s : St) : St :=
  let s1 := match s.rest with
    | r :: t => if r.c == ch '+' || r.c == ch '-' then adv s r t else s
    | [] => s
  let s2 := acceptRunDigits s1
  let s3 := match s2.rest with
    | r :: t => if r.c == ch '.' then acceptRunDigits (adv s2 r t) else s2
    | [] => s2
  emit s3 tNumber

def step (s : St) : Mode → St × Mode
  | .text => stepText s
  | .comment => (stepComment s, .text)
  | .quote => stepQuote s
  | .ident => stepIdent s
  | .number => (stepNumber s, .text)
  | .done => (s, .done)

/-- the lexer goroutine: iterate the state functions until `nil`; returns the number of steps used -/
def run : Nat → St → Mode → Nat → Option (St × Nat)
  | _, s, .done, n => some (s, n)
  | 0, _, _, _ => none
  | f + 1, s, m, n => run f (step s m).1 (step s m).2 (n + 1)

def totalBytes (l : List Rn) : Nat := (l.map (·.w)).foldr (· + ·) 0

/-- all tokens of an input (oldest first) and the number of state-function calls, with the fuel
that is always enough (two calls per rune plus two) -/
def lexAll (input : List Rn) : Option (List Tok × Nat) :=
  (run (2 * input.length + 2) { rest := input } .text 0).map fun (s, n) => (s.out.reverse, n)

end Gcs.Lex
