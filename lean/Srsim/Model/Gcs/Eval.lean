import Srsim.Num
import Srsim.Model.Gcs.Parse
import Srsim.Generated.Enums
/-
Model of the gcs evaluator (`pkg/logic/gcs/eval`: eval.go, expr.go, stmt.go, op.go, obj.go,
sysfunc.go, action.go) over the trees of the parser model.

* Numbers are integers or floats (the Go `number{ival,fval,isFloat}` with the arithmetic of op.go:
  integer arithmetic on two integers, otherwise floating arithmetic on the promoted operands).
* Environments are frames in a store (callbacks capture a frame id); maps live in a heap
  (`sort` works in place, as on the Go pointer type).
* `rand` draws from an explicit stream.
* The condition builtins (conditions.go) read an explicit `World`: what the engine getters they call
  would answer (units with class, life, energy, HP ratio, toughness, shields, modifiers, status
  counts, weaknesses, skill availability, element, neighbours; skill points).
* Fuel bounds evaluation; errors are values (`Res.err`), there is no crash outcome to reach.
-/
namespace Gcs.Eval
open Gcs.Parse

inductive Val (α : Type)
  | null
  | int (i : Int)
  | flt (f : α)
  | str (s : List Nat)
  | fn (args : List (List Nat)) (body : List Node)
  | bif (name : String)
  | act (typ : String) (evaluator : Int) (target : Int)
  | map (id : Nat)
deriving Inhabited

/-- result of evaluating a node: a value, or a pending `return` / loop control -/
inductive Out (α : Type)
  | val (v : Val α)
  | ret (v : Val α)
  | ctrl (k : Nat)          -- 1 break, 2 continue, 3 fallthrough
deriving Inhabited

structure Frame (α : Type) where
  parent : Option Nat
  vars : List (List Nat × Val α)

structure CB (α : Type) where
  target : Int
  env : Nat
  body : List Node

/-- what the engine tells the condition builtins about one unit -/
structure WUnit (α : Type) where
  id : Int
  cls : Nat                      -- 0 character, 1 enemy, 2 neutral
  alive : Bool
  key : List Nat                 -- character key (the name a script can use for the id)
  energy : α
  maxEnergy : α
  hp : α
  stance : α
  maxStance : α
  shielded : Bool
  shields : List (List Nat)
  mods : List (List Nat)
  status : List (Int × Int)      -- status type ↦ number of modifiers of that type
  weak : List Int
  skill : Nat                    -- 0 not usable, 1 usable, 2 the engine reports an error
  elem : Int
  adj : List Int
deriving Inhabited

structure World (α : Type) where
  sp : Int := 0
  units : List (WUnit α) := []
deriving Inhabited

def World.unit? {α} (w : World α) (t : Int) : Option (WUnit α) := w.units.find? (·.id == t)
def World.isValid {α} (w : World α) (t : Int) : Bool := (w.unit? t).isSome
def World.isChar {α} (w : World α) (t : Int) : Bool := match w.unit? t with | some u => u.cls == 0 | none => false
def World.isEnemy {α} (w : World α) (t : Int) : Bool := match w.unit? t with | some u => u.cls == 1 | none => false
def World.ofClass {α} (w : World α) (c : Nat) : List Int := (w.units.filter (·.cls == c)).map (·.id)

structure St (α : Type) where
  world : World α := {}
  frames : Array (Frame α) := #[]
  maps : Array (List (Val α) × List (List Nat × Val α)) := #[]
  printed : List (Val α) := []            -- newest first
  skillCB : List (CB α) := []             -- last registration per target wins
  ultCB : List (CB α) := []
  defaults : List (Int × Val α) := []
  draws : List α := []                    -- the run's random stream

inductive Res (α β : Type)
  | ok (v : β) (s : St α)
  | err (msg : String) (s : St α)
  | fuel

variable {α : Type} [Num α]

def txt (s : String) : List Nat := s.toList.map Char.toNat

def newFrame (s : St α) (parent : Option Nat) : St α × Nat :=
  ({ s with frames := s.frames.push ⟨parent, []⟩ }, s.frames.size)

/-- `Env.v`: look a name up through the parent chain (fuel = number of frames) -/
def lookupIn (frames : Array (Frame α)) : Nat → Nat → List Nat → Option (Nat × Val α)
  | 0, _, _ => none
  | f + 1, env, x =>
    match frames[env]? with
    | none => none
    | some fr =>
      match fr.vars.find? (·.1 == x) with
      | some kv => some (env, kv.2)
      | none => match fr.parent with
        | some p => lookupIn frames f p x
        | none => none

def lookup (s : St α) (env : Nat) (x : List Nat) : Option (Nat × Val α) :=
  lookupIn s.frames (s.frames.size + 1) env x

def definedHere (s : St α) (env : Nat) (x : List Nat) : Bool :=
  match s.frames[env]? with
  | some fr => fr.vars.any (·.1 == x)
  | none => false

/-- set a variable in a given frame (define or overwrite) -/
def setVar (s : St α) (env : Nat) (x : List Nat) (v : Val α) : St α :=
  match s.frames[env]? with
  | none => s
  | some fr =>
    let vars := if fr.vars.any (·.1 == x) then fr.vars.map fun kv => if kv.1 == x then (x, v) else kv
                else fr.vars ++ [(x, v)]
    { s with frames := s.frames.set! env { fr with vars := vars } }

def toF (i : Int) : α := Num.ofInt i

/-- `otob` -/
def truthy : Val α → Bool
  | .int i => i != 0
  | .flt f => Num.neb f 0
  | .str _ => true
  | _ => false

def b2v (b : Bool) : Val α := .int (if b then 1 else 0)

def asF : Val α → Option α
  | .int i => some (toF i)
  | .flt f => some f
  | _ => none

def isNum : Val α → Bool
  | .int _ => true
  | .flt _ => true
  | _ => false

/-- 64-bit wrap-around of Go's int64 arithmetic -/
def wrap64 (i : Int) : Int :=
  let m := i % 18446744073709551616
  if m ≥ 9223372036854775808 then m - 18446744073709551616 else m

/-- binary operators on two numbers (op.go after normalisation): integer arithmetic on two
integers, floating arithmetic otherwise; comparisons and logic give 0/1; integer division by
zero is an error -/
def binop (op : Nat) (l r : Val α) : Except String (Val α) :=
  match asF l, asF r with
  | some lf, some rf =>
    let bothInt := match l, r with | .int _, .int _ => true | _, _ => false
    let li := match l with | .int i => i | _ => 0
    let ri := match r with | .int i => i | _ => 0
    if op == Lex.tAnd then .ok (b2v (truthy l && truthy r))
    else if op == Lex.tOr then .ok (b2v (truthy l || truthy r))
    else if op == Lex.tPlus then .ok (if bothInt then .int (wrap64 (li + ri)) else .flt (lf + rf))
    else if op == Lex.tMinus then .ok (if bothInt then .int (wrap64 (li - ri)) else .flt (lf - rf))
    else if op == Lex.tAsterisk then .ok (if bothInt then .int (wrap64 (li * ri)) else .flt (lf * rf))
    else if op == Lex.tSlash then
      if bothInt then (if ri == 0 then .error "integer division by zero" else .ok (.int (wrap64 (Int.tdiv li ri))))
      else .ok (.flt (lf / rf))
    else if op == Lex.tGt then .ok (b2v (decide (lf > rf)))
    else if op == Lex.tGe then .ok (b2v (decide (lf ≥ rf)))
    else if op == Lex.tLt then .ok (b2v (decide (lf < rf)))
    else if op == Lex.tLe then .ok (b2v (decide (lf ≤ rf)))
    else if op == Lex.tEq then .ok (b2v (Num.eqb lf rf))
    else if op == Lex.tNe then .ok (b2v (Num.neb lf rf))
    else .ok .null
  | _, _ => .error "binary expression does not evaluate to a number"

def unop (op : Nat) (r : Val α) : Except String (Val α) :=
  match r with
  | .int i => if op == Lex.tNot then .ok (b2v (i == 0)) else if op == Lex.tMinus then .ok (.int (wrap64 (0 - i))) else .ok .null
  | .flt f => if op == Lex.tNot then .ok (b2v (Num.eqb 0 f)) else if op == Lex.tMinus then .ok (.flt (0 - f)) else .ok .null
  | _ => .error "unary expression does not evaluate to a number"

/-- value of a number literal's text: integer when it is one (and fits int64), float otherwise;
`mkF m e` is the float `m · 10^(-e)` -/
def litVal (mkF : Nat → Nat → α) (w : List Nat) : Val α :=
  let s := w.map Char.ofNat
  let neg := s.head? == some '-'
  let body := match s with | '-' :: r => r | '+' :: r => r | _ => s
  let ip := body.takeWhile Char.isDigit
  let rest := body.dropWhile Char.isDigit
  let dv (l : List Char) : Nat := l.foldl (fun a c => a * 10 + (c.toNat - 48)) 0
  if rest.isEmpty then
    let v : Int := if neg then - (dv ip : Int) else dv ip
    if -9223372036854775808 ≤ v && v ≤ 9223372036854775807 then .int v
    else .flt (if neg then 0 - mkF (dv ip) 0 else mkF (dv ip) 0)
  else
    let fr := rest.drop 1
    .flt (if neg then 0 - mkF (dv (ip ++ fr)) fr.length else mkF (dv (ip ++ fr)) fr.length)

def stripQuotes (w : List Nat) : List Nat :=
  (w.dropWhile (· == 34)).reverse.dropWhile (· == 34) |>.reverse

def builtins : List String :=
  ["print", "type", "rand", "randnorm", "sort", "first", "any", "len", "register_skill_cb", "register_ult_cb",
   "set_default_action", "attack", "skill", "ult", "ult_attack", "ult_skill"]

/-- the condition builtins of conditions.go with the argument types `validateArguments` demands
(1 number, 2 string) -/
def condBuiltins : List (String × List Nat) :=
  [("has_modifier", [1, 2]), ("modifier_count", [1, 1]), ("ult_ready", [1]), ("skill_points", []), ("energy", [1]),
   ("max_energy", [1]), ("hp_ratio", [1]), ("weakness_broken", [1]), ("has_weakness", [1, 1]), ("stance", [1]),
   ("max_stance", [1]), ("has_shield", [1, 2]), ("is_shielded", [1]), ("skill_ready", [1]), ("element", [1]),
   ("is_valid", [1]), ("is_alive", [1]), ("is_character", [1]), ("is_enemy", [1]), ("enemies", []), ("characters", []),
   ("adjacent_to", [1])]

/-- result of a condition builtin: a value, or a list of unit ids that becomes a fresh map -/
inductive CondOut (α : Type)
  | val (v : Val α)
  | ids (l : List Int)

def typeName : Val α → String
  | .null => "null" | .int _ => "number" | .flt _ => "number" | .str _ => "string" | .fn .. => "function"
  | .bif _ => "built-in function" | .act .. => "action" | .map _ => "map"

def typeCode : Val α → Nat
  | .null => 0 | .int _ => 1 | .flt _ => 1 | .str _ => 2 | .fn .. => 3 | .bif _ => 4 | .act .. => 5 | .map _ => 6

/-- insertion sort step used by the stable sort of `sort(map, cb)`: position by the callback -/
def insertBy (less : Val α → Val α → Bool) (x : Val α) : List (Val α) → List (Val α)
  | [] => [x]
  | y :: r => if less x y then x :: y :: r else y :: insertBy less x r

/-- the unit id a number argument denotes: `number.ival`, which is 0 for a floating value -/
def targetOf : Val α → Int
  | .int i => i
  | _ => 0

/-- conditions.go, one clause per builtin, on already type-checked arguments -/
def condEval (w : World α) (name : String) (args : List (Val α)) : Except String (CondOut α) :=
  let t := targetOf (args.headD .null)
  let bv (b : Bool) : Except String (CondOut α) := .ok (.val (.int (if b then 1 else 0)))
  let needValid (k : WUnit α → Except String (CondOut α)) : Except String (CondOut α) :=
    match w.unit? t with | some u => k u | none => .error "target is invalid"
  let needEnemy (k : WUnit α → Except String (CondOut α)) : Except String (CondOut α) :=
    match w.unit? t with | some u => if u.cls == 1 then k u else .error "target is not an enemy" | none => .error "target is not an enemy"
  let needChar (k : WUnit α → Except String (CondOut α)) : Except String (CondOut α) :=
    match w.unit? t with | some u => if u.cls == 0 then k u else .error "target is not a character" | none => .error "target is not a character"
  if name == "has_modifier" then
    needValid fun u => match args with | [_, .str m] => bv (u.mods.contains m) | _ => .error "args"
  else if name == "modifier_count" then
    needValid fun u => .ok (.val (.int (((u.status.find? (·.1 == targetOf (args.getD 1 .null))).map (·.2)).getD 0)))
  else if name == "ult_ready" then needChar fun u => bv (decide ((1 : α) ≤ u.energy / u.maxEnergy))
  else if name == "skill_points" then .ok (.val (.int w.sp))
  else if name == "energy" then needValid fun u => .ok (.val (.flt u.energy))
  else if name == "max_energy" then needValid fun u => .ok (.val (.flt u.maxEnergy))
  else if name == "hp_ratio" then needValid fun u => .ok (.val (.flt u.hp))
  else if name == "weakness_broken" then needEnemy fun u => bv (Num.eqb u.stance 0)
  else if name == "has_weakness" then needEnemy fun u => bv (u.weak.contains (targetOf (args.getD 1 .null)))
  else if name == "stance" then needEnemy fun u => .ok (.val (.flt u.stance))
  else if name == "max_stance" then needEnemy fun u => .ok (.val (.flt u.maxStance))
  else if name == "has_shield" then
    needValid fun u => match args with | [_, .str k] => bv (u.shields.contains k) | _ => .error "args"
  else if name == "is_shielded" then needValid fun u => bv u.shielded
  else if name == "skill_ready" then
    match w.unit? t with
    | some u => if u.skill == 2 then .error "engine error" else bv (u.skill == 1)
    | none => .error "engine error"
  else if name == "element" then needChar fun u => .ok (.val (.int u.elem))
  else if name == "is_valid" then bv (w.isValid t)
  else if name == "is_alive" then needValid fun u => bv u.alive
  else if name == "is_character" then bv (w.isChar t)
  else if name == "is_enemy" then bv (w.isEnemy t)
  else if name == "enemies" then .ok (.ids (w.ofClass 1))
  else if name == "characters" then .ok (.ids (w.ofClass 0))
  else if name == "adjacent_to" then needValid fun u => .ok (.ids u.adj)
  else .error "unknown builtin"

section eval
variable (mkF : Nat → Nat → α)

/-- lexicographic order on code-point lists (= byte order of the UTF-8 strings) -/
def keyLe : List Nat → List Nat → Bool
  | [], _ => true
  | _ :: _, [] => false
  | a :: as, b :: bs => a < b || (a == b && keyLe as bs)

/-- the fields of a map literal as the evaluator visits them: one entry per key (the last one
written wins, as in the parser's Go map), in key order -/
def normFields {β : Type} (fields : List (List Nat × β)) : List (List Nat × β) :=
  let dedup := fields.foldl (fun acc kv => (acc.filter fun x => x.1 != kv.1) ++ [kv]) []
  dedup.mergeSort fun a b => keyLe a.1 b.1

mutual

def evalExpr : Nat → St α → Nat → Expr → Res α (Val α)
  | 0, _, _, _ => .fuel
  | f + 1, s, env, e =>
    match e with
    | .num w => .ok (litVal mkF w) s
    | .str w => .ok (.str (stripQuotes w)) s
    | .null => .ok .null s
    | .funLit args body => .ok (.fn args body) s
    | .ident x =>
      match lookup s env x with
      | some (_, v) => .ok v s
      | none => .err "variable does not exist" s
    | .unary op r =>
      match evalExpr f s env r with
      | .ok v s1 => (match unop op v with | .ok x => .ok x s1 | .error m => .err m s1)
      | .err m se => .err m se
      | .fuel => .fuel
    | .binary op l r =>
      match evalExpr f s env l with
      | .ok lv s1 =>
        match evalExpr f s1 env r with
        | .ok rv s2 => (match binop op lv rv with | .ok x => .ok x s2 | .error m => .err m s2)
        | .err m se => .err m se
        | .fuel => .fuel
      | .err m se => .err m se
      | .fuel => .fuel
    | .map arr fields =>
      match evalList f s env arr with
      | .ok vs s1 =>
        match evalFields f s1 env (normFields fields) with
        | .ok fs s2 => .ok (.map s2.maps.size) { s2 with maps := s2.maps.push (vs, fs) }
        | .err m se => .err m se
        | .fuel => .fuel
      | .err m se => .err m se
      | .fuel => .fuel
    | .call fe args =>
      match evalExpr f s env fe with
      | .ok (.bif name) s1 => callBuiltin f s1 env name args
      | .ok (.fn params body) s1 =>
        if args.length != params.length then .err "unmatched number of params" s1
        else
          match evalList f s1 env args with
          | .ok vs s2 =>
            let (s3, loc) := newFrame s2 (some env)
            let s4 := (params.zip vs).foldl (fun st pv => setVar st loc pv.1 pv.2) s3
            match evalBlock f s4 loc body with
            | .ok (.ret v) s5 => .ok v s5
            | .ok (.val .null) s5 => .ok .null s5
            | .ok _ sx => .err "fn returned an invalid type" sx
            | .err m se => .err m se
            | .fuel => .fuel
          | .err m se => .err m se
          | .fuel => .fuel
      | .ok _ sx => .err "invalid function call" sx
      | .err m se => .err m se
      | .fuel => .fuel

def evalList : Nat → St α → Nat → List Expr → Res α (List (Val α))
  | 0, _, _, _ => .fuel
  | _f + 1, s, _, [] => .ok [] s
  | f + 1, s, env, e :: es =>
    match evalExpr f s env e with
    | .ok v s1 =>
      match evalList f s1 env es with
      | .ok vs s2 => .ok (v :: vs) s2
      | .err m se => .err m se
      | .fuel => .fuel
    | .err m se => .err m se
    | .fuel => .fuel

def evalFields : Nat → St α → Nat → List (List Nat × Expr) → Res α (List (List Nat × Val α))
  | 0, _, _, _ => .fuel
  | _f + 1, s, _, [] => .ok [] s
  | f + 1, s, env, (k, e) :: es =>
    match evalExpr f s env e with
    | .ok v s1 =>
      match evalFields f s1 env es with
      | .ok vs s2 => .ok ((k, v) :: vs) s2
      | .err m se => .err m se
      | .fuel => .fuel
    | .err m se => .err m se
    | .fuel => .fuel

/-- evaluate exactly the listed argument types (`validateArguments`) -/
def evalTyped : Nat → St α → Nat → List Expr → List Nat → Res α (List (Val α))
  | 0, _, _, _, _ => .fuel
  | f + 1, s, env, args, types =>
    if args.length != types.length then .err "invalid number of params" s
    else
      match evalList f s env args with
      | .ok vs s1 => if (vs.zip types).all (fun vt => typeCode vt.1 == vt.2) then .ok vs s1 else .err "argument type" s1
      | .err m se => .err m se
      | .fuel => .fuel

def callBuiltin : Nat → St α → Nat → String → List Expr → Res α (Val α)
  | 0, _, _, _, _ => .fuel
  | f + 1, s, env, name, args =>
    if name == "print" then
      match evalList f s env args with
      | .ok vs s1 => .ok .null { s1 with printed := vs.reverse ++ s1.printed }
      | .err m se => .err m se
      | .fuel => .fuel
    else if name == "type" then
      if args.length != 1 then .err "invalid number of params for type" s
      else match evalList f s env args with
        | .ok [v] s1 => .ok (.str (txt (typeName v))) s1
        | .ok _ sx => .err "type" sx
        | .err m se => .err m se
        | .fuel => .fuel
    else if name == "rand" || name == "randnorm" then
      if !args.isEmpty then .err "invalid number of params" s
      else .ok (.flt (s.draws.headD 0)) { s with draws := s.draws.tail }
    else if name == "len" then
      match evalTyped f s env args [6] with
      | .ok [.map id] s1 => .ok (.int ((s1.maps.getD id ([], [])).1.length)) s1
      | .ok _ sx => .err "len" sx
      | .err m se => .err m se
      | .fuel => .fuel
    else if name == "first" then
      match evalTyped f s env args [6] with
      | .ok [.map id] s1 => .ok (((s1.maps.getD id ([], [])).1.head?).getD .null) s1
      | .ok _ sx => .err "first" sx
      | .err m se => .err m se
      | .fuel => .fuel
    else if name == "any" then
      match evalTyped f s env args [6, 3] with
      | .ok [.map id, .fn params body] s1 =>
        if params.length != 1 then .err "invalid number of params for callback" s1
        else
          let (s2, loc) := newFrame s1 (some env)
          anyLoop f s2 loc (params.headD []) body (s2.maps.getD id ([], [])).1
      | .ok _ sx => .err "any" sx
      | .err m se => .err m se
      | .fuel => .fuel
    else if name == "sort" then
      match evalTyped f s env args [6, 3] with
      | .ok [.map id, .fn params body] s1 =>
        if params.length != 2 then .err "invalid number of params for callback" s1
        else
          let (s2, loc) := newFrame s1 (some env)
          match sortLoop f s2 loc (params.getD 0 []) (params.getD 1 []) body (s2.maps.getD id ([], [])).1 [] with
          | .ok sorted s3 => .ok (.map id) { s3 with maps := s3.maps.set! id (sorted, (s3.maps.getD id ([], [])).2) }
          | .err m se => .err m se
          | .fuel => .fuel
      | .ok _ sx => .err "sort" sx
      | .err m se => .err m se
      | .fuel => .fuel
    else if name == "register_skill_cb" || name == "register_ult_cb" then
      match evalTyped f s env args [1, 3] with
      | .ok [tv, .fn params body] s1 =>
        let target : Int := match tv with | .int i => i | _ => 0
        if params.length > args.length then .err "callback has more parameters than arguments" s1
        else
          let (s2, cenv) := newFrame s1 (some env)
          -- the callback's parameters are bound to the (re-evaluated) call arguments
          match evalList f s2 env (args.take params.length) with
          | .ok pvs s3 =>
            let s4 := (params.zip pvs).foldl (fun st pv => setVar st cenv pv.1 pv.2) s3
            if name == "register_skill_cb" then
              .ok .null { s4 with skillCB := (s4.skillCB.filter (·.target != target)) ++ [⟨target, cenv, body⟩] }
            else .ok .null { s4 with ultCB := s4.ultCB ++ [⟨target, cenv, body⟩] }
          | .err m se => .err m se
          | .fuel => .fuel
      | .ok _ sx => .err "register" sx
      | .err m se => .err m se
      | .fuel => .fuel
    else if name == "set_default_action" then
      match evalTyped f s env args [1, 5] with
      | .ok [.int t, .act typ ev _] s1 =>
        if typ != "attack" then .err "action should be an attack" s1
        else .ok .null { s1 with defaults := (s1.defaults.filter (·.1 != t)) ++ [(t, .act typ ev t)] }
      | .ok _ sx => .err "set_default_action" sx
      | .err m se => .err m se
      | .fuel => .fuel
    else if ["attack", "skill", "ult", "ult_attack", "ult_skill"].contains name then
      match evalTyped f s env args [1] with
      | .ok [.int ev] s1 => .ok (.act name ev 0) s1
      | .ok [.flt _] s1 => .ok (.act name 0 0) s1
      | .ok _ sx => .err "action" sx
      | .err m se => .err m se
      | .fuel => .fuel
    else match condBuiltins.find? (·.1 == name) with
      | none => .err "unknown builtin" s
      | some (_, types) =>
        match evalTyped f s env args types with
        | .ok vs s1 =>
          match condEval s1.world name vs with
          | .ok (.val v) => .ok v s1
          | .ok (.ids l) => .ok (.map s1.maps.size) { s1 with maps := s1.maps.push (l.map Val.int, []) }
          | .error m => .err m s1
        | .err m se => .err m se
        | .fuel => .fuel

/-- `any`: the first element for which the callback returns a truthy value -/
def anyLoop : Nat → St α → Nat → List Nat → List Node → List (Val α) → Res α (Val α)
  | 0, _, _, _, _, _ => .fuel
  | _f + 1, s, _, _, _, [] => .ok (b2v false) s
  | f + 1, s, loc, p, body, v :: vs =>
    match evalBlock f (setVar s loc p v) loc body with
    | .ok (.ret r) s1 => if truthy r then .ok (b2v true) s1 else anyLoop f s1 loc p body vs
    | .ok _ sx => .err "the callback must return a value" sx
    | .err m se => .err m se
    | .fuel => .fuel

/-- stable insertion of the elements, comparing with the callback (`less(new, old)`) -/
def sortLoop : Nat → St α → Nat → List Nat → List Nat → List Node → List (Val α) → List (Val α) → Res α (List (Val α))
  | 0, _, _, _, _, _, _, _ => .fuel
  | _f + 1, s, _, _, _, _, [], acc => .ok acc s
  | f + 1, s, loc, p1, p2, body, v :: vs, acc =>
    match sortInsert f s loc p1 p2 body v acc with
    | .ok acc' s1 => sortLoop f s1 loc p1 p2 body vs acc'
    | .err m se => .err m se
    | .fuel => .fuel

def sortInsert : Nat → St α → Nat → List Nat → List Nat → List Node → Val α → List (Val α) → Res α (List (Val α))
  | 0, _, _, _, _, _, _, _ => .fuel
  | f + 1, s, loc, p1, p2, body, x, acc =>
    -- place x after every element y for which less(x, y) is false, scanning from the back
    match acc.reverse with
    | [] => .ok [x] s
    | y :: restRev =>
      match evalBlock f (setVar (setVar s loc p1 x) loc p2 y) loc body with
      | .ok (.ret r) s1 =>
        if truthy r then
          match sortInsert f s1 loc p1 p2 body x restRev.reverse with
          | .ok l s2 => .ok (l ++ [y]) s2
          | .err m se => .err m se
          | .fuel => .fuel
        else .ok (acc ++ [x]) s1
      | .ok _ sx => .err "the callback must return a value" sx
      | .err m se => .err m se
      | .fuel => .fuel

/-- a block: new scope; stops at the first `return` / control statement -/
def evalBlock : Nat → St α → Nat → List Node → Res α (Out α)
  | 0, _, _, _ => .fuel
  | f + 1, s, env, body =>
    let (s1, scope) := newFrame s (some env)
    evalSeq f s1 scope body

def evalSeq : Nat → St α → Nat → List Node → Res α (Out α)
  | 0, _, _, _ => .fuel
  | _f + 1, s, _, [] => .ok (.val .null) s
  | f + 1, s, env, n :: ns =>
    match evalNode f s env n with
    | .ok (.ret v) s1 => .ok (.ret v) s1
    | .ok (.ctrl k) s1 => .ok (.ctrl k) s1
    | .ok (.val _) s1 => evalSeq f s1 env ns
    | .err m se => .err m se
    | .fuel => .fuel

def evalNode : Nat → St α → Nat → Node → Res α (Out α)
  | 0, _, _, _ => .fuel
  | f + 1, s, env, n =>
    match n with
    | .expr e =>
      match evalExpr f s env e with
      | .ok v s1 => .ok (.val v) s1
      | .err m se => .err m se
      | .fuel => .fuel
    | .block l => evalBlock f s env l
    | .letS x e =>
      match evalExpr f s env e with
      | .ok v s1 => if definedHere s1 env x then .err "variable already exists" s1 else .ok (.val .null) (setVar s1 env x v)
      | .err m se => .err m se
      | .fuel => .fuel
    | .fn name args body =>
      if definedHere s env name then .err "variable already exists" s else .ok (.val .null) (setVar s env name (.fn args body))
    | .assign x e =>
      match evalExpr f s env e with
      | .ok v s1 =>
        match lookup s1 env x with
        | some (fr, _) => .ok (.val v) (setVar s1 fr x v)
        | none => .err "variable does not exist" s1
      | .err m se => .err m se
      | .fuel => .fuel
    | .ret e =>
      match evalExpr f s env e with
      | .ok v s1 => .ok (.ret v) s1
      | .err m se => .err m se
      | .fuel => .fuel
    | .ctrl k => .ok (.ctrl k) s
    | .ifS c th el =>
      match evalExpr f s env c with
      | .ok cv s1 =>
        if truthy cv then evalBlock f s1 env th
        else match el with
          | some n' => evalNode f s1 env n'
          | none => .ok (.val .null) s1
      | .err m se => .err m se
      | .fuel => .fuel
    | .while c body => whileLoop f s env c body
    | .forS ini c post body =>
      let (s0, scope) := newFrame s (some env)
      match (match ini with | some n' => evalNode f s0 scope n' | none => .ok (.val .null) s0) with
      | .ok _ s1 => forLoop f s1 scope c post body
      | .err m se => .err m se
      | .fuel => .fuel
    | .switchS c cases dflt =>
      match (match c with | some e => evalExpr f s env e | none => .ok .null s) with
      | .ok cv s1 =>
        if !(isNum cv || (match cv with | .null => true | _ => false)) then .err "switch condition does not evaluate to a number" s1
        else switchLoop f s1 env cv cases dflt false false
      | .err m se => .err m se
      | .fuel => .fuel

/-- `while`: a `return` inside the body leaves the loop and is passed on -/
def whileLoop : Nat → St α → Nat → Expr → List Node → Res α (Out α)
  | 0, _, _, _, _ => .fuel
  | f + 1, s, env, c, body =>
    match evalExpr f s env c with
    | .ok cv s1 =>
      if !truthy cv then .ok (.val .null) s1
      else
        match evalBlock f s1 env body with
        | .ok (.ret v) s2 => .ok (.ret v) s2
        | .ok (.ctrl 1) s2 => .ok (.val .null) s2
        | .ok _ s2 => whileLoop f s2 env c body
        | .err m se => .err m se
        | .fuel => .fuel
    | .err m se => .err m se
    | .fuel => .fuel

def forLoop : Nat → St α → Nat → Option Expr → Option Node → List Node → Res α (Out α)
  | 0, _, _, _, _, _ => .fuel
  | f + 1, s, scope, c, post, body =>
    match (match c with | some e => evalExpr f s scope e | none => .ok (.int 1) s) with
    | .ok cv s1 =>
      if !truthy cv then .ok (.val .null) s1
      else
        match evalBlock f s1 scope body with
        | .ok (.ret v) s2 => .ok (.ret v) s2
        | .ok (.ctrl 1) s2 => .ok (.val .null) s2
        | .ok _ s2 =>
          match (match post with | some n' => evalNode f s2 scope n' | none => .ok (.val .null) s2) with
          | .ok _ s3 => forLoop f s3 scope c post body
          | .err m se => .err m se
          | .fuel => .fuel
        | .err m se => .err m se
        | .fuel => .fuel
    | .err m se => .err m se
    | .fuel => .fuel

/-- `switch`: the first matching case runs; `fallthrough` continues into the next case (and the
default after the last); `break` leaves the switch -/
def switchLoop : Nat → St α → Nat → Val α → List (Expr × List Node) → Option (List Node) → Bool → Bool → Res α (Out α)
  | 0, _, _, _, _, _, _, _ => .fuel
  | f + 1, s, env, _, [], dflt, ft, found =>
    if !found || ft then
      match dflt with
      | some b => evalBlock f s env b
      | none => .ok (.val .null) s
    else .ok (.val .null) s
  | f + 1, s, env, cv, (ce, body) :: rest, dflt, ft, found =>
    match evalExpr f s env ce with
    | .ok cc s1 =>
      if !isNum cc then .err "switch case condition does not evaluate to a number" s1
      else
        let hit := (match cv with
          | .null => truthy cc
          | _ => match binop Lex.tEq cc cv with | .ok r => truthy r | .error _ => false) || ft
        if hit then
          match evalBlock f s1 env body with
          | .ok (.ctrl 3) s2 => switchLoop f s2 env cv rest dflt true true
          | .ok (.ctrl 1) s2 => .ok (.val .null) s2
          | .ok (.ctrl _) s2 => switchLoop f s2 env cv rest dflt ft true
          | .ok o s2 => .ok o s2
          | .err m se => .err m se
          | .fuel => .fuel
        else switchLoop f s1 env cv rest dflt ft found
    | .err m se => .err m se
    | .fuel => .fuel

end

/-! ### the decision interface (`eval/action.go`): what the engine asks the script -/

/-- `evalTargetNode`: run a registered callback in its captured environment. `none`: an error (the
callback failed, or answered something that is neither `null` nor an action of an allowed type);
`some none`: it answered `null`; `some (some a)`: the action it answered, aimed by the rule it named,
for the unit the callback was registered for.  The state reached is kept in every case (side effects
of a failing callback persist). -/
def runCB (fuel : Nat) (s : St α) (cb : CB α) (allowed : List String) : Option (Option (Val α)) × St α :=
  match evalBlock mkF fuel s cb.env cb.body with
  | .ok (.ret (.act typ ev _)) s1 => if allowed.contains typ then (some (some (.act typ ev cb.target)), s1) else (none, s1)
  | .ok (.ret .null) s1 => (some none, s1)
  | .ok _ s1 => (none, s1)
  | .err _ se => (none, se)
  | .fuel => (none, s)

/-- `Eval.DefaultAction` -/
def defaultAction (s : St α) (t : Int) : Option (Val α) := (s.defaults.find? (·.1 == t)).map (·.2)

/-- `Eval.NextAction`: the registered skill callback's answer when it is an attack or a skill — the type
and the target rule the callback named, whatever the default action is —, the registered default action
when the callback answers `null`; an error (`none`) when no callback is registered for the unit, when
the callback fails or answers anything else, and when `null` meets no registered default. -/
def nextAction (fuel : Nat) (s : St α) (t : Int) : Option (Val α) × St α :=
  match s.skillCB.find? (·.target == t) with
  | none => (none, s)
  | some cb =>
    match runCB mkF fuel s cb ["attack", "skill"] with
    | (none, s1) => (none, s1)
    | (some (some a), s1) => (some a, s1)
    | (some none, s1) => (defaultAction s1 t, s1)

/-- `Eval.UltCheck`: every registered ultimate callback in registration order; the ultimates asked for
(a `null` answer asks for none); the first failing callback fails the whole check (later ones are not run). -/
def ultCheck (fuel : Nat) : St α → List (CB α) → List (Val α) → Option (List (Val α)) × St α
  | s, [], acc => (some acc, s)
  | s, cb :: rest, acc =>
    match runCB mkF fuel s cb ["ult", "ult_attack", "ult_skill"] with
    | (none, s1) => (none, s1)
    | (some (some a), s1) => ultCheck fuel s1 rest (acc ++ [a])
    | (some none, s1) => ultCheck fuel s1 rest acc

end eval

/-- the global environment after `Init`: builtins and the target-evaluator constants -/
def initSt (draws : List α) (w : World α := {}) : St α :=
  -- `Init` in its order: system functions and evaluator constants, actions, condition builtins,
  -- enumeration constants, character names; a later registration of a name replaces an earlier one
  let regs : List (List Nat × Val α) := (builtins.map fun b => (txt b, Val.bif b)) ++
    [(txt "First", .int 100), (txt "LowestHP", .int 101), (txt "LowestHPRatio", .int 102)] ++
    (condBuiltins.map fun b => (txt b.1, Val.bif b.1)) ++
    (enumTable.map fun e => (txt e.1, Val.int e.2)) ++
    ((w.units.filter (·.cls == 0)).map fun u => (u.key, Val.int u.id))
  let vars := regs.foldl (fun acc kv => if acc.any (·.1 == kv.1) then acc.map (fun x => if x.1 == kv.1 then kv else x) else acc ++ [kv]) []
  let g : Frame α := ⟨none, vars⟩
  { frames := #[g], draws := draws, world := w }

end Gcs.Eval
