import Srsim.Num
/-
Model of `pkg/engine/shield` (add.go, absorb.go, remove.go, manager.go).

The stats the manager reads through `attribute.Getter` (shielder ATK/DEF/max HP and shield
bonus, target max HP and shield-taken bonus) are parameters of the `add` operation.
The formula map is a list of (formula kind, coefficient) in ascending kind order — the order
in which the code sums the terms.
-/
namespace Shield

structure Inst (α : Type) where
  key : Int
  hp : α
deriving Inhabited

/-- the manager's `targets` map: unit id ↦ active shields in attachment order -/
structure St (α : Type) where
  shields : Int → List (Inst α) := fun _ => []

/-- evaluated stats used by `AddShield` -/
structure AddStats (α : Type) where
  srcATK : α
  srcDEF : α
  srcHP : α
  tgtHP : α
  boost : α
  taken : α

inductive Op (α : Type)
  | add (key : Int) (src tgt : Int) (terms : List (Nat × α)) (flat : α) (st : AddStats α)
  | remove (key : Int) (tgt : Int)
  | absorb (tgt : Int) (dmg : α)

inductive Ev (α : Type)
  | added (key : Int) (src tgt : Int) (health : α)
  | removed (key : Int) (tgt : Int)
  | change (tgt : Int) (key : Int) (old new dmgIn dmgOut : α)
  | ret (out : α)

variable {α : Type} [Num α]

/-- the value returned to the caller of `AbsorbDamage` -/
def retEv? : Ev α → Option α
  | .ret o => some o
  | _ => none

def shieldsOf (s : St α) (t : Int) : List (Inst α) := s.shields t

def setShields (s : St α) (t : Int) (l : List (Inst α)) : St α :=
  { shields := fun t' => if t' = t then l else s.shields t' }

/-- `MaxShield`: strongest shield, 0 when none (or none positive) -/
def maxShield (l : List (Inst α)) : α :=
  l.foldl (fun m i => if i.hp > m then i.hp else m) 0

/-- value of one formula term -/
def termVal (st : AddStats α) (srcMax : α) (k : Nat) (c : α) : α :=
  if k == 1 then c * st.srcATK
  else if k == 2 then c * st.srcDEF
  else if k == 3 then c * st.srcHP
  else if k == 4 then c * st.tgtHP
  else if k == 5 then c * srcMax
  else 0

/-- base strength: formula terms in list order, then the flat value -/
def baseHP (st : AddStats α) (srcMax : α) (terms : List (Nat × α)) (flat : α) : α :=
  terms.foldl (fun acc kc => acc + termVal st srcMax kc.1 kc.2) 0 + flat

def strength (st : AddStats α) (srcMax : α) (terms : List (Nat × α)) (flat : α) : α :=
  baseHP st srcMax terms flat * (1 + st.boost) * (1 + st.taken)

/-- same key replaces in place, otherwise append -/
def upsert (l : List (Inst α)) (i : Inst α) : List (Inst α) :=
  if l.any (·.key == i.key) then l.map fun j => if j.key == i.key then i else j
  else l ++ [i]

/-- `math.Dim` -/
def dim (a b : α) : α := if a - b > 0 then a - b else 0

def absorbList (l : List (Inst α)) (dmg : α) : List (Inst α) :=
  (l.map fun i => { i with hp := dim i.hp dmg }).filter fun i => !(Num.eqb i.hp 0)

def removedKeys (l : List (Inst α)) (dmg : α) : List Int :=
  ((l.map fun i => ({ i with hp := dim i.hp dmg } : Inst α)).filter fun i => Num.eqb i.hp 0).map (·.key)

/-- damage passed on: the least `Dim(dmg, hp)` over all shields (starting from `dmg`) -/
def damageOut (l : List (Inst α)) (dmg : α) : α :=
  l.foldl (fun out i => if dim dmg i.hp < out then dim dmg i.hp else out) dmg

/-- key of the strongest remaining shield (first strict maximum above 0), 0 if none -/
def maxKey (l : List (Inst α)) : Int :=
  (l.foldl (fun (acc : α × Int) i => if i.hp > acc.1 then (i.hp, i.key) else acc) (0, 0)).2

def step (s : St α) : Op α → St α × List (Ev α)
  | .add key src tgt terms flat st =>
    let srcMax := maxShield (shieldsOf s src)
    (setShields s tgt (upsert (shieldsOf s tgt) ⟨key, strength st srcMax terms flat⟩),
     [.added key src tgt (baseHP st srcMax terms flat)])
  | .remove key tgt =>
    if (shieldsOf s tgt).any (·.key == key) then
      (setShields s tgt ((shieldsOf s tgt).filter (·.key != key)), [.removed key tgt])
    else (s, [])
  | .absorb tgt dmg =>
    if (shieldsOf s tgt).isEmpty || dmg ≤ 0 then (s, [.ret dmg])
    else
      (setShields s tgt (absorbList (shieldsOf s tgt) dmg),
       (removedKeys (shieldsOf s tgt) dmg).map (fun k => Ev.removed k tgt) ++
       [.change tgt (maxKey ((shieldsOf s tgt).map fun i => { i with hp := dim i.hp dmg }))
          (maxShield (shieldsOf s tgt))
          (maxShield ((shieldsOf s tgt).map fun i => { i with hp := dim i.hp dmg }))
          dmg (damageOut (shieldsOf s tgt) dmg),
        .ret (damageOut (shieldsOf s tgt) dmg)])

def run (s : St α) : List (Op α) → St α × List (Ev α)
  | [] => (s, [])
  | op :: ops => ((run (step s op).1 ops).1, (step s op).2 ++ (run (step s op).1 ops).2)

end Shield
