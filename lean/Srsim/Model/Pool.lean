/-
Model of the collecting loop of the server-mode worker pool (`pkg/servermode/pool.go`, `workerpool.run`):
what the pool publishes (`w.result.Statistics`, served by `/latest`) as a function of the events its
`select` receives.  The statistics themselves are the aggregators' (model `Agg`); here only *which
results* a published report summarises matters, so a report is represented by the list of results that
had been added when it was flushed (every flush is cumulative and a function of the multiset added so
far: `Props/C19.lean`).  `ρ` is the type of an iteration result.
-/
namespace Pool

structure Cfg where
  iterations : Nat
  flushInterval : Nat
deriving Repr

/-- what the loop's `select` can receive -/
inductive Ev (ρ : Type)
  | result (r : ρ)   -- an iteration result from a worker
  | error            -- an error from a worker
  | cancel           -- the cancel channel was closed (`/cancel`, or the timeout watchdog)
deriving Repr, DecidableEq

structure St (ρ : Type) where
  added : List ρ := []          -- the results handed to the aggregators, in arrival order
  lastFlush : Nat := 0
  /-- `w.result`: `none` after an error (`handleErr` drops the result); otherwise the results the
  published statistics summarise (`CreateResult` starts with empty statistics: none of them) -/
  published : Option (List ρ) := some []
  done : Bool := false
  failed : Bool := false
deriving Repr

variable {ρ : Type}

/-- `w.currentCount` -/
def St.count (s : St ρ) : Nat := s.added.length

/-- leaving the loop normally: the final flush -/
def finish (s : St ρ) : St ρ := { s with published := some s.added, done := true }

/-- entering `run` (after parsing and aggregator setup succeeded): the loop condition is looked at first -/
def start (c : Cfg) : St ρ := if 0 < c.iterations then {} else finish {}

/-- one result: added to the aggregators and counted; an interim flush when the interval is exceeded -/
def bump (c : Cfg) (s : St ρ) (r : ρ) : St ρ :=
  if s.count + 1 - s.lastFlush > c.flushInterval then
    { s with added := s.added ++ [r], lastFlush := s.count + 1, published := some (s.added ++ [r]) }
  else { s with added := s.added ++ [r] }

def step (c : Cfg) (s : St ρ) (e : Ev ρ) : St ρ :=
  if s.done then s
  else match e with
    | .error => { s with published := none, done := true, failed := true }
    | .cancel => finish s
    | .result r => if s.count + 1 < c.iterations then bump c s r else finish (bump c s r)

def run (c : Cfg) (evs : List (Ev ρ)) : St ρ := evs.foldl (step c) (start c)

/-- the results received before the loop stopped -/
def received (c : Cfg) : List ρ → List (Ev ρ) → List ρ
  | acc, [] => acc
  | acc, e :: es =>
    if c.iterations ≤ acc.length then acc
    else match e with
      | .result r => received c (acc ++ [r]) es
      | _ => acc

end Pool
