/-
Model of the collecting loop of the server-mode worker pool (`pkg/servermode/pool.go`, `workerpool.run`):
what the pool publishes (`w.result.Statistics`, served by `/latest`) as a function of the events its
`select` receives.  The statistics themselves are the aggregators' (model `Agg`); here only *which
results* a published report summarises matters, so a report is represented by the number of results
that had been added when it was flushed (every flush is cumulative: `Agg`'s `flush` theorems).
-/
namespace Pool

structure Cfg where
  iterations : Nat
  flushInterval : Nat
deriving Repr

/-- what the loop's `select` can receive -/
inductive Ev
  | result   -- an iteration result from a worker
  | error    -- an error from a worker
  | cancel   -- the cancel channel was closed (`/cancel`, or the timeout watchdog)
deriving Repr, DecidableEq

structure St where
  count : Nat := 0              -- `w.currentCount`: results added to the aggregators
  lastFlush : Nat := 0
  /-- `w.result`: `none` after an error (`handleErr` drops the result); otherwise the number of results
  the published statistics summarise (`CreateResult` starts with empty statistics: 0) -/
  published : Option Nat := some 0
  done : Bool := false
  failed : Bool := false
deriving Repr

/-- leaving the loop normally: the final flush -/
def finish (s : St) : St := { s with published := some s.count, done := true }

/-- entering `run` (after parsing and aggregator setup succeeded): the loop condition is looked at first -/
def start (c : Cfg) : St := if 0 < c.iterations then {} else finish {}

/-- one result: added to the aggregators and counted; an interim flush when the interval is exceeded -/
def bump (c : Cfg) (s : St) : St :=
  if s.count + 1 - s.lastFlush > c.flushInterval then
    { s with count := s.count + 1, lastFlush := s.count + 1, published := some (s.count + 1) }
  else { s with count := s.count + 1 }

def step (c : Cfg) (s : St) (e : Ev) : St :=
  if s.done then s
  else match e with
    | .error => { s with published := none, done := true, failed := true }
    | .cancel => finish s
    | .result => if s.count + 1 < c.iterations then bump c s else finish (bump c s)

def run (c : Cfg) (evs : List Ev) : St := evs.foldl (step c) (start c)

/-- the results received before the loop stopped -/
def added (c : Cfg) : Nat → List Ev → Nat
  | n, [] => n
  | n, e :: es =>
    if c.iterations ≤ n then n
    else match e with
      | .result => added c (n + 1) es
      | _ => n

end Pool
