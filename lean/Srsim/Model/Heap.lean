/-
A tiny heap model of how `modifier.newInstance` treats the property maps of the description it
is given (C06 "each modifier instance owns its data").  Go maps are reference values: storing
the caller's map in the instance *shares* it; allocating a new map and copying the entries makes
the instance *own* its data.
-/
namespace Heap

abbrev Ref := Nat
abbrev PMap := List (Nat × Int)          -- property ↦ amount (amounts abstracted to integers)

structure St where
  store : Ref → PMap := fun _ => []
  next : Ref := 0
  descs : List Ref := []                 -- maps owned by callers (modifier descriptions)
  insts : List Ref := []                 -- maps held by attached instances

inductive Op
  | newDesc (m : PMap)                   -- a caller builds a description
  | attach (d : Nat)                     -- AddModifier with the d-th description
  | mutInst (i : Nat) (p : Nat) (x : Int)  -- Instance.AddProperty on the i-th instance
  | mutDesc (d : Nat) (p : Nat) (x : Int)  -- the caller changes its own description afterwards

def addTo (m : PMap) (p : Nat) (x : Int) : PMap :=
  if m.any (·.1 == p) then m.map fun q => if q.1 == p then (p, q.2 + x) else q else m ++ [(p, x)]

def write (s : St) (r : Ref) (m : PMap) : St := { s with store := fun r' => if r' = r then m else s.store r' }

/-- `copy = true`: the repaired `newInstance` (fresh map, entries copied);
`copy = false`: the instance stores the caller's map itself. -/
def step (copy : Bool) (s : St) : Op → St
  | .newDesc m => { write s s.next m with next := s.next + 1, descs := s.descs ++ [s.next] }
  | .attach d =>
    match s.descs[d]? with
    | none => s
    | some r =>
      if copy then { write s s.next (s.store r) with next := s.next + 1, insts := s.insts ++ [s.next] }
      else { s with insts := s.insts ++ [r] }
  | .mutInst i p x =>
    match s.insts[i]? with
    | none => s
    | some r => write s r (addTo (s.store r) p x)
  | .mutDesc d p x =>
    match s.descs[d]? with
    | none => s
    | some r => write s r (addTo (s.store r) p x)

def run (copy : Bool) (s : St) : List Op → St
  | [] => s
  | op :: ops => run copy (step copy s op) ops

/-- what the i-th instance / d-th description reads -/
def readInst (s : St) (i : Nat) : Option PMap := (s.insts[i]?).map s.store
def readDesc (s : St) (d : Nat) : Option PMap := (s.descs[d]?).map s.store

/-- all maps held by instances and by callers are pairwise different objects, and allocated -/
def Separated (s : St) : Prop := (s.descs ++ s.insts).Nodup ∧ ∀ r ∈ s.descs ++ s.insts, r < s.next

end Heap
