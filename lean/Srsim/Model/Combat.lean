import Srsim.Model.Attr
import Srsim.Model.Shield
/-
Model of `pkg/engine/combat` (damage.go, hit.go, attack.go, heal.go) on top of the attribute
and shield models.  Each unit carries a record of the evaluated properties the formulas read
(`CStats`); element-indexed properties are lists indexed by damage type (1..7).
`BreakBaseDamage[level]` is a parameter of the attack (the table is data, see DESIGN §6).
The run's random generator is the explicit `draw` parameter of an attack's hits.
-/
namespace Combat

structure CStats (α : Type) where
  atk : α
  defn : α
  maxHP : α
  level : Int
  allDmgPct : α
  dmgPct : List α
  dotPct : α
  breakEffect : α
  allRes : α
  res : List α
  allPen : α
  pen : List α
  allTaken : α
  taken : List α
  reduce : α
  fatigue : α
  critChance : α
  critDmg : α
  healBoost : α
  healTaken : α
  weak : List Bool
  isChar : Bool

structure St (α : Type) where
  attr : Attr.St α := {}
  sh : Shield.St α := {}
  cs : Int → Option (CStats α) := fun _ => none
  inAttack : Bool := false
  atkKey : Int := 0
  atkSrc : Int := 0
  atkTargets : List Int := []
  atkType : Nat := 0
  atkDmgType : Nat := 0

/-- adjustment a `HitStart` listener makes to the stats snapshots of one hit (the hit's own copies) -/
structure HitAdj (α : Type) where
  onlyTgt : Int       -- 0: on every hit of the attack; otherwise only on the hit against this defender
  attDmgAdd : α       -- added to the attacker's all-damage bonus
  attCritAdd : α      -- added to the attacker's crit chance
  defTakenAdd : α     -- added to the defender's all-damage-taken
  defReduceAdd : α    -- a further damage reduction of the defender (reductions combine multiplicatively: `PropMap.Modify`)
  attFatigueAdd : α   -- a further fatigue of the attacker (combines the same way)

structure AttackP (α : Type) where
  key : Int
  src : Int
  targets : List Int
  atkType : Nat
  dmgType : Nat
  terms : List (Nat × α)
  flat : α
  hitRatio : α
  asPure : Bool
  energyGain : α
  stanceDamage : α
  bbd : α            -- BreakBaseDamage[attacker level]
  draws : List α     -- one draw per hit that consults the generator
  adj : Option (HitAdj α) := none

/-- adjustment a `HealStart` listener makes (mutable event) -/
structure HealAdj (α : Type) where
  flatAdd : α
  termKind : Nat     -- 0 = none
  termSet : α
  healerAtkAdd : α
  targetTakenAdd : α

structure HealP (α : Type) where
  key : Int
  src : Int
  targets : List Int
  terms : List (Nat × α)
  flat : α
  adj : Option (HealAdj α)

inductive Op (α : Type)
  | unit (u : Attr.Unit α) (c : CStats α)         -- register a unit with its stats
  | stats (id : Int) (c : CStats α) (regen stancePct : α)   -- stats change between calls
  | shield (key src tgt : Int) (hp : α)           -- give `tgt` a shield of strength `hp`
  | sethp (id : Int) (amt : α)
  | attack (p : AttackP α)
  | endAttack
  | heal (p : HealP α)

inductive Ev (α : Type)
  | attr (e : Attr.Ev α)
  | shield (e : Shield.Ev α)
  | attackStart (key src : Int) (targets : List Int) (atkType dmgType : Nat)
  | attackEnd (key src : Int) (targets : List Int) (atkType dmgType : Nat)
  | hitStart (src tgt : Int)
  | hitEnd (src tgt : Int) (base defM res vul tough fatigue reduce critDmg total hpDmg shieldDmg hpRem : α) (crit : Bool)
  | healStart (src tgt : Int)
  | healEnd (src tgt : Int) (amount overflow : α)

variable {α : Type} [Num α]

/-- `info.statCalc`: a stat is base × (1 + percent) + flat, and never below zero -/
def statCalc (base pct flat : α) : α :=
  if base * (1 + pct) + flat < 0 then 0 else base * (1 + pct) + flat

def nth (l : List α) (i : Nat) : α := l.getD i 0

/-- factors of one hit, by the party the documented formula names -/
structure Factors (α : Type) where
  base : α
  defM : α
  res : α
  vul : α
  tough : α
  fatigue : α
  reduce : α
  critDmg : α
  crit : Bool

def termVal (a : CStats α) (bbd : α) (k : Nat) (c : α) : α :=
  if k == 1 then c * a.atk else if k == 2 then c * a.defn else if k == 3 then c * a.maxHP
  else if k == 4 then c * bbd else 0

def baseDamage (a : CStats α) (p : AttackP α) : α :=
  p.terms.foldl (fun acc kc => acc + termVal a p.bbd kc.1 kc.2) 0

def hasBreakTerm (p : AttackP α) : Bool := p.terms.any fun kc => kc.1 == 4 && Num.neb kc.2 0

def bonus (a : CStats α) (p : AttackP α) : α :=
  let d0 : α := 1
  let d1 := if p.asPure then d0 else
    (if p.atkType == 4 then d0 + (a.allDmgPct + nth a.dmgPct p.dmgType) + a.dotPct
     else d0 + (a.allDmgPct + nth a.dmgPct p.dmgType))
  if hasBreakTerm p then d1 + a.breakEffect else d1

def canCrit (p : AttackP α) : Bool := !(p.atkType == 4 || p.atkType == 9 || p.asPure)

def ofLevel (l : Int) : α := Num.ofInt l

def factors (a d : CStats α) (dStance : α) (p : AttackP α) (ratio : α) (draw : α) : Factors α :=
  let crit := canCrit p && decide (draw < a.critChance)
  let r0 := (d.allRes + nth d.res p.dmgType) - (nth a.pen p.dmgType + a.allPen)
  let r1 := if r0 < -1 then -1 else if r0 > 0.9 then 0.9 else r0
  let v0 := (1 + d.allTaken) + nth d.taken p.dmgType
  let rd := 1 - d.reduce
  { base := baseDamage a p * ratio * bonus a p + p.flat
    defM := 1 - (d.defn / (d.defn + 200 + 10 * ofLevel a.level))
    res := 1 - r1
    vul := if v0 > 3.5 then 3.5 else v0
    tough := if Num.eqb dStance 0 then 1 else 0.9
    fatigue := 1 - a.fatigue
    reduce := if rd < 0.01 then 0.01 else rd
    critDmg := if crit then 1 + a.critDmg else 1
    crit := crit }

def Factors.total (f : Factors α) : α :=
  f.base * f.defM * f.res * f.vul * f.tough * f.fatigue * f.reduce * f.critDmg

def stanceOfU (s : St α) (id : Int) : α :=
  match Attr.find? s.attr id with
  | some u => u.stance
  | none => 0

def hpRatioOfU (s : St α) (id : Int) : α :=
  match Attr.find? s.attr id with
  | some u => u.hpRatio
  | none => 0

def lifeOfU (s : St α) (id : Int) : Option Attr.Life := (Attr.find? s.attr id).map (·.life)

def attrStep (s : St α) (op : Attr.Op α) : St α × List (Ev α) :=
  ({ s with attr := (Attr.step s.attr op).1 }, (Attr.step s.attr op).2.map Ev.attr)

/-- drop the pseudo-event carrying the return value and error markers -/
def nonRet? : Shield.Ev α → Option (Ev α)
  | .ret _ => none
  | e => some (Ev.shield e)

def shieldEvs (l : List (Shield.Ev α)) : List (Ev α) := l.filterMap nonRet?

def shieldRet (l : List (Shield.Ev α)) (dflt : α) : α := (l.findSome? Shield.retEv?).getD dflt

def dfltStats : CStats α :=
  { atk := 0, defn := 0, maxHP := 0, level := 1, allDmgPct := 0, dmgPct := [], dotPct := 0, breakEffect := 0,
    allRes := 0, res := [], allPen := 0, pen := [], allTaken := 0, taken := [], reduce := 0, fatigue := 0,
    critChance := 0, critDmg := 0, healBoost := 0, healTaken := 0, weak := [], isChar := false }

def statsOf (s : St α) (id : Int) : CStats α := (s.cs id).getD dfltStats

/-! `performHit`, split into named stages so that theorems can speak about each. -/

def hitRatioOf (p : AttackP α) : α := if p.hitRatio ≤ 0 then 1 else p.hitRatio

/-- does the listener adjust the hit against `tgt` -/
def adjApplies (a : HitAdj α) (tgt : Int) : Bool := a.onlyTgt == 0 || a.onlyTgt == tgt

/-- how damage reductions and fatigue stack (`info.PropMap.Modify`): the remaining shares multiply -/
def stackReduce (old add : α) : α := 1 - (1 - old) * (1 - add)

/-- the attacker's stats as the hit against `tgt` sees them: a fresh snapshot per hit, plus what the
hit listener added to *this* hit's snapshot -/
def attackerFor (s : St α) (p : AttackP α) (tgt : Int) : CStats α :=
  match p.adj with
  | some a => if adjApplies a tgt then
      { statsOf s p.src with allDmgPct := (statsOf s p.src).allDmgPct + a.attDmgAdd, critChance := (statsOf s p.src).critChance + a.attCritAdd,
                             fatigue := stackReduce (statsOf s p.src).fatigue a.attFatigueAdd }
    else statsOf s p.src
  | none => statsOf s p.src

def defenderFor (s : St α) (p : AttackP α) (tgt : Int) : CStats α :=
  match p.adj with
  | some a => if adjApplies a tgt then
      { statsOf s tgt with allTaken := (statsOf s tgt).allTaken + a.defTakenAdd, reduce := stackReduce (statsOf s tgt).reduce a.defReduceAdd }
    else statsOf s tgt
  | none => statsOf s tgt

def hitFactors (s : St α) (p : AttackP α) (tgt : Int) (draw : α) : Factors α :=
  factors (attackerFor s p tgt) (defenderFor s p tgt) (stanceOfU s tgt) p (hitRatioOf p) draw

/-- damage that reaches HP after the shields absorbed their part -/
def hitHP (s : St α) (p : AttackP α) (tgt : Int) (draw : α) : α :=
  shieldRet (Shield.step s.sh (.absorb tgt (hitFactors s p tgt draw).total)).2 (hitFactors s p tgt draw).total

/-- attribute effects of a hit: HP loss, toughness loss (only if weak), energy for the receiver -/
def attr1 (ast : Attr.St α) (p : AttackP α) (tgt : Int) (hp : α) : Attr.St α :=
  (Attr.step ast (.modHP tgt p.src (-hp) true)).1
def attr2 (ast : Attr.St α) (p : AttackP α) (tgt : Int) (hp : α) (weak : Bool) : Attr.St α :=
  if weak then (Attr.step (attr1 ast p tgt hp) (.modStance tgt p.src (-p.stanceDamage * hitRatioOf p))).1
  else attr1 ast p tgt hp
def receiver (isChar : Bool) (p : AttackP α) (tgt : Int) : Int := if isChar then p.src else tgt
def attr3 (ast : Attr.St α) (p : AttackP α) (tgt : Int) (hp : α) (weak isChar : Bool) : Attr.St α :=
  (Attr.step (attr2 ast p tgt hp weak) (.modEnergy (receiver isChar p tgt) p.src (p.energyGain * hitRatioOf p))).1

def attrEvents (ast : Attr.St α) (p : AttackP α) (tgt : Int) (hp : α) (weak isChar : Bool) : List (Attr.Ev α) :=
  (Attr.step ast (.modHP tgt p.src (-hp) true)).2 ++
  (if weak then (Attr.step (attr1 ast p tgt hp) (.modStance tgt p.src (-p.stanceDamage * hitRatioOf p))).2 else []) ++
  (Attr.step (attr2 ast p tgt hp weak) (.modEnergy (receiver isChar p tgt) p.src (p.energyGain * hitRatioOf p))).2

def isWeak (s : St α) (p : AttackP α) (tgt : Int) : Bool := (statsOf s tgt).weak.getD p.dmgType false

/-- HP ratio of the defender after the hit (reported as `HPRatioRemaining`) -/
def hitRem (s : St α) (p : AttackP α) (tgt : Int) (draw : α) : α :=
  match Attr.find? (attr3 s.attr p tgt (hitHP s p tgt draw) (isWeak s p tgt) (statsOf s p.src).isChar) tgt with
  | some u => u.hpRatio
  | none => 0

/-- `performHit` -/
def performHit (s : St α) (p : AttackP α) (tgt : Int) (draw : α) : St α × List (Ev α) :=
  ({ s with sh := (Shield.step s.sh (.absorb tgt (hitFactors s p tgt draw).total)).1,
            attr := attr3 s.attr p tgt (hitHP s p tgt draw) (isWeak s p tgt) (statsOf s p.src).isChar },
   [Ev.hitStart p.src tgt] ++
   shieldEvs (Shield.step s.sh (.absorb tgt (hitFactors s p tgt draw).total)).2 ++
   (attrEvents s.attr p tgt (hitHP s p tgt draw) (isWeak s p tgt) (statsOf s p.src).isChar).map Ev.attr ++
   [Ev.hitEnd p.src tgt (hitFactors s p tgt draw).base (hitFactors s p tgt draw).defM (hitFactors s p tgt draw).res
      (hitFactors s p tgt draw).vul (hitFactors s p tgt draw).tough (hitFactors s p tgt draw).fatigue
      (hitFactors s p tgt draw).reduce (hitFactors s p tgt draw).critDmg (hitFactors s p tgt draw).total
      (hitHP s p tgt draw) ((hitFactors s p tgt draw).total - hitHP s p tgt draw)
      (hitRem s p tgt draw) (hitFactors s p tgt draw).crit])

def hits (s : St α) (p : AttackP α) : List Int → List α → St α × List (Ev α)
  | [], _ => (s, [])
  | t :: ts, draws =>
    let (dr, rest) := if canCrit p then (draws.headD 0, draws.tail) else (0, draws)
    let r := performHit s p t dr
    let r' := hits r.1 p ts rest
    (r'.1, r.2 ++ r'.2)

def isQualified (t : Nat) : Bool := !(t == 4 || t == 5 || t == 9)

def healTerm (h t : CStats α) (lost : α) (k : Nat) (c : α) : α :=
  if k == 1 then c * h.atk else if k == 2 then c * h.defn else if k == 3 then c * h.maxHP
  else if k == 4 then c * t.maxHP else if k == 5 then c * lost else 0

def applyAdjTerms (terms : List (Nat × α)) (adj : Option (HealAdj α)) : List (Nat × α) :=
  match adj with
  | none => terms
  | some a =>
    if a.termKind == 0 then terms
    else
      -- a listener sets one formula term (insert keeping ascending kind order, or overwrite)
      let rest := terms.filter (·.1 != a.termKind)
      (rest.filter (·.1 < a.termKind)) ++ [(a.termKind, a.termSet)] ++ (rest.filter (·.1 > a.termKind))

/-! one heal, split into named stages -/
def healerStats (s : St α) (p : HealP α) : CStats α :=
  match p.adj with
  | some a => { statsOf s p.src with atk := (statsOf s p.src).atk + a.healerAtkAdd }
  | none => statsOf s p.src
def healTargetStats (s : St α) (p : HealP α) (tgt : Int) : CStats α :=
  match p.adj with
  | some a => { statsOf s tgt with healTaken := (statsOf s tgt).healTaken + a.targetTakenAdd }
  | none => statsOf s tgt
def healFlat (p : HealP α) : α := match p.adj with | some a => p.flat + a.flatAdd | none => p.flat
/-- current HP of the target as the heal sees it -/
def healCur (s : St α) (p : HealP α) (tgt : Int) : α := hpRatioOfU s tgt * (healTargetStats s p tgt).maxHP
def healLost (s : St α) (p : HealP α) (tgt : Int) : α := (healTargetStats s p tgt).maxHP - healCur s p tgt
/-- amount of the heal before the overheal cut -/
def healAmount (s : St α) (p : HealP α) (tgt : Int) : α :=
  (applyAdjTerms p.terms p.adj).foldl
      (fun acc kc => acc + healTerm (healerStats s p) (healTargetStats s p tgt) (healLost s p tgt) kc.1 kc.2)
      (healFlat p)
    * (1 + (healerStats s p).healBoost) * (1 + (healTargetStats s p tgt).healTaken)
def healOverflow (s : St α) (p : HealP α) (tgt : Int) : α :=
  if healAmount s p tgt + healCur s p tgt > (healTargetStats s p tgt).maxHP
  then healAmount s p tgt + healCur s p tgt - (healTargetStats s p tgt).maxHP else 0
def healApplied (s : St α) (p : HealP α) (tgt : Int) : α :=
  if healAmount s p tgt + healCur s p tgt > (healTargetStats s p tgt).maxHP
  then healAmount s p tgt - healOverflow s p tgt else healAmount s p tgt

def healOne (s : St α) (p : HealP α) (tgt : Int) : St α × List (Ev α) :=
  ((attrStep s (.modHP tgt p.src (healApplied s p tgt) false)).1,
   [Ev.healStart p.src tgt] ++ (attrStep s (.modHP tgt p.src (healApplied s p tgt) false)).2 ++
   [Ev.healEnd p.src tgt (healApplied s p tgt) (healOverflow s p tgt)])

def heals (s : St α) (p : HealP α) : List Int → St α × List (Ev α)
  | [] => (s, [])
  | t :: ts =>
    let r := healOne s p t
    let r' := heals r.1 p ts
    (r'.1, r.2 ++ r'.2)

def attrUnitFor (u : Attr.Unit α) (c : CStats α) : Attr.Unit α :=
  { u with hpBase := c.maxHP, hpPct := 0, hpFlat := 0, hpConv := 0 }

def step (s : St α) : Op α → St α × List (Ev α)
  | .unit u c =>
    ({ s with attr := (Attr.step s.attr (.add (attrUnitFor u c))).1,
              cs := fun i => if i = u.id then some c else s.cs i }, [])
  | .stats id c regen stancePct =>
    match Attr.find? s.attr id with
    | none => (s, [])
    | some u =>
      ({ s with attr := Attr.setUnit s.attr { attrUnitFor u c with regen := regen, stancePct := stancePct },
                cs := fun i => if i = id then some c else s.cs i }, [])
  | .shield key src tgt hp =>
    ({ s with sh := Shield.setShields s.sh tgt (Shield.upsert (Shield.shieldsOf s.sh tgt) ⟨key, hp⟩) }, [])
  | .sethp id amt => attrStep s (.setHP id id amt false)
  | .attack p =>
    if p.targets.isEmpty || lifeOfU s p.src != some .alive then (s, [])
    else
      let start := !s.inAttack && isQualified p.atkType
      let s1 : St α := if start then
          { s with inAttack := true, atkKey := p.key, atkSrc := p.src, atkTargets := p.targets,
                   atkType := p.atkType, atkDmgType := p.dmgType } else s
      let r := hits s1 p p.targets p.draws
      (r.1, (if start then [Ev.attackStart p.key p.src p.targets p.atkType p.dmgType] else []) ++ r.2)
  | .endAttack =>
    if s.inAttack then
      ({ s with inAttack := false }, [Ev.attackEnd s.atkKey s.atkSrc s.atkTargets s.atkType s.atkDmgType])
    else (s, [])
  | .heal p =>
    if p.targets.isEmpty || lifeOfU s p.src != some .alive then (s, [])
    else heals s p p.targets

end Combat
