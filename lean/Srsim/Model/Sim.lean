import Srsim.Num
import Srsim.Model.Turn
/-
Model of the battle driver `pkg/simulation` (run.go, action.go, death.go, statistics.go, the
engine wrappers) together with the parts of the services it steers: the turn manager (the
`Turn` model), the life state of units (`attribute/event.go`), attack/hit brackets
(`combat/attack.go`), the insert queue (as its specification: pop the least (priority, insertion
number); `Props/C10Heap.lean` proves that the heap refines it), skill points, energy, the script
interface (`character/execute.go`, `evaltarget`).

What character, enemy and modifier code does is a parameter: small programs of engine calls
(`Cmd`).  How much damage a hit deals and what the HP ratio is after an HP primitive is an oracle
(`hitO`, `markO`), as is the enemy's random target (`pickO`): the theorems hold for every oracle,
the correspondence check feeds the values the implementation produced.
-/
namespace Sim

inductive Ev (α : Type)
  | initialize
  | charsAdded (ids : List Int)
  | enemiesAdded (ids : List Int)
  | targetsAdded (ids : List Int) (order : List (Int × Int))
  | battleStart
  | turnStart (active : Int) (delta total : α) (order : List (Int × Int))
  | phase1Start | phase1End | phase2Start | phase2End | turnEnd
  | turnReset (id : Int) (cost : α) (order : List (Int × Int))
  | gauge (id : Int) (old new : Int) (order : List (Int × Int))
  | termination (reason : Nat) (total : α)
  | actionStart (owner : Int) (atype : Nat) (isInsert : Bool)
  | actionEnd (owner : Int) (atype : Nat) (isInsert : Bool)
  | insertStart (owner : Int) (key : Nat) (prio : Int)
  | insertEnd (owner : Int) (key : Nat) (prio : Int)
  | attackStart (a : Int) (atype : Nat)
  | attackEnd (a : Int) (atype : Nat)
  | hitStart (a d : Int)
  | hitEnd (a d : Int) (total ratio : α)
  | healStart (src t : Int)
  | healEnd (src t : Int)
  | hpChange (t : Int) (old new : α) (dmg : Bool)
  | limbo (t : Int) (held : Bool)
  | death (t killer : Int)
  | sp (old new : Int)
  | energy (t : Int) (old new : α)
  | pick (t : Int)
  | mark (t : Int) (r : α)

inductive Sel | self | primary | opp | friends | unit (id : Int)
deriving Repr, Inhabited

/-- one engine call of scripted content; `op` as in the harness (`A` attack, `E` end attack, `H` heal,
`C` HP cost, `I` insert ability, `T` insert action, `G` set gauge, `N` energy, `M`/`R` add/remove modifier,
`S` skill points) -/
structure Cmd where
  op : Char
  sel : Sel := .self
  a : Int := 0
  b : Int := 0
  c : Int := 0
deriving Inhabited

/-- script decision: `typ` 0 attack, 1 skill, 2 anything else; `ev` 100 first, 101 lowest HP,
102 lowest HP ratio, otherwise a unit id -/
structure Dec where
  typ : Nat := 0
  ev : Int := 100
deriving Inhabited

/-- `typ`: 0 "ult", 1 "ult_attack", 2 "ult_skill", anything else another action type -/
structure UltAsk where
  target : Int
  typ : Nat
  ev : Int
deriving Inhabited

/-- target types: 1 self, 2 allies, 3 enemies -/
structure Kind where
  attackT : Nat := 3
  skillT : Nat := 3
  ultT : Nat := 3
  spNeed : Int := 1
  spAdd : Int := 1
  /-- the character has two ultimates (`info.MultiUlt`): the script must say `ult_attack` or
  `ult_skill`, and the target rule is always lowest HP -/
  multi : Bool := false
deriving Inhabited

structure Cfg where
  nchars : Nat
  nenemies : Nat
  cycles : Int
  kind : Int → Kind
  progs : Nat → List Cmd
  attackP : Int → Nat
  skillP : Int → Nat
  ultP : Int → Nat
  actionP : Int → Nat
  start : Option Nat
  next : Int → Nat → Dec
  dflt : Int → Dec
  ults : Nat → List UltAsk

structure U (α : Type) where
  id : Int
  maxHP : α
  ratio : α
  life : Nat := 0            -- 0 alive, 1 dead, 2 limbo
  lastAtk : Int
  energy : α
  maxEnergy : α
  revive : Bool := false
  rprio : Int := 45          -- priority of the insert the revive effect queues (a late one: after inserted actions)
  dot : Option Int := none   -- source of the damage-over-time modifier
  dotAll : Bool := false     -- that modifier's phase-1 attack hits the owner's whole side, not the owner alone
  freeze : Bool := false
  p2 : Bool := false
  bext : Bool := false       -- carries a modifier with the BREAK_EXTEND flag
  dis : Bool := false        -- carries a modifier with the DISABLE_ACTION flag only (no STAT_CTRL)
  counter : Bool := false    -- carries a modifier whose OnBeforeBeingAttacked listener strikes the attacker

inductive TaskKind
  | action (target : Int)
  | ability (prog : Nat) (pt : Int)
  | ult (ask : UltAsk)
  | revive (owner : Int)

structure Task where
  src : Int
  prio : Int
  seq : Nat
  abort : Bool
  kind : TaskKind

structure S (α : Type) where
  units : List (U α)
  chars : List Int
  enemies : List Int
  turn : Turn.St α
  queue : List Task := []
  seq : Nat := 0
  sp : Int := 3
  active : Int := 0
  inAttack : Option (Int × Nat) := none
  hitO : Nat → α × α
  hitN : Nat := 0
  markO : Nat → α
  markN : Nat := 0
  pickO : Nat → Int
  pickN : Nat := 0
  calls : Int → Nat := fun _ => 0
  ultCalls : Nat := 0
  dealt : α
  taken : α
  seriesD : List α
  seriesT : List α
  evs : List (Ev α) := []    -- newest first
  err : Option String := none
  terminated : Bool := false

variable {α : Type} [Num α]

def emit (s : S α) (e : Ev α) : S α := { s with evs := e :: s.evs }

def isCharId (cfg : Cfg) (id : Int) : Bool := 1 ≤ id && id ≤ cfg.nchars
def isValidId (cfg : Cfg) (id : Int) : Bool := 1 ≤ id && id ≤ cfg.nchars + cfg.nenemies

def unitOf (s : S α) (id : Int) : Option (U α) := s.units.find? (·.id == id)

def lifeOf (s : S α) (id : Int) : Nat := match unitOf s id with | some u => u.life | none => 3

def isAlive (s : S α) (id : Int) : Bool := lifeOf s id == 0

def setUnit (s : S α) (u : U α) : S α :=
  { s with units := s.units.map fun x => if x.id == u.id then u else x }

def modUnit (s : S α) (id : Int) (f : U α → U α) : S α :=
  { s with units := s.units.map fun x => if x.id == id then f x else x }

def orderOf (l : List (Int × Int × α)) : List (Int × Int) := l.map fun t => (t.1, t.2.1)

/-- `queue.Insert` -/
def enqueue (s : S α) (src prio : Int) (abort : Bool) (k : TaskKind) : S α :=
  { s with queue := s.queue ++ [⟨src, prio, s.seq, abort, k⟩], seq := s.seq + 1 }

def taskLess (a b : Task) : Bool := a.prio < b.prio || (a.prio == b.prio && a.seq < b.seq)

def minTask : List Task → Option Task
  | [] => none
  | t :: ts => match minTask ts with
    | none => some t
    | some m => if taskLess m t then some m else some t

/-- `queue.Pop` (specification level) -/
def popMin (q : List Task) : Option (Task × List Task) :=
  match minTask q with
  | none => none
  | some m => some (m, q.filter fun t => t.seq != m.seq)

/-- `attribute.emitHPChangeEvents`: the life state follows the new ratio; a unit that reaches zero
asks for a revive (`LimboWaitHeal`), which the revive modifier answers by queueing its heal. -/
def hpSet (s : S α) (t : Int) (newR : α) (src : Int) (isDamage : Bool) : S α :=
  match unitOf s t with
  | none => s
  | some u =>
    if u.life == 1 then s          -- the dead stay dead: HP changes are ignored
    else if Num.eqb u.ratio newR then s
    else if (0 : α) < newR then
      emit (setUnit s { u with ratio := newR, lastAtk := if isDamage then src else u.lastAtk, life := 0 })
        (.hpChange t u.ratio newR isDamage)
    else if u.revive then
      emit (enqueue (emit (setUnit s { u with ratio := newR, lastAtk := if isDamage then src else u.lastAtk, life := 2 })
        (.hpChange t u.ratio newR isDamage)) t u.rprio false (.revive t)) (.limbo t true)
    else
      emit (emit (setUnit s { u with ratio := newR, lastAtk := if isDamage then src else u.lastAtk, life := 1 })
        (.hpChange t u.ratio newR isDamage)) (.limbo t false)

/-- `int(math.Ceil(x))` for `x ≥ 0` -/
def ceilI (x : α) : Int := if Num.ofInt (Num.trunc x) < x then Num.trunc x + 1 else Num.trunc x

def extendTo (l : List α) (n : Nat) : List α :=
  if l.length ≤ n then l ++ List.replicate (n + 1 - l.length) (l.getLastD 0) else l

/-- the `HitEnd` subscriber of `statistics.go` -/
def collect (cfg : Cfg) (s : S α) (defender : Int) (total : α) : S α :=
  let dealt := if isValidId cfg defender && !isCharId cfg defender then s.dealt + total else s.dealt
  let taken := if isCharId cfg defender then s.taken + total else s.taken
  let cyc := (ceilI (s.turn.totalAV / 100) - 1).toNat
  if isValidId cfg defender then
    { s with dealt := dealt, taken := taken,
             seriesD := (extendTo s.seriesD cyc).set cyc dealt,
             seriesT := (extendTo s.seriesT cyc).set cyc taken }
  else s

/-- `combat.performHit` with the damage taken from the oracle -/
def hit (cfg : Cfg) (s : S α) (src tgt : Int) : S α :=
  let o := s.hitO s.hitN
  let s1 := hpSet (emit { s with hitN := s.hitN + 1 } (.hitStart src tgt)) tgt o.2 src true
  emit (collect cfg s1 tgt o.1) (.hitEnd src tgt o.1 o.2)

def qualified (atype : Nat) : Bool := atype != 4 && atype != 5 && atype != 9

/-- does unit `t` strike back when an attack on it is announced -/
def counterOn (s : S α) (t : Int) : Bool :=
  match unitOf s t with
  | some u => u.counter
  | none => false

/-- what the listeners of `AttackStart` do: every announced target that carries the counter modifier
(once per mention) and is alive attacks the attacker — an `Attack` call made while the announcing
attack already counts as open, so it opens no bracket of its own and is just its hit (`hit` does not
look at `inAttack`, which is why the field can be set after these hits here) -/
def counters (cfg : Cfg) (s : S α) (src : Int) (targets : List Int) : S α :=
  targets.foldl (fun s t => if counterOn s t && isAlive s t then hit cfg s t src else s) s

/-- `combat.Attack` -/
def attack (cfg : Cfg) (s : S α) (src : Int) (targets : List Int) (atype : Nat) : S α :=
  if targets.isEmpty || !isAlive s src then s
  else
    -- the announcement is logged when its listeners are done: the counter hits come first in the stream
    let s1 := if s.inAttack.isNone && qualified atype then
        emit { counters cfg s src targets with inAttack := some (src, atype) } (.attackStart src atype) else s
    targets.foldl (fun s t => hit cfg s src t) s1

/-- `combat.EndAttack` -/
def endAttack (s : S α) : S α :=
  match s.inAttack with
  | some (a, ty) => emit { s with inAttack := none } (.attackEnd a ty)
  | none => s

def nextMark (s : S α) : α × S α := (s.markO s.markN, { s with markN := s.markN + 1 })

/-- an HP primitive of the content followed by its marker -/
def hpPrim (s : S α) (t src : Int) : S α :=
  let r := s.markO s.markN
  emit (hpSet { s with markN := s.markN + 1 } t r src false) (.mark t r)

/-- `combat.Heal` on one target, then the marker -/
def heal (s : S α) (src t : Int) : S α :=
  let r := s.markO s.markN
  if isAlive s src then
    emit (emit (hpSet (emit { s with markN := s.markN + 1 } (.healStart src t)) t r src false) (.healEnd src t)) (.mark t r)
  else emit { s with markN := s.markN + 1 } (.mark t r)

def clampSP (x : Int) : Int := if x > 5 then 5 else if x < 0 then 0 else x

/-- `attribute.ModifySP` -/
def modifySP (s : S α) (amt : Int) : S α :=
  if clampSP (s.sp + amt) == s.sp then s
  else emit { s with sp := clampSP (s.sp + amt) } (.sp s.sp (clampSP (s.sp + amt)))

/-- `attribute.SetEnergy` -/
def setEnergy (s : S α) (t : Int) (amt : α) : S α :=
  match unitOf s t with
  | none => s
  | some u =>
    let e := if amt > u.maxEnergy then u.maxEnergy else if amt < 0 then 0 else amt
    if Num.eqb e u.energy then setUnit s { u with energy := e }
    else emit (setUnit s { u with energy := e }) (.energy t u.energy e)

def setGauge (s : S α) (t : Int) (amt : α) : S α :=
  let r := Turn.step s.turn (.setGauge t amt)
  r.2.foldl (fun s e => match e with
    | .gauge id o n st => emit s (.gauge id o n (orderOf st))
    | _ => s) { s with turn := r.1 }

def resolve (cfg : Cfg) (s : S α) (sel : Sel) (src pt : Int) : List Int :=
  match sel with
  | .self => [src]
  | .primary => [pt]
  | .opp => if isCharId cfg src then s.enemies else s.chars
  | .friends => if isCharId cfg src then s.chars else s.enemies
  | .unit id => [id]

def addMod (u : U α) (k : Int) (src : Int) : U α :=
  if k == 0 then (if u.revive then u else { u with revive := true, rprio := 45 })
  else if k == 7 then (if u.revive then u else { u with revive := true, rprio := 600 })
  else if k == 1 then (if u.dot.isSome then u else { u with dot := some src, dotAll := false })
  else if k == 8 then (if u.dot.isSome then u else { u with dot := some src, dotAll := true })
  else if k == 2 then { u with freeze := true }
  else if k == 4 then { u with bext := true }
  else if k == 5 then { u with dis := true }
  else if k == 6 then { u with counter := true }
  else { u with p2 := true }

def rmMod (u : U α) (k : Int) : U α :=
  if k == 0 then (if u.rprio == 45 then { u with revive := false } else u)
  else if k == 7 then (if u.rprio == 600 then { u with revive := false } else u)
  else if k == 1 then (if u.dotAll then u else { u with dot := none })
  else if k == 8 then (if u.dotAll then { u with dot := none, dotAll := false } else u)
  else if k == 2 then { u with freeze := false }
  else if k == 4 then { u with bext := false }
  else if k == 5 then { u with dis := false }
  else if k == 6 then { u with counter := false }
  else { u with p2 := false }

/-- `InsertAction` -/
def insertAction (cfg : Cfg) (s : S α) (t : Int) : S α :=
  enqueue s t (if isValidId cfg t && !isCharId cfg t then 1000 else 500) true (.action t)

def runCmd (cfg : Cfg) (s : S α) (c : Cmd) (src pt : Int) : S α :=
  if c.op == 'A' then (List.range c.b.toNat).foldl (fun s _ => attack cfg s src (resolve cfg s c.sel src pt) c.a.toNat) s
  else if c.op == 'E' then endAttack s
  else if c.op == 'H' then (resolve cfg s c.sel src pt).foldl (fun s t => heal s src t) s
  else if c.op == 'C' then (resolve cfg s c.sel src pt).foldl (fun s t => hpPrim s t src) s
  else if c.op == 'I' then enqueue s src c.b (c.c != 0) (.ability c.a.toNat pt)
  else if c.op == 'T' then (resolve cfg s c.sel src pt).foldl (fun s t => insertAction cfg s t) s
  else if c.op == 'G' then (resolve cfg s c.sel src pt).foldl (fun s t => setGauge s t (Num.ofInt c.a)) s
  else if c.op == 'N' then (resolve cfg s c.sel src pt).foldl
    (fun s t => match unitOf s t with | some u => setEnergy s t (u.energy + Num.ofInt c.a) | none => s) s
  else if c.op == 'M' then (resolve cfg s c.sel src pt).foldl (fun s t => modUnit s t fun u => addMod u c.a src) s
  else if c.op == 'R' then (resolve cfg s c.sel src pt).foldl (fun s t => modUnit s t fun u => rmMod u c.a) s
  else if c.op == 'S' then modifySP s c.a
  else s

def runProg (cfg : Cfg) (s : S α) (p : Nat) (src pt : Int) : S α :=
  (cfg.progs p).foldl (fun s c => runCmd cfg s c src pt) s

/-! ### the script interface -/

def hpOf (s : S α) (id : Int) : α := match unitOf s id with | some u => u.ratio * u.maxHP | none => 0
def ratioOf (s : S α) (id : Int) : α := match unitOf s id with | some u => u.ratio | none => 0

def lowestBy (f : Int → α) : Int → α → List Int → Int
  | best, _, [] => best
  | best, m, c :: cs => if f c < m then lowestBy f c (f c) cs else lowestBy f best m cs

/-- `evaltarget.Evaluate` for a character as the source -/
def evaluate (cfg : Cfg) (s : S α) (src : Int) (ev : Int) (tt : Nat) : Option Int :=
  if ev == 100 || ev == 101 || ev == 102 then
    if tt == 0 || tt > 3 then none else
    match (if tt == 2 then s.chars else if tt == 3 then s.enemies else [src]) with
    | [] => none
    | [c] => some c
    | c :: cs =>
      if ev == 100 then some c
      else if ev == 101 then some (lowestBy (hpOf s) c (hpOf s c) cs)
      else some (lowestBy (ratioOf s) c (ratioOf s c) (c :: cs))
  else if !isValidId cfg ev then none
  else if !isAlive s ev then none
  else if tt == 2 then (if isCharId cfg ev then some ev else none)
  else if tt == 3 then (if !isCharId cfg ev then some ev else none)
  else if tt == 1 then (if ev == src then some ev else none)
  else none

/-- `executeAction`: `none` is an error building the action (the script's target cannot be used) -/
def executeAction (cfg : Cfg) (s : S α) (id : Int) (isInsert : Bool) : Option (S α) :=
  if !isAlive s id then some s
  else if isCharId cfg id then
    let k := cfg.kind id
    let d0 := cfg.next id (s.calls id)
    let s0 := { s with calls := fun i => if i == id then s.calls id + 1 else s.calls i }
    let fallback := d0.typ == 1 && !(s.sp ≥ k.spNeed)
    let useSkill := d0.typ == 1 && s.sp ≥ k.spNeed
    let d := if fallback then cfg.dflt id else d0
    match evaluate cfg s0 id d.ev (if useSkill then k.skillT else k.attackT) with
    | none => none
    | some pt =>
      let s1 := emit (modifySP s0 (if useSkill then -k.spNeed else k.spAdd)) (.actionStart id (if useSkill then 2 else 1) isInsert)
      let s2 := endAttack (runProg cfg s1 (if useSkill then cfg.skillP id else cfg.attackP id) id pt)
      some (emit s2 (.actionEnd id (if useSkill then 2 else 1) isInsert))
  else
    let pt := s.pickO s.pickN
    let s1 := emit (emit { s with pickN := s.pickN + 1 } (.actionStart id 1 isInsert)) (.pick pt)
    some (emit (endAttack (runProg cfg s1 (cfg.actionP id) id pt)) (.actionEnd id 1 isInsert))

/-- `character.ExecuteUlt` refuses an action type that does not fit the character's ultimate(s) -/
def ultWrongType (k : Kind) (a : UltAsk) : Bool :=
  if k.multi then a.typ != 1 && a.typ != 2 else a.typ != 0

/-- `executeUlt` (its errors are dropped by the queue task) -/
def executeUlt (cfg : Cfg) (s : S α) (a : UltAsk) : S α :=
  if ultWrongType (cfg.kind a.target) a then s else
  match evaluate cfg s a.target (if (cfg.kind a.target).multi then 101 else a.ev) (cfg.kind a.target).ultT with
  | none => s
  | some pt =>
    let s1 := emit s (.actionStart a.target 3 true)
    emit (endAttack (runProg cfg s1 (cfg.ultP a.target) a.target pt)) (.actionEnd a.target 3 true)

def reviveKey : Nat := 1000000

def execTask (cfg : Cfg) (s : S α) (t : Task) : S α :=
  match t.kind with
  | .action tgt =>
    match executeAction cfg s tgt true with
    | some s' => s'
    | none =>
      -- the error is dropped; the script calls already made stay made
      if isCharId cfg tgt && isAlive s tgt then { s with calls := fun i => if i == tgt then s.calls tgt + 1 else s.calls i } else s
  | .ability p pt =>
    emit (endAttack (runProg cfg (emit s (.insertStart t.src p t.prio)) p t.src pt)) (.insertEnd t.src p t.prio)
  | .ult a => executeUlt cfg s a
  | .revive o =>
    let s1 := hpPrim (emit s (.insertStart o reviveKey t.prio)) o o
    emit (endAttack (modUnit s1 o fun u => { u with revive := false })) (.insertEnd o reviveKey t.prio)

/-- `ultCheck`: `err` is set when the script names something that is not a character -/
def ultCheck (cfg : Cfg) (s : S α) : S α :=
  (cfg.ults s.ultCalls).foldl (fun s a =>
    if s.err.isSome then s
    else if !isCharId cfg a.target then { s with err := some "ult target is not a character" }
    else match unitOf s a.target with
      | none => s
      | some u =>
        if Num.eqb (u.energy / u.maxEnergy) 1 then
          setEnergy (enqueue s a.target 500 true (.ult a)) a.target 0
        else s) { s with ultCalls := s.ultCalls + 1 }

def willDie (s : S α) (killLimbo : Bool) (id : Int) : Bool :=
  match lifeOf s id with
  | 0 => false
  | 2 => killLimbo
  | _ => true

def killerOf (s : S α) (t : Int) : Int := match unitOf s t with | some u => u.lastAtk | none => t

/-- the global `EnergyOnDeath` hook (a `TargetDeath` subscriber): ten energy to the killer -/
def energyOnDeath (s : S α) (killer : Int) : S α :=
  match unitOf s killer with
  | some u => setEnergy s killer (u.energy + 10)
  | none => s

/-- `deathCheck` -/
def deathCheck (s : S α) (killLimbo : Bool) : S α :=
  ((s.chars.filter (willDie s killLimbo)) ++ (s.enemies.filter (willDie s killLimbo))).foldl
    (fun s t => emit (energyOnDeath { s with turn := (Turn.step s.turn (.remove t)).1 } (killerOf s t))
      (.death t (killerOf s t)))
    { s with chars := s.chars.filter (fun id => !willDie s killLimbo id),
             enemies := s.enemies.filter (fun id => !willDie s killLimbo id) }

def exitReason (cfg : Cfg) (s : S α) : Option Nat :=
  if s.chars.isEmpty then some 1
  else if s.enemies.isEmpty then some 2
  else if Num.trunc (s.turn.totalAV / 100) ≥ cfg.cycles then some 3
  else none

/-- `exitCheck`: emits the termination and marks the run as over -/
def exitCheck (cfg : Cfg) (s : S α) : S α :=
  match exitReason cfg s with
  | some r => { emit s (.termination r s.turn.totalAV) with terminated := true }
  | none => s

def stopped (s : S α) : Bool := s.terminated || s.err.isSome

/-- the loop of `executeQueue` -/
def queueLoop (cfg : Cfg) : Nat → S α → S α
  | 0, s => { s with err := some "fuel" }
  | f + 1, s =>
    match popMin s.queue with
    | none => s
    | some (t, q) =>
      -- the battle may already be decided (by the turn's own action or by a tick)
      if (exitReason cfg s).isSome then exitCheck cfg s
      -- tasks of units that died (or were removed from the field as dead) are dropped
      else if lifeOf s t.src == 1 || !(s.chars.contains t.src || s.enemies.contains t.src) then queueLoop cfg f { s with queue := q }
      else if t.abort && (match unitOf s t.src with | some u => u.freeze || u.dis | none => false) then queueLoop cfg f { s with queue := q }
      else
        let s1 := exitCheck cfg (deathCheck (execTask cfg { s with queue := q } t) false)
        if stopped s1 then s1
        else
          let s2 := ultCheck cfg s1
          if stopped s2 then s2 else queueLoop cfg f s2

/-- `executeQueue(phase, next)`; `early` = the phase is before `ActionEnd` -/
def executeQueue (cfg : Cfg) (fuel : Nat) (s : S α) (early : Bool) : S α :=
  let s1 := ultCheck cfg s
  if stopped s1 then s1
  else if early && !isCharId cfg s1.active then exitCheck cfg s1
  else queueLoop cfg fuel s1

/-- `Modifier.Tick(active, ModifierPhase1)` for the scripted modifiers -/
def tickPhase1 (cfg : Cfg) (s : S α) : S α :=
  match unitOf s s.active with
  | some u => match u.dot with
    | some src => attack cfg s src (if u.dotAll then (if isCharId cfg s.active then s.chars else s.enemies) else [s.active]) 4
    | none => s
  | none => s

def tickPhase2 (s : S α) : S α :=
  match unitOf s s.active with
  | some u => if u.p2 then hpPrim s s.active s.active else s
  | none => s

/-- `phase2` and `endTurn` -/
def phase2 (cfg : Cfg) (fuel : Nat) (s : S α) : S α :=
  let r := Turn.step s.turn .reset
  let s1 := r.2.foldl (fun s e => match e with
    | .reset id c st => emit s (.turnReset id c (orderOf st))
    | _ => s) { s with turn := r.1 }
  let s2 := executeQueue cfg fuel (emit s1 .phase2Start) false
  if stopped s2 then s2
  else
    let s3 := emit (deathCheck (emit (tickPhase2 s2) .phase2End) true) .turnEnd
    exitCheck cfg s3

/-- `phase1` skips the rest of phase 1 and the action: for any unit with the DISABLE_ACTION flag, and
for an enemy with the BREAK_EXTEND flag -/
def skipsAction (cfg : Cfg) (s : S α) (id : Int) : Bool :=
  match unitOf s id with
  | some u => u.freeze || u.dis || (u.bext && !isCharId cfg id)
  | none => false

/-- one turn: `beginTurn`, `phase1`, `action`, `phase2`, `endTurn` -/
def turn (cfg : Cfg) (fuel : Nat) (s : S α) : S α :=
  let r := Turn.step s.turn .start
  match r.2 with
  | [.started id av st total] =>
    let s1 := emit { s with turn := r.1, active := id } (.turnStart id av total (orderOf st))
    let s2 := deathCheck (tickPhase1 cfg (emit s1 .phase1Start)) false
    if skipsAction cfg s2 id then phase2 cfg fuel s2
    else
      let s3 := executeQueue cfg fuel s2 true
      if stopped s3 then s3
      else
        match executeAction cfg (emit s3 .phase1End) id false with
        | none => { emit s3 .phase1End with err := some "error building the action" }
        | some s4 => phase2 cfg fuel (deathCheck s4 false)
  | _ => { s with err := some "turn manager returned no target" }

def turns (cfg : Cfg) (qfuel : Nat) : Nat → S α → S α
  | 0, s => if stopped s then s else { s with err := some "fuel" }
  | f + 1, s => if stopped s then s else turns cfg qfuel f (turn cfg qfuel s)

/-- `initialize`, `startBattle`, `engage` -/
def start (cfg : Cfg) (s : S α) : S α :=
  let cs := (List.range cfg.nchars).map fun (i : Nat) => (i : Int) + 1
  let es := (List.range cfg.nenemies).map fun (i : Nat) => (i : Int) + 1 + cfg.nchars
  let s1 := emit (emit (emit { s with chars := cs, enemies := es } .initialize) (.charsAdded cs)) (.enemiesAdded es)
  let r := Turn.step s1.turn (.add (cs ++ es))
  let s2 := r.2.foldl (fun s e => match e with
    | .added ids st => emit s (.targetsAdded ids (orderOf st))
    | _ => s) { s1 with turn := r.1 }
  let s3 := match cfg.start, cs, es with
    | some p, c :: _, e :: _ => runProg cfg s2 p c e
    | _, _, _ => s2
  executeQueue cfg 0 (emit s3 .battleStart) true

def run (cfg : Cfg) (fuel qfuel : Nat) (s : S α) : S α :=
  let s1 := start cfg s
  if stopped s1 then s1 else turns cfg qfuel fuel s1

end Sim
