/-
Model of the configuration checks at the start of a run (`character.AddCharacter`,
`enemy.AddEnemy`, `lightcone.Get`, `relic.Get`): every key must be in its catalog.  Characters are
added first, in order (character key, then light cone, then relic sets), enemies afterwards.
-/
namespace Validate

structure Reg where
  chars : List String
  lcs : List String
  relics : List String
  enemies : List String

structure CharCfg where
  key : String
  lc : String
  relics : List String

structure Cfg where
  chars : List CharCfg
  enemies : List String

inductive Bad
  | character (k : String)
  | lightcone (k : String)
  | relic (k : String)
  | enemy (k : String)
deriving DecidableEq, Repr

def checkChar (r : Reg) (c : CharCfg) : Option Bad :=
  if c.key ∉ r.chars then some (.character c.key)
  else if c.lc ∉ r.lcs then some (.lightcone c.lc)
  else match c.relics.find? (fun k => decide (k ∉ r.relics)) with
    | some k => some (.relic k)
    | none => none

/-- the first complaint, in the order the run meets the keys; `none` = accepted -/
def validate (r : Reg) (c : Cfg) : Option Bad :=
  match c.chars.findSome? (checkChar r) with
  | some b => some b
  | none => match c.enemies.find? (fun k => decide (k ∉ r.enemies)) with
    | some k => some (.enemy k)
    | none => none

/-- every key of the configuration is registered -/
def AllKnown (r : Reg) (c : Cfg) : Prop :=
  (∀ ch ∈ c.chars, ch.key ∈ r.chars ∧ ch.lc ∈ r.lcs ∧ ∀ k ∈ ch.relics, k ∈ r.relics) ∧ ∀ k ∈ c.enemies, k ∈ r.enemies

end Validate
