import Srsim.Num
/-
Model of `pkg/statistics/agg` (util.go, overview/overview.go) and of the parts of
go-moremath's `StreamStats` / `Sample` it uses.

`sqrt` and `n ↦ n^(1/3)` are parameters (`MathFns`): the drivers use `Float.sqrt` and the values
Go's `math.Pow` produced; the theorems hold for every pair of functions with the stated signs.
`make([]uint32, nbins)` with a non-positive length is the `crash` outcome.
-/
namespace Agg

structure MathFns (α : Type) where
  sqrt : α → α
  cbrt : Nat → α

/-- `stats.StreamStats` (the fields the aggregator reads) -/
structure Stream (α : Type) where
  count : Nat
  total : α
  min : α
  max : α
  mean : α
  vM2 : α

structure Desc (α : Type) where
  min : α
  max : α
  mean : α
  sd : α

structure Over (α : Type) where
  sd : α
  min : α
  max : α
  mean : α
  q1 : α
  q2 : α
  q3 : α
  hist : List Nat

variable {α : Type} [Num α]

def ofN (n : Nat) : α := Num.ofInt (Int.ofNat n)

def Stream.empty : Stream α := ⟨0, 0, 0, 0, 0, 0⟩

/-- `StreamStats.Add` -/
def Stream.add (s : Stream α) (x : α) : Stream α :=
  { count := s.count + 1
    total := s.total + x
    min := if s.count == 0 then x else if x < s.min then x else s.min
    max := if s.count == 0 then x else if x > s.max then x else s.max
    mean := s.mean + (x - s.mean) / ofN (s.count + 1)
    vM2 := s.vM2 + (x - s.mean) * (x - (s.mean + (x - s.mean) / ofN (s.count + 1))) }

/-- `ToDescriptiveStats` (`uint` underflow of `Count-1` at zero gives a huge divisor: variance 0) -/
def toDesc (m : MathFns α) (s : Stream α) : Desc α :=
  { min := s.min, max := s.max, mean := s.mean,
    sd := if s.count == 0 then 0 else if s.count == 1 then 0 else m.sqrt (s.vM2 / ofN (s.count - 1)) }

/-- `sort.Float64s` -/
def sortF (l : List α) : List α := l.mergeSort fun a b => !(decide (b < a))

/-- `stats.Mean` : incremental mean over the (sorted) values -/
def meanInc (l : List α) : α :=
  (l.foldl (fun (acc : α × Nat) x => (acc.1 + (x - acc.1) / ofN (acc.2 + 1), acc.2 + 1)) (0, 0)).1

/-- `stats.Variance` : Welford, `M2 / (n-1)`, 0 for fewer than two values -/
def welford (l : List α) : α × α × Nat :=
  l.foldl (fun (acc : α × α × Nat) x =>
    (acc.1 + (x - acc.1) / ofN (acc.2.2 + 1),
     acc.2.1 + (x - acc.1) * (x - (acc.1 + (x - acc.1) / ofN (acc.2.2 + 1))),
     acc.2.2 + 1)) (0, 0, 0)

def variance (l : List α) : α :=
  if l.length ≤ 1 then 0 else (welford l).2.1 / ofN (l.length - 1)

/-- `Sample.Quantile` (R8 interpolation) on a sorted, non-empty list, `0 < q < 1` -/
def quantile (l : List α) (q : α) : α :=
  let n : α := (1 : α) / 3 + q * (ofN l.length + (1 : α) / 3)
  let k := Num.trunc n
  let frac := n - Num.ofInt k
  if k ≤ 0 then l.headD 0
  else if k ≥ l.length then l.getLastD 0
  else l.getD (k.toNat - 1) 0 + frac * (l.getD k.toNat 0 - l.getD (k.toNat - 1) 0)

/-- bin index of `LinearHist.bin`, with under/overflow folded into the first / last bin -/
def binOf (mn delta : α) (nbins : Nat) (x : α) : Nat :=
  let b := Num.trunc (delta * (x - mn))
  if b < 0 then 0 else if b ≥ nbins then nbins - 1 else b.toNat

def histCounts (mn mx : α) (nbins : Nat) (l : List α) : List Nat :=
  let delta := ofN nbins / (mx - mn)
  (List.range nbins).map fun i => (l.filter fun x => binOf mn delta nbins x == i).length

/-- `int(math.Ceil(x))` -/
def ceilI (x : α) : Int :=
  if Num.eqb (Num.ofInt (Num.trunc x)) x then Num.trunc x
  else if x > 0 then Num.trunc x + 1 else Num.trunc x

inductive Res (β : Type)
  | ok (v : β)
  | crash
deriving Inhabited

/-- `ToOverviewStats`; an empty sample summarises the empty multiset -/
def toOver (m : MathFns α) (xs : List α) : Res (Over α) :=
  if xs.isEmpty then .ok ⟨0, 0, 0, 0, 0, 0, 0, [0]⟩
  else
    let l := sortF xs
    let mn := l.headD 0
    let mx := l.getLastD 0
    let sd := m.sqrt (variance l)
    let h := (3.49 * sd) / m.cbrt l.length
    let base : Over α :=
      ⟨sd, mn, mx, meanInc l, quantile l 0.25, quantile l 0.5, quantile l 0.75, []⟩
    if Num.eqb h 0 || Num.eqb mx mn then .ok { base with hist := [l.length] }
    else
      let nb := ceilI ((mx - mn) / h)
      if nb ≤ 0 then .crash
      else .ok { base with hist := histCounts mn mx nb.toNat l }

/-- the aggregator's buffer -/
structure Buf (α : Type) where
  completed : Nat := 0
  dealt : Stream α
  taken : Stream α
  av : Stream α
  dpc : List α := []
  cumDealt : List (List α) := []
  cumTaken : List (List α) := []

def Buf.init (cycles : Nat) : Buf α :=
  { dealt := Stream.empty, taken := Stream.empty, av := Stream.empty,
    cumDealt := List.replicate cycles [], cumTaken := List.replicate cycles [] }

/-- per-cycle increments of a cumulative series -/
def increments : α → List α → List α
  | _, [] => []
  | last, v :: r => (v - last) :: increments v r

/-- append the i-th increment to the i-th per-cycle sample, growing the table as needed -/
def addSeries : List (List α) → List α → List (List α)
  | t, [] => t
  | [], d :: ds => [d] :: addSeries [] ds
  | c :: t, d :: ds => (c ++ [d]) :: addSeries t ds

structure IterRes (α : Type) where
  dealt : α
  taken : α
  av : α
  cumDealt : List α
  cumTaken : List α

def Buf.add (b : Buf α) (r : IterRes α) : Buf α :=
  { completed := b.completed + 1
    dealt := b.dealt.add r.dealt
    taken := b.taken.add r.taken
    av := b.av.add r.av
    dpc := b.dpc ++ [r.dealt * 100 / r.av]
    cumDealt := addSeries b.cumDealt (increments 0 r.cumDealt)
    cumTaken := addSeries b.cumTaken (increments 0 r.cumTaken) }

structure Stats (α : Type) where
  iterations : Nat
  dealt : Desc α
  taken : Desc α
  av : Desc α
  dpc : Res (Over α)
  dealtByCycle : List (Res (Over α))
  takenByCycle : List (Res (Over α))

def Buf.flush (m : MathFns α) (b : Buf α) : Stats α :=
  { iterations := b.completed
    dealt := toDesc m b.dealt, taken := toDesc m b.taken, av := toDesc m b.av
    dpc := toOver m b.dpc
    dealtByCycle := b.cumDealt.map (toOver m)
    takenByCycle := b.cumTaken.map (toOver m) }

end Agg
