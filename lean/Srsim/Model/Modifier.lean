import Srsim.Num
/-
Model of `pkg/engine/modifier` (add.go, remove.go, tick.go, update.go, modifier.go:newInstance,
the internal listener hooks of listener.go, eval.go).

* A catalog maps modifier names (indices) to their configuration, including the listener
  scripts: lists of further manager operations on the owner (`Act`), executed re-entrantly.
* Every created instance gets a fresh `uid` (pointer identity in the Go code).
* Counts are integers here (the Go code uses float64; the correspondence check uses integral
  counts, for which float64 arithmetic is exact).
* Re-entrancy is bounded by fuel: `none` = "did not finish within the fuel".
* Each instance owns its property list (the maps are copied from the caller's description).
-/
namespace Modifier

inductive Act (α : Type)
  | add (name : Nat) (dur count : Int)
  | remove (name : Nat)
  | removeSelf
  | extDur (name : Nat) (n : Int)
  | extCnt (name : Nat) (n : Int)
  | addProp (p : Nat) (x : α)
deriving Inhabited

/-- stacking: 0 unique, 1 replaceBySource, 2 replace, 3 multiple, 4 refresh, 5 prolong, 6 merge;
tick: 0 = end of phase 2, 1 = end of phase 1; status: 0 other, 1 buff, 2 debuff (any numbers) -/
structure Cfg (α : Type) where
  stacking : Nat := 0
  tick : Nat := 0
  dur : Int := 0
  count : Int := 0
  maxCount : Int := 0
  countAdd : Int := 0
  status : Nat := 0
  canDispel : Bool := false
  onAdd : List (Act α) := []
  onRemove : List (Act α) := []
  onDispel : List (Act α) := []
  onExtDur : List (Act α) := []
  onExtCnt : List (Act α) := []
  onPropChange : List (Act α) := []
  onPhase1 : List (Act α) := []
  onPhase2 : List (Act α) := []
  /-- behaviour flags of the shape (what a target's debuff resistance is looked up by) -/
  flags : List Nat := []
deriving Inhabited

structure Inst (α : Type) where
  uid : Nat
  name : Nat
  source : Int
  dur : Int
  count : Int
  maxCount : Int
  countAdd : Int
  tickImm : Bool
  canTickP2 : Bool := false
  renew : Nat
  stats : List (Nat × α) := []
  /-- the instance's own weakness entries (damage type ↦ weak / explicitly not weak) -/
  weak : List (Nat × Bool) := []
  /-- the instance's own resistances per behaviour flag -/
  dres : List (Nat × α) := []
deriving Inhabited

/-- what a caller passes to `AddModifier` -/
structure Desc (α : Type) where
  name : Nat
  source : Int
  dur : Int := 0
  count : Int := 0
  maxCount : Int := 0
  countAdd : Int := 0
  tickImm : Bool := false
  stats : List (Nat × α) := []
  weak : List (Nat × Bool) := []
  dres : List (Nat × α) := []
  /-- base chance to apply (`[]` or not positive: always applies) -/
  chance : List α := []

inductive Ev (α : Type)
  | added (t : Int) (i : Inst α)
  | removed (t : Int) (i : Inst α)
  | dispelled (t : Int) (i : Inst α)
  | extDur (t : Int) (i : Inst α) (old new : Int)
  | extCnt (t : Int) (i : Inst α) (old new : Int)
  | hook (kind : String) (t : Int) (uid : Nat)
  | err (kind : String)
  | ret (ok : Bool)
  | resisted (t src : Int) (name : Nat) (chance base ehr eres dres : α)
  | applied (chance : α)          -- the chance reported with the `added` announcement that follows

structure St (α : Type) where
  targets : Int → List (Inst α) := fun _ => []
  turnCount : Nat := 0
  nextUid : Nat := 1
  trace : List (Ev α) := []        -- newest last
  /-- the run's random generator as far as `DispelOrder_RANDOM` uses it: the order in which the
  shuffle leaves the candidates (positions into the candidate list); a runtime choice, any value -/
  shuffle : List Nat := []
  /-- the run's generator as the resist roll of `AddModifier` draws from it (one number per roll) -/
  draws : List α := []
  /-- what the resist roll reads from the units: effect hit rate of a source, effect resistance of a
  target, and a target's resistance per behaviour flag -/
  ehr : List (Int × α) := []
  eres : List (Int × α) := []
  dres : Int → List (Nat × α) := fun _ => []

inductive Op (α : Type)
  | add (t : Int) (d : Desc α)
  | remove (t : Int) (name : Nat)
  | removeFromSource (t : Int) (src : Int) (name : Nat)
  | removeSelf (t : Int) (uid : Nat)
  | extDur (t : Int) (name : Nat) (n : Int)
  | extCnt (t : Int) (name : Nat) (n : Int)
  | dispel (t : Int) (status : Nat) (order : Nat) (count : Int)   -- order 2 first added, 1 last added, 3 random
  | tick (t : Int) (phase : Nat)     -- 0 turn start, 1 phase 1, 2 action end, 3 phase 2
  | instAddProp (t : Int) (uid : Nat) (p : Nat) (x : α)
  | instSetProp (t : Int) (uid : Nat) (p : Nat) (x : α)      -- `Instance.SetProperty`
  | instWeak (t : Int) (uid : Nat) (d : Nat) (on : Bool)      -- `Instance.AddWeakness` / `RemoveWeakness`
  | instDres (t : Int) (uid : Nat) (f : Nat) (x : α)          -- `Instance.AddDebuffRES`

variable {α : Type} [Num α]

abbrev Catalog (α : Type) := List (Cfg α)

def cfgOf (cat : Catalog α) (name : Nat) : Cfg α := cat.getD name {}

def validTarget (t : Int) : Bool := 1 ≤ t ∧ t ≤ 3

def emitEv (s : St α) (e : Ev α) : St α := { s with trace := s.trace ++ [e] }

def setT (s : St α) (t : Int) (l : List (Inst α)) : St α :=
  { s with targets := fun t' => if t' = t then l else s.targets t' }

/-- `PropMap.Modify` on an association list -/
def modProp (l : List (Nat × α)) (p : Nat) (x : α) : List (Nat × α) :=
  if l.any (·.1 == p) then
    l.map fun q => if q.1 == p then (p, if p == 90 || p == 91 then 1 - (1 - q.2) * (1 - x) else q.2 + x) else q
  else l ++ [(p, if p == 90 || p == 91 then 1 - (1 - 0) * (1 - x) else 0 + x)]

/-- `newInstance`: description values with the catalog's defaults as fallback, "infinite" = -1 -/
def newInstance (cat : Catalog α) (s : St α) (d : Desc α) : Inst α :=
  let c := cfgOf cat d.name
  let countAdd := if d.countAdd == 0 then c.countAdd else d.countAdd
  let maxCount := if d.maxCount == 0 then c.maxCount else d.maxCount
  let count := if d.count == 0 then c.count else d.count
  let dur := if d.dur == 0 then c.dur else d.dur
  let dur := if dur ≤ 0 then -1 else dur
  let count := if count ≤ 0 then -1 else count
  let maxCount := if maxCount ≤ 0 then -1 else maxCount
  let count := if (c.stacking == 1 || c.stacking == 2 || c.stacking == 6) && count ≤ 0 && countAdd > 0
               then countAdd else count
  { uid := s.nextUid, name := d.name, source := d.source, dur := dur, count := count, maxCount := maxCount,
    countAdd := countAdd, tickImm := d.tickImm, renew := s.turnCount, stats := d.stats, weak := d.weak, dres := d.dres }

def stackCount (i : Inst α) (prev : Int) : Int :=
  if prev < 0 || i.count < 0 then i.count
  else if i.maxCount > 0 && prev + i.count > i.maxCount then i.maxCount else prev + i.count

/-- replace the first instance satisfying `p` by `f` of it -/
def replaceFirst (l : List (Inst α)) (p : Inst α → Bool) (f : Inst α → Inst α) : List (Inst α) :=
  match l with
  | [] => []
  | x :: r => if p x then f x :: r else x :: replaceFirst r p f

def setInst (l : List (Inst α)) (i : Inst α) : List (Inst α) :=
  l.map fun j => if j.uid == i.uid then i else j

/-- hooks of a catalog entry by name -/
def hookOf (c : Cfg α) : String → List (Act α)
  | "OnAdd" => c.onAdd
  | "OnRemove" => c.onRemove
  | "OnDispel" => c.onDispel
  | "OnExtendDuration" => c.onExtDur
  | "OnExtendCount" => c.onExtCnt
  | "OnPropertyChange" => c.onPropChange
  | "OnPhase1" => c.onPhase1
  | "OnPhase2" => c.onPhase2
  | _ => []

/-- translate a listener action of instance `i` on target `t` into a manager operation -/
def actOp (t : Int) (i : Inst α) : Act α → Op α
  | .add name dur count => .add t { name := name, source := i.source, dur := dur, count := count }
  | .remove name => .remove t name
  | .removeSelf => .removeSelf t i.uid
  | .extDur name n => .extDur t name n
  | .extCnt name n => .extCnt t name n
  | .addProp p x => .instAddProp t i.uid p x

/-- what `AddModifier` announces after it has updated the attached list -/
inductive Announce (α : Type)
  | none                                   -- unique: an instance of that name is already attached
  | added (i : Inst α)                     -- new / replacing / merged instance: OnAdd + ModifierAdded
  | extended (i : Inst α) (old : Int)      -- refresh / prolong of an attached instance
  | unsupported

/-- **The stacking rules**: the attached list of the target after `AddModifier` (before any
listener runs) and what is announced. `inst` is the prepared new instance. -/
def addPlan (stacking : Nat) (l : List (Inst α)) (inst : Inst α) : List (Inst α) × Announce α :=
  let byName : Inst α → Bool := fun m => m.name == inst.name
  let bySrc : Inst α → Bool := fun m => m.name == inst.name && m.source == inst.source
  if stacking == 0 then
    if l.any byName then (l, .none) else (l ++ [inst], .added inst)
  else if stacking == 1 then
    match l.find? bySrc with
    | some old => (replaceFirst l bySrc fun _ => { inst with count := stackCount inst old.count },
                   .added { inst with count := stackCount inst old.count })
    | none => (l ++ [inst], .added inst)
  else if stacking == 2 then
    match l.find? byName with
    | some old => (replaceFirst l byName fun _ => { inst with count := stackCount inst old.count },
                   .added { inst with count := stackCount inst old.count })
    | none => (l ++ [inst], .added inst)
  else if stacking == 3 then (l ++ [inst], .added inst)
  else if stacking == 4 then
    match l.find? byName with
    | some old => (replaceFirst l byName fun m => { m with dur := inst.dur }, .extended { old with dur := inst.dur } old.dur)
    | none => (l ++ [inst], .added inst)
  else if stacking == 5 then
    match l.find? byName with
    | some old => (replaceFirst l byName fun m => { m with dur := m.dur + inst.dur },
                   .extended { old with dur := old.dur + inst.dur } old.dur)
    | none => (l ++ [inst], .added inst)
  else if stacking == 6 then
    match l.find? byName with
    | some old =>
      (replaceFirst l byName fun _ => { old with count := stackCount inst old.count,
                                                  dur := if inst.dur > old.dur then inst.dur else old.dur },
       .added { old with count := stackCount inst old.count, dur := if inst.dur > old.dur then inst.dur else old.dur })
    | none => (l ++ [inst], .added inst)
  else (l, .unsupported)

section exec
variable (cat : Catalog α)

/-- run the script of one hook of one instance; `rec` executes a nested manager operation -/
def runHook (rec : St α → Op α → Option (St α)) (s : St α) (t : Int) (i : Inst α) (kind : String) : Option (St α) :=
  let acts := hookOf (cfgOf cat i.name) kind
  if acts.isEmpty then some s
  else
    acts.foldl (fun (os : Option (St α)) a =>
      match os with
      | none => none
      | some s' => rec s' (actOp t i a)) (some (emitEv s (.hook kind t i.uid)))

/-- `emitPropertyChange`: every modifier attached at the time of the call (a copy of the list) -/
def propChange (rec : St α → Op α → Option (St α)) (s : St α) (t : Int) : Option (St α) :=
  (s.targets t).foldl (fun (os : Option (St α)) i =>
    match os with
    | none => none
    | some s' => runHook cat rec s' t i "OnPropertyChange") (some s)

/-- current version of an instance (listeners may have changed it meanwhile) -/
def current (s : St α) (t : Int) (i : Inst α) : Inst α :=
  ((s.targets t).find? (·.uid == i.uid)).getD i

/-- `emitRemove` for a list of already detached instances -/
def emitRemove (rec : St α → Op α → Option (St α)) (s : St α) (t : Int) (mods : List (Inst α)) : Option (St α) :=
  mods.foldl (fun (os : Option (St α)) i =>
    match os with
    | none => none
    | some s1 =>
      match (if i.stats.isEmpty then some s1 else propChange cat rec s1 t) with
      | none => none
      | some s2 =>
        match runHook cat rec s2 t i "OnRemove" with
        | none => none
        | some s3 => some (emitEv s3 (.removed t i))) (some s)

def emitDispel (rec : St α → Op α → Option (St α)) (s : St α) (t : Int) (mods : List (Inst α)) : Option (St α) :=
  mods.foldl (fun (os : Option (St α)) i =>
    match os with
    | none => none
    | some s1 =>
      match runHook cat rec s1 t i "OnDispel" with
      | none => none
      | some s2 => emitRemove cat rec (emitEv s2 (.dispelled t i)) t [i]) (some s)

def emitAdd (rec : St α → Op α → Option (St α)) (s : St α) (t : Int) (i : Inst α) : Option (St α) :=
  match (if i.stats.isEmpty then some s else propChange cat rec s t) with
  | none => none
  | some s1 =>
    match runHook cat rec s1 t i "OnAdd" with
    | none => none
    | some s2 => some (emitEv s2 (.added t (current s2 t i)))

def emitExtDur (rec : St α → Op α → Option (St α)) (s : St α) (t : Int) (i : Inst α) (old : Int) : Option (St α) :=
  match runHook cat rec s t i "OnExtendDuration" with
  | none => none
  | some s1 => some (emitEv s1 (.extDur t (current s1 t i) old (current s1 t i).dur))

/-- which instances the tick at `moment` (1 = phase 1 end, 0 = phase 2 end) removes / how the
survivors change -/
def tickInst (s : St α) (moment : Nat) (i : Inst α) : Inst α × Bool :=
  let c := cfgOf cat i.name
  if c.tick != moment then (i, false)
  else
    let imm := if moment == 0 then i.tickImm && i.canTickP2 else i.tickImm
    if s.turnCount == i.renew && !imm then (i, false)
    else
      let rm0 := i.count == 0
      if i.dur ≥ 0 then
        if i.dur - 1 ≤ 0 then ({ i with dur := 0 }, true) else ({ i with dur := i.dur - 1 }, rm0)
      else (i, rm0)

def dispelIdx (l : List (Inst α)) (status : Nat) (order : Nat) (count : Int) : List Nat :=
  let n : Nat := if count ≤ 0 then l.length else count.toNat
  let cand := (List.range l.length).filter fun k =>
    match l[k]? with
    | some i => (cfgOf cat i.name).status == status && (cfgOf cat i.name).canDispel
    | none => false
  if order == 2 then cand.take n                 -- DispelOrder_FIRST_ADDED
  else if order == 1 then (cand.reverse.take n)  -- DispelOrder_LAST_ADDED
  else []

/-- keep the first occurrence of every element -/
def uniq : List Nat → List Nat
  | [] => []
  | a :: l => a :: (uniq l).filter (· != a)

/-- positions of the instances a dispel of `status` may remove -/
def dispelCand (l : List (Inst α)) (status : Nat) : List Nat :=
  (List.range l.length).filter fun k =>
    match l[k]? with
    | some i => (cfgOf cat i.name).status == status && (cfgOf cat i.name).canDispel
    | none => false

/-- `dispelIDs` for all three orders; for the random order the first `n` candidates in the order
the shuffle left them (positions that are no candidate, and repetitions, are ignored) -/
def dispelSel (l : List (Inst α)) (status : Nat) (order : Nat) (count : Int) (shuffle : List Nat) : List Nat :=
  if order == 3 then
    let n : Nat := if count ≤ 0 then l.length else count.toNat
    (uniq (shuffle.filterMap fun p => (dispelCand cat l status)[p]?)).take n
  else dispelIdx cat l status order count

/-- a unit's resistance to one behaviour flag: its own plus every attached instance's (additive) -/
def dresTotal (base : List (Nat × α)) (l : List (Inst α)) (f : Nat) : α :=
  let fromMods := l.foldl (fun acc i => i.dres.foldl (fun a q => if q.1 == f then a + q.2 else a) acc) (0 : α)
  base.foldl (fun a q => if q.1 == f then a + q.2 else a) fromMods

/-- `DebuffRESMap.GetDebuffRES`: the largest resistance among the given flags, never below 0 (0 if
there is no flag); `m f` is the unit's total resistance to flag `f` -/
def debuffRes (m : Nat → α) (flags : List Nat) : α :=
  flags.foldl (fun out f => if m f > out then m f else out) 0

/-- a unit's total resistance per flag as the resist roll sees it: its own and its attached instances' -/
def unitDres (s : St α) (t : Int) (f : Nat) : α := dresTotal (s.dres t) (s.targets t) f

/-- `attemptResist`: the chance an application has — base × (1 + effect hit rate of the source) ×
(1 − effect resistance of the target) × (1 − its resistance to the shape's flags) -/
def lookupA (m : List (Int × α)) (t : Int) : α := ((m.find? (·.1 == t)).map (·.2)).getD 0
def baseChance (d : Desc α) : α := d.chance.headD 0

def applyChance (s : St α) (t : Int) (d : Desc α) : α :=
  baseChance d * (1 + lookupA s.ehr d.source) * (1 - lookupA s.eres t) * (1 - debuffRes (unitDres s t) (cfgOf cat d.name).flags)

/-- resisted: a positive base chance and the roll is not below the chance -/
def resists (s : St α) (t : Int) (d : Desc α) : Bool :=
  baseChance d > 0 && !(s.draws.headD 0 < applyChance cat s t d)

/-- one manager operation, given `rec` for the operations issued by listeners -/
def execWith (rec : St α → Op α → Option (St α)) (s : St α) : Op α → Option (St α)
  | .add t d =>
    if !validTarget t then some (emitEv s (.err "invalid_target"))
    else if !validTarget d.source then some (emitEv s (.err "invalid_source"))
    else if resists cat s t d then
      some (emitEv (emitEv { s with draws := s.draws.tail, nextUid := s.nextUid + 1 }
        (.resisted t d.source d.name (applyChance cat s t d) (baseChance d) (lookupA s.ehr d.source) (lookupA s.eres t) (debuffRes (unitDres s t) (cfgOf cat d.name).flags)))
        (.ret false))
    else
      let s := if baseChance d > 0 then { s with draws := s.draws.tail } else s
      let inst := newInstance cat s d
      let s0 : St α := { s with nextUid := s.nextUid + 1 }
      let plan := addPlan (cfgOf cat d.name).stacking (s0.targets t) inst
      let fin (os : Option (St α)) : Option (St α) := os.map fun s' => emitEv s' (.ret true)
      -- a new instance is announced together with the chance it had (only rolled applications have one)
      let finA (os : Option (St α)) : Option (St α) :=
        if baseChance d > 0 then fin (os.map fun s' => emitEv s' (.applied (applyChance cat s t d))) else fin os
      match plan.2 with
      | .none => fin (some s0)
      | .added i => finA (emitAdd cat rec (setT s0 t plan.1) t i)
      | .extended i old => fin (emitExtDur cat rec (setT s0 t plan.1) t i old)
      | .unsupported => some (emitEv s0 (.err "unsupported_stacking"))
  | .remove t name =>
    let l := s.targets t
    emitRemove cat rec (setT s t (l.filter fun m => m.name != name)) t (l.filter fun m => m.name == name)
  | .removeFromSource t src name =>
    let l := s.targets t
    emitRemove cat rec (setT s t (l.filter fun m => !(m.name == name && m.source == src))) t
      (l.filter fun m => m.name == name && m.source == src)
  | .removeSelf t uid =>
    let l := s.targets t
    match l.find? (·.uid == uid) with
    | none => some s
    | some i => emitRemove cat rec (setT s t (l.filter fun m => m.uid != uid)) t [i]
  | .extDur t name n =>
    -- iterate a copy; each matching instance (if still attached) gets its duration extended
    (s.targets t).foldl (fun (os : Option (St α)) i0 =>
      match os with
      | none => none
      | some s1 =>
        if i0.name != name then some s1
        else
          let i := current s1 t i0
          emitExtDur cat rec (setT s1 t (setInst (s1.targets t) { i with dur := i.dur + n })) t
            { i with dur := i.dur + n } i.dur) (some s)
  | .extCnt t name n =>
    let step1 := (s.targets t).foldl (fun (os : Option (St α)) i0 =>
      match os with
      | none => none
      | some s1 =>
        if i0.name != name then some s1
        else
          let i := current s1 t i0
          let c := if i.maxCount > 0 && i.count + n > i.maxCount then i.maxCount else i.count + n
          match runHook cat rec (setT s1 t (setInst (s1.targets t) { i with count := c })) t { i with count := c } "OnExtendCount" with
          | none => none
          | some s2 => some (emitEv s2 (.extCnt t (current s2 t { i with count := c }) i.count (current s2 t { i with count := c }).count))) (some s)
    match step1 with
    | none => none
    | some s1 =>
      let l := s1.targets t
      emitRemove cat rec (setT s1 t (l.filter fun m => !(m.name == name && m.count ≤ 0))) t
        (l.filter fun m => m.name == name && m.count ≤ 0)
  | .dispel t status order count =>
    let l := s.targets t
    let idx := dispelSel cat l status order count s.shuffle
    let keep := (List.range l.length).filterMap fun k => if idx.contains k then none else l[k]?
    let gone := (List.range l.length).filterMap fun k => if idx.contains k then l[k]? else none
    emitDispel cat rec (setT s t keep) t gone
  | .tick t phase =>
    if phase == 0 then some { s with turnCount := s.turnCount + 1 }
    else if phase == 2 then some (setT s t ((s.targets t).map fun m => { m with canTickP2 := true }))
    else if phase == 1 || phase == 3 then
      let kind := if phase == 1 then "OnPhase1" else "OnPhase2"
      let moment : Nat := if phase == 1 then 1 else 0
      match (s.targets t).foldl (fun (os : Option (St α)) i0 =>
              match os with
              | none => none
              | some s1 => runHook cat rec s1 t (current s1 t i0) kind) (some s) with
      | none => none
      | some s1 =>
        let res := (s1.targets t).map (tickInst cat s1 moment)
        emitRemove cat rec (setT s1 t ((res.filter (!·.2)).map (·.1))) t ((res.filter (·.2)).map (·.1))
    else some s
  | .instAddProp t uid p x =>
    match (s.targets t).find? (·.uid == uid) with
    | none => some s      -- the instance is no longer attached: its own data changes, nobody reads it
    | some i => propChange cat rec (setT s t (setInst (s.targets t) { i with stats := modProp i.stats p x })) t

  | .instSetProp t uid p x =>
    match (s.targets t).find? (·.uid == uid) with
    | none => some s
    | some i =>
      -- `PropMap.Set`: the entry starts again from nothing, then the amount is applied as by `AddProperty`;
      -- listeners hear about it only if the value changed
      let cleared := i.stats.filter (·.1 != p)
      let stats' := modProp cleared p x
      let old := ((i.stats.find? (·.1 == p)).map (·.2)).getD 0
      let new := ((stats'.find? (·.1 == p)).map (·.2)).getD 0
      if Num.eqb old new then some (setT s t (setInst (s.targets t) { i with stats := stats' }))
      else propChange cat rec (setT s t (setInst (s.targets t) { i with stats := stats' })) t
  | .instWeak t uid d on =>
    match (s.targets t).find? (·.uid == uid) with
    | none => some s
    | some i =>
      let w := i.weak.filter (·.1 != d)
      some (setT s t (setInst (s.targets t) { i with weak := if on then w ++ [(d, true)] else w }))
  | .instDres t uid f x =>
    match (s.targets t).find? (·.uid == uid) with
    | none => some s
    | some i =>
      let cur := ((i.dres.find? (·.1 == f)).map (·.2)).getD 0
      some (setT s t (setInst (s.targets t) { i with dres := i.dres.filter (·.1 != f) ++ [(f, cur + x)] }))

/-- fuel-bounded execution -/
def exec : Nat → St α → Op α → Option (St α)
  | 0, _, _ => none
  | f + 1, s, op => execWith cat (exec f) s op

end exec

/-- `EvalModifiers` + `NewStats`: total of a property over base stats and attached instances -/
def propTotal (base : List (Nat × α)) (l : List (Inst α)) (p : Nat) : α :=
  let fromMods := l.foldl (fun acc i =>
    i.stats.foldl (fun a q => if q.1 == p && Num.neb q.2 0 then
      (if p == 90 || p == 91 then 1 - (1 - a) * (1 - q.2) else a + q.2) else a) acc) (0 : α)
  base.foldl (fun a q => if q.1 == p && Num.neb q.2 0 then
      (if p == 90 || p == 91 then 1 - (1 - a) * (1 - q.2) else a + q.2) else a) fromMods

/-- a unit's weaknesses: the damage types some contributor (the unit itself or an attached instance)
marks as weak — entries that say "not weak" never take a weakness away (`WeaknessMap.AddAll`) -/
def weakTo (base : List (Nat × Bool)) (l : List (Inst α)) (t : Nat) : Bool :=
  base.contains (t, true) || l.any fun i => i.weak.contains (t, true)

/-- `Stats.StatusCount`: how many attached instances have a shape of that status type -/
def statusCount (cat : Catalog α) (l : List (Inst α)) (status : Nat) : Nat :=
  (l.filter fun i => (cfgOf cat i.name).status == status).length

/-- `Stats.HasBehaviorFlag`: some attached instance's shape carries the flag -/
def hasFlag (cat : Catalog α) (l : List (Inst α)) (f : Nat) : Bool :=
  l.any fun i => (cfgOf cat i.name).flags.contains f

end Modifier
