/-
Executable model of the modifier manager's event dispatch (pkg/engine/modifier/listener.go,
the functions registered by `subscribe`): which listener of which attached instance an engine
event reaches, and in which order.  Attached lists are in attachment order (the model of
`Manager.targets`, C05); an instance is reduced to what dispatch looks at.
-/
namespace Dispatch

/-- the event-driven listener slots of `modifier.Listeners` -/
inductive Ln
  | beforeAttack | beforeBeingAttacked | afterAttack | afterBeingAttacked
  | beforeHitAll | beforeHit | beforeBeingHitAll | beforeBeingHit
  | afterHitAll | afterHit | afterBeingHitAll | afterBeingHit
  | beforeDealHeal | beforeBeingHeal | afterDealHeal | afterBeingHeal
  | hpChange | limboWaitHeal | beforeDying | triggerDeath
  | energyChange | stanceChange | beforeBeingBreak | triggerBreak | beingBreak | endBreak
  | breakExtend | beforeAction | afterAction | shieldAdded | shieldRemoved
deriving DecidableEq, Repr, Inhabited

def Ln.all : List Ln :=
  [.beforeAttack, .beforeBeingAttacked, .afterAttack, .afterBeingAttacked,
   .beforeHitAll, .beforeHit, .beforeBeingHitAll, .beforeBeingHit,
   .afterHitAll, .afterHit, .afterBeingHitAll, .afterBeingHit,
   .beforeDealHeal, .beforeBeingHeal, .afterDealHeal, .afterBeingHeal,
   .hpChange, .limboWaitHeal, .beforeDying, .triggerDeath,
   .energyChange, .stanceChange, .beforeBeingBreak, .triggerBreak, .beingBreak, .endBreak,
   .breakExtend, .beforeAction, .afterAction, .shieldAdded, .shieldRemoved]

def Ln.idx (l : Ln) : Nat := (Ln.all.idxOf l)

/-- what dispatch sees of an attached instance -/
structure Inst where
  uid    : Nat
  /-- listener slots that are set (non-nil) -/
  has    : List Ln
  /-- `modifySnapshot` -/
  snap   : Bool
  /-- its `OnLimboWaitHeal` reports a revive -/
  cancel : Bool
deriving Repr, Inhabited

inductive Evt
  | attackStart (attacker : Int) (targets : List Int)
  | attackEnd (attacker : Int) (targets : List Int)
  | hitStart (attacker defender : Int) (qualified snapshot : Bool)
  | hitEnd (attacker defender : Int) (qualified snapshot : Bool)
  | healStart (healer target : Int) (snapshot : Bool)
  | healEnd (healer target : Int) (snapshot : Bool)
  | hpChange (t : Int)
  | limbo (t : Int)
  | death (t killer : Int)
  | energy (t : Int)
  | stance (t : Int)
  | stanceBreak (t source : Int)
  | stanceReset (t : Int)
  | breakExtend (t : Int)
  | actionStart (owner : Int)
  | actionEnd (owner : Int)
  | shieldAdded (t : Int)
  | shieldRemoved (t : Int)
deriving Repr, Inhabited

/-- a listener invocation: which instance, which slot -/
abbrev Call := Nat × Ln

/-- one pass over an attached list for one slot -/
def pass (l : List Inst) (ln : Ln) : List Call :=
  (l.filter (·.has.contains ln)).map fun m => (m.uid, ln)

/-- one pass over an attached list under the snapshot rule, with several slots per instance
(each with its own enabling condition), slots in the given order within an instance -/
def passSnap (snapshot : Bool) (l : List Inst) (lns : List (Ln × Bool)) : List Call :=
  l.flatMap fun m =>
    if snapshot && !m.snap then []
    else (lns.filter fun p => p.2 && m.has.contains p.1).map fun p => (m.uid, p.1)

/-- the limbo pass stops at the first listener that reports a revive -/
def limboPass : List Inst → List Call × Bool
  | [] => ([], false)
  | m :: r =>
    if m.has.contains .limboWaitHeal then
      if m.cancel then ([(m.uid, .limboWaitHeal)], true)
      else let (cs, c) := limboPass r; ((m.uid, .limboWaitHeal) :: cs, c)
    else limboPass r

/-- the calls an event causes, in order, and whether the (cancelable) event was cancelled -/
def dispatch (mods : Int → List Inst) : Evt → List Call × Bool
  | .attackStart a ts => (pass (mods a) .beforeAttack ++ ts.flatMap fun t => pass (mods t) .beforeBeingAttacked, false)
  | .attackEnd a ts => (pass (mods a) .afterAttack ++ ts.flatMap fun t => pass (mods t) .afterBeingAttacked, false)
  | .hitStart a d q s =>
    (passSnap s (mods a) [(.beforeHitAll, true), (.beforeHit, q)] ++
     passSnap s (mods d) [(.beforeBeingHitAll, true), (.beforeBeingHit, q)], false)
  | .hitEnd a d q s =>
    (passSnap s (mods a) [(.afterHitAll, true), (.afterHit, q)] ++
     passSnap s (mods d) [(.afterBeingHitAll, true), (.afterBeingHit, q)], false)
  | .healStart h t s =>
    (passSnap s (mods h) [(.beforeDealHeal, true)] ++ passSnap s (mods t) [(.beforeBeingHeal, true)], false)
  | .healEnd h t s =>
    (passSnap s (mods h) [(.afterDealHeal, true)] ++ passSnap s (mods t) [(.afterBeingHeal, true)], false)
  | .hpChange t => (pass (mods t) .hpChange, false)
  | .limbo t => limboPass (mods t)
  | .death t k => (pass (mods t) .beforeDying ++ pass (mods k) .triggerDeath, false)
  | .energy t => (pass (mods t) .energyChange, false)
  | .stance t => (pass (mods t) .stanceChange, false)
  | .stanceBreak t s =>
    (pass (mods t) .beforeBeingBreak ++ pass (mods s) .triggerBreak ++ pass (mods t) .beingBreak, false)
  | .stanceReset t => (pass (mods t) .endBreak, false)
  | .breakExtend t => (pass (mods t) .breakExtend, false)
  | .actionStart o => (pass (mods o) .beforeAction, false)
  | .actionEnd o => (pass (mods o) .afterAction, false)
  | .shieldAdded t => (pass (mods t) .shieldAdded, false)
  | .shieldRemoved t => (pass (mods t) .shieldRemoved, false)

/-! state for the driver: attached lists by unit, `attach` appends (attachment order), `detach`
removes every instance of a shape from a unit -/

structure St where
  lists : List (Int × List (Nat × Inst)) := []   -- unit ↦ (shape, instance) in attachment order
  next  : Nat := 1
deriving Repr, Inhabited

def St.get (s : St) (t : Int) : List (Nat × Inst) := ((s.lists.find? (·.1 == t)).map (·.2)).getD []
def St.mods (s : St) (t : Int) : List Inst := (s.get t).map (·.2)
def St.set (s : St) (t : Int) (l : List (Nat × Inst)) : St :=
  { s with lists := (t, l) :: s.lists.filter (·.1 != t) }

def attach (s : St) (t : Int) (shape : Nat) (mk : Nat → Inst) : St :=
  { (s.set t (s.get t ++ [(shape, mk s.next)])) with next := s.next + 1 }

def detach (s : St) (t : Int) (shape : Nat) : St :=
  s.set t ((s.get t).filter (·.1 != shape))

end Dispatch
