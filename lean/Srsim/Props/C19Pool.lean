import Srsim.Model.Pool
/-
C19 for the server-mode pool: what a finished batch reports summarises exactly the results that were
added to the aggregators, however the batch ended (all iterations done, cancelled, timed out), and an
interim report never summarises a result that was not added.
-/
namespace Pool

/-- invariant of the loop -/
structure Inv (c : Cfg) (s : St) : Prop where
  flushLe : s.lastFlush ≤ s.count
  running : s.done = false → s.published = some s.lastFlush ∧ s.count < c.iterations ∧ s.failed = false
  finished : s.done = true → s.failed = false → s.published = some s.count
  failed : s.failed = true → s.published = none ∧ s.done = true

theorem inv_start (c : Cfg) : Inv c (start c) := by
  unfold start finish
  split <;> constructor <;> simp_all

theorem bump_count (c : Cfg) (s : St) : (bump c s).count = s.count + 1 := by
  unfold bump; split <;> rfl
theorem bump_done (c : Cfg) (s : St) : (bump c s).done = s.done := by
  unfold bump; split <;> rfl
theorem bump_failed (c : Cfg) (s : St) : (bump c s).failed = s.failed := by
  unfold bump; split <;> rfl
theorem bump_flush (c : Cfg) (s : St) (h : s.published = some s.lastFlush) (hl : s.lastFlush ≤ s.count) :
    (bump c s).published = some (bump c s).lastFlush ∧ (bump c s).lastFlush ≤ (bump c s).count := by
  unfold bump; split
  · simp
  · simp [h]; omega

theorem inv_step (c : Cfg) (s : St) (e : Ev) (h : Inv c s) : Inv c (step c s e) := by
  unfold step
  split
  · exact h
  · rename_i hd
    have hd' : s.done = false := by simpa using hd
    obtain ⟨hp, hc, hf⟩ := h.running hd'
    have hle := h.flushLe
    cases e with
    | error => constructor <;> simp_all
    | cancel => unfold finish; constructor <;> simp_all
    | result =>
      obtain ⟨b1, b2⟩ := bump_flush c s hp hle
      simp only
      split
      · rename_i hlt
        constructor
        · exact b2
        · intro _; exact ⟨b1, by rw [bump_count]; exact hlt, by rw [bump_failed]; exact hf⟩
        · intro hdn; rw [bump_done] at hdn; simp [hd'] at hdn
        · intro hfl; rw [bump_failed] at hfl; simp [hf] at hfl
      · unfold finish
        constructor
        · exact b2
        · intro hdn; simp at hdn
        · intro _ _; rfl
        · intro hfl; simp only [bump_failed] at hfl; simp [hf] at hfl

theorem inv_foldl (c : Cfg) (evs : List Ev) (s : St) (h : Inv c s) : Inv c (evs.foldl (step c) s) := by
  induction evs generalizing s with
  | nil => exact h
  | cons e es ih => exact ih _ (inv_step c s e h)

theorem inv_run (c : Cfg) (evs : List Ev) : Inv c (run c evs) := inv_foldl c evs _ (inv_start c)

/-- **C19 (pool)**: when the batch is done and did not fail, the published statistics summarise exactly the
results that were added — whether it ran to the end or was cancelled at any point. -/
theorem C19_pool_done_reports_every_added_result (c : Cfg) (evs : List Ev)
    (hd : (run c evs).done = true) (hf : (run c evs).failed = false) :
    (run c evs).published = some (run c evs).count :=
  (inv_run c evs).finished hd hf

/-- an interim report (the batch still running) summarises a prefix of what was added, never more -/
theorem C19_pool_interim_report_is_a_prefix (c : Cfg) (evs : List Ev) (hd : (run c evs).done = false) :
    ∃ k, (run c evs).published = some k ∧ k ≤ (run c evs).count :=
  ⟨_, ((inv_run c evs).running hd).1, (inv_run c evs).flushLe⟩

/-- a failed batch publishes no result at all -/
theorem C19_pool_failure_publishes_nothing (c : Cfg) (evs : List Ev) (hf : (run c evs).failed = true) :
    (run c evs).published = none :=
  ((inv_run c evs).failed hf).1

theorem step_done (c : Cfg) (s : St) (e : Ev) (h : s.done = true) : step c s e = s := by
  unfold step; simp [h]

theorem foldl_done (c : Cfg) (evs : List Ev) (s : St) (h : s.done = true) : evs.foldl (step c) s = s := by
  induction evs with
  | nil => rfl
  | cons e es ih => simp [List.foldl, step_done c s e h, ih]

/-- the counter is the number of results received before the loop stopped: every such result is counted
once, and nothing received after the stop is -/
theorem count_eq_added (c : Cfg) (evs : List Ev) (s : St) (hi : Inv c s) (hd : s.done = false) :
    (evs.foldl (step c) s).count = added c s.count evs := by
  induction evs generalizing s with
  | nil => simp [added]
  | cons e es ih =>
    obtain ⟨_, hc, _⟩ := hi.running hd
    have hnot : ¬ c.iterations ≤ s.count := by omega
    simp only [List.foldl, added, if_neg hnot]
    cases e with
    | error =>
      have : (step c s .error).done = true := by unfold step; simp [hd]
      rw [foldl_done c es _ this]; unfold step; simp [hd]
    | cancel =>
      have : (step c s .cancel).done = true := by unfold step finish; simp [hd]
      rw [foldl_done c es _ this]; unfold step finish; simp [hd]
    | result =>
      have hcnt : (step c s .result).count = s.count + 1 := by
        unfold step finish; simp only [hd]; simp only [Bool.false_eq_true, if_false]
        split <;> simp [bump_count]
      cases hdn : (step c s .result).done with
      | true =>
        rw [foldl_done c es _ hdn, hcnt]
        have hge : c.iterations ≤ s.count + 1 := by
          unfold step finish at hdn
          simp only [hd, Bool.false_eq_true, if_false] at hdn
          split at hdn
          · rw [bump_done] at hdn; simp [hd] at hdn
          · omega
        cases es with
        | nil => simp [added]
        | cons e' es' => simp [added, hge]
      | false =>
        rw [ih _ (inv_step c s .result hi) hdn, hcnt]

theorem C19_pool_count_is_results_before_stop (c : Cfg) (evs : List Ev) (h : 0 < c.iterations) :
    (run c evs).count = added c 0 evs := by
  unfold run
  have hs : start c = {} := by unfold start; simp [h]
  rw [hs]
  exact count_eq_added c evs {} (hs ▸ inv_start c) rfl

theorem added_replicate (c : Cfg) (k m : Nat) (h1 : k ≤ c.iterations) (h2 : c.iterations ≤ k + m) :
    added c k (List.replicate m .result) = c.iterations := by
  induction m generalizing k with
  | zero => simp [added]; omega
  | succ m ih =>
    simp only [List.replicate, added]
    split
    · omega
    · exact ih (k + 1) (by omega) (by omega)

theorem failed_of_results (c : Cfg) (es : List Ev) (s : St) (he : ∀ e ∈ es, e = .result) (hs : s.failed = false) :
    (es.foldl (step c) s).failed = false := by
  induction es generalizing s with
  | nil => exact hs
  | cons e es ih =>
    have : e = .result := he e (by simp)
    subst this
    apply ih _ (fun e' h' => he e' (by simp [h']))
    unfold step finish; split
    · exact hs
    · simp only; split <;> simp [bump_failed, hs]

/-- a batch whose workers deliver all results runs to the end and reports all of them -/
theorem C19_pool_completes (c : Cfg) (n : Nat) (h : c.iterations ≤ n) (hp : 0 < c.iterations) :
    (run c (List.replicate n .result)).done = true ∧ (run c (List.replicate n .result)).published = some c.iterations := by
  have hcount := C19_pool_count_is_results_before_stop c (List.replicate n .result) hp
  rw [added_replicate c 0 n (by omega) (by omega)] at hcount
  have hinv := inv_run c (List.replicate n .result)
  have hnf : (run c (List.replicate n .result)).failed = false := by
    unfold run
    exact failed_of_results c _ _ (fun e he => (List.mem_replicate.mp he).2) (by unfold start finish; split <;> rfl)
  cases hdone : (run c (List.replicate n .result)).done with
  | false =>
    have := (hinv.running hdone).2.1
    omega
  | true => exact ⟨rfl, by rw [hinv.finished hdone hnf, hcount]⟩

-- the hypotheses are satisfiable and the statements say something: a batch of 5, flushed when more than 1 result is
-- unreported, cancelled after 4 (the result that arrives after the cancel is not counted)
example : (run ⟨5, 1⟩ [.result, .result, .result, .result, .cancel, .result]).published = some 4 := by decide
example : (run ⟨5, 1⟩ [.result, .result, .result]).published = some 2 ∧ (run ⟨5, 1⟩ [.result, .result, .result]).done = false := by decide
example : (run ⟨3, 100⟩ [.result, .result, .result]).published = some 3 ∧ (run ⟨3, 100⟩ [.result, .result, .result]).done = true := by decide
example : (run ⟨3, 100⟩ [.result, .error, .result]).published = none := by decide

end Pool
