import Srsim.Model.Pool
/-
C19 for the server-mode pool: what a finished batch reports summarises exactly the results that were
added to the aggregators, however the batch ended (all iterations done, cancelled, timed out), and an
interim report never summarises a result that was not added.
-/
namespace Pool
variable {ρ : Type}

/-- invariant of the loop -/
structure Inv (c : Cfg) (s : St ρ) : Prop where
  flushLe : s.lastFlush ≤ s.count
  running : s.done = false → s.published = some (s.added.take s.lastFlush) ∧ s.count < c.iterations ∧ s.failed = false
  finished : s.done = true → s.failed = false → s.published = some s.added
  failed : s.failed = true → s.published = none ∧ s.done = true

theorem inv_start (c : Cfg) : Inv c (start c : St ρ) := by
  unfold start finish
  split <;> constructor <;> simp_all [St.count]

theorem bump_added (c : Cfg) (s : St ρ) (r : ρ) : (bump c s r).added = s.added ++ [r] := by
  unfold bump; split <;> rfl
theorem bump_count (c : Cfg) (s : St ρ) (r : ρ) : (bump c s r).count = s.count + 1 := by
  simp [St.count, bump_added]
theorem bump_done (c : Cfg) (s : St ρ) (r : ρ) : (bump c s r).done = s.done := by
  unfold bump; split <;> rfl
theorem bump_failed (c : Cfg) (s : St ρ) (r : ρ) : (bump c s r).failed = s.failed := by
  unfold bump; split <;> rfl
theorem bump_flush (c : Cfg) (s : St ρ) (r : ρ) (h : s.published = some (s.added.take s.lastFlush)) (hl : s.lastFlush ≤ s.count) :
    (bump c s r).published = some ((bump c s r).added.take (bump c s r).lastFlush) ∧ (bump c s r).lastFlush ≤ (bump c s r).count := by
  unfold bump; split
  · simp only [St.count] at hl ⊢
    refine ⟨?_, by simp⟩
    simp only [Option.some.injEq]
    exact (List.take_of_length_le (by simp)).symm
  · simp only [St.count] at hl ⊢
    refine ⟨?_, by simp; omega⟩
    simp only [h]
    rw [List.take_append_of_le_length hl]

theorem inv_step (c : Cfg) (s : St ρ) (e : Ev ρ) (h : Inv c s) : Inv c (step c s e) := by
  unfold step
  split
  · exact h
  · rename_i hd
    have hd' : s.done = false := by simpa using hd
    obtain ⟨hp, hc, hf⟩ := h.running hd'
    have hle := h.flushLe
    cases e with
    | error => constructor <;> simp_all [St.count]
    | cancel => unfold finish; constructor <;> simp_all [St.count]
    | result r =>
      obtain ⟨b1, b2⟩ := bump_flush c s r hp hle
      simp only
      split
      · rename_i hlt
        constructor
        · exact b2
        · intro _; exact ⟨b1, by rw [bump_count]; exact hlt, by rw [bump_failed]; exact hf⟩
        · intro hdn; rw [bump_done] at hdn; simp [hd'] at hdn
        · intro hfl; rw [bump_failed] at hfl; simp [hf] at hfl
      · unfold finish
        constructor
        · exact b2
        · intro hdn; simp at hdn
        · intro _ _; rfl
        · intro hfl; simp only [bump_failed] at hfl; simp [hf] at hfl

theorem inv_foldl (c : Cfg) (evs : List (Ev ρ)) (s : St ρ) (h : Inv c s) : Inv c (evs.foldl (step c) s) := by
  induction evs generalizing s with
  | nil => exact h
  | cons e es ih => exact ih _ (inv_step c s e h)

theorem inv_run (c : Cfg) (evs : List (Ev ρ)) : Inv c (run c evs) := inv_foldl c evs _ (inv_start c)

/-- **C19 (pool)**: when the batch is done and did not fail, the published statistics summarise exactly the
results that were added — whether it ran to the end or was cancelled at any point. -/
theorem C19_pool_done_reports_every_added_result (c : Cfg) (evs : List (Ev ρ))
    (hd : (run c evs).done = true) (hf : (run c evs).failed = false) :
    (run c evs).published = some (run c evs).added :=
  (inv_run c evs).finished hd hf

/-- an interim report (the batch still running) summarises a prefix of what was added, never anything else -/
theorem C19_pool_interim_report_is_a_prefix (c : Cfg) (evs : List (Ev ρ)) (hd : (run c evs).done = false) :
    ∃ k, k ≤ (run c evs).count ∧ (run c evs).published = some ((run c evs).added.take k) :=
  ⟨_, (inv_run c evs).flushLe, ((inv_run c evs).running hd).1⟩

/-- a failed batch publishes no result at all -/
theorem C19_pool_failure_publishes_nothing (c : Cfg) (evs : List (Ev ρ)) (hf : (run c evs).failed = true) :
    (run c evs).published = none :=
  ((inv_run c evs).failed hf).1

theorem step_done (c : Cfg) (s : St ρ) (e : Ev ρ) (h : s.done = true) : step c s e = s := by
  unfold step; simp [h]

theorem foldl_done (c : Cfg) (evs : List (Ev ρ)) (s : St ρ) (h : s.done = true) : evs.foldl (step c) s = s := by
  induction evs with
  | nil => rfl
  | cons e es ih => simp [List.foldl, step_done c s e h, ih]

/-- what was added is what was received before the loop stopped, in arrival order: every such result
once, and nothing received after the stop -/
theorem added_eq_received (c : Cfg) (evs : List (Ev ρ)) (s : St ρ) (hi : Inv c s) (hd : s.done = false) :
    (evs.foldl (step c) s).added = received c s.added evs := by
  induction evs generalizing s with
  | nil => simp [received]
  | cons e es ih =>
    obtain ⟨_, hc, _⟩ := hi.running hd
    have hnot : ¬ c.iterations ≤ s.added.length := by simp only [St.count] at hc; omega
    simp only [List.foldl, received, if_neg hnot]
    cases e with
    | error =>
      have : (step c s (.error : Ev ρ)).done = true := by unfold step; simp [hd]
      rw [foldl_done c es _ this]; unfold step; simp [hd]
    | cancel =>
      have : (step c s (.cancel : Ev ρ)).done = true := by unfold step finish; simp [hd]
      rw [foldl_done c es _ this]; unfold step finish; simp [hd]
    | result r =>
      have hadd : (step c s (.result r)).added = s.added ++ [r] := by
        unfold step finish; simp only [hd, Bool.false_eq_true, if_false]
        split <;> simp [bump_added]
      cases hdn : (step c s (.result r)).done with
      | true =>
        rw [foldl_done c es _ hdn, hadd]
        have hge : c.iterations ≤ s.count + 1 := by
          unfold step finish at hdn
          simp only [hd, Bool.false_eq_true, if_false] at hdn
          split at hdn
          · rw [bump_done] at hdn; simp [hd] at hdn
          · omega
        have hge' : c.iterations ≤ (s.added ++ [r]).length := by simpa [St.count] using hge
        cases es with
        | nil => simp [received]
        | cons e' es' => simp only [received, if_pos hge']
      | false =>
        rw [ih _ (inv_step c s (.result r) hi) hdn, hadd]

theorem C19_pool_added_is_received_before_stop (c : Cfg) (evs : List (Ev ρ)) (h : 0 < c.iterations) :
    (run c evs).added = received c [] evs := by
  unfold run
  have hs : (start c : St ρ) = {} := by unfold start; simp [h]
  rw [hs]
  exact added_eq_received c evs {} (hs ▸ inv_start c) rfl

theorem received_results (c : Cfg) (acc rs : List ρ) (h1 : acc.length ≤ c.iterations) :
    received c acc (rs.map .result) = acc ++ rs.take (c.iterations - acc.length) := by
  induction rs generalizing acc with
  | nil => simp [received]
  | cons r rs ih =>
    simp only [List.map, received]
    split
    · have : c.iterations - acc.length = 0 := by omega
      simp [this]
    · rename_i hlt
      rw [ih (acc ++ [r]) (by simp; omega)]
      have : c.iterations - acc.length = (c.iterations - (acc ++ [r]).length) + 1 := by simp; omega
      rw [this, List.take_succ_cons]; simp

theorem failed_of_results (c : Cfg) (es : List (Ev ρ)) (s : St ρ) (he : ∀ e ∈ es, ∃ r, e = .result r) (hs : s.failed = false) :
    (es.foldl (step c) s).failed = false := by
  induction es generalizing s with
  | nil => exact hs
  | cons e es ih =>
    obtain ⟨r, hr⟩ := he e (by simp)
    subst hr
    apply ih _ (fun e' h' => he e' (by simp [h']))
    unfold step finish; split
    · exact hs
    · simp only; split <;> simp [bump_failed, hs]

/-- a batch whose workers deliver all results runs to the end and reports exactly the first `iterations` of them -/
theorem C19_pool_completes (c : Cfg) (rs : List ρ) (h : c.iterations ≤ rs.length) (hp : 0 < c.iterations) :
    (run c (rs.map .result)).done = true ∧ (run c (rs.map .result)).published = some (rs.take c.iterations) := by
  have hadded := C19_pool_added_is_received_before_stop c (rs.map .result) hp
  rw [received_results c [] rs (by simp)] at hadded
  simp only [List.nil_append, List.length_nil, Nat.sub_zero] at hadded
  have hinv := inv_run c (rs.map (.result : ρ → Ev ρ))
  have hnf : (run c (rs.map (.result : ρ → Ev ρ))).failed = false := by
    unfold run
    exact failed_of_results c _ _ (fun e he => by
      obtain ⟨r, _, hr⟩ := List.mem_map.mp he
      exact ⟨r, hr.symm⟩) (by unfold start finish; split <;> rfl)
  cases hdone : (run c (rs.map (.result : ρ → Ev ρ))).done with
  | false =>
    have := (hinv.running hdone).2.1
    simp only [St.count, hadded, List.length_take] at this
    omega
  | true => exact ⟨rfl, by rw [hinv.finished hdone hnf, hadded]⟩

-- the hypotheses are satisfiable and the statements say something: a batch of 5, flushed when more than 1 result is
-- unreported, cancelled after 4 (the result that arrives after the cancel is not counted)
example : (run ⟨5, 1⟩ [.result 10, .result 11, .result 12, .result 13, .cancel, .result 14]).published = some [10, 11, 12, 13] := by decide
example : (run ⟨5, 1⟩ [.result 10, .result 11, .result 12]).published = some [10, 11] ∧ (run ⟨5, 1⟩ [.result 10, .result 11, .result 12]).done = false := by decide
example : (run ⟨3, 100⟩ [.result 1, .result 2, .result 3]).published = some [1, 2, 3] ∧ (run ⟨3, 100⟩ [.result 1, .result 2, .result 3]).done = true := by decide
example : (run ⟨3, 100⟩ [.result 1, .error, .result 2]).published = none := by decide

end Pool
