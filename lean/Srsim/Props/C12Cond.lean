import Srsim.Model.Gcs.Eval
import Srsim.Proofs.NumRat
/-!
# C12, condition builtins — "every engine state seen by the condition builtins"

Theorems about `Gcs.Eval.condEval` (model of `pkg/logic/gcs/eval/conditions.go`) at `α := ℚ`, for
every world: which builtins reject which targets, that the predicates never fail, and that each
getter returns exactly the engine's value for the unit named.  `condEval` takes no evaluator state:
a condition builtin cannot change variables, callbacks or the random stream (its only effect in
`callBuiltin` is the evaluation of its arguments and, for the three list builtins, a fresh map).
-/
namespace Gcs.Eval

abbrev W := World Rat

/-- the builtins that demand an existing unit -/
def needsValid : List String :=
  ["has_modifier", "modifier_count", "energy", "max_energy", "hp_ratio", "has_shield", "is_shielded", "is_alive", "adjacent_to"]

/-- the builtins that demand an enemy / a character -/
def needsEnemy : List String := ["weakness_broken", "has_weakness", "stance", "max_stance"]
def needsChar : List String := ["ult_ready", "element"]

/-- **Absent units are errors, not defaults**: a builtin that reads a unit's state reports an
error for an id the engine does not know (it never answers with a zero value). -/
theorem C12_cond_invalid_target (w : W) (name : String) (hn : name ∈ needsValid) (args : List (Val Rat))
    (h : w.unit? (targetOf (args.headD .null)) = none) :
    condEval w name args = .error "target is invalid" := by
  simp only [needsValid, List.mem_cons, List.mem_nil_iff, or_false] at hn
  simp only [List.headD_eq_head?_getD] at h
  rcases hn with rfl | rfl | rfl | rfl | rfl | rfl | rfl | rfl | rfl <;> simp [condEval, h]

/-- **Class checks**: toughness and weakness builtins reject everything that is not an enemy,
ultimate readiness and element everything that is not a character — absent ids included. -/
theorem C12_cond_wrong_class (w : W) (args : List (Val Rat)) :
    (∀ name ∈ needsEnemy, w.isEnemy (targetOf (args.headD .null)) = false →
      condEval w name args = .error "target is not an enemy") ∧
    (∀ name ∈ needsChar, w.isChar (targetOf (args.headD .null)) = false →
      condEval w name args = .error "target is not a character") := by
  constructor
  · intro name hn h
    simp only [needsEnemy, List.mem_cons, List.mem_nil_iff, or_false] at hn
    unfold World.isEnemy at h
    simp only [List.headD_eq_head?_getD] at h
    rcases hn with rfl | rfl | rfl | rfl <;>
      (cases hu : w.unit? (targetOf (args.head?.getD .null)) <;> simp_all [condEval])
  · intro name hn h
    simp only [needsChar, List.mem_cons, List.mem_nil_iff, or_false] at hn
    unfold World.isChar at h
    simp only [List.headD_eq_head?_getD] at h
    rcases hn with rfl | rfl <;>
      (cases hu : w.unit? (targetOf (args.head?.getD .null)) <;> simp_all [condEval])

/-- **The predicates are total** and answer 0 or 1 for every id, known or not. -/
theorem C12_cond_predicates_total (w : W) (args : List (Val Rat)) :
    let t := targetOf (args.headD .null)
    condEval w "is_valid" args = .ok (.val (.int (if w.isValid t then 1 else 0))) ∧
    condEval w "is_character" args = .ok (.val (.int (if w.isChar t then 1 else 0))) ∧
    condEval w "is_enemy" args = .ok (.val (.int (if w.isEnemy t then 1 else 0))) ∧
    condEval w "skill_points" args = .ok (.val (.int w.sp)) := by
  refine ⟨?_, ?_, ?_, ?_⟩ <;> simp [condEval]

/-- **Getters return the engine's value for the unit named**, whatever the other units are. -/
theorem C12_cond_getters (w : W) (u : WUnit Rat) (t : Int) (rest : List (Val Rat)) (h : w.unit? t = some u) :
    condEval w "energy" (.int t :: rest) = .ok (.val (.flt u.energy)) ∧
    condEval w "max_energy" (.int t :: rest) = .ok (.val (.flt u.maxEnergy)) ∧
    condEval w "hp_ratio" (.int t :: rest) = .ok (.val (.flt u.hp)) ∧
    condEval w "is_alive" (.int t :: rest) = .ok (.val (.int (if u.alive then 1 else 0))) ∧
    condEval w "is_shielded" (.int t :: rest) = .ok (.val (.int (if u.shielded then 1 else 0))) ∧
    condEval w "adjacent_to" (.int t :: rest) = .ok (.ids u.adj) ∧
    (u.cls = 1 → condEval w "stance" (.int t :: rest) = .ok (.val (.flt u.stance)) ∧
                 condEval w "max_stance" (.int t :: rest) = .ok (.val (.flt u.maxStance)) ∧
                 condEval w "weakness_broken" (.int t :: rest) = .ok (.val (.int (if u.stance = 0 then 1 else 0)))) ∧
    (u.cls = 0 → condEval w "element" (.int t :: rest) = .ok (.val (.int u.elem)) ∧
                 condEval w "ult_ready" (.int t :: rest) = .ok (.val (.int (if 1 ≤ u.energy / u.maxEnergy then 1 else 0)))) := by
  refine ⟨?_, ?_, ?_, ?_, ?_, ?_, ?_, ?_⟩
  all_goals first
    | (intro hc; refine ⟨?_, ?_, ?_⟩ <;> simp [condEval, targetOf, h, hc, Num.eqb])
    | (intro hc; refine ⟨?_, ?_⟩ <;> simp [condEval, targetOf, h, hc])
    | simp [condEval, targetOf, h]

/-- **A floating value is not a unit id**: the id a number denotes is its integer part as stored
(`number.ival`), which is 0 for every floating value — so `energy(1.0)` asks about unit 0. -/
theorem C12_cond_float_target (x : Rat) : targetOf (.flt x : Val Rat) = 0 := rfl

/-- non-vacuity: a two-unit world where the getters and the class checks are all exercised -/
example :
    let w : W := { sp := 3, units := [
      { id := 1, cls := 0, alive := true, key := txt "danheng", energy := 100, maxEnergy := 100, hp := 1/2, stance := 0, maxStance := 0,
        shielded := true, shields := [], mods := [], status := [], weak := [], skill := 1, elem := 7, adj := [] },
      { id := 4, cls := 1, alive := true, key := [], energy := 0, maxEnergy := 0, hp := 1, stance := 0, maxStance := 90,
        shielded := false, shields := [], mods := [txt "burn"], status := [(2, 3)], weak := [2], skill := 0, elem := 0, adj := [] }] }
    w.unit? 4 ≠ none ∧ w.isEnemy 4 = true ∧ w.isChar 4 = false ∧ w.unit? 9 = none := by decide

end Gcs.Eval
