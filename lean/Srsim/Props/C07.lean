import Srsim.Proofs.AttrExact
/-!
# C07 — HP, energy, toughness and skill points stay in range; every change is reported

Theorems about `Attr.step`/`Attr.run` (the model of `pkg/engine/attribute`) at `α := ℚ`.
The model is tied to the Go code by the correspondence check `Driver/C07.lean`.
Vocabulary (`Inv`, `OpValid`, `Exact`, `StepExact`, `ChainFrom`, …) is in `Spec/AttrSpec.lean`.
-/
namespace Attr

/-- **Ranges**, one step: the range invariant is preserved by every operation. -/
theorem C07_ranges_step (s : S) (op : Op Rat) (h : Inv s) (hv : OpValid op) : Inv (step s op).1 :=
  step_inv op h hv

/-- **Ranges**: HP ratio ∈ [0,1], energy ∈ [0,max], toughness ∈ [0,max], SP ∈ [0,5] in every
state reachable from the initial state by any operation list (any amounts, floors, ratio
types, targets; units registered in range). -/
theorem C07_ranges (ops : List (Op Rat)) (hv : ∀ op ∈ ops, OpValid op) :
    Inv (run ({} : S) ops).1 := by
  have gen : ∀ (ops : List (Op Rat)) (s : S), Inv s → (∀ op ∈ ops, OpValid op) → Inv (run s ops).1 := by
    intro ops
    induction ops with
    | nil => intro s h _; exact h
    | cons op ops ih =>
      intro s h hv
      simp only [run]
      exact ih _ (step_inv op h (hv op (by simp))) (fun o ho => hv o (by simp [ho]))
  exact gen ops {} ⟨by simp, by decide, by decide⟩ hv

/-- **Exactness**, for a registered unit: one call produces, per quantity, either no report and
no change, or exactly one report whose old value is the value before the call, whose new value
is the value after it, and which is a real change; toughness reaching zero announces exactly
one break, leaving zero exactly one reset, and only then. -/
theorem stepExact_of (s : S) (op : Op Rat) (id : Int)
    (hk' : (find? s id).isSome ∨ (∀ u, op ≠ .add u)) :
    StepExact s (step s op) id := by
  have silent : ∀ e : Ev Rat, (e = .errUnknownTarget ∨ e = .errRatioType ∨ e = .errDuplicate) →
      StepExact s (s, [e]) id := by
    intro e he
    apply stepExact_same <;> rcases he with rfl | rfl | rfl <;>
      simp [hpEvs, hpEv?, energyEvs, energyEv?, stanceEvs, stanceEv?, spEvs, spEv?, breakCount, isBreak, resetCount, isReset]
  have nil : StepExact s (s, []) id := by
    apply stepExact_same <;> simp [hpEvs, energyEvs, stanceEvs, spEvs, breakCount, resetCount]
  have relabel : ∀ (u u' : U), find? s u.id = some u → u'.id = u.id → u'.hpRatio = u.hpRatio →
      u'.energy = u.energy → u'.stance = u.stance → StepExact s (setUnit s u', []) id := by
    intro u u' hf h1 h2 h3 h4
    have e1 : hpOf (setUnit s u') id = hpOf s id := by
      unfold hpOf; rw [find?_setUnit' hf h1]
      by_cases h : id = u.id
      · subst h; simp [hf, h2]
      · simp [h]
    have e2 : energyOf (setUnit s u') id = energyOf s id := by
      unfold energyOf; rw [find?_setUnit' hf h1]
      by_cases h : id = u.id
      · subst h; simp [hf, h3]
      · simp [h]
    have e3 : stanceOf (setUnit s u') id = stanceOf s id := by
      unfold stanceOf; rw [find?_setUnit' hf h1]
      by_cases h : id = u.id
      · subst h; simp [hf, h4]
      · simp [h]
    refine ⟨?_, ?_, ?_, ?_, ?_, ?_⟩
    · simp only [e1]; simpa [hpEvs] using exact_refl _
    · simp only [e2]; simpa [energyEvs] using exact_refl _
    · simp only [e3]; simpa [stanceEvs] using exact_refl _
    · simpa [spEvs, setUnit_sp] using exact_refl _
    · simp only [e3, breakCount, List.countP_nil]
      exact ⟨by omega, ⟨fun h => by omega, fun h => absurd h.2 h.1⟩⟩
    · simp only [e3, resetCount, List.countP_nil]
      exact ⟨by omega, ⟨fun h => by omega, fun h => absurd h.1 h.2⟩⟩
  cases op with
  | add u =>
    simp only [step]
    split
    · exact silent _ (by simp)
    · rename_i hnone
      have hk : (find? s id).isSome := by
        rcases hk' with h | h
        · exact h
        · exact absurd rfl (h u)
      -- a new unit with another id is appended: lookups of the known `id` are unchanged
      have hne : ∀ v : U, find? ({ s with units := s.units ++ [v] } : S) id = find? s id := by
        intro v
        unfold find? at hk ⊢
        simp only [List.find?_append]
        cases hfi : List.find? (fun x => x.id == id) s.units with
        | none => simp [hfi] at hk
        | some w => simp
      refine ⟨?_, ?_, ?_, ?_, ?_, ?_⟩
      · simp only [hpOf, hne]; simpa [hpEvs] using exact_refl _
      · simp only [energyOf, hne]; simpa [energyEvs] using exact_refl _
      · simp only [stanceOf, hne]; simpa [stanceEvs] using exact_refl _
      · simpa [spEvs] using exact_refl _
      · simp only [stanceOf, hne, breakCount, List.countP_nil]
        exact ⟨by omega, ⟨fun h => by omega, fun h => absurd h.2 h.1⟩⟩
      · simp only [stanceOf, hne, resetCount, List.countP_nil]
        exact ⟨by omega, ⟨fun h => by omega, fun h => absurd h.1 h.2⟩⟩
  | props tid a b c d e f g =>
    simp only [step]
    split
    · exact nil
    · rename_i u hf
      have hid := find?_id hf
      exact relabel u _ (hid ▸ hf) rfl rfl rfl rfl
  | revive tid on =>
    simp only [step]
    split
    · exact nil
    · rename_i u hf
      have hid := find?_id hf
      exact relabel u _ (hid ▸ hf) rfl rfl rfl rfl
  | setHP tid src amt dmg =>
    simp only [step]
    split
    · exact silent _ (by simp)
    · rename_i u hf
      have hid := find?_id hf
      by_cases hd : u.life = .dead
      · rw [if_pos hd]; exact nil
      · rw [if_neg hd]; exact emitHP_stepExact src _ dmg id (hid ▸ hf)
  | modHP tid src amt dmg =>
    simp only [step]
    split
    · exact silent _ (by simp)
    · rename_i u hf
      have hid := find?_id hf
      by_cases hd : u.life = .dead
      · rw [if_pos hd]; exact nil
      · rw [if_neg hd]; exact emitHP_stepExact src _ dmg id (hid ▸ hf)
  | modHPRatio tid src ratio typ floor dmg =>
    simp only [step]
    split
    · exact silent _ (by simp)
    · rename_i u hf
      have hid := find?_id hf
      have hf' : find? s u.id = some u := hid ▸ hf
      by_cases hd : u.life = .dead
      · rw [if_pos hd]; exact nil
      · rw [if_neg hd]
        split_ifs
        · exact emitHP_stepExact src _ dmg id hf'
        · exact emitHP_stepExact src _ dmg id hf'
        · exact emitHP_stepExact src _ dmg id hf'
        · exact emitHP_stepExact src _ dmg id hf'
        · exact silent _ (by simp)
  | setEnergy tid src amt =>
    simp only [step]
    split
    · exact silent _ (by simp)
    · rename_i u hf
      exact setEnergyU_stepExact src _ id ((find?_id hf) ▸ hf)
  | modEnergy tid src amt =>
    simp only [step]
    split
    · exact silent _ (by simp)
    · rename_i u hf
      exact setEnergyU_stepExact src _ id ((find?_id hf) ▸ hf)
  | modEnergyFixed tid src amt =>
    simp only [step]
    split
    · exact silent _ (by simp)
    · rename_i u hf
      exact setEnergyU_stepExact src _ id ((find?_id hf) ▸ hf)
  | setStance tid src amt =>
    simp only [step]
    split
    · exact silent _ (by simp)
    · rename_i u hf
      exact setStanceU_stepExact src _ id ((find?_id hf) ▸ hf)
  | modStance tid src amt =>
    simp only [step]
    split
    · exact silent _ (by simp)
    · rename_i u hf
      exact setStanceU_stepExact src _ id ((find?_id hf) ▸ hf)
  | modSP src amt =>
    simp only [step]
    refine ⟨?_, ?_, ?_, ?_, ?_, ?_⟩
    · show Exact (hpOf s id) (hpOf s id) _
      have : hpEvs id (if (s.sp == clampSP (s.sp + amt)) = true then []
          else [Ev.spChange src s.sp (clampSP (s.sp + amt))] : List (Ev Rat)) = [] := by
        split_ifs <;> simp [hpEvs, hpEv?]
      rw [this]; exact exact_refl _
    · show Exact (energyOf s id) (energyOf s id) _
      have : energyEvs id (if (s.sp == clampSP (s.sp + amt)) = true then []
          else [Ev.spChange src s.sp (clampSP (s.sp + amt))] : List (Ev Rat)) = [] := by
        split_ifs <;> simp [energyEvs, energyEv?]
      rw [this]; exact exact_refl _
    · show Exact (stanceOf s id) (stanceOf s id) _
      have : stanceEvs id (if (s.sp == clampSP (s.sp + amt)) = true then []
          else [Ev.spChange src s.sp (clampSP (s.sp + amt))] : List (Ev Rat)) = [] := by
        split_ifs <;> simp [stanceEvs, stanceEv?]
      rw [this]; exact exact_refl _
    · by_cases h : s.sp = clampSP (s.sp + amt)
      · left; simp [spEvs, ← h]
      · right; exact ⟨_, _, rfl, rfl, fun e => h e.symm, by simp [spEvs, spEv?, h]⟩
    · show breakCount id _ ≤ 1 ∧ (breakCount id _ = 1 ↔ (stanceOf s id ≠ some 0 ∧ stanceOf s id = some 0))
      have : breakCount id (if (s.sp == clampSP (s.sp + amt)) = true then []
          else [Ev.spChange src s.sp (clampSP (s.sp + amt))] : List (Ev Rat)) = 0 := by
        split_ifs <;> simp [breakCount, isBreak]
      rw [this]; exact ⟨by omega, ⟨fun h => by omega, fun h => absurd h.2 h.1⟩⟩
    · show resetCount id _ ≤ 1 ∧ (resetCount id _ = 1 ↔ (stanceOf s id = some 0 ∧ stanceOf s id ≠ some 0))
      have : resetCount id (if (s.sp == clampSP (s.sp + amt)) = true then []
          else [Ev.spChange src s.sp (clampSP (s.sp + amt))] : List (Ev Rat)) = 0 := by
        split_ifs <;> simp [resetCount, isReset]
      rw [this]; exact ⟨by omega, ⟨fun h => by omega, fun h => absurd h.1 h.2⟩⟩


/-- **Exactness**, for a registered unit: one call produces, per quantity, either no report and
no change, or exactly one report whose old value is the value before the call, whose new value
is the value after it, and which is a real change; toughness reaching zero announces exactly
one break, leaving zero exactly one reset, and only then. -/
theorem C07_exact (s : S) (op : Op Rat) (id : Int) (hk : (find? s id).isSome) :
    StepExact s (step s op) id := stepExact_of s op id (Or.inl hk)

theorem exact_none_nil {β : Type} {after : Option β} {evs : List (β × β)}
    (h : Exact none after evs) : evs = [] := by
  rcases h with ⟨h, _⟩ | ⟨o, n, h, _⟩
  · exact h
  · cases h

/-- Units that are not registered are never reported on. -/
theorem C07_silent_unknown (s : S) (op : Op Rat) (id : Int) (hk : find? s id = none) :
    hpEvs id (step s op).2 = [] ∧ energyEvs id (step s op).2 = [] ∧ stanceEvs id (step s op).2 = [] := by
  by_cases hadd : ∃ u, op = .add u
  · obtain ⟨u, rfl⟩ := hadd
    simp only [step]
    split <;> simp [hpEvs, hpEv?, energyEvs, energyEv?, stanceEvs, stanceEv?]
  · have hna : ∀ u, op ≠ .add u := fun u e => hadd ⟨u, e⟩
    have h := stepExact_of s op id (Or.inr hna)
    have e1 : hpOf s id = none := by simp [hpOf, hk]
    have e2 : energyOf s id = none := by simp [energyOf, hk]
    have e3 : stanceOf s id = none := by simp [stanceOf, hk]
    exact ⟨exact_none_nil (e1 ▸ h.hp), exact_none_nil (e2 ▸ h.energy), exact_none_nil (e3 ▸ h.stance)⟩

/-- generic chaining argument: per-step exactness gives a chain over any history -/
theorem chain_of_exact {β : Type} [DecidableEq β] (val : S → Option β)
    (proj : List (Ev Rat) → List (β × β))
    (happ : ∀ a b, proj (a ++ b) = proj a ++ proj b)
    (hstep : ∀ s op v, val s = some v → Exact (some v) (val (step s op).1) (proj (step s op).2)) :
    ∀ (ops : List (Op Rat)) (s : S) (v : β), val s = some v →
      ChainFrom v (proj (run s ops).2) ∧ val (run s ops).1 = some (lastNew v (proj (run s ops).2)) := by
  intro ops
  induction ops with
  | nil =>
    intro s v hv
    have : proj [] = [] := by
      have := happ [] []; simp at this
      cases h : proj [] with
      | nil => rfl
      | cons a l => rw [h] at this; simp at this
    simp [run, this, ChainFrom, lastNew, hv]
  | cons op ops ih =>
    intro s v hv
    simp only [run, happ]
    rcases hstep s op v hv with ⟨he, ha⟩ | ⟨o, n, ho, hn, hne, he⟩
    · rw [he]; simpa using ih _ v ha
    · cases ho
      rw [he]
      have := ih _ n hn
      show ChainFrom v ((v, n) :: proj (run (step s op).1 ops).2) ∧
           val (run (step s op).1 ops).1 = some (lastNew v ((v, n) :: proj (run (step s op).1 ops).2))
      exact ⟨⟨rfl, hne, this.1⟩, this.2⟩

/-- **Chaining** (HP): over any operation list, the HP reports of a registered unit form a
chain — the first `old` is the current ratio, each `old` is the previous `new`, none is a
non-change — and the final ratio is the last `new`. Likewise energy, toughness, skill points. -/
theorem C07_chain_hp (ops : List (Op Rat)) (s : S) (id : Int) (v : Rat) (h : hpOf s id = some v) :
    ChainFrom v (hpEvs id (run s ops).2) ∧
    hpOf (run s ops).1 id = some (lastNew v (hpEvs id (run s ops).2)) :=
  chain_of_exact (hpOf · id) (hpEvs id) (by intro a b; simp [hpEvs])
    (by
      intro s op v hv
      have hk : (find? s id).isSome := by
        unfold hpOf at hv; cases hf : find? s id <;> simp_all
      have := (C07_exact s op id hk).hp
      rwa [hv] at this) ops s v h

theorem C07_chain_energy (ops : List (Op Rat)) (s : S) (id : Int) (v : Rat) (h : energyOf s id = some v) :
    ChainFrom v (energyEvs id (run s ops).2) ∧
    energyOf (run s ops).1 id = some (lastNew v (energyEvs id (run s ops).2)) :=
  chain_of_exact (energyOf · id) (energyEvs id) (by intro a b; simp [energyEvs])
    (by
      intro s op v hv
      have hk : (find? s id).isSome := by
        unfold energyOf at hv; cases hf : find? s id <;> simp_all
      have := (C07_exact s op id hk).energy
      rwa [hv] at this) ops s v h

theorem C07_chain_stance (ops : List (Op Rat)) (s : S) (id : Int) (v : Rat) (h : stanceOf s id = some v) :
    ChainFrom v (stanceEvs id (run s ops).2) ∧
    stanceOf (run s ops).1 id = some (lastNew v (stanceEvs id (run s ops).2)) :=
  chain_of_exact (stanceOf · id) (stanceEvs id) (by intro a b; simp [stanceEvs])
    (by
      intro s op v hv
      have hk : (find? s id).isSome := by
        unfold stanceOf at hv; cases hf : find? s id <;> simp_all
      have := (C07_exact s op id hk).stance
      rwa [hv] at this) ops s v h

/-- skill points: exact for every call (no unit needs to be registered) -/
theorem C07_exact_sp (s : S) (op : Op Rat) :
    Exact (some s.sp) (some (step s op).1.sp) (spEvs (step s op).2) := by
  by_cases hadd : ∃ u, op = .add u
  · obtain ⟨u, rfl⟩ := hadd
    simp only [step]
    split
    · have : spEvs ([Ev.errDuplicate] : List (Ev Rat)) = [] := by simp [spEvs, spEv?]
      rw [this]; exact exact_refl _
    · simpa [spEvs] using exact_refl _
  · exact (stepExact_of s op 0 (Or.inr (fun u e => hadd ⟨u, e⟩))).sp

theorem C07_chain_sp (ops : List (Op Rat)) (s : S) :
    ChainFrom s.sp (spEvs (run s ops).2) ∧
    (run s ops).1.sp = lastNew s.sp (spEvs (run s ops).2) := by
  have := chain_of_exact (fun s => some s.sp) spEvs (by intro a b; simp [spEvs])
    (by intro s op v hv; cases hv; exact C07_exact_sp s op) ops s s.sp rfl
  exact ⟨this.1, by simpa using this.2⟩

/-! ### non-vacuity: a concrete history that meets the hypotheses and exercises the reports -/

def exUnit : U :=
  { id := 1, hpRatio := 1, energy := 50, maxEnergy := 100, stance := 60, maxStance := 60,
    lastAttacker := 1, hpBase := 100, hpPct := 0, hpFlat := 0, hpConv := 0,
    regen := 0, regenConv := 0, stancePct := 0 }

def exOps : List (Op Rat) :=
  [.add exUnit, .modHPRatio 1 2 (-9/10) 1 50 true, .modStance 1 2 (-60), .modSP 2 7]

example : ∀ op ∈ exOps, OpValid op := by
  intro op h
  simp [exOps] at h
  rcases h with rfl | rfl | rfl | rfl <;> simp [OpValid, exUnit]

end Attr
