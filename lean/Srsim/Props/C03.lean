import Srsim.Spec.Proto
import Srsim.Proofs.SimProto
/-!
# C03 — battle lifecycle events follow the turn protocol

`Sim.run` is the model of `pkg/simulation` (see `Model/Sim.lean`); what characters, enemies and
modifiers do is an arbitrary table of programs of engine calls (`cfg.progs`), the script is an
arbitrary decision function, damage and HP outcomes are arbitrary oracles.  For every such run that
returns a result (terminated, no error) the event stream is a complete word of the protocol
monitor `Proto`: lifecycle order, at most one own action per turn by the acting unit, inserted
actions/abilities only inside the two queue windows, action/insert/attack/hit brackets balanced,
matched and never interleaved, exactly one termination, which is the last event.
-/
namespace Sim
variable {α : Type} [Num α]

/-- a fresh simulation: nothing emitted, no open attack, not stopped, no acting unit -/
structure Init (s : S α) : Prop where
  evs : s.evs = []
  inAttack : s.inAttack = none
  terminated : s.terminated = false
  err : s.err = none
  active : s.active = 0

/-- the battle-start listener opens no attack (an attack opened there would never be closed before
the `BattleStart` event: the real engine has the same hole, `engage` is a TODO) -/
def StartOK (cfg : Cfg) : Prop := ∀ p, cfg.start = some p → ∀ c ∈ cfg.progs p, c.op ≠ 'A'

theorem C03_protocol (cfg : Cfg) (fuel qfuel : Nat) (s0 : S α) (h0 : Init s0) (hs : StartOK cfg)
    (ht : (run cfg fuel qfuel s0).terminated = true) (he : (run cfg fuel qfuel s0).err = none) :
    Proto.accepts (run cfg fuel qfuel s0).evs.reverse = true :=
  accepts_of_postT _ (run_post cfg fuel qfuel s0 h0.evs h0.inAttack h0.terminated h0.active hs) ht he

/-- the monitor is not vacuous: it rejects an event after the termination, a second own action,
an inserted action outside the windows, and interleaved brackets -/
theorem C03_monitor_rejects :
    Proto.step (α := α) { stage := 13 } .phase1End = none ∧
    Proto.step (α := α) { stage := 9, active := 1 } (.actionStart 1 1 false) = none ∧
    Proto.step (α := α) { stage := 8, active := 1 } (.actionStart 2 1 false) = none ∧
    Proto.step (α := α) { stage := 10 } (.insertStart 1 0 75) = none ∧
    Proto.step (α := α) { stage := 7, stack := [.attack 1 1, .action 1 1 true] } (.actionEnd 1 1 true) = none ∧
    Proto.step (α := α) { stage := 7, stack := [.action 1 1 true] } (.actionEnd 2 1 true) = none := by
  simp [Proto.step]

end Sim
