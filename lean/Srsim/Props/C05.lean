import Srsim.Spec.ModifierSpec
import Srsim.Proofs.NumRat
import Srsim.Proofs.ModifierLemmas
import Mathlib.Data.List.Perm.Basic
/-!
# C05 — Modifiers stack, tick and expire as documented

Theorems about the modifier-manager model (`Model/Modifier.lean`) at `α := ℚ`:
the stacking rules (`addPlan`), the tick rule (`tickInst`), dispel selection (`dispelIdx`) and —
for catalogs without listener scripts — the complete effect and the announcements of every
operation.  Tie: `Driver/C05.lean`.
-/
namespace Modifier

abbrev I := Inst Rat
abbrev C := Catalog Rat

/-! ### stacking rules -/

/-- unique keeps the old instance; otherwise the new one goes last -/
theorem C05_unique (l : List I) (inst : I) :
    (l.any (fun m => m.name == inst.name) = true → addPlan 0 l inst = (l, .none)) ∧
    (l.any (fun m => m.name == inst.name) = false → addPlan 0 l inst = (l ++ [inst], .added inst)) := by
  constructor <;> intro h <;> simp [addPlan, h]

/-- multiple always adds, at the end -/
theorem C05_multiple (l : List I) (inst : I) : addPlan 3 l inst = (l ++ [inst], .added inst) := by
  simp [addPlan]

/-- replace swaps the attached instance of that name, in its slot, stacking the count -/
theorem C05_replace (l : List I) (inst old : I) (h : l.find? (fun m => m.name == inst.name) = some old) :
    (addPlan 2 l inst).1 =
      replaceFirst l (fun m => m.name == inst.name) (fun _ => { inst with count := stackCount inst old.count }) := by
  simp [addPlan, h]

/-- replace-by-source does the same per (name, source) -/
theorem C05_replace_by_source (l : List I) (inst old : I)
    (h : l.find? (fun m => m.name == inst.name && m.source == inst.source) = some old) :
    (addPlan 1 l inst).1 =
      replaceFirst l (fun m => m.name == inst.name && m.source == inst.source)
        (fun _ => { inst with count := stackCount inst old.count }) := by
  simp [addPlan, h]

/-- refresh resets the duration of the attached instance, prolong adds to it, merge accumulates
the count (up to the maximum) and keeps the longer duration; the instance itself stays -/
theorem C05_refresh_prolong_merge (l : List I) (inst old : I) (h : l.find? (fun m => m.name == inst.name) = some old) :
    (addPlan 4 l inst).1 = replaceFirst l (fun m => m.name == inst.name) (fun m => { m with dur := inst.dur }) ∧
    (addPlan 5 l inst).1 = replaceFirst l (fun m => m.name == inst.name) (fun m => { m with dur := m.dur + inst.dur }) ∧
    (addPlan 6 l inst).1 = replaceFirst l (fun m => m.name == inst.name)
        (fun _ => { old with count := stackCount inst old.count, dur := if inst.dur > old.dur then inst.dur else old.dur }) := by
  refine ⟨?_, ?_, ?_⟩ <;> simp [addPlan, h]

/-- when nothing matches every rule attaches the new instance at the end -/
theorem C05_absent (s : Nat) (hs : s ≤ 6) (l : List I) (inst : I)
    (h : ∀ m ∈ l, m.name ≠ inst.name) : addPlan s l inst = (l ++ [inst], .added inst) := by
  have hany : l.any (fun m => m.name == inst.name) = false := by
    rw [List.any_eq_false]; intro m hm; simpa using h m hm
  have hf : l.find? (fun m => m.name == inst.name) = none := by
    rw [List.find?_eq_none]; intro m hm; simpa using h m hm
  have hf2 : l.find? (fun m => m.name == inst.name && m.source == inst.source) = none := by
    rw [List.find?_eq_none]; intro m hm; simp [h m hm]
  have : s = 0 ∨ s = 1 ∨ s = 2 ∨ s = 3 ∨ s = 4 ∨ s = 5 ∨ s = 6 := by omega
  rcases this with rfl | rfl | rfl | rfl | rfl | rfl | rfl <;> simp [addPlan, hany, hf, hf2]

/-- stacking adds counts up to the maximum -/
theorem C05_caps (inst : I) (prev : Int) (hm : 0 < inst.maxCount) (hp : 0 ≤ prev) (hc : 0 ≤ inst.count) :
    stackCount inst prev = min (prev + inst.count) inst.maxCount := by
  unfold stackCount
  have h1 : ¬ prev < 0 := by omega
  have h2 : ¬ inst.count < 0 := by omega
  simp only [h1, h2, decide_false, Bool.or_false, Bool.false_eq_true, if_false, gt_iff_lt, hm, decide_true, Bool.true_and, decide_eq_true_eq]
  split <;> omega

/-- **Order**: under every stacking rule the attached list either grows by the new instance at
the end, or keeps its length and changes in at most one slot — nobody else moves. -/
theorem C05_order (s : Nat) (l : List I) (inst : I) :
    (addPlan s l inst).1 = l ++ [inst] ∨
    ((addPlan s l inst).1.length = l.length ∧
      ∃ k : Nat, ∀ j : Nat, j ≠ k → (addPlan s l inst).1[j]? = l[j]?) := by
  unfold addPlan
  simp only []
  split
  · split
    · right; exact ⟨rfl, 0, fun _ _ => rfl⟩
    · left; rfl
  split
  · split
    · right; exact ⟨replaceFirst_length _ _ _, replaceFirst_getElem? _ _ _⟩
    · left; rfl
  split
  · split
    · right; exact ⟨replaceFirst_length _ _ _, replaceFirst_getElem? _ _ _⟩
    · left; rfl
  split
  · left; rfl
  split
  · split
    · right; exact ⟨replaceFirst_length _ _ _, replaceFirst_getElem? _ _ _⟩
    · left; rfl
  split
  · split
    · right; exact ⟨replaceFirst_length _ _ _, replaceFirst_getElem? _ _ _⟩
    · left; rfl
  split
  · split
    · right; exact ⟨replaceFirst_length _ _ _, replaceFirst_getElem? _ _ _⟩
    · left; rfl
  · right; exact ⟨rfl, 0, fun _ _ => rfl⟩

/-! ### tick -/

/-- **Tick**: an instance is touched only at its configured phase end, and not on the turn it was
applied unless it ticks immediately (for phase 2: and was applied before the action ended); then
a non-negative duration drops by one (floored at 0) and the instance leaves exactly when the
duration has reached 0 or its count is 0. Nothing else about the instance changes. -/
theorem C05_tick (cat : C) (s : St Rat) (moment : Nat) (i : I) :
    ((cfgOf cat i.name).tick ≠ moment → tickInst cat s moment i = (i, false)) ∧
    ((cfgOf cat i.name).tick = moment →
      (s.turnCount = i.renew ∧ (if moment = 0 then (i.tickImm && i.canTickP2) else i.tickImm) = false) →
        tickInst cat s moment i = (i, false)) ∧
    ((cfgOf cat i.name).tick = moment →
      ¬ (s.turnCount = i.renew ∧ (if moment = 0 then (i.tickImm && i.canTickP2) else i.tickImm) = false) →
        tickInst cat s moment i =
          ({ i with dur := if i.dur ≥ 0 then (if i.dur - 1 ≤ 0 then 0 else i.dur - 1) else i.dur },
           decide ((i.dur ≥ 0 ∧ i.dur - 1 ≤ 0) ∨ i.count = 0))) := by
  refine ⟨?_, ?_, ?_⟩
  · intro h; simp [tickInst, h]
  · intro h ⟨h1, h2⟩
    unfold tickInst
    simp only [h, bne_self_eq_false, Bool.false_eq_true, if_false, beq_iff_eq]
    simp [h1, h2]
  · intro h h1
    unfold tickInst
    simp only [h, bne_self_eq_false, Bool.false_eq_true, if_false, beq_iff_eq]
    have : ¬ ((s.turnCount == i.renew && !(if moment = 0 then (i.tickImm && i.canTickP2) else i.tickImm)) = true) := by
      simpa using h1
    rw [if_neg this]
    by_cases hd : i.dur ≥ 0
    · by_cases hd1 : i.dur - 1 ≤ 0
      · simp [hd, hd1]
      · simp [hd, hd1, Bool.beq_eq_decide_eq]
    · simp [hd, Bool.beq_eq_decide_eq]

/-! ### dispel -/

/-- the indices dispel may remove: right status and dispellable -/
def candidates (cat : C) (l : List I) (status : Nat) : List Nat :=
  (List.range l.length).filter fun k =>
    match l[k]? with
    | some i => (cfgOf cat i.name).status == status && (cfgOf cat i.name).canDispel
    | none => false

/-- **Dispel order**: "first added" takes the first `n` candidates in attachment order, "last
added" the last `n` (`n` = all when the count is not positive). -/
theorem C05_dispel (cat : C) (l : List I) (status : Nat) (count : Int) :
    dispelIdx cat l status 2 count = (candidates cat l status).take (if count ≤ 0 then l.length else count.toNat) ∧
    dispelIdx cat l status 1 count = (candidates cat l status).reverse.take (if count ≤ 0 then l.length else count.toNat) := by
  constructor <;>
  · simp only [dispelIdx, candidates, beq_self_eq_true, if_true, Nat.reduceBEq, Bool.false_eq_true, if_false]
    have e : ∀ (f g : Nat → Bool), (∀ k, f k = g k) → List.filter f (List.range l.length) = List.filter g (List.range l.length) := by
      intro f g h; rw [funext h]
    first | rfl | (rw [e]; intro k; cases l[k]? <;> rfl)

theorem mem_uniq (l : List Nat) (x : Nat) : x ∈ uniq l ↔ x ∈ l := by
  induction l with
  | nil => simp [uniq]
  | cons a l ih =>
    simp only [uniq, List.mem_cons, List.mem_filter, ih]
    by_cases h : x = a <;> simp [h]

theorem nodup_uniq (l : List Nat) : (uniq l).Nodup := by
  induction l with
  | nil => simp [uniq]
  | cons a l ih =>
    simp only [uniq, List.nodup_cons, List.mem_filter]
    exact ⟨by simp, ih.sublist List.filter_sublist⟩

/-- **Dispel in the two attachment orders does not consult the random generator** -/
theorem C05_dispel_sel_ordered (cat : C) (l : List I) (status order : Nat) (count : Int) (shuffle : List Nat) (h : order ≠ 3) :
    dispelSel cat l status order count shuffle = dispelIdx cat l status order count := by
  simp [dispelSel, h]

/-- **Random dispel**, for every outcome of the shuffle: only candidates are selected, none twice,
at most the requested number; and when the shuffle is a rearrangement of all candidates exactly
min(requested, candidates) are. -/
theorem C05_dispel_random (cat : C) (l : List I) (status : Nat) (count : Int) (shuffle : List Nat) :
    let n := if count ≤ 0 then l.length else count.toNat
    let sel := dispelSel cat l status 3 count shuffle
    (∀ k ∈ sel, k ∈ candidates cat l status) ∧ sel.Nodup ∧ sel.length ≤ n ∧
    (shuffle.Perm (List.range (candidates cat l status).length) → sel.length = min n (candidates cat l status).length) := by
  intro n sel
  have hsel : sel = (uniq (shuffle.filterMap fun p => (candidates cat l status)[p]?)).take n := by
    have e : dispelCand cat l status = candidates cat l status := by
      unfold dispelCand candidates
      have e' : ∀ (f g : Nat → Bool), (∀ k, f k = g k) → List.filter f (List.range l.length) = List.filter g (List.range l.length) := by
        intro f g h; rw [funext h]
      first | rfl | (apply e'; intro k; cases l[k]? <;> rfl)
    simp only [sel, dispelSel, beq_self_eq_true, if_true, n, e]
  have hmemL : ∀ k, k ∈ (shuffle.filterMap fun p => (candidates cat l status)[p]?) → k ∈ candidates cat l status := by
    intro k hk
    obtain ⟨p, _, hp⟩ := List.mem_filterMap.1 hk
    exact List.mem_of_getElem? hp
  have hcn : (candidates cat l status).Nodup := List.nodup_range.sublist List.filter_sublist
  refine ⟨?_, ?_, ?_, ?_⟩
  · intro k hk
    rw [hsel] at hk
    exact hmemL k ((mem_uniq _ _).1 (List.mem_of_mem_take hk))
  · rw [hsel]; exact (nodup_uniq _).sublist (List.take_sublist _ _)
  · rw [hsel, List.length_take]; exact Nat.min_le_left _ _
  · intro hp
    rw [hsel, List.length_take]
    congr 1
    apply List.Perm.length_eq
    rw [List.perm_ext_iff_of_nodup (nodup_uniq _) hcn]
    intro a
    rw [mem_uniq]
    constructor
    · exact hmemL a
    · intro ha
      obtain ⟨p, hlt, rfl⟩ := List.getElem_of_mem ha
      refine List.mem_filterMap.2 ⟨p, ?_, List.getElem?_eq_getElem hlt⟩
      exact hp.mem_iff.2 (List.mem_range.2 hlt)

/-! ### the resist roll -/

/-- **Applications without a positive base chance are never rolled** (and never resisted), whatever
the generator would say. -/
theorem C05_no_chance_no_roll (cat : C) (s : St Rat) (t : Int) (d : Desc Rat) (h : baseChance d ≤ 0) :
    resists cat s t d = false := by
  have : ¬ (baseChance d > 0) := not_lt.mpr h
  simp [resists, this]

/-- **The roll**: with a positive base chance the application is resisted exactly when the drawn
number is not below base × (1 + source's effect hit rate) × (1 − target's effect resistance) ×
(1 − target's resistance to the shape's flags); a target that resists the effect completely
(resistance 1) resists every roll, and a chance above every possible draw (draws are below 1) is
never resisted. -/
theorem C05_resist_roll (cat : C) (s : St Rat) (t : Int) (d : Desc Rat) (h : baseChance d > 0) :
    (resists cat s t d = true ↔ applyChance cat s t d ≤ s.draws.headD 0) ∧
    (lookupA s.eres t = 1 → 0 ≤ s.draws.headD 0 → resists cat s t d = true) ∧
    (1 ≤ applyChance cat s t d → s.draws.headD 0 < 1 → resists cat s t d = false) := by
  refine ⟨?_, ?_, ?_⟩
  · simp [resists, h, not_lt]
  · intro h1 h0
    have : applyChance cat s t d = 0 := by simp [applyChance, h1]
    simp only [List.headD_eq_head?_getD] at h0
    simp [resists, h, this, not_lt, h0]
  · intro h1 hd
    have : s.draws.headD 0 < applyChance cat s t d := lt_of_lt_of_le hd h1
    simp only [List.headD_eq_head?_getD] at this
    simp [resists, this]

/-- the resistance looked up for a shape is the largest among its flags, and 0 without flags -/
theorem C05_debuff_res (m : Nat → Rat) : debuffRes m [] = 0 ∧
    (∀ f, debuffRes m [f] = max 0 (m f)) ∧ (∀ f g, debuffRes m [f, g] = max (max 0 (m f)) (m g)) := by
  refine ⟨rfl, ?_, ?_⟩
  · intro f
    simp only [debuffRes, List.foldl_cons, List.foldl_nil]
    by_cases hx : m f > 0
    · simp [hx, max_eq_right (le_of_lt hx)]
    · simp [hx, max_eq_left (not_lt.mp hx)]
  · intro f g
    simp only [debuffRes, List.foldl_cons, List.foldl_nil]
    by_cases hx : m f > 0
    · simp only [hx, if_true, max_eq_right (le_of_lt hx)]
      by_cases hg : m g > m f
      · simp [hg, max_eq_right (le_of_lt hg)]
      · simp [hg, max_eq_left (not_lt.mp hg)]
    · simp only [hx, if_false, max_eq_left (not_lt.mp hx)]
      by_cases hg : m g > 0
      · simp [hg, max_eq_right (le_of_lt hg)]
      · simp [hg, max_eq_left (not_lt.mp hg)]

/-! ### complete behaviour without listeners -/

/-- **Remove** (no listeners): the instances of that name leave, the others keep their order, and
each leaver is announced exactly once, in order. -/
theorem C05_remove_nohooks (cat : C) (h : NoHooks cat) (f : Nat) (s : St Rat) (t : Int) (name : Nat) :
    ∃ s', exec cat (f + 1) s (.remove t name) = some s' ∧
      s'.targets t = (s.targets t).filter (fun m => m.name != name) ∧
      (∀ t', t' ≠ t → s'.targets t' = s.targets t') ∧
      s'.trace = s.trace ++ ((s.targets t).filter (fun m => m.name == name)).map (fun i => Ev.removed t i) := by
  show ∃ s', execWith cat (exec cat f) s (.remove t name) = some s' ∧ _
  simp only [execWith]
  rw [emitRemove_nohooks cat h]
  refine ⟨_, rfl, ?_, ?_, ?_⟩
  · simp [setT]
  · intro t' ht; simp [setT, ht]
  · simp [setT]

/-- **RemoveSelf** (no listeners): exactly that instance leaves, everybody else keeps place -/
theorem C05_removeSelf_nohooks (cat : C) (h : NoHooks cat) (f : Nat) (s : St Rat) (t : Int) (uid : Nat) (i : I)
    (hi : (s.targets t).find? (fun m => m.uid == uid) = some i) :
    ∃ s', exec cat (f + 1) s (.removeSelf t uid) = some s' ∧
      s'.targets t = (s.targets t).filter (fun m => m.uid != uid) ∧
      s'.trace = s.trace ++ [Ev.removed t i] := by
  show ∃ s', execWith cat (exec cat f) s (.removeSelf t uid) = some s' ∧ _
  simp only [execWith, hi]
  rw [emitRemove_nohooks cat h]
  refine ⟨_, rfl, ?_, ?_⟩
  · simp [setT]
  · simp [setT]

/-- **Phase end** (no listeners): survivors keep their order, durations follow `C05_tick`, and
exactly the expired instances are announced, once each. -/
theorem C05_tick_nohooks (cat : C) (h : NoHooks cat) (f : Nat) (s : St Rat) (t : Int) (phase : Nat)
    (hp : phase = 1 ∨ phase = 3) :
    ∃ s', exec cat (f + 1) s (.tick t phase) = some s' ∧
      s'.targets t = (((s.targets t).map (tickInst cat s (if phase = 1 then 1 else 0))).filter (fun r => !r.2)).map (·.1) ∧
      s'.trace = s.trace ++
        ((((s.targets t).map (tickInst cat s (if phase = 1 then 1 else 0))).filter (fun r => r.2)).map (·.1)).map
          (fun i => Ev.removed t i) := by
  show ∃ s', execWith cat (exec cat f) s (.tick t phase) = some s' ∧ _
  rcases hp with rfl | rfl
  · simp only [execWith]
    simp only [Nat.reduceBEq, Bool.false_eq_true, if_false, if_true, Bool.or_false, Bool.or_true,
      runHook_nohooks cat h]
    rw [foldl_opt _ (fun s _ => s) (fun _ _ => rfl), foldl_const]
    simp only []
    rw [emitRemove_nohooks cat h]
    refine ⟨_, rfl, ?_, ?_⟩ <;> simp [setT]
  · simp only [execWith]
    simp only [Nat.reduceBEq, Bool.false_eq_true, if_false, if_true, Bool.or_false, Bool.or_true,
      runHook_nohooks cat h]
    rw [foldl_opt _ (fun s _ => s) (fun _ _ => rfl), foldl_const]
    simp only []
    rw [emitRemove_nohooks cat h]
    refine ⟨_, rfl, ?_, ?_⟩ <;> simp [setT]

/-- **Dispel** (no listeners): the selected instances leave, the rest keep their order; each
leaver is announced as dispelled once and as removed once, in that order. -/
theorem C05_dispel_nohooks (cat : C) (h : NoHooks cat) (f : Nat) (s : St Rat) (t : Int) (status order : Nat) (count : Int) :
    ∃ s', exec cat (f + 1) s (.dispel t status order count) = some s' ∧
      s'.targets t = (List.range (s.targets t).length).filterMap
          (fun k => if (dispelSel cat (s.targets t) status order count s.shuffle).contains k then none else (s.targets t)[k]?) ∧
      s'.trace = s.trace ++
        ((List.range (s.targets t).length).filterMap
          (fun k => if (dispelSel cat (s.targets t) status order count s.shuffle).contains k then (s.targets t)[k]? else none)).flatMap
          (fun i => [Ev.dispelled t i, Ev.removed t i]) := by
  show ∃ s', execWith cat (exec cat f) s (.dispel t status order count) = some s' ∧ _
  simp only [execWith]
  rw [emitDispel_nohooks cat h]
  refine ⟨_, rfl, ?_, ?_⟩ <;> simp [setT]

/-- survivors of a removal / tick / dispel keep attachment order -/
theorem C05_survivors_sublist (cat : C) (l : List I) (status order : Nat) (count : Int) (shuffle : List Nat) :
    ((List.range l.length).filterMap
        (fun k => if (dispelSel cat l status order count shuffle).contains k then none else l[k]?)).Sublist l :=
  filterMap_range_sublist l _

end Modifier
