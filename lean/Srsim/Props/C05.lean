import Srsim.Spec.ModifierSpec
/-! placeholder, replaced by the full theorem file once its proofs are in -/
namespace Modifier
theorem C05_multiple (l : List (Inst Rat)) (inst : Inst Rat) : addPlan 3 l inst = (l ++ [inst], .added inst) := rfl
end Modifier
