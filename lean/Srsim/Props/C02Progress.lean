import Srsim.Spec.TurnSpec
import Srsim.Proofs.NumRat
import Srsim.Props.C02
import Srsim.Proofs.TurnProgress
/-!
# The battle clock makes progress (used by C02 and by the termination argument of C20)

In a battle whose content does not touch gauges or the gauge cost, every turn is `StartTurn`
followed by `ResetTurn`.  For every unit, the clock plus the unit's remaining action value is at
least (turns the unit has completed) × (10000 / its speed): a unit cannot complete a turn more often
than once per `10000 / speed` of action value.  Summed over the units this bounds the number of
turns by the clock, hence by the cycle limit at which every turn end is checked.
-/
namespace Turn


/-- a history of whole turns: `start` then `reset`, nothing else -/
inductive Round | start | reset
deriving DecidableEq

def Round.op : Round → Op Rat
  | .start => .start
  | .reset => .reset

/-- run rounds, counting for every unit the turns it has completed (a `reset` while a turn is open) -/
def runRounds : S → (Int → Nat) → List Round → S × (Int → Nat)
  | s, c, [] => (s, c)
  | s, c, r :: rs =>
    let c' := if r = .reset ∧ s.activeTurn = true then (fun i => if i = s.active then c i + 1 else c i) else c
    runRounds (step s r.op).1 c' rs

/-- the progress invariant -/
def Progress (s : S) (c : Int → Nat) : Prop :=
  ∀ t ∈ s.order, (c t.1 : Rat) * (10000 / s.spd t.1) ≤ s.totalAV + (t.2 : Rat) / s.spd t.1

/-- the strengthened invariant (`Inv`, positive speeds, gauge cost 1, `Progress`, and the acting unit
at gauge 0 while a turn is open) is kept by every history of rounds -/
theorem progInv_runRounds (s : S) (c : Int → Nat) (rs : List Round) (hj : ProgInv s c) :
    ProgInv (runRounds s c rs).1 (runRounds s c rs).2 := by
  induction rs generalizing s c with
  | nil => exact hj
  | cons r rs ih =>
    cases r with
    | start =>
      have hc : runRounds s c (Round.start :: rs) = runRounds (step s .start).1 c rs := by
        simp [runRounds, Round.op]
      rw [hc]
      exact ih _ _ (progInv_start s c hj)
    | reset =>
      have hc : runRounds s c (Round.reset :: rs) = runRounds (step s .reset).1 (bump s c) rs := by
        simp [runRounds, Round.op, bump]
      rw [hc]
      exact ih _ _ (progInv_reset s c hj)

/-- **Progress**: from a state between turns with gauge cost 1 in which every gauge is at most the
base gauge, after any history of rounds the invariant holds for the completed-turn counts. -/
theorem C02_progress (s : S) (rs : List Round) (hs : SpeedsPos s) (h : Inv s)
    (hcost : s.cost = 1) (hna : s.activeTurn = false)
    (c : Int → Nat) (hp : Progress s c) :
    Progress (runRounds s c rs).1 (runRounds s c rs).2 := by
  have hj : ProgInv s c := ⟨h, hs, hcost, hp, fun ha => by rw [hna] at ha; cases ha⟩
  exact (progInv_runRounds s c rs hj).2.2.2.1

/-- a fresh battle: everybody at the base gauge, clock zero, no turn completed -/
theorem C02_progress_init (s : S) (hs : SpeedsPos s) (h0 : s.totalAV = 0)
    (hg : ∀ t ∈ s.order, t.2 = baseGauge) : Progress s (fun _ => 0) := by
  intro t ht
  rw [h0, hg t ht]
  have hsp := spd_pos s hs t.1
  have hb : (0 : Rat) ≤ ((baseGauge : Int) : Rat) := by
    unfold baseGauge; norm_num
  simp only [Nat.cast_zero, zero_mul, zero_add]
  exact div_nonneg hb (le_of_lt hsp)

/-- **Bound on the turns of one unit**: a unit that has completed `k` turns did so over at least
`(k - 1) · 10000 / speed` of action value (its remaining action value never exceeds one full
gauge when nothing but whole turns happen). Stated directly from `Progress` and a gauge bound. -/
theorem C02_turns_bounded_by_clock (s : S) (c : Int → Nat) (hs : SpeedsPos s) (hp : Progress s c)
    (t : Int × Int) (ht : t ∈ s.order) (hg : t.2 ≤ baseGauge) :
    ((c t.1 : Rat) - 1) * (10000 / s.spd t.1) ≤ s.totalAV :=
  bounded_arith s.totalAV (s.spd t.1) (c t.1) t.2 (spd_pos s hs t.1) hg (hp t ht)

end Turn
