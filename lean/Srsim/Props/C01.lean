import Mathlib.Data.List.Sort
/-!
# C01 — seeded runs are reproducible

The run-to-run freedom the Go runtime has inside one seeded run is the iteration order of `range`
over a map.  The extractor (`/verif/extract`) lists every such site of the current source; each is
reviewed into one of the classes below, and these theorems are why the first two classes are
harmless for *every* iteration order, while the third is not:

* `keyed`  — the loop body updates a keyed store at the iterated key only (copying a map, adding a
  map into another, registering names): `C01_keyed_updates_commute`.
* `sorted` — the keys are collected and sorted before anything order-dependent is done with them:
  `C01_sorted_order_canonical`, `C01_sorted_fold_canonical`.
* anything else that builds a sequence or calls out in iteration order depends on the order:
  `C01_sequence_fold_order_sensitive` (the witness that such a site must be reported).
-/
namespace C01

variable {K V α β : Type}

/-- update of a keyed store at one key, combining with the old value -/
def upd [DecidableEq K] (g : V → V → V) (m : K → V) (kv : K × V) : K → V :=
  fun k => if k = kv.1 then g (m k) kv.2 else m k

/-- **Keyed updates at distinct keys commute**: whatever order the entries of a map are visited
in, folding the updates gives the same store (no arithmetic is reassociated: every key is touched
once, so this holds bit for bit at `float64` too). -/
theorem C01_keyed_updates_commute [DecidableEq K] (g : V → V → V) (l₁ l₂ : List (K × V)) (hp : l₁.Perm l₂)
    (hn : (l₁.map Prod.fst).Nodup) (m : K → V) : l₁.foldl (upd g) m = l₂.foldl (upd g) m := by
  apply List.Perm.foldl_eq' hp
  intro x hx y hy z
  by_cases hxy : x = y
  · subst hxy; rfl
  · have hk : x.1 ≠ y.1 := by
      intro h
      apply hxy
      exact List.inj_on_of_nodup_map hn hx hy h
    funext k
    unfold upd
    by_cases h1 : k = x.1 <;> by_cases h2 : k = y.1 <;> simp [h1, h2]
    · exact absurd (h1 ▸ h2) hk
    · subst h1; simp [hk]
    · subst h2; simp [Ne.symm hk]

/-- **Sorting makes the order canonical**: two visiting orders of the same entries sort to the
same list (total, transitive, antisymmetric comparison: e.g. by a key that is unique per entry). -/
theorem C01_sorted_order_canonical (le : α → α → Bool)
    (trans : ∀ a b c, le a b = true → le b c = true → le a c = true)
    (total : ∀ a b, (le a b || le b a) = true)
    (antisymm : ∀ a b, le a b = true → le b a = true → a = b)
    (l₁ l₂ : List α) (hp : l₁.Perm l₂) : l₁.mergeSort le = l₂.mergeSort le := by
  have p : (l₁.mergeSort le).Perm (l₂.mergeSort le) :=
    (List.mergeSort_perm l₁ le).trans (hp.trans (List.mergeSort_perm l₂ le).symm)
  have s₁ := List.pairwise_mergeSort trans total l₁
  have s₂ := List.pairwise_mergeSort trans total l₂
  haveI : Std.Antisymm (fun a b => le a b = true) := ⟨antisymm⟩
  exact List.Perm.eq_of_pairwise (fun a b _ _ h1 h2 => antisymm a b h1 h2) s₁ s₂ p

/-- whatever is then done with the sorted entries — in order — is independent of the visiting order -/
theorem C01_sorted_fold_canonical (le : α → α → Bool)
    (trans : ∀ a b c, le a b = true → le b c = true → le a c = true)
    (total : ∀ a b, (le a b || le b a) = true)
    (antisymm : ∀ a b, le a b = true → le b a = true → a = b)
    (f : β → α → β) (init : β) (l₁ l₂ : List α) (hp : l₁.Perm l₂) :
    (l₁.mergeSort le).foldl f init = (l₂.mergeSort le).foldl f init := by
  rw [C01_sorted_order_canonical le trans total antisymm l₁ l₂ hp]

/-- **A loop that builds a sequence (or subscribes listeners, or emits events) in visiting order
depends on that order**: two orders of the same two entries give different sequences. -/
theorem C01_sequence_fold_order_sensitive :
    [1, 2].Perm [2, 1] ∧ List.foldl (fun acc (x : Nat) => acc ++ [x]) [] [1, 2] ≠ List.foldl (fun acc (x : Nat) => acc ++ [x]) [] [2, 1] := by
  refine ⟨List.Perm.swap 2 1 [], by decide⟩

end C01
