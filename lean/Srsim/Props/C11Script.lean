import Srsim.Model.Gcs.Eval
import Srsim.Proofs.NumRat
/-!
# C11 at the script's side — the decision interface of the gcs evaluator (`eval/action.go`)

What the engine is told when it asks the script: the action type and the target rule the unit's
callback answered (never the default's when the callback named its own), the registered default
action exactly when the callback answers `null`, an error otherwise; ultimates in registration order.
Tie: the `eval` component (`Driver/C12.lean`), whose decision calls go through these functions.
-/
namespace Gcs.Eval
open Gcs.Parse Gcs.Lex

variable (mkF : Nat → Nat → Rat)

/-- **The callback's own answer is performed.**  When the unit's callback returns an attack or a skill,
`NextAction` is that action: its type and its target rule, for that unit — whatever default action is
registered. -/
theorem C11_callback_answer_is_the_action (fuel : Nat) (s s1 : St Rat) (t : Int) (cb : CB Rat) (typ : String) (ev tgt : Int)
    (hcb : s.skillCB.find? (·.target == t) = some cb)
    (hrun : evalBlock mkF fuel s cb.env cb.body = .ok (.ret (.act typ ev tgt)) s1)
    (htyp : typ = "attack" ∨ typ = "skill") :
    nextAction mkF fuel s t = (some (.act typ ev cb.target), s1) := by
  simp [nextAction, hcb, runCB, hrun, htyp]

/-- the unit the action is for is the unit asked about -/
theorem C11_callback_target (s : St Rat) (t : Int) (cb : CB Rat) (hcb : s.skillCB.find? (·.target == t) = some cb) :
    cb.target = t := by
  have := List.find?_some hcb
  simpa using this

/-- **`null` means the default action** — the one registered for that unit, read after the callback ran;
without a registered default the decision is an error. -/
theorem C11_null_answer_is_the_default (fuel : Nat) (s s1 : St Rat) (t : Int) (cb : CB Rat)
    (hcb : s.skillCB.find? (·.target == t) = some cb)
    (hrun : evalBlock mkF fuel s cb.env cb.body = .ok (.ret .null) s1) :
    nextAction mkF fuel s t = (defaultAction s1 t, s1) := by
  simp [nextAction, hcb, runCB, hrun]

/-- **Anything else is an error**: no callback registered for the unit, a failing callback, an action of
another kind (an ultimate from the skill callback), a number, a callback that returns nothing. -/
theorem C11_no_callback_is_an_error (fuel : Nat) (s : St Rat) (t : Int)
    (hcb : s.skillCB.find? (·.target == t) = none) : nextAction mkF fuel s t = (none, s) := by
  simp [nextAction, hcb]

theorem C11_failing_callback_is_an_error (fuel : Nat) (s se : St Rat) (t : Int) (cb : CB Rat) (m : String)
    (hcb : s.skillCB.find? (·.target == t) = some cb)
    (hrun : evalBlock mkF fuel s cb.env cb.body = .err m se) :
    nextAction mkF fuel s t = (none, se) := by
  simp [nextAction, hcb, runCB, hrun]

theorem C11_wrong_kind_is_an_error (fuel : Nat) (s s1 : St Rat) (t : Int) (cb : CB Rat) (typ : String) (ev tgt : Int)
    (hcb : s.skillCB.find? (·.target == t) = some cb)
    (hrun : evalBlock mkF fuel s cb.env cb.body = .ok (.ret (.act typ ev tgt)) s1)
    (htyp : typ ≠ "attack" ∧ typ ≠ "skill") :
    nextAction mkF fuel s t = (none, s1) := by
  simp [nextAction, hcb, runCB, hrun, htyp.1, htyp.2]

/-- **Ultimates**: with no callback registered nothing is asked for; a callback that answers `null` asks
for nothing and the check goes on; an answered ultimate is appended after those of the callbacks
registered before it; a failing callback fails the whole check. -/
theorem C11_ult_none (fuel : Nat) (s : St Rat) (acc : List (Val Rat)) : ultCheck mkF fuel s [] acc = (some acc, s) := rfl

theorem C11_ult_null_skips (fuel : Nat) (s s1 : St Rat) (cb : CB Rat) (rest : List (CB Rat)) (acc : List (Val Rat))
    (hrun : evalBlock mkF fuel s cb.env cb.body = .ok (.ret .null) s1) :
    ultCheck mkF fuel s (cb :: rest) acc = ultCheck mkF fuel s1 rest acc := by
  simp [ultCheck, runCB, hrun]

theorem C11_ult_answer_in_order (fuel : Nat) (s s1 : St Rat) (cb : CB Rat) (rest : List (CB Rat)) (acc : List (Val Rat))
    (typ : String) (ev tgt : Int)
    (hrun : evalBlock mkF fuel s cb.env cb.body = .ok (.ret (.act typ ev tgt)) s1)
    (htyp : typ = "ult" ∨ typ = "ult_attack" ∨ typ = "ult_skill") :
    ultCheck mkF fuel s (cb :: rest) acc = ultCheck mkF fuel s1 rest (acc ++ [.act typ ev cb.target]) := by
  simp [ultCheck, runCB, hrun, htyp]

theorem C11_ult_failure_fails_the_check (fuel : Nat) (s se : St Rat) (cb : CB Rat) (rest : List (CB Rat)) (acc : List (Val Rat)) (m : String)
    (hrun : evalBlock mkF fuel s cb.env cb.body = .err m se) :
    ultCheck mkF fuel s (cb :: rest) acc = (none, se) := by
  simp [ultCheck, runCB, hrun]

end Gcs.Eval
