import Srsim.Proofs.Shield
import Srsim.Spec.ShieldSpec
import Mathlib.Data.List.Perm.Basic
import Mathlib.Data.List.Nodup
import Mathlib.Tactic.Ring
import Mathlib.Algebra.BigOperators.Group.List.Basic
/-!
# C16 — Shields have the documented strength and absorb in parallel

Theorems about `Shield.step` (model of `pkg/engine/shield`) at `α := ℚ`; tie: `Driver/C16.lean`.
-/
namespace Shield

theorem foldl_add_eq (l : List Rat) (a : Rat) : l.foldl (· + ·) a = a + l.foldr (· + ·) 0 := by
  induction l generalizing a with
  | nil => simp
  | cons x l ih => simp only [List.foldl_cons, List.foldr_cons]; rw [ih]; ring

/-- **Strength**: the model's left-to-right accumulation is the documented formula. -/
theorem C16_strength (st : AddStats Rat) (m : Rat) (terms : List (Nat × Rat)) (flat : Rat) :
    strength st m terms flat = strengthSpec st m terms flat := by
  unfold strength strengthSpec baseHP
  congr 2
  have : ∀ (l : List (Nat × Rat)) (a : Rat),
      l.foldl (fun acc kc => acc + termVal st m kc.1 kc.2) a =
        a + (l.map fun kc => termVal st m kc.1 kc.2).foldr (· + ·) 0 := by
    intro l
    induction l with
    | nil => intro a; simp
    | cons x l ih => intro a; simp only [List.foldl_cons, List.map_cons, List.foldr_cons]; rw [ih]; ring
  rw [this]; simp

/-- the strength does not depend on the order in which the formula map is traversed -/
theorem C16_strength_perm (st : AddStats Rat) (m : Rat) (t₁ t₂ : List (Nat × Rat)) (flat : Rat)
    (h : t₁.Perm t₂) : strength st m t₁ flat = strength st m t₂ flat := by
  rw [C16_strength, C16_strength]
  unfold strengthSpec
  congr 3
  have : ∀ l : List Rat, l.foldr (· + ·) 0 = l.sum := by
    intro l; induction l with
    | nil => rfl
    | cons x l ih => simp [List.foldr_cons, ih]
  rw [this, this]
  exact (h.map _).sum_eq

/-- **Add**: the target's list becomes `upsert` of the new instance; no other unit changes;
one `added` event. -/
theorem C16_add (s : S) (k src tgt : Int) (terms : List (Nat × Rat)) (flat : Rat) (st : AddStats Rat) (t' : Int) :
    shieldsOf (step s (.add k src tgt terms flat st)).1 t' =
      if t' = tgt then upsert (shieldsOf s tgt) ⟨k, strengthSpec st (maxShield (shieldsOf s src)) terms flat⟩
      else shieldsOf s t' := by
  simp only [step, shieldsOf_setShields, C16_strength]

/-- `upsert` replaces in place when the key exists (same keys, same order) … -/
theorem upsert_keys_of_mem (l : List I) (i : I) (h : i.key ∈ l.map (·.key)) :
    (upsert l i).map (·.key) = l.map (·.key) := by
  unfold upsert
  have : l.any (fun j => j.key == i.key) = true := by
    simp only [List.any_eq_true, beq_iff_eq]
    obtain ⟨j, hj, e⟩ := List.mem_map.mp h
    exact ⟨j, hj, e⟩
  simp only [this, if_true, List.map_map]
  apply List.map_congr_left
  intro j _
  simp only [Function.comp]
  split_ifs with e
  · have e' : j.key = i.key := by simpa using e
    exact e'.symm
  · rfl

/-- … and appends otherwise. -/
theorem upsert_of_not_mem (l : List I) (i : I) (h : i.key ∉ l.map (·.key)) :
    upsert l i = l ++ [i] := by
  unfold upsert
  have : l.any (fun j => j.key == i.key) = false := by
    rw [Bool.eq_false_iff]
    intro hc
    simp only [List.any_eq_true, beq_iff_eq] at hc
    obtain ⟨j, hj, e⟩ := hc
    exact h (List.mem_map.mpr ⟨j, hj, e⟩)
  simp [this]

theorem find?_map_replace (l : List I) (i : I) (k : Int) :
    (l.map fun v => if v.key == i.key then i else v).find? (fun x => x.key == k) =
      if k = i.key then (if (l.find? (fun x => x.key == k)).isSome then some i else none)
      else l.find? (fun x => x.key == k) := by
  induction l with
  | nil => simp
  | cons v vs ih =>
    rw [List.map_cons, List.find?_cons, List.find?_cons, ih]
    by_cases hi : k = i.key
    · subst hi
      by_cases hv : v.key = i.key
      · have hb : (v.key == i.key) = true := by simpa using hv
        simp [hb]
      · have hb : (v.key == i.key) = false := by simpa using hv
        simp [hb]
    · have h1 : (i.key == k) = false := by simpa using fun (h : i.key = k) => hi h.symm
      by_cases hv : v.key = i.key
      · have hb : (v.key == i.key) = true := by simpa using hv
        have h2 : (v.key == k) = false := by simpa using fun (h : v.key = k) => hi (h.symm.trans hv)
        simp [hb, hi, h1, h2]
      · have hb : (v.key == i.key) = false := by simpa using hv
        by_cases hvi : v.key = k
        · have h3 : (v.key == k) = true := by simpa using hvi
          simp [hb, hi, h3]
        · have h3 : (v.key == k) = false := by simpa using hvi
          simp [hb, hi, h3]

/-- the new instance is the one found under its key; instances under other keys are untouched -/
theorem upsert_find (l : List I) (i : I) (k : Int) :
    (upsert l i).find? (·.key == k) = if k = i.key then some i else l.find? (·.key == k) := by
  unfold upsert
  by_cases hany : l.any (fun j => j.key == i.key) = true
  · simp only [hany, if_true]
    rw [find?_map_replace]
    by_cases hk : k = i.key
    · subst hk
      have : (l.find? (fun x => x.key == i.key)).isSome = true := by
        rw [List.find?_isSome]; simpa using hany
      simp [this]
    · simp [hk]
  · have hany' : l.any (fun j => j.key == i.key) = false := by simpa using hany
    simp only [hany', Bool.false_eq_true, if_false, List.find?_append]
    by_cases hk : k = i.key
    · subst hk
      have : l.find? (fun x => x.key == i.key) = none := by
        rw [List.find?_eq_none]; intro x hx
        have := (List.any_eq_false.mp hany') x hx
        simpa using this
      simp [this]
    · have h1 : (i.key == k) = false := by simpa using fun (e : i.key = k) => hk e.symm
      simp [hk, h1]


/-- **Pass-through**: non-positive damage and unshielded units pass the damage through
unchanged; nothing changes, nothing is announced. -/
theorem C16_pass (s : S) (tgt : Int) (dmg : Rat) (h : shieldsOf s tgt = [] ∨ dmg ≤ 0) :
    step s (.absorb tgt dmg) = (s, [.ret dmg]) := by
  simp only [step]
  rcases h with h | h
  · simp [h]
  · have : decide (dmg ≤ 0) = true := by simpa using h
    simp [this]

theorem absorb_branch (s : S) (tgt : Int) (dmg : Rat) (hs : shieldsOf s tgt ≠ []) (hd : 0 < dmg) :
    ((shieldsOf s tgt).isEmpty || decide (dmg ≤ 0)) = false := by
  have h1 : (shieldsOf s tgt).isEmpty = false := by
    cases h : shieldsOf s tgt with
    | nil => exact absurd h hs
    | cons a l => rfl
  have h2 : decide (dmg ≤ 0) = false := by simpa using hd
  simp [h1, h2]

/-- **Absorb in parallel**: with at least one shield and positive damage,
* the damage passed on is what exceeds the strongest shield, never negative;
* every shield loses the full damage, floored at zero; shields at zero are removed, the others
  keep their order;
* no other unit changes;
* exactly the depleted shields are announced as removed (in order, once each). -/
theorem C16_absorb (s : S) (tgt : Int) (dmg : Rat) (hs : shieldsOf s tgt ≠ []) (hd : 0 < dmg) :
    retOf (step s (.absorb tgt dmg)).2 = some (max 0 (dmg - maxShield (shieldsOf s tgt)))
    ∧ shieldsOf (step s (.absorb tgt dmg)).1 tgt =
        ((shieldsOf s tgt).map fun i => ({ i with hp := max 0 (i.hp - dmg) } : I)).filter (fun i => decide (i.hp ≠ 0))
    ∧ (∀ t', t' ≠ tgt → shieldsOf (step s (.absorb tgt dmg)).1 t' = shieldsOf s t')
    ∧ removedOf (step s (.absorb tgt dmg)).2 =
        (((shieldsOf s tgt).map fun i => ({ i with hp := max 0 (i.hp - dmg) } : I)).filter
            (fun i => decide (i.hp = 0))).map (fun i => (i.key, tgt)) := by
  have hb := absorb_branch s tgt dmg hs hd
  have hmap : ((shieldsOf s tgt).map fun i => ({ i with hp := dim i.hp dmg } : I)) =
      ((shieldsOf s tgt).map fun i => ({ i with hp := max 0 (i.hp - dmg) } : I)) := by
    apply List.map_congr_left; intro i _; rw [dim_eq]
  have hcond : (((shieldsOf s tgt).isEmpty || decide (dmg ≤ 0)) = true) = False := by simp [hb]
  have hrm : ∀ l : List Int, removedOf (l.map fun k => (Ev.removed k tgt : Ev Rat)) = l.map fun k => (k, tgt) := by
    intro l; induction l with
    | nil => rfl
    | cons k l ih => simp only [List.map_cons, removedOf, List.filterMap_cons, removedEv?] at ih ⊢; rw [ih]
  have hrt : ∀ l : List Int, retOf (l.map fun k => (Ev.removed k tgt : Ev Rat)) = none := by
    intro l; induction l with
    | nil => rfl
    | cons k l ih => simp only [List.map_cons, retOf, List.findSome?_cons, retEv?] at ih ⊢; exact ih
  refine ⟨?_, ?_, ?_, ?_⟩
  · simp only [step, hcond, if_false]
    show retOf (_ ++ _) = _
    unfold retOf at hrt ⊢
    rw [List.findSome?_append, hrt]
    simp only [Option.none_or, List.findSome?_cons, retEv?, damageOut_eq _ _ hd]
  · simp only [step, hcond, if_false, shieldsOf_setShields, if_true, absorbList, hmap]
    apply List.filter_congr; intro i _; simp
  · intro t' ht
    simp only [step, hcond, if_false, shieldsOf_setShields, ht]
  · simp only [step, hcond, if_false]
    show removedOf (_ ++ _) = _
    have happ : ∀ a b : List (Ev Rat), removedOf (a ++ b) = removedOf a ++ removedOf b := by
      intro a b; simp [removedOf]
    rw [happ, hrm]
    simp only [removedOf, List.filterMap_cons, removedEv?, List.filterMap_nil, List.append_nil,
      removedKeys, hmap, List.map_map]
    have : (fun i : I => Num.eqb i.hp 0) = (fun i : I => decide (i.hp = 0)) := by
      funext i; simp
    rw [this]; rfl


/-- **Remove**: the named shield disappears from that unit only, order kept, announced iff it
existed. -/
theorem C16_remove (s : S) (k tgt : Int) (t' : Int) :
    shieldsOf (step s (.remove k tgt)).1 t' =
      (if t' = tgt then (shieldsOf s tgt).filter (fun i => i.key != k) else shieldsOf s t')
    ∧ removedOf (step s (.remove k tgt)).2 = if k ∈ keysOf s tgt then [(k, tgt)] else [] := by
  simp only [step]
  by_cases h : (shieldsOf s tgt).any (fun i => i.key == k) = true
  · have hm : k ∈ keysOf s tgt := by
      simp only [List.any_eq_true, beq_iff_eq] at h
      obtain ⟨i, hi, e⟩ := h
      exact List.mem_map.mpr ⟨i, hi, e⟩
    simp only [h, if_true, shieldsOf_setShields, hm]
    exact ⟨trivial, rfl⟩
  · have hf : (shieldsOf s tgt).any (fun i => i.key == k) = false := by simpa using h
    have hm : k ∉ keysOf s tgt := by
      intro hm
      obtain ⟨i, hi, e⟩ := List.mem_map.mp hm
      have := (List.any_eq_false.mp hf) i hi
      simp [e] at this
    simp only [hf, Bool.false_eq_true, if_false, hm]
    refine ⟨?_, rfl⟩
    split_ifs with ht
    · subst ht
      symm
      rw [List.filter_eq_self]
      intro i hi
      have := (List.any_eq_false.mp hf) i hi
      simpa [bne] using this
    · rfl

/-- what a caller must respect for the "no shield below zero" invariant: a non-negative
strength (e.g. non-negative coefficients, stats and flat value). -/
def OpNonNeg (s : S) : Op Rat → Prop
  | .add _ src _ terms flat st => 0 ≤ strengthSpec st (maxShield (shieldsOf s src)) terms flat
  | _ => True

theorem upsert_keys_nodup (l : List I) (i : I) (h : (l.map (·.key)).Nodup) :
    ((upsert l i).map (·.key)).Nodup := by
  by_cases hm : i.key ∈ l.map (·.key)
  · rw [upsert_keys_of_mem l i hm]; exact h
  · rw [upsert_of_not_mem l i hm]
    simp only [List.map_append, List.map_cons, List.map_nil]
    rw [List.nodup_append]
    refine ⟨h, by simp, ?_⟩
    intro a ha b hb
    simp at hb; subst hb
    intro e; exact hm (e ▸ ha)

theorem mem_upsert (l : List I) (i j : I) (h : j ∈ upsert l i) : j = i ∨ j ∈ l := by
  unfold upsert at h
  split_ifs at h
  · obtain ⟨w, hw, rfl⟩ := List.mem_map.mp h
    split_ifs
    · left; rfl
    · right; exact hw
  · rcases List.mem_append.mp h with h | h
    · right; exact h
    · left; simpa using h

/-- **Invariants over all histories**: at most one shield per key on every unit, and (for
non-negative strengths) no shield below zero, in every reachable state. -/
theorem C16_inv_step (s : S) (op : Op Rat) (h1 : KeysNodup s) (h2 : NonNeg s) (hv : OpNonNeg s op) :
    KeysNodup (step s op).1 ∧ NonNeg (step s op).1 := by
  cases op with
  | add k src tgt terms flat st =>
    constructor
    · intro t
      unfold keysOf
      rw [C16_add]
      split_ifs
      · exact upsert_keys_nodup _ _ (h1 tgt)
      · exact h1 t
    · intro t i hi
      rw [C16_add] at hi
      split_ifs at hi
      · rcases mem_upsert _ _ _ hi with rfl | hi
        · exact hv
        · exact h2 tgt i hi
      · exact h2 t i hi
  | remove k tgt =>
    constructor
    · intro t
      unfold keysOf
      rw [(C16_remove s k tgt t).1]
      split_ifs
      · exact (List.Sublist.map _ List.filter_sublist).nodup (h1 tgt)
      · exact h1 t
    · intro t i hi
      rw [(C16_remove s k tgt t).1] at hi
      split_ifs at hi
      · exact h2 tgt i (List.mem_of_mem_filter hi)
      · exact h2 t i hi
  | absorb tgt dmg =>
    by_cases hp : shieldsOf s tgt = [] ∨ dmg ≤ 0
    · rw [C16_pass s tgt dmg hp]; exact ⟨h1, h2⟩
    · have hs : shieldsOf s tgt ≠ [] := fun e => hp (Or.inl e)
      have hd : 0 < dmg := not_le.mp (fun e => hp (Or.inr e))
      obtain ⟨_, hl, ho, _⟩ := C16_absorb s tgt dmg hs hd
      constructor
      · intro t
        unfold keysOf
        by_cases ht : t = tgt
        · subst ht; rw [hl]
          have : ((shieldsOf s t).map fun i => ({ i with hp := max 0 (i.hp - dmg) } : I)).map (·.key)
              = (shieldsOf s t).map (·.key) := by simp [List.map_map, Function.comp]
          exact (List.Sublist.map _ List.filter_sublist).nodup (this ▸ h1 t)
        · rw [ho t ht]; exact h1 t
      · intro t i hi
        by_cases ht : t = tgt
        · subst ht; rw [hl] at hi
          have := List.mem_of_mem_filter hi
          obtain ⟨j, _, rfl⟩ := List.mem_map.mp this
          exact le_max_left _ _
        · rw [ho t ht] at hi; exact h2 t i hi

theorem C16_inv (ops : List (Op Rat)) :
    ∀ s : S, KeysNodup s → NonNeg s →
      (∀ (pre : List (Op Rat)) (op : Op Rat) (post : List (Op Rat)), ops = pre ++ op :: post →
          OpNonNeg (run s pre).1 op) →
      KeysNodup (run s ops).1 ∧ NonNeg (run s ops).1 := by
  induction ops with
  | nil => intro s h1 h2 _; exact ⟨h1, h2⟩
  | cons op ops ih =>
    intro s h1 h2 hv
    have hstep := C16_inv_step s op h1 h2 (hv [] op ops rfl)
    simp only [run]
    apply ih _ hstep.1 hstep.2
    intro pre o post e
    have := hv (op :: pre) o post (by simp [e])
    simpa [run] using this

/-- depleted shields are announced **once each**: the announcements of one absorb are
duplicate-free (because keys are unique per unit). -/
theorem C16_absorb_once (s : S) (tgt : Int) (dmg : Rat) (h1 : KeysNodup s) :
    (removedOf (step s (.absorb tgt dmg)).2).Nodup := by
  by_cases hp : shieldsOf s tgt = [] ∨ dmg ≤ 0
  · rw [C16_pass s tgt dmg hp]
    show (List.filterMap removedEv? [Ev.ret dmg]).Nodup
    simp only [List.filterMap_cons, removedEv?, List.filterMap_nil]; exact List.nodup_nil
  · have hs : shieldsOf s tgt ≠ [] := fun e => hp (Or.inl e)
    have hd : 0 < dmg := not_le.mp (fun e => hp (Or.inr e))
    obtain ⟨_, _, _, hr⟩ := C16_absorb s tgt dmg hs hd
    rw [hr]
    have hk : ((((shieldsOf s tgt).map fun i => ({ i with hp := max 0 (i.hp - dmg) } : I)).filter
            (fun i => decide (i.hp = 0))).map (·.key)).Nodup := by
      have : ((shieldsOf s tgt).map fun i => ({ i with hp := max 0 (i.hp - dmg) } : I)).map (·.key)
          = (shieldsOf s tgt).map (·.key) := by simp [List.map_map, Function.comp]
      exact (List.Sublist.map _ List.filter_sublist).nodup (this ▸ h1 tgt)
    have : (fun i : I => (i.key, tgt)) = (fun k : Int => (k, tgt)) ∘ (fun i : I => i.key) := rfl
    rw [this, ← List.map_map]
    exact List.Nodup.map (fun a b e => by simpa using e) hk

/-! ### non-vacuity -/
example : KeysNodup ({} : S) ∧ NonNeg ({} : S) := ⟨fun _ => List.nodup_nil, fun _ _ h => by cases h⟩

def exStats : AddStats Rat := ⟨50, 40, 1000, 1000, 0, 0⟩
example : strengthSpec exStats 0 [(1, 1)] 30 = 80 := by
  simp [strengthSpec, termVal, exStats]; norm_num

end Shield
