import Srsim.Model.Gcs.Parse
import Srsim.Proofs.ParseTotal
/-!
# C13 (parser) — the gcs parser is total

`Gcs.Parse` is the model of the recursive-descent / Pratt parser of `pkg/logic/gcs/parse`.
-/
namespace Gcs.Parse
open Gcs.Lex

/-- **Totality**: for every token list the parser returns a program or an error; it never runs
out of the linear fuel `6·tokens + 40` (every call consumes a token or returns). -/
theorem C13_parse_total (toks : List Tok) : ∀ r, parseProgram toks = r → r ≠ Res.fuel := by
  intro r h
  subst h
  exact parseProgram_ne_fuel toks

end Gcs.Parse
