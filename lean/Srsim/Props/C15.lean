/-!
# C15 — runs are isolated from each other

A run is a sequence of steps; a step may read and write the run's own state and, in principle,
state shared by the whole process (package-level variables).  The extractor lists every write to
a package-level variable outside `init()` in the current source; the reviewed expectation is that
no run step does so (the catalogs are filled by `init()` only).  Under that isolation hypothesis
the theorems say that what a run computes does not depend on what other runs do, in any order or
interleaving; `C15_shared_write_observable` is the witness that the hypothesis is needed.
-/
namespace C15

variable {G L₁ L₂ : Type}

structure World (G L₁ L₂ : Type) where
  g : G
  l₁ : L₁
  l₂ : L₂

inductive Who | one | two
deriving DecidableEq

/-- one step of run 1 or run 2 on the shared world -/
def stepW (s₁ : G → L₁ → G × L₁) (s₂ : G → L₂ → G × L₂) (w : World G L₁ L₂) : Who → World G L₁ L₂
  | .one => { w with g := (s₁ w.g w.l₁).1, l₁ := (s₁ w.g w.l₁).2 }
  | .two => { w with g := (s₂ w.g w.l₂).1, l₂ := (s₂ w.g w.l₂).2 }

/-- a run's steps neither write the shared state nor depend on it -/
def Isolated {L : Type} (s : G → L → G × L) : Prop := ∀ g g' l, (s g l).1 = g ∧ (s g l).2 = (s g' l).2

def iter {L : Type} (f : L → L) : Nat → L → L
  | 0, l => l
  | n + 1, l => iter f n (f l)

theorem iter_succ' {L : Type} (f : L → L) (n : Nat) (l : L) : iter f (n + 1) l = f (iter f n l) := by
  induction n generalizing l with
  | zero => rfl
  | succ n ih => simp only [iter] at ih ⊢; exact ih (f l)

/-- **Any interleaving**: after any schedule of steps of two isolated runs the shared state is
untouched and each run's state is what that run alone computes in as many steps as it was given —
whatever the other run did in between, before or after. -/
theorem C15_interleaving_irrelevant (s₁ : G → L₁ → G × L₁) (s₂ : G → L₂ → G × L₂)
    (h₁ : Isolated s₁) (h₂ : Isolated s₂) (g₀ : G) (sched : List Who) (w : World G L₁ L₂) :
    (sched.foldl (stepW s₁ s₂) w).g = w.g ∧
    (sched.foldl (stepW s₁ s₂) w).l₁ = iter (fun l => (s₁ g₀ l).2) (sched.count .one) w.l₁ ∧
    (sched.foldl (stepW s₁ s₂) w).l₂ = iter (fun l => (s₂ g₀ l).2) (sched.count .two) w.l₂ := by
  induction sched generalizing w with
  | nil => exact ⟨rfl, rfl, rfl⟩
  | cons x xs ih =>
    rw [List.foldl_cons]
    obtain ⟨ig, i1, i2⟩ := ih (stepW s₁ s₂ w x)
    cases x with
    | one =>
      have c1 : List.count Who.one (Who.one :: xs) = List.count Who.one xs + 1 := by simp
      have c2 : List.count Who.two (Who.one :: xs) = List.count Who.two xs := by simp
      rw [c1, c2]
      refine ⟨?_, ?_, ?_⟩
      · rw [ig]; simp only [stepW]; exact (h₁ _ g₀ _).1
      · rw [i1]; simp only [stepW, iter]; rw [(h₁ w.g g₀ w.l₁).2]
      · rw [i2]; simp only [stepW]
    | two =>
      have c1 : List.count Who.one (Who.two :: xs) = List.count Who.one xs := by simp
      have c2 : List.count Who.two (Who.two :: xs) = List.count Who.two xs + 1 := by simp
      rw [c1, c2]
      refine ⟨?_, ?_, ?_⟩
      · rw [ig]; simp only [stepW]; exact (h₂ _ g₀ _).1
      · rw [i1]; simp only [stepW]
      · rw [i2]; simp only [stepW, iter]; rw [(h₂ w.g g₀ w.l₂).2]

/-- in particular: a run after any number of other runs, or concurrently with them, ends exactly
as it does alone -/
theorem C15_same_alone_or_not (s₁ : G → L₁ → G × L₁) (s₂ : G → L₂ → G × L₂)
    (h₁ : Isolated s₁) (h₂ : Isolated s₂) (sched : List Who) (w : World G L₁ L₂) :
    (sched.foldl (stepW s₁ s₂) w).l₁ = ((List.replicate (sched.count .one) Who.one).foldl (stepW s₁ s₂) w).l₁ := by
  rw [(C15_interleaving_irrelevant s₁ s₂ h₁ h₂ w.g sched w).2.1,
      (C15_interleaving_irrelevant s₁ s₂ h₁ h₂ w.g (List.replicate (sched.count .one) Who.one) w).2.1]
  simp [List.count_replicate_self]

/-- **A shared write is observable**: when one run writes process-wide state that another reads
(a package-level counter, map or logger list), two schedules of the same steps end differently. -/
theorem C15_shared_write_observable :
    let s₁ : Nat → Nat → Nat × Nat := fun g l => (g + 1, l)        -- run 1 bumps a package-level counter
    let s₂ : Nat → Nat → Nat × Nat := fun g _ => (g, g)            -- run 2 reads it
    ([Who.one, Who.two].foldl (stepW s₁ s₂) ⟨0, 0, 0⟩).l₂ ≠ ([Who.two, Who.one].foldl (stepW s₁ s₂) ⟨0, 0, 0⟩).l₂ := by
  decide

end C15
