import Srsim.Model.Gcs.Eval
/-! placeholder, replaced by the full theorem file once its proofs are in -/
namespace Gcs.Eval
theorem C12_wrap64_small : wrap64 7 = 7 ∧ wrap64 9223372036854775808 = -9223372036854775808 := by decide
end Gcs.Eval
