import Srsim.Model.Gcs.Eval
import Srsim.Proofs.NumRat
import Srsim.Proofs.GcsScope
/-!
# C12 — gcs programs evaluate according to the language semantics

Theorems about `Gcs.Eval` (model of `pkg/logic/gcs/eval`) at `α := ℚ`: the arithmetic and
comparison laws of the two number kinds, error reporting, scope isolation, and the control-flow
rules for `return` inside loops.  Tie: `Driver/C12.lean` (source text → Lean lexer → Lean parser →
this evaluator, against the Go lexer/parser/evaluator).
-/
namespace Gcs.Eval
open Gcs.Parse Gcs.Lex

abbrev V := Val Rat

/-- **Integer arithmetic**: two integers give the integer result (64-bit wrap-around);
integer division truncates toward zero and division by zero is an error, not a crash. -/
theorem C12_int_arith (a b : Int) :
    binop tPlus (.int a : V) (.int b) = .ok (.int (wrap64 (a + b))) ∧
    binop tMinus (.int a : V) (.int b) = .ok (.int (wrap64 (a - b))) ∧
    binop tAsterisk (.int a : V) (.int b) = .ok (.int (wrap64 (a * b))) ∧
    (b ≠ 0 → binop tSlash (.int a : V) (.int b) = .ok (.int (wrap64 (Int.tdiv a b)))) ∧
    binop tSlash (.int a : V) (.int 0) = .error "integer division by zero" := by
  refine ⟨?_, ?_, ?_, ?_, ?_⟩ <;>
    simp [binop, asF, tPlus, tMinus, tAsterisk, tSlash, tAnd, tOr]

/-- **Promotion**: as soon as one operand is a float the operation is the floating one on the
promoted operands, whichever side the float is on; float division never errors. -/
theorem C12_promotion (a : Int) (x y : Rat) :
    binop tPlus (.int a : V) (.flt x) = .ok (.flt ((a : Rat) + x)) ∧
    binop tPlus (.flt x : V) (.int a) = .ok (.flt (x + (a : Rat))) ∧
    binop tAsterisk (.flt x : V) (.flt y) = .ok (.flt (x * y)) ∧
    binop tSlash (.int a : V) (.flt x) = .ok (.flt ((a : Rat) / x)) ∧
    binop tMinus (.flt x : V) (.int a) = .ok (.flt (x - (a : Rat))) := by
  refine ⟨?_, ?_, ?_, ?_, ?_⟩ <;>
    simp [binop, asF, toF, tPlus, tMinus, tAsterisk, tSlash, tAnd, tOr]

/-- **Comparisons and logic yield 0 or 1**, computed on the promoted values -/
theorem C12_compare (l r : V) (hl : isNum l = true) (hr : isNum r = true) (op : Nat)
    (hop : op ∈ [tAnd, tOr, tGt, tGe, tLt, tLe, tEq, tNe]) :
    binop op l r = .ok (.int 0) ∨ binop op l r = .ok (.int 1) := by
  simp only [List.mem_cons, List.mem_nil_iff, or_false] at hop
  cases l <;> simp [isNum] at hl <;> cases r <;> simp [isNum] at hr <;>
    rcases hop with rfl | rfl | rfl | rfl | rfl | rfl | rfl | rfl <;>
    simp only [binop, asF, tPlus, tMinus, tAsterisk, tSlash, tAnd, tOr, tGt, tGe, tLt, tLe, tEq, tNe] <;>
    simp only [Nat.reduceBEq, if_true, if_false, Bool.false_eq_true, Except.ok.injEq] <;>
    exact b2v_cases _

theorem C12_compare_values (a : Int) (x : Rat) :
    binop tLt (.int a : V) (.flt x) = .ok (b2v (decide ((a : Rat) < x))) ∧
    binop tEq (.int a : V) (.flt x) = .ok (b2v (decide ((a : Rat) = x))) ∧
    unop tNot (.int a : V) = .ok (b2v (a == 0)) ∧
    unop tMinus (.flt x : V) = .ok (.flt (0 - x)) := by
  refine ⟨?_, ?_, ?_, ?_⟩ <;>
    simp [binop, unop, asF, toF, tPlus, tMinus, tAsterisk, tSlash, tAnd, tOr, tGt, tGe, tLt, tLe, tEq, tNot]

/-- **Ill-typed operands are errors** -/
theorem C12_illtyped (op : Nat) (l r : V) (h : isNum l = false ∨ isNum r = false) :
    binop op l r = .error "binary expression does not evaluate to a number" ∧
    (isNum l = false → unop op l = .error "unary expression does not evaluate to a number") := by
  constructor
  · rcases h with h | h
    · cases l <;> simp [isNum] at h <;> simp [binop, asF]
    · cases r <;> simp [isNum] at h <;> cases l <;> simp [binop, asF]
  · intro h; cases l <;> simp [isNum] at h <;> simp [unop]

/-- **Unknown names are errors** -/
theorem C12_unknown_name (mkF : Nat → Nat → Rat) (f : Nat) (s : St Rat) (env : Nat) (x : List Nat)
    (h : lookup s env x = none) : evalExpr mkF (f + 1) s env (.ident x) = .err "variable does not exist" s := by
  simp only [evalExpr, h]

/-- **Wrong arity is an error** -/
theorem C12_arity (mkF : Nat → Nat → Rat) (f : Nat) (s : St Rat) (env : Nat) (g : List Nat)
    (params : List (List Nat)) (body : List Node) (args : List Expr) (fr : Nat)
    (hg : lookup s env g = some (fr, .fn params body)) (hn : args.length ≠ params.length) :
    evalExpr mkF (f + 2) s env (.call (.ident g) args) = .err "unmatched number of params" s := by
  have h1 : evalExpr mkF (f + 1) s env (.ident g) = .ok (.fn params body) s := by
    simp only [evalExpr, hg]
  rw [evalExpr]
  simp only [h1]
  simp [hn]

/-- parents are older than their children -/
def FramesOK (s : St Rat) : Prop :=
  ∀ (i : Nat) (fr : Frame Rat), s.frames[i]? = some fr → ∀ p, fr.parent = some p → p < i

/-- **Scope isolation**: defining or changing a variable in a newer scope (a block that has been
entered later) is invisible from an older scope. -/
theorem C12_scope_isolation (s : St Rat) (h : FramesOK s) (env scope : Nat) (hlt : env < scope)
    (x y : List Nat) (v : V) : lookup (setVar s scope x v) env y = lookup s env y := by
  unfold lookup
  rw [setVar_frames_size]
  exact lookupIn_congr s.frames _ scope h
    (fun i hi => setVar_frames_ne s scope x v i (Nat.ne_of_lt hi)) y _ env hlt

/-- **Shadowing**: a variable defined in the current scope hides the outer one of the same name,
and is what assignment finds first. -/
theorem C12_shadowing (s : St Rat) (env : Nat) (x : List Nat) (v : V) (henv : env < s.frames.size) :
    lookup (setVar s env x v) env x = some (env, v) := by
  unfold lookup
  rw [setVar_frames_size]
  have hfr : s.frames[env]? = some s.frames[env] := Array.getElem?_eq_getElem henv
  simp only [lookupIn]
  unfold setVar
  simp only [hfr, Array.set!_eq_setIfInBounds, Array.getElem?_setIfInBounds_self_of_lt henv]
  rw [find_setVars]

/-- **`return` leaves a loop**: when the body of a `while` returns, the loop returns that value
(it is not swallowed and the loop is not re-entered). -/
theorem C12_while_return (mkF : Nat → Nat → Rat) (f : Nat) (s s1 s2 : St Rat) (env : Nat) (c : Expr) (body : List Node)
    (cv v : V) (hc : evalExpr mkF f s env c = .ok cv s1) (ht : truthy cv = true)
    (hb : evalBlock mkF f s1 env body = .ok (.ret v) s2) :
    whileLoop mkF (f + 1) s env c body = .ok (.ret v) s2 := by
  rw [whileLoop]
  simp only [hc, ht, hb]
  simp

/-- a false condition ends the loop with no value; `break` ends it too -/
theorem C12_while_exit (mkF : Nat → Nat → Rat) (f : Nat) (s s1 s2 : St Rat) (env : Nat) (c : Expr) (body : List Node) (cv : V)
    (hc : evalExpr mkF f s env c = .ok cv s1) :
    (truthy cv = false → whileLoop mkF (f + 1) s env c body = .ok (.val .null) s1) ∧
    (truthy cv = true → evalBlock mkF f s1 env body = .ok (.ctrl 1) s2 →
      whileLoop mkF (f + 1) s env c body = .ok (.val .null) s2) := by
  constructor
  · intro ht
    rw [whileLoop]
    simp only [hc, ht]
    simp
  · intro ht hb
    rw [whileLoop]
    simp only [hc, ht, hb]
    simp

end Gcs.Eval
