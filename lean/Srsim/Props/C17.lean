import Srsim.Spec.CombatSpec
import Srsim.Proofs.AttrFrame
import Mathlib.Tactic.Ring
/-!
# C17 — Heals have the documented amount and never overheal

Theorems about `Combat.healOne` (model of `combat.Heal`) at ℚ.  Tie: `Driver/C17.lean`.
Listener adjustments of the mutable `HealStart` event are the `adj` parameter of the heal.
-/
namespace Combat

/-- **Amount**: the heal is (flat value + Σ formula terms over healer stats, target max HP and
target missing HP) · (1 + healer's outgoing bonus) · (1 + target's incoming bonus), all read
*after* the listeners' adjustments. -/
theorem C17_amount (s : St Rat) (p : HealP Rat) (tgt : Int) :
    healAmount s p tgt =
      (healFlat p + ((applyAdjTerms p.terms p.adj).map fun kc =>
          healTerm (healerStats s p) (healTargetStats s p tgt) (healLost s p tgt) kc.1 kc.2).sum)
        * (1 + (healerStats s p).healBoost) * (1 + (healTargetStats s p tgt).healTaken) := by
  unfold healAmount
  congr 2
  have : ∀ (l : List (Nat × Rat)) (a : Rat),
      l.foldl (fun acc kc => acc + healTerm (healerStats s p) (healTargetStats s p tgt) (healLost s p tgt) kc.1 kc.2) a =
        a + (l.map fun kc => healTerm (healerStats s p) (healTargetStats s p tgt) (healLost s p tgt) kc.1 kc.2).sum := by
    intro l
    induction l with
    | nil => intro a; simp
    | cons x l ih => intro a; simp only [List.foldl_cons, List.map_cons, List.sum_cons]; rw [ih]; ring
  exact this _ _

/-- the missing HP is measured against the target's *current* HP -/
theorem C17_lost (s : St Rat) (p : HealP Rat) (tgt : Int) :
    healLost s p tgt = (healTargetStats s p tgt).maxHP * (1 - hpRatioOfU s tgt) := by
  unfold healLost healCur; ring

/-- listener adjustments take effect: flat value, healer ATK and target incoming bonus -/
theorem C17_adjust (s : St Rat) (p : HealP Rat) (tgt : Int) (a : HealAdj Rat) (h : p.adj = some a) :
    healFlat p = p.flat + a.flatAdd ∧ (healerStats s p).atk = (statsOf s p.src).atk + a.healerAtkAdd ∧
    (healTargetStats s p tgt).healTaken = (statsOf s tgt).healTaken + a.targetTakenAdd := by
  unfold healFlat healerStats healTargetStats; simp [h]

/-- **Apply / overflow**: what is applied plus the overflow is the amount; the applied part never
lifts HP above the maximum; the overflow is never negative; when the amount fits, all of it is
applied and nothing overflows. -/
theorem C17_apply (s : St Rat) (p : HealP Rat) (tgt : Int) :
    healApplied s p tgt + healOverflow s p tgt = healAmount s p tgt
    ∧ healCur s p tgt + healApplied s p tgt ≤ max (healCur s p tgt + healAmount s p tgt) (healTargetStats s p tgt).maxHP
    ∧ (healCur s p tgt ≤ (healTargetStats s p tgt).maxHP →
        healCur s p tgt + healApplied s p tgt ≤ (healTargetStats s p tgt).maxHP)
    ∧ 0 ≤ healOverflow s p tgt
    ∧ (healAmount s p tgt + healCur s p tgt ≤ (healTargetStats s p tgt).maxHP →
        healApplied s p tgt = healAmount s p tgt ∧ healOverflow s p tgt = 0)
    ∧ ((healTargetStats s p tgt).maxHP < healAmount s p tgt + healCur s p tgt →
        healCur s p tgt + healApplied s p tgt = (healTargetStats s p tgt).maxHP) := by
  unfold healApplied healOverflow
  refine ⟨?_, ?_, ?_, ?_, ?_, ?_⟩
  · split_ifs <;> ring
  · split_ifs with h
    · have : healCur s p tgt + (healAmount s p tgt - (healAmount s p tgt + healCur s p tgt - (healTargetStats s p tgt).maxHP))
          = (healTargetStats s p tgt).maxHP := by ring
      rw [this]; exact le_max_right _ _
    · exact le_max_left _ _
  · intro hc
    split_ifs with h
    · have : healCur s p tgt + (healAmount s p tgt - (healAmount s p tgt + healCur s p tgt - (healTargetStats s p tgt).maxHP))
          = (healTargetStats s p tgt).maxHP := by ring
      rw [this]
    · have := not_lt.mp h; linarith
  · split_ifs with h
    · have : (healTargetStats s p tgt).maxHP < healAmount s p tgt + healCur s p tgt := h
      linarith
    · exact le_refl _
  · intro hfit
    have : ¬ (healAmount s p tgt + healCur s p tgt > (healTargetStats s p tgt).maxHP) := not_lt.mpr hfit
    simp only [this, if_false, and_self]
  · intro hov
    have : healAmount s p tgt + healCur s p tgt > (healTargetStats s p tgt).maxHP := hov
    simp only [this, if_true]; ring

/-- the heal is applied as a non-damage HP modification of exactly the applied amount and is
reported with the applied amount and the overflow -/
theorem C17_events (s : St Rat) (p : HealP Rat) (tgt : Int) :
    (healOne s p tgt).2 =
      [Ev.healStart p.src tgt] ++ (attrStep s (.modHP tgt p.src (healApplied s p tgt) false)).2 ++
      [Ev.healEnd p.src tgt (healApplied s p tgt) (healOverflow s p tgt)] := rfl

/-- **Dead source**: a heal from a source that is not alive (or without targets) does nothing. -/
theorem C17_dead_source (s : St Rat) (p : HealP Rat)
    (h : p.targets = [] ∨ lifeOfU s p.src ≠ some .alive) : step s (.heal p) = (s, []) := by
  simp only [step]
  rcases h with h | h
  · simp [h]
  · have : (lifeOfU s p.src != some Attr.Life.alive) = true := by simpa [bne_iff_ne] using h
    simp [this]

/-! ### non-vacuity: half HP, ATK-scaled heal with a listener adding 7 flat -/
def exHeal : HealP Rat :=
  { key := 0, src := 1, targets := [2], terms := [(1, 1/10)], flat := 15,
    adj := some { flatAdd := 7, termKind := 0, termSet := 0, healerAtkAdd := 0, targetTakenAdd := 0 } }

example : healFlat exHeal = 22 ∧ exHeal.adj.isSome := by
  refine ⟨?_, rfl⟩
  simp [healFlat, exHeal]; norm_num

end Combat
