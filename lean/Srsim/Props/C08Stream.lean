import Srsim.Spec.Proto
import Srsim.Props.C03
import Srsim.Proofs.SimLemmas
import Srsim.Proofs.SimDeathCtl
/-!
# C08 over whole runs

The decidable death predicate `Proto.deathOK` (every unit that reaches zero without a revive is
announced dead exactly once before the next checkpoint, with the attacker of the last damaging hit
as killer; a unit held by a revive is announced only at the end of the turn; the dead are in no
turn order, take no turn, start no action, run no queued insert) holds of the event stream of
EVERY run of the battle-driver model.
-/
namespace Sim
variable {α : Type} [Num α]

/-- a fresh, well-formed simulation: every unit id of the configuration has its record, alive,
not yet attacked; nothing queued; empty turn order -/
structure WF (cfg : Cfg) (s : S α) : Prop where
  init : Init s
  units : ∀ id, isValidId cfg id = true → ∃ u, unitOf s id = some u ∧ u.id = id ∧ u.life = 0 ∧ u.lastAtk = id
  ids : ∀ u ∈ s.units, isValidId cfg u.id = true
  queue : s.queue = []
  order : s.turn.order = []
  notActive : s.turn.activeTurn = false

/-- the battle-start listener changes no HP (a unit brought to zero there would wait for the death
check of the first turn's phase 1; the first `TurnStart` comes before it) -/
def StartQuiet (cfg : Cfg) : Prop :=
  ∀ p, cfg.start = some p → ∀ c ∈ cfg.progs p, c.op ≠ 'A' ∧ c.op ≠ 'H' ∧ c.op ≠ 'C'

theorem C08_stream (cfg : Cfg) (fuel qfuel : Nat) (s0 : S α) (h : WF cfg s0) (hs : StartQuiet cfg)
    (he : (run cfg fuel qfuel s0).err = none) :
    Proto.deathOK (run cfg fuel qfuel s0).evs.reverse = true :=
  deathOK_of_postTD _
    (run_dpost cfg fuel qfuel s0 h.init.evs h.init.active h.units h.ids h.queue h.order hs) he

end Sim
