import Srsim.Spec.Gcs.Grammar
import Srsim.Proofs.Pratt
/-!
# C14 — gcs source is parsed into the tree the grammar prescribes (expression core)

`Gcs.Grammar.toks` prints a tree with exactly the parentheses the precedence grammar requires;
the theorems say the Pratt parser model (`Gcs.Parse.parseExpr`) reads it back, for every tree,
every ambient precedence and every continuation of the token stream.
-/
namespace Gcs.Grammar
open Gcs.Lex Gcs.Parse

theorem C14_prec_order : prec tOr < prec tAnd ∧ prec tAnd < prec tEq ∧ prec tEq < prec tLt ∧ prec tLt < prec tPlus ∧
    prec tPlus < prec tAsterisk ∧ prec tAsterisk < 8 ∧ 8 < prec tLParen := by decide

/-- **Round trip (expressions)**: for every well-formed tree `e`, every ambient precedence
`ctx ≥ 1`, every prefix `pre` of already consumed tokens and every continuation `rest` at which an
expression at that precedence must stop, parsing `pre ++ toks ctx e ++ rest` from the end of
`pre` yields exactly `e` and consumes exactly the tokens of `e`, given enough fuel. -/
theorem C14_roundtrip (e : E) (hwf : e.WF) (ctx : Nat) (hctx : 1 ≤ ctx) (pre rest : List Tok) (hstop : Stops ctx rest)
    (hrest : ∀ t ∈ rest.head?, t.typ ≠ tLParen) :
    ∃ f0 : Nat, ∀ f, f0 ≤ f →
      ∃ p', parseExpr f ⟨(pre ++ toks ctx e ++ rest).toArray, (pre.length : Int) - 1⟩ ctx = Res.ok e.toExpr p' ∧
        p'.pos = ((pre ++ toks ctx e).length : Int) - 1 := by
  have hd0 : (pre ++ toks ctx e ++ rest).drop pre.length = toks ctx e ++ rest := by
    rw [List.append_assoc, List.drop_left]
  have hd1 : (pre ++ toks ctx e ++ rest).drop (pre.length + (toks ctx e).length) = rest := drop_add hd0
  have hs : (hd rest).typ = tTerm ∨ prec (hd rest).typ ≤ ctx := by
    cases rest with
    | nil =>
      have h0 : prec (0 : Nat) = 1 := by decide
      exact Or.inr (show prec 0 ≤ ctx by omega)
    | cons t rest' => exact hstop
  have hl : (hd rest).typ ≠ tLParen := by
    cases rest with
    | nil => show (0 : Nat) ≠ tLParen; decide
    | cons t rest' => exact hrest t (by simp)
  refine ⟨1 + need e, fun f hf => ⟨mk (pre ++ toks ctx e ++ rest) (pre.length + (toks ctx e).length), ?_, ?_⟩⟩
  · refine A_thm e hwf ctx ctx (pre ++ toks ctx e ++ rest) pre.length rest _ _ 1 hctx (Nat.le_refl _) hd0
      ⟨hs.imp id (fun h => by omega), hl⟩ ?_ f hf
    intro g hg
    obtain ⟨g', rfl⟩ : ∃ g', g = g' + 1 := ⟨g - 1, by omega⟩
    apply infixLoop_stop
    rw [hd1]; exact hs
  · simp [mk]

/-- corollary: operators group by precedence and to the left among equals; e.g. the tokens of
`a - b - c * d` (no parentheses) parse to `(a - b) - (c * d)` -/
theorem C14_example_left_assoc (a b c d : List Nat) :
    ∃ f p', parseExpr f ⟨(toks 1 (.binary tMinus (.binary tMinus (.ident a) (.ident b)) (.binary tAsterisk (.ident c) (.ident d)))).toArray, -1⟩ 1
      = Res.ok (Expr.binary tMinus (Expr.binary tMinus (Expr.ident a) (Expr.ident b)) (Expr.binary tAsterisk (Expr.ident c) (Expr.ident d))) p' ∧
    toks 1 (.binary tMinus (.binary tMinus (.ident a) (.ident b)) (.binary tAsterisk (.ident c) (.ident d)))
      = [tk tIdent a, tk tMinus, tk tIdent b, tk tMinus, tk tIdent c, tk tAsterisk, tk tIdent d] := by
  obtain ⟨f0, h⟩ := C14_roundtrip
    (.binary tMinus (.binary tMinus (.ident a) (.ident b)) (.binary tAsterisk (.ident c) (.ident d)))
    (by simp [E.WF]; decide) 1 (Nat.le_refl _) [] [] trivial (by simp)
  obtain ⟨p', hp, _⟩ := h f0 (Nat.le_refl _)
  exact ⟨f0, p', by simpa [E.toExpr] using hp, rfl⟩

/-- parentheses override: a right operand of equal precedence is parenthesised by the printer -/
theorem C14_example_paren (a b c : List Nat) :
    toks 1 (.binary tMinus (.ident a) (.binary tMinus (.ident b) (.ident c)))
      = [tk tIdent a, tk tMinus, tk tLParen, tk tIdent b, tk tMinus, tk tIdent c, tk tRParen] := by
  rfl

end Gcs.Grammar
