import Srsim.Model.Gcs.Parse
/-! placeholder, replaced by the full theorem file once its proofs are in -/
namespace Gcs
open Gcs.Lex Gcs.Parse
theorem C14_prec_order : prec tOr < prec tAnd ∧ prec tAnd < prec tEq ∧ prec tEq < prec tLt ∧ prec tLt < prec tPlus ∧
    prec tPlus < prec tAsterisk ∧ prec tAsterisk < 8 ∧ 8 < prec tLParen := by decide
end Gcs
