import Srsim.Proofs.Turn
import Srsim.Proofs.TurnStep
/-!
# C02 — Turns are scheduled by action value

Theorems about `Turn.step` (model of `pkg/engine/turn`) at `α := ℚ`.  The model is tied to the Go
code by the correspondence check `Driver/C02.lean`.  Vocabulary: `Spec/TurnSpec.lean`.
-/
namespace Turn

/-- **Invariant, one step**: distinct ids, no gauge below zero, clock and cost non-negative and
positive speeds are preserved by every operation a caller may legally issue. -/
theorem C02_inv_step (s : S) (op : Op Rat) (hs : SpeedsPos s) (h : Inv s) (hv : OpValid s op) :
    Inv (step s op).1 ∧ SpeedsPos (step s op).1 := by
  cases op with
  | spd id v =>
    refine ⟨h, ?_⟩
    intro i
    show 0 < (if i = id then v else s.spd i)
    split_ifs
    · exact hv
    · exact hs i
  | add l => exact ⟨inv_add s h l hv.1 hv.2, hs⟩
  | remove id =>
    refine ⟨inv_remove s h id, ?_⟩
    intro i; rw [remove_spd]; exact hs i
  | start => exact inv_start s hs h
  | reset => exact inv_reset s hs h
  | setGauge id amt => exact inv_setGaugeI s hs h id _
  | modNorm id amt =>
    cases hg : gaugeOf s id with
    | none => rw [step_modNorm_none s id amt hg]; exact ⟨h, hs⟩
    | some g' => rw [step_modNorm_some s id g' amt hg]; exact inv_setGaugeI s hs h id _
  | modAV id amt =>
    cases hg : gaugeOf s id with
    | none => rw [step_modAV_none s id amt hg]; exact ⟨h, hs⟩
    | some g' => rw [step_modAV_some s id g' amt hg]; exact inv_setGaugeI s hs h id _
  | setCost c =>
    obtain ⟨h1, h2, h3, _⟩ := h
    exact ⟨⟨h1, h2, h3, hv⟩, hs⟩
  | modCost c =>
    obtain ⟨h1, h2, h3, _⟩ := h
    exact ⟨⟨h1, h2, h3, hv⟩, hs⟩

/-- validity of a whole operation list (each operation valid in the state it is issued in) -/
def ValidRun : S → List (Op Rat) → Prop
  | _, [] => True
  | s, op :: ops => OpValid s op ∧ ValidRun (step s op).1 ops

def runOps : S → List (Op Rat) → S
  | s, [] => s
  | s, op :: ops => runOps (step s op).1 ops

/-- **Invariant over all histories** (every sequence of add/remove, start-turn, end-of-action,
set/advance/delay gauge, gauge-cost and speed-change operations). -/
theorem C02_inv (s : S) (ops : List (Op Rat)) (hs : SpeedsPos s) (h : Inv s) (hv : ValidRun s ops) :
    Inv (runOps s ops) ∧ SpeedsPos (runOps s ops) := by
  induction ops generalizing s with
  | nil => exact ⟨h, hs⟩
  | cons op ops ih =>
    obtain ⟨hv1, hv2⟩ := hv
    obtain ⟨hi, hp⟩ := C02_inv_step s op hs h hv1
    exact ih (step s op).1 hp hi hv2

/-- **Turn start**: the unit that acts has minimal action value; the elapsed action value is not
negative and is added to the battle clock; every other unit's gauge shrinks by `int64(av · its
speed)` — within one gauge unit of `av · speed`, never below zero; the acting unit is at the
front with gauge 0; the gauge cost is back to 1. -/
theorem C02_min_av (s : S) (hs : SpeedsPos s) (h : Inv s) (hna : s.activeTurn = false)
    (hd : E) (tl : List E) (hsort : sortOrder s s.order = hd :: tl) :
    (∀ t ∈ s.order, av s hd ≤ av s t) ∧ 0 ≤ av s hd ∧ hd ∈ s.order ∧
    (step s .start).1.totalAV = s.totalAV + av s hd ∧
    (step s .start).1.active = hd.1 ∧ (step s .start).1.activeTurn = true ∧ (step s .start).1.cost = 1 ∧
    (step s .start).1.order.head? = some (hd.1, 0) ∧
    (∀ t ∈ s.order, t.1 ≠ hd.1 → ∃ g' : Int, (t.1, g') ∈ (step s .start).1.order ∧ 0 ≤ g' ∧
        (t.2 : Rat) - av s hd * s.spd t.1 ≤ (g' : Rat) ∧ (g' : Rat) < (t.2 : Rat) - av s hd * s.spd t.1 + 1) := by
  obtain ⟨hm, ha, hmin⟩ := start_facts s hs h hd tl hsort
  rw [start_eq s hna hd tl hsort]
  refine ⟨hmin, ha, hm, rfl, rfl, rfl, Num.one_rat, ?_, ?_⟩
  · show (advance s (hd :: tl) hd.1 (av s hd)).head? = some (hd.1, 0)
    unfold advance
    simp
  · intro t ht hne
    have ht' : t ∈ hd :: tl := by rw [← hsort]; exact (mem_sortOrder s s.order t).mpr ht
    obtain ⟨b1, b2, b3⟩ := advance_bounds s hs (av s hd) ha t (hmin t ht)
    refine ⟨t.2 - Rat.truncZ (av s hd * s.spd t.1), ?_, b1, b2, b3⟩
    show _ ∈ advance s (hd :: tl) hd.1 (av s hd)
    rw [mem_advance]
    exact ⟨t, ht', by rw [if_neg hne]⟩

/-- **Locality of set / advance / delay**: the named unit gets the requested gauge floored at zero,
no other unit's gauge changes, nobody is lost or duplicated. -/
theorem C02_local (s : S) (h : Inv s) (id g prev : Int) (hp : (id, prev) ∈ s.order) :
    (id, clamp0 g) ∈ (setGaugeI s id g).1.order ∧ 0 ≤ clamp0 g ∧
    (∀ t : E, t.1 ≠ id → (t ∈ (setGaugeI s id g).1.order ↔ t ∈ s.order)) ∧
    (ids (setGaugeI s id g).1).Perm (ids s) := by
  refine ⟨?_, clamp0_nonneg g, ?_, setGaugeI_ids s h id g⟩
  · rw [setGaugeI_mem s h]
    right; exact ⟨rfl, prev, hp⟩
  · intro t ht
    rw [setGaugeI_mem s h]
    constructor
    · rintro (⟨_, hm⟩ | ⟨rfl, _⟩)
      · exact hm
      · exact absurd rfl ht
    · intro hm; left; exact ⟨ht, hm⟩

/-- the three gauge operations are `setGaugeI` at the converted amount (unknown units are an
error, not a crash) -/
theorem C02_gauge_ops (s : S) (h : Inv s) (id prev : Int) (amt : Rat) (hp : (id, prev) ∈ s.order) :
    step s (.setGauge id amt) = setGaugeI s id (Rat.truncZ amt) ∧
    step s (.modNorm id amt) = setGaugeI s id (Rat.truncZ ((prev : Rat) + amt * 10000)) ∧
    step s (.modAV id amt) = setGaugeI s id (Rat.truncZ ((prev : Rat) + s.spd id * amt)) := by
  have hg := gaugeOf_of_mem s h.1 id prev hp
  exact ⟨rfl, step_modNorm_some s id prev amt hg, step_modAV_some s id prev amt hg⟩

theorem C02_unknown_is_error (s : S) (id : Int) (amt : Rat) (hn : id ∉ ids s) :
    step s (.setGauge id amt) = (s, [.err "unknown_target"]) ∧
    step s (.modNorm id amt) = (s, [.err "unknown_target"]) ∧
    step s (.modAV id amt) = (s, [.err "unknown_target"]) ∧
    step s (.remove id) = (s, [.err "unknown_target"]) := by
  have hg := gaugeOf_none s id hn
  refine ⟨?_, ?_, ?_, ?_⟩
  · show setGaugeI s id (Num.trunc amt) = _
    unfold setGaugeI; rw [hg]
  · exact step_modNorm_none s id amt hg
  · exact step_modAV_none s id amt hg
  · have hany : s.order.any (fun t => t.1 == id) = false := by
      rw [List.any_eq_false]
      intro x hx hxe
      apply hn
      have : x.1 = id := by simpa using hxe
      rw [← this]; exact List.mem_map.mpr ⟨x, hx, rfl⟩
    simp only [step, hany, Bool.false_eq_true, if_false]

/-- **The acting unit keeps the front**: while a turn is open and the acting unit is at the front
with gauge 0, setting / advancing / delaying any *other* unit leaves it at the front. -/
theorem C02_front (s : S) (hs : SpeedsPos s) (h : Inv s) (hact : s.activeTurn = true)
    (rest : List E) (ho : s.order = (s.active, 0) :: rest) (id g : Int) (hne : id ≠ s.active) :
    (setGaugeI s id g).1.order.head? = some (s.active, 0) := by
  rcases setGaugeI_cases s id g with ⟨he, _⟩ | ⟨_, he⟩
  · rw [he, ho]; rfl
  · rw [he]
    exact front_kept s hs h hact rest ho id g hne

/-- **End of action**: exactly the acting unit's gauge is reset, to `int64(BaseGauge · cost)` with
the (possibly fractional) cost set during the turn; no other gauge changes; the turn is closed. -/
theorem C02_reset (s : S) (h : Inv s) (hact : s.activeTurn = true) (g : Int) (hin : (s.active, g) ∈ s.order) :
    (step s .reset).1.activeTurn = false ∧
    (s.active, Rat.truncZ (10000 * s.cost)) ∈ (step s .reset).1.order ∧
    (∀ t : E, t.1 ≠ s.active → (t ∈ (step s .reset).1.order ↔ t ∈ s.order)) ∧
    (ids (step s .reset).1).Perm (ids s) := by
  have h1 := h.1
  rw [reset_eq s hact, resetOrder_eq]
  refine ⟨rfl, ?_, ?_, ?_⟩
  · show _ ∈ sortOrder s _
    rw [mem_sortMove s s.order h1]
    right; exact ⟨rfl, g, hin⟩
  · intro t ht
    show t ∈ sortOrder s _ ↔ _
    rw [mem_sortMove s s.order h1]
    constructor
    · rintro (⟨_, hm⟩ | ⟨rfl, _⟩)
      · exact hm
      · exact absurd rfl ht
    · intro hm; left; exact ⟨ht, hm⟩
  · exact sortMove_ids_perm s s.order h1 _ _ _

/-- if the acting unit has left the order (it died during its own turn) nobody is reset -/
theorem C02_reset_absent (s : S) (hact : s.activeTurn = true) (hn : s.active ∉ ids s) :
    (step s .reset).1.activeTurn = false ∧ (step s .reset).1.order.Perm s.order := by
  rw [reset_eq s hact]
  refine ⟨rfl, ?_⟩
  show (resetOrder s).Perm s.order
  unfold resetOrder
  rw [setG_of_not_mem _ _ _ hn, moveTo_of_not_mem _ _ _ hn]
  exact sortOrder_perm s s.order

/-- the gauge cost is kept exactly as set (fractions are not lost) -/
theorem C02_cost (s : S) (c : Rat) :
    (step s (.setCost c)).1.cost = c ∧ (step s (.modCost c)).1.cost = s.cost + c := by
  exact ⟨rfl, rfl⟩

end Turn
