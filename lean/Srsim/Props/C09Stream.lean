import Srsim.Spec.Proto
import Srsim.Proofs.NumRat
import Srsim.Proofs.SimFrame
import Srsim.Proofs.SimLemmas
import Srsim.Proofs.SimExitCtl
/-!
# C09 over whole runs

The decidable exit predicate `Proto.exitRun` (no new turn and no further queued task once an exit
condition holds at an exit check; the termination reports loss before win before timeout, and
the battle clock) accepts the event stream of EVERY terminated run of the battle-driver model, and
the totals it accumulates from the hits are the model's returned totals.  Stated over `ℚ`
(`Num.eqb` must be reflexive).
-/
namespace Sim

/-- a fresh simulation (same fields as `Sim.Init` of `Props/C03.lean`, which cannot be imported here
together with `SimFrame.lean`) -/
structure Init9 (s : S Rat) : Prop where
  evs : s.evs = []
  inAttack : s.inAttack = none
  terminated : s.terminated = false
  err : s.err = none
  active : s.active = 0

/-- well-formed start (as for C08): the lists are filled by `start`; nothing emitted yet -/
structure WF9 (cfg : Cfg) (s : S Rat) : Prop where
  init : Init9 s
  dealt : s.dealt = 0
  taken : s.taken = 0
  clock : s.turn.totalAV = 0
  order : s.turn.order = []
  notActive : s.turn.activeTurn = false

theorem C09_stream (cfg : Cfg) (fuel qfuel : Nat) (s0 : S Rat) (h : WF9 cfg s0)
    (ht : (run cfg fuel qfuel s0).terminated = true) (he : (run cfg fuel qfuel s0).err = none) :
    ∃ x, Proto.exitRun cfg.nchars (cfg.nchars + cfg.nenemies) cfg.cycles
          ({ clock := 0, dealt := 0, taken := 0 } : Proto.XSt Rat) (run cfg fuel qfuel s0).evs.reverse = .ok x ∧
      x.terminated = true ∧ x.clock = (run cfg fuel qfuel s0).turn.totalAV ∧
      x.dealt = (run cfg fuel qfuel s0).dealt ∧ x.taken = (run cfg fuel qfuel s0).taken :=
  exit_stream cfg fuel qfuel s0 h.init.evs h.init.terminated h.init.active h.dealt h.taken h.clock ht he

end Sim
