import Srsim.Spec.QueueSpec
import Mathlib.Data.List.Nodup
import Mathlib.Tactic.Linarith
/-!
# C10 — Queued inserts run in priority order, first-in first-out, at most once

Spec-level theorems about the abstract queue `SQ` (pending list, `pop` = minimum by
(priority, insertion id)).  The array heap `Q` (exactly what `container/heap` does with
`minHeap`) is tied to the Go code by `Driver/C10.lean`; that the heap refines the abstract queue
for every operation sequence is `C10_full` (see `Props/C10Heap.lean` for its proof status).
-/
namespace Queue

theorem less_iff (a b : Task) :
    less a b = true ↔ a.prio < b.prio ∨ (a.prio = b.prio ∧ a.id < b.id) := by
  simp [less]

theorem not_less_iff (a b : Task) :
    less a b = false ↔ b.prio < a.prio ∨ (a.prio = b.prio ∧ b.id ≤ a.id) := by
  rw [← Bool.not_eq_true, less_iff]
  constructor
  · intro h
    by_cases h1 : a.prio < b.prio
    · exact absurd (Or.inl h1) h
    · by_cases h2 : a.prio = b.prio
      · right; refine ⟨h2, ?_⟩
        by_contra h3; exact h (Or.inr ⟨h2, by omega⟩)
      · left; omega
  · rintro (h | ⟨h1, h2⟩) (h3 | ⟨h3, h4⟩) <;> omega

/-- `Less` is a strict total order on tasks with distinct insertion ids -/
theorem C10_less_irrefl (a : Task) : less a a = false := by rw [not_less_iff]; right; exact ⟨rfl, le_refl _⟩

theorem C10_less_trans (a b c : Task) (h1 : less a b = true) (h2 : less b c = true) : less a c = true := by
  rw [less_iff] at *; omega

theorem C10_less_total (a b : Task) (h : a.id ≠ b.id) : less a b = true ∨ less b a = true := by
  rw [less_iff, less_iff]; omega

theorem C10_less_asymm (a b : Task) (h : less a b = true) : less b a = false := by
  rw [less_iff] at h; rw [not_less_iff]; omega

/-- `minTask` returns a pending task that no pending task is smaller than -/
theorem minTask_spec (l : List Task) (m : Task) (h : minTask l = some m) :
    m ∈ l ∧ ∀ t ∈ l, less t m = false := by
  induction l generalizing m with
  | nil => simp [minTask] at h
  | cons t r ih =>
    simp only [minTask] at h
    cases hr : minTask r with
    | none =>
      simp only [hr, Option.some.injEq] at h; subst h
      have : r = [] := by
        cases r with
        | nil => rfl
        | cons a r' =>
          simp only [minTask] at hr
          cases h2 : minTask r' <;> simp [h2] at hr
          split_ifs at hr
      subst this
      exact ⟨by simp, by intro u hu; simp at hu; subst hu; exact C10_less_irrefl _⟩
    | some m' =>
      simp only [hr] at h
      obtain ⟨hm', hmin⟩ := ih m' hr
      split_ifs at h with hl
      · simp only [Option.some.injEq] at h; subst h
        refine ⟨by simp [hm'], ?_⟩
        intro u hu
        rcases List.mem_cons.mp hu with rfl | hu
        · exact C10_less_asymm _ _ hl
        · exact hmin u hu
      · simp only [Option.some.injEq] at h; subst h
        refine ⟨by simp, ?_⟩
        intro u hu
        rcases List.mem_cons.mp hu with rfl | hu
        · exact C10_less_irrefl _
        · have h1 := hmin u hu
          have h2 : less m' t = false := by simpa using hl
          rw [not_less_iff] at h1 h2 ⊢
          omega


/-- **Smallest priority first, oldest first among equals**: the task the abstract queue takes is
pending, no pending task has a smaller priority, and among those of the same priority none was
queued earlier. -/
theorem C10_pop_min (q q' : SQ) (m : Task) (h : sPop q = some (m, q')) :
    m ∈ q.pending ∧ (∀ t ∈ q.pending, m.prio ≤ t.prio) ∧
    (∀ t ∈ q.pending, t.prio = m.prio → m.id ≤ t.id) ∧ q'.pending = q.pending.erase m := by
  unfold sPop at h
  cases hm : minTask q.pending with
  | none => simp [hm] at h
  | some m0 =>
    simp only [hm, Option.some.injEq, Prod.mk.injEq] at h
    obtain ⟨rfl, rfl⟩ := h
    obtain ⟨h1, h2⟩ := minTask_spec _ _ hm
    refine ⟨h1, ?_, ?_, rfl⟩
    · intro t ht; have := h2 t ht; rw [not_less_iff] at this; omega
    · intro t ht hp; have := h2 t ht; rw [not_less_iff] at this; omega

/-- ids are unique and below the counter -/
def IdsOK (q : SQ) : Prop := (q.pending.map (·.id)).Nodup ∧ ∀ t ∈ q.pending, t.id < q.counter

theorem idsOK_insert (q : SQ) (p s t : Int) (h : IdsOK q) : IdsOK (sInsert q p s t) := by
  obtain ⟨h1, h2⟩ := h
  unfold sInsert IdsOK
  simp only [List.map_append, List.map_cons, List.map_nil, List.mem_append, List.mem_singleton]
  constructor
  · rw [List.nodup_append]
    refine ⟨h1, by simp, ?_⟩
    intro a ha b hb
    simp at hb; subst hb
    obtain ⟨u, hu, rfl⟩ := List.mem_map.mp ha
    have := h2 u hu; omega
  · rintro u (hu | rfl)
    · have := h2 u hu; omega
    · simp

theorem idsOK_pop (q q' : SQ) (m : Task) (h : IdsOK q) (hp : sPop q = some (m, q')) :
    IdsOK q' ∧ q'.counter = q.counter ∧ m.id ∉ q'.pending.map (·.id) ∧ m.id < q.counter := by
  obtain ⟨hm, _, _, he⟩ := C10_pop_min q q' m hp
  have hc : q'.counter = q.counter := by
    unfold sPop at hp
    cases hmm : minTask q.pending with
    | none => simp [hmm] at hp
    | some m0 => simp only [hmm, Option.some.injEq, Prod.mk.injEq] at hp; rw [← hp.2]
  obtain ⟨h1, h2⟩ := h
  refine ⟨⟨?_, ?_⟩, hc, ?_, h2 m hm⟩
  · rw [he]; exact (List.Sublist.map _ (List.erase_sublist)).nodup h1
  · intro t ht; rw [he] at ht; rw [hc]; exact h2 t (List.mem_of_mem_erase ht)
  · rw [he]
    intro hmem
    obtain ⟨u, hu, hid⟩ := List.mem_map.mp hmem
    -- u ≠ m would give two pending tasks with the same id
    have hu' := List.mem_of_mem_erase hu
    have hinj : u = m := by
      have := List.inj_on_of_nodup_map h1 hu' hm hid
      exact this
    subst hinj
    have hnd : q.pending.Nodup := List.Nodup.of_map _ h1
    exact (List.Nodup.mem_erase_iff hnd).mp hu |>.1 rfl

/-- the tasks taken by a run of the abstract queue, in order -/
def sPops (q : SQ) : List Op → List Task
  | [] => []
  | .insert p s t :: ops => sPops (sInsert q p s t) ops
  | .pop :: ops =>
    match sPop q with
    | none => sPops q ops
    | some (m, q') => m :: sPops q' ops
  | .isEmpty :: ops => sPops q ops

/-- **At most once**: over any operation sequence no queued task is taken twice. -/
theorem C10_once (ops : List Op) : ((sPops {} ops).map (·.id)).Nodup := by
  have gen : ∀ (ops : List Op) (q : SQ), IdsOK q →
      ((sPops q ops).map (·.id)).Nodup ∧
      ∀ i ∈ (sPops q ops).map (·.id), i ∈ q.pending.map (·.id) ∨ q.counter ≤ i := by
    intro ops
    induction ops with
    | nil => intro q _; simp [sPops]
    | cons op ops ih =>
      intro q hq
      cases op with
      | insert p s t =>
        simp only [sPops]
        obtain ⟨h1, h2⟩ := ih _ (idsOK_insert q p s t hq)
        refine ⟨h1, ?_⟩
        intro i hi
        rcases h2 i hi with h | h
        · simp only [sInsert, List.map_append, List.mem_append, List.map_cons, List.map_nil, List.mem_singleton] at h
          rcases h with h | h
          · left; exact h
          · right; omega
        · right; simp only [sInsert] at h; omega
      | pop =>
        simp only [sPops]
        cases hp : sPop q with
        | none => exact ih q hq
        | some pr =>
          obtain ⟨m, q'⟩ := pr
          obtain ⟨hq', hc, hnot, hlt⟩ := idsOK_pop q q' m hq hp
          obtain ⟨h1, h2⟩ := ih q' hq'
          obtain ⟨hm, _, _, he⟩ := C10_pop_min q q' m hp
          simp only [List.map_cons]
          refine ⟨List.nodup_cons.mpr ⟨?_, h1⟩, ?_⟩
          · intro hmem
            rcases h2 _ hmem with h | h
            · exact hnot h
            · omega
          · intro i hi
            rcases List.mem_cons.mp hi with rfl | hi
            · left; exact List.mem_map_of_mem hm
            · rcases h2 i hi with h | h
              · left; rw [he] at h
                obtain ⟨u, hu, rfl⟩ := List.mem_map.mp h
                exact List.mem_map_of_mem (List.mem_of_mem_erase hu)
              · right; omega
      | isEmpty => simp only [sPops]; exact ih q hq
  exact (gen ops {} ⟨by simp, by intro t ht; simp at ht⟩).1

/-- **Refinement (full statement)**: for every interleaving of inserts and takes — including
inserts arriving while the queue is being drained — the array heap driven as `container/heap`
drives it produces exactly the outputs of the abstract queue. -/
def C10_full : Prop := ∀ ops : List Op, run {} ops = sRun {} ops

/-! ### non-vacuity -/
example : sRun {} [.insert 115 1 1, .insert 75 2 2, .insert 115 3 3, .pop, .insert 45 1 4, .pop, .pop, .pop] =
    [.popped 2 75 2, .popped 4 45 1, .popped 1 115 1, .popped 3 115 3] := by decide
example : run {} [.insert 115 1 1, .insert 75 2 2, .insert 115 3 3, .pop, .insert 45 1 4, .pop, .pop, .pop] =
    [.popped 2 75 2, .popped 4 45 1, .popped 1 115 1, .popped 3 115 3] := by decide

end Queue
