import Srsim.Model.Gcs.Lex
import Srsim.Proofs.C13LexLemmas
/-!
# C13 (lexer) — the gcs lexer is total, linear and tiles its input

Theorems about `Gcs.Lex` (model of `pkg/logic/gcs/parse/lex.go`), for every input rune list and
every Unicode classification carried by the runes.
-/
namespace Gcs.Lex

/-- **Termination**: the state machine always reaches `nil` within two state-function calls per
rune plus two (so `lexAll` never runs out of fuel). -/
theorem C13_lex_total (input : List Rn) : (lexAll input).isSome = true := by
  obtain ⟨r, hr⟩ := run_some (2 * input.length + 2) { rest := input } .text 0 (headOK_text _)
    (Nat.le_refl _)
  unfold lexAll
  rw [hr]
  rfl

/-- **Linear step bound** -/
theorem C13_lex_steps (input : List Rn) (toks : List Tok) (steps : Nat)
    (h : lexAll input = some (toks, steps)) : steps ≤ 2 * input.length + 2 := by
  obtain ⟨s', hr, _⟩ := lexAll_eq h
  have := run_steps _ _ _ _ _ hr
  simpa using this

/-- **Tiling / bounds**: tokens come in input order, do not overlap and never extend beyond the
input — the positions the lexer slices with are always within bounds. -/
theorem C13_lex_tiling (input : List Rn) (toks : List Tok) (steps : Nat)
    (h : lexAll input = some (toks, steps)) :
    toks.Pairwise (fun a b => a.pos + a.len ≤ b.pos) ∧ ∀ t ∈ toks, t.pos + t.len ≤ totalBytes input := by
  obtain ⟨s', hr, rfl⟩ := lexAll_eq h
  have h0 : Tile (totalBytes input) { rest := input } :=
    ⟨Nat.le_refl _, Nat.zero_add _, fun _ ht => absurd ht List.not_mem_nil, List.Pairwise.nil⟩
  have ht : Tile (totalBytes input) s' :=
    run_inv (fun s _ => Tile (totalBytes input) s) (fun _ _ _ _ _ hi st => st.tile hi)
      _ _ _ _ _ (headOK_text _) h0 hr
  refine ⟨List.pairwise_reverse.mpr ht.pw, fun t hmem => ?_⟩
  have := ht.bnd t (List.mem_reverse.mp hmem)
  have := ht.le
  have := ht.tot
  omega

/-- **Exactly one end**: the token stream ends with EOF or an error token, and neither occurs
earlier. -/
theorem C13_lex_ends (input : List Rn) (toks : List Tok) (steps : Nat)
    (h : lexAll input = some (toks, steps)) :
    ∃ pre last, toks = pre ++ [last] ∧ (last.typ = tEOF ∨ last.typ = tError) ∧
      ∀ t ∈ pre, t.typ ≠ tEOF ∧ t.typ ≠ tError := by
  obtain ⟨s', hr, rfl⟩ := lexAll_eq h
  have h0 : EndInv { rest := input } .text := .of_noEnd (by simp) (fun _ ht => absurd ht List.not_mem_nil)
  have he : EndInv s' .done :=
    run_inv EndInv (fun _ _ _ _ hm hi st => st.ends hm hi) _ _ _ _ _ (headOK_text _) h0 hr
  obtain ⟨last, pre, ho, hl, hp⟩ := he.1 rfl
  refine ⟨pre.reverse, last, by rw [ho, List.reverse_cons], hl, fun t ht => ?_⟩
  exact hp t (List.mem_reverse.mp ht)

end Gcs.Lex
