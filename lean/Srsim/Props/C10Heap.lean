import Srsim.Props.C10
import Mathlib.Data.List.Perm.Basic
/-!
# C10 — the array heap refines the abstract queue (`C10_full`)
-/
namespace Queue

/-! ### order facts -/

/-- `x ≤ y` in the (prio, id) order -/
def le (x y : Task) : Prop := less y x = false

theorem le_iff (x y : Task) : le x y ↔ x.prio < y.prio ∨ (x.prio = y.prio ∧ x.id ≤ y.id) := by
  unfold le; rw [not_less_iff]; constructor <;> rintro (h | ⟨h1, h2⟩) <;> omega

theorem le_rfl' (x : Task) : le x x := C10_less_irrefl x

theorem le_trans' {x y z : Task} (h1 : le x y) (h2 : le y z) : le x z := by
  rw [le_iff] at *; omega

theorem le_of_less {x y : Task} (h : less x y = true) : le x y := C10_less_asymm _ _ h

theorem le_of_not_less {x y : Task} (h : ¬ less x y = true) : le y x := by
  unfold le; simpa using h

theorem le_antisymm_id {x y : Task} (h1 : le x y) (h2 : le y x) : x.id = y.id := by
  rw [le_iff] at *; omega

/-! ### total getter -/

def g (a : Array Task) (i : Nat) : Task := a.getD i default

theorem g_eq (a : Array Task) (i : Nat) (h : i < a.size) : g a i = a[i] := by
  simp [g, Array.getD, h]

theorem g_swap (a : Array Task) (i j k : Nat) (hi : i < a.size) (hj : j < a.size) :
    g (a.swapIfInBounds i j) k = if k = i then g a j else if k = j then g a i else g a k := by
  by_cases hk : k < a.size
  · rw [g_eq _ _ (by simpa using hk), Array.getElem_swapIfInBounds]
    by_cases h1 : k = i
    · simp [h1, hj, g_eq _ _ hj]
    · by_cases h2 : k = j
      · subst h2; simp [h1, hi, g_eq _ _ hi]
      · simp [h1, h2, g_eq _ _ hk]
  · have h1 : k ≠ i := by omega
    have h2 : k ≠ j := by omega
    simp [g, Array.getD, hk, h1, h2]

/-! ### heap predicate -/

def HeapOKn (a : Array Task) (n : Nat) : Prop :=
  ∀ k, 0 < k → k < n → le (g a ((k - 1) / 2)) (g a k)

def HeapOK (a : Array Task) : Prop := HeapOKn a a.size

theorem root_min (a : Array Task) (n : Nat) (h : HeapOKn a n) :
    ∀ k, k < n → le (g a 0) (g a k) := by
  intro k
  induction k using Nat.strong_induction_on with
  | _ k ih =>
    intro hk
    by_cases h0 : k = 0
    · subst h0; exact le_rfl' _
    · have := ih ((k - 1) / 2) (by omega) (by omega)
      exact le_trans' this (h k (by omega) hk)

/-! ### up -/

def UpInv (a : Array Task) (j : Nat) : Prop :=
  (∀ k, 0 < k → k < a.size → k ≠ j → le (g a ((k - 1) / 2)) (g a k)) ∧
  (∀ k, 0 < k → k < a.size → (k - 1) / 2 = j → 0 < j → le (g a ((j - 1) / 2)) (g a k))

theorem up_size (f : Nat) (a : Array Task) (j : Nat) : (up f a j).size = a.size := by
  induction f generalizing a j with
  | zero => simp [up]
  | succ f ih =>
    simp only [up]
    split
    · rfl
    · split
      · split
        · rw [ih]; simp
        · rfl
      · rfl

theorem up_perm (f : Nat) (a : Array Task) (j : Nat) : (up f a j).Perm a := by
  induction f generalizing a j with
  | zero => simp [up]
  | succ f ih =>
    simp only [up]
    split
    · exact .refl _
    · split
      · rename_i h
        split
        · refine (ih _ _).trans ?_
          rw [Array.swapIfInBounds_def]
          simp only [h.1, h.2, dite_true]
          exact Array.swap_perm _ _
        · exact .refl _
      · exact .refl _

theorem up_ok (f : Nat) (a : Array Task) (j : Nat) (hf : j < f) (hj : j < a.size)
    (hinv : UpInv a j) : HeapOK (up f a j) := by
  induction f generalizing a j with
  | zero => omega
  | succ f ih =>
    simp only [up]
    by_cases h0 : j = 0
    · subst h0
      simp only [Nat.zero_sub, Nat.zero_div, beq_self_eq_true, if_true]
      intro k hk1 hk2
      exact hinv.1 k hk1 hk2 (by omega)
    · have hne : ((j - 1) / 2 == j) = false := by
        simp only [beq_eq_false_iff_ne]; omega
      have hi : (j - 1) / 2 < a.size := by omega
      simp only [hne, Bool.false_eq_true, if_false, hi, hj, and_self, dite_true]
      rw [← g_eq a j hj, ← g_eq a _ hi]
      obtain ⟨h1, h2⟩ := hinv
      split
      · rename_i hl
        apply ih
        · omega
        · simpa using hi
        · constructor
          · intro k hk1 hk2 hk3
            simp only [Array.size_swapIfInBounds] at hk2
            rw [g_swap _ _ _ _ hi hj, g_swap _ _ _ _ hi hj]
            by_cases hkj : k = j
            · subst hkj
              simp only [if_true, hk3, if_false]
              exact le_of_less hl
            · rw [if_neg hk3, if_neg hkj]
              have hk := h1 k hk1 hk2 hkj
              by_cases hp1 : (k - 1) / 2 = (j - 1) / 2
              · rw [if_pos hp1]
                rw [hp1] at hk
                exact le_trans' (le_of_less hl) hk
              · rw [if_neg hp1]
                by_cases hp2 : (k - 1) / 2 = j
                · rw [if_pos hp2]
                  exact h2 k hk1 hk2 hp2 (by omega)
                · rw [if_neg hp2]; exact hk
          · intro k hk1 hk2 hk3 hk4
            simp only [Array.size_swapIfInBounds] at hk2
            rw [g_swap _ _ _ _ hi hj, g_swap _ _ _ _ hi hj]
            rw [if_neg (by omega), if_neg (by omega), if_neg (by omega)]
            have hpi := h1 ((j - 1) / 2) hk4 hi (by omega)
            by_cases hkj : k = j
            · rw [if_pos hkj]; exact hpi
            · rw [if_neg hkj]
              have := h1 k hk1 hk2 hkj
              rw [hk3] at this
              exact le_trans' hpi this
      · rename_i hl
        intro k hk1 hk2
        by_cases hkj : k = j
        · subst hkj; exact le_of_not_less hl
        · exact h1 k hk1 hk2 hkj

/-! ### down -/

/-- the smaller child of `i` in the prefix `n` -/
def pick (a : Array Task) (i n : Nat) : Nat :=
  if 2 * i + 1 + 1 < n ∧ less (g a (2 * i + 1 + 1)) (g a (2 * i + 1)) then 2 * i + 1 + 1 else 2 * i + 1

theorem down_succ (f : Nat) (a : Array Task) (i n : Nat) :
    down (f + 1) a i n =
      if 2 * i + 1 ≥ n then a
      else if less (g a (pick a i n)) (g a i) then
        down f (a.swapIfInBounds i (pick a i n)) (pick a i n) n else a := rfl

theorem pick_spec (a : Array Task) (i n : Nat) (h : ¬ 2 * i + 1 ≥ n) :
    (pick a i n - 1) / 2 = i ∧ pick a i n < n ∧ i < pick a i n ∧
    ∀ k, 0 < k → k < n → (k - 1) / 2 = i → le (g a (pick a i n)) (g a k) := by
  unfold pick
  split
  · rename_i hc
    refine ⟨by omega, by omega, by omega, ?_⟩
    intro k hk1 hk2 hk3
    have hk : k = 2 * i + 1 ∨ k = 2 * i + 1 + 1 := by omega
    rcases hk with rfl | rfl
    · exact le_of_less hc.2
    · exact le_rfl' _
  · rename_i hc
    refine ⟨by omega, by omega, by omega, ?_⟩
    intro k hk1 hk2 hk3
    have hk : k = 2 * i + 1 ∨ k = 2 * i + 1 + 1 := by omega
    rcases hk with rfl | rfl
    · exact le_rfl' _
    · exact le_of_not_less (fun hl => hc ⟨hk2, hl⟩)

theorem down_size (f : Nat) (a : Array Task) (i n : Nat) : (down f a i n).size = a.size := by
  induction f generalizing a i with
  | zero => simp [down]
  | succ f ih =>
    rw [down_succ]
    split
    · rfl
    · split
      · rw [ih]; simp
      · rfl

theorem down_perm (f : Nat) (a : Array Task) (i n : Nat) : (down f a i n).Perm a := by
  induction f generalizing a i with
  | zero => simp [down]
  | succ f ih =>
    rw [down_succ]
    split
    · exact .refl _
    · split
      · refine (ih _ _).trans ?_
        rw [Array.swapIfInBounds_def]
        split
        · split
          · exact Array.swap_perm _ _
          · exact .refl _
        · exact .refl _
      · exact .refl _

theorem down_ge (f : Nat) (a : Array Task) (i n : Nat) (hn : n ≤ a.size)
    (k : Nat) (hk : n ≤ k) : g (down f a i n) k = g a k := by
  induction f generalizing a i with
  | zero => simp [down]
  | succ f ih =>
    rw [down_succ]
    split
    · rfl
    · rename_i hj1
      obtain ⟨hp1, hp2, hp3, _⟩ := pick_spec a i n hj1
      split
      · rw [ih _ _ (by simpa using hn), g_swap _ _ _ _ (by omega) (by omega),
          if_neg (by omega), if_neg (by omega)]
      · rfl

def DownInv (a : Array Task) (i n : Nat) : Prop :=
  (∀ k, 0 < k → k < n → (k - 1) / 2 ≠ i → le (g a ((k - 1) / 2)) (g a k)) ∧
  (∀ k, 0 < k → k < n → (k - 1) / 2 = i → 0 < i → le (g a ((i - 1) / 2)) (g a k))

theorem down_ok (f : Nat) (a : Array Task) (i n : Nat) (hf : n ≤ f + i) (hn : n ≤ a.size)
    (hinv : DownInv a i n) : HeapOKn (down f a i n) n := by
  induction f generalizing a i with
  | zero =>
    simp only [down]
    intro k hk1 hk2
    exact hinv.1 k hk1 hk2 (by omega)
  | succ f ih =>
    obtain ⟨h1, h2⟩ := hinv
    rw [down_succ]
    split
    · intro k hk1 hk2
      exact h1 k hk1 hk2 (by omega)
    · rename_i hj1
      obtain ⟨hjp, hjn, hij, hjmin⟩ := pick_spec a i n hj1
      generalize pick a i n = j at *
      have hj0 : 0 < j := by omega
      have hi : i < a.size := by omega
      have hj : j < a.size := by omega
      split
      · rename_i hl
        apply ih
        · omega
        · simpa using hn
        · constructor
          · intro k hk1 hk2 hk3
            rw [g_swap _ _ _ _ hi hj, g_swap _ _ _ _ hi hj]
            by_cases hpk : (k - 1) / 2 = i
            · rw [if_pos hpk]
              by_cases hkj : k = j
              · rw [if_neg (by omega), if_pos hkj]
                exact le_of_less hl
              · rw [if_neg (by omega), if_neg hkj]
                exact hjmin k hk1 hk2 hpk
            · rw [if_neg hpk, if_neg hk3]
              have hk := h1 k hk1 hk2 hpk
              by_cases hki : k = i
              · rw [if_pos hki]
                subst hki
                exact h2 j hj0 hjn hjp hk1
              · rw [if_neg hki, if_neg (by omega)]
                exact hk
          · intro k hk1 hk2 hk3 _
            rw [g_swap _ _ _ _ hi hj, g_swap _ _ _ _ hi hj]
            rw [hjp, if_pos rfl, if_neg (by omega), if_neg (by omega)]
            have := h1 k hk1 hk2 (by omega)
            rw [hk3] at this
            exact this
      · rename_i hl
        intro k hk1 hk2
        by_cases hpk : (k - 1) / 2 = i
        · rw [hpk]
          exact le_trans' (le_of_not_less hl) (hjmin k hk1 hk2 hpk)
        · exact h1 k hk1 hk2 hpk

/-! ### simulation -/

theorem g_push_lt (a : Array Task) (t : Task) (k : Nat) (h : k < a.size) :
    g (a.push t) k = g a k := by
  rw [g_eq _ _ (by simp; omega), g_eq _ _ h, Array.getElem_push_lt]

theorem g_push_size (a : Array Task) (t : Task) : g (a.push t) a.size = t := by
  rw [g_eq _ _ (by simp)]; simp

def R (q : Q) (s : SQ) : Prop :=
  q.counter = s.counter ∧ q.heap.toList.Perm s.pending ∧ HeapOK q.heap ∧ IdsOK s

theorem R_insert (q : Q) (s : SQ) (p sr t : Int) (h : R q s) :
    R (insert q p sr t) (sInsert s p sr t) := by
  obtain ⟨hc, hp, hh, hids⟩ := h
  refine ⟨?_, ?_, ?_, idsOK_insert s p sr t hids⟩
  · simp [insert, sInsert, hc]
  · simp only [insert, sInsert]
    refine (Array.perm_iff_toList_perm.mp (up_perm _ _ _)).trans ?_
    rw [Array.toList_push, hc]
    exact hp.append_right _
  · simp only [insert]
    apply up_ok
    · simp
    · simp
    · constructor
      · intro k hk1 hk2 hk3
        simp only [Array.size_push] at hk2 hk3
        rw [g_push_lt _ _ _ (by omega), g_push_lt _ _ _ (by omega)]
        exact hh k hk1 (by omega)
      · intro k hk1 hk2 hk3 _
        simp only [Array.size_push] at hk2 hk3
        omega

theorem minTask_none (l : List Task) (h : minTask l = none) : l = [] := by
  cases l with
  | nil => rfl
  | cons a r =>
    simp only [minTask] at h
    cases h2 : minTask r <;> simp [h2] at h
    split_ifs at h

theorem R_isEmpty (q : Q) (s : SQ) (h : R q s) : (q.heap.size == 0) = s.pending.isEmpty := by
  have := h.2.1.length_eq
  simp only [Array.length_toList] at this
  cases hs : s.pending with
  | nil => simp [hs] at this; simp [this]
  | cons a r => simp [hs] at this; simp [this]

theorem R_pop_none (q : Q) (s : SQ) (h : R q s) (hq : q.heap.size = 0) :
    pop q = none ∧ sPop s = none := by
  have hl := h.2.1.length_eq
  simp only [Array.length_toList, hq] at hl
  have : s.pending = [] := List.length_eq_zero_iff.mp hl.symm
  constructor
  · simp [pop, hq]
  · simp [sPop, this, minTask]

theorem R_pop_some (q : Q) (s : SQ) (h : R q s) (hq : q.heap.size ≠ 0) :
    ∃ m q' s', pop q = some (m, q') ∧ sPop s = some (m, s') ∧ R q' s' := by
  obtain ⟨hc, hp, hh, hids⟩ := h
  have hsz : 0 < q.heap.size := by omega
  -- the spec side
  have hmem0 : g q.heap 0 ∈ s.pending := by
    rw [g_eq _ _ hsz]
    exact hp.mem_iff.mp (by simp)
  cases hm : minTask s.pending with
  | none =>
    have := minTask_none _ hm
    rw [this] at hmem0; simp at hmem0
  | some m =>
    obtain ⟨hm1, hm2⟩ := minTask_spec _ _ hm
    have hmq : m ∈ q.heap.toList := hp.mem_iff.mpr hm1
    obtain ⟨k, hk, hkm⟩ := List.getElem_of_mem hmq
    simp only [Array.length_toList] at hk
    have hkm' : g q.heap k = m := by rw [g_eq _ _ hk, ← hkm]; simp
    have hle1 : le (g q.heap 0) m := hkm' ▸ root_min _ _ hh k hk
    have hle2 : le m (g q.heap 0) := hm2 _ hmem0
    have hid := le_antisymm_id hle1 hle2
    have hroot : g q.heap 0 = m := List.inj_on_of_nodup_map hids.1 hmem0 hm1 hid
    -- the heap side
    let n := q.heap.size - 1
    let a0 := q.heap.swapIfInBounds 0 n
    let a1 := down a0.size a0 0 n
    have hn : n < q.heap.size := by omega
    have ha0 : a0.size = q.heap.size := by simp [a0]
    have ha1 : a1.size = q.heap.size := by simp [a1, down_size, a0]
    have hpop : pop q = some (g a1 n, { q with heap := a1.pop }) := by
      simp [pop, hq, g, a1, a0, n]
    have hlast : g a1 n = m := by
      rw [← hroot]
      show g (down a0.size a0 0 n) n = _
      rw [down_ge _ _ _ _ (by omega) _ (Nat.le_refl _)]
      show g (q.heap.swapIfInBounds 0 n) n = _
      rw [g_swap _ _ _ _ hsz hn]
      split
      · rename_i h0; rw [h0]
      · simp
    have hok1 : HeapOKn a1 n := by
      apply down_ok
      · omega
      · omega
      · constructor
        · intro k hk1 hk2 hk3
          show le (g (q.heap.swapIfInBounds 0 n) _) (g (q.heap.swapIfInBounds 0 n) _)
          rw [g_swap _ _ _ _ hsz hn, g_swap _ _ _ _ hsz hn]
          rw [if_neg hk3, if_neg (by omega), if_neg (by omega), if_neg (by omega)]
          exact hh k hk1 (by omega)
        · intro k _ _ _ h0; omega
    obtain ⟨ys, x, hys⟩ := Array.exists_push_of_size_pos (xs := a1) (by omega)
    have hysn : ys.size = n := by
      have := congrArg Array.size hys
      simp only [Array.size_push] at this; omega
    have hx : x = m := by
      rw [← hlast, hys, ← hysn, g_push_size]
    have hpop' : a1.pop = ys := by rw [hys]; simp
    refine ⟨m, { q with heap := a1.pop }, { s with pending := s.pending.erase m }, ?_, ?_, ?_⟩
    · rw [hpop, hlast]
    · simp [sPop, hm]
    · have hsp : sPop s = some (m, { s with pending := s.pending.erase m }) := by simp [sPop, hm]
      refine ⟨hc, ?_, ?_, (idsOK_pop s _ m hids hsp).1⟩
      · show a1.pop.toList.Perm (s.pending.erase m)
        rw [hpop']
        have h1 : a1.toList.Perm s.pending :=
          (Array.perm_iff_toList_perm.mp ((down_perm _ _ _ _).trans
            (by
              show (q.heap.swapIfInBounds 0 n).Perm q.heap
              rw [Array.swapIfInBounds_def]
              simp only [hsz, hn, dite_true]
              exact Array.swap_perm _ _))).trans hp
        rw [hys, Array.toList_push, hx] at h1
        have h2 : (m :: ys.toList).Perm s.pending := (List.perm_append_singleton m ys.toList).symm.trans h1
        have h3 := h2.erase m
        rw [List.erase_cons_head] at h3
        exact h3
      · show HeapOK a1.pop
        rw [hpop']
        intro k hk1 hk2
        have := hok1 k hk1 (by omega)
        rw [hys, g_push_lt _ _ _ (by omega), g_push_lt _ _ _ (by omega)] at this
        exact this

theorem run_eq (ops : List Op) : ∀ (q : Q) (s : SQ), R q s → run q ops = sRun s ops := by
  induction ops with
  | nil => intro q s _; rfl
  | cons op ops ih =>
    intro q s h
    cases op with
    | insert p sr t =>
      simp only [run, sRun, step, sStep]
      rw [ih _ _ (R_insert q s p sr t h)]
    | pop =>
      simp only [run, sRun, step, sStep]
      by_cases hq : q.heap.size = 0
      · obtain ⟨h1, h2⟩ := R_pop_none q s h hq
        simp only [h1, h2]
        rw [ih _ _ h]
      · obtain ⟨m, q', s', h1, h2, h3⟩ := R_pop_some q s h hq
        simp only [h1, h2]
        rw [ih _ _ h3]
    | isEmpty =>
      simp only [run, sRun, step, sStep]
      rw [R_isEmpty q s h, ih _ _ h]

theorem C10_refines : C10_full := by
  intro ops
  apply run_eq
  refine ⟨rfl, by simp, ?_, ?_⟩
  · intro k hk1 hk2; simp at hk2
  · constructor
    · simp
    · intro t ht; simp at ht

end Queue
