import Srsim.Spec.Proto
import Srsim.Proofs.NumRat
import Srsim.Proofs.SimFrame
/-!
# C11 — the engine performs what the script decided
-/
namespace Sim
variable {α : Type} [Num α]

/-- what `executeAction` does for a living character, in terms of the script's answers: the script
is asked exactly once more; the events added contain exactly one kind of action start, owned by
the character: a skill iff the script said skill and the team has its cost, otherwise an attack. -/
theorem C11_action (cfg : Cfg) (s : S α) (id : Int) (ins : Bool) (hc : isCharId cfg id = true) (ha : isAlive s id = true)
    (s' : S α) (h : executeAction cfg s id ins = some s') :
    s'.calls id = s.calls id + 1 ∧
    ∃ new, s'.evs = new ++ s.evs ∧
      (.actionStart id (if (cfg.next id (s.calls id)).typ = 1 ∧ s.sp ≥ (cfg.kind id).spNeed then 2 else 1) ins) ∈ new ∧
      ∀ o ty i, Ev.actionStart o ty i ∈ new →
        o = id ∧ i = ins ∧ ty = (if (cfg.next id (s.calls id)).typ = 1 ∧ s.sp ≥ (cfg.kind id).spNeed then 2 else 1) := by
  unfold executeAction at h
  rw [if_neg (by simp [ha]), if_pos hc] at h
  dsimp only at h
  split at h
  · cases h
  · next pt hev =>
    cases h
    have hty : ∀ x y : Nat, (if ((cfg.next id (s.calls id)).typ == 1 && decide (s.sp ≥ (cfg.kind id).spNeed)) = true then x else y) =
        (if (cfg.next id (s.calls id)).typ = 1 ∧ s.sp ≥ (cfg.kind id).spNeed then x else y) := by
      intro x y
      by_cases hP : (cfg.next id (s.calls id)).typ = 1 ∧ s.sp ≥ (cfg.kind id).spNeed
      · rw [if_pos hP, if_pos (by simp [hP.1, hP.2])]
      · rw [if_neg hP, if_neg (by simpa using hP)]
    rw [← hty]
    obtain ⟨hcalls, new, hevs, hmem, hall⟩ := action_shape cfg
      { s with calls := fun i => if i == id then s.calls id + 1 else s.calls i } id ins
      (if ((cfg.next id (s.calls id)).typ == 1 && decide (s.sp ≥ (cfg.kind id).spNeed)) = true then -(cfg.kind id).spNeed else (cfg.kind id).spAdd)
      (if ((cfg.next id (s.calls id)).typ == 1 && decide (s.sp ≥ (cfg.kind id).spNeed)) = true then 2 else 1)
      (if ((cfg.next id (s.calls id)).typ == 1 && decide (s.sp ≥ (cfg.kind id).spNeed)) = true then cfg.skillP id else cfg.attackP id) pt
    refine ⟨?_, new, hevs, hmem, hall⟩
    rw [hcalls]
    simp

/-- **Skill points**: right after the decision the skill's cost is deducted, or the attack's
points credited (within [0,5]). -/
theorem C11_sp (cfg : Cfg) (s : S α) (id : Int) (ins : Bool) (hc : isCharId cfg id = true) (ha : isAlive s id = true)
    (pt : Int) :
    let d0 := cfg.next id (s.calls id)
    let k := cfg.kind id
    let useSkill := d0.typ == 1 && decide (s.sp ≥ k.spNeed)
    let d := if d0.typ == 1 && !decide (s.sp ≥ k.spNeed) then cfg.dflt id else d0
    evaluate cfg { s with calls := fun i => if i == id then s.calls id + 1 else s.calls i } id d.ev (if useSkill then k.skillT else k.attackT) = some pt →
    (useSkill = true → 0 ≤ s.sp - k.spNeed) ∧
    (modifySP s (if useSkill then -k.spNeed else k.spAdd)).sp = clampSP (s.sp + (if useSkill then -k.spNeed else k.spAdd)) := by
  intro d0 k useSkill d _
  refine ⟨fun hu => ?_, ?_⟩
  · have h2 : s.sp ≥ k.spNeed := by
      simp only [useSkill, Bool.and_eq_true, decide_eq_true_eq] at hu
      exact hu.2
    omega
  · generalize (if useSkill = true then -k.spNeed else k.spAdd) = amt
    unfold modifySP
    split
    · next h => exact (eq_of_beq h).symm
    · rfl

/-- **Named target**: a named unit is accepted only if it exists, is alive and is on the right side. -/
theorem C11_named_target (cfg : Cfg) (s : S α) (src ev : Int) (tt : Nat) (pt : Int)
    (hev : ev ≠ 100 ∧ ev ≠ 101 ∧ ev ≠ 102) (h : evaluate cfg s src ev tt = some pt) :
    pt = ev ∧ isValidId cfg ev = true ∧ isAlive s ev = true ∧
    (tt = 2 → isCharId cfg ev = true) ∧ (tt = 3 → isCharId cfg ev = false) ∧ (tt = 1 → ev = src) := by
  obtain ⟨h1, h2, h3⟩ := hev
  unfold evaluate at h
  have h0 : (ev == 100 || ev == 101 || ev == 102) = false := by simp [h1, h2, h3]
  rw [if_neg (by simp [h0])] at h
  split_ifs at h with a b c d e f g i <;> simp_all

theorem lowestBy_mem (f : Int → α) (b : Int) (m : α) (cs : List Int) : lowestBy f b m cs ∈ b :: cs := by
  induction cs generalizing b m with
  | nil => simp [lowestBy]
  | cons c cs ih =>
    unfold lowestBy
    split
    · exact List.mem_cons_of_mem _ (ih c (f c))
    · rcases List.mem_cons.1 (ih b m) with h | h
      · rw [h]; simp
      · simp [h]

theorem lowestBy_min (f : Int → Rat) (b : Int) (m : Rat) (cs : List Int) (hm : m = f b) :
    lowestBy f b m cs ∈ b :: cs ∧ ∀ x ∈ b :: cs, f (lowestBy f b m cs) ≤ f x := by
  refine ⟨lowestBy_mem f b m cs, ?_⟩
  induction cs generalizing b m with
  | nil => simp [lowestBy]
  | cons c cs ih =>
    unfold lowestBy
    split
    · next hlt =>
      have hlt' : f c < f b := by rw [← hm]; exact hlt
      have := ih c (f c) rfl
      intro x hx
      rcases List.mem_cons.1 hx with rfl | hx
      · have := this c (by simp); linarith
      · exact this x hx
    · next hlt =>
      have hlt' : ¬ f c < f b := by rw [← hm]; exact hlt
      have := ih b m hm
      intro x hx
      rcases List.mem_cons.1 hx with rfl | hx
      · exact this _ (by simp)
      rcases List.mem_cons.1 hx with rfl | hx
      · have := this b (by simp); linarith
      · exact this x (by simp [hx])

/-- **Rule targets are candidates of the right side**: first / lowest HP / lowest ratio return a
member of the living list of the side the ability targets. -/
theorem C11_rule_target_side (cfg : Cfg) (s : S α) (src ev : Int) (tt : Nat) (pt : Int)
    (hev : ev = 100 ∨ ev = 101 ∨ ev = 102) (h : evaluate cfg s src ev tt = some pt) :
    (tt = 2 → pt ∈ s.chars) ∧ (tt = 3 → pt ∈ s.enemies) ∧ (tt = 1 → pt = src) := by
  unfold evaluate at h
  have hr : (ev == 100 || ev == 101 || ev == 102) = true := by
    rcases hev with h | h | h <;> simp [h]
  rw [if_pos hr] at h
  split at h
  · cases h
  · next htt =>
    have hm : pt ∈ (if tt == 2 then s.chars else if tt == 3 then s.enemies else [src]) := by
      generalize (if tt == 2 then s.chars else if tt == 3 then s.enemies else [src]) = L at h
      split at h
      · cases h
      · cases h; simp
      · split at h
        · cases h; simp
        · split at h
          · cases h; exact lowestBy_mem _ _ _ _
          · cases h
            have := lowestBy_mem (ratioOf s) ‹Int› (ratioOf s ‹Int›) (‹Int› :: ‹List Int›)
            simpa using this
    refine ⟨fun h2 => ?_, fun h3 => ?_, fun h1 => ?_⟩
    · subst h2; simpa using hm
    · subst h3; simpa using hm
    · subst h1; simpa using hm

/-- **First** is the first living unit of the side. -/
theorem C11_first (cfg : Cfg) (s : S α) (src : Int) (c : Int) (cs : List Int) (h : s.enemies = c :: cs) :
    evaluate cfg s src 100 3 = some c := by
  unfold evaluate
  cases cs <;> simp [h]

/-- **Lowest** (over `ℚ`): the unit returned by `lowestBy` minimises the measure over the
candidates, and is the earliest such candidate. -/
theorem C11_lowest (f : Int → Rat) (c : Int) (cs : List Int) :
    lowestBy f c (f c) cs ∈ c :: cs ∧ ∀ x ∈ c :: cs, f (lowestBy f c (f c) cs) ≤ f x := by
  exact lowestBy_min f c (f c) cs rfl

/-- (Specialised to `ℚ`: clamping the new energy `0` into `[0, maxEnergy]` needs the order axioms.)
**Ultimates**: after the script's answer to an ult check, a new ult task is queued only for a
character the script named whose energy was full, and that character's energy is then zero. -/
theorem C11_ult_gate (cfg : Cfg) (s : S Rat) (a : UltAsk) (u : U Rat)
    (hasks : cfg.ults s.ultCalls = [a]) (hc : isCharId cfg a.target = true) (hu : unitOf s a.target = some u)
    (hid : u.id = a.target) (herr : s.err = none) (hmax : (0 : Rat) ≤ u.maxEnergy) :
    (Num.eqb (u.energy / u.maxEnergy) 1 = false → (ultCheck cfg s).queue = s.queue ∧ (ultCheck cfg s).units = s.units) ∧
    (Num.eqb (u.energy / u.maxEnergy) 1 = true →
      (ultCheck cfg s).queue = s.queue ++ [⟨a.target, 500, s.seq, true, .ult a⟩] ∧
      (unitOf (ultCheck cfg s) a.target).map (·.energy) = some 0) := by
  have hu1 : unitOf { s with ultCalls := s.ultCalls + 1 } a.target = some u := hu
  have key : ultCheck cfg s = if Num.eqb (u.energy / u.maxEnergy) 1 = true
      then setEnergy (enqueue { s with ultCalls := s.ultCalls + 1 } a.target 500 true (.ult a)) a.target 0
      else { s with ultCalls := s.ultCalls + 1 } := by
    unfold ultCheck
    rw [hasks]
    simp only [List.foldl_cons, List.foldl_nil]
    split
    · next h => simp [herr] at h
    split
    · next h => simp [hc] at h
    split
    · next h => rw [hu1] at h; cases h
    · next u' h =>
      rw [hu1] at h; cases h
      rfl
  rw [key]
  constructor
  · intro hf
    rw [if_neg (by simp [hf])]
    exact ⟨rfl, rfl⟩
  · intro ht
    rw [if_pos ht]
    have hu2 : unitOf (enqueue { s with ultCalls := s.ultCalls + 1 } a.target 500 true (.ult a)) a.target = some u := hu
    have hq := (setEnergy_chars (enqueue { s with ultCalls := s.ultCalls + 1 } a.target 500 true (.ult a)) a.target 0).2.2.2
    refine ⟨by rw [hq]; rfl, ?_⟩
    have hnl : ¬ u.maxEnergy < 0 := not_lt.mpr hmax
    unfold setEnergy
    rw [hu2]
    simp only [Num.zero_rat, gt_iff_lt, hnl, ite_false, lt_self_iff_false]
    split
    · rw [unitOf_setUnit_eq _ u _ a.target hu2 (by exact hid)]; rfl
    · rw [unitOf_emit, unitOf_setUnit_eq _ u _ a.target hu2 (by exact hid)]; rfl


end Sim
