import Srsim.Spec.Proto
/-! placeholder, replaced by the full theorem file once its proofs are in -/
namespace Proto
theorem C11_monitor_rejects_after_termination :
    step (α := Rat) { stage := 13 } (.phase1End) = none := by decide
end Proto
