import Srsim.Spec.AggSpec
/-! placeholder, replaced by the full theorem file once its proofs are in -/
namespace Agg
theorem C19_empty_sample (m : MathFns Rat) : (toOver m []).isOk = true := rfl
end Agg
