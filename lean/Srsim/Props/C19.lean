import Srsim.Spec.AggSpec
import Srsim.Proofs.NumRat
import Srsim.Proofs.AggSort
import Srsim.Proofs.AggStream
import Srsim.Proofs.AggHist
import Srsim.Proofs.AggOver
import Srsim.Proofs.AggBuf
import Mathlib.Data.List.Perm.Basic
/-!
# C19 — Aggregated statistics describe exactly the iterations that ran

Theorems about `Agg.toOver`, `Agg.Stream`, `Agg.Buf` (model of `pkg/statistics/agg` and of the
go-moremath functions it uses) at `α := ℚ`.  Tie: `Driver/C19.lean`.
-/
namespace Agg

/-- sorting forgets the arrival order -/
theorem C19_sort_perm (l₁ l₂ : List Rat) (h : l₁.Perm l₂) : sortF l₁ = sortF l₂ :=
  sortF_eq_of_perm l₁ l₂ h

/-- **Overview statistics are functions of the multiset**: count, minimum, maximum, mean,
deviation, quartiles and histogram of a sample do not depend on the arrival order (for every
`sqrt` / cube-root function). -/
theorem C19_over_perm (m : MathFns Rat) (l₁ l₂ : List Rat) (h : l₁.Perm l₂) : toOver m l₁ = toOver m l₂ :=
  over_perm m l₁ l₂ h

/-- the streaming statistics count the values, sum them, and track minimum and maximum -/
theorem C19_stream_basic (l : List Rat) :
    (Stream.ofList l).count = l.length ∧ (Stream.ofList l).total = sumL l ∧
    (∀ x ∈ l, (Stream.ofList l).min ≤ x ∧ x ≤ (Stream.ofList l).max) ∧
    (l ≠ [] → (Stream.ofList l).min ∈ l ∧ (Stream.ofList l).max ∈ l) :=
  ⟨stream_count l, stream_total l, (stream_minmax l).1, (stream_minmax l).2⟩

/-- Welford's online mean is the arithmetic mean (exact arithmetic) -/
theorem C19_stream_mean (l : List Rat) (h : l ≠ []) : (Stream.ofList l).mean = sumL l / (l.length : Rat) :=
  stream_mean l h

/-- Welford's `M2` is the sum of squared deviations, written Σx² − n·mean² (exact arithmetic) -/
theorem C19_stream_m2 (l : List Rat) :
    (Stream.ofList l).vM2 = sumL (l.map fun x => x * x) - (l.length : Rat) * ((Stream.ofList l).mean * (Stream.ofList l).mean) :=
  stream_m2 l

/-- **Streaming statistics are functions of the multiset** (in exact arithmetic: the
floating-point implementation differs by rounding only). -/
theorem C19_stream_perm (l₁ l₂ : List Rat) (h : l₁.Perm l₂) : Stream.ofList l₁ = Stream.ofList l₂ := by
  by_cases h1 : l₁ = []
  · subst h1
    rw [h.symm.eq_nil]
  · have h2 : l₂ ≠ [] := fun e => h1 (by subst e; exact h.eq_nil)
    have hc : (Stream.ofList l₁).count = (Stream.ofList l₂).count := by
      rw [stream_count, stream_count, h.length_eq]
    have ht : (Stream.ofList l₁).total = (Stream.ofList l₂).total := by
      rw [stream_total, stream_total, sumL_perm h]
    have hmean : (Stream.ofList l₁).mean = (Stream.ofList l₂).mean := by
      rw [stream_mean l₁ h1, stream_mean l₂ h2, sumL_perm h, h.length_eq]
    have hm2 : (Stream.ofList l₁).vM2 = (Stream.ofList l₂).vM2 := by
      rw [stream_m2 l₁, stream_m2 l₂, hmean, h.length_eq, sumL_perm (h.map _)]
    obtain ⟨a1, b1⟩ := stream_minmax l₁
    obtain ⟨a2, b2⟩ := stream_minmax l₂
    obtain ⟨mn1, mx1⟩ := b1 h1
    obtain ⟨mn2, mx2⟩ := b2 h2
    have hmin : (Stream.ofList l₁).min = (Stream.ofList l₂).min :=
      le_antisymm (a1 _ (h.symm.subset mn2)).1 (a2 _ (h.subset mn1)).1
    have hmax : (Stream.ofList l₁).max = (Stream.ofList l₂).max :=
      le_antisymm (a2 _ (h.subset mx1)).2 (a1 _ (h.symm.subset mx2)).2
    cases hs1 : Stream.ofList l₁
    cases hs2 : Stream.ofList l₂
    simp only [hs1, hs2] at hc ht hmean hm2 hmin hmax
    simp only [Stream.mk.injEq]
    exact ⟨hc, ht, hmin, hmax, hmean, hm2⟩

/-- the incremental mean and Welford variance used for samples are the textbook ones -/
theorem C19_meanInc (l : List Rat) (h : l ≠ []) : meanInc l = sumL l / (l.length : Rat) := by
  rw [meanInc_eq, stream_mean l h]

theorem C19_variance (l : List Rat) (h : 2 ≤ l.length) :
    variance l = (sumL (l.map fun x => x * x) - (l.length : Rat) * (meanInc l * meanInc l)) / ((l.length : Rat) - 1) := by
  unfold variance
  rw [if_neg (by omega), welford_eq, meanInc_eq, ← stream_m2, ofN_rat]
  congr 1
  have : 1 ≤ l.length := by omega
  push_cast [this]
  rfl

/-- **Histogram sum**: for every positive number of bins, every bound pair and every list of
values the bin counts add up to the number of values. -/
theorem C19_hist_sum (mn mx : Rat) (nbins : Nat) (hn : 0 < nbins) (l : List Rat) :
    histSum (histCounts mn mx nbins l) = l.length :=
  hist_sum mn mx nbins hn l

/-- every histogram reported by `toOver` sums to the number of values it summarises -/
theorem C19_over_hist_sum (m : MathFns Rat) (xs : List Rat) (o : Over Rat) (h : toOver m xs = .ok o) :
    histSum o.hist = xs.length :=
  over_hist_sum m xs o h

/-- **No crash**: `toOver` never reaches the `make` with a non-positive length — for every list
of values (empty, single, identical, zero, …), provided `sqrt` and the cube root have the signs
of the real functions. -/
theorem C19_no_crash (m : MathFns Rat) (hm : MathOK m) (xs : List Rat) : (toOver m xs).isOk = true :=
  no_crash m hm xs

/-- **Per cycle**: after any batch of results, in any order, the sample of cycle `i` consists of
exactly the `i`-th increments of the iterations whose series reaches cycle `i` (in arrival
order); a cycle nobody reached has the empty sample. -/
theorem C19_per_cycle (c : Nat) (rs : List (IterRes Rat)) (i : Nat) :
    (rs.foldl Buf.add (Buf.init c)).cumDealt.getD i [] = rs.filterMap (fun r => (increments 0 r.cumDealt)[i]?) ∧
    (rs.foldl Buf.add (Buf.init c)).cumTaken.getD i [] = rs.filterMap (fun r => (increments 0 r.cumTaken)[i]?) := by
  constructor
  · rw [foldl_cumDealt, show (Buf.init c : Buf Rat).cumDealt = List.replicate c [] from rfl,
      replicate_nil_getD, List.nil_append]
  · rw [foldl_cumTaken, show (Buf.init c : Buf Rat).cumTaken = List.replicate c [] from rfl,
      replicate_nil_getD, List.nil_append]

/-- the number of iterations and the damage-per-cycle sample cover every added result once -/
theorem C19_counts (c : Nat) (rs : List (IterRes Rat)) :
    (rs.foldl Buf.add (Buf.init c)).completed = rs.length ∧
    (rs.foldl Buf.add (Buf.init c)).dpc = rs.map (fun r => r.dealt * 100 / r.av) := by
  constructor
  · rw [foldl_completed]; simp [Buf.init]
  · rw [foldl_dpc]; simp [Buf.init]

/-- the per-cycle increments add back up to the cumulative series -/
theorem C19_increments_sum (s : List Rat) (last : Rat) :
    last + sumL (increments last s) = s.getLastD last :=
  increments_sum s last

end Agg
