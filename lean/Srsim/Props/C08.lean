import Srsim.Spec.Proto
import Srsim.Proofs.SimLemmas
/-!
# C08 — death is final and the dead do not act

Lemmas about the battle-driver model `Sim` (see `Model/Sim.lean`), for every state, content and oracle.
-/
namespace Sim
variable {α : Type} [Num α]

/-- **The dead stay dead**: an HP change on a unit that is dead (reached zero, no revive) changes
nothing and emits nothing — it cannot be healed back before (or after) it is announced. -/
theorem C08_dead_final (s : S α) (t : Int) (r : α) (src : Int) (dmg : Bool) (h : lifeOf s t = 1) :
    hpSet s t r src dmg = s := by
  unfold lifeOf at h
  unfold hpSet
  split
  · rfl
  · next u hu =>
    rw [hu] at h
    simp only at h
    simp [h]

/-- **Reaching zero**: when a living unit's ratio goes to a non-positive value, it becomes dead
(no revive) or is held in limbo (revive) and the revive's heal is queued; a damaging change
records the attacker as last attacker. -/
theorem C08_reaching_zero (s : S α) (t : Int) (u : U α) (r : α) (src : Int) (dmg : Bool)
    (hu : unitOf s t = some u) (hl : u.life ≠ 1) (hne : Num.eqb u.ratio r = false) (hr : ¬ (0 : α) < r)
    (hid : u.id = t) :
    unitOf (hpSet s t r src dmg) t =
      some { u with ratio := r, lastAtk := if dmg then src else u.lastAtk, life := if u.revive then 2 else 1 } ∧
    (u.revive = false → (hpSet s t r src dmg).queue = s.queue) := by
  have hl' : (u.life == 1) = false := by simpa using hl
  unfold hpSet
  rw [hu]
  simp only [hl', hne, Bool.false_eq_true, ite_false, if_neg hr]
  cases hrev : u.revive
  · simp only [Bool.false_eq_true, ite_false, unitOf_emit]
    refine ⟨?_, fun _ => rfl⟩
    exact unitOf_setUnit_eq s u _ t hu hid
  · simp only [ite_true, unitOf_emit, unitOf_enqueue]
    refine ⟨?_, fun h => by simp at h⟩
    exact unitOf_setUnit_eq s u _ t hu hid

/-- units that a death check removes -/
def dying (s : S α) (killLimbo : Bool) : List Int :=
  s.chars.filter (willDie s killLimbo) ++ s.enemies.filter (willDie s killLimbo)

/-- **Death check, lists**: exactly the units that are dead (and, at the end of the turn, those
still in limbo) leave the lists of living characters and enemies; the others stay, in order. -/
theorem C08_deathCheck_lists (s : S α) (killLimbo : Bool) :
    (deathCheck s killLimbo).chars = s.chars.filter (fun id => !willDie s killLimbo id) ∧
    (deathCheck s killLimbo).enemies = s.enemies.filter (fun id => !willDie s killLimbo id) := by
  rw [deathCheck_eq]
  exact dfold_chars _ _

/-- **Death check, announcements**: the events added are, for each removed unit in order, possibly
an energy change of the killer followed by exactly one `death` event naming the unit's last
attacker; nothing else. -/
def announces (s : S α) (evsNew : List (Ev α)) (ts : List Int) : Prop :=
  (evsNew.filterMap fun e => match e with | .death t _ => some t | _ => none) = ts ∧
  (∀ e ∈ evsNew, (∃ t k, e = .death t k) ∨ (∃ t o n, e = .energy t o n)) ∧
  (∀ t k, Ev.death t k ∈ evsNew → k = killerOf s t)

theorem dfold_announces (ts : List Int) (s : S α) :
    ∃ evsNew, (ts.foldl dstep s).evs = evsNew.reverse ++ s.evs ∧ announces s evsNew ts := by
  induction ts generalizing s with
  | nil => exact ⟨[], rfl, rfl, by simp, by simp⟩
  | cons a rest ih =>
    obtain ⟨new', h1, h2, h3, h4⟩ := ih (dstep s a)
    simp only [List.foldl_cons]
    rcases dstep_evs s a with he | ⟨k, o, n, he⟩
    · refine ⟨.death a (killerOf s a) :: new', ?_, ?_, ?_, ?_⟩
      · rw [h1, he]; simp
      · simp [h2]
      · intro e hm
        rcases List.mem_cons.1 hm with rfl | hm
        · exact Or.inl ⟨_, _, rfl⟩
        · exact h3 e hm
      · intro t k hm
        rcases List.mem_cons.1 hm with heq | hm
        · cases heq; rfl
        · rw [h4 t k hm, dstep_killerOf]
    · refine ⟨.energy k o n :: .death a (killerOf s a) :: new', ?_, ?_, ?_, ?_⟩
      · rw [h1, he]; simp
      · simp [h2]
      · intro e hm
        rcases List.mem_cons.1 hm with rfl | hm
        · exact Or.inr ⟨_, _, _, rfl⟩
        rcases List.mem_cons.1 hm with rfl | hm
        · exact Or.inl ⟨_, _, rfl⟩
        · exact h3 e hm
      · intro t k' hm
        rcases List.mem_cons.1 hm with heq | hm
        · cases heq
        rcases List.mem_cons.1 hm with heq | hm
        · cases heq; rfl
        · rw [h4 t k' hm, dstep_killerOf]

theorem C08_deathCheck_announces (s : S α) (killLimbo : Bool) :
    ∃ evsNew, (deathCheck s killLimbo).evs = evsNew.reverse ++ s.evs ∧ announces s evsNew (dying s killLimbo) := by
  rw [deathCheck_eq]
  obtain ⟨new, h1, h2⟩ := dfold_announces (dying s killLimbo)
    { s with chars := s.chars.filter (fun id => !willDie s killLimbo id),
             enemies := s.enemies.filter (fun id => !willDie s killLimbo id) }
  exact ⟨new, h1, h2⟩

/-- **Limbo is kept during the turn and ends with it**: a mid-turn death check never removes a
unit in limbo; the end-of-turn check removes it. A living unit is never removed. -/
theorem C08_limbo (s : S α) (id : Int) :
    (lifeOf s id = 2 → willDie s false id = false ∧ willDie s true id = true) ∧
    (lifeOf s id = 0 → ∀ b, willDie s b id = false) ∧
    (lifeOf s id = 1 → ∀ b, willDie s b id = true) := by
  unfold willDie
  refine ⟨fun h => ?_, fun h b => ?_, fun h b => ?_⟩ <;> rw [h] <;> simp

/-- **Removed from the turn order**: after a death check no removed unit is in the turn order
(so it can never be the acting unit of a later turn). -/
theorem C08_deathCheck_order (s : S α) (killLimbo : Bool) (t : Int) (ht : t ∈ dying s killLimbo)
    (hn : (s.turn.order.map (·.1)).Nodup) :
    ∀ p ∈ (deathCheck s killLimbo).turn.order, p.1 ≠ t := by
  rw [deathCheck_eq, dfold_order]
  exact erase_fold_not_mem _ _ t ht hn

/-- **The dead do not act**: executing the action of a unit that is not alive does nothing. -/
theorem C08_no_action (cfg : Cfg) (s : S α) (id : Int) (ins : Bool) (h : isAlive s id = false) :
    executeAction cfg s id ins = some s := by
  unfold executeAction
  simp [h]

/-- **Queued tasks of the dead are dropped**: when the task the queue would take next belongs to a
unit that is dead or no longer on the field, it is discarded without executing anything. -/
theorem C08_queue_drops (cfg : Cfg) (f : Nat) (s : S α) (t : Task) (q : List Task)
    (hp : popMin s.queue = some (t, q)) (hx : exitReason cfg s = none)
    (hd : lifeOf s t.src = 1 ∨ (t.src ∉ s.chars ∧ t.src ∉ s.enemies)) :
    queueLoop cfg (f + 1) s = queueLoop cfg f { s with queue := q } := by
  rw [queueLoop]
  simp only [hp, hx, Option.isSome_none, Bool.false_eq_true, ite_false]
  have : (lifeOf s t.src == 1 || !(s.chars.contains t.src || s.enemies.contains t.src)) = true := by
    rcases hd with h | ⟨h1, h2⟩
    · simp [h]
    · simp [h1, h2]
  rw [if_pos this]

/-- **Killer**: a hit that changes the defender's ratio makes the attacker its last attacker. -/
theorem C08_killer (cfg : Cfg) (s : S α) (src tgt : Int) (u : U α) (hu : unitOf s tgt = some u) (hid : u.id = tgt)
    (hl : u.life ≠ 1) (hne : Num.eqb u.ratio (s.hitO s.hitN).2 = false) :
    (unitOf (hit cfg s src tgt) tgt).map (·.lastAtk) = some src := by
  unfold hit
  simp only [unitOf_emit, unitOf_collect]
  have hl' : (u.life == 1) = false := by simpa using hl
  have hu' : unitOf (emit { s with hitN := s.hitN + 1 } (.hitStart src tgt)) tgt = some u := hu
  unfold hpSet
  rw [hu']
  simp only [hl', hne, Bool.false_eq_true, ite_false]
  split
  · rw [unitOf_emit, unitOf_setUnit_eq _ u _ tgt hu' (by exact hid)]; rfl
  · split
    · rw [unitOf_emit, unitOf_enqueue, unitOf_emit, unitOf_setUnit_eq _ u _ tgt hu' (by exact hid)]; rfl
    · rw [unitOf_emit, unitOf_emit, unitOf_setUnit_eq _ u _ tgt hu' (by exact hid)]; rfl

end Sim
