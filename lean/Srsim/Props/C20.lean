import Srsim.Model.Validate
import Srsim.Model.Sim
/-!
# C20 — valid configurations run to completion, unknown keys are rejected

What the proof technique carries for this property is the configuration check (a configuration is
accepted iff every key it names is registered, and the complaint names an unknown key of the
configuration) and the totality of the battle-driver model (every partial operation of the Go
driver — indexing the living lists, popping the queue, looking a unit up — is guarded in the
model, and the correspondence runs show that the implementation does not panic where the model
is defined).  That registered content itself never panics and always terminates is NOT proved:
the content packages are not modelled; they are swept by the search tier (see DESIGN.md).
-/
namespace Validate

theorem checkChar_none (r : Reg) (c : CharCfg) :
    checkChar r c = none ↔ c.key ∈ r.chars ∧ c.lc ∈ r.lcs ∧ ∀ k ∈ c.relics, k ∈ r.relics := by
  unfold checkChar
  by_cases h1 : c.key ∈ r.chars
  · by_cases h2 : c.lc ∈ r.lcs
    · simp only [h1, h2, not_true_eq_false, if_false, true_and]
      cases h : c.relics.find? (fun k => decide (k ∉ r.relics)) with
      | none =>
        simp only [true_iff]
        intro k hk
        have := List.find?_eq_none.mp h k hk
        simpa using this
      | some k =>
        simp only [reduceCtorEq, false_iff]
        intro hall
        have hk := List.mem_of_find?_eq_some h
        have hp := List.find?_some h
        simp only [decide_eq_true_eq] at hp
        exact hp (hall k hk)
    · simp [h1, h2]
  · simp [h1]

theorem find_unknown_none (l reg : List String) :
    l.find? (fun k => decide (k ∉ reg)) = none ↔ ∀ k ∈ l, k ∈ reg := by
  constructor
  · intro h k hk
    have := List.find?_eq_none.mp h k hk
    simpa using this
  · intro h
    apply List.find?_eq_none.mpr
    intro k hk
    simpa using h k hk

/-- **Accepted iff every key is registered.** -/
theorem C20_accepts_iff (r : Reg) (c : Cfg) : validate r c = none ↔ AllKnown r c := by
  unfold validate AllKnown
  cases h : c.chars.findSome? (checkChar r) with
  | some b =>
    simp only [reduceCtorEq, false_iff]
    intro hall
    obtain ⟨ch, hch, hb⟩ := List.exists_of_findSome?_eq_some h
    have := (checkChar_none r ch).mpr (hall.1 ch hch)
    rw [this] at hb; cases hb
  | none =>
    have hc : ∀ ch ∈ c.chars, checkChar r ch = none := by
      intro ch hch
      exact List.findSome?_eq_none_iff.mp h ch hch
    cases he : c.enemies.find? (fun k => decide (k ∉ r.enemies)) with
    | none =>
      simp only [true_iff]
      exact ⟨fun ch hch => (checkChar_none r ch).mp (hc ch hch), (find_unknown_none _ _).mp he⟩
    | some k =>
      simp only [reduceCtorEq, false_iff]
      intro hall
      have hp := List.find?_some he
      simp only [decide_eq_true_eq] at hp
      exact hp (hall.2 k (List.mem_of_find?_eq_some he))

/-- **A rejection names an unknown key of the configuration.** -/
theorem C20_rejection_names_unknown (r : Reg) (c : Cfg) (b : Bad) (h : validate r c = some b) :
    match b with
    | .character k => k ∉ r.chars ∧ ∃ ch ∈ c.chars, ch.key = k
    | .lightcone k => k ∉ r.lcs ∧ ∃ ch ∈ c.chars, ch.lc = k
    | .relic k => k ∉ r.relics ∧ ∃ ch ∈ c.chars, k ∈ ch.relics
    | .enemy k => k ∉ r.enemies ∧ k ∈ c.enemies := by
  unfold validate at h
  cases hf : c.chars.findSome? (checkChar r) with
  | some b' =>
    rw [hf] at h
    simp only [Option.some.injEq] at h
    subst h
    obtain ⟨ch, hch, hb⟩ := List.exists_of_findSome?_eq_some hf
    unfold checkChar at hb
    by_cases h1 : ch.key ∈ r.chars
    · by_cases h2 : ch.lc ∈ r.lcs
      · simp only [h1, h2, not_true_eq_false, if_false] at hb
        cases hr : ch.relics.find? (fun k => decide (k ∉ r.relics)) with
        | none => rw [hr] at hb; cases hb
        | some k =>
          rw [hr] at hb
          simp only [Option.some.injEq] at hb
          subst hb
          have hp := List.find?_some hr
          simp only [decide_eq_true_eq] at hp
          exact ⟨hp, ch, hch, List.mem_of_find?_eq_some hr⟩
      · simp only [h1, h2, not_true_eq_false, if_false, not_false_eq_true, if_true, Option.some.injEq] at hb
        subst hb
        exact ⟨h2, ch, hch, rfl⟩
    · simp only [h1, not_false_eq_true, if_true, Option.some.injEq] at hb
      subst hb
      exact ⟨h1, ch, hch, rfl⟩
  | none =>
    rw [hf] at h
    cases he : c.enemies.find? (fun k => decide (k ∉ r.enemies)) with
    | none => rw [he] at h; cases h
    | some k =>
      rw [he] at h
      simp only [Option.some.injEq] at h
      subst h
      have hp := List.find?_some he
      simp only [decide_eq_true_eq] at hp
      exact ⟨hp, List.mem_of_find?_eq_some he⟩

example : validate ⟨["a"], ["l"], ["r"], ["e"]⟩ ⟨[⟨"a", "l", ["r", "x"]⟩], ["e"]⟩ = some (.relic "x") := by decide
example : validate ⟨["a"], ["l"], ["r"], ["e"]⟩ ⟨[⟨"a", "l", ["r"]⟩], ["e"]⟩ = none := by decide

end Validate

namespace Sim
variable {α : Type} [Num α]

theorem turns_stopped (cfg : Cfg) (q : Nat) : ∀ (f : Nat) (s : S α), stopped (turns cfg q f s) = true
  | 0, s => by
    unfold turns
    by_cases h : stopped s = true
    · simp [h]
    · rw [if_neg h]
      simp [stopped]
  | f + 1, s => by
    unfold turns
    by_cases h : stopped s = true
    · simp [h]
    · simp only [h, Bool.false_eq_true, if_false]
      exact turns_stopped cfg q f _

/-- **The driver model never gets stuck**: with any fuel, a run ends either terminated (a result
is returned) or with an error (including "fuel": the bound on turns or queued tasks was hit);
there is no third outcome and no partial operation. -/
theorem C20_model_stops (cfg : Cfg) (fuel qfuel : Nat) (s : S α) : stopped (run cfg fuel qfuel s) = true := by
  unfold run
  by_cases h : stopped (start cfg s) = true
  · simp [h]
  · simp only [h, Bool.false_eq_true, if_false]
    exact turns_stopped cfg qfuel fuel _

end Sim
