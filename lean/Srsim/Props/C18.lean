import Srsim.Spec.HandlerSpec
import Mathlib.Data.List.Perm.Basic
import Mathlib.Tactic.Linarith
/-!
# C18 — Event delivery is complete, ordered and logged once

Theorems about `Handler.emit` / `Handler.step` (model of the four generic handlers and of the
logging hook).  Tie: `Driver/C18.lean`.
-/
namespace Handler

/-! ### nesting depth: everything a nested emission outputs is deeper -/

theorem callsAt_append (d : Nat) (a b : List Out) : callsAt d (a ++ b) = callsAt d a ++ callsAt d b := by
  simp [callsAt]
theorem logsAt_append (d : Nat) (a b : List Out) : logsAt d (a ++ b) = logsAt d a ++ logsAt d b := by
  simp [logsAt]

theorem callsAt_deeper (d : Nat) (o : List Out) (h : ∀ e ∈ o, depthGe (d + 1) e) : callsAt d o = [] := by
  unfold callsAt
  rw [List.filterMap_eq_nil_iff]
  intro e he
  have := h e he
  cases e <;> simp [depthGe] at this ⊢
  omega

theorem logsAt_deeper (d : Nat) (o : List Out) (h : ∀ e ∈ o, depthGe (d + 1) e) : logsAt d o = [] := by
  unfold logsAt
  rw [List.filterMap_eq_nil_iff]
  intro e he
  have := h e he
  cases e <;> simp [depthGe] at this ⊢
  omega

/-- a listener's script: outputs are exactly the nested emissions' outputs; the payload changes
by the `mut`s honoured; the script cancels iff it contains an honoured `cancel`. -/
theorem runScript_spec (nested : Nat → Int → Option (List Out × Bool)) (d kind : Nat)
    (hn : ∀ h y o c, nested h y = some (o, c) → ∀ e ∈ o, depthGe (d + 1) e) :
    ∀ (sc : List Act) (x : Int) (o : List Out) (x' : Int) (c : Bool),
      runScript nested kind sc x = some (o, x', c) →
        (∀ e ∈ o, depthGe (d + 1) e) ∧
        x' = x + (if kind = 2 then mutSum sc else 0) ∧ c = (kind == 3 && sc.contains Act.cancel) := by
  intro sc
  induction sc with
  | nil =>
    intro x o x' c h
    simp only [runScript, Option.some.injEq, Prod.mk.injEq] at h
    obtain ⟨rfl, rfl, rfl⟩ := h
    simp [mutSum]
  | cons a rest ih =>
    intro x o x' c h
    cases a with
    | mutate k =>
      simp only [runScript] at h
      obtain ⟨h1, h2, h3⟩ := ih _ _ _ _ h
      refine ⟨h1, ?_, ?_⟩
      · by_cases hk : kind = 2
        · simp [hk, mutSum] at h2 ⊢; omega
        · have : (kind == 2) = false := by simpa using hk
          simp [hk, this, mutSum] at h2 ⊢; exact h2
      · simp [h3]
    | cancel =>
      simp only [runScript] at h
      by_cases hk : kind = 3
      · simp [hk] at h
        obtain ⟨rfl, rfl, rfl⟩ := h
        simp [hk, mutSum]
      · have : (kind == 3) = false := by simpa using hk
        simp only [this, Bool.false_eq_true, if_false] at h
        obtain ⟨h1, h2, h3⟩ := ih _ _ _ _ h
        exact ⟨h1, by simpa [mutSum] using h2, by simp [this, h3]⟩
    | emit h' y =>
      simp only [runScript] at h
      cases hnest : nested h' y with
      | none => simp [hnest] at h
      | some p =>
        obtain ⟨o1, c1⟩ := p
        simp only [hnest] at h
        cases hrest : runScript nested kind rest x with
        | none => simp [hrest] at h
        | some q =>
          obtain ⟨o2, x2, c2⟩ := q
          simp only [hrest, Option.some.injEq, Prod.mk.injEq] at h
          obtain ⟨rfl, rfl, rfl⟩ := h
          obtain ⟨h1, h2, h3⟩ := ih _ _ _ _ hrest
          refine ⟨?_, by simpa [mutSum] using h2, by simp [h3]⟩
          intro e he
          rcases List.mem_append.mp he with he | he
          · exact hn _ _ _ _ hnest e he
          · exact h1 e he
    | emitDec h' =>
      simp only [runScript] at h
      by_cases hx : x > 0
      · simp only [hx, if_true] at h
        cases hnest : nested h' (x - 1) with
        | none => simp [hnest] at h
        | some p =>
          obtain ⟨o1, c1⟩ := p
          simp only [hnest] at h
          cases hrest : runScript nested kind rest x with
          | none => simp [hrest] at h
          | some q =>
            obtain ⟨o2, x2, c2⟩ := q
            simp only [hrest, Option.some.injEq, Prod.mk.injEq] at h
            obtain ⟨rfl, rfl, rfl⟩ := h
            obtain ⟨h1, h2, h3⟩ := ih _ _ _ _ hrest
            refine ⟨?_, by simpa [mutSum] using h2, by simp [h3]⟩
            intro e he
            rcases List.mem_append.mp he with he | he
            · exact hn _ _ _ _ hnest e he
            · exact h1 e he
      · simp only [hx, if_false] at h
        obtain ⟨h1, h2, h3⟩ := ih _ _ _ _ h
        exact ⟨h1, by simpa [mutSum] using h2, by simp [h3]⟩

theorem cancelsL_eq (kind : Nat) (l : L) : cancelsL kind l = (kind == 3 && l.script.contains Act.cancel) := rfl

/-- **Delivery**: the calls made at this emission's own depth are exactly the specification's:
each listener once, in list order, with threaded payload, stopping after the first canceller;
everything else in the output is deeper (nested emissions). -/
theorem runListeners_spec (nested : Nat → Int → Option (List Out × Bool)) (d h kind : Nat)
    (hn : ∀ h y o c, nested h y = some (o, c) → ∀ e ∈ o, depthGe (d + 1) e) :
    ∀ (ls : List L) (x : Int) (o : List Out) (x' : Int) (c : Bool),
      runListeners nested d h kind ls x = some (o, x', c) →
        callsAt d o = expectCalls kind x ls ∧ logsAt d o = [] ∧
        x' = finalPayload kind x ls ∧ c = anyCancels kind ls ∧ (∀ e ∈ o, depthGe d e) := by
  intro ls
  induction ls with
  | nil =>
    intro x o x' c hr
    simp only [runListeners, Option.some.injEq, Prod.mk.injEq] at hr
    obtain ⟨rfl, rfl, rfl⟩ := hr
    simp [callsAt, logsAt, expectCalls, finalPayload, anyCancels]
  | cons l rest ih =>
    intro x o x' c hr
    simp only [runListeners] at hr
    cases hs : runScript nested kind l.script x with
    | none => simp [hs] at hr
    | some p =>
      obtain ⟨o1, x1, c1⟩ := p
      obtain ⟨hdeep, hx1, hc1⟩ := runScript_spec nested d kind hn _ _ _ _ _ hs
      have hdelta : x1 = x + deltaL kind l := by
        rw [hx1]; unfold deltaL; by_cases hk : kind = 2 <;> simp [hk]
      have hcl : c1 = cancelsL kind l := hc1
      simp only [hs] at hr
      have hge : ∀ e ∈ o1, depthGe d e := by
        intro e he; have := hdeep e he
        cases e <;> simp [depthGe] at this ⊢ <;> omega
      by_cases hc : c1 = true
      · simp only [hc, if_true, Option.some.injEq, Prod.mk.injEq] at hr
        obtain ⟨rfl, rfl, rfl⟩ := hr
        have hcl' : cancelsL kind l = true := by rw [← hcl]; exact hc
        refine ⟨?_, ?_, ?_, ?_, ?_⟩
        · show callsAt d ([Out.call d h l.lid x] ++ o1) = _
          rw [callsAt_append, callsAt_deeper d o1 hdeep]
          simp [callsAt, expectCalls, hcl']
        · show logsAt d ([Out.call d h l.lid x] ++ o1) = _
          rw [logsAt_append, logsAt_deeper d o1 hdeep]; simp [logsAt]
        · simp [finalPayload, hcl', hdelta]
        · simp [anyCancels, hcl']
        · intro e he
          rcases List.mem_cons.mp he with rfl | he
          · simp [depthGe]
          · exact hge e he
      · have hcf : c1 = false := by simpa using hc
        have hcl' : cancelsL kind l = false := by rw [← hcl]; exact hcf
        simp only [hcf, Bool.false_eq_true, if_false] at hr
        cases hrest : runListeners nested d h kind rest x1 with
        | none => simp [hrest] at hr
        | some q =>
          obtain ⟨o2, x2, c2⟩ := q
          simp only [hrest, Option.some.injEq, Prod.mk.injEq] at hr
          obtain ⟨rfl, rfl, rfl⟩ := hr
          obtain ⟨i1, i2, i3, i4, i5⟩ := ih _ _ _ _ hrest
          refine ⟨?_, ?_, ?_, ?_, ?_⟩
          · show callsAt d ([Out.call d h l.lid x] ++ (o1 ++ o2)) = _
            rw [callsAt_append, callsAt_append, callsAt_deeper d o1 hdeep, i1]
            simp [callsAt, expectCalls, hcl', hdelta]
          · show logsAt d ([Out.call d h l.lid x] ++ (o1 ++ o2)) = _
            rw [logsAt_append, logsAt_append, logsAt_deeper d o1 hdeep, i2]; simp [logsAt]
          · simp [finalPayload, hcl', i3, hdelta]
          · simp [anyCancels, hcl', i4]
          · intro e he
            rcases List.mem_cons.mp he with rfl | he
            · simp [depthGe]
            · rcases List.mem_append.mp he with he | he
              · exact hge e he
              · exact i5 e he

/-- every output of an emission started at depth `d` has depth ≥ `d` -/
theorem emit_depth : ∀ (f : Nat) (t : Table) (d h : Nat) (x : Int) (o : List Out) (c : Bool),
    emit f t d h x = some (o, c) → ∀ e ∈ o, depthGe d e := by
  intro f
  induction f with
  | zero => intro t d h x o c he; simp [emit] at he
  | succ f ih =>
    intro t d h x o c he
    simp only [emit] at he
    cases ht : t[h]? with
    | none =>
      simp only [ht, Option.some.injEq, Prod.mk.injEq] at he
      obtain ⟨rfl, _⟩ := he
      intro e hm; cases hm
    | some hd =>
      simp only [ht] at he
      cases hr : runListeners (emit f t (d + 1)) d h hd.kind hd.ls x with
      | none => simp [hr] at he
      | some p =>
        obtain ⟨o1, x1, c1⟩ := p
        simp only [hr, Option.some.injEq, Prod.mk.injEq] at he
        obtain ⟨rfl, rfl⟩ := he
        have hn : ∀ h' y o' c', emit f t (d + 1) h' y = some (o', c') → ∀ e ∈ o', depthGe (d + 1) e :=
          fun h' y o' c' hh => ih t (d + 1) h' y o' c' hh
        obtain ⟨_, _, _, _, h5⟩ := runListeners_spec _ d h hd.kind hn _ _ _ _ _ hr
        intro e hm
        rcases List.mem_append.mp hm with hm | hm
        · exact h5 e hm
        · simp at hm; subst hm; simp [depthGe]

/-- **C18, delivery and logging of one emission** (every fuel, every table, every nesting depth):
if the emission terminates then
* the listeners of the handler are called exactly as the delivery specification says — each once,
  in the handler's order, later mutable listeners seeing earlier changes, stopping after the
  first canceller;
* the emitter is told "cancelled" exactly when some listener cancels;
* the emission is logged exactly once at its own depth, with the final payload and the
  cancellation flag, and that log entry is the last output: after all its listeners (and all
  emissions nested in them) have completed. -/
theorem C18_emit (f : Nat) (t : Table) (d h : Nat) (x : Int) (o : List Out) (c : Bool) (hd : H)
    (ht : t[h]? = some hd) (he : emit (f + 1) t d h x = some (o, c)) :
    callsAt d o = expectCalls hd.kind x hd.ls
    ∧ c = anyCancels hd.kind hd.ls
    ∧ logsAt d o = [(h, finalPayload hd.kind x hd.ls, c)]
    ∧ o.getLast? = some (Out.log d h (finalPayload hd.kind x hd.ls) c) := by
  simp only [emit, ht] at he
  cases hr : runListeners (emit f t (d + 1)) d h hd.kind hd.ls x with
  | none => simp [hr] at he
  | some p =>
    obtain ⟨o1, x1, c1⟩ := p
    simp only [hr, Option.some.injEq, Prod.mk.injEq] at he
    obtain ⟨rfl, rfl⟩ := he
    have hn : ∀ h' y o' c', emit f t (d + 1) h' y = some (o', c') → ∀ e ∈ o', depthGe (d + 1) e :=
      fun h' y o' c' hh => emit_depth f t (d + 1) h' y o' c' hh
    obtain ⟨h1, h2, h3, h4, _⟩ := runListeners_spec _ d h hd.kind hn _ _ _ _ _ hr
    refine ⟨?_, h4, ?_, ?_⟩
    · rw [callsAt_append, h1]; simp [callsAt]
    · rw [logsAt_append, h2, h3]; simp [logsAt]
    · simp [h3]


/-! ### the order the handlers keep (every history of subscriptions and runtime tie-breaks) -/

theorem sortedByPrio_iff (ls : List L) : sortedByPrio ls = true ↔ Sorted ls := by
  unfold Sorted
  induction ls with
  | nil => simp [sortedByPrio]
  | cons a r ih =>
    cases r with
    | nil => simp [sortedByPrio]
    | cons b r' =>
      simp only [sortedByPrio, Bool.and_eq_true, decide_eq_true_eq, ih, List.pairwise_cons]
      constructor
      · rintro ⟨hab, hb, hr⟩
        refine ⟨?_, hb, hr⟩
        intro c hc
        rcases List.mem_cons.mp hc with rfl | hc
        · exact hab
        · exact le_trans hab (hb c hc)
      · rintro ⟨ha, hb, hr⟩
        exact ⟨ha b (by simp), hb, hr⟩

/-- plain handlers keep subscription order -/
theorem C18_sub_plain (ls : List L) (l : L) : insertL 0 ls l = ls ++ [l] := by simp [insertL]

/-- priority / mutable / cancelable handlers: a new listener is inserted so that the list stays
in ascending priority, and nothing is lost or duplicated -/
theorem C18_sub_sorted (kind : Nat) (hk : kind ≠ 0) (ls : List L) (l : L) (hs : Sorted ls) :
    Sorted (insertL kind ls l) ∧ (insertL kind ls l).Perm (l :: ls) := by
  have hk' : (kind == 0) = false := by simpa using hk
  unfold insertL
  simp only [hk', Bool.false_eq_true, if_false]
  constructor
  · unfold Sorted at *
    rw [List.pairwise_append, List.pairwise_append]
    refine ⟨⟨hs.sublist List.filter_sublist, by simp, ?_⟩, hs.sublist List.filter_sublist, ?_⟩
    · intro a ha b hb
      simp at hb; subst hb
      have := (List.mem_filter.mp ha).2
      simpa using this
    · intro a ha b hb
      have hb' := (List.mem_filter.mp hb).2
      have hb'' : l.prio < b.prio := by simpa using hb'
      rcases List.mem_append.mp ha with ha | ha
      · have := (List.mem_filter.mp ha).2
        have : a.prio ≤ l.prio := by simpa using this
        exact le_of_lt (lt_of_le_of_lt this hb'')
      · simp at ha; subst ha; exact le_of_lt hb''
  · have h1 : (ls.filter (fun m => decide (m.prio ≤ l.prio)) ++ [l] ++ ls.filter (fun m => decide (l.prio < m.prio))).Perm
        (l :: (ls.filter (fun m => decide (m.prio ≤ l.prio)) ++ ls.filter (fun m => decide (l.prio < m.prio)))) := by
      rw [List.append_assoc]
      exact List.perm_middle
    refine h1.trans (List.Perm.cons _ ?_)
    have : (fun m : L => decide (l.prio < m.prio)) = (fun m : L => !decide (m.prio ≤ l.prio)) := by
      funext m
      by_cases hm : m.prio ≤ l.prio
      · have : ¬ l.prio < m.prio := not_lt.mpr hm
        simp [hm, this]
      · have : l.prio < m.prio := not_le.mp hm
        simp [hm, this]
    rw [this]
    exact List.filter_append_perm _ _

/-- the runtime's tie-break (`sort.Sort` is not stable) is accepted only if it is a
rearrangement of the same listeners that is still in ascending priority (and, for plain
handlers, leaves the order of listener ids unchanged) -/
theorem C18_ord (kind : Nat) (ls ls' : List L) (lids : List Nat) (h : admissible kind ls lids = some ls') :
    ls'.Perm ls ∧ (kind ≠ 0 → Sorted ls') ∧ (kind = 0 → ls'.map (·.lid) = ls.map (·.lid)) := by
  unfold admissible at h
  simp only at h
  split_ifs at h with h1 h2 h3 h4
  · simp only [Option.some.injEq] at h; subst h
    simp only [Bool.and_eq_true, List.isPerm_iff] at h1
    exact ⟨h1.1, fun hk => absurd (by simpa using h2) hk, fun _ => by simpa using h3⟩
  · simp only [Option.some.injEq] at h; subst h
    simp only [Bool.and_eq_true, List.isPerm_iff] at h1
    exact ⟨h1.1, fun _ => (sortedByPrio_iff _).mp h4, fun hk => absurd hk (by simpa using h2)⟩

/-- all non-plain handlers hold their listeners in ascending priority -/
def TableSorted (t : Table) : Prop := ∀ hd ∈ t, hd.kind ≠ 0 → Sorted hd.ls

theorem mem_set {α : Type} (l : List α) (i : Nat) (a b : α) (h : b ∈ l.set i a) : b = a ∨ b ∈ l := by
  induction l generalizing i with
  | nil => simp at h
  | cons x xs ih =>
    cases i with
    | zero => simp at h; rcases h with h | h <;> simp [h]
    | succ i =>
      simp only [List.set_cons_succ, List.mem_cons] at h
      rcases h with h | h
      · right; simp [h]
      · rcases ih i h with h | h
        · left; exact h
        · right; simp [h]

theorem C18_sorted_step (t : Table) (op : Op) (h : TableSorted t) : TableSorted (step t op).1 := by
  cases op with
  | mk kind =>
    simp only [step]
    intro hd hm hk
    rcases List.mem_append.mp hm with hm | hm
    · exact h hd hm hk
    · simp at hm; subst hm; exact List.Pairwise.nil
  | sub hh l =>
    simp only [step]
    cases ht : t[hh]? with
    | none => exact h
    | some hd0 =>
      simp only
      intro hd hm hk
      rcases mem_set _ _ _ _ hm with rfl | hm
      · have hmem : hd0 ∈ t := List.mem_of_getElem? ht
        exact (C18_sub_sorted hd0.kind hk hd0.ls l (h hd0 hmem hk)).1
      · exact h hd hm hk
  | ord hh lids =>
    simp only [step]
    cases ht : t[hh]? with
    | none => exact h
    | some hd0 =>
      simp only
      cases ha : admissible hd0.kind hd0.ls lids with
      | none => exact h
      | some ls' =>
        simp only
        intro hd hm hk
        rcases mem_set _ _ _ _ hm with rfl | hm
        · exact (C18_ord _ _ _ _ ha).2.1 hk
        · exact h hd hm hk
  | emit hh x =>
    simp only [step]
    split_ifs
    · split <;> exact h
    · exact h

def runOps (t : Table) : List Op → Table
  | [] => t
  | op :: ops => runOps (step t op).1 ops

/-- **Order invariant**: after any sequence of handler creations, subscriptions (any priorities,
equal and negative ones included), runtime tie-breaks and emissions, every priority / mutable /
cancelable handler holds its listeners in ascending priority — the order `C18_emit` delivers in. -/
theorem C18_sorted (ops : List Op) : TableSorted (runOps [] ops) := by
  have gen : ∀ (ops : List Op) (t : Table), TableSorted t → TableSorted (runOps t ops) := by
    intro ops
    induction ops with
    | nil => intro t h; exact h
    | cons op ops ih => intro t h; exact ih _ (C18_sorted_step t op h)
  exact gen ops [] (fun hd hm => by cases hm)

/-- in a sorted handler the delivery specification calls in ascending priority -/
theorem expectCalls_sublist (kind : Nat) (x : Int) (ls : List L) :
    ((expectCalls kind x ls).map (·.1)).Sublist (ls.map (·.lid)) := by
  induction ls generalizing x with
  | nil => simp [expectCalls]
  | cons l r ih =>
    simp only [expectCalls, List.map_cons]
    split_ifs
    · simp
    · exact (ih _).cons_cons _

/-- without a canceller every listener is called, each exactly once, in list order -/
theorem expectCalls_all (kind : Nat) (x : Int) (ls : List L) (h : anyCancels kind ls = false) :
    (expectCalls kind x ls).map (·.1) = ls.map (·.lid) := by
  induction ls generalizing x with
  | nil => simp [expectCalls]
  | cons l r ih =>
    simp only [anyCancels, List.any_cons, Bool.or_eq_false_iff] at h
    simp only [expectCalls, h.1, List.map_cons, Bool.false_eq_true, if_false]
    rw [ih _ (by simpa [anyCancels] using h.2)]

/-! ### non-vacuity -/
example : emit 3 [{ kind := 2, ls := [⟨1, 1, [.mutate 10]⟩, ⟨2, 2, [.emit 1 5]⟩] }, { kind := 3, ls := [⟨3, 0, [.cancel]⟩] }] 0 0 7
    = some ([.call 0 0 1 7, .call 0 0 2 17, .call 1 1 3 5, .log 1 1 5 true, .log 0 0 17 false], false) := by
  decide

end Handler
