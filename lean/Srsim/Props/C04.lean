import Srsim.Spec.CombatSpec
import Srsim.Props.C16
import Srsim.Proofs.AttrFrame
/-!
# C04 — Hits deal the documented damage, toughness damage and energy

Theorems about `Combat.factors` / `Combat.performHit` (model of `pkg/engine/combat`) at ℚ.
Tie: `Driver/C04.lean` (bit-exact correspondence; directed attacker-only / defender-only pairs).
-/
namespace Combat

abbrev C := CStats Rat

/-- **By party**: the factors of a hit read the attacker only through its attack-side stats
and the defender only through its defence-side stats (for every input). -/
theorem C04_party (a d : C) (st : Rat) (p : AttackP Rat) (ratio draw : Rat) :
    factors a d st p ratio draw = factors (attackerView a) (defenderView d) st p ratio draw := by
  unfold factors baseDamage bonus termVal attackerView defenderView
  rfl

/-- **Product**: the total is the product of the reported factors. -/
theorem C04_product (f : Factors Rat) :
    f.total = f.base * f.defM * f.res * f.vul * f.tough * f.fatigue * f.reduce * f.critDmg := rfl

/-- **Crit**: a hit is critical exactly when it is not DoT / element (break) / pure damage and
the run's draw is below the attacker's crit chance. -/
theorem C04_crit (a d : C) (st : Rat) (p : AttackP Rat) (ratio draw : Rat) :
    (factors a d st p ratio draw).crit = true ↔
      (p.atkType ≠ 4 ∧ p.atkType ≠ 9 ∧ p.asPure = false) ∧ draw < a.critChance := by
  unfold factors canCrit
  simp only [Bool.and_eq_true, Bool.not_eq_true', Bool.or_eq_false_iff, beq_eq_false_iff_ne, ne_eq,
    decide_eq_true_eq]
  constructor
  · rintro ⟨⟨⟨h1, h2⟩, h3⟩, h4⟩; exact ⟨⟨h1, h2, h3⟩, h4⟩
  · rintro ⟨⟨h1, h2, h3⟩, h4⟩; exact ⟨⟨⟨h1, h2⟩, h3⟩, h4⟩

theorem C04_critDmg (a d : C) (st : Rat) (p : AttackP Rat) (ratio draw : Rat) :
    (factors a d st p ratio draw).critDmg =
      if (factors a d st p ratio draw).crit then 1 + a.critDmg else 1 := by
  unfold factors; simp

/-- **Clamps**: resistance factor ∈ [0.1, 2] (RES clamped to [−100 %, 90 %]), vulnerability
≤ 3.5, reduction factor ≥ 0.01, toughness multiplier ∈ {0.9, 1}. -/
theorem C04_clamps (a d : C) (st : Rat) (p : AttackP Rat) (ratio draw : Rat) :
    let f := factors a d st p ratio draw
    (1 / 10 ≤ f.res ∧ f.res ≤ 2) ∧ f.vul ≤ 7 / 2 ∧ 1 / 100 ≤ f.reduce ∧ (f.tough = 1 ∨ f.tough = 9 / 10) := by
  simp only [factors]
  refine ⟨⟨?_, ?_⟩, ?_, ?_, ?_⟩
  · split_ifs <;> simp at * <;> norm_num at * <;> linarith
  · split_ifs <;> simp at * <;> norm_num at * <;> linarith
  · split_ifs <;> simp at * <;> norm_num at * <;> linarith
  · split_ifs <;> simp at * <;> norm_num at * <;> linarith
  · split_ifs
    · left; rfl
    · right; norm_num


/-- **Split**: HP damage + shield-absorbed damage = total; the HP part is the whole total for an
unshielded defender or a non-positive total, and otherwise what exceeds the strongest shield
(never negative). -/
theorem C04_split (s : St Rat) (p : AttackP Rat) (tgt : Int) (draw : Rat) :
    hitHP s p tgt draw + ((hitFactors s p tgt draw).total - hitHP s p tgt draw) = (hitFactors s p tgt draw).total
    ∧ hitHP s p tgt draw =
        if Shield.shieldsOf s.sh tgt = [] ∨ (hitFactors s p tgt draw).total ≤ 0 then (hitFactors s p tgt draw).total
        else max 0 ((hitFactors s p tgt draw).total - Shield.maxShield (Shield.shieldsOf s.sh tgt)) := by
  refine ⟨by ring, ?_⟩
  unfold hitHP
  split_ifs with h
  · rw [Shield.C16_pass s.sh tgt _ h]; rfl
  · have hs : Shield.shieldsOf s.sh tgt ≠ [] := fun e => h (Or.inl e)
    have hd : 0 < (hitFactors s p tgt draw).total := not_le.mp (fun e => h (Or.inr e))
    have := (Shield.C16_absorb s.sh tgt _ hs hd).1
    unfold Shield.retOf at this
    unfold shieldRet
    rw [this]; rfl

/-- the last event of a hit is its `hitEnd` report, carrying the factors, the total and the split -/
theorem C04_report (s : St Rat) (p : AttackP Rat) (tgt : Int) (draw : Rat) :
    (performHit s p tgt draw).2.getLast? =
      some (Ev.hitEnd p.src tgt (hitFactors s p tgt draw).base (hitFactors s p tgt draw).defM
        (hitFactors s p tgt draw).res (hitFactors s p tgt draw).vul (hitFactors s p tgt draw).tough
        (hitFactors s p tgt draw).fatigue (hitFactors s p tgt draw).reduce (hitFactors s p tgt draw).critDmg
        (hitFactors s p tgt draw).total (hitHP s p tgt draw)
        ((hitFactors s p tgt draw).total - hitHP s p tgt draw) (hitRem s p tgt draw) (hitFactors s p tgt draw).crit) := by
  unfold performHit
  simp only [List.getLast?_append, List.getLast?_singleton, Option.some_or]

open Attr in
/-- **Toughness**: a hit removes toughness only from a defender weak to its element; the amount
is stance damage × hit ratio × (1 + the **attacker's** toughness-damage bonus), clamped to
[0, max toughness]. -/
theorem C04_toughness (ast : Attr.St Rat) (p : AttackP Rat) (tgt : Int) (hp : Rat) (weak isChar : Bool)
    (u : Attr.Unit Rat) (hu : Attr.find? ast tgt = some u) :
    Attr.stanceOf (attr3 ast p tgt hp weak isChar) tgt =
      some (if weak then
              Attr.clampTo (u.stance + (-p.stanceDamage * hitRatioOf p) * (1 + Attr.stancePctOf ast p.src)) u.maxStance
            else u.stance) := by
  have h1 : ∀ id', Attr.find? (attr1 ast p tgt hp) id' =
      if id' = tgt then (Attr.find? ast tgt).map
        (fun u => Attr.modHPUnit u p.src (-hp) true)
      else Attr.find? ast id' := fun id' => Attr.find?_modHP ast tgt p.src (-hp) true id'
  have hpct : Attr.stancePctOf (attr1 ast p tgt hp) p.src = Attr.stancePctOf ast p.src := by
    unfold Attr.stancePctOf
    rw [h1]
    by_cases e : p.src = tgt
    · simp only [e, if_true, hu, Option.map_some]
      exact (Attr.modHPUnit_static u _ _ _).2.2.1
    · simp only [e, if_false]
  unfold Attr.stanceOf attr3
  rw [Attr.find?_modEnergy]
  have h2 : Attr.find? (attr2 ast p tgt hp weak) tgt =
      some (if weak then
          (if Num.eqb u.stance (Attr.clampTo (u.stance + (-p.stanceDamage * hitRatioOf p) * (1 + Attr.stancePctOf ast p.src)) u.maxStance)
           then Attr.modHPUnit u p.src (-hp) true
           else { Attr.modHPUnit u p.src (-hp) true with
                    stance := Attr.clampTo (u.stance + (-p.stanceDamage * hitRatioOf p) * (1 + Attr.stancePctOf ast p.src)) u.maxStance })
        else Attr.modHPUnit u p.src (-hp) true) := by
    unfold attr2
    cases weak with
    | false => simp only [Bool.false_eq_true, if_false, h1, if_true, hu, Option.map_some]
    | true =>
      simp only [if_true]
      rw [Attr.find?_modStance, hpct]
      simp only [if_true, h1, hu, Option.map_some, Attr.modHPUnit_stance, (Attr.modHPUnit_static u _ _ _).1]
  have hst : ∀ w : Attr.Unit Rat, Attr.find? (attr2 ast p tgt hp weak) tgt = some w →
      (Option.map (fun x => x.stance)
        (if tgt = receiver isChar p tgt then
          Option.map (fun u => ({ u with energy := Attr.clampTo (u.energy + p.energyGain * hitRatioOf p * (1 + u.energyRegen)) u.maxEnergy } : Attr.Unit Rat))
            (Attr.find? (attr2 ast p tgt hp weak) (receiver isChar p tgt))
         else Attr.find? (attr2 ast p tgt hp weak) tgt)) = some w.stance := by
    intro w hw
    by_cases e : tgt = receiver isChar p tgt
    · rw [← e]; simp [hw]
    · simp [e, hw]
  rw [hst _ h2]
  cases weak with
  | false => simp [Attr.modHPUnit_stance]
  | true =>
    simp only [if_true]
    split_ifs with h
    · simp only [Attr.modHPUnit_stance]
      have h' : u.stance = Attr.clampTo (u.stance + (-p.stanceDamage * hitRatioOf p) * (1 + Attr.stancePctOf ast p.src)) u.maxStance := by
        simpa using h
      exact congrArg some h'
    · rfl


/-- the HP and toughness stages of a hit leave every unit's energy-related data untouched -/
theorem attr2_energy_frame (ast : Attr.St Rat) (p : AttackP Rat) (tgt : Int) (hp : Rat) (weak : Bool) (id' : Int) :
    (Attr.find? (attr2 ast p tgt hp weak) id').map (fun u => (u.energy, u.regen, u.regenConv, u.maxEnergy)) =
    (Attr.find? ast id').map (fun u => (u.energy, u.regen, u.regenConv, u.maxEnergy)) := by
  have h1 : ∀ id', (Attr.find? (attr1 ast p tgt hp) id').map (fun u => (u.energy, u.regen, u.regenConv, u.maxEnergy)) =
      (Attr.find? ast id').map (fun u => (u.energy, u.regen, u.regenConv, u.maxEnergy)) := by
    intro id'
    unfold attr1
    rw [Attr.find?_modHP]
    by_cases e : id' = tgt
    · subst e
      simp only [if_true, Option.map_map]
      congr 1; funext u
      simp only [Function.comp, Attr.modHPUnit_energy]
      obtain ⟨_, h2, _, h4, h5⟩ := Attr.modHPUnit_static u p.src (-hp) true
      rw [h2, h4, h5]
    · simp only [e, if_false]
  unfold attr2
  cases weak with
  | false => simpa using h1 id'
  | true =>
    simp only [if_true]
    rw [Attr.find?_modStance]
    by_cases e : id' = tgt
    · subst e
      simp only [if_true, Option.map_map]
      rw [← h1 id']
      congr 1; funext u
      simp only [Function.comp]
      split_ifs <;> rfl
    · simp only [e, if_false]; exact h1 id'

/-- **Energy**: the hit's energy (× hit ratio, × (1 + the receiver's energy regeneration)) goes
to the attacking character or, for an enemy attacker, to the defender; nobody else's energy
changes. -/
theorem C04_energy (ast : Attr.St Rat) (p : AttackP Rat) (tgt : Int) (hp : Rat) (weak isChar : Bool)
    (r : Attr.Unit Rat) (hr : Attr.find? ast (receiver isChar p tgt) = some r) :
    Attr.energyOf (attr3 ast p tgt hp weak isChar) (receiver isChar p tgt) =
      some (Attr.clampTo (r.energy + p.energyGain * hitRatioOf p * (1 + r.energyRegen)) r.maxEnergy)
    ∧ ∀ id', id' ≠ receiver isChar p tgt →
        Attr.energyOf (attr3 ast p tgt hp weak isChar) id' = Attr.energyOf ast id' := by
  have hf := attr2_energy_frame ast p tgt hp weak
  constructor
  · unfold Attr.energyOf attr3
    rw [Attr.find?_modEnergy]
    simp only [if_true]
    have := hf (receiver isChar p tgt)
    rw [hr] at this
    cases hw : Attr.find? (attr2 ast p tgt hp weak) (receiver isChar p tgt) with
    | none => rw [hw] at this; simp at this
    | some w =>
      rw [hw] at this
      simp only [Option.map_some, Option.some.injEq, Prod.mk.injEq] at this
      obtain ⟨e1, e2, e3, e4⟩ := this
      simp only [Option.map_some, Attr.Unit.energyRegen, e1, e2, e3, e4]
  · intro id' hne
    unfold Attr.energyOf attr3
    rw [Attr.find?_modEnergy]
    simp only [hne, if_false]
    have := hf id'
    have h2 := congrArg (Option.map (fun (x : Rat × Rat × Rat × Rat) => x.1)) this
    rw [Option.map_map, Option.map_map] at h2
    exact h2

/-- **Listener adjustments are per hit**: what a hit listener adds to the snapshots of the hit on
one defender (sums for bonuses, the multiplicative stacking for damage reduction and fatigue) is seen by that hit only — every other hit of the same attack is computed from the
attacker's and defender's own stats, as if no listener existed. -/
theorem C04_listener_adjustment_per_hit (s : St Rat) (p : AttackP Rat) (a : HitAdj Rat) (tgt : Int) (draw : Rat)
    (h0 : a.onlyTgt ≠ 0) :
    (tgt ≠ a.onlyTgt → hitFactors s { p with adj := some a } tgt draw = hitFactors s { p with adj := none } tgt draw) ∧
    hitFactors s { p with adj := some a } a.onlyTgt draw =
      factors { statsOf s p.src with allDmgPct := (statsOf s p.src).allDmgPct + a.attDmgAdd,
                                     critChance := (statsOf s p.src).critChance + a.attCritAdd,
                                     fatigue := 1 - (1 - (statsOf s p.src).fatigue) * (1 - a.attFatigueAdd) }
              { statsOf s a.onlyTgt with allTaken := (statsOf s a.onlyTgt).allTaken + a.defTakenAdd,
                                         reduce := 1 - (1 - (statsOf s a.onlyTgt).reduce) * (1 - a.defReduceAdd) }
              (stanceOfU s a.onlyTgt) { p with adj := some a } (hitRatioOf p) draw := by
  have hf : ∀ (x : Option (HitAdj Rat)) (A D : C) (st r dr : Rat),
      factors A D st { p with adj := x } r dr = factors A D st p r dr := fun _ _ _ _ _ _ => rfl
  constructor
  · intro hne
    have hn : adjApplies a tgt = false := by simp [adjApplies, h0, Ne.symm hne]
    simp only [hitFactors, attackerFor, defenderFor, hn, hitRatioOf, hf]
    rfl
  · have hy : adjApplies a a.onlyTgt = true := by simp [adjApplies]
    simp only [hitFactors, attackerFor, defenderFor, hy, hitRatioOf, hf]
    rfl

/-! ### non-vacuity: a concrete hit where the by-party distinction matters -/
example : ∃ (a d : C) (p : AttackP Rat), (factors a d 0 p 1 (1/2)).vul = 13/10 ∧
    (factors { a with taken := [0, 0, 3/10] } { d with taken := [] } 0 p 1 (1/2)).vul = 1 := by
  refine ⟨{ dfltStats with atk := 1000 }, { dfltStats with taken := [0, 0, 3/10] },
    { key := 1, src := 1, targets := [2], atkType := 1, dmgType := 2, terms := [(1, 1)], flat := 0,
      hitRatio := 1, asPure := false, energyGain := 20, stanceDamage := 30, bbd := 0, draws := [] }, ?_, ?_⟩
  · simp [factors, nth, dfltStats]; norm_num
  · simp [factors, nth, dfltStats]; norm_num

end Combat
