import Srsim.Spec.ModifierSpec
import Srsim.Model.Heap
import Srsim.Proofs.NumRat
import Srsim.Proofs.PropTotalLemmas
import Srsim.Proofs.HeapLemmas
import Mathlib.Data.List.Perm.Basic
import Mathlib.Algebra.BigOperators.Group.List.Basic
/-!
# C06 — Stats are base plus attached modifiers; snapshots are private

* `propTotal` (model of `EvalModifiers` + `NewStats`) is the documented combination of the base
  stats and of exactly the attached instances — additive, and `1 − Π(1 − x)` for damage reduction
  (property 90) and fatigue (property 91) — and does not depend on the order of attachment.
* Heap model of `newInstance`: when the description's maps are copied every instance owns its
  data (separation invariant over all histories); when they are shared it does not (witness).
-/
namespace Modifier

theorem C06_sum_additive (base : List (Nat × Rat)) (l : List (Inst Rat)) (p : Nat) (hp : p ≠ 90 ∧ p ≠ 91) :
    propTotal base l p = (contribs base l p).sum := by
  rw [propTotal_eq, contribs_eq, foldl_pstep_add p hp, foldl2_pstep_add p hp, List.sum_append, zero_add]

theorem C06_sum_multiplicative (base : List (Nat × Rat)) (l : List (Inst Rat)) (p : Nat) (hp : p = 90 ∨ p = 91) :
    1 - propTotal base l p = ((contribs base l p).map (fun x => 1 - x)).prod := by
  rw [propTotal_eq, contribs_eq, foldl_pstep_mul p hp, foldl2_pstep_mul p hp, List.map_append, List.prod_append,
    sub_zero, one_mul]

/-- the stats depend on *which* instances are attached, not on the order they were attached in -/
theorem C06_perm (base : List (Nat × Rat)) (l₁ l₂ : List (Inst Rat)) (p : Nat) (h : l₁.Perm l₂) :
    propTotal base l₁ p = propTotal base l₂ p := by
  have hc := contribs_perm base l₁ l₂ p h
  by_cases hp : p = 90 ∨ p = 91
  · have h1 := C06_sum_multiplicative base l₁ p hp
    have h2 := C06_sum_multiplicative base l₂ p hp
    rw [(hc.map _).prod_eq] at h1
    linarith
  · have hp' : p ≠ 90 ∧ p ≠ 91 := by omega
    rw [C06_sum_additive base l₁ p hp', C06_sum_additive base l₂ p hp', hc.sum_eq]

/-- no residue: attaching an instance and detaching it again restores every property -/
theorem C06_detach (base : List (Nat × Rat)) (l : List (Inst Rat)) (i : Inst Rat) (p : Nat)
    (h : i.uid ∉ uids l) :
    propTotal base ((l ++ [i]).filter (fun m => m.uid != i.uid)) p = propTotal base l p := by
  have : (l ++ [i]).filter (fun m => m.uid != i.uid) = l := by
    rw [List.filter_append]
    have h1 : l.filter (fun m => m.uid != i.uid) = l := by
      rw [List.filter_eq_self]
      intro m hm
      have : m.uid ≠ i.uid := fun e => h (by rw [← e]; exact List.mem_map_of_mem hm)
      simpa using this
    simp [h1]
  rw [this]

/-- a unit without modifiers has its base stats -/
theorem C06_base_only (base : List (Nat × Rat)) (p : Nat) (hp : p ≠ 90 ∧ p ≠ 91) :
    propTotal base [] p = (base.filterMap fun q => if q.1 == p && Num.neb q.2 0 then some q.2 else none).sum := by
  rw [C06_sum_additive base [] p hp, contribs_eq]
  simp only [List.flatMap_nil, List.nil_append]
  rfl

/-- **Weaknesses are the union**: a unit is weak to a type exactly when the unit itself or one of its
attached instances marks it weak; an entry that says "not weak" never removes a weakness, so the
result does not depend on attachment order, and detaching an instance removes exactly what only it
contributed. -/
theorem C06_weakness_union (base : List (Nat × Bool)) (l : List (Inst Rat)) (t : Nat) :
    (weakTo base l t = true ↔ (t, true) ∈ base ∨ ∃ i ∈ l, (t, true) ∈ i.weak) ∧
    (∀ l₂ : List (Inst Rat), l.Perm l₂ → weakTo base l₂ t = weakTo base l t) ∧
    (∀ i : Inst Rat, (t, true) ∉ i.weak → weakTo base (i :: l) t = weakTo base l t) ∧
    (∀ i : Inst Rat, (t, false) ∈ i.weak → weakTo base l t = true → weakTo base (l ++ [i]) t = true) := by
  refine ⟨?_, ?_, ?_, ?_⟩
  · simp [weakTo, List.any_eq_true]
  · intro l₂ h
    have : ∀ (a b : List (Inst Rat)), a.Perm b → (a.any fun i => i.weak.contains (t, true)) = (b.any fun i => i.weak.contains (t, true)) := by
      intro a b hab
      rw [Bool.eq_iff_iff]
      simp only [List.any_eq_true]
      exact ⟨fun ⟨x, hx, h'⟩ => ⟨x, hab.mem_iff.1 hx, h'⟩, fun ⟨x, hx, h'⟩ => ⟨x, hab.mem_iff.2 hx, h'⟩⟩
    simp only [weakTo, this l₂ l h.symm]
  · intro i hi
    simp [weakTo, hi]
  · intro i _ h
    simp only [weakTo, List.any_append, Bool.or_eq_true] at h ⊢
    rcases h with h | h
    · exact Or.inl h
    · exact Or.inr (Or.inl h)

/-- **Status counts and behaviour flags are read off the attached list**: the count of a status type
is the number of attached instances whose shape has it, a flag is present exactly when some attached
instance's shape carries it; neither depends on attachment order, and an empty list has none. -/
theorem C06_counts_flags (cat : Catalog Rat) (l l₂ : List (Inst Rat)) (h : l.Perm l₂) (k f : Nat) :
    statusCount cat l k = statusCount cat l₂ k ∧ hasFlag cat l f = hasFlag cat l₂ f ∧
    statusCount cat ([] : List (Inst Rat)) k = 0 ∧ hasFlag cat ([] : List (Inst Rat)) f = false ∧
    (∀ i : Inst Rat, statusCount cat (i :: l) k = statusCount cat l k + (if (cfgOf cat i.name).status == k then 1 else 0)) := by
  refine ⟨?_, ?_, rfl, rfl, ?_⟩
  · unfold statusCount; exact (h.filter _).length_eq
  · unfold hasFlag
    rw [Bool.eq_iff_iff]
    simp only [List.any_eq_true]
    exact ⟨fun ⟨x, hx, h'⟩ => ⟨x, h.mem_iff.1 hx, h'⟩, fun ⟨x, hx, h'⟩ => ⟨x, h.mem_iff.2 hx, h'⟩⟩
  · intro i
    unfold statusCount
    by_cases hi : (cfgOf cat i.name).status == k <;> simp [List.filter_cons, hi]

end Modifier

namespace Heap

/-- **Separation over all histories**: with copying `newInstance`, after any sequence of
description creations, attachments (any reuse of one description for several units) and
mutations, all maps held by instances and callers are distinct objects. -/
theorem C06_separated (ops : List Op) : Separated (run true {} ops) :=
  run_separated ops {} ⟨List.nodup_nil, fun _ h => by simp at h⟩

/-- **Each instance owns its data**: in a separated state, changing one instance changes no other
instance and no caller's description. -/
theorem C06_instance_owns (s : St) (h : Separated s) (i : Nat) (p : Nat) (x : Int) :
    (∀ j, j ≠ i → readInst (step true s (.mutInst i p x)) j = readInst s j) ∧
    (∀ d, readDesc (step true s (.mutInst i p x)) d = readDesc s d) := by
  obtain ⟨hn, _⟩ := h
  simp only [step]
  cases hi : s.insts[i]? with
  | none => exact ⟨fun _ _ => rfl, fun _ => rfl⟩
  | some r =>
    simp only [readInst, readDesc, write]
    have hni : s.insts.Nodup := (List.nodup_append.1 hn).2.1
    constructor
    · intro j hj
      cases hjr : s.insts[j]? with
      | none => rfl
      | some r' =>
        have : r' ≠ r := by
          rintro rfl
          obtain ⟨hi1, hi2⟩ := List.getElem?_eq_some_iff.1 hi
          obtain ⟨hj1, hj2⟩ := List.getElem?_eq_some_iff.1 hjr
          exact hj ((List.Nodup.getElem_inj_iff hni).1 (hj2.trans hi2.symm))
        simp [this]
    · intro d
      cases hdr : s.descs[d]? with
      | none => rfl
      | some r' =>
        have : r' ≠ r := by
          rintro rfl
          exact (List.nodup_append.1 hn).2.2 r' (List.mem_of_getElem? hdr) r' (List.mem_of_getElem? hi) rfl
        simp [this]

/-- a caller changing its description afterwards does not reach the instances made from it -/
theorem C06_desc_change_private (s : St) (h : Separated s) (d : Nat) (p : Nat) (x : Int) :
    ∀ j, readInst (step true s (.mutDesc d p x)) j = readInst s j := by
  obtain ⟨hn, _⟩ := h
  intro j
  simp only [step]
  cases hd : s.descs[d]? with
  | none => rfl
  | some r =>
    simp only [readInst, write]
    cases hjr : s.insts[j]? with
    | none => rfl
    | some r' =>
      have : r' ≠ r := by
        rintro rfl
        exact (List.nodup_append.1 hn).2.2 r' (List.mem_of_getElem? hd) r' (List.mem_of_getElem? hjr) rfl
      simp [this]

/-- a new instance starts with the entries of its description -/
theorem C06_attach_copies (s : St) (h : Separated s) (d : Nat) (r : Ref) (hr : s.descs[d]? = some r) :
    readInst (step true s (.attach d)) s.insts.length = some (s.store r) := by
  have _ := h
  simp [step, hr, readInst, write]

/-- sharing the caller's map violates ownership: one description attached twice, a change
through the first instance is seen by the second -/
theorem C06_sharing_breaks_ownership :
    readInst (run false {} [.newDesc [(6, 25)], .attach 0, .attach 0]) 1 = some [(6, 25)] ∧
    readInst (run false {} [.newDesc [(6, 25)], .attach 0, .attach 0, .mutInst 0 6 50]) 1 = some [(6, 75)] := by
  decide

end Heap
