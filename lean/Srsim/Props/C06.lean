import Srsim.Spec.ModifierSpec
import Srsim.Model.Heap
/-! placeholder, replaced by the full theorem file once its proofs are in -/
namespace Heap
theorem C06_sharing_breaks_ownership :
    readInst (run false {} [.newDesc [(6, 25)], .attach 0, .attach 0, .mutInst 0 6 50]) 1 = some [(6, 75)] := by decide
end Heap
