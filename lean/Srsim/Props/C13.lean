import Srsim.Model.Gcs.Parse
/-! placeholder, replaced by the full theorem file once its proofs are in -/
namespace Gcs
open Gcs.Lex
theorem C13_lex_empty : lexAll [] = some ([⟨tEOF, 0, 0, 1, []⟩], 1) := by decide
end Gcs
