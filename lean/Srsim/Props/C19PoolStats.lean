import Srsim.Props.C19Pool
import Srsim.Props.C19
/-
The pool model and the aggregator model put together: what `/latest` serves for a finished batch are
the aggregators' statistics over exactly the results that were added, so their count, the
damage-per-cycle overview and every histogram are those of that multiset — in whatever order the
workers delivered.
-/
namespace Pool
open Agg

/-- what `/latest` serves: the aggregators' statistics over the results the published report summarises -/
def report (m : MathFns Rat) (cycles : Nat) (s : St (IterRes Rat)) : Option (Stats Rat) :=
  s.published.map fun l => (l.foldl Buf.add (Buf.init cycles)).flush m

/-- a finished batch that did not fail serves the statistics of exactly the results that were added:
their number is the iteration count, and the damage-per-cycle overview is the overview of their
damage-per-cycle values -/
theorem C19_pool_report_is_of_added (m : MathFns Rat) (cycles : Nat) (c : Cfg) (evs : List (Ev (IterRes Rat)))
    (hd : (run c evs).done = true) (hf : (run c evs).failed = false) :
    ∃ st, report m cycles (run c evs) = some st ∧ st.iterations = (run c evs).added.length ∧
      st.dpc = toOver m ((run c evs).added.map fun r => r.dealt * 100 / r.av) := by
  refine ⟨_, by rw [report, C19_pool_done_reports_every_added_result c evs hd hf]; rfl, ?_, ?_⟩
  · exact (C19_counts cycles _).1
  · show toOver m _ = _
    rw [(C19_counts cycles _).2]

/-- two finished batches that added the same results in different arrival orders (other workers, another
moment of cancelling the rest) serve the same iteration count and the same damage-per-cycle overview,
histogram included -/
theorem C19_pool_report_order_independent (m : MathFns Rat) (cycles : Nat) (c₁ c₂ : Cfg)
    (e₁ e₂ : List (Ev (IterRes Rat)))
    (h₁ : (run c₁ e₁).done = true ∧ (run c₁ e₁).failed = false) (h₂ : (run c₂ e₂).done = true ∧ (run c₂ e₂).failed = false)
    (hp : (run c₁ e₁).added.Perm (run c₂ e₂).added) :
    ∃ s₁ s₂, report m cycles (run c₁ e₁) = some s₁ ∧ report m cycles (run c₂ e₂) = some s₂ ∧
      s₁.iterations = s₂.iterations ∧ s₁.dpc = s₂.dpc := by
  obtain ⟨s₁, r₁, n₁, d₁⟩ := C19_pool_report_is_of_added m cycles c₁ e₁ h₁.1 h₁.2
  obtain ⟨s₂, r₂, n₂, d₂⟩ := C19_pool_report_is_of_added m cycles c₂ e₂ h₂.1 h₂.2
  refine ⟨s₁, s₂, r₁, r₂, by rw [n₁, n₂, hp.length_eq], ?_⟩
  rw [d₁, d₂]
  exact C19_over_perm m _ _ (hp.map _)

end Pool
