import Srsim.Proofs.Dispatch
/-
Event dispatch to modifier listeners (listener.go), the part of C17 / C04 / C05 that says
"listeners of the party the event names get to adjust it": for every attached population and every
event the calls are exactly the documented ones.
-/
namespace Dispatch

/-- The executable model of listener.go refines the documented table for every event and every
attached population (instance ids distinct on the unit a limbo event names). -/
theorem dispatch_refines (mods : Int → List Inst) (e : Evt)
    (hu : ∀ t, ((mods t).map (·.uid)).Nodup) :
    dispatch mods e = specCalls mods e :=
  dispatch_eq_spec mods e hu

/-- Completeness: for an event that is not cancelable, every slot that is set on an instance
attached to the unit of a pass, enabled by the event and admitted by the snapshot rule, is called. -/
theorem dispatch_complete (mods : Int → List Inst) (e : Evt) (hl : e.isLimbo = false)
    (g : Group) (hg : g ∈ groups e) (m : Inst) (hm : m ∈ mods g.unit)
    (ha : admitted e.snapshot g m = true) (ln : Ln) (hs : (ln, true) ∈ g.slots) (hh : ln ∈ m.has) :
    (m.uid, ln) ∈ (dispatch mods e).1 :=
  complete mods e hl g hg m hm ha ln hs hh

/-- Soundness: every call is to a set, enabled slot of an admitted instance attached to the unit
some pass of the event names. -/
theorem dispatch_sound (mods : Int → List Inst) (e : Evt) (c : Call) (hc : c ∈ (dispatch mods e).1) :
    ∃ g ∈ groups e, ∃ m ∈ mods g.unit, admitted e.snapshot g m = true ∧ m.uid = c.1 ∧
      (c.2, true) ∈ g.slots ∧ c.2 ∈ m.has :=
  sound mods e c hc

/-- Heal start, exactly once: with distinct instance ids, a healer-side `OnBeforeDealHeal` and a
target-side `OnBeforeBeingHeal` that are set and admitted are each called exactly once — also when
healer and target are the same unit. -/
theorem C17_heal_listeners_once (mods : Int → List Inst) (h t : Int) (s : Bool)
    (hu : ∀ u, ((mods u).map (·.uid)).Nodup) (m : Inst) :
    (m ∈ mods h → m.snap = true ∨ s = false → Ln.beforeDealHeal ∈ m.has →
      (dispatch mods (.healStart h t s)).1.count (m.uid, .beforeDealHeal) = 1) ∧
    (m ∈ mods t → m.snap = true ∨ s = false → Ln.beforeBeingHeal ∈ m.has →
      (dispatch mods (.healStart h t s)).1.count (m.uid, .beforeBeingHeal) = 1) :=
  heal_once mods h t s hu m

/-- Heal start, order: all healer-side calls come before all target-side calls, each side in
attachment order. -/
theorem C17_heal_listeners_order (mods : Int → List Inst) (h t : Int) (s : Bool) :
    (dispatch mods (.healStart h t s)).1 =
      (((mods h).filter fun m => (m.snap || !s) && m.has.contains .beforeDealHeal).map fun m => (m.uid, Ln.beforeDealHeal)) ++
      (((mods t).filter fun m => (m.snap || !s) && m.has.contains .beforeBeingHeal).map fun m => (m.uid, Ln.beforeBeingHeal)) :=
  heal_order mods h t s

/-- Hits (C04): the qualified-only slots are called iff the attack type is qualified; attacker side
before defender side; per instance the `…All` slot first. -/
theorem C04_hit_listeners (mods : Int → List Inst) (a d : Int) (q s : Bool) :
    (dispatch mods (.hitStart a d q s)).1 =
      ((mods a).filter fun m => m.snap || !s).flatMap (fun m =>
        (if m.has.contains .beforeHitAll then [(m.uid, Ln.beforeHitAll)] else []) ++
        (if q && m.has.contains .beforeHit then [(m.uid, Ln.beforeHit)] else [])) ++
      ((mods d).filter fun m => m.snap || !s).flatMap (fun m =>
        (if m.has.contains .beforeBeingHitAll then [(m.uid, Ln.beforeBeingHitAll)] else []) ++
        (if q && m.has.contains .beforeBeingHit then [(m.uid, Ln.beforeBeingHit)] else [])) :=
  hit_order mods a d q s

/-- Limbo (revive): the calls are a prefix of the unit's `OnLimboWaitHeal` listeners in
attachment order; the event is reported cancelled iff some such listener reports a revive, and then
the last call is the first such listener and nothing after it is called. -/
theorem limbo_stops_at_first_revive (mods : Int → List Inst) (t : Int) :
    let ls := (mods t).filter fun m => m.has.contains .limboWaitHeal
    let r := dispatch mods (.limbo t)
    (r.2 = ls.any (·.cancel)) ∧
    r.1 = ((ls.takeWhile fun m => !m.cancel) ++ (ls.dropWhile fun m => !m.cancel).take 1).map fun m => (m.uid, Ln.limboWaitHeal) :=
  limbo_first mods t

/-- non-vacuity: a self-heal with a snapshot reaches the target-side listener of an instance that
may modify snapshots and skips the one that may not -/
example :
    let m1 : Inst := ⟨1, [.beforeDealHeal, .beforeBeingHeal], true, false⟩
    let m2 : Inst := ⟨2, [.beforeBeingHeal], false, false⟩
    (dispatch (fun t => if t = 1 then [m1, m2] else []) (.healStart 1 1 true)).1 =
      [(1, .beforeDealHeal), (1, .beforeBeingHeal)] := by decide

end Dispatch
