import Srsim.Spec.Proto
import Srsim.Proofs.NumRat
import Srsim.Proofs.SimFrame
/-!
# C09 — runs stop exactly at an exit condition and the result adds up
-/
namespace Sim
variable {α : Type} [Num α]

/-- **Exit condition and precedence**: loss when no character is left, otherwise win when no enemy
is left, otherwise timeout when the whole cycles elapsed reach the limit, otherwise none. -/
theorem C09_exit_reason (cfg : Cfg) (s : S α) :
    (s.chars = [] → exitReason cfg s = some 1) ∧
    (s.chars ≠ [] → s.enemies = [] → exitReason cfg s = some 2) ∧
    (s.chars ≠ [] → s.enemies ≠ [] → Num.trunc (s.turn.totalAV / 100) ≥ cfg.cycles → exitReason cfg s = some 3) ∧
    (s.chars ≠ [] → s.enemies ≠ [] → Num.trunc (s.turn.totalAV / 100) < cfg.cycles → exitReason cfg s = none) := by
  unfold exitReason
  refine ⟨fun h => ?_, fun h1 h2 => ?_, fun h1 h2 h3 => ?_, fun h1 h2 h3 => ?_⟩
  · simp [h]
  · have : s.chars.isEmpty = false := by simpa using h1
    simp [this, h2]
  · have e1 : s.chars.isEmpty = false := by simpa using h1
    have e2 : s.enemies.isEmpty = false := by simpa using h2
    simp only [e1, e2, Bool.false_eq_true, ite_false]
    rw [if_pos h3]
  · have e1 : s.chars.isEmpty = false := by simpa using h1
    have e2 : s.enemies.isEmpty = false := by simpa using h2
    simp only [e1, e2, Bool.false_eq_true, ite_false]
    rw [if_neg (Int.not_le.mpr h3)]

/-- **An exit check stops the run iff a condition holds**, and then reports it with the clock. -/
theorem C09_exit_check (cfg : Cfg) (s : S α) (hs : s.terminated = false) :
    (exitReason cfg s = none → exitCheck cfg s = s) ∧
    (∀ r, exitReason cfg s = some r →
      (exitCheck cfg s).terminated = true ∧ (exitCheck cfg s).evs = .termination r s.turn.totalAV :: s.evs) := by
  unfold exitCheck
  refine ⟨fun h => ?_, fun r h => ?_⟩
  · rw [h]
  · rw [h]; exact ⟨rfl, rfl⟩

/-- **The queue never runs a task once the battle is decided.** -/
theorem C09_queue_stops (cfg : Cfg) (f : Nat) (s : S α) (t : Task) (q : List Task)
    (hp : popMin s.queue = some (t, q)) (r : Nat) (hx : exitReason cfg s = some r) :
    queueLoop cfg (f + 1) s = exitCheck cfg s := by
  rw [queueLoop]
  simp only [hp, hx, Option.isSome_some, ite_true]

/-- sums of the hit totals in a stream (oldest first), by defender side -/
def sumDealt (cfg : Cfg) : List (Ev α) → α
  | [] => 0
  | .hitEnd _ d total _ :: es => if isValidId cfg d && !isCharId cfg d then sumDealt cfg es + total else sumDealt cfg es
  | _ :: es => sumDealt cfg es

def sumTaken (cfg : Cfg) : List (Ev α) → α
  | [] => 0
  | .hitEnd _ d total _ :: es => if isCharId cfg d then sumTaken cfg es + total else sumTaken cfg es
  | _ :: es => sumTaken cfg es

theorem sumDealt_cons_notHE (cfg : Cfg) (e : Ev α) (es : List (Ev α)) (h : isHE e = false) :
    sumDealt cfg (e :: es) = sumDealt cfg es := by
  cases e <;> first | rfl | (simp [isHE] at h)

theorem sumTaken_cons_notHE (cfg : Cfg) (e : Ev α) (es : List (Ev α)) (h : isHE e = false) :
    sumTaken cfg (e :: es) = sumTaken cfg es := by
  cases e <;> first | rfl | (simp [isHE] at h)

theorem isCharId_valid (cfg : Cfg) (d : Int) (h : isCharId cfg d = true) : isValidId cfg d = true := by
  unfold isCharId at h
  unfold isValidId
  simp only [Bool.and_eq_true, decide_eq_true_eq] at h ⊢
  omega

/-- the totals are the sums over the stream -/
def Inv (cfg : Cfg) (s : S α) : Prop := s.dealt = sumDealt cfg s.evs ∧ s.taken = sumTaken cfg s.evs

theorem collect_totals (cfg : Cfg) (s : S α) (d : Int) (x : α) :
    (collect cfg s d x).dealt = (if isValidId cfg d && !isCharId cfg d then s.dealt + x else s.dealt) ∧
    (collect cfg s d x).taken = (if isCharId cfg d then s.taken + x else s.taken) ∧
    (collect cfg s d x).evs = s.evs := by
  unfold collect
  dsimp only
  split
  · exact ⟨rfl, rfl, rfl⟩
  · next hv =>
    have hc : isCharId cfg d = false := by
      cases hh : isCharId cfg d
      · rfl
      · exact absurd (isCharId_valid cfg d hh) hv
    have hv' : isValidId cfg d = false := by simpa using hv
    simp [hc, hv']

theorem invGood (cfg : Cfg) : GoodU cfg (fun s s' : S α => Inv cfg s → Inv cfg s') where
  trans := fun h1 h2 h => h2 (h1 h)
  silent := by
    intro s s' h1 h2 h3 h
    unfold Inv at h ⊢
    rw [h1, h2, h3]; exact h
  emit := by
    intro s e he h
    unfold Inv at h ⊢
    show s.dealt = sumDealt cfg (e :: s.evs) ∧ s.taken = sumTaken cfg (e :: s.evs)
    rw [sumDealt_cons_notHE cfg e _ he, sumTaken_cons_notHE cfg e _ he]; exact h
  hitEnd := by
    intro s a d x y h
    unfold Inv at h ⊢
    obtain ⟨c1, c2, c3⟩ := collect_totals cfg s d x
    show (collect cfg s d x).dealt = sumDealt cfg (.hitEnd a d x y :: (collect cfg s d x).evs) ∧
      (collect cfg s d x).taken = sumTaken cfg (.hitEnd a d x y :: (collect cfg s d x).evs)
    rw [c1, c2, c3, h.1, h.2]
    exact ⟨rfl, rfl⟩

/-- **One hit**: the totals grow by exactly the hit's total on the defender's side, and the
hit reports that total. (`evs` is newest first, which is the order `sumDealt` folds.) -/
theorem C09_hit_totals (cfg : Cfg) (s : S α) (src tgt : Int)
    (hd : s.dealt = sumDealt cfg s.evs) (ht : s.taken = sumTaken cfg s.evs) :
    (hit cfg s src tgt).dealt = sumDealt cfg (hit cfg s src tgt).evs ∧
    (hit cfg s src tgt).taken = sumTaken cfg (hit cfg s src tgt).evs := by
  exact (invGood cfg).toGood.hit s src tgt ⟨hd, ht⟩

/-- **Totals of a whole run**: the returned totals are the sums of the totals of all hits taken by
enemies and by characters respectively. -/
theorem C09_totals (cfg : Cfg) (fuel qfuel : Nat) (s0 : S α) (he : s0.evs = [])
    (hd : s0.dealt = 0) (ht : s0.taken = 0) :
    (run cfg fuel qfuel s0).dealt = sumDealt cfg (run cfg fuel qfuel s0).evs ∧
    (run cfg fuel qfuel s0).taken = sumTaken cfg (run cfg fuel qfuel s0).evs := by
  refine (invGood cfg).run fuel qfuel s0 ⟨?_, ?_⟩
  · rw [hd, he]; rfl
  · rw [ht, he]; rfl

theorem nonDecreasing_iff (l : List Rat) : Proto.nonDecreasing l = true ↔ l.Pairwise (· ≤ ·) := by
  match l with
  | [] => simp [Proto.nonDecreasing]
  | [a] => simp [Proto.nonDecreasing]
  | a :: b :: rest =>
    have ih := nonDecreasing_iff (b :: rest)
    unfold Proto.nonDecreasing
    rw [Bool.and_eq_true, ih, List.pairwise_cons (a := a)]
    have hlt : ((!decide (@LT.lt Rat Num.toLT b a)) = true) ↔ a ≤ b := by
      rw [Bool.not_eq_true', decide_eq_false_iff_not]
      exact not_lt
    rw [hlt]
    constructor
    · rintro ⟨hab, hp⟩
      refine ⟨?_, hp⟩
      intro y hy
      rcases List.mem_cons.1 hy with rfl | hy
      · exact hab
      · exact le_trans hab ((List.pairwise_cons.1 hp).1 y hy)
    · rintro ⟨hall, hp⟩
      exact ⟨hall b (by simp), hp⟩

theorem extendTo_concat (init : List Rat) (x : Rat) (cyc : Nat) (h : init.length ≤ cyc) :
    extendTo (init ++ [x]) cyc = (init ++ List.replicate (cyc - init.length) x) ++ [x] := by
  unfold extendTo
  rw [List.getLastD_concat]
  simp only [List.length_append, List.length_singleton]
  split
  · have : cyc + 1 - (init.length + 1) = cyc - init.length := by omega
    rw [this, List.append_assoc, List.append_assoc]
    congr 1
    rw [← List.replicate_succ', List.replicate_succ]
    rfl
  · have : cyc - init.length = 0 := by omega
    rw [this]; simp

/-- **Series**: recording a hit keeps the cumulative series non-decreasing and ending at the new
total, provided the cycle of the hit is not before the last recorded one (the clock never runs
backwards, C02) and hit totals are non-negative. Stated over `ℚ`. -/
theorem C09_series (l : List Rat) (total' : Rat) (cyc : Nat)
    (hmono : Proto.nonDecreasing l = true) (hne : l ≠ [])
    (hlast : ∀ x ∈ l.getLast?, x ≤ total') (hcyc : l.length ≤ cyc + 1) :
    Proto.nonDecreasing ((extendTo l cyc).set cyc total') = true ∧
    ((extendTo l cyc).set cyc total').getLast? = some total' := by
  rw [nonDecreasing_iff] at hmono ⊢
  obtain ⟨init, x, rfl⟩ : ∃ init x, l = init ++ [x] :=
    ⟨l.dropLast, l.getLast hne, (List.dropLast_concat_getLast hne).symm⟩
  have hx : x ≤ total' := hlast x (by simp)
  have hlen : init.length ≤ cyc := by simp at hcyc; omega
  rw [List.pairwise_append] at hmono
  obtain ⟨hinit, _, hix⟩ := hmono
  have hix' : ∀ a ∈ init, a ≤ x := fun a ha => hix a ha x (by simp)
  rw [extendTo_concat init x cyc hlen]
  have hP : (init ++ List.replicate (cyc - init.length) x).length = cyc := by
    simp; omega
  rw [List.set_append_right _ _ (by rw [hP]), hP]
  simp only [Nat.sub_self, List.set_cons_zero, List.getLast?_concat, and_true]
  rw [List.pairwise_append, List.pairwise_append]
  refine ⟨⟨hinit, ?_, ?_⟩, by simp, ?_⟩
  · rw [List.pairwise_replicate]; right; exact le_refl x
  · intro a ha b hb
    rw [List.eq_of_mem_replicate hb]
    exact hix' a ha
  · intro a ha b hb
    rw [List.mem_singleton.1 hb]
    rcases List.mem_append.1 ha with h | h
    · exact le_trans (hix' a h) hx
    · rw [List.eq_of_mem_replicate h]; exact hx

end Sim
