def hello := "world"
