import Srsim.Adapter.Modifier
/-
C05 / C06 as predicates on an implementation trace of the modifier manager.

C05: every operation is judged against the model (the documented stacking / tick / dispel rules
the theorems are about) started from the *implementation's own* previous attached lists.
C06: the stats the engine reports equal base ⊕ Σ of the implementation's own attached instances;
changing a snapshot changes nothing; changing one instance changes no other instance.
Search machinery only.
-/
namespace ModifierProp
open Modifier

def instsOf (r : Rec) : List (Inst Float) :=
  let uids := r.ints "uids"; let names := r.ints "names"; let srcs := r.ints "srcs"; let durs := r.ints "durs"
  let counts := r.ints "counts"; let maxs := r.ints "maxs"; let renew := r.ints "renew"; let cadds := r.ints "cadds"
  let imms := r.list "imms"; let p2 := r.list "p2"
  let stats := if r.str "stats" == "" then [] else (r.str "stats").splitOn ";"
  let weaks := if r.str "weaks" == "" then [] else (r.str "weaks").splitOn ";"
  let dress := if r.str "dress" == "" then [] else (r.str "dress").splitOn ";"
  (List.range uids.length).map fun k =>
    { uid := (uids.getD k 0).toNat, name := (names.getD k 0).toNat, source := srcs.getD k 0, dur := durs.getD k 0,
      count := counts.getD k 0, maxCount := maxs.getD k 0, countAdd := cadds.getD k 0, tickImm := imms.getD k "0" == "1",
      canTickP2 := p2.getD k "0" == "1", renew := (renew.getD k 0).toNat, stats := ModAdapter.parseStats (stats.getD k "-"),
      weak := ModAdapter.parseWeak (weaks.getD k "-"), dres := ModAdapter.parseStats (dress.getD k "-") }

/-- adopt the implementation's attached lists -/
def resync (s : St Float) (obs : List Rec) : St Float :=
  obs.foldl (fun s r => if r.name == "list" then setT s (r.int "t") (instsOf r) else s) s

def relevant05 (r : Rec) : Bool :=
  ["Added", "Removed", "Dispelled", "ExtDur", "ExtCnt", "err", "ret", "panic", "list", "hook", "Resisted", "applied"].contains r.name

/-- the part of a `list` record C05 speaks about -/
def listKey (r : Rec) : Rec :=
  if r.name != "list" then r else
  ⟨"list", r.kv.filter fun kv => ["t", "uids", "names", "srcs", "durs", "counts"].contains kv.1⟩

def describe (r : Rec) : String := Wire.Rec.render (listKey r)

def checkC05 (trace : List (Rec × List Rec)) : Option String := Id.run do
  let mut d : ModAdapter.DSt := {}
  for (op, obs) in trace do
    if obs.any (·.name == "panic") then return some s!"panic during {op.name}"
    -- random dispel: the shuffle is the run's choice (taken from the observation), but it must have
    -- removed exactly min(requested, candidates) of the candidates
    let d0 := ModAdapter.withShuffle d op obs
    if op.name == "dispel" && op.nat "order" == 3 then
      let l := d.st.targets (op.int "t")
      let ncand := (dispelCand d.cat l (op.nat "status")).length
      let n : Nat := if op.int "count" ≤ 0 then l.length else (op.int "count").toNat
      let ndis := (obs.filter fun r => r.name == "Dispelled" && r.int "t" == op.int "t").length
      let hooks := obs.any (·.name == "hook")
      if !hooks && ndis != min n ncand then
        return some s!"dispel (random): {ndis} instance(s) dispelled, documented min(requested {n}, dispellable {ncand})"
    let (d', mobs, _) := ModAdapter.stepRec d0 op
    if op.name != "cat" && op.name != "mutsnap" && op.name != "instprop" && op.name != "instset" && op.name != "instweak" && op.name != "instdres" then
      let m := (mobs.filter relevant05).map listKey
      let o := (obs.filter relevant05).map listKey
      if m.length != o.length then
        return some s!"{op.name}: implementation produced {o.map (·.name)}, documented behaviour is {m.map (·.name)}"
      for (a, b) in m.zip o do
        if Wire.Rec.render a != Wire.Rec.render b then
          return some s!"{op.name}: implementation {describe b}, documented {describe a}"
    d := { d' with st := resync d'.st obs }
  return none

def close (x y : Float) : Bool := Wire.closeF x y

def checkC06 (trace : List (Rec × List Rec)) : Option String := Id.run do
  let mut prev : List Rec := []
  let mut cat : Catalog Float := []
  for (op, obs) in trace do
    if op.name == "cat" then cat := cat ++ [ModAdapter.cfgOfRec op]
    if obs.any (·.name == "panic") then return some s!"panic during {op.name}"
    if let some r := obs.find? (·.name == "stale") then
      return some s!"a stats snapshot's derived values after a change of {r.str "prop"} depend on whether they had been read before the change"
    let lists := obs.filter (·.name == "list")
    -- (a) stats = base ⊕ Σ attached
    for r in lists do
      let t := r.int "t"
      let l := instsOf r
      let base := ModAdapter.baseOf t
      let atkpct := propTotal base l 6
      if !close (r.flt "atkpct") atkpct then return some s!"unit {t}: ATK% {r.flt "atkpct"} is not base ⊕ Σ attached = {atkpct}"
      if !close (r.flt "reduce") (propTotal base l 90) then return some s!"unit {t}: damage reduction {r.flt "reduce"} is not the multiplicative combination {propTotal base l 90}"
      if !close (r.flt "cc") (propTotal base l 17) then return some s!"unit {t}: crit chance {r.flt "cc"} is not base ⊕ Σ attached"
      let wantWeak : List Int := ((List.range 8).filter fun d => d ≥ 1 && weakTo (ModAdapter.baseWeak t) l d).map Int.ofNat
      if r.ints "weak" != wantWeak then return some s!"unit {t}: weaknesses {r.ints "weak"} are not the union {wantWeak} of the unit's own and its attached instances'"
      let wantCounts : List Int := [0, 1, 2].map fun k => Int.ofNat (statusCount cat l k)
      if r.ints "scounts" != wantCounts then return some s!"unit {t}: status counts {r.ints "scounts"} are not the numbers {wantCounts} of attached instances per status type"
      let wantFlags : List Int := ([1, 100, 101, 103].filter fun f => hasFlag cat l f).map Int.ofNat
      if r.ints "flags" != wantFlags then return some s!"unit {t}: behaviour flags {r.ints "flags"} are not those {wantFlags} of the attached instances' shapes"
      let wantAny := ModAdapter.anyFlagQueries fun fs => fs.any (hasFlag cat l)
      if r.ints "anyflag" != wantAny then return some s!"unit {t}: a query for several behaviour flags on the stats snapshot does not answer 'has at least one of them' (flags of the attached shapes: {wantFlags})"
      if r.ints "mgrflag" != wantAny then return some s!"unit {t}: a query for several behaviour flags on the manager does not answer 'has at least one of them' (flags of the attached shapes: {wantFlags})"
      for (f, x) in ([100, 101, 103] : List Nat).zip (r.flts "dres") do
        if !close x (debuffRes (dresTotal (ModAdapter.baseDres t) l) [f]) then return some s!"unit {t}: resistance to flag {f} is {x}, not max(0, own + Σ attached) = {debuffRes (dresTotal (ModAdapter.baseDres t) l) [f]}"
      let out := propTotal base l 5 * (1 + atkpct) + (propTotal base l 7 + propTotal base l 8)
      if !close (r.flt "atk") (if out < 0 then 0 else out) then return some s!"unit {t}: ATK is not base×(1+percent)+flat"
      if !close (r.flt "spd") (ModAdapter.spdOf base l) then return some s!"unit {t}: SPD {r.flt "spd"} is not base×(1+percent)+flat+converted = {ModAdapter.spdOf base l}"
    -- (b) snapshots are private
    if op.name == "mutsnap" && !prev.isEmpty then
      if lists.map Wire.Rec.render != prev.map Wire.Rec.render then
        return some "changing a stats snapshot changed a unit"
    -- (c) an instance owns its data
    if op.name == "instprop" && !prev.isEmpty then
      let before := prev.flatMap instsOf
      for r in lists do
        for i in instsOf r do
          if i.uid != op.nat "uid" then
            match before.find? (·.uid == i.uid) with
            | some j =>
              if ModAdapter.statsStr i.stats != ModAdapter.statsStr j.stats then
                return some s!"changing instance {op.nat "uid"} changed the data of instance {i.uid}"
            | none => pure ()
    if !lists.isEmpty then prev := lists
  return none

end ModifierProp
