import Srsim.Model.Gcs.Parse
/-
The expression grammar of gcs as a *printer*: the token sequence of a tree, parenthesised exactly
where the stratified grammar
   or < and < equality < ordering < additive < multiplicative < unary < call/atom
(left associative) requires.  `Props/C14.lean` proves that the Pratt parser model inverts it.
Only the type and text of a token matter to the parser (positions are irrelevant).
-/
namespace Gcs.Grammar
open Gcs.Lex Gcs.Parse

def tk (typ : TT) (text : List Nat := []) : Tok := ⟨typ, 0, 0, 0, text⟩

/-- the fragment: literals, identifiers, unary and binary operators -/
inductive E
  | num (text : List Nat)
  | str (text : List Nat)
  | null
  | ident (text : List Nat)
  | unary (op : Nat) (r : E)
  | binary (op : Nat) (l r : E)
deriving Repr, DecidableEq, Inhabited

/-- embedding into the parser's tree type -/
def E.toExpr : E → Expr
  | .num w => .num w
  | .str w => .str w
  | .null => .null
  | .ident w => .ident w
  | .unary op r => .unary op r.toExpr
  | .binary op l r => .binary op l.toExpr r.toExpr

/-- well-formed trees: number texts the parser accepts, real operators -/
def E.WF : E → Prop
  | .num w => numberOk w = true
  | .str _ => True
  | .null => True
  | .ident _ => True
  | .unary op r => (op = tNot ∨ op = tMinus) ∧ r.WF
  | .binary op l r => isBinaryOp op = true ∧ l.WF ∧ r.WF

/-- binding power of the root of a tree (atoms and unary expressions never need parentheses as
operands) -/
def E.level : E → Nat
  | .binary op _ _ => prec op
  | _ => 10

/-- tokens of `e` as an operand that must bind tighter than `ctx`: parentheses iff the root is a
binary operator of precedence ≤ `ctx`.  A left operand is printed at `prec op - 1` (equal
precedence associates to the left without parentheses), a right operand at `prec op`, the
operand of a unary operator at 8 (`Prefix`), the inside of parentheses at 1 (`Lowest`). -/
def toks : Nat → E → List Tok
  | _, .num w => [tk tNumber w]
  | _, .str w => [tk tString w]
  | _, .null => [tk tNull]
  | _, .ident w => [tk tIdent w]
  | _, .unary op r => tk op :: toks 8 r
  | ctx, .binary op l r =>
    if prec op ≤ ctx then [tk tLParen] ++ (toks (prec op - 1) l ++ [tk op] ++ toks (prec op) r) ++ [tk tRParen]
    else toks (prec op - 1) l ++ [tk op] ++ toks (prec op) r

/-- a token after which the expression parser called with `ctx` stops -/
def Stops (ctx : Nat) (rest : List Tok) : Prop :=
  match rest with
  | [] => True
  | t :: _ => t.typ = tTerm ∨ prec t.typ ≤ ctx

end Gcs.Grammar
