import Srsim.Model.Combat
/-! Vocabulary of the C04 / C17 theorems. -/
namespace Combat
variable {α : Type} [Num α]

/-- what the formulas may read of the **attacker**: everything defender-side is blanked -/
def attackerView (a : CStats α) : CStats α :=
  { a with allRes := 0, res := [], allTaken := 0, taken := [], reduce := 0, healBoost := 0, healTaken := 0,
           weak := [], isChar := false }

/-- what the formulas may read of the **defender**: everything attacker-side is blanked -/
def defenderView (d : CStats α) : CStats α :=
  { d with atk := 0, maxHP := 0, level := 0, allDmgPct := 0, dmgPct := [], dotPct := 0, breakEffect := 0,
           allPen := 0, pen := [], fatigue := 0, critChance := 0, critDmg := 0, healBoost := 0, healTaken := 0,
           weak := [], isChar := false }

/-- the `hitEnd` reports of an event list -/
def hitEnds (evs : List (Ev α)) : List (Ev α) :=
  evs.filter fun | .hitEnd .. => true | _ => false

end Combat
