import Srsim.Adapter.Combat
/-
C04 / C17 as predicates on an implementation trace.  The combat model computes every factor
from the party the documented formula names; the predicate compares the implementation's
property-relevant observations with it up to float rounding (relative 1e-9) and checks the
internal consistency of each reported hit / heal.  Search machinery only.
-/
namespace CombatProp
open Combat

def relevantHit (r : Rec) : Bool :=
  ["HitEnd", "HPChange", "StanceChange", "StanceBreak", "StanceReset", "EnergyChange", "LimboWaitHeal",
   "AttackStart", "AttackEnd", "ShieldChange", "ShieldRemoved"].contains r.name
def relevantHeal (r : Rec) : Bool := ["HealEnd", "HPChange"].contains r.name

def hitConsistent (r : Rec) : Option String :=
  let prod := r.flt "base" * r.flt "defm" * r.flt "res" * r.flt "vul" * r.flt "tough" * r.flt "fatigue" * r.flt "reduce" * r.flt "critdmg"
  if !Wire.closeF prod (r.flt "total") then some "product: reported factors do not multiply to the reported total"
  else if !Wire.closeF (r.flt "hpdmg" + r.flt "shielddmg") (r.flt "total") then some "split: HP damage + shield damage differs from the total"
  else if r.flt "vul" > 3.5 then some "clamp: vulnerability above 3.5"
  else if r.flt "reduce" < 0.01 then some "clamp: damage reduction factor below 0.01"
  else if r.flt "res" < 0.1 - 1e-12 || r.flt "res" > 2 + 1e-12 then some "clamp: resistance factor outside [0.1, 2]"
  else none

def fieldDiff (a b : Rec) : String :=
  match (a.kv.zip b.kv).find? (fun (x, y) => !(x.1 == y.1 && Wire.tolVal x.2 y.2)) with
  | some (x, y) =>
    let show_ (v : String) : String := match Wire.parseF v with | some f => toString f | none => v
    s!"{b.name}.{y.1}: implementation {show_ y.2}, documented {show_ x.2}"
  | none => s!"{b.name} vs {a.name}"

def firstDiff (m o : List Rec) : String :=
  match (m.zip o).find? (fun (a, b) => !Wire.tolEq a b) with
  | some (a, b) => fieldDiff a b
  | none => s!"different number of events: implementation {o.length}, documented {m.length}"

/-- keep the model's dynamic attributes (HP ratio, energy, toughness, life) in step with what the
*implementation* reported, so that each hit / heal is judged against the implementation's own
pre-state and an earlier divergence (possibly belonging to another property) does not cascade. -/
def resync (pre post : St Float) (obs : List Rec) : St Float :=
  let units := post.attr.units.map fun u =>
    match Attr.find? pre.attr u.id with
    | none => u
    | some v => { u with hpRatio := v.hpRatio, energy := v.energy, stance := v.stance, life := v.life,
                         lastAttacker := v.lastAttacker }
  let units := obs.foldl (fun (us : List (Attr.Unit Float)) (r : Rec) =>
    us.map fun u =>
      if r.int "t" != u.id then u
      else if r.name == "HPChange" then
        -- a unit at zero HP is not alive, whatever took the HP away (a `LimboWaitHeal` answer may hold it in limbo)
        { u with hpRatio := r.flt "newr", life := if r.flt "newr" > 0 then .alive else .dead }
      else if r.name == "LimboWaitHeal" then { u with life := if r.bool "c" then .limbo else .dead }
      else if r.name == "EnergyChange" then { u with energy := r.flt "new" }
      else if r.name == "StanceChange" then { u with stance := r.flt "new" }
      else u) units
  { post with attr := { post.attr with units := units } }

def check (kind : String) (trace : List (Rec × List Rec)) : Option String := Id.run do
  let mut s : St Float := {}
  for (op, obs) in trace do
    if obs.any (·.name == "panic") then return some "panic"
    let (s', mobs, _) := CombatAdapter.stepRec s op
    s := if op.name == "unit" || op.name == "stats" then s' else resync s s' obs
    if kind == "hit" && (op.name == "attack" || op.name == "endattack") then
      for r in obs do
        if r.name == "HitEnd" then
          if let some m := hitConsistent r then return some m
      let mh := mobs.filter (·.name == "HitEnd"); let oh := obs.filter (·.name == "HitEnd")
      if !Wire.tolEqList mh oh then return some ("hit: " ++ firstDiff mh oh)
      let m := mobs.filter relevantHit; let o := obs.filter relevantHit
      if !Wire.tolEqList m o then return some ("hit: " ++ firstDiff m o)
    if kind == "heal" && op.name == "heal" then
      for r in obs do
        if r.name == "HPChange" && r.flt "newr" > 1 then return some "heal: HP above maximum"
        if r.name == "HealEnd" && r.flt "overflow" < 0 then return some "heal: negative overflow"
      let mh := mobs.filter (·.name == "HealEnd"); let oh := obs.filter (·.name == "HealEnd")
      if !Wire.tolEqList mh oh then return some ("heal: " ++ firstDiff mh oh)
      let m := mobs.filter relevantHeal; let o := obs.filter relevantHeal
      if !Wire.tolEqList m o then return some ("heal: " ++ firstDiff m o)
  return none

end CombatProp
