import Srsim.Adapter.Agg
/-
C19 as a predicate on an implementation trace of the aggregators: no crash, every histogram sums
to the number of values it summarises, the statistics agree with the model (multiset functions)
up to rounding, and two arrival orders of the same results give the same statistics.
-/
namespace AggProp

def exactFields : List String := ["name", "idx", "min", "max", "hist", "n"]

/-- a standard deviation is the root of a difference of nearly equal quantities when the values (nearly) coincide:
rounding in the sum of squares, of relative size ε, shows as an absolute error of about √ε times the magnitude of the
data.  Two such values agree "up to rounding" when they differ by less than 10⁻⁶ of that magnitude. -/
def sdClose (a b : Rec) (x y : String) : Bool :=
  Wire.tolVal x y ||
    (match Wire.parseF x, Wire.parseF y with
     | some fx, some fy => (fx - fy).abs ≤ 1e-6 * (max (max (a.flt "max").abs (a.flt "min").abs) (max (b.flt "max").abs (b.flt "min").abs))
     | _, _ => false)

def sameUpToRounding (a b : Rec) : Option String :=
  if a.name != b.name then some s!"{a.name} vs {b.name}" else
  match (a.kv.zip b.kv).find? (fun (x, y) =>
      !(x.1 == y.1 && (if exactFields.contains x.1 then x.2 == y.2 else if x.1 == "sd" then sdClose a b x.2 y.2 else Wire.tolVal x.2 y.2))) with
  | some (x, y) => some s!"{a.name} {a.str "name"}[{a.str "idx"}].{x.1}: {x.2} vs {y.2}"
  | none => none

/-- the same results in another arrival order? -/
def sameMultiset (a b : List Rec) : Bool :=
  let key (l : List Rec) := (l.map fun r => toString (repr r.kv)).toArray.qsort (· < ·) |>.toList
  key a == key b

/-- compare the final reports of two batches that held the same results -/
def compareFinal (prev cur : List Rec × List Rec) : Option String :=
  if !sameMultiset prev.2 cur.2 then none else
  if prev.1.length != cur.1.length then some "arrival order changed the number of statistics records" else
  match (prev.1.zip cur.1).findSome? fun (a, b) => sameUpToRounding a b with
  | some d => some ("arrival order changed the statistics: " ++ d)
  | none => none

def prop (trace : List (Rec × List Rec)) : Option String := Id.run do
  let mut s : AggAdapter.DSt := {}
  let mut adds : List Rec := []
  -- final report (and the results it covers) of the previous batch; last report of this batch
  let mut prevFinal : Option (List Rec × List Rec) := none
  let mut curLast : Option (List Rec × List Rec) := none
  for (op, obs) in trace do
    if obs.any (·.name == "panic") then return some s!"panic during {op.name}"
    let (s', mobs, _) := AggAdapter.stepRec s op
    s := s'
    if op.name == "cfg" then
      adds := []
      if let some c := curLast then
        if let some p := prevFinal then
          if let some d := compareFinal p c then return some d
        prevFinal := some c
        curLast := none
    if op.name == "add" then adds := adds ++ [op]
    if op.name == "flush" then
      -- histogram sums
      for r in obs do
        if r.name == "over" then
          let sum := (r.ints "hist").foldl (· + ·) 0
          let want : Int :=
            if r.str "name" == "dpc" then adds.length
            else if r.str "name" == "dealtByCycle" then (adds.filter fun a => (a.list "cdealt").length > r.nat "idx").length
            else (adds.filter fun a => (a.list "ctaken").length > r.nat "idx").length
          if sum != want then
            return some s!"histogram of {r.str "name"}[{r.nat "idx"}] sums to {sum}, it summarises {want} values"
      -- agreement with the multiset functions of the model (every report is cumulative)
      if mobs.length != obs.length then return some s!"{obs.length} statistics records, expected {mobs.length}"
      for (m, o) in mobs.zip obs do
        if let some d := sameUpToRounding m o then return some ("statistics differ from the multiset's: " ++ d)
      curLast := some (obs, adds)
  -- arrival-order (and flush-schedule) independence of the final reports
  if let some c := curLast then
    if let some p := prevFinal then
      if let some d := compareFinal p c then return some d
  return none

end AggProp
