import Srsim.Model.Sim
/-
The battle protocol (C03) as a monitor over the event stream, and the death rules (C08) and the
exit/result rules (C09) as decidable predicates over it.  They are stated over `Sim.Ev`, so the
same definitions judge the model's stream (theorems in `Props/`) and, through the wire parser,
the implementation's stream (the property predicates of the drivers).
-/
namespace Proto
open Sim

inductive Br
  | action (owner : Int) (atype : Nat) (ins : Bool)
  | insert (owner : Int) (key : Nat) (prio : Int)
  | attack (a : Int) (atype : Nat)
  | hit (a d : Int)
deriving DecidableEq, Repr

/-- stages: 0 start, 1 initialised, 2 characters added, 3 enemies added, 4 turn order created,
5 between turns, 6 turn started, 7 phase-1 window, 8 phase 1 over (own action allowed), 9 own action done,
10 turn reset, 11 phase-2 window, 12 phase 2 over, 13 terminated -/
structure Mon where
  stage : Nat := 0
  active : Int := 0
  stack : List Br := []
deriving DecidableEq, Repr

def isAttackOrHit : Br → Bool
  | .attack _ _ => true
  | .hit _ _ => true
  | _ => false

def isHit : Br → Bool
  | .hit _ _ => true
  | _ => false

variable {α : Type}

/-- one event; `none` = protocol violation -/
def step (m : Mon) : Ev α → Option Mon
  | .initialize => if m.stage == 0 then some { m with stage := 1 } else none
  | .charsAdded _ => if m.stage == 1 then some { m with stage := 2 } else none
  | .enemiesAdded _ => if m.stage == 2 then some { m with stage := 3 } else none
  | .targetsAdded _ _ => if m.stage == 3 then some { m with stage := 4 } else none
  | .battleStart => if m.stage == 4 && m.stack.isEmpty then some { m with stage := 5 } else none
  | .turnStart a _ _ _ => if m.stage == 5 && m.stack.isEmpty then some { m with stage := 6, active := a } else none
  | .phase1Start => if m.stage == 6 then some { m with stage := 7 } else none
  | .phase1End => if m.stage == 7 && m.stack.isEmpty then some { m with stage := 8 } else none
  | .turnReset _ _ _ =>
    if (m.stage == 7 || m.stage == 8 || m.stage == 9) && m.stack.isEmpty then some { m with stage := 10 } else none
  | .phase2Start => if m.stage == 10 then some { m with stage := 11 } else none
  | .phase2End => if m.stage == 11 && m.stack.isEmpty then some { m with stage := 12 } else none
  | .turnEnd => if m.stage == 12 && m.stack.isEmpty then some { m with stage := 5 } else none
  | .termination _ _ =>
    if (m.stage == 5 || m.stage == 7 || m.stage == 11) && m.stack.isEmpty then some { m with stage := 13 } else none
  | .actionStart o ty ins =>
    if !m.stack.isEmpty then none
    else if ins then (if m.stage == 7 || m.stage == 11 then some { m with stack := [.action o ty ins] } else none)
    else if m.stage == 8 && o == m.active then some { m with stage := 9, stack := [.action o ty ins] }
    else none
  | .actionEnd o ty ins =>
    match m.stack with
    | .action o' ty' ins' :: rest => if o == o' && ty == ty' && ins == ins' then some { m with stack := rest } else none
    | _ => none
  | .insertStart o k p =>
    if m.stack.isEmpty && (m.stage == 7 || m.stage == 11) then some { m with stack := [.insert o k p] } else none
  | .insertEnd o k p =>
    match m.stack with
    | .insert o' k' p' :: rest => if o == o' && k == k' && p == p' then some { m with stack := rest } else none
    | _ => none
  | .attackStart a ty =>
    if m.stage == 13 then none
    else match m.stack with
      | b :: _ => if isAttackOrHit b then none else some { m with stack := .attack a ty :: m.stack }
      | [] => some { m with stack := [.attack a ty] }
  | .attackEnd a ty =>
    match m.stack with
    | .attack a' ty' :: rest => if a == a' && ty == ty' then some { m with stack := rest } else none
    | _ => none
  | .hitStart a d =>
    if m.stage == 13 then none
    else match m.stack with
      | b :: _ => if isHit b then none else some { m with stack := .hit a d :: m.stack }
      | [] => some { m with stack := [.hit a d] }
  | .hitEnd a d _ _ =>
    match m.stack with
    | .hit a' d' :: rest => if a == a' && d == d' then some { m with stack := rest } else none
    | _ => none
  | _ => if m.stage == 13 then none else some m

def runMon (m : Mon) : List (Ev α) → Option Mon
  | [] => some m
  | e :: es => match step m e with
    | some m' => runMon m' es
    | none => none

/-- index and stage of the first event the monitor rejects -/
def firstReject (m : Mon) : Nat → List (Ev α) → Option (Nat × Nat)
  | _, [] => none
  | i, e :: es => match step m e with
    | some m' => firstReject m' (i + 1) es
    | none => some (i, m.stage)

/-- **C03**: the stream is a complete word of the protocol: accepted, and ended by the termination -/
def Accepts (evs : List (Ev α)) : Prop := ∃ m, runMon {} evs = some m ∧ m.stage = 13 ∧ m.stack = []

def accepts (evs : List (Ev α)) : Bool :=
  match runMon {} evs with
  | some m => m.stage == 13 && m.stack.isEmpty
  | none => false

/-! ### C08: death -/

structure DSt where
  dead : List Int := []                 -- announced
  pending : List Int := []              -- reached zero, death not cancelled: due at the next death check
  limbo : List Int := []                -- reached zero, held by a revive
  lastDmg : List (Int × Int) := []      -- unit, attacker of the last hit that damaged it
  curHit : Option (Int × Int) := none
  ending : Bool := false                -- between the end of phase 2 and the end of the turn
deriving Repr

def lastDamager (d : DSt) (t : Int) : Int := match d.lastDmg.find? (·.1 == t) with | some p => p.2 | none => t

/-- events before which every due death must have been announced (each follows a death check) -/
def isCheckpoint : Ev α → Bool
  | .actionStart _ _ _ => true
  | .insertStart _ _ _ => true
  | .phase1End => true
  | .turnReset _ _ _ => true
  | .turnEnd => true
  | .turnStart _ _ _ _ => true
  | .termination _ _ => true
  | _ => false

variable [Num α]

def deathStep (d : DSt) : Ev α → Except String DSt
  | .hitStart a t => .ok { d with curHit := some (a, t) }
  | .hitEnd _ _ _ _ => .ok { d with curHit := none }
  | .hpChange t _ new dmg =>
    let d1 := match dmg, d.curHit with
      | true, some (a, t') => if t == t' then { d with lastDmg := (t, a) :: d.lastDmg.filter (·.1 != t) } else d
      | _, _ => d
    if (0 : α) < new then .ok { d1 with limbo := d1.limbo.filter (· != t) }   -- healed: no longer held at zero
    else .ok d1
  | .limbo t held =>
    if d.dead.contains t then .ok d      -- already announced: it is announced exactly once, whatever is done to it later
    else if held then .ok { d with limbo := t :: d.limbo.filter (· != t) }
    else .ok { d with pending := t :: d.pending.filter (· != t), limbo := d.limbo.filter (· != t) }
  | .death t k =>
    if d.dead.contains t then .error s!"unit {t} announced dead twice"
    else if !(d.pending.contains t || d.limbo.contains t) then .error s!"unit {t} announced dead without having reached zero HP"
    else if !d.pending.contains t && !d.ending then .error s!"unit {t} is held at zero HP by a revive but was announced dead before the end of the turn"
    else if k != lastDamager d t then .error s!"unit {t}: killer {k} announced, the last hit that damaged it came from {lastDamager d t}"
    else .ok { d with dead := t :: d.dead, pending := d.pending.filter (· != t), limbo := d.limbo.filter (· != t) }
  | e =>
    if isCheckpoint e && !d.pending.isEmpty then
      .error s!"unit {d.pending.headD 0} reached zero HP but was not announced dead at the next death check"
    else match e with
      | .phase2End => .ok { d with ending := true }
      | .turnEnd => if d.limbo.isEmpty then .ok { d with ending := false } else .error s!"unit {d.limbo.headD 0} still at zero HP at the end of the turn but not announced dead"
      | .turnStart a _ _ ord =>
        if d.dead.contains a then .error s!"dead unit {a} takes a turn"
        else match ord.find? (fun p => d.dead.contains p.1) with
          | some p => .error s!"dead unit {p.1} is in the turn order"
          | none => .ok d
      | .actionStart o _ _ => if d.dead.contains o then .error s!"dead unit {o} starts an action" else .ok d
      | .insertStart o _ _ => if d.dead.contains o then .error s!"queued insert of dead unit {o} was executed" else .ok d
      | _ => .ok d

end Proto

namespace Proto
open Sim
variable {α : Type} [Num α]

def deathRun (d : DSt) : List (Ev α) → Except String DSt
  | [] => .ok d
  | e :: es => match deathStep d e with
    | .ok d' => deathRun d' es
    | .error m => .error m

/-- **C08** over a whole stream -/
def deathOK (evs : List (Ev α)) : Bool := match deathRun {} evs with | .ok _ => true | .error _ => false

end Proto

/-! ### C09: exit conditions and the result -/
namespace Proto
open Sim
variable {α : Type} [Num α]

structure XSt (α : Type) where
  chars : List Int := []
  enemies : List Int := []
  clock : α
  dealt : α
  taken : α
  active : Int := 0
  afterTask : Bool := false
  terminated : Bool := false

/-- the exit condition of `exitCheck`, in its order of precedence -/
def exitOf (cycles : Int) (x : XSt α) : Option Nat :=
  if x.chars.isEmpty then some 1
  else if x.enemies.isEmpty then some 2
  else if Num.trunc (x.clock / 100) ≥ cycles then some 3
  else none

def exitStep (nchars nunits : Nat) (cycles : Int) (x : XSt α) : Ev α → Except String (XSt α)
  | .charsAdded ids => .ok { x with chars := ids }
  | .enemiesAdded ids => .ok { x with enemies := ids }
  | .death t _ => .ok { x with chars := x.chars.filter (· != t), enemies := x.enemies.filter (· != t) }
  | .energy _ _ _ => .ok x
  | .termination r total =>
    match exitOf cycles x with
    | none => .error "the run stopped although both sides have living units and the cycle limit is not reached"
    | some r' =>
      if r != r' then .error s!"termination reason {r}, the state says {r'}"
      else if !(Num.eqb total x.clock) then .error "the termination does not report the battle clock"
      else .ok { x with terminated := true }
  | e =>
    if x.afterTask && (exitOf cycles x).isSome then .error "an exit condition held at the exit check after a queued task, but the run went on"
    else
      let x := { x with afterTask := false }
      match e with
      | .turnStart a _ total _ =>
        if (exitOf cycles x).isSome then .error "a new turn started although an exit condition held at the end of the previous turn"
        else .ok { x with clock := total, active := a }
      | .phase1End =>
        if !(1 ≤ x.active && x.active ≤ nchars) && (exitOf cycles x).isSome then
          .error "an exit condition held at the exit check of an enemy's phase 1, but the run went on"
        else .ok x
      | .hitEnd _ d total _ =>
        if 1 ≤ d && d ≤ nchars then .ok { x with taken := x.taken + total }
        else if 1 ≤ d && d ≤ nunits then .ok { x with dealt := x.dealt + total }
        else .ok x        -- a hit on something that is not a unit of the battle counts for neither side
      | .insertEnd _ _ _ => .ok { x with afterTask := true }
      | .actionEnd _ _ ins => .ok { x with afterTask := ins }
      | _ => .ok x

def exitRun (nchars nunits : Nat) (cycles : Int) (x : XSt α) : List (Ev α) → Except String (XSt α)
  | [] => .ok x
  | e :: es => match exitStep nchars nunits cycles x e with
    | .ok x' => exitRun nchars nunits cycles x' es
    | .error m => .error m

def nonDecreasing : List α → Bool
  | a :: b :: rest => !(b < a) && nonDecreasing (b :: rest)
  | _ => true

/-- the returned result against the stream -/
def resultCheck (x : XSt α) (dealt taken av : α) (cd ct : List α) : Option String :=
  if !x.terminated then some "a result was returned without a termination event"
  else if !(Num.eqb dealt x.dealt) then some "total damage dealt is not the sum of the hits taken by enemies"
  else if !(Num.eqb taken x.taken) then some "total damage taken is not the sum of the hits taken by characters"
  else if !(Num.eqb av x.clock) then some "total action value is not the battle clock at the end"
  else if !nonDecreasing cd || !nonDecreasing ct then some "a cumulative per-cycle series decreases"
  else if !(match cd.getLast? with | some l => Num.eqb l dealt | none => false) then some "the dealt series does not end at the total"
  else if !(match ct.getLast? with | some l => Num.eqb l taken | none => false) then some "the taken series does not end at the total"
  else none

end Proto
