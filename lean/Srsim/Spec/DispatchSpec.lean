import Srsim.Model.Dispatch
/-
The documented dispatch contract of `modifier.Listeners` as a table: an event is a list of
passes; a pass goes over the instances attached to one unit (the unit in that role), in attachment
order, and offers each instance the pass's slots in order.  Passes marked `snapRule` skip instances
that may not modify a snapshot when the event uses one.  `LimboWaitHeal` is the one cancelable
event: its pass ends with the first listener that reports a revive.
-/
namespace Dispatch

structure Group where
  unit     : Int
  snapRule : Bool
  /-- slots offered per instance, with whether the event enables them -/
  slots    : List (Ln × Bool)
deriving Repr

def one (u : Int) (ln : Ln) : Group := ⟨u, false, [(ln, true)]⟩

def groups : Evt → List Group
  | .attackStart a ts => one a .beforeAttack :: ts.map fun t => one t .beforeBeingAttacked
  | .attackEnd a ts => one a .afterAttack :: ts.map fun t => one t .afterBeingAttacked
  | .hitStart a d q _ => [⟨a, true, [(.beforeHitAll, true), (.beforeHit, q)]⟩, ⟨d, true, [(.beforeBeingHitAll, true), (.beforeBeingHit, q)]⟩]
  | .hitEnd a d q _ => [⟨a, true, [(.afterHitAll, true), (.afterHit, q)]⟩, ⟨d, true, [(.afterBeingHitAll, true), (.afterBeingHit, q)]⟩]
  | .healStart h t _ => [⟨h, true, [(.beforeDealHeal, true)]⟩, ⟨t, true, [(.beforeBeingHeal, true)]⟩]
  | .healEnd h t _ => [⟨h, true, [(.afterDealHeal, true)]⟩, ⟨t, true, [(.afterBeingHeal, true)]⟩]
  | .hpChange t => [one t .hpChange]
  | .limbo t => [one t .limboWaitHeal]
  | .death t k => [one t .beforeDying, one k .triggerDeath]
  | .energy t => [one t .energyChange]
  | .stance t => [one t .stanceChange]
  | .stanceBreak t s => [one t .beforeBeingBreak, one s .triggerBreak, one t .beingBreak]
  | .stanceReset t => [one t .endBreak]
  | .breakExtend t => [one t .breakExtend]
  | .actionStart o => [one o .beforeAction]
  | .actionEnd o => [one o .afterAction]
  | .shieldAdded t => [one t .shieldAdded]
  | .shieldRemoved t => [one t .shieldRemoved]

def Evt.snapshot : Evt → Bool
  | .hitStart _ _ _ s | .hitEnd _ _ _ s | .healStart _ _ s | .healEnd _ _ s => s
  | _ => false

def Evt.isLimbo : Evt → Bool
  | .limbo _ => true
  | _ => false

/-- may this instance be offered the slots of a pass -/
def admitted (snapshot : Bool) (g : Group) (m : Inst) : Bool := !(g.snapRule && snapshot && !m.snap)

/-- the calls one pass makes -/
def groupCalls (snapshot : Bool) (mods : Int → List Inst) (g : Group) : List Call :=
  (mods g.unit).flatMap fun m =>
    if admitted snapshot g m then (g.slots.filter fun p => p.2 && m.has.contains p.1).map fun p => (m.uid, p.1)
    else []

/-- the calls of an uncancelled event -/
def allCalls (mods : Int → List Inst) (e : Evt) : List Call :=
  (groups e).flatMap (groupCalls e.snapshot mods)

/-- is this call a revive report -/
def cancels (mods : Int → List Inst) (t : Int) (c : Call) : Bool :=
  (mods t).any fun m => m.uid == c.1 && m.cancel

/-- calls up to and including the first that satisfies `p` -/
def uptoFirst (p : Call → Bool) : List Call → List Call × Bool
  | [] => ([], false)
  | c :: r => if p c then ([c], true) else let (cs, b) := uptoFirst p r; (c :: cs, b)

def specCalls (mods : Int → List Inst) : Evt → List Call × Bool
  | .limbo t => uptoFirst (cancels mods t) (allCalls mods (.limbo t))
  | e => (allCalls mods e, false)

end Dispatch
