import Srsim.Wire
import Srsim.Model.Handler
/-
C18 as a predicate on an implementation trace of the generic handlers.  Search machinery only.
Assumes (as the generator guarantees) that listeners emit only to handlers with a larger index,
so every `call h=…` record of one top-level emission to `h` belongs to that emission.
-/
namespace HandlerProp
open Handler

structure Sub where
  h : Nat
  lid : Nat
  prio : Int
  script : List Act
  idx : Nat

structure Acc where
  kinds : List Nat := []
  subs : List Sub := []
  bad : Option String := none

def parseScript (s : String) : List Act :=
  if s == "-" || s == "" then [] else
  (s.splitOn ";").filterMap fun t => match t.splitOn ":" with
    | ["mut", k] => k.toInt?.map Act.mutate
    | ["cancel"] => some Act.cancel
    | ["emit", h, x] => match h.toNat?, x.toInt? with
      | some h, some x => some (Act.emit h x)
      | _, _ => none
    | ["emitdec", h] => h.toNat?.map Act.emitDec
    | _ => none

def cancels (kind : Nat) (sc : List Act) : Bool := kind == 3 && sc.contains Act.cancel

/-- number of emissions (to existing handlers) a listener performs when called with payload `x`:
those before its first effective `cancel`; an `emitDec` only counts while the payload, as changed
by the script so far on a mutable handler, is positive -/
def emitCount (kind nh : Nat) : List Act → Int → Nat
  | [], _ => 0
  | .cancel :: r, x => if kind == 3 then 0 else emitCount kind nh r x
  | .mutate k :: r, x => emitCount kind nh r (if kind == 2 then x + k else x)
  | .emit h _ :: r, x => (if h < nh then 1 else 0) + emitCount kind nh r x
  | .emitDec h :: r, x => (if x > 0 && h < nh then 1 else 0) + emitCount kind nh r x

def mutSum (sc : List Act) : Int := sc.foldl (fun a act => match act with | .mutate k => a + k | _ => a) 0

def checkEmit (a : Acc) (h : Nat) (x : Int) (obs : List Rec) : Option String := Id.run do
  let kind := a.kinds.getD h 0
  let mine := a.subs.filter (·.h == h)
  -- the listeners of THIS emission (depth 0); re-entrant emissions on the same handler are deeper
  let calls := obs.filter fun r => r.name == "call" && r.nat "h" == h && r.nat "d" == 0
  let lids := calls.map (·.nat "lid")
  -- exactly once
  if lids.eraseDups.length != lids.length then return some "a listener was called more than once by one emission"
  let called := lids.filterMap fun i => mine.find? (·.lid == i)
  if called.length != lids.length then return some "a call to a listener that is not subscribed to this handler"
  -- order
  if kind == 0 then
    if !(called.zip called.tail).all (fun (p, q) => p.idx < q.idx) then return some "plain handler: listeners not called in subscription order"
  else
    if !(called.zip called.tail).all (fun (p, q) => p.prio ≤ q.prio) then return some "listeners not called in ascending priority"
  -- completeness / cancellation
  let some ret := obs.find? (·.name == "ret") | return some "emission did not return"
  let cancelledAt := called.findIdx? (fun s => cancels kind s.script)
  match cancelledAt with
  | some i =>
    if i + 1 != called.length then return some "cancelable emission continued after a listener cancelled"
    if !ret.bool "c" then return some "cancellation not reported to the emitter"
  | none =>
    if called.length != mine.length then return some "a subscribed listener was not called"
    if ret.bool "c" then return some "cancellation reported although no listener cancelled"
  -- mutable: later listeners see earlier listeners' changes
  let mut seen := x
  for (r, s) in calls.zip called do
    if r.int "x" != seen then return some s!"listener {s.lid} saw payload {r.int "x"}, expected {seen}"
    if kind == 2 then seen := seen + mutSum s.script
  -- logging: once per emission, after its listeners, in completion order
  let logs := obs.filter (·.name == "log")
  let allCalls := obs.filter (·.name == "call")
  let nested := allCalls.foldl (fun n r =>
    match a.subs.find? (fun s => s.lid == r.nat "lid") with
    | some s => n + emitCount (a.kinds.getD s.h 0) a.kinds.length s.script (r.int "x")
    | none => n) 0
  if logs.length != 1 + nested then return some s!"{logs.length} log entries for {1 + nested} emissions"
  match (obs.filter (fun r => (r.name == "log" || r.name == "call"))).getLast? with
  | some r =>
    if !(r.name == "log" && r.nat "h" == h) then return some "the emission was not logged after its listeners had run"
    if r.int "x" != seen then return some "logged payload is not the payload after all listeners"
    if r.bool "c" != ret.bool "c" then return some "logged cancellation flag differs from the reported one"
  | none => return some "emission not logged"
  return none

def stepCheck (a : Acc) (op : Rec) (obs : List Rec) : Acc :=
  if a.bad.isSome then a else
  if obs.any (·.name == "panic") then { a with bad := some "panic" } else
  if obs.any (·.name == "logger2") then { a with bad := some "a second registered logger was not handed every emission exactly once" } else
  match op.name with
  | "mk" => { a with kinds := a.kinds ++ [op.nat "kind"] }
  | "sub" =>
    if op.nat "h" < a.kinds.length then
      { a with subs := a.subs ++ [⟨op.nat "h", op.nat "lid", op.int "prio", parseScript (op.str "script"), a.subs.length⟩] }
    else a
  | "emit" =>
    if op.nat "h" < a.kinds.length then { a with bad := checkEmit a (op.nat "h") (op.int "x") obs }
    else if obs.isEmpty then a else { a with bad := some "emission to an unknown handler produced output" }
  | _ => a

def prop (trace : List (Rec × List Rec)) : Option String :=
  (trace.foldl (fun a (op, obs) => stepCheck a op obs) {}).bad

end HandlerProp
