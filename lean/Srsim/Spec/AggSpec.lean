import Srsim.Model.Agg
/-! Vocabulary of the C19 theorems. -/
namespace Agg
variable {α : Type} [Num α]

def Stream.ofList (l : List α) : Stream α := l.foldl Stream.add Stream.empty

/-- sum of a list with the model's addition -/
def sumL (l : List α) : α := l.foldr (· + ·) 0

def histSum (h : List Nat) : Nat := h.foldr (· + ·) 0

def Res.isOk {β : Type} : Res β → Bool
  | .ok _ => true
  | .crash => false

/-- hypotheses on the two library functions the model is parametric in -/
structure MathOK (m : MathFns α) : Prop where
  sqrt_nonneg : ∀ x, 0 ≤ m.sqrt x
  sqrt_zero : m.sqrt 0 = 0
  sqrt_pos : ∀ x, 0 < x → 0 < m.sqrt x
  cbrt_pos : ∀ n, 0 < n → 0 < m.cbrt n

end Agg
