import Srsim.Model.Shield
/-! Vocabulary of the C16 theorems. -/
namespace Shield
variable {α : Type} [Num α]

/-- documented strength: (Σ formula terms + flat) · (1 + shielder bonus) · (1 + target taken bonus) -/
def strengthSpec (st : AddStats α) (srcMax : α) (terms : List (Nat × α)) (flat : α) : α :=
  ((terms.map fun kc => termVal st srcMax kc.1 kc.2).foldr (· + ·) 0 + flat) * (1 + st.boost) * (1 + st.taken)

/-- keys of the shields of a target, in attachment order -/
def keysOf (s : St α) (t : Int) : List Int := (shieldsOf s t).map (·.key)

/-- at most one shield per key on every unit -/
def KeysNodup (s : St α) : Prop := ∀ t, (keysOf s t).Nodup

/-- no shield is below zero -/
def NonNeg (s : St α) : Prop := ∀ t, ∀ i ∈ shieldsOf s t, 0 ≤ i.hp

def removedEv? : Ev α → Option (Int × Int)
  | .removed k t => some (k, t)
  | _ => none

/-- the (key, unit) pairs announced as removed, in order -/
def removedOf (evs : List (Ev α)) : List (Int × Int) := evs.filterMap removedEv?

/-- the value returned to the caller of `AbsorbDamage` -/
def retOf (evs : List (Ev α)) : Option α := evs.findSome? retEv?

end Shield
