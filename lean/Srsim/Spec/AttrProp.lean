import Srsim.Wire
/-
C07 as a decidable predicate on an *implementation* trace (operations with the observations
the real attribute service produced).  Used only to search for a concrete failing input when
the correspondence or a proof obligation breaks; the theorems are in `Props/C07.lean`.
-/
namespace AttrProp

structure Known where
  id : Int
  hpr : Float
  energy : Float
  stance : Float
  maxEnergy : Float
  maxStance : Float

structure Acc where
  known : List Known := []
  sp : Int := 3
  bad : Option String := none

def Acc.fail (a : Acc) (m : String) : Acc := if a.bad.isSome then a else { a with bad := some m }

def evs (obs : List Rec) (n : String) (t : Int) : List Rec :=
  obs.filter fun r => r.name == n && r.int "t" == t

/-- one quantity: at most one change event; old = before, new = after, old ≠ new; none iff unchanged -/
def exact (what : String) (es : List Rec) (ko kn : String) (before after : Float) : Option String :=
  match es with
  | [] => if before == after then none else some s!"{what}: changed {before}->{after} without event"
  | [e] =>
    if e.flt ko != before then some s!"{what}: event old {e.flt ko} but value before call was {before}"
    else if e.flt kn != after then some s!"{what}: event new {e.flt kn} but value after call is {after}"
    else if before == after then some s!"{what}: event reported but nothing changed"
    else none
  | _ => some s!"{what}: {es.length} change events for one call"

def stepCheck (a : Acc) (op : Rec) (obs : List Rec) : Acc := Id.run do
  let mut a := a
  if obs.any (·.name == "panic") then return a.fail "panic"
  let snap := obs.find? (·.name == "snap")
  let some sn := snap | return a
  -- skill points
  let sp' := sn.int "sp"
  if sp' < 0 || sp' > 5 then a := a.fail s!"sp out of range: {sp'}"
  let spEv := obs.filter (·.name == "SPChange")
  match spEv with
  | [] => if sp' != a.sp then a := a.fail "sp changed without event"
  | [e] => if e.int "old" != a.sp || e.int "new" != sp' || a.sp == sp' then a := a.fail "sp event inexact"
  | _ => a := a.fail "several sp events"
  a := { a with sp := sp' }
  if op.name == "modsp" then return a
  let id := op.int "id"
  if sn.int "known" == 0 then return a
  let hpr := sn.flt "hpr"; let en := sn.flt "energy"; let stc := sn.flt "stance"
  match a.known.find? (·.id == id) with
  | none =>
    -- first sight of this unit (the `add`): record its bounds
    a := { a with known := ⟨id, hpr, en, stc, op.flt "maxenergy", op.flt "maxstance"⟩ :: a.known }
    if !(0 ≤ hpr && hpr ≤ 1) then a := a.fail s!"hp ratio out of range at add: {hpr}"
    return a
  | some k =>
    if !(0 ≤ hpr && hpr ≤ 1) then a := a.fail s!"hp ratio out of range: {hpr}"
    if !(0 ≤ en && en ≤ k.maxEnergy) then a := a.fail s!"energy out of range: {en}"
    if !(0 ≤ stc && stc ≤ k.maxStance) then a := a.fail s!"stance out of range: {stc}"
    if let some m := exact "hp" (evs obs "HPChange" id) "oldr" "newr" k.hpr hpr then a := a.fail m
    if let some m := exact "energy" (evs obs "EnergyChange" id) "old" "new" k.energy en then a := a.fail m
    if let some m := exact "stance" (evs obs "StanceChange" id) "old" "new" k.stance stc then a := a.fail m
    let brk := (evs obs "StanceBreak" id).length
    let rst := (evs obs "StanceReset" id).length
    let wantBrk := if k.stance != 0 && stc == 0 then 1 else 0
    let wantRst := if k.stance == 0 && stc != 0 then 1 else 0
    if brk != wantBrk then a := a.fail s!"stance break announced {brk} times, expected {wantBrk}"
    if rst != wantRst then a := a.fail s!"stance reset announced {rst} times, expected {wantRst}"
    -- events for other units must not appear
    if obs.any fun r => (r.name == "HPChange" || r.name == "EnergyChange" || r.name == "StanceChange") && r.int "t" != id then
      a := a.fail "event for a unit other than the target"
    a := { a with known := a.known.map fun k' => if k'.id == id then { k' with hpr := hpr, energy := en, stance := stc } else k' }
    return a

def prop (trace : List (Rec × List Rec)) : Option String :=
  (trace.foldl (fun a (op, obs) => stepCheck a op obs) {}).bad

end AttrProp
