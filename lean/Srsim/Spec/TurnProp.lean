import Srsim.Adapter.Turn
/-
C02 as a predicate on an implementation trace of the turn manager: every operation is judged
against the model (= the documented behaviour the theorems of `Props/C02.lean` are about) started
from the *implementation's own* previous state, comparing the property-relevant observations up
to float rounding.  Search machinery only.
-/
namespace TurnProp
open Turn

/-- adopt what the implementation reported as its state after the operation -/
def resync (post : St Float) (op : Rec) (obs : List Rec) : St Float := Id.run do
  let mut s := post
  for r in obs do
    if r.has "gauges" then s := { s with order := (r.ints "ids").zip (r.ints "gauges") }
    if r.name == "CostChange" then s := { s with cost := r.flt "new" }
    if r.name == "started" then s := { s with activeTurn := true, active := r.int "id", cost := 1 }
    if r.name == "TurnReset" then s := { s with activeTurn := false }
    if r.name == "order" then
      -- `remove` has no event: take the order from the getter, gauges from the previous state
      let ids := r.ints "ids"
      if op.name == "remove" then
        s := { s with order := ids.filterMap fun i => (s.order.find? (·.1 == i)) }
      s := { s with totalAV := r.flt "total" }
  return s

def relevant (r : Rec) : Bool :=
  ["started", "TurnReset", "GaugeChange", "CostChange", "TurnTargetsAdded", "err", "panic"].contains r.name

def fieldDiff (a b : Rec) : String :=
  if a.name != b.name then s!"implementation reported {b.name}, documented behaviour is {a.name}" else
  match (a.kv.zip b.kv).find? (fun (x, y) => !(x.1 == y.1 && Wire.tolVal x.2 y.2)) with
  | some (x, y) =>
    let show_ (v : String) : String :=
      ",".intercalate ((v.splitOn ",").map fun t => match Wire.parseF t with | some f => toString f | none => t)
    s!"{b.name}.{y.1}: implementation {show_ y.2}, documented {show_ x.2}"
  | none => s!"{b.name}"

def prop (trace : List (Rec × List Rec)) : Option String := Id.run do
  let mut s := TurnAdapter.init
  for (op, obs) in trace do
    -- outside the property's domain (speeds are positive): stop judging this history
    if op.name == "add" && (op.ints "ids").any (fun i => !(s.spd i > 0)) then return none
    -- ... and added units are new (OpValid): a unit is in the turn order at most once
    if op.name == "add" && ((op.ints "ids").any (fun i => s.order.any (·.1 == i)) || !(op.ints "ids").Nodup) then return none
    if op.name == "spd" && !(op.flt "v" > 0) then return none
    if op.name == "setcost" && op.flt "amt" < 0 then return none
    if op.name == "modcost" && s.cost + op.flt "amt" < 0 then return none
    if obs.any (·.name == "panic") then
      return some s!"panic: {op.name} crashed instead of returning an error"
    let (s', mobs, _) := TurnAdapter.stepRec s op
    let m := mobs.filter relevant; let o := obs.filter relevant
    if m.length != o.length then
      return some s!"{op.name}: implementation reported {o.map (·.name)}, documented behaviour is {m.map (·.name)}"
    for (a, b) in m.zip o do
      if !Wire.tolEq a b then return some (s!"{op.name}: " ++ fieldDiff a b)
    -- the battle clock: unchanged by everything but a turn start, which adds the elapsed action value
    for r in obs do
      if r.name == "order" && r.has "total" && !Wire.closeF (r.flt "total") s'.totalAV then
        return some s!"{op.name}: the battle clock reads {r.flt "total"}, documented {s'.totalAV} (the clock before plus the elapsed action value of turn starts only)"
    -- elapsed action value never negative; no gauge below zero
    for r in obs do
      if r.name == "started" && r.flt "av" < 0 then return some "negative elapsed action value"
      if r.has "gauges" && (r.ints "gauges").any (· < 0) then return some "a gauge went below zero"
    s := resync s' op obs
  return none

end TurnProp
