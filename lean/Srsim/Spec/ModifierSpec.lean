import Srsim.Model.Modifier
/-! Vocabulary of the C05 / C06 theorems. -/
namespace Modifier
variable {α : Type} [Num α]

def uids (l : List (Inst α)) : List Nat := l.map (·.uid)

/-- a catalog without listener scripts: the manager's own behaviour, no re-entrancy -/
def NoHooks (cat : Catalog α) : Prop :=
  ∀ c ∈ cat, c.onAdd = [] ∧ c.onRemove = [] ∧ c.onDispel = [] ∧ c.onExtDur = [] ∧ c.onExtCnt = [] ∧
    c.onPropChange = [] ∧ c.onPhase1 = [] ∧ c.onPhase2 = []

/-- the `removed` announcements of a trace, as (unit, uid) -/
def removedUids (tr : List (Ev α)) : List (Int × Nat) :=
  tr.filterMap fun | .removed t i => some (t, i.uid) | _ => none

def dispelledUids (tr : List (Ev α)) : List (Int × Nat) :=
  tr.filterMap fun | .dispelled t i => some (t, i.uid) | _ => none

/-- contribution of one instance to property `p` (zero entries are skipped by `AddAll`) -/
def contrib (i : Inst α) (p : Nat) : List α :=
  i.stats.filterMap fun q => if q.1 == p && Num.neb q.2 0 then some q.2 else none

/-- all contributions to `p`, attached instances first (in order), then the base stats -/
def contribs (base : List (Nat × α)) (l : List (Inst α)) (p : Nat) : List α :=
  l.flatMap (contrib · p) ++ (base.filterMap fun q => if q.1 == p && Num.neb q.2 0 then some q.2 else none)

end Modifier
