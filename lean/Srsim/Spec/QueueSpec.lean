import Srsim.Model.Queue
/-! Abstract queue: the pending tasks as a list; `pop` takes the minimum by (priority, id). -/
namespace Queue

structure SQ where
  pending : List Task := []
  counter : Nat := 0

/-- minimum by `less` (first minimal element) -/
def minTask : List Task → Option Task
  | [] => none
  | t :: r => match minTask r with
    | none => some t
    | some m => if less m t then some m else some t

def sInsert (q : SQ) (prio src tag : Int) : SQ :=
  { pending := q.pending ++ [⟨prio, src, tag, q.counter⟩], counter := q.counter + 1 }

def sPop (q : SQ) : Option (Task × SQ) :=
  match minTask q.pending with
  | none => none
  | some m => some (m, { q with pending := q.pending.erase m })

def sStep (q : SQ) : Op → SQ × List Out
  | .insert p s t => (sInsert q p s t, [])
  | .pop =>
    match sPop q with
    | none => (q, [.crash])
    | some (t, q') => (q', [.popped t.tag t.prio t.src])
  | .isEmpty => (q, [.empty q.pending.isEmpty])

def run (q : Q) : List Op → List Out
  | [] => []
  | op :: ops => (step q op).2 ++ run (step q op).1 ops

def sRun (q : SQ) : List Op → List Out
  | [] => []
  | op :: ops => (sStep q op).2 ++ sRun (sStep q op).1 ops

end Queue
