import Srsim.Wire
/-
C16 as a decidable predicate on an implementation trace of the shield manager.
Search machinery only (see `Props/C16.lean` for the theorems).
-/
namespace ShieldProp

abbrev SList := List (Int × Float)

structure Acc where
  lists : List (Int × SList) := []
  bad : Option String := none

def Acc.fail (a : Acc) (m : String) : Acc := if a.bad.isSome then a else { a with bad := some m }
def Acc.get (a : Acc) (t : Int) : SList := ((a.lists.find? (·.1 == t)).map (·.2)).getD []
def Acc.set (a : Acc) (t : Int) (l : SList) : Acc :=
  { a with lists := (t, l) :: a.lists.filter (·.1 != t) }

def close (x y : Float) : Bool :=
  x == y || (x - y).abs ≤ 1e-9 * (x.abs + y.abs)

def maxHP (l : SList) : Float := l.foldl (fun m p => if p.2 > m then p.2 else m) 0
def dimF (a b : Float) : Float := if a - b > 0 then a - b else 0

def parseTerms (r : Rec) : List (Nat × Float) :=
  (r.list "terms").filterMap fun t => match t.splitOn ":" with
    | [k, v] => match k.toNat?, Wire.parseF v with
      | some k, some v => some (k, v)
      | _, _ => none
    | _ => none

def sameList (a b : SList) : Bool :=
  a.length == b.length && (a.zip b).all fun (x, y) => x.1 == y.1 && x.2 == y.2

def stepCheck (a : Acc) (op : Rec) (obs : List Rec) : Acc := Id.run do
  let mut a := a
  if obs.any (·.name == "panic") then return a.fail "panic"
  let some ls := obs.find? (·.name == "list") | return a.fail "no list observation"
  let tgt := op.int "tgt"
  let now : SList := (ls.ints "keys").zip (ls.flts "hps")
  let prev := a.get tgt
  let removedEvs := (obs.filter fun r => r.name == "ShieldRemoved" && r.int "tgt" == tgt).map (·.int "key")
  match op.name with
  | "add" =>
    let key := op.int "key"
    let srcMax := maxHP (a.get (op.int "src"))
    let base := (parseTerms op).foldl (fun acc (k, c) =>
      acc + (if k == 1 then c * op.flt "srcatk" else if k == 2 then c * op.flt "srcdef"
             else if k == 3 then c * op.flt "srchp" else if k == 4 then c * op.flt "tgthp"
             else if k == 5 then c * srcMax else 0)) 0 + op.flt "flat"
    let want := base * (1 + op.flt "boost") * (1 + op.flt "taken")
    let expected : SList :=
      if prev.any (·.1 == key) then prev.map fun p => if p.1 == key then (key, want) else p
      else prev ++ [(key, want)]
    if now.length != expected.length then a := a.fail "add: wrong number of shields (same key must replace, new key must add one)"
    else
      for (x, y) in now.zip expected do
        if x.1 != y.1 then a := a.fail "add: order or keys of the shield list differ from replace-in-place/append"
        else if x.1 == key then
          if !close x.2 y.2 then a := a.fail s!"strength: shield has {x.2}, documented strength is {y.2}"
        else if x.2 != y.2 then a := a.fail "add: another shield changed"
  | "remove" =>
    let key := op.int "key"
    let without := prev.filter (·.1 != key)
    -- with a listener that answers the removal with a backup shield (op fields rekey / rehp): that shield is on the unit afterwards
    let expected : SList :=
      if op.has "rekey" && prev.any (·.1 == key) then
        let rk := op.int "rekey"
        if without.any (·.1 == rk) then without.map fun p => if p.1 == rk then (rk, op.flt "rehp") else p
        else without ++ [(rk, op.flt "rehp")]
      else without
    if !sameList now expected then a := a.fail "remove: list is not the previous list without the key (plus the shield a listener of the removal added)"
    let want : List Int := if prev.any (·.1 == key) then [key] else []
    if removedEvs != want then a := a.fail "remove: removal not announced exactly once"
  | "absorb" =>
    let dmg := op.flt "dmg"
    let some ret := (obs.find? (·.name == "ret")).map (·.flt "out") | return a.fail "no return value"
    if prev.isEmpty || dmg ≤ 0 then
      if ret != dmg then a := a.fail "pass: damage not passed through unchanged"
      if !sameList now prev then a := a.fail "pass: shields changed"
      if !removedEvs.isEmpty then a := a.fail "pass: removal announced"
    else
      -- damage never leaves a shield below zero (a shield whose documented strength is negative — a bonus below
      -- -100 %, a negative flat value — is below zero until the first hit, which takes it away)
      if now.any (fun p => p.2 < 0) then a := a.fail "shield below zero after a hit"
      let wantOut := dimF dmg (maxHP prev)
      if ret != wantOut then a := a.fail s!"absorb: passed on {ret}, expected max(0, damage - strongest) = {wantOut}"
      if ret < 0 then a := a.fail "absorb: negative damage passed on"
      let after : SList := prev.map fun p => (p.1, dimF p.2 dmg)
      let expected := after.filter (·.2 != 0)
      if !sameList now expected then a := a.fail "absorb: shields are not all reduced by the damage (floored at zero, zeros removed, order kept)"
      let gone := (after.filter (·.2 == 0)).map (·.1)
      if removedEvs != gone then a := a.fail "absorb: depleted shields not announced exactly once"
  | _ => pure ()
  return a.set tgt now

def prop (trace : List (Rec × List Rec)) : Option String :=
  (trace.foldl (fun a (op, obs) => stepCheck a op obs) {}).bad

end ShieldProp
