import Srsim.Model.Attr
/-
Vocabulary of the C07 theorems: the observable quantities of a state, the change events of
one quantity of one unit extracted from an event list, and the range invariant.
-/
namespace Attr
variable {α : Type} [Num α]

def hpOf (s : St α) (id : Int) : Option α := (find? s id).map (·.hpRatio)
def energyOf (s : St α) (id : Int) : Option α := (find? s id).map (·.energy)
def stanceOf (s : St α) (id : Int) : Option α := (find? s id).map (·.stance)

def hpEv? (id : Int) : Ev α → Option (α × α)
  | .hpChange t o n _ _ _ => if t = id then some (o, n) else none
  | _ => none
def energyEv? (id : Int) : Ev α → Option (α × α)
  | .energyChange t _ o n => if t = id then some (o, n) else none
  | _ => none
def stanceEv? (id : Int) : Ev α → Option (α × α)
  | .stanceChange t _ o n => if t = id then some (o, n) else none
  | _ => none
def spEv? : Ev α → Option (Int × Int)
  | .spChange _ o n => some (o, n)
  | _ => none
def isBreak (id : Int) : Ev α → Bool
  | .stanceBreak t _ => t == id
  | _ => false
def isReset (id : Int) : Ev α → Bool
  | .stanceReset t => t == id
  | _ => false

def hpEvs (id : Int) (evs : List (Ev α)) : List (α × α) := evs.filterMap (hpEv? id)
def energyEvs (id : Int) (evs : List (Ev α)) : List (α × α) := evs.filterMap (energyEv? id)
def stanceEvs (id : Int) (evs : List (Ev α)) : List (α × α) := evs.filterMap (stanceEv? id)
def spEvs (evs : List (Ev α)) : List (Int × Int) := evs.filterMap spEv?
def breakCount (id : Int) (evs : List (Ev α)) : Nat := evs.countP (isBreak id)
def resetCount (id : Int) (evs : List (Ev α)) : Nat := evs.countP (isReset id)

/-- a list of (old,new) change reports is a chain starting at `v`: each `old` is the value
before (the `new` of the previous report) and no report is a non-change. -/
def ChainFrom {β : Type} [DecidableEq β] : β → List (β × β) → Prop
  | _, [] => True
  | v, (o, n) :: r => o = v ∧ n ≠ v ∧ ChainFrom n r

/-- the value after a chain of reports -/
def lastNew {β : Type} : β → List (β × β) → β
  | v, [] => v
  | _, (_, n) :: r => lastNew n r

/-- ranges of one unit -/
def UnitRange (u : Unit α) : Prop :=
  0 ≤ u.hpRatio ∧ u.hpRatio ≤ 1 ∧ 0 ≤ u.energy ∧ u.energy ≤ u.maxEnergy ∧
  0 ≤ u.stance ∧ u.stance ≤ u.maxStance

/-- the range invariant of C07 -/
def Inv (s : St α) : Prop := (∀ u ∈ s.units, UnitRange u) ∧ 0 ≤ s.sp ∧ s.sp ≤ 5

/-- what a caller must respect: a unit is registered with in-range attributes.  Every other
operation is unconstrained (any amounts, any floor, any ratio type, any target). -/
def OpValid : Op α → Prop
  | .add u => u.hpRatio ≤ 1 ∧ 0 ≤ u.energy ∧ 0 ≤ u.maxEnergy ∧ 0 ≤ u.stance ∧ u.stance ≤ u.maxStance
  | _ => True

end Attr

namespace Attr
/-- "exactly one report per change, none without": the reports `evs` of one quantity caused by
one call, against the value before and after the call. -/
def Exact {β : Type} (before after : Option β) (evs : List (β × β)) : Prop :=
  (evs = [] ∧ after = before) ∨
  (∃ o n, before = some o ∧ after = some n ∧ n ≠ o ∧ evs = [(o, n)])
end Attr

namespace Attr
variable {α : Type} [Num α]
/-- Exactness of one call's reports, for the unit `id`: HP ratio, energy, toughness and the
team's skill points each satisfy `Exact`; a break is announced iff toughness reaches zero and a
reset iff it leaves zero. `r` is the (state, events) result of the call from state `s`. -/
structure StepExact (s : St α) (r : St α × List (Ev α)) (id : Int) : Prop where
  hp : Exact (hpOf s id) (hpOf r.1 id) (hpEvs id r.2)
  energy : Exact (energyOf s id) (energyOf r.1 id) (energyEvs id r.2)
  stance : Exact (stanceOf s id) (stanceOf r.1 id) (stanceEvs id r.2)
  sp : Exact (some s.sp) (some r.1.sp) (spEvs r.2)
  brk : breakCount id r.2 ≤ 1 ∧
          (breakCount id r.2 = 1 ↔ (stanceOf s id ≠ some 0 ∧ stanceOf r.1 id = some 0))
  rst : resetCount id r.2 ≤ 1 ∧
          (resetCount id r.2 = 1 ↔ (stanceOf s id = some 0 ∧ stanceOf r.1 id ≠ some 0))
end Attr
