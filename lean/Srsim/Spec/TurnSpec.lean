import Srsim.Model.Turn
/-! Vocabulary of the C02 theorems. -/
namespace Turn
variable {α : Type} [Num α]

def ids (s : St α) : List Int := s.order.map (·.1)

/-- reachable-state invariant: unit ids are distinct, no gauge is below zero, the battle clock is
not negative, the gauge cost is not negative -/
def Inv (s : St α) : Prop :=
  (ids s).Nodup ∧ (∀ t ∈ s.order, 0 ≤ t.2) ∧ 0 ≤ s.totalAV ∧ 0 ≤ s.cost

/-- all speeds the manager can read are positive -/
def SpeedsPos (s : St α) : Prop := ∀ i, 0 < s.spd i

/-- what callers must respect: speeds stay positive, added units are new, the gauge cost is not
driven below zero.  Gauge amounts are unconstrained. -/
def OpValid (s : St α) : Op α → Prop
  | .spd _ v => 0 < v
  | .add l => l.Nodup ∧ ∀ i ∈ l, i ∉ ids s
  | .setCost c => 0 ≤ c
  | .modCost c => 0 ≤ s.cost + c
  | _ => True

end Turn
