import Srsim.Model.Handler
/-! Vocabulary of the C18 theorems: the delivery specification. -/
namespace Handler

def depthGe (d : Nat) : Out → Prop
  | .call d' _ _ _ => d ≤ d'
  | .log d' _ _ _ => d ≤ d'
  | _ => False

/-- (listener, payload it saw) of the calls made at nesting depth `d` -/
def callsAt (d : Nat) (o : List Out) : List (Nat × Int) :=
  o.filterMap fun | .call d' _ lid x => if d' = d then some (lid, x) else none | _ => none

/-- (handler, payload, cancelled) of the log entries written at nesting depth `d` -/
def logsAt (d : Nat) (o : List Out) : List (Nat × Int × Bool) :=
  o.filterMap fun | .log d' h x c => if d' = d then some (h, x, c) else none | _ => none

def logCount (o : List Out) : Nat := o.countP fun | .log .. => true | _ => false

def mutSum : List Act → Int
  | [] => 0
  | .mutate k :: r => k + mutSum r
  | _ :: r => mutSum r

/-- does this listener cancel the emission? (only cancelable handlers honour `cancel`) -/
def cancelsL (kind : Nat) (l : L) : Bool := kind == 3 && l.script.contains Act.cancel

/-- change a listener makes to the payload (only mutable handlers honour `mut`) -/
def deltaL (kind : Nat) (l : L) : Int := if kind == 2 then mutSum l.script else 0

/-- **Delivery specification**: each listener once, in list order, every one seeing the
changes of those before it, stopping after the first that cancels. -/
def expectCalls (kind : Nat) : Int → List L → List (Nat × Int)
  | _, [] => []
  | x, l :: r => (l.lid, x) :: (if cancelsL kind l then [] else expectCalls kind (x + deltaL kind l) r)

/-- payload after delivery -/
def finalPayload (kind : Nat) : Int → List L → Int
  | x, [] => x
  | x, l :: r => if cancelsL kind l then x + deltaL kind l else finalPayload kind (x + deltaL kind l) r

def anyCancels (kind : Nat) (ls : List L) : Bool := ls.any (cancelsL kind)

/-- ascending priority -/
def Sorted (ls : List L) : Prop := ls.Pairwise (fun a b => a.prio ≤ b.prio)

end Handler
