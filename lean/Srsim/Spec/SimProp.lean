import Srsim.Adapter.Sim
import Srsim.Spec.Proto
/-
Property predicates of the battle-driver group on an implementation trace: the wire records are
parsed back into `Sim.Ev` and judged by the definitions of `Spec/Proto.lean` (C03, C08, C09);
C11 compares the decision-relevant projection of the stream with the model's.
-/
namespace SimProp
open Sim Proto

def parseOrder (s : String) : List (Int × Int) :=
  if s == "-" || s == "" then [] else
  (s.splitOn "|").map fun p => match p.splitOn ":" with
    | [a, b] => (a.toInt?.getD 0, b.toInt?.getD 0)
    | _ => (0, 0)

def parseKey (s : String) : Nat :=
  if s == "verif-revive" then reviveKey else ((s.splitOn "-").getLast?.bind String.toNat?).getD 0

def recEv (r : Rec) : Option (Ev Float) :=
  match r.name with
  | "Initialize" => some .initialize
  | "CharactersAdded" => some (.charsAdded (r.ints "ids"))
  | "EnemiesAdded" => some (.enemiesAdded (r.ints "ids"))
  | "TurnTargetsAdded" => some (.targetsAdded (r.ints "ids") (parseOrder (r.str "order")))
  | "BattleStart" => some .battleStart
  | "TurnStart" => some (.turnStart (r.int "active") (r.flt "delta") (r.flt "total") (parseOrder (r.str "order")))
  | "Phase1Start" => some .phase1Start
  | "Phase1End" => some .phase1End
  | "Phase2Start" => some .phase2Start
  | "Phase2End" => some .phase2End
  | "TurnEnd" => some .turnEnd
  | "TurnReset" => some (.turnReset (r.int "t") (r.flt "cost") (parseOrder (r.str "order")))
  | "GaugeChange" => some (.gauge (r.int "t") (r.int "old") (r.int "new") (parseOrder (r.str "order")))
  | "Termination" => some (.termination (r.nat "reason") (r.flt "total"))
  | "ActionStart" => some (.actionStart (r.int "owner") (r.nat "type") (r.bool "insert"))
  | "ActionEnd" => some (.actionEnd (r.int "owner") (r.nat "type") (r.bool "insert"))
  | "InsertStart" => some (.insertStart (r.int "owner") (parseKey (r.str "key")) (r.int "prio"))
  | "InsertEnd" => some (.insertEnd (r.int "owner") (parseKey (r.str "key")) (r.int "prio"))
  | "AttackStart" => some (.attackStart (r.int "a") (r.nat "type"))
  | "AttackEnd" => some (.attackEnd (r.int "a") (r.nat "type"))
  | "HitStart" => some (.hitStart (r.int "a") (r.int "d"))
  | "HitEnd" => some (.hitEnd (r.int "a") (r.int "d") (r.flt "total") (r.flt "ratio"))
  | "HealStart" => some (.healStart (r.int "src") (r.int "t"))
  | "HealEnd" => some (.healEnd (r.int "src") (r.int "t"))
  | "HPChange" => some (.hpChange (r.int "t") (r.flt "old") (r.flt "new") (r.bool "dmg"))
  | "LimboWaitHeal" => some (.limbo (r.int "t") (r.bool "c"))
  | "TargetDeath" => some (.death (r.int "t") (r.int "killer"))
  | "SPChange" => some (.sp (r.int "old") (r.int "new"))
  | "EnergyChange" => some (.energy (r.int "t") (r.flt "old") (r.flt "new"))
  | _ => none

def eventsOf (obs : List Rec) : List (Ev Float) := obs.filterMap recEv

def outcome (obs : List Rec) : String :=
  if obs.any (·.name == "panic") then "panic"
  else if obs.any (·.name == "hang") then "hang"
  else if obs.any (·.name == "capped") then "capped"
  else if obs.any (·.name == "runerr") then "runerr"
  else if obs.any (·.name == "result") then "result"
  else "none"

def forRuns (trace : List (Rec × List Rec)) (f : Rec → List Rec → Option String) : Option String :=
  trace.findSome? fun (op, obs) =>
    if op.name != "run" then none
    else if outcome obs == "panic" then some ("the run panicked: " ++ ((obs.find? (·.name == "panic")).map (·.str "msg")).getD "")
    else if outcome obs == "hang" then some "the run does not stop: it neither returned nor emitted another event before the deadline"
    else f op obs

/-- C03 -/
def protoProp (trace : List (Rec × List Rec)) : Option String :=
  forRuns trace fun _ obs =>
    if outcome obs != "result" then none
    else
      let evs := eventsOf obs
      match firstReject {} 0 evs with
      | some (i, st) =>
        let r := (obs.filter fun r => (recEv r).isSome).getD i (Rec.mk' "?")
        some s!"event #{i} ({Wire.Rec.render r}) is not allowed at protocol stage {st}"
      | none => if accepts evs then none else some "the run returned a result but the stream does not end with the termination event"

/-- C08 -/
def deathProp (trace : List (Rec × List Rec)) : Option String :=
  forRuns trace fun _ obs =>
    if outcome obs == "capped" then none
    else match deathRun {} (eventsOf obs) with
      | .ok _ => none
      | .error m => some m

/-- C09 -/
def exitProp (trace : List (Rec × List Rec)) : Option String :=
  forRuns trace fun op obs =>
    if outcome obs == "runerr" then
      -- a run that stops with an error where the battle goes on (the same inputs give further turns) stopped
      -- early without a win, a loss or the cycle limit
      let (m, _) := SimAdapter.runModel op obs
      let turns (l : List Rec) := (l.filter (·.name == "TurnStart")).length
      if turns obs < turns m then
        some s!"the run stopped with an error after {turns obs} turns although the battle goes on (no side wiped out, cycle limit not reached; {turns m - turns obs} more turn(s) follow from the same inputs): {((obs.find? (·.name == "runerr")).map (·.str "msg")).getD ""}"
      else none
    else if outcome obs != "result" then none
    else
      let nchars := (op.ints "ckind").length
      let nunits := nchars + (op.list "ehp").length
      match exitRun nchars nunits (op.int "cycles") ({ clock := 0, dealt := 0, taken := 0 } : XSt Float) (eventsOf obs) with
      | .error m => some m
      | .ok x =>
        match obs.find? (·.name == "result") with
        | none => none
        | some r => resultCheck x (r.flt "dealt") (r.flt "taken") (r.flt "av") (r.flts "cd") (r.flts "ct")

/-- C02 on the battle driver's stream: in every turn that reaches its second phase the acting unit's gauge is
reset exactly once, when its action ends — after the first phase (and the action, if any) and before the second
phase's queue and modifiers run — and the reset names the acting unit.  Gauge operations of the second phase
therefore work on the reset gauge. -/
def turnResetProp (trace : List (Rec × List Rec)) : Option String :=
  forRuns trace fun _ obs => Id.run do
    if outcome obs == "capped" then return none
    let mut active : Int := -1
    let mut inTurn := false
    let mut resets := 0
    let mut phase2 := false
    for r in obs do
      if r.name == "TurnStart" then
        active := r.int "active"; inTurn := true; resets := 0; phase2 := false
      else if r.name == "TurnReset" then
        if !inTurn then return some "a gauge reset outside a turn"
        if phase2 then return some s!"the gauge of unit {r.int "t"} was reset after the second phase had begun, not when the action ended"
        if r.int "t" != active then return some s!"the turn of unit {active} reset the gauge of unit {r.int "t"}"
        resets := resets + 1
        if resets > 1 then return some s!"the gauge of unit {active} was reset {resets} times in one turn"
      else if r.name == "Phase2Start" then
        if inTurn && resets != 1 then return some s!"the second phase of unit {active}'s turn began with {resets} gauge resets (the action's end resets it once)"
        phase2 := true
      else if r.name == "TurnEnd" then inTurn := false
    return none

def isDecisionRec (r : Rec) : Bool :=
  r.name == "ActionStart" || r.name == "SPChange" || r.name == "pick" || r.name == "runerr" || r.name == "result" ||
  (r.name == "EnergyChange" && r.flt "new" == 0)

/-- C11: the actions performed, their types, the skill-point movements and the energy spent on
ultimates are the ones the script's decisions determine (computed by the model from the same
decision tables). -/
def scriptProp (trace : List (Rec × List Rec)) : Option String :=
  forRuns trace fun op obs =>
    if outcome obs == "capped" then none
    else
      let (m, _) := SimAdapter.runModel op obs
      let a := (m.filter isDecisionRec).map fun r => if r.name == "result" || r.name == "runerr" then r.name else Wire.Rec.render r
      let b := (obs.filter isDecisionRec).map fun r => if r.name == "result" || r.name == "runerr" then r.name else Wire.Rec.render r
      match (a.zip b).find? (fun p => p.1 != p.2) with
      | some (x, y) => some s!"the script's decisions lead to [{x}], the engine performed [{y}]"
      | none => if a.length != b.length then some s!"the script's decisions lead to {a.length} actions/SP/energy steps, the engine performed {b.length}" else none

def isTaskRec (r : Rec) : Bool :=
  r.name == "InsertStart" || (r.name == "ActionStart" && r.bool "insert") || r.name == "runerr" || r.name == "result"

/-- C10 at the driver: the queued tasks that are executed, in order, are the ones the queue rules
determine (least priority first, first-in first-out among equals, dropped exactly when the source
is dead or off the field or carries an abort flag), computed by the model from the same inputs. -/
def queueProp (trace : List (Rec × List Rec)) : Option String :=
  forRuns trace fun op obs =>
    if outcome obs == "capped" then none
    else
      let (m, _) := SimAdapter.runModel op obs
      let key (r : Rec) := if r.name == "result" || r.name == "runerr" then r.name else Wire.Rec.render r
      let a := (m.filter isTaskRec).map key
      let b := (obs.filter isTaskRec).map key
      match (a.zip b).find? (fun p => p.1 != p.2) with
      | some (x, y) => some s!"the queue rules execute [{x}] next, the engine executed [{y}]"
      | none => if a.length != b.length then some s!"the queue rules execute {a.length} tasks, the engine executed {b.length}" else none

end SimProp
