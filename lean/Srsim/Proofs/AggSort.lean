import Srsim.Spec.AggSpec
import Srsim.Proofs.NumRat
import Mathlib.Data.List.Perm.Basic
/-! Helper lemmas about `Agg.sortF` at `ℚ`. -/
namespace Agg

theorem sortF_le_iff (a b : Rat) : (!(decide (b < a))) = true ↔ a ≤ b := by
  simp

theorem sortF_perm (l : List Rat) : (sortF l).Perm l := by
  unfold sortF
  exact List.mergeSort_perm _ _

theorem sortF_length (l : List Rat) : (sortF l).length = l.length :=
  (sortF_perm l).length_eq

theorem sortF_sorted (l : List Rat) : (sortF l).Pairwise (fun a b => a ≤ b) := by
  have h := List.pairwise_mergeSort (le := fun (a b : Rat) => !(decide (b < a)))
    (by
      intro a b c h1 h2
      simp only [Bool.not_eq_true', decide_eq_false_iff_not, not_lt] at *
      exact le_trans h1 h2)
    (by
      intro a b
      simp only [Bool.or_eq_true, Bool.not_eq_true', decide_eq_false_iff_not, not_lt]
      exact le_total a b)
    l
  unfold sortF
  refine h.imp ?_
  intro a b hab
  simpa using hab

theorem sortF_eq_of_perm (l₁ l₂ : List Rat) (h : l₁.Perm l₂) : sortF l₁ = sortF l₂ := by
  refine List.Perm.eq_of_pairwise (le := fun (a b : Rat) => a ≤ b) ?_ (sortF_sorted l₁)
    (sortF_sorted l₂) ?_
  · intro a b _ _ h1 h2
    exact le_antisymm h1 h2
  · exact (sortF_perm l₁).trans (h.trans (sortF_perm l₂).symm)

end Agg
