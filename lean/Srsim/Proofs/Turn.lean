import Srsim.Spec.TurnSpec
import Srsim.Proofs.NumRat
import Mathlib.Data.List.Perm.Basic
import Mathlib.Data.List.Nodup
import Mathlib.Data.Rat.Floor
/-! Helper lemmas for the turn-manager model (C02). -/
namespace Turn

abbrev S := St Rat
abbrev E := Int × Int

/-- the comparison used by `sort.Stable`, as a relation on ℚ -/
theorem le_iff (s : S) (a b : E) : (!(decide (av s b < av s a))) = true ↔ av s a ≤ av s b := by
  simp [not_lt]

theorem sortOrder_perm (s : S) (l : List E) : (sortOrder s l).Perm l := List.mergeSort_perm _ _

theorem sortOrder_sorted (s : S) (l : List E) :
    (sortOrder s l).Pairwise (fun a b => av s a ≤ av s b) := by
  have h := List.pairwise_mergeSort (le := fun a b => !(decide (av s b < av s a)))
    (by
      intro a b c h1 h2
      rw [le_iff] at *; exact le_trans h1 h2)
    (by
      intro a b
      simp only [Bool.or_eq_true, le_iff]
      exact le_total _ _) l
  exact h.imp (fun {a b} hab => (le_iff s a b).mp hab)

theorem mem_sortOrder (s : S) (l : List E) (x : E) : x ∈ sortOrder s l ↔ x ∈ l :=
  (sortOrder_perm s l).mem_iff

theorem ids_sortOrder_perm (s : S) (l : List E) : ((sortOrder s l).map (·.1)).Perm (l.map (·.1)) :=
  (sortOrder_perm s l).map _

theorem mem_setG (l : List E) (id g : Int) (x : E) :
    x ∈ setG l id g ↔ (x.1 ≠ id ∧ x ∈ l) ∨ (x = (id, g) ∧ ∃ g', (id, g') ∈ l) := by
  unfold setG
  simp only [List.mem_map]
  constructor
  · rintro ⟨t, ht, rfl⟩
    by_cases h : t.1 = id
    · have hb : (t.1 == id) = true := by simpa using h
      simp only [hb, if_true]
      right; exact ⟨by rw [h], t.2, by rw [← h]; exact ht⟩
    · have hb : (t.1 == id) = false := by simpa using h
      simp only [hb, Bool.false_eq_true, if_false]
      left; exact ⟨h, ht⟩
  · rintro (⟨h1, h2⟩ | ⟨rfl, g', hg'⟩)
    · refine ⟨x, h2, ?_⟩
      have hb : (x.1 == id) = false := by simpa using h1
      simp [hb]
    · exact ⟨(id, g'), hg', by simp⟩

theorem ids_setG (l : List E) (id g : Int) : (setG l id g).map (·.1) = l.map (·.1) := by
  unfold setG
  rw [List.map_map]
  apply List.map_congr_left
  intro t _
  simp only [Function.comp]
  split_ifs <;> rfl

/-- with distinct ids, `moveTo` only rearranges -/
theorem moveTo_perm (l : List E) (id : Int) (n : Nat) (hn : (l.map (·.1)).Nodup) : (moveTo l id n).Perm l := by
  unfold moveTo
  cases hf : l.find? (fun t => t.1 == id) with
  | none => exact List.Perm.refl _
  | some t =>
    simp only
    have htm : t ∈ l := List.mem_of_find?_eq_some hf
    have hti : t.1 = id := by simpa using List.find?_some hf
    have h1 : (List.take n (l.filter (fun x => x.1 != id)) ++ [t] ++ List.drop n (l.filter (fun x => x.1 != id))).Perm
        (t :: l.filter (fun x => x.1 != id)) := by
      rw [List.append_assoc]
      refine List.perm_middle.trans (List.Perm.cons _ ?_)
      simp
    refine h1.trans ?_
    -- l is t together with the entries of other ids
    have h2 : l.Perm (l.filter (fun x => x.1 == id) ++ l.filter (fun x => !(x.1 == id))) :=
      (List.filter_append_perm _ _).symm
    have h3 : l.filter (fun x => x.1 == id) = [t] := by
      have hnd : l.Nodup := List.Nodup.of_map _ hn
      have hsub : (l.filter (fun x => x.1 == id)).Nodup := hnd.filter _
      have hall : ∀ x ∈ l.filter (fun x => x.1 == id), x = t := by
        intro x hx
        obtain ⟨hx1, hx2⟩ := List.mem_filter.mp hx
        have : x.1 = t.1 := by rw [hti]; simpa using hx2
        exact List.inj_on_of_nodup_map hn hx1 htm this
      have hmem : t ∈ l.filter (fun x => x.1 == id) := List.mem_filter.mpr ⟨htm, by simpa using hti⟩
      cases hfl : l.filter (fun x => x.1 == id) with
      | nil => rw [hfl] at hmem; cases hmem
      | cons a r =>
        rw [hfl] at hall hsub
        have ha : a = t := hall a (by simp)
        cases r with
        | nil => rw [ha]
        | cons b r' =>
          have hb : b = t := hall b (by simp)
          rw [ha, hb] at hsub
          simp at hsub
    rw [h3] at h2
    have : (fun x : E => x.1 != id) = (fun x : E => !(x.1 == id)) := by funext x; rfl
    rw [this]
    exact h2.symm

theorem trunc_le (x : Rat) (h : 0 ≤ x) : (Rat.truncZ x : Rat) ≤ x ∧ 0 ≤ Rat.truncZ x ∧ x < Rat.truncZ x + 1 := by
  unfold Rat.truncZ
  simp only [h, if_true]
  refine ⟨?_, ?_, ?_⟩
  · exact Int.floor_le x
  · exact Int.floor_nonneg.mpr h
  · exact Int.lt_floor_add_one x

end Turn
