import Srsim.Proofs.SimDeathContent
/-!
Proof of C08 over whole runs, part 3: the death check.
-/
set_option linter.unusedSectionVars false
set_option linter.unusedVariables false
namespace Sim
variable {α : Type} [Num α]
open Proto

theorem dst_of_evs_cons {s s' : S α} {d : DSt} {e : Ev α} (h : s'.evs = e :: s.evs) (hr : dst s = .ok d) :
    dst s' = deathStep d e := by
  simp only [dst, h, List.reverse_cons] at hr ⊢
  rw [deathRun_append, hr]

theorem setEnergy_sameU (s : S α) (t : Int) (a : α) : SameU s (setEnergy s t a) := by
  rcases setEnergy_cases s t a with h | ⟨u, e, hu, h | h⟩ <;> rw [h]
  · exact SameU.refl s
  · exact (setUnit_same s u { u with energy := e } t hu (unitOf_id s t u hu) rfl rfl).u
  · exact (setUnit_same s u { u with energy := e } t hu (unitOf_id s t u hu) rfl rfl).u.trans
      (SameU.of_units rfl rfl rfl rfl)

theorem energyOnDeath_sameU (s : S α) (k : Int) : SameU s (energyOnDeath s k) := by
  unfold energyOnDeath
  split
  · exact setEnergy_sameU _ _ _
  · exact SameU.refl s

theorem energyOnDeath_dst (s : S α) (k : Int) (d : DSt) (hr : dst s = .ok d) : dst (energyOnDeath s k) = .ok d := by
  rcases energyOnDeath_evs s k with h | ⟨o, n, h⟩
  · exact (dst_congr h).trans hr
  · rw [dst_of_evs_cons h hr]; rfl

theorem deathStep_death (d : DSt) (t k : Int) (h1 : t ∉ d.dead)
    (h2 : t ∈ d.pending ∨ (t ∈ d.limbo ∧ d.ending = true)) (h3 : k = lastDamager d t) :
    deathStep (α := α) d (.death t k) =
      .ok { d with dead := t :: d.dead, pending := d.pending.filter (· != t), limbo := d.limbo.filter (· != t) } := by
  have e1 : d.dead.contains t = false := by simpa using h1
  simp only [deathStep]
  rw [if_neg (by simp [h1])]
  rw [if_neg (by
    rcases h2 with h | ⟨h, _⟩
    · simp [h]
    · simp [h])]
  rw [if_neg (by
    rcases h2 with h | ⟨_, h⟩
    · simp [h]
    · simp [h])]
  rw [if_neg (by simp [h3])]

theorem InvF.congrF {F F' : Int → Prop} {p : Prop} {s : S α} {d : DSt} (h : InvF F p s d) (hF : ∀ x, F x ↔ F' x) :
    InvF F' p s d := by
  have : F = F' := funext fun x => propext (hF x)
  rw [← this]; exact h

theorem dstep_sameU (s : S α) (t : Int) :
    (dstep s t).queue = s.queue ∧ (dstep s t).active = s.active ∧ (∀ id, lifeOf (dstep s t) id = lifeOf s id) ∧
    (∀ id, killerOf (dstep s t) id = killerOf s id) ∧ (∀ id, (unitOf (dstep s t) id).isSome = (unitOf s id).isSome) := by
  have q := energyOnDeath_sameU { s with turn := (Turn.step s.turn (.remove t)).1 } (killerOf s t)
  exact ⟨q.queue, q.active, q.life, q.killer, q.some⟩

/-- one announcement -/
theorem dstep_st {F : Int → Prop} {p : Prop} (s : S α) (d : DSt) (t : Int) (hr : dst s = .ok d) (h : InvF F p s d)
    (hF : F t) (hk : lifeOf s t = 1 ∨ (lifeOf s t = 2 ∧ d.ending = true ∧ ¬ p)) :
    dst (dstep s t) = .ok { d with dead := t :: d.dead, pending := d.pending.filter (· != t),
                                   limbo := d.limbo.filter (· != t) } ∧
    InvF (fun x => F x ∧ x ≠ t) p (dstep s t)
      { d with dead := t :: d.dead, pending := d.pending.filter (· != t), limbo := d.limbo.filter (· != t) } := by
  obtain ⟨q1, q2, q3, q4, q5⟩ := dstep_sameU s t
  have hnd : t ∉ d.dead := fun hm => h.deadOff t hm hF
  constructor
  · have r1 : dst (energyOnDeath { s with turn := (Turn.step s.turn (.remove t)).1 } (killerOf s t)) = .ok d :=
      energyOnDeath_dst _ _ d hr
    unfold dstep
    rw [dst_emit _ r1]
    apply deathStep_death d t _ hnd
    · rcases hk with hk | ⟨hk, he, _⟩
      · exact Or.inl ((h.pend t).2 ⟨hF, hk⟩)
      · exact Or.inr ⟨(h.limb t).2 ⟨hF, hk⟩, he⟩
    · exact (h.killer t).symm
  · refine ⟨?_, ?_, ?_, ?_, ?_, ?_, ?_, ?_, ?_, ?_⟩
    · intro id hm hf
      rcases List.mem_cons.1 hm with hm | hm
      · exact hf.2 hm
      · exact h.deadOff id hm hf.1
    · intro id hf
      rw [q3]; exact h.life id hf.1
    · intro id
      rw [q3]
      simp only [List.mem_filter, bne_iff_ne, ne_eq]
      rw [h.pend id]
      constructor
      · rintro ⟨⟨a, b⟩, c⟩; exact ⟨⟨a, c⟩, b⟩
      · rintro ⟨⟨a, c⟩, b⟩; exact ⟨⟨a, b⟩, c⟩
    · intro id
      rw [q3]
      simp only [List.mem_filter, bne_iff_ne, ne_eq]
      rw [h.limb id]
      constructor
      · rintro ⟨⟨a, b⟩, c⟩; exact ⟨⟨a, c⟩, b⟩
      · rintro ⟨⟨a, c⟩, b⟩; exact ⟨⟨a, b⟩, c⟩
    · intro id
      rw [q4]; exact h.killer id
    · intro id hs
      rw [q5] at hs
      by_cases he : id = t
      · right; rw [he]; exact List.mem_cons_self ..
      · rcases h.units id hs with hf | hf
        · exact Or.inl ⟨hf, he⟩
        · exact Or.inr (List.mem_cons_of_mem _ hf)
    · intro x hx
      rw [dstep_order] at hx
      exact ⟨h.order x (List.eraseP_sublist.subset hx), eraseP_nodup_not_mem _ t h.ordNodup x hx⟩
    · rw [dstep_order]
      exact List.Nodup.sublist (List.Sublist.map _ List.eraseP_sublist) h.ordNodup
    · rw [q1]; exact h.queue
    · intro hp hm
      rw [q2] at hm ⊢
      rw [q3]
      rcases List.mem_cons.1 hm with hm | hm
      · rcases hk with hk | ⟨_, _, hnp⟩
        · rw [hm]; exact hk
        · exact absurd hp hnp
      · exact h.act hp hm

/-- the announcements of a death check -/
theorem dfold_st {p : Prop} : ∀ (ts : List Int) (F : Int → Prop) (s : S α) (d : DSt), dst s = .ok d → InvF F p s d →
    ts.Nodup → (∀ t ∈ ts, F t ∧ (lifeOf s t = 1 ∨ (lifeOf s t = 2 ∧ d.ending = true ∧ ¬ p))) →
    ∃ d', dst (ts.foldl dstep s) = .ok d' ∧ InvF (fun x => F x ∧ x ∉ ts) p (ts.foldl dstep s) d' ∧
      (∀ id, lifeOf (ts.foldl dstep s) id = lifeOf s id) ∧ (ts.foldl dstep s).active = s.active := by
  intro ts
  induction ts with
  | nil =>
    intro F s d hr h _ _
    exact ⟨d, hr, h.congrF (fun x => by simp), fun _ => rfl, rfl⟩
  | cons t ts ih =>
    intro F s d hr h hn hall
    obtain ⟨hn1, hn2⟩ := List.nodup_cons.1 hn
    obtain ⟨hF, hk⟩ := hall t (List.mem_cons_self ..)
    obtain ⟨r1, i1⟩ := dstep_st s d t hr h hF hk
    obtain ⟨_, q2, q3, _, _⟩ := dstep_sameU s t
    obtain ⟨d', r2, i2, l2, a2⟩ := ih (fun x => F x ∧ x ≠ t) (dstep s t) _ r1 i1 hn2 (by
      intro t' ht'
      obtain ⟨hF', hk'⟩ := hall t' (List.mem_cons_of_mem _ ht')
      refine ⟨⟨hF', fun e => hn1 (e ▸ ht')⟩, ?_⟩
      rw [q3]; exact hk')
    refine ⟨d', r2, i2.congrF ?_, fun id => (l2 id).trans (q3 id), a2.trans q2⟩
    intro x
    simp only [List.mem_cons, not_or]
    constructor
    · rintro ⟨⟨a, b⟩, c⟩; exact ⟨a, b, c⟩
    · rintro ⟨a, b, c⟩; exact ⟨⟨a, b⟩, c⟩

theorem willDie_iff (s : S α) (k : Bool) (id : Int) :
    willDie s k id = true ↔ (lifeOf s id ≠ 0 ∧ (lifeOf s id = 2 → k = true)) := by
  unfold willDie
  split
  · next h => simp [h]
  · next h => simp [h]
  · next h1 h2 =>
    simp only [true_iff]
    exact ⟨h1, fun e => absurd e h2⟩

theorem deathCheck_st (s : S α) (k : Bool) (p : Prop) (d : DSt) (h : St p s d)
    (hk : k = true → d.ending = true ∧ ¬ p) :
    ∃ d', St p (deathCheck s k) d' ∧ d'.pending = [] ∧ (k = true → d'.limbo = []) := by
  rw [deathCheck_eq]
  have hI := h.inv.inv
  have hts : s.chars.filter (willDie s k) ++ s.enemies.filter (willDie s k) = (s.chars ++ s.enemies).filter (willDie s k) := by
    rw [List.filter_append]
  rw [hts]
  have i0 : InvF (onField s) p { s with chars := s.chars.filter (fun id => !willDie s k id), enemies := s.enemies.filter (fun id => !willDie s k id) } d := hI.same (SameU.of_units rfl rfl rfl rfl)
  obtain ⟨d', r, i, l, _⟩ := dfold_st ((s.chars ++ s.enemies).filter (willDie s k)) (onField s) _ d
    (show dst { s with chars := s.chars.filter (fun id => !willDie s k id), enemies := s.enemies.filter (fun id => !willDie s k id) } = .ok d from h.run) i0
    (List.Nodup.sublist List.filter_sublist h.inv.nodup) (by
      intro t ht
      obtain ⟨hf, hw⟩ := List.mem_filter.1 ht
      refine ⟨hf, ?_⟩
      obtain ⟨w1, w2⟩ := (willDie_iff s k t).1 hw
      have hle := hI.life t hf
      show lifeOf s t = 1 ∨ (lifeOf s t = 2 ∧ d.ending = true ∧ ¬ p)
      by_cases h2 : lifeOf s t = 2
      · right; exact ⟨h2, hk (w2 h2)⟩
      · left; omega)
  have hl : ∀ id, lifeOf (((s.chars ++ s.enemies).filter (willDie s k)).foldl dstep
      { s with chars := s.chars.filter (fun id => !willDie s k id), enemies := s.enemies.filter (fun id => !willDie s k id) }) id = lifeOf s id := l
  have hc := dfold_chars ((s.chars ++ s.enemies).filter (willDie s k))
    { s with chars := s.chars.filter (fun id => !willDie s k id), enemies := s.enemies.filter (fun id => !willDie s k id) }
  have hfield : ∀ x, (onField s x ∧ x ∉ (s.chars ++ s.enemies).filter (willDie s k)) ↔
      x ∈ (s.chars ++ s.enemies).filter (fun id => !willDie s k id) := by
    intro x
    simp only [onField, List.mem_filter, not_and, Bool.not_eq_true, Bool.not_eq_eq_eq_not, Bool.not_true]
    constructor
    · rintro ⟨a, b⟩; exact ⟨a, b a⟩
    · rintro ⟨a, b⟩; exact ⟨a, fun _ => b⟩
  refine ⟨d', ⟨r, ⟨?_, ?_⟩⟩, ?_, ?_⟩
  · rw [hc.1, hc.2, ← List.filter_append]
    exact List.Nodup.sublist List.filter_sublist h.inv.nodup
  · refine i.congrF ?_
    intro x
    rw [hfield]
    unfold onField
    rw [hc.1, hc.2, List.filter_append]
  · apply List.eq_nil_iff_forall_not_mem.2
    intro id hm
    obtain ⟨⟨hf, hnt⟩, h1⟩ := (i.pend id).1 hm
    rw [hl] at h1
    apply hnt
    exact List.mem_filter.2 ⟨hf, (willDie_iff s k id).2 ⟨by omega, by omega⟩⟩
  · intro hkt
    apply List.eq_nil_iff_forall_not_mem.2
    intro id hm
    obtain ⟨⟨hf, hnt⟩, h1⟩ := (i.limb id).1 hm
    rw [hl] at h1
    apply hnt
    exact List.mem_filter.2 ⟨hf, (willDie_iff s k id).2 ⟨by omega, fun _ => hkt⟩⟩

end Sim
