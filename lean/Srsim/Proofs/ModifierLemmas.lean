import Srsim.Spec.ModifierSpec
import Srsim.Proofs.NumRat
import Mathlib.Data.List.Perm.Basic
/-!
Helper lemmas for the C05 theorems: `replaceFirst`, index-filtered sublists, and the behaviour of
the listener machinery for catalogs without hooks.
-/
set_option linter.unusedSectionVars false
namespace Modifier
variable {α : Type} [Num α]

theorem replaceFirst_length {α : Type} (l : List (Inst α)) (p : Inst α → Bool) (f : Inst α → Inst α) :
    (replaceFirst l p f).length = l.length := by
  induction l with
  | nil => rfl
  | cons x r ih => unfold replaceFirst; split <;> simp [ih]

theorem replaceFirst_getElem? {α : Type} (l : List (Inst α)) (p : Inst α → Bool) (f : Inst α → Inst α) :
    ∃ k : Nat, ∀ j : Nat, j ≠ k → (replaceFirst l p f)[j]? = l[j]? := by
  induction l with
  | nil => exact ⟨0, fun _ _ => rfl⟩
  | cons x r ih =>
    unfold replaceFirst
    split
    · refine ⟨0, fun j hj => ?_⟩
      cases j with
      | zero => exact absurd rfl hj
      | succ j => simp
    · obtain ⟨k, hk⟩ := ih
      refine ⟨k + 1, fun j hj => ?_⟩
      cases j with
      | zero => simp
      | succ j => simp only [List.getElem?_cons_succ]; exact hk j (by omega)

theorem filterMap_range_sublist {β : Type} (l : List β) (p : Nat → Bool) :
    ((List.range l.length).filterMap (fun k => if p k then none else l[k]?)).Sublist l := by
  induction l generalizing p with
  | nil => simp
  | cons x r ih =>
    rw [List.length_cons, List.range_succ_eq_map, List.filterMap_cons]
    rw [List.filterMap_map]
    have := ih (fun k => p (k + 1))
    have e : ((fun k => if p k = true then none else (x :: r)[k]?) ∘ Nat.succ) =
        (fun k => if (fun k => p (k + 1)) k = true then none else r[k]?) := by
      funext k; simp
    rw [e]
    split
    · exact List.Sublist.cons _ this
    · rename_i h; 
      simp at h
      obtain ⟨_, rfl⟩ := h
      exact List.Sublist.cons_cons _ this

theorem cfgOf_nohooks (cat : Catalog α) (h : NoHooks cat) (n : Nat) :
    (cfgOf cat n).onAdd = [] ∧ (cfgOf cat n).onRemove = [] ∧ (cfgOf cat n).onDispel = [] ∧
    (cfgOf cat n).onExtDur = [] ∧ (cfgOf cat n).onExtCnt = [] ∧
    (cfgOf cat n).onPropChange = [] ∧ (cfgOf cat n).onPhase1 = [] ∧ (cfgOf cat n).onPhase2 = [] := by
  unfold cfgOf
  rw [List.getD_eq_getElem?_getD]
  by_cases hn : n < cat.length
  · rw [List.getElem?_eq_getElem hn]
    exact h _ (List.getElem_mem hn)
  · rw [List.getElem?_eq_none (by omega)]
    exact ⟨rfl, rfl, rfl, rfl, rfl, rfl, rfl, rfl⟩

theorem hookOf_nohooks (cat : Catalog α) (h : NoHooks cat) (n : Nat) (kind : String) :
    hookOf (cfgOf cat n) kind = [] := by
  obtain ⟨h1, h2, h3, h4, h5, h6, h7, h8⟩ := cfgOf_nohooks cat h n
  unfold hookOf
  split <;> first | assumption | rfl

theorem runHook_nohooks (cat : Catalog α) (h : NoHooks cat) (rec : St α → Op α → Option (St α))
    (s : St α) (t : Int) (i : Inst α) (kind : String) : runHook cat rec s t i kind = some s := by
  unfold runHook
  simp [hookOf_nohooks cat h]

theorem foldl_opt {σ β : Type} (step : Option σ → β → Option σ) (g : σ → β → σ)
    (h : ∀ s i, step (some s) i = some (g s i)) (l : List β) (s : σ) :
    List.foldl step (some s) l = some (l.foldl g s) := by
  induction l generalizing s with
  | nil => rfl
  | cons x r ih => simp only [List.foldl_cons, h]; exact ih _

theorem foldl_const {σ β : Type} (l : List β) (s : σ) : l.foldl (fun s _ => s) s = s := by
  induction l with
  | nil => rfl
  | cons x r ih => simp [ih]

theorem propChange_nohooks (cat : Catalog α) (h : NoHooks cat) (rec : St α → Op α → Option (St α))
    (s : St α) (t : Int) : propChange cat rec s t = some s := by
  unfold propChange
  simp only [runHook_nohooks cat h]
  rw [foldl_opt _ (fun s _ => s) (fun _ _ => rfl), foldl_const]

theorem foldl_emit (f : Inst α → List (Ev α)) (l : List (Inst α)) (s : St α) :
    l.foldl (fun s i => { s with trace := s.trace ++ f i }) s = { s with trace := s.trace ++ l.flatMap f } := by
  induction l generalizing s with
  | nil => simp
  | cons x r ih => simp only [List.foldl_cons, ih, List.flatMap_cons, List.append_assoc]

theorem emitRemove_nohooks (cat : Catalog α) (h : NoHooks cat) (rec : St α → Op α → Option (St α))
    (t : Int) (mods : List (Inst α)) (s : St α) :
    emitRemove cat rec s t mods = some { s with trace := s.trace ++ mods.map (Ev.removed t) } := by
  unfold emitRemove
  simp only [propChange_nohooks cat h, runHook_nohooks cat h, ite_self, emitEv]
  rw [foldl_opt _ (fun s i => { s with trace := s.trace ++ [Ev.removed t i] }) (fun _ _ => rfl),
    foldl_emit (fun i => [Ev.removed t i])]
  rw [List.map_eq_flatMap]

theorem emitDispel_nohooks (cat : Catalog α) (h : NoHooks cat) (rec : St α → Op α → Option (St α))
    (t : Int) (mods : List (Inst α)) (s : St α) :
    emitDispel cat rec s t mods =
      some { s with trace := s.trace ++ mods.flatMap (fun i => [Ev.dispelled t i, Ev.removed t i]) } := by
  unfold emitDispel
  simp only [runHook_nohooks cat h, emitRemove_nohooks cat h, emitEv, List.map_cons, List.map_nil,
    List.append_assoc, List.cons_append, List.nil_append]
  rw [foldl_opt _ (fun s i => { s with trace := s.trace ++ [Ev.dispelled t i, Ev.removed t i] }) (fun _ _ => rfl),
    foldl_emit (fun i => [Ev.dispelled t i, Ev.removed t i])]

end Modifier
