import Srsim.Model.Shield
import Srsim.Proofs.NumRat
import Mathlib.Order.Basic
import Mathlib.Data.List.Basic
/-! Helper lemmas for the shield model (C16). -/
namespace Shield

abbrev I := Inst Rat
abbrev S := St Rat

@[simp] theorem shieldsOf_setShields (s : S) (t t' : Int) (l : List I) :
    shieldsOf (setShields s t l) t' = if t' = t then l else shieldsOf s t' := rfl

theorem dim_def (a b : Rat) : dim a b = if 0 < a - b then a - b else 0 := by
  unfold dim; simp only [gt_iff_lt, Num.zero_rat]

theorem dim_eq (a b : Rat) : dim a b = max 0 (a - b) := by
  rw [dim_def]
  split_ifs with h
  · exact (max_eq_right (le_of_lt h)).symm
  · exact (max_eq_left (not_lt.mp h)).symm

theorem dim_nonneg (a b : Rat) : 0 ≤ dim a b := by rw [dim_eq]; exact le_max_left _ _

/-- `MaxShield` is the maximum of 0 and all strengths -/
theorem maxShield_foldl (l : List I) (m : Rat) :
    l.foldl (fun m i => if i.hp > m then i.hp else m) m = (l.map (·.hp)).foldl max m := by
  induction l generalizing m with
  | nil => rfl
  | cons i l ih =>
    simp only [List.foldl_cons, List.map_cons]
    rw [ih]
    congr 1
    split_ifs with h <;> simp at h
    · exact (max_eq_right (le_of_lt h)).symm
    · exact (max_eq_left h).symm

theorem maxShield_eq (l : List I) : maxShield l = (l.map (·.hp)).foldl max 0 := maxShield_foldl l 0

theorem foldl_max_ge (l : List Rat) (m : Rat) : m ≤ l.foldl max m := by
  induction l generalizing m with
  | nil => exact le_refl _
  | cons x l ih => exact le_trans (le_max_left _ _) (ih _)

theorem foldl_max_mem_le (l : List Rat) (m x : Rat) (h : x ∈ l) : x ≤ l.foldl max m := by
  induction l generalizing m with
  | nil => cases h
  | cons y l ih =>
    simp only [List.foldl_cons]
    rcases List.mem_cons.mp h with rfl | h
    · exact le_trans (le_max_right _ _) (foldl_max_ge _ _)
    · exact ih _ h

theorem maxShield_nonneg (l : List I) : 0 ≤ maxShield l := by
  rw [maxShield_eq]; exact foldl_max_ge _ _

theorem le_maxShield (l : List I) (i : I) (h : i ∈ l) : i.hp ≤ maxShield l := by
  rw [maxShield_eq]; exact foldl_max_mem_le _ _ _ (List.mem_map_of_mem h)

/-- the damage passed on is what exceeds the strongest shield -/
theorem damageOut_foldl (l : List I) (dmg m : Rat) (hm : 0 ≤ m) :
    l.foldl (fun out i => if dim dmg i.hp < out then dim dmg i.hp else out) (dim dmg m)
      = dim dmg (l.foldl (fun m i => if i.hp > m then i.hp else m) m) := by
  induction l generalizing m with
  | nil => rfl
  | cons i l ih =>
    simp only [List.foldl_cons]
    have key : (if dim dmg i.hp < dim dmg m then dim dmg i.hp else dim dmg m)
        = dim dmg (if i.hp > m then i.hp else m) := by
      simp only [dim_eq]
      by_cases h : i.hp > m
      · simp only [h, if_true]
        split_ifs with h2
        · rfl
        · have h3 := not_lt.mp h2
          have : max 0 (dmg - i.hp) ≤ max 0 (dmg - m) := max_le_max (le_refl _) (by linarith)
          exact le_antisymm h3 this
      · simp only [h, if_false]
        have : max 0 (dmg - m) ≤ max 0 (dmg - i.hp) := max_le_max (le_refl _) (by have := not_lt.mp h; linarith)
        split_ifs with h2
        · exact absurd h2 (not_lt.mpr this)
        · rfl
    rw [key]
    apply ih
    split_ifs with h
    · exact le_trans hm (le_of_lt h)
    · exact hm

theorem damageOut_eq (l : List I) (dmg : Rat) (hd : 0 < dmg) :
    damageOut l dmg = max 0 (dmg - maxShield l) := by
  have h0 : dim dmg 0 = dmg := by rw [dim_eq]; simp; exact le_of_lt hd
  unfold damageOut maxShield
  have := damageOut_foldl l dmg 0 (le_refl _)
  rw [h0] at this
  rw [this, dim_eq]

end Shield
