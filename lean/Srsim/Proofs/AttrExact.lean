import Srsim.Proofs.Attr

namespace Attr

theorem setEnergyU_exact {s : S} {u : U} (src : Int) (amt : Rat) (id : Int)
    (hf : find? s u.id = some u) :
    Exact (energyOf s id) (energyOf (setEnergyU s u src amt).1 id) (energyEvs id (setEnergyU s u src amt).2)
    ∧ hpOf (setEnergyU s u src amt).1 id = hpOf s id
    ∧ stanceOf (setEnergyU s u src amt).1 id = stanceOf s id
    ∧ hpEvs id (setEnergyU s u src amt).2 = []
    ∧ stanceEvs id (setEnergyU s u src amt).2 = []
    ∧ spEvs (setEnergyU s u src amt).2 = []
    ∧ breakCount id (setEnergyU s u src amt).2 = 0 ∧ resetCount id (setEnergyU s u src amt).2 = 0 := by
  unfold setEnergyU hpOf energyOf stanceOf
  have hid : ({ u with energy := clampTo amt u.maxEnergy } : U).id = u.id := rfl
  simp only [find?_setUnit' hf hid]
  refine ⟨?_, ?_, ?_, ?_, ?_, ?_, ?_, ?_⟩
  · by_cases h : id = u.id
    · subst h
      simp only [if_true, hf, Option.map_some]
      by_cases hn : u.energy = clampTo amt u.maxEnergy
      · left; simp [hn, energyEvs]
      · right
        refine ⟨_, _, rfl, rfl, fun e => hn e.symm, ?_⟩
        simp [hn, energyEvs, energyEv?]
    · have h' : ¬ u.id = id := fun e => h e.symm
      simp only [h, if_false]
      left
      refine ⟨?_, rfl⟩
      split_ifs <;> simp [energyEvs, energyEv?, h']
  · by_cases h : id = u.id
    · subst h; simp [hf]
    · simp [h]
  · by_cases h : id = u.id
    · subst h; simp [hf]
    · simp [h]
  · split_ifs <;> simp [hpEvs, hpEv?]
  · split_ifs <;> simp [stanceEvs, stanceEv?, List.filterMap_cons]
  · split_ifs <;> simp [spEvs, spEv?]
  · split_ifs <;> simp [breakCount, isBreak]
  · split_ifs <;> simp [resetCount, isReset]

theorem setStanceU_exact {s : S} {u : U} (src : Int) (amt : Rat) (id : Int)
    (hf : find? s u.id = some u) :
    Exact (stanceOf s id) (stanceOf (setStanceU s u src amt).1 id) (stanceEvs id (setStanceU s u src amt).2)
    ∧ hpOf (setStanceU s u src amt).1 id = hpOf s id
    ∧ energyOf (setStanceU s u src amt).1 id = energyOf s id
    ∧ hpEvs id (setStanceU s u src amt).2 = []
    ∧ energyEvs id (setStanceU s u src amt).2 = []
    ∧ spEvs (setStanceU s u src amt).2 = [] := by
  unfold setStanceU hpOf energyOf stanceOf
  have hid : (if Num.eqb u.stance (clampTo amt u.maxStance) then u
              else { u with stance := clampTo amt u.maxStance } : U).id = u.id := by split_ifs <;> rfl
  simp only [find?_setUnit' hf hid]
  refine ⟨?_, ?_, ?_, ?_, ?_, ?_⟩
  · by_cases h : id = u.id
    · subst h
      simp only [if_true, hf, Option.map_some]
      by_cases hn : u.stance = clampTo amt u.maxStance
      · left; simp [hn, stanceEvs]
      · right
        refine ⟨_, _, rfl, ?_, fun e => hn e.symm, ?_⟩
        · simp [hn]
        · simp only [Num.eqb_rat, hn, decide_false, Bool.false_eq_true, if_false]
          split_ifs <;> simp [stanceEvs, stanceEv?, List.filterMap_cons]
    · have h' : ¬ u.id = id := fun e => h e.symm
      simp only [h, if_false]
      left
      refine ⟨?_, rfl⟩
      split_ifs <;> simp [stanceEvs, stanceEv?, h']
  · by_cases h : id = u.id
    · subst h; split_ifs <;> simp [hf]
    · simp [h]
  · by_cases h : id = u.id
    · subst h; split_ifs <;> simp [hf]
    · simp [h]
  · split_ifs <;> simp [hpEvs, hpEv?]
  · split_ifs <;> simp [energyEvs, energyEv?]
  · split_ifs <;> simp [spEvs, spEv?]

end Attr

namespace Attr

theorem stepExact_same (s : S) (evs : List (Ev Rat)) (id : Int)
    (h1 : hpEvs id evs = []) (h2 : energyEvs id evs = []) (h3 : stanceEvs id evs = [])
    (h4 : spEvs evs = []) (h5 : breakCount id evs = 0) (h6 : resetCount id evs = 0) :
    StepExact s (s, evs) id := by
  refine ⟨?_, ?_, ?_, ?_, ?_, ?_⟩
  · simpa [h1] using exact_refl _
  · simpa [h2] using exact_refl _
  · simpa [h3] using exact_refl _
  · simpa [h4] using exact_refl _
  · simp only [h5]; exact ⟨by omega, ⟨fun h => by omega, fun h => absurd h.2 h.1⟩⟩
  · simp only [h6]; exact ⟨by omega, ⟨fun h => by omega, fun h => absurd h.1 h.2⟩⟩

theorem breakCount_hpEvents (u : U) (o n : Rat) (dmg : Bool) (id : Int) :
    breakCount id (hpEvents u o n dmg) = 0 := by
  unfold hpEvents breakCount; split_ifs <;> simp [isBreak]
theorem resetCount_hpEvents (u : U) (o n : Rat) (dmg : Bool) (id : Int) :
    resetCount id (hpEvents u o n dmg) = 0 := by
  unfold hpEvents resetCount; split_ifs <;> simp [isReset]

theorem emitHP_stepExact {s : S} {u : U} (src : Int) (n : Rat) (dmg : Bool) (id : Int)
    (hf : find? s u.id = some u) : StepExact s (emitHP s u src u.hpRatio n dmg) id := by
  obtain ⟨h1, h2, h3⟩ := emitHP_exact src n dmg id hf
  refine ⟨h1, ?_, ?_, ?_, ?_, ?_⟩
  · rw [h2]; simpa [emitHP, energyEvs_hpEvents] using exact_refl _
  · rw [h3]; simpa [emitHP, stanceEvs_hpEvents] using exact_refl _
  · simpa [emitHP, spEvs_hpEvents, setUnit_sp] using exact_refl _
  · rw [h3]; simp only [emitHP, breakCount_hpEvents]
    exact ⟨by omega, ⟨fun h => by omega, fun h => absurd h.2 h.1⟩⟩
  · rw [h3]; simp only [emitHP, resetCount_hpEvents]
    exact ⟨by omega, ⟨fun h => by omega, fun h => absurd h.1 h.2⟩⟩

theorem setEnergyU_stepExact {s : S} {u : U} (src : Int) (amt : Rat) (id : Int)
    (hf : find? s u.id = some u) : StepExact s (setEnergyU s u src amt) id := by
  obtain ⟨h1, h2, h3, h4, h5, h6, h7, h8⟩ := setEnergyU_exact src amt id hf
  refine ⟨?_, h1, ?_, ?_, ?_, ?_⟩
  · rw [h2, h4]; exact exact_refl _
  · rw [h3, h5]; exact exact_refl _
  · rw [h6]; simpa [setEnergyU, setUnit_sp] using exact_refl _
  · rw [h3, h7]; exact ⟨by omega, ⟨fun h => by omega, fun h => absurd h.2 h.1⟩⟩
  · rw [h3, h8]; exact ⟨by omega, ⟨fun h => by omega, fun h => absurd h.1 h.2⟩⟩

end Attr

namespace Attr

theorem setStanceU_counts {s : S} {u : U} (src : Int) (amt : Rat) (id : Int)
    (hf : find? s u.id = some u) :
    (breakCount id (setStanceU s u src amt).2 ≤ 1 ∧
      (breakCount id (setStanceU s u src amt).2 = 1 ↔
        (stanceOf s id ≠ some 0 ∧ stanceOf (setStanceU s u src amt).1 id = some 0))) ∧
    (resetCount id (setStanceU s u src amt).2 ≤ 1 ∧
      (resetCount id (setStanceU s u src amt).2 = 1 ↔
        (stanceOf s id = some 0 ∧ stanceOf (setStanceU s u src amt).1 id ≠ some 0))) := by
  unfold setStanceU stanceOf
  have hid : (if Num.eqb u.stance (clampTo amt u.maxStance) then u
              else { u with stance := clampTo amt u.maxStance } : U).id = u.id := by split_ifs <;> rfl
  simp only [find?_setUnit' hf hid]
  by_cases h : id = u.id
  · subst h
    simp only [if_true, hf, Option.map_some]
    by_cases hn : u.stance = clampTo amt u.maxStance
    · simp [hn, breakCount, resetCount]
    · by_cases h0 : clampTo amt u.maxStance = 0
      · have hs : ¬ u.stance = 0 := fun e => hn (e.trans h0.symm)
        simp [hn, h0, hs, breakCount, resetCount, isBreak, isReset]
      · by_cases hs : u.stance = 0
        · have h0' : ¬ 0 = clampTo amt u.maxStance := fun e => h0 e.symm
          simp [hn, h0, h0', hs, breakCount, resetCount, isBreak, isReset]
        · simp [hn, h0, hs, breakCount, resetCount, isBreak, isReset]
  · have h' : ¬ u.id = id := fun e => h e.symm
    simp only [h, if_false]
    constructor
    · have : breakCount id (if Num.eqb u.stance (clampTo amt u.maxStance) = true then []
          else (if Num.eqb (clampTo amt u.maxStance) 0 = true then [Ev.stanceBreak u.id src]
                else if Num.eqb u.stance 0 = true then [Ev.stanceReset u.id] else []) ++
               [Ev.stanceChange u.id src u.stance (clampTo amt u.maxStance)]) = 0 := by
        split_ifs <;> simp [breakCount, isBreak, h']
      rw [this]; exact ⟨by omega, ⟨fun h => by omega, fun h => absurd h.2 h.1⟩⟩
    · have : resetCount id (if Num.eqb u.stance (clampTo amt u.maxStance) = true then []
          else (if Num.eqb (clampTo amt u.maxStance) 0 = true then [Ev.stanceBreak u.id src]
                else if Num.eqb u.stance 0 = true then [Ev.stanceReset u.id] else []) ++
               [Ev.stanceChange u.id src u.stance (clampTo amt u.maxStance)]) = 0 := by
        split_ifs <;> simp [resetCount, isReset, h']
      rw [this]; exact ⟨by omega, ⟨fun h => by omega, fun h => absurd h.1 h.2⟩⟩

theorem setStanceU_stepExact {s : S} {u : U} (src : Int) (amt : Rat) (id : Int)
    (hf : find? s u.id = some u) : StepExact s (setStanceU s u src amt) id := by
  obtain ⟨h1, h2, h3, h4, h5, h6⟩ := setStanceU_exact src amt id hf
  obtain ⟨h7, h8⟩ := setStanceU_counts src amt id hf
  refine ⟨?_, ?_, h1, ?_, h7, h8⟩
  · rw [h2, h4]; exact exact_refl _
  · rw [h3, h5]; exact exact_refl _
  · rw [h6]; simpa [setStanceU, setUnit_sp] using exact_refl _

end Attr
