import Srsim.Model.Dispatch
import Srsim.Spec.DispatchSpec
/-
Lemmas tying the dispatch model (listener.go) to the documented table.
-/
namespace Dispatch

theorem flatMap_ite_single {α β} (l : List α) (p : α → Bool) (f : α → β) :
    (l.flatMap fun m => if p m then [f m] else []) = (l.filter p).map f := by
  induction l with
  | nil => rfl
  | cons a l ih => by_cases h : p a <;> simp [List.flatMap_cons, List.filter_cons, h, ih]

theorem pass_eq (s : Bool) (mods : Int → List Inst) (u : Int) (ln : Ln) :
    pass (mods u) ln = groupCalls s mods (one u ln) := by
  unfold pass groupCalls one admitted
  simp only [Bool.false_and, Bool.not_false, if_true, List.filter_cons, List.filter_nil, Bool.true_and]
  rw [← flatMap_ite_single]
  congr 1; funext m
  by_cases h : ln ∈ m.has <;> simp [h]

theorem passSnap_eq (s : Bool) (mods : Int → List Inst) (u : Int) (sl : List (Ln × Bool)) :
    passSnap s (mods u) sl = groupCalls s mods ⟨u, true, sl⟩ := by
  unfold passSnap groupCalls admitted
  congr 1; funext m
  cases s <;> cases m.snap <;> simp

theorem cancels_self (mods : Int → List Inst) (t : Int) (hu : ((mods t).map (·.uid)).Nodup)
    (m : Inst) (hm : m ∈ mods t) (ln : Ln) : cancels mods t (m.uid, ln) = m.cancel := by
  unfold cancels
  generalize mods t = l at hu hm
  induction l with
  | nil => cases hm
  | cons a l ih =>
    simp only [List.map_cons, List.nodup_cons] at hu
    simp only [List.any_cons]
    rcases List.mem_cons.1 hm with rfl | h
    · have : (l.any fun x => x.uid == m.uid && x.cancel) = false := by
        rw [List.any_eq_false]; intro x hx
        have : x.uid ≠ m.uid := fun e => hu.1 (e ▸ List.mem_map.2 ⟨x, hx, rfl⟩)
        simp [this]
      simp [this]
    · have hne : a.uid ≠ m.uid := fun e => hu.1 (e ▸ List.mem_map.2 ⟨m, h, rfl⟩)
      simp [hne, ih hu.2 h]

theorem limboPass_eq (p : Call → Bool) (l : List Inst)
    (hp : ∀ m ∈ l, p (m.uid, .limboWaitHeal) = m.cancel) :
    limboPass l = uptoFirst p ((l.filter (·.has.contains .limboWaitHeal)).map fun m => (m.uid, Ln.limboWaitHeal)) := by
  induction l with
  | nil => rfl
  | cons a l ih =>
    have ih := ih (fun m hm => hp m (List.mem_cons_of_mem _ hm))
    have ha := hp a List.mem_cons_self
    unfold limboPass
    by_cases h : Ln.limboWaitHeal ∈ a.has
    · by_cases c : a.cancel
      · simp [h, c, List.filter_cons, uptoFirst, ha]
      · simp [h, c, List.filter_cons, uptoFirst, ha, ih]
    · simp [h, List.filter_cons, ih]

theorem allCalls_one (mods : Int → List Inst) (s : Bool) (u : Int) (ln : Ln) :
    groupCalls s mods (one u ln) = (((mods u).filter (·.has.contains ln)).map fun m => (m.uid, ln)) := by
  rw [← pass_eq]; rfl

theorem dispatch_eq_spec (mods : Int → List Inst) (e : Evt)
    (hu : ∀ t, ((mods t).map (·.uid)).Nodup) :
    dispatch mods e = specCalls mods e := by
  cases e with
  | limbo t =>
    simp only [dispatch, specCalls, allCalls, groups, List.flatMap_cons, List.flatMap_nil, List.append_nil, allCalls_one]
    exact limboPass_eq _ _ (fun m hm => cancels_self mods t (hu t) m hm _)
  | attackStart a ts =>
    simp only [dispatch, specCalls, allCalls, groups, List.flatMap_cons, List.flatMap_map, Evt.snapshot, ← pass_eq]
  | attackEnd a ts =>
    simp only [dispatch, specCalls, allCalls, groups, List.flatMap_cons, List.flatMap_map, Evt.snapshot, ← pass_eq]
  | hitStart a d q s =>
    simp only [dispatch, specCalls, allCalls, groups, List.flatMap_cons, List.flatMap_nil, List.append_nil, Evt.snapshot, passSnap_eq]
  | hitEnd a d q s =>
    simp only [dispatch, specCalls, allCalls, groups, List.flatMap_cons, List.flatMap_nil, List.append_nil, Evt.snapshot, passSnap_eq]
  | healStart h t s =>
    simp only [dispatch, specCalls, allCalls, groups, List.flatMap_cons, List.flatMap_nil, List.append_nil, Evt.snapshot, passSnap_eq]
  | healEnd h t s =>
    simp only [dispatch, specCalls, allCalls, groups, List.flatMap_cons, List.flatMap_nil, List.append_nil, Evt.snapshot, passSnap_eq]
  | _ =>
    simp only [dispatch, specCalls, allCalls, groups, List.flatMap_cons, List.flatMap_nil, List.append_nil, List.append_assoc, Evt.snapshot, ← pass_eq]

/-- non-limbo events: dispatch is the table -/
theorem dispatch_calls (mods : Int → List Inst) (e : Evt) (hl : e.isLimbo = false) :
    (dispatch mods e).1 = allCalls mods e := by
  cases e with
  | limbo t => simp [Evt.isLimbo] at hl
  | attackStart a ts =>
    simp only [dispatch, allCalls, groups, List.flatMap_cons, List.flatMap_map, Evt.snapshot, ← pass_eq]
  | attackEnd a ts =>
    simp only [dispatch, allCalls, groups, List.flatMap_cons, List.flatMap_map, Evt.snapshot, ← pass_eq]
  | hitStart a d q s =>
    simp only [dispatch, allCalls, groups, List.flatMap_cons, List.flatMap_nil, List.append_nil, Evt.snapshot, passSnap_eq]
  | hitEnd a d q s =>
    simp only [dispatch, allCalls, groups, List.flatMap_cons, List.flatMap_nil, List.append_nil, Evt.snapshot, passSnap_eq]
  | healStart h t s =>
    simp only [dispatch, allCalls, groups, List.flatMap_cons, List.flatMap_nil, List.append_nil, Evt.snapshot, passSnap_eq]
  | healEnd h t s =>
    simp only [dispatch, allCalls, groups, List.flatMap_cons, List.flatMap_nil, List.append_nil, Evt.snapshot, passSnap_eq]
  | _ =>
    simp only [dispatch, allCalls, groups, List.flatMap_cons, List.flatMap_nil, List.append_nil, List.append_assoc, Evt.snapshot, ← pass_eq]

theorem mem_groupCalls (s : Bool) (mods : Int → List Inst) (g : Group) (c : Call) :
    c ∈ groupCalls s mods g ↔
      ∃ m ∈ mods g.unit, admitted s g m = true ∧ m.uid = c.1 ∧ (c.2, true) ∈ g.slots ∧ c.2 ∈ m.has := by
  unfold groupCalls
  simp only [List.mem_flatMap]
  constructor
  · rintro ⟨m, hm, h⟩
    by_cases ha : admitted s g m = true
    · simp only [ha, if_true, List.mem_map, List.mem_filter] at h
      obtain ⟨p, ⟨hp, hq⟩, rfl⟩ := h
      simp only [Bool.and_eq_true, List.contains_iff_mem] at hq
      refine ⟨m, hm, ha, rfl, ?_, hq.2⟩
      have : p = (p.1, true) := by cases p; simp_all
      simpa [← this] using hp
    · simp [ha] at h
  · rintro ⟨m, hm, ha, hu, hs, hh⟩
    refine ⟨m, hm, ?_⟩
    simp only [ha, if_true, List.mem_map, List.mem_filter]
    exact ⟨(c.2, true), ⟨hs, by simp [hh]⟩, by cases c; simp_all⟩

theorem complete (mods : Int → List Inst) (e : Evt) (hl : e.isLimbo = false)
    (g : Group) (hg : g ∈ groups e) (m : Inst) (hm : m ∈ mods g.unit)
    (ha : admitted e.snapshot g m = true) (ln : Ln) (hs : (ln, true) ∈ g.slots) (hh : ln ∈ m.has) :
    (m.uid, ln) ∈ (dispatch mods e).1 := by
  rw [dispatch_calls mods e hl]
  unfold allCalls
  exact List.mem_flatMap.2 ⟨g, hg, (mem_groupCalls _ _ _ _).2 ⟨m, hm, ha, rfl, hs, hh⟩⟩

theorem uptoFirst_sub (p : Call → Bool) (l : List Call) : ∀ c ∈ (uptoFirst p l).1, c ∈ l := by
  induction l with
  | nil => intro c h; cases h
  | cons a l ih =>
    intro c h
    unfold uptoFirst at h
    by_cases hp : p a
    · simp [hp] at h; simp [h]
    · simp only [hp] at h
      rcases List.mem_cons.1 h with rfl | h
      · exact List.mem_cons_self
      · exact List.mem_cons_of_mem _ (ih c h)

theorem limboPass_sub (l : List Inst) :
    ∀ c ∈ (limboPass l).1, ∃ m ∈ l, m.uid = c.1 ∧ c.2 = .limboWaitHeal ∧ Ln.limboWaitHeal ∈ m.has := by
  induction l with
  | nil => intro c h; cases h
  | cons a l ih =>
    intro c h
    unfold limboPass at h
    by_cases hh : a.has.contains .limboWaitHeal
    · have hh' : Ln.limboWaitHeal ∈ a.has := by simpa using hh
      by_cases hc : a.cancel
      · simp [hh', hc] at h; subst h; exact ⟨a, List.mem_cons_self, rfl, rfl, hh'⟩
      · simp only [hh, hc, if_true] at h
        rcases List.mem_cons.1 h with rfl | h
        · exact ⟨a, List.mem_cons_self, rfl, rfl, hh'⟩
        · obtain ⟨m, hm, r⟩ := ih c h; exact ⟨m, List.mem_cons_of_mem _ hm, r⟩
    · simp only [hh] at h
      obtain ⟨m, hm, r⟩ := ih c h; exact ⟨m, List.mem_cons_of_mem _ hm, r⟩

theorem sound (mods : Int → List Inst) (e : Evt) (c : Call) (hc : c ∈ (dispatch mods e).1) :
    ∃ g ∈ groups e, ∃ m ∈ mods g.unit, admitted e.snapshot g m = true ∧ m.uid = c.1 ∧
      (c.2, true) ∈ g.slots ∧ c.2 ∈ m.has := by
  by_cases hl : e.isLimbo = false
  · rw [dispatch_calls mods e hl] at hc
    unfold allCalls at hc
    obtain ⟨g, hg, h⟩ := List.mem_flatMap.1 hc
    exact ⟨g, hg, (mem_groupCalls _ _ _ _).1 h⟩
  · cases e with
    | limbo t =>
      simp only [dispatch] at hc
      obtain ⟨m, hm, hu, h2, hh⟩ := limboPass_sub _ c hc
      refine ⟨one t .limboWaitHeal, by simp [groups], m, hm, by simp [admitted, one], hu, ?_, ?_⟩
      · simp [one, h2]
      · rw [h2]; exact hh
    | _ => simp [Evt.isLimbo] at hl

theorem heal_order (mods : Int → List Inst) (h t : Int) (s : Bool) :
    (dispatch mods (.healStart h t s)).1 =
      (((mods h).filter fun m => (m.snap || !s) && m.has.contains .beforeDealHeal).map fun m => (m.uid, Ln.beforeDealHeal)) ++
      (((mods t).filter fun m => (m.snap || !s) && m.has.contains .beforeBeingHeal).map fun m => (m.uid, Ln.beforeBeingHeal)) := by
  simp only [dispatch, passSnap]
  congr 1 <;>
  · rw [← flatMap_ite_single]
    congr 1; funext m
    cases s <;> cases m.snap <;> simp [List.filter_cons] <;> (repeat' split) <;> simp_all

theorem count_one (l : List Inst) (p : Inst → Bool) (ln : Ln) (m : Inst)
    (hu : (l.map (·.uid)).Nodup) (hm : m ∈ l) (hp : p m = true) :
    ((l.filter p).map fun x => (x.uid, ln)).count (m.uid, ln) = 1 := by
  induction l with
  | nil => cases hm
  | cons a l ih =>
    simp only [List.map_cons, List.nodup_cons] at hu
    rcases List.mem_cons.1 hm with rfl | h
    · have : ((l.filter p).map fun x => (x.uid, ln)).count (m.uid, ln) = 0 := by
        rw [List.count_eq_zero]; intro hc
        obtain ⟨x, hx, e⟩ := List.mem_map.1 hc
        have : x.uid = m.uid := by simpa using congrArg Prod.fst e
        exact hu.1 (this ▸ List.mem_map.2 ⟨x, (List.mem_filter.1 hx).1, rfl⟩)
      simp [List.filter_cons, hp, this]
    · have hne : a.uid ≠ m.uid := fun e => hu.1 (e ▸ List.mem_map.2 ⟨m, h, rfl⟩)
      by_cases hpa : p a = true
      · simp [List.filter_cons, hpa, List.count_cons, hne, ih hu.2 h]
      · simp [List.filter_cons, hpa, ih hu.2 h]

theorem count_other (l : List Inst) (ln ln' : Ln) (u : Nat) (h : ln ≠ ln') :
    (l.map fun x => (x.uid, ln)).count (u, ln') = 0 := by
  rw [List.count_eq_zero]; intro hc
  obtain ⟨x, _, e⟩ := List.mem_map.1 hc
  exact h (by simpa using congrArg Prod.snd e)

theorem heal_once (mods : Int → List Inst) (h t : Int) (s : Bool)
    (hu : ∀ u, ((mods u).map (·.uid)).Nodup) (m : Inst) :
    (m ∈ mods h → m.snap = true ∨ s = false → Ln.beforeDealHeal ∈ m.has →
      (dispatch mods (.healStart h t s)).1.count (m.uid, .beforeDealHeal) = 1) ∧
    (m ∈ mods t → m.snap = true ∨ s = false → Ln.beforeBeingHeal ∈ m.has →
      (dispatch mods (.healStart h t s)).1.count (m.uid, .beforeBeingHeal) = 1) := by
  rw [heal_order]
  constructor
  · intro hm hs hh
    rw [List.count_append, count_one _ _ _ _ (hu h) hm, count_other _ _ _ _ (by decide)]
    rcases hs with hs | hs <;> simp [hs, hh]
  · intro hm hs hh
    rw [List.count_append, count_one _ _ _ _ (hu t) hm, count_other _ _ _ _ (by decide)]
    rcases hs with hs | hs <;> simp [hs, hh]

theorem flatMap_filter {α β} (l : List α) (p : α → Bool) (f : α → List β) :
    (l.filter p).flatMap f = l.flatMap fun m => if p m then f m else [] := by
  induction l with
  | nil => rfl
  | cons a l ih => by_cases h : p a <;> simp [List.filter_cons, List.flatMap_cons, h, ih]

theorem hit_order (mods : Int → List Inst) (a d : Int) (q s : Bool) :
    (dispatch mods (.hitStart a d q s)).1 =
      ((mods a).filter fun m => m.snap || !s).flatMap (fun m =>
        (if m.has.contains .beforeHitAll then [(m.uid, Ln.beforeHitAll)] else []) ++
        (if q && m.has.contains .beforeHit then [(m.uid, Ln.beforeHit)] else [])) ++
      ((mods d).filter fun m => m.snap || !s).flatMap (fun m =>
        (if m.has.contains .beforeBeingHitAll then [(m.uid, Ln.beforeBeingHitAll)] else []) ++
        (if q && m.has.contains .beforeBeingHit then [(m.uid, Ln.beforeBeingHit)] else [])) := by
  simp only [dispatch, passSnap, flatMap_filter]
  congr 1 <;>
  · congr 1; funext m
    cases s <;> cases m.snap <;> cases q <;> simp [List.filter_cons] <;> (repeat' split) <;> simp_all

theorem limbo_first (mods : Int → List Inst) (t : Int) :
    let ls := (mods t).filter fun m => m.has.contains .limboWaitHeal
    let r := dispatch mods (.limbo t)
    (r.2 = ls.any (·.cancel)) ∧
    r.1 = ((ls.takeWhile fun m => !m.cancel) ++ (ls.dropWhile fun m => !m.cancel).take 1).map fun m => (m.uid, Ln.limboWaitHeal) := by
  simp only [dispatch]
  generalize mods t = l
  induction l with
  | nil => simp [limboPass]
  | cons a l ih =>
    unfold limboPass
    by_cases hh : Ln.limboWaitHeal ∈ a.has
    · by_cases hc : a.cancel = true
      · simp [hh, hc, List.filter_cons, List.takeWhile_cons, List.dropWhile_cons]
      · simp [hh, hc, List.filter_cons, List.takeWhile_cons, List.dropWhile_cons]
        simpa using ih
    · simp [hh, List.filter_cons]
      simpa using ih

end Dispatch
