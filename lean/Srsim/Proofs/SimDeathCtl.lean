import Srsim.Proofs.SimDeathCheck
/-!
Proof of C08 over whole runs, part 4: the control functions of the driver.
-/
set_option linter.unusedSectionVars false
set_option linter.unusedVariables false
namespace Sim
variable {α : Type} [Num α]
open Proto

/-! ### checkpoint events -/

theorem deathStep_actionStart (d : DSt) (o : Int) (ty : Nat) (ins : Bool) (hp : d.pending = []) (ho : o ∉ d.dead) :
    deathStep (α := α) d (.actionStart o ty ins) = .ok d := by
  simp [deathStep, isCheckpoint, hp, ho]

theorem deathStep_insertStart (d : DSt) (o : Int) (k : Nat) (pr : Int) (hp : d.pending = []) (ho : o ∉ d.dead) :
    deathStep (α := α) d (.insertStart o k pr) = .ok d := by
  simp [deathStep, isCheckpoint, hp, ho]

theorem deathStep_phase1End (d : DSt) (hp : d.pending = []) : deathStep (α := α) d .phase1End = .ok d := by
  simp [deathStep, isCheckpoint, hp]

theorem deathStep_turnReset (d : DSt) (id : Int) (c : α) (l : List (Int × Int)) (hp : d.pending = []) :
    deathStep d (.turnReset id c l) = .ok d := by
  simp [deathStep, isCheckpoint, hp]

theorem deathStep_termination (d : DSt) (r : Nat) (c : α) (hp : d.pending = []) :
    deathStep d (.termination r c) = .ok d := by
  simp [deathStep, isCheckpoint, hp]

theorem deathStep_turnEnd (d : DSt) (hp : d.pending = []) (hl : d.limbo = []) :
    deathStep (α := α) d .turnEnd = .ok { d with ending := false } := by
  simp [deathStep, isCheckpoint, hp, hl]

theorem deathStep_phase2End (d : DSt) : deathStep (α := α) d .phase2End = .ok { d with ending := true } := by
  simp [deathStep, isCheckpoint]

theorem deathStep_turnStart (d : DSt) (a : Int) (dl tot : α) (ord : List (Int × Int)) (hp : d.pending = [])
    (ha : a ∉ d.dead) (ho : ∀ x ∈ ord, x.1 ∉ d.dead) :
    deathStep d (.turnStart a dl tot ord) = .ok d := by
  have : ord.find? (fun p => decide (p.1 ∈ d.dead)) = none := by
    rw [List.find?_eq_none]
    intro x hx
    simpa using ho x hx
  simp [deathStep, isCheckpoint, hp, ha, this]

theorem St.emitD {p : Prop} {s : S α} {d : DSt} (h : St p s d) (e : Ev α) (he : deathStep d e = .ok d) :
    St p (Sim.emit s e) d :=
  ⟨(dst_emit e h.run).trans he, h.inv.emit⟩

/-! ### ready states -/

/-- between two units of work: the stream is accepted, coupled, and no death is due -/
def Rdy (p : Prop) (a : Int) (s : S α) : Prop := s.active = a ∧ ∃ d, St p s d ∧ d.pending = []

/-- the result of a piece of control -/
def PostD (p : Prop) (a : Int) (s : S α) : Prop := s.err.isSome = true ∨ Rdy p a s

theorem Rdy.qt {p : Prop} {a : Int} {s s' : S α} (h : Rdy p a s) (q : Qt s s') : Rdy p a s' := by
  obtain ⟨ha, d, hd, hp⟩ := h
  exact ⟨q.active.trans ha, d, q.st p d hd, hp⟩

theorem St.weaken {p : Prop} {s : S α} {d : DSt} (h : St p s d) : St False s d := ⟨h.run, h.inv.weaken⟩

theorem Rdy.weaken {p : Prop} {a : Int} {s : S α} (h : Rdy p a s) : Rdy False a s := by
  obtain ⟨ha, d, hd, hp⟩ := h
  exact ⟨ha, d, hd.weaken, hp⟩

theorem PostD.weaken {p : Prop} {a : Int} {s : S α} (h : PostD p a s) : PostD False a s := by
  rcases h with h | h
  · exact Or.inl h
  · exact Or.inr h.weaken

theorem PostD.rdy {p : Prop} {a : Int} {s : S α} (h : PostD p a s) (hn : stopped s = false) : Rdy p a s := by
  simp only [stopped, Bool.or_eq_false_iff] at hn
  rcases h with h | h
  · rw [hn.2] at h; cases h
  · exact h

theorem deathCheck_rdy (s : S α) (k : Bool) (p : Prop) (a : Int) (d : DSt) (ha : s.active = a) (h : St p s d)
    (hk : k = true → d.ending = true ∧ ¬ p) :
    s.active = a ∧ ∃ d', St p (deathCheck s k) d' ∧ d'.pending = [] ∧ (k = true → d'.limbo = []) :=
  ⟨ha, deathCheck_st s k p d h hk⟩

theorem deathCheck_rdy0 (s : S α) (p : Prop) (a : Int) (d : DSt) (ha : s.active = a) (h : St p s d) :
    Rdy p a (deathCheck s false) := by
  obtain ⟨d', h1, h2, _⟩ := deathCheck_st s false p d h (fun e => by cases e)
  exact ⟨(deathCheck_quiet s false).active.trans ha, d', h1, h2⟩

theorem exitCheck_rdy (cfg : Cfg) (s : S α) (p : Prop) (a : Int) (h : Rdy p a s) : Rdy p a (exitCheck cfg s) := by
  unfold exitCheck
  split
  · obtain ⟨ha, d, hd, hp⟩ := h
    refine ⟨ha, d, ?_, hp⟩
    exact (hd.emitD _ (deathStep_termination d _ _ hp)).same (Same.of_units rfl rfl rfl rfl rfl rfl) rfl
  · exact h

/-! ### units of work -/

/-- `open`, a program, `endAttack`, `close` -/
theorem bracket_st (cfg : Cfg) {p : Prop} {s1 : S α} {d : DSt} (h : St p s1 d) (prog : Nat) (src pt : Int) (e : Ev α)
    (he : Inert e) :
    (emit (endAttack (runProg cfg s1 prog src pt)) e).active = s1.active ∧
    ∃ d', St p (emit (endAttack (runProg cfg s1 prog src pt)) e) d' := by
  have t := ((runProg_tr cfg s1 prog src pt).trans (endAttack_qt _).tr).emit he
  exact ⟨t.active, t.st p d h⟩

theorem executeAction_st (cfg : Cfg) (s s' : S α) (id : Int) (ins : Bool) (p : Prop) (d : DSt)
    (h : St p s d) (hp : d.pending = []) (hid : id ∈ d.dead → lifeOf s id = 1)
    (he : executeAction cfg s id ins = some s') :
    s'.active = s.active ∧ ∃ d', St p s' d' := by
  unfold executeAction at he
  split at he
  · cases he; exact ⟨rfl, d, h⟩
  · next hal =>
    have hnd : id ∉ d.dead := by
      intro hm
      have := hid hm
      simp [isAlive, this] at hal
    split at he
    · simp only [] at he
      split at he
      · cases he
      · rename_i pt hev
        cases he
        have q := (Qt.same (s := s) (s' := { s with calls := fun i => if i == id then s.calls id + 1 else s.calls i })
          (Same.of_units rfl rfl rfl rfl rfl rfl) rfl)
        have q2 := fun amt => q.trans (modifySP_qt _ amt)
        have h1 := fun amt ty => ((q2 amt).st p d h).emitD (.actionStart id ty ins) (deathStep_actionStart d _ _ _ hp hnd)
        obtain ⟨a1, d', h2⟩ := bracket_st cfg (h1 _ _) _ id pt _ (inert_actionEnd id _ ins)
        exact ⟨a1.trans (q2 _).active, d', h2⟩
    · simp only [] at he
      cases he
      have q := (Qt.same (s := s) (s' := { s with pickN := s.pickN + 1 })
          (Same.of_units rfl rfl rfl rfl rfl rfl) rfl)
      have h1 := ((q.st p d h).emitD (.actionStart id 1 ins) (deathStep_actionStart d _ _ _ hp hnd)).emit
        (inert_pick (s.pickO s.pickN))
      obtain ⟨a1, d', h2⟩ := bracket_st cfg h1 _ id _ _ (inert_actionEnd id 1 ins)
      exact ⟨a1, d', h2⟩

theorem executeUlt_st (cfg : Cfg) (s : S α) (u : UltAsk) (p : Prop) (d : DSt)
    (h : St p s d) (hp : d.pending = []) (hnd : u.target ∉ d.dead) :
    (executeUlt cfg s u).active = s.active ∧ ∃ d', St p (executeUlt cfg s u) d' := by
  unfold executeUlt
  split
  · exact ⟨rfl, d, h⟩
  split
  · exact ⟨rfl, d, h⟩
  · simp only []
    exact bracket_st cfg (h.emitD (.actionStart u.target 3 true) (deathStep_actionStart d _ _ _ hp hnd)) _ _ _ _
      (inert_actionEnd _ _ _)

theorem execTask_st (cfg : Cfg) (s : S α) (t : Task) (p : Prop) (d : DSt)
    (h : St p s d) (hp : d.pending = []) (hok : TaskOK t) (hf : onField s t.src) :
    (execTask cfg s t).active = s.active ∧ ∃ d', St p (execTask cfg s t) d' := by
  have hnd : t.src ∉ d.dead := fun hm => h.inv.inv.deadOff _ hm hf
  unfold execTask
  split
  · next tgt hk =>
    have hsrc : t.src = tgt := by
      unfold TaskOK at hok; rw [hk] at hok; exact hok
    split
    · next s' he =>
      exact executeAction_st cfg s s' tgt true p d h hp (fun hm => absurd (hsrc ▸ hm) hnd) he
    · split
      · exact ⟨rfl, d, h.same (Same.of_units rfl rfl rfl rfl rfl rfl) rfl⟩
      · exact ⟨rfl, d, h⟩
  · next pr pt hk =>
    exact bracket_st cfg (h.emitD (.insertStart t.src pr t.prio) (deathStep_insertStart d _ _ _ hp hnd)) _ _ _ _
      (inert_insertEnd _ _ _)
  · next a hk =>
    have hsrc : t.src = a.target := by
      unfold TaskOK at hok; rw [hk] at hok; exact hok
    exact executeUlt_st cfg s a p d h hp (hsrc ▸ hnd)
  · next o hk =>
    have hsrc : t.src = o := by
      unfold TaskOK at hok; rw [hk] at hok; exact hok
    simp only []
    have h1 := h.emitD (.insertStart o reviveKey t.prio) (deathStep_insertStart d _ _ _ hp (hsrc ▸ hnd))
    have tr := ((((hpPrim_tr (emit s (.insertStart o reviveKey t.prio)) o o).trans
      (modUnit_qt _ o (fun u => { u with revive := false }) (fun x => ⟨rfl, rfl, rfl⟩)).tr).trans
      (endAttack_qt _).tr).emit (inert_insertEnd o reviveKey t.prio))
    exact ⟨tr.active, tr.st p d h1⟩

/-! ### the queue -/

theorem minTask_mem : ∀ (l : List Task) (m : Task), minTask l = some m → m ∈ l := by
  intro l
  induction l with
  | nil => intro m h; cases h
  | cons t ts ih =>
    intro m h
    unfold minTask at h
    split at h
    · cases h; exact List.mem_cons_self ..
    · next m' hm' =>
      split at h
      · cases h; exact List.mem_cons_of_mem _ (ih _ hm')
      · cases h; exact List.mem_cons_self ..

theorem popMin_spec (q0 : List Task) (t : Task) (q : List Task) (h : popMin q0 = some (t, q)) :
    t ∈ q0 ∧ ∀ x ∈ q, x ∈ q0 := by
  unfold popMin at h
  split at h
  · cases h
  · next m hm =>
    cases h
    exact ⟨minTask_mem _ _ hm, fun x hx => (List.mem_filter.1 hx).1⟩

theorem Rdy.same {p : Prop} {a : Int} {s s' : S α} (h : Rdy p a s) (q : Same s s') (he : s'.evs = s.evs) :
    Rdy p a s' := h.qt (Qt.same q he)

theorem queueLoop_dpost (cfg : Cfg) (p : Prop) (a : Int) :
    ∀ (f : Nat) (s : S α), Rdy p a s → PostD p a (queueLoop cfg f s) := by
  intro f
  induction f with
  | zero => intro s _; unfold queueLoop; exact Or.inl rfl
  | succ f ih =>
    intro s h
    unfold queueLoop
    split
    · exact Or.inr h
    · rename_i t q hpop
      obtain ⟨htq, hqs⟩ := popMin_spec _ _ _ hpop
      have hq : Rdy p a { s with queue := q } :=
        h.qt (Qt.frame rfl rfl rfl rfl rfl (OrdSub.refl _) (fun hh x hx => hh x (hqs x hx)))
      split
      · exact Or.inr (exitCheck_rdy cfg s p a h)
      split
      · exact ih _ hq
      · next hcond =>
        split <;> split <;> first | exact ih _ hq | skip
        all_goals
          simp only []
          obtain ⟨ha, d, hd, hp⟩ := hq
          have hf : onField s t.src := by
            simp only [Bool.or_eq_true, Bool.not_eq_true', not_or, Bool.not_eq_false] at hcond
            have := hcond.2
            simp only [List.contains_eq_mem, decide_eq_true_eq] at this
            exact List.mem_append.2 this
          obtain ⟨a1, d1, h1⟩ := execTask_st cfg { s with queue := q } t p d hd hp
            (h.2.choose_spec.1.inv.inv.queue t htq) hf
          have h2 := exitCheck_rdy cfg _ p a (deathCheck_rdy0 _ p a d1 (a1.trans ha) h1)
          split
          · exact Or.inr h2
          · have h3 := h2.qt (ultCheck_qt cfg _)
            split
            · exact Or.inr h3
            · exact ih _ h3

theorem executeQueue_dpost (cfg : Cfg) (f : Nat) (s : S α) (early : Bool) (p : Prop) (a : Int) (h : Rdy p a s) :
    PostD p a (executeQueue cfg f s early) := by
  have h1 := h.qt (ultCheck_qt cfg s)
  unfold executeQueue
  simp only []
  split
  · exact Or.inr h1
  split
  · exact Or.inr (exitCheck_rdy cfg _ p a h1)
  · exact queueLoop_dpost cfg p a f _ h1

/-! ### phase 2 and the end of the turn -/

theorem reset_cases (st : Turn.St α) :
    (∃ id c l, (Turn.step st .reset).2 = [.reset id c l]) ∨ (∃ k, (Turn.step st .reset).2 = [.err k]) := by
  simp only [Turn.step]
  split
  · exact Or.inr ⟨_, rfl⟩
  · exact Or.inl ⟨_, _, _, rfl⟩

theorem phase2_tail (cfg : Cfg) (f : Nat) (s1 : S α) (p : Prop) (a : Int) (h1 : Rdy p a s1) :
    PostD False a (if stopped (executeQueue cfg f (emit s1 .phase2Start) false) = true
      then executeQueue cfg f (emit s1 .phase2Start) false
      else exitCheck cfg (emit (deathCheck (emit (tickPhase2 (executeQueue cfg f (emit s1 .phase2Start) false))
        .phase2End) true) .turnEnd)) := by
  have h2 := executeQueue_dpost cfg f _ false p a (h1.qt ((Qt.refl s1).emit inert_phase2Start))
  split
  · exact h2.weaken
  · next hn =>
    obtain ⟨ha, d, hd, _⟩ := h2.rdy (by simpa using hn)
    have t := tickPhase2_tr (executeQueue cfg f (emit s1 .phase2Start) false)
    obtain ⟨d1, hd1⟩ := t.st p d hd
    have h3 : St False (emit (tickPhase2 (executeQueue cfg f (emit s1 .phase2Start) false)) .phase2End)
        { d1 with ending := true } :=
      St.dcongr (d := d1) hd1.weaken.inv.emit ((dst_emit _ hd1.run).trans (deathStep_phase2End d1)) rfl rfl rfl rfl
    obtain ⟨d2, hd2, hp2, hl2⟩ := deathCheck_st _ true False _ h3 (fun _ => ⟨rfl, fun e => e⟩)
    have h4 : St False (emit (deathCheck (emit (tickPhase2 (executeQueue cfg f (emit s1 .phase2Start) false))
        .phase2End) true) .turnEnd) { d2 with ending := false } :=
      St.dcongr (d := d2) hd2.inv.emit ((dst_emit _ hd2.run).trans (deathStep_turnEnd d2 hp2 (hl2 rfl))) rfl rfl rfl rfl
    refine Or.inr (exitCheck_rdy cfg _ False a ⟨?_, _, h4, hp2⟩)
    exact ((deathCheck_quiet (emit (tickPhase2 (executeQueue cfg f (emit s1 .phase2Start) false)) .phase2End) true).active.trans
      t.active).trans ha

theorem phase2_dpost (cfg : Cfg) (f : Nat) (s : S α) (p : Prop) (a : Int) (h : Rdy p a s) :
    PostD False a (phase2 cfg f s) := by
  have h0 : Rdy p a { s with turn := (Turn.step s.turn .reset).1 } :=
    h.qt (Qt.frame rfl rfl rfl rfl rfl (ordSub_reset _) (fun h => h))
  unfold phase2
  rcases reset_cases s.turn with ⟨id, c, l, hr⟩ | ⟨k, hr⟩
  · simp only [hr, List.foldl_cons, List.foldl_nil]
    apply phase2_tail cfg f _ p a
    obtain ⟨ha, d, hd, hp⟩ := h0
    exact ⟨ha, d, hd.emitD _ (deathStep_turnReset d _ _ _ hp), hp⟩
  · simp only [hr, List.foldl_cons, List.foldl_nil]
    exact phase2_tail cfg f _ p a h0

/-! ### a turn -/

theorem start_specD (st : Turn.St α) {id : Int} {av : α} {l : List (Int × Int × α)} {total : α}
    (h : (Turn.step st .start).2 = [.started id av l total]) :
    OrdSub st.order (Turn.step st .start).1.order ∧ id ∈ st.order.map (·.1) ∧
    ∀ x ∈ orderOf l, x.1 ∈ st.order.map (·.1) := by
  simp only [Turn.step] at h ⊢
  split at h
  · cases h
  · next hat =>
    rw [if_neg hat]
    have hs := ordSub_sort st st.order
    cases hsort : Turn.sortOrder st st.order with
    | nil => rw [hsort] at h; cases h
    | cons hd tl =>
      rw [hsort] at h hs
      simp only [List.cons.injEq, and_true] at h
      injection h with e1 e2 e3 e4
      have hadv := ordSub_advance st (hd :: tl) hd.1 (Turn.av st hd)
      refine ⟨hs.trans hadv, ?_, ?_⟩
      · rw [← e1]; exact hs.2 hd (List.mem_cons_self ..)
      · intro x hx
        rw [← e3] at hx
        simp only [orderOf, Turn.status, List.map_map, List.mem_map, Function.comp] at hx
        obtain ⟨y, hy, rfl⟩ := hx
        exact (hs.trans hadv).2 y hy

theorem Inv.newTurn {p : Prop} {s s' : S α} {d : DSt} (h : Inv p s d) (hc : s'.chars = s.chars)
    (he : s'.enemies = s.enemies) (hu : s'.units = s.units) (hq : s'.queue = s.queue)
    (ho : OrdSub s.turn.order s'.turn.order) (ha : s'.active ∉ d.dead) : Inv True s' d := by
  have h1 := h.frame (s' := { s' with active := s.active }) hc he hu rfl ho (by rw [hq]; exact h.inv.queue)
  have hF : onField s' = onField { s' with active := s.active } := rfl
  refine ⟨h1.nodup, ?_⟩
  rw [hF]
  exact { deadOff := h1.inv.deadOff, life := h1.inv.life, pend := h1.inv.pend, limb := h1.inv.limb,
          killer := h1.inv.killer, units := h1.inv.units, order := h1.inv.order, ordNodup := h1.inv.ordNodup,
          queue := h1.inv.queue, act := fun _ hm => absurd hm ha }

/-- the result of a turn -/
def PostTD (s : S α) : Prop := ∃ a, PostD False a s

theorem turn_dpost (cfg : Cfg) (f : Nat) (s : S α) (a : Int) (h : Rdy False a s) : PostTD (turn cfg f s) := by
  unfold turn
  simp only []
  split
  · rename_i id av st total hr
    obtain ⟨hord, hid, hst⟩ := start_specD s.turn hr
    obtain ⟨_, d, hd, hp⟩ := h
    have hI := hd.inv.inv
    have hnd : ∀ x, x ∈ s.turn.order.map (·.1) → x ∉ d.dead := by
      intro x hx hm
      obtain ⟨y, hy, rfl⟩ := List.mem_map.1 hx
      exact hI.deadOff _ hm (hI.order y hy)
    have i1 : Inv True { s with turn := (Turn.step s.turn .start).1, active := id } d :=
      hd.inv.newTurn rfl rfl rfl rfl hord (hnd id hid)
    have h1 : St True (emit (emit { s with turn := (Turn.step s.turn .start).1, active := id }
        (.turnStart id av total (orderOf st))) .phase1Start) d :=
      (St.emitD (show St True { s with turn := (Turn.step s.turn .start).1, active := id } d from ⟨hd.run, i1⟩)
        _ (deathStep_turnStart d id av total _ hp (hnd id hid)
        (fun x hx => hnd _ (hst x hx)))).emit inert_phase1Start
    have t1 := tickPhase1_tr cfg (emit (emit { s with turn := (Turn.step s.turn .start).1, active := id }
        (.turnStart id av total (orderOf st))) .phase1Start)
    obtain ⟨d1, hd1⟩ := t1.st True d h1
    have h2 : Rdy True id (deathCheck (tickPhase1 cfg (emit (emit
        { s with turn := (Turn.step s.turn .start).1, active := id }
        (.turnStart id av total (orderOf st))) .phase1Start)) false) :=
      deathCheck_rdy0 _ True id d1 t1.active hd1
    have hA : PostTD (phase2 cfg f (deathCheck (tickPhase1 cfg (emit (emit
        { s with turn := (Turn.step s.turn .start).1, active := id }
        (.turnStart id av total (orderOf st))) .phase1Start)) false)) :=
      ⟨id, phase2_dpost cfg f _ True id h2⟩
    split <;> first | exact hA | skip
    all_goals
      have p3 := executeQueue_dpost cfg f _ true True id h2
      split
      · exact ⟨id, p3.weaken⟩
      · rename_i hn
        obtain ⟨ha3, d3, hd3, hp3⟩ := p3.rdy (by simpa using hn)
        have h4 := hd3.emitD .phase1End (deathStep_phase1End d3 hp3)
        split
        · exact ⟨id, Or.inl rfl⟩
        · rename_i s4 he
          obtain ⟨a4, d4, hd4⟩ := executeAction_st cfg _ s4 id false True d3 h4 hp3 (by
            intro hm
            have := hd3.inv.inv.act trivial (by rw [ha3]; exact hm)
            rw [ha3] at this
            exact this) he
          exact ⟨id, phase2_dpost cfg f _ True id (deathCheck_rdy0 _ True id d4 (a4.trans ha3) hd4)⟩
  · exact ⟨a, Or.inl rfl⟩

theorem turns_dpost (cfg : Cfg) (qf : Nat) : ∀ (f : Nat) (s : S α), PostTD s → PostTD (turns cfg qf f s) := by
  intro f
  induction f with
  | zero =>
    intro s h
    unfold turns
    split
    · exact h
    · exact ⟨0, Or.inl rfl⟩
  | succ f ih =>
    intro s h
    unfold turns
    split
    · exact h
    · rename_i hn
      obtain ⟨a, hp⟩ := h
      exact ih _ (turn_dpost cfg qf s a (hp.rdy (by simpa using hn)))

/-! ### the start of the battle -/

theorem mem_cs (n : Nat) (x : Int) :
    x ∈ (List.range n).map (fun (i : Nat) => (i : Int) + 1) ↔ 1 ≤ x ∧ x ≤ n := by
  simp only [List.mem_map, List.mem_range]
  constructor
  · rintro ⟨i, hi, rfl⟩; omega
  · intro h; exact ⟨(x - 1).toNat, by omega, by omega⟩

theorem mem_es (n m : Nat) (x : Int) :
    x ∈ (List.range m).map (fun (i : Nat) => (i : Int) + 1 + n) ↔ (n : Int) + 1 ≤ x ∧ x ≤ n + m := by
  simp only [List.mem_map, List.mem_range]
  constructor
  · rintro ⟨i, hi, rfl⟩; omega
  · intro h; exact ⟨(x - 1 - n).toNat, by omega, by omega⟩

theorem field_nodup (n m : Nat) :
    ((List.range n).map (fun (i : Nat) => (i : Int) + 1) ++
      (List.range m).map (fun (i : Nat) => (i : Int) + 1 + n)).Nodup := by
  rw [List.nodup_append]
  refine ⟨?_, ?_, ?_⟩
  · exact List.Pairwise.map _ (fun a b h => by omega) List.nodup_range
  · exact List.Pairwise.map _ (fun a b h => by omega) List.nodup_range
  · intro a ha b hb
    rw [mem_cs] at ha
    rw [mem_es] at hb
    omega

theorem mem_field (cfg : Cfg) (x : Int) :
    x ∈ (List.range cfg.nchars).map (fun (i : Nat) => (i : Int) + 1) ++
      (List.range cfg.nenemies).map (fun (i : Nat) => (i : Int) + 1 + cfg.nchars) ↔ isValidId cfg x = true := by
  rw [List.mem_append, mem_cs, mem_es]
  simp only [isValidId, Bool.and_eq_true, decide_eq_true_eq]
  omega

/-- the coupling when the units have been added -/
theorem init_st (cfg : Cfg) (s X : S α) (p : Prop)
    (hX1 : X.chars = (List.range cfg.nchars).map (fun (i : Nat) => (i : Int) + 1))
    (hX2 : X.enemies = (List.range cfg.nenemies).map (fun (i : Nat) => (i : Int) + 1 + cfg.nchars))
    (hX3 : X.units = s.units) (hX4 : X.queue = [])
    (hX5 : OrdSub ((X.chars ++ X.enemies).map fun i => (i, Turn.baseGauge)) X.turn.order)
    (hdst : dst X = .ok {})
    (hunits : ∀ id, isValidId cfg id = true → ∃ u, unitOf s id = some u ∧ u.id = id ∧ u.life = 0 ∧ u.lastAtk = id)
    (hids : ∀ u ∈ s.units, isValidId cfg u.id = true) : St p X {} := by
  have hf : ∀ x, onField X x ↔ isValidId cfg x = true := by
    intro x; unfold onField; rw [hX1, hX2]; exact mem_field cfg x
  have hU : ∀ id, unitOf X id = unitOf s id := fun id => by simp only [unitOf, hX3]
  have hL : ∀ id, lifeOf X id = lifeOf s id := fun id => by simp only [lifeOf, hU]
  have hnd : (X.chars ++ X.enemies).Nodup := by rw [hX1, hX2]; exact field_nodup _ _
  have hmap : ((X.chars ++ X.enemies).map fun i => (i, Turn.baseGauge)).map (·.1) = X.chars ++ X.enemies := by
    rw [List.map_map]
    conv => rhs; rw [← List.map_id (X.chars ++ X.enemies)]
    rfl
  refine ⟨hdst, hnd, ?_⟩
  refine ⟨?_, ?_, ?_, ?_, ?_, ?_, ?_, ?_, ?_, ?_⟩
  · intro id hm; cases hm
  · intro id hfx
    obtain ⟨u, hu, _, hl, _⟩ := hunits id ((hf id).1 hfx)
    rw [hL, lifeOf_of hu, hl]; decide
  · intro id
    constructor
    · intro hm; cases hm
    · rintro ⟨hfx, h1⟩
      obtain ⟨u, hu, _, hl, _⟩ := hunits id ((hf id).1 hfx)
      rw [hL, lifeOf_of hu, hl] at h1; cases h1
  · intro id
    constructor
    · intro hm; cases hm
    · rintro ⟨hfx, h1⟩
      obtain ⟨u, hu, _, hl, _⟩ := hunits id ((hf id).1 hfx)
      rw [hL, lifeOf_of hu, hl] at h1; cases h1
  · intro id
    show id = killerOf X id
    unfold killerOf
    rw [hU]
    cases hu : unitOf s id with
    | none => rfl
    | some u =>
      have hid := unitOf_id s id u hu
      have hmem : u ∈ s.units := by
        unfold unitOf at hu
        exact List.mem_of_find?_eq_some hu
      obtain ⟨u', hu', _, _, hk⟩ := hunits id (by rw [← hid]; exact hids u hmem)
      rw [hu] at hu'
      cases hu'
      exact hk.symm
  · intro id hs
    left
    rw [hU] at hs
    cases hu : unitOf s id with
    | none => rw [hu] at hs; cases hs
    | some u =>
      have hid := unitOf_id s id u hu
      have hmem : u ∈ s.units := by
        unfold unitOf at hu
        exact List.mem_of_find?_eq_some hu
      rw [hf, ← hid]
      exact hids u hmem
  · intro x hx
    have := hX5.2 x hx
    rw [hmap] at this
    exact this
  · apply hX5.1
    rw [hmap]; exact hnd
  · rw [hX4]; intro t ht; cases ht
  · intro _ hm; cases hm

theorem ordSub_add (st : Turn.St α) (l : List Int) (ho : st.order = []) :
    OrdSub (l.map fun i => (i, Turn.baseGauge)) (Turn.addOrder st l) := by
  unfold Turn.addOrder
  rw [ho, List.nil_append]
  exact ordSub_sort _ _

theorem start_tailD (cfg : Cfg) (s3 : S α) (h : Rdy False 0 s3) :
    PostD False 0 (executeQueue cfg 0 (emit s3 .battleStart) true) :=
  executeQueue_dpost cfg 0 _ true False 0 (h.qt ((Qt.refl _).emit inert_battleStart))

theorem start_dpost (cfg : Cfg) (s : S α) (hev : s.evs = []) (ha : s.active = 0)
    (hunits : ∀ id, isValidId cfg id = true → ∃ u, unitOf s id = some u ∧ u.id = id ∧ u.life = 0 ∧ u.lastAtk = id)
    (hids : ∀ u ∈ s.units, isValidId cfg u.id = true) (hq : s.queue = []) (ho : s.turn.order = [])
    (hs : ∀ p, cfg.start = some p → ∀ c ∈ cfg.progs p, c.op ≠ 'A' ∧ c.op ≠ 'H' ∧ c.op ≠ 'C') :
    PostTD (start cfg s) := by
  refine ⟨0, ?_⟩
  have key : ∀ X : S α, X.chars = (List.range cfg.nchars).map (fun (i : Nat) => (i : Int) + 1) →
      X.enemies = (List.range cfg.nenemies).map (fun (i : Nat) => (i : Int) + 1 + cfg.nchars) →
      X.units = s.units → X.queue = [] → X.active = 0 →
      OrdSub ((X.chars ++ X.enemies).map fun i => (i, Turn.baseGauge)) X.turn.order →
      dst X = .ok {} → Rdy False 0 X :=
    fun X h1 h2 h3 h4 h5 h6 h7 => ⟨h5, {}, init_st cfg s X False h1 h2 h3 h4 h6 h7 hunits hids, rfl⟩
  unfold start
  simp only [Turn.step, List.foldl_cons, List.foldl_nil]
  apply start_tailD
  split
  · rename_i p c _ e _ hp _ _
    unfold runProg
    refine Rdy.qt ?_ (runCmds_qt cfg _ _ c e (hs p hp))
    refine key _ rfl rfl rfl hq ha (ordSub_add _ _ ho) ?_
    show deathRun {} (List.reverse (Ev.targetsAdded _ _ :: Ev.enemiesAdded _ :: Ev.charsAdded _ :: Ev.initialize :: s.evs)) = .ok {}
    rw [hev]; rfl
  · refine key _ rfl rfl rfl hq ha (ordSub_add _ _ ho) ?_
    show deathRun {} (List.reverse (Ev.targetsAdded _ _ :: Ev.enemiesAdded _ :: Ev.charsAdded _ :: Ev.initialize :: s.evs)) = .ok {}
    rw [hev]; rfl

theorem run_dpost (cfg : Cfg) (f qf : Nat) (s : S α) (hev : s.evs = []) (ha : s.active = 0)
    (hunits : ∀ id, isValidId cfg id = true → ∃ u, unitOf s id = some u ∧ u.id = id ∧ u.life = 0 ∧ u.lastAtk = id)
    (hids : ∀ u ∈ s.units, isValidId cfg u.id = true) (hq : s.queue = []) (ho : s.turn.order = [])
    (hs : ∀ p, cfg.start = some p → ∀ c ∈ cfg.progs p, c.op ≠ 'A' ∧ c.op ≠ 'H' ∧ c.op ≠ 'C') :
    PostTD (run cfg f qf s) := by
  unfold run
  simp only []
  split
  · exact start_dpost cfg s hev ha hunits hids hq ho hs
  · exact turns_dpost cfg qf f _ (start_dpost cfg s hev ha hunits hids hq ho hs)

theorem deathOK_of_postTD (s : S α) (h : PostTD s) (he : s.err = none) : Proto.deathOK s.evs.reverse = true := by
  obtain ⟨a, h | ⟨_, d, hd, _⟩⟩ := h
  · rw [he] at h; cases h
  · unfold deathOK
    have : deathRun {} s.evs.reverse = .ok d := hd.run
    rw [this]

end Sim
