import Srsim.Num
import Mathlib.Tactic.Linarith
import Mathlib.Tactic.NormNum
import Mathlib.Tactic.SplitIfs
import Mathlib.Tactic.FieldSimp
import Mathlib.Algebra.Order.Field.Basic
/-
Bridging lemmas: the `Num Rat` instance is the ordinary ordered field structure of ℚ.
All of them are `rfl`/`decide`-level; they are tagged `simp` so that `simp` brings a goal
about a generic model instantiated at `Rat` into Mathlib's normal form.
-/

namespace Num

@[simp] theorem eqb_rat (a b : Rat) : Num.eqb a b = decide (a = b) := rfl
@[simp] theorem neb_rat (a b : Rat) : Num.neb a b = !decide (a = b) := rfl
@[simp] theorem ofInt_rat (i : Int) : (Num.ofInt i : Rat) = (i : Rat) := rfl
theorem ofNat_rat (n : Nat) : (@OfNat.ofNat Rat n (Num.instOfNat n)) = (n : Rat) :=
  Int.cast_natCast n
@[simp] theorem zero_rat : (@OfNat.ofNat Rat 0 (Num.instOfNat 0)) = 0 := Int.cast_zero
@[simp] theorem one_rat : (@OfNat.ofNat Rat 1 (Num.instOfNat 1)) = 1 := Int.cast_one
@[simp] theorem trunc_rat (x : Rat) : Num.trunc x = x.truncZ := rfl

end Num

section test
variable {α : Type} [Num α]
private def clampT (x : α) : α := if x > 1 then 1 else if x < 0 then 0 else x
private theorem clampT_range (x : Rat) : 0 ≤ clampT x ∧ clampT x ≤ 1 := by
  unfold clampT
  split_ifs <;> simp at * <;> constructor <;> linarith
end test
