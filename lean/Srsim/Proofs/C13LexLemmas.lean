import Srsim.Model.Gcs.Lex
/-!
# Helper lemmas for C13 (lexer)

The state functions of the lexer are summarised by a small step relation `StepR` built from the
primitive operations (`adv`, `emit`, `ignore`, `errorTok`); the three families of properties
(termination measure, tiling, exactly one end) are then proved once per `StepR` constructor.
-/
namespace Gcs.Lex

theorem ite_elim {α : Sort _} (P : α → Prop) {c : Prop} [Decidable c] {a b : α}
    (h1 : c → P a) (h2 : ¬c → P b) : P (if c then a else b) := by
  split
  · exact h1 ‹_›
  · exact h2 ‹_›

/-! ## sequences of `adv` -/

/-- `s'` is reached from `s` by consuming zero or more runes with `adv` -/
inductive Advs : St → St → Prop
  | refl (s : St) : Advs s s
  | step {s : St} {r : Rn} {t : List Rn} {s' : St} : s.rest = r :: t → Advs (adv s r t) s' → Advs s s'

/-- at least one rune is consumed -/
def AdvP (s s' : St) : Prop := Advs s s' ∧ s'.rest.length < s.rest.length

theorem totalBytes_cons (r : Rn) (t : List Rn) : totalBytes (r :: t) = r.w + totalBytes t := rfl

theorem Advs.trans {a b c : St} (h1 : Advs a b) (h2 : Advs b c) : Advs a c := by
  induction h1 with
  | refl => exact h2
  | step h _ ih => exact Advs.step h (ih h2)

theorem Advs.one {s : St} {r : Rn} {t : List Rn} (h : s.rest = r :: t) : Advs s (adv s r t) :=
  Advs.step h (Advs.refl _)

theorem Advs.len {s s' : St} (h : Advs s s') : s'.rest.length ≤ s.rest.length := by
  induction h with
  | refl => exact Nat.le_refl _
  | step h _ ih =>
    rw [h]
    simp only [adv, List.length_cons] at ih ⊢
    omega

theorem Advs.out_eq {s s' : St} (h : Advs s s') : s'.out = s.out := by
  induction h with
  | refl => rfl
  | step _ _ ih => simpa [adv] using ih

theorem Advs.start_eq {s s' : St} (h : Advs s s') : s'.start = s.start := by
  induction h with
  | refl => rfl
  | step _ _ ih => simpa [adv] using ih

theorem Advs.tot {s s' : St} (h : Advs s s') :
    s'.pos + totalBytes s'.rest = s.pos + totalBytes s.rest := by
  induction h with
  | refl => rfl
  | step h _ ih =>
    rw [h, totalBytes_cons]
    simp only [adv] at ih
    omega

theorem Advs.pos_le {s s' : St} (h : Advs s s') : s.pos ≤ s'.pos := by
  induction h with
  | refl => exact Nat.le_refl _
  | step _ _ ih =>
    simp only [adv] at ih
    omega

theorem AdvP.advs {s s' : St} (h : AdvP s s') : Advs s s' := h.1

theorem AdvP.len {s s' : St} (h : AdvP s s') : s'.rest.length < s.rest.length := h.2

theorem AdvP.one {s : St} {r : Rn} {t : List Rn} (h : s.rest = r :: t) : AdvP s (adv s r t) :=
  ⟨Advs.one h, by rw [h]; simp [adv]⟩

theorem AdvP.cons {s : St} {r : Rn} {t : List Rn} {s' : St} (h : s.rest = r :: t)
    (h2 : Advs (adv s r t) s') : AdvP s s' :=
  ⟨Advs.step h h2, by
    have := h2.len
    rw [h]
    simp only [adv, List.length_cons] at this ⊢
    omega⟩

theorem AdvP.two {s : St} {r n : Rn} {t : List Rn} (h : s.rest = r :: n :: t) :
    AdvP s (adv (adv s r (n :: t)) n t) :=
  AdvP.cons h (Advs.one rfl)

theorem AdvP.trans_left {a b c : St} (h1 : AdvP a b) (h2 : Advs b c) : AdvP a c :=
  ⟨h1.1.trans h2, Nat.lt_of_le_of_lt h2.len h1.2⟩

theorem AdvP.trans_right {a b c : St} (h1 : Advs a b) (h2 : AdvP b c) : AdvP a c :=
  ⟨h1.trans h2.1, Nat.lt_of_lt_of_le h2.2 h1.len⟩

/-! ## the absorbing loops -/

theorem commentGo_advs : ∀ (l : List Rn) (s : St), s.rest = l → Advs s (commentGo s l)
  | [], s, _ => Advs.refl s
  | r :: t, s, h => by
    unfold commentGo
    split
    · exact Advs.refl s
    · exact Advs.step h (commentGo_advs t (adv s r t) rfl)

theorem identGo_advs : ∀ (l : List Rn) (s : St), s.rest = l → Advs s (identGo s l)
  | [], s, _ => Advs.refl s
  | r :: t, s, h => by
    unfold identGo
    split
    · exact Advs.step h (identGo_advs t (adv s r t) rfl)
    · exact Advs.refl s

theorem digitsGo_advs : ∀ (l : List Rn) (s : St), s.rest = l → Advs s (digitsGo s l)
  | [], s, _ => Advs.refl s
  | r :: t, s, h => by
    unfold digitsGo
    split
    · exact Advs.step h (digitsGo_advs t (adv s r t) rfl)
    · exact Advs.refl s

theorem acceptRunDigits_advs (s : St) : Advs s (acceptRunDigits s) := digitsGo_advs _ s rfl

/-! ## token types -/

def OkTy (k : TT) : Prop := k ≠ tEOF ∧ k ≠ tError

theorem keywordOf_ok {w : List Nat} {k : TT} (h : keywordOf w = some k) : OkTy k := by
  unfold keywordOf at h
  extract_lets s at h
  repeat' (revert h; refine ite_elim (fun x => x = some k → OkTy k) (fun _ h => ?_) (fun _ h => ?_))
  all_goals first
    | (cases h; exact ⟨by decide, by decide⟩)
    | exact absurd h (by simp)

/-! ## the step relation -/

/-- `e'` agrees with `e` on every field the properties talk about -/
def SameCore (e' e : St) : Prop :=
  e'.rest = e.rest ∧ e'.out = e.out ∧ e'.start = e.start ∧ e'.pos = e.pos

/-- what the pending input must look like when a mode is entered -/
def headOK (l : List Rn) (m : Mode) : Prop :=
  (m = .number → ∃ r t, l = r :: t ∧ (r.c = ch '.' ∨ isAsciiDigit r = true ∨ r.c = ch '-')) ∧
  (m = .ident → ∃ r t, l = r :: t ∧ isAlnum r = true)

inductive StepR (s : St) (m : Mode) : St → Mode → Prop
  | eof : s.rest = [] → StepR s m (emit s tEOF) .done
  | emit {s' : St} {k : TT} {e' : St} :
      AdvP s s' → OkTy k → SameCore e' (emit s' k) → StepR s m e' .text
  | ign {s' : St} : m = .text → AdvP s s' → StepR s m (ignore s') .text
  | ignC {s' : St} : m = .text → AdvP s s' → StepR s m (ignore s') .comment
  | num : m = .text → headOK s.rest .number → StepR s m s .number
  | ident : m = .text → headOK s.rest .ident → StepR s m s .ident
  | err {s' : St} : Advs s s' → StepR s m (errorTok s') .done
  | errC {s' : St} {k : TT} {e' : St} :
      AdvP s s' → OkTy k → SameCore e' (emit s' k) → StepR s m (errorTok e') .done
  | quote {s' : St} : m = .text → AdvP s s' → StepR s m s' .quote
  | endC {s' : St} : m = .comment → Advs s s' → StepR s m s' .text

theorem SameCore.refl (e : St) : SameCore e e := ⟨rfl, rfl, rfl, rfl⟩

theorem StepR.emit' {s : St} {m : Mode} {s' : St} {k : TT} (h : AdvP s s') (hk : OkTy k) :
    StepR s m (Lex.emit s' k) .text := StepR.emit h hk (SameCore.refl _)

theorem okTy_of_decide {k : TT} (h1 : k ≠ tEOF) (h2 : k ≠ tError) : OkTy k := ⟨h1, h2⟩

theorem headOK_num {l : List Rn} {r : Rn} {t : List Rn} (h : l = r :: t)
    (c : r.c = ch '.' ∨ isAsciiDigit r = true ∨ r.c = ch '-') : headOK l .number :=
  ⟨fun _ => ⟨r, t, h, c⟩, nofun⟩

theorem headOK_ident {l : List Rn} {r : Rn} {t : List Rn} (h : l = r :: t)
    (c : isAlnum r = true) : headOK l .ident :=
  ⟨nofun, fun _ => ⟨r, t, h, c⟩⟩

theorem headOK_text (l : List Rn) : headOK l .text := ⟨nofun, nofun⟩
theorem headOK_comment (l : List Rn) : headOK l .comment := ⟨nofun, nofun⟩
theorem headOK_quote (l : List Rn) : headOK l .quote := ⟨nofun, nofun⟩
theorem headOK_done (l : List Rn) : headOK l .done := ⟨nofun, nofun⟩

theorem stepText_stepR (s : St) : StepR s .text (stepText s).1 (stepText s).2 := by
  have key : ∀ x : St × Mode, x = stepText s → StepR s .text x.1 x.2 := by
    intro x hx
    subst hx
    unfold stepText
    split
    · rename_i hrest
      exact StepR.eof hrest
    · rename_i r t hrest
      have A1 : AdvP s (adv s r t) := AdvP.one hrest
      have A0 : Advs s (adv s r t) := A1.advs
      have A2 : ∀ n t', t = n :: t' → AdvP s (adv (adv s r t) n t') :=
        fun n t' ht => AdvP.cons hrest (Advs.one (by simpa [adv] using ht))
      have B2 : ∀ n t', t = n :: t' → Advs s (adv (adv s r t) n t') := fun n t' ht => (A2 n t' ht).advs
      cases t <;>
      ( extract_lets s1 two e1 e2 e3 e4 e5 e6
        repeat' refine ite_elim (fun x : St × Mode => StepR s .text x.1 x.2) (fun _ => ?_) (fun _ => ?_)
        all_goals first
          | exact StepR.emit' A1 ⟨by decide, by decide⟩
          | exact StepR.emit' (A2 _ _ rfl) ⟨by decide, by decide⟩
          | exact StepR.ign rfl A1
          | exact StepR.ignC rfl A1
          | exact StepR.ignC rfl (A2 _ _ rfl)
          | exact StepR.err A0
          | exact StepR.err (B2 _ _ rfl)
          | exact StepR.quote rfl A1
          | exact StepR.emit A1 ⟨by decide, by decide⟩ ⟨rfl, rfl, rfl, rfl⟩
          | exact StepR.errC A1 ⟨by decide, by decide⟩ ⟨rfl, rfl, rfl, rfl⟩
          | exact StepR.num rfl (headOK_num hrest (Or.inl (eq_of_beq ‹(r.c == ch '.') = true›)))
          | exact StepR.num rfl (headOK_num hrest (Or.inr (Or.inl ‹isAsciiDigit r = true›)))
          | exact StepR.num rfl (headOK_num hrest (Or.inr (Or.inr (eq_of_beq ‹(r.c == ch '-') = true›))))
          | exact StepR.ident rfl (headOK_ident hrest ‹isAlnum r = true›)
        )
  exact key _ rfl

theorem stepComment_stepR (s : St) : StepR s .comment (stepComment s) .text :=
  StepR.endC rfl (commentGo_advs _ s rfl)

/-- result of `quoteGo`: an error after some runes, or a string token after at least one -/
theorem quoteGo_spec : ∀ (l : List Rn) (s : St), s.rest = l →
    (∃ s', Advs s s' ∧ quoteGo s l = (errorTok s', .done)) ∨
    (∃ s', AdvP s s' ∧ quoteGo s l = (emit s' tString, .text))
  | [], s, _ => Or.inl ⟨s, Advs.refl s, rfl⟩
  | [r], s, h => by
    unfold quoteGo
    repeat' refine ite_elim (fun x : St × Mode => (∃ s', Advs s s' ∧ x = (errorTok s', .done)) ∨
      (∃ s', AdvP s s' ∧ x = (emit s' tString, .text))) (fun _ => ?_) (fun _ => ?_)
    all_goals first
      | exact Or.inl ⟨_, Advs.one h, rfl⟩
      | exact Or.inr ⟨_, AdvP.one h, rfl⟩
  | r :: n :: t', s, h => by
    have ih1 := quoteGo_spec t' (adv (adv s r (n :: t')) n t') rfl
    have ih2 := quoteGo_spec (n :: t') (adv s r (n :: t')) rfl
    unfold quoteGo
    repeat' refine ite_elim (fun x : St × Mode => (∃ s', Advs s s' ∧ x = (errorTok s', .done)) ∨
      (∃ s', AdvP s s' ∧ x = (emit s' tString, .text))) (fun _ => ?_) (fun _ => ?_)
    · exact Or.inl ⟨_, (AdvP.two h).advs, rfl⟩
    · rcases ih1 with ⟨s', a, e⟩ | ⟨s', a, e⟩
      · exact Or.inl ⟨s', (AdvP.two h).advs.trans a, e⟩
      · exact Or.inr ⟨s', AdvP.trans_right (AdvP.two h).advs a, e⟩
    · exact Or.inl ⟨_, Advs.one h, rfl⟩
    · exact Or.inr ⟨_, AdvP.one h, rfl⟩
    · rcases ih2 with ⟨s', a, e⟩ | ⟨s', a, e⟩
      · exact Or.inl ⟨s', (Advs.one h).trans a, e⟩
      · exact Or.inr ⟨s', AdvP.trans_right (Advs.one h) a, e⟩

theorem stepQuote_stepR (s : St) : StepR s .quote (stepQuote s).1 (stepQuote s).2 := by
  unfold stepQuote
  rcases quoteGo_spec s.rest s rfl with ⟨s', a, e⟩ | ⟨s', a, e⟩
  · rw [e]; exact StepR.err a
  · rw [e]; exact StepR.emit' a ⟨by decide, by decide⟩

theorem absorbIdent_advP (s : St) (h : headOK s.rest .ident) : AdvP s (absorbIdent s) := by
  obtain ⟨r, t, hrest, hr⟩ := h.2 rfl
  unfold absorbIdent
  rw [hrest]
  unfold identGo
  rw [if_pos hr]
  exact AdvP.cons hrest (identGo_advs t _ rfl)

theorem stepIdent_stepR (s : St) (h : headOK s.rest .ident) :
    StepR s .ident (stepIdent s).1 (stepIdent s).2 := by
  have A := absorbIdent_advP s h
  unfold stepIdent
  extract_lets s1
  refine ite_elim (fun x : St × Mode => StepR s .ident x.1 x.2) (fun _ => ?_) (fun _ => ?_)
  · exact StepR.err A.advs
  · split
    · rename_i k hk
      exact StepR.emit' A (keywordOf_ok hk)
    · exact StepR.emit' A ⟨by decide, by decide⟩

theorem isAsciiDigit_bounds {r : Rn} (h : isAsciiDigit r = true) : 48 ≤ r.c ∧ r.c ≤ 57 := by
  simp only [isAsciiDigit, ch, Bool.and_eq_true] at h
  exact ⟨of_decide_eq_true h.1, of_decide_eq_true h.2⟩

theorem stepNumber_spec (s : St) (h : headOK s.rest .number) :
    ∃ s', AdvP s s' ∧ stepNumber s = emit s' tNumber := by
  obtain ⟨r, t, hrest, hr⟩ := h.1 rfl
  -- the three phases
  have P3 : ∀ s2 : St, Advs s2 (match s2.rest with
      | r :: t => if r.c == ch '.' then acceptRunDigits (adv s2 r t) else s2
      | [] => s2) := by
    intro s2
    split
    · rename_i r' t' h'
      refine ite_elim (fun x => Advs s2 x) (fun _ => ?_) (fun _ => Advs.refl _)
      exact Advs.step h' (acceptRunDigits_advs _)
    · exact Advs.refl _
  unfold stepNumber
  extract_lets s1 s2 s3
  refine ⟨s3, ?_, rfl⟩
  have A1 : Advs s s1 := by
    show Advs s (match s.rest with
      | r :: t => if r.c == ch '+' || r.c == ch '-' then adv s r t else s
      | [] => s)
    split
    · rename_i r' t' h'
      exact ite_elim (fun x => Advs s x) (fun _ => Advs.one h') (fun _ => Advs.refl _)
    · exact Advs.refl _
  have A2 : Advs s1 s2 := acceptRunDigits_advs s1
  have A3 : Advs s2 s3 := P3 s2
  refine ⟨A1.trans (A2.trans A3), ?_⟩
  have L1 := A1.len
  have L2 := A2.len
  have L3 := A3.len
  have hlen : s.rest.length = t.length + 1 := by rw [hrest]; rfl
  rcases hr with hr | hr | hr
  · -- '.': nothing is consumed before the fraction
    have e1 : s1 = s := by
      show (match s.rest with
        | r :: t => if r.c == ch '+' || r.c == ch '-' then adv s r t else s
        | [] => s) = s
      rw [hrest]
      simp [hr, ch]
    have e2 : s2 = s := by
      show acceptRunDigits s1 = s
      rw [e1]
      unfold acceptRunDigits
      rw [hrest]
      unfold digitsGo
      simp [isAsciiDigit, hr, ch]
    have e3 : s3 = acceptRunDigits (adv s r t) := by
      show (match s2.rest with
        | r :: t => if r.c == ch '.' then acceptRunDigits (adv s2 r t) else s2
        | [] => s2) = _
      rw [e2, hrest]
      simp [hr]
    have : (acceptRunDigits (adv s r t)).rest.length ≤ t.length := (acceptRunDigits_advs (adv s r t)).len
    rw [e3]
    omega
  · -- an ASCII digit: `acceptRunDigits` consumes it
    have hb := isAsciiDigit_bounds hr
    have e1 : s1 = s := by
      show (match s.rest with
        | r :: t => if r.c == ch '+' || r.c == ch '-' then adv s r t else s
        | [] => s) = s
      rw [hrest]
      have h1 : r.c ≠ 43 := by omega
      have h2 : r.c ≠ 45 := by omega
      simp [ch, h1, h2]
    have e2 : s2 = digitsGo (adv s r t) t := by
      show acceptRunDigits s1 = _
      rw [e1]
      unfold acceptRunDigits
      rw [hrest]
      conv => lhs; unfold digitsGo
      simp [hr]
    have : (digitsGo (adv s r t) t).rest.length ≤ t.length := (digitsGo_advs t (adv s r t) rfl).len
    rw [← e2] at this
    omega
  · -- '-': the sign is consumed
    have e1 : s1 = adv s r t := by
      show (match s.rest with
        | r :: t => if r.c == ch '+' || r.c == ch '-' then adv s r t else s
        | [] => s) = _
      rw [hrest]
      simp [hr]
    have : s1.rest.length = t.length := by rw [e1]; rfl
    omega

theorem stepNumber_stepR (s : St) (h : headOK s.rest .number) :
    StepR s .number (stepNumber s) .text := by
  obtain ⟨s', a, e⟩ := stepNumber_spec s h
  rw [e]
  exact StepR.emit' a ⟨by decide, by decide⟩

theorem step_stepR (s : St) (m : Mode) (hm : m ≠ .done) (h : headOK s.rest m) :
    StepR s m (step s m).1 (step s m).2 := by
  cases m with
  | text => exact stepText_stepR s
  | comment => exact stepComment_stepR s
  | quote => exact stepQuote_stepR s
  | ident => exact stepIdent_stepR s h
  | number => exact stepNumber_stepR s h
  | done => exact absurd rfl hm

/-! ## termination measure -/

def phi (s : St) : Mode → Nat
  | .done => 0
  | .number => 2 * s.rest.length + 1
  | .ident => 2 * s.rest.length + 1
  | .text => 2 * s.rest.length + 2
  | .quote => 2 * s.rest.length + 3
  | .comment => 2 * s.rest.length + 3

theorem phi_pos {s : St} {m : Mode} (hm : m ≠ .done) : 0 < phi s m := by
  cases m <;> first | exact absurd rfl hm | (simp only [phi]; omega)

theorem phi_le (s : St) (m : Mode) : phi s m ≤ 2 * s.rest.length + 3 := by
  cases m <;> simp only [phi] <;> omega

theorem phi_ge {s : St} {m : Mode} (hm : m ≠ .done) : 2 * s.rest.length + 1 ≤ phi s m := by
  cases m <;> first | exact absurd rfl hm | (simp only [phi]; omega)

theorem StepR.phi_lt {s : St} {m : Mode} {s' : St} {m' : Mode} (hm : m ≠ .done)
    (h : StepR s m s' m') : phi s' m' < phi s m := by
  have hge := phi_ge (s := s) hm
  cases h with
  | eof _ => exact phi_pos hm
  | emit a _ c =>
    have := a.len
    have e : s'.rest.length = _ := congrArg List.length c.1
    simp only [Lex.emit] at e
    show 2 * s'.rest.length + 2 < phi s m
    omega
  | ign hm' a => subst hm'; have := a.len; simp only [phi, ignore] at *; omega
  | ignC hm' a => subst hm'; have := a.len; simp only [phi, ignore] at *; omega
  | num hm' _ => subst hm'; simp only [phi]; omega
  | ident hm' _ => subst hm'; simp only [phi]; omega
  | err _ => exact phi_pos hm
  | errC _ _ _ => exact phi_pos hm
  | quote hm' a => subst hm'; have := a.len; simp only [phi] at *; omega
  | endC hm' a => subst hm'; have := a.len; simp only [phi] at *; omega

theorem StepR.headOK {s : St} {m : Mode} {s' : St} {m' : Mode} (h : StepR s m s' m') :
    headOK s'.rest m' := by
  cases h with
  | eof _ => exact headOK_done _
  | emit _ _ _ => exact headOK_text _
  | ign _ _ => exact headOK_text _
  | ignC _ _ => exact headOK_comment _
  | num _ h => exact h
  | ident _ h => exact h
  | err _ => exact headOK_done _
  | errC _ _ _ => exact headOK_done _
  | quote _ _ => exact headOK_quote _
  | endC _ _ => exact headOK_text _

/-! ## the loop -/

theorem run_done (f : Nat) (s : St) (n : Nat) : run f s .done n = some (s, n) := by
  cases f <;> rfl

theorem run_zero {m : Mode} (hm : m ≠ .done) (s : St) (n : Nat) : run 0 s m n = none := by
  cases m <;> first | rfl | exact absurd rfl hm

theorem run_succ {m : Mode} (hm : m ≠ .done) (f : Nat) (s : St) (n : Nat) :
    run (f + 1) s m n = run f (step s m).1 (step s m).2 (n + 1) := by
  cases m <;> first | rfl | exact absurd rfl hm

theorem run_some : ∀ (f : Nat) (s : St) (m : Mode) (n : Nat), headOK s.rest m → phi s m ≤ f →
    ∃ r, run f s m n = some r := by
  intro f
  induction f with
  | zero =>
    intro s m n _ hphi
    by_cases hm : m = .done
    · subst hm; exact ⟨_, run_done _ _ _⟩
    · have := phi_pos (s := s) hm; omega
  | succ f ih =>
    intro s m n hh hphi
    by_cases hm : m = .done
    · subst hm; exact ⟨_, run_done _ _ _⟩
    · rw [run_succ hm]
      have st := step_stepR s m hm hh
      have := st.phi_lt hm
      exact ih _ _ _ st.headOK (by omega)

theorem run_steps : ∀ (f : Nat) (s : St) (m : Mode) (n : Nat) (r : St × Nat),
    run f s m n = some r → r.2 ≤ n + f := by
  intro f
  induction f with
  | zero =>
    intro s m n r h
    by_cases hm : m = .done
    · subst hm; rw [run_done] at h; cases h; exact Nat.le_refl _
    · rw [run_zero hm] at h; cases h
  | succ f ih =>
    intro s m n r h
    by_cases hm : m = .done
    · subst hm; rw [run_done] at h; cases h; simp
    · rw [run_succ hm] at h
      have := ih _ _ _ _ h
      omega

/-- invariants of the step relation are invariants of the loop -/
theorem run_inv (I : St → Mode → Prop)
    (hstep : ∀ s m s' m', m ≠ .done → I s m → StepR s m s' m' → I s' m') :
    ∀ (f : Nat) (s : St) (m : Mode) (n : Nat) (r : St × Nat), headOK s.rest m → I s m →
      run f s m n = some r → I r.1 .done := by
  intro f
  induction f with
  | zero =>
    intro s m n r _ hi h
    by_cases hm : m = .done
    · subst hm; rw [run_done] at h; cases h; exact hi
    · rw [run_zero hm] at h; cases h
  | succ f ih =>
    intro s m n r hh hi h
    by_cases hm : m = .done
    · subst hm; rw [run_done] at h; cases h; exact hi
    · rw [run_succ hm] at h
      have st := step_stepR s m hm hh
      exact ih _ _ _ _ st.headOK (hstep _ _ _ _ hm hi st) h

/-! ## tiling -/

structure Tile (T : Nat) (s : St) : Prop where
  le : s.start ≤ s.pos
  tot : s.pos + totalBytes s.rest = T
  bnd : ∀ t ∈ s.out, t.pos + t.len ≤ s.start
  pw : s.out.Pairwise (fun a b => b.pos + b.len ≤ a.pos)

theorem Tile.advs {T : Nat} {s s' : St} (h : Tile T s) (a : Advs s s') : Tile T s' where
  le := by have := a.start_eq; have := a.pos_le; have := h.le; omega
  tot := by rw [a.tot]; exact h.tot
  bnd := by rw [a.out_eq, a.start_eq]; exact h.bnd
  pw := by rw [a.out_eq]; exact h.pw

theorem Tile.emit {T : Nat} {s : St} (h : Tile T s) (k : TT) : Tile T (Lex.emit s k) where
  le := Nat.le_refl _
  tot := h.tot
  bnd := by
    intro t ht
    simp only [Lex.emit, List.mem_cons] at ht ⊢
    rcases ht with rfl | ht
    · have := h.le; simp only; omega
    · have := h.bnd t ht; have := h.le; omega
  pw := by
    simp only [Lex.emit, List.pairwise_cons]
    exact ⟨fun b hb => h.bnd b hb, h.pw⟩

theorem Tile.ignore {T : Nat} {s : St} (h : Tile T s) : Tile T (Lex.ignore s) where
  le := Nat.le_refl _
  tot := h.tot
  bnd := by
    intro t ht
    have := h.bnd t ht; have := h.le
    simp only [Lex.ignore]; omega
  pw := h.pw

theorem Tile.err {T : Nat} {s : St} (h : Tile T s) : Tile T (errorTok s) where
  le := h.le
  tot := h.tot
  bnd := by
    intro t ht
    simp only [errorTok, List.mem_cons] at ht ⊢
    rcases ht with rfl | ht
    · simp
    · exact h.bnd t ht
  pw := by
    simp only [errorTok, List.pairwise_cons]
    exact ⟨fun b hb => h.bnd b hb, h.pw⟩

theorem Tile.same {T : Nat} {e e' : St} (h : Tile T e) (c : SameCore e' e) : Tile T e' := by
  obtain ⟨c1, c2, c3, c4⟩ := c
  exact ⟨by rw [c3, c4]; exact h.le, by rw [c1, c4]; exact h.tot, by rw [c2, c3]; exact h.bnd,
    by rw [c2]; exact h.pw⟩

theorem StepR.tile {T : Nat} {s : St} {m : Mode} {s' : St} {m' : Mode} (h : StepR s m s' m')
    (ht : Tile T s) : Tile T s' := by
  cases h with
  | eof _ => exact ht.emit _
  | emit a _ c => exact ((ht.advs a.advs).emit _).same c
  | ign _ a => exact (ht.advs a.advs).ignore
  | ignC _ a => exact (ht.advs a.advs).ignore
  | num _ _ => exact ht
  | ident _ _ => exact ht
  | err a => exact (ht.advs a).err
  | errC a _ c => exact (((ht.advs a.advs).emit _).same c).err
  | quote _ a => exact ht.advs a.advs
  | endC _ a => exact ht.advs a

/-! ## exactly one end -/

def NoEnd (s : St) : Prop := ∀ t ∈ s.out, OkTy t.typ

def End (s : St) : Prop :=
  ∃ last pre, s.out = last :: pre ∧ (last.typ = tEOF ∨ last.typ = tError) ∧ ∀ t ∈ pre, OkTy t.typ

def EndInv (s : St) (m : Mode) : Prop := (m = .done → End s) ∧ (m ≠ .done → NoEnd s)

theorem NoEnd.advs {s s' : St} (h : NoEnd s) (a : Advs s s') : NoEnd s' := by
  unfold NoEnd; rw [a.out_eq]; exact h

theorem NoEnd.emit {s : St} (h : NoEnd s) {k : TT} (hk : OkTy k) : NoEnd (Lex.emit s k) := by
  intro t ht
  simp only [Lex.emit, List.mem_cons] at ht
  rcases ht with rfl | ht
  · exact hk
  · exact h t ht

theorem NoEnd.ignore {s : St} (h : NoEnd s) : NoEnd (Lex.ignore s) := h

theorem NoEnd.same {e e' : St} (h : NoEnd e) (c : SameCore e' e) : NoEnd e' := by
  unfold NoEnd; rw [c.2.1]; exact h

theorem NoEnd.err {s : St} (h : NoEnd s) : End (errorTok s) :=
  ⟨_, _, rfl, Or.inr rfl, h⟩

theorem NoEnd.eof {s : St} (h : NoEnd s) : End (Lex.emit s tEOF) :=
  ⟨_, _, rfl, Or.inl rfl, h⟩

theorem EndInv.of_noEnd {s : St} {m : Mode} (hm : m ≠ .done) (h : NoEnd s) : EndInv s m :=
  ⟨fun e => absurd e hm, fun _ => h⟩

theorem EndInv.of_end {s : St} (h : End s) : EndInv s .done :=
  ⟨fun _ => h, fun e => absurd rfl e⟩

theorem StepR.ends {s : St} {m : Mode} {s' : St} {m' : Mode} (hm : m ≠ .done)
    (h : StepR s m s' m') (hi : EndInv s m) : EndInv s' m' := by
  have hn : NoEnd s := hi.2 hm
  cases h with
  | eof _ => exact .of_end hn.eof
  | emit a hk c => exact .of_noEnd (by simp) (((hn.advs a.advs).emit hk).same c)
  | ign _ a => exact .of_noEnd (by simp) (hn.advs a.advs).ignore
  | ignC _ a => exact .of_noEnd (by simp) (hn.advs a.advs).ignore
  | num _ _ => exact .of_noEnd (by simp) hn
  | ident _ _ => exact .of_noEnd (by simp) hn
  | err a => exact .of_end (hn.advs a).err
  | errC a hk c => exact .of_end (((hn.advs a.advs).emit hk).same c).err
  | quote _ a => exact .of_noEnd (by simp) (hn.advs a.advs)
  | endC _ a => exact .of_noEnd (by simp) (hn.advs a)

/-! ## `lexAll` -/

theorem lexAll_eq {input : List Rn} {toks : List Tok} {steps : Nat}
    (h : lexAll input = some (toks, steps)) :
    ∃ s', run (2 * input.length + 2) { rest := input } .text 0 = some (s', steps) ∧
      toks = s'.out.reverse := by
  unfold lexAll at h
  cases hr : run (2 * input.length + 2) { rest := input } .text 0 with
  | none => rw [hr] at h; cases h
  | some r =>
    rw [hr] at h
    obtain ⟨s', k⟩ := r
    simp only [Option.map_some, Option.some.injEq, Prod.mk.injEq] at h
    exact ⟨s', by rw [h.2], h.1.symm⟩

end Gcs.Lex
