import Srsim.Model.Heap
import Mathlib.Data.List.Nodup
/-! Helper lemmas for the C06 heap theorems: `Separated` is an invariant of copying `step`. -/
namespace Heap

theorem step_separated (s : St) (h : Separated s) (op : Op) : Separated (step true s op) := by
  obtain ⟨hn, hlt⟩ := h
  cases op with
  | newDesc m =>
    simp only [step, write, Separated]
    constructor
    · have : (s.descs ++ [s.next] ++ s.insts).Perm (s.next :: (s.descs ++ s.insts)) := by
        simp only [List.append_assoc, List.singleton_append]
        exact List.perm_middle
      rw [this.nodup_iff, List.nodup_cons]
      exact ⟨fun hm => Nat.lt_irrefl _ (hlt _ hm), hn⟩
    · intro r hr
      simp only [List.mem_append, List.mem_singleton] at hr
      rcases hr with (hr | rfl) | hr
      · exact Nat.lt_succ_of_lt (hlt r (List.mem_append_left _ hr))
      · exact Nat.lt_succ_self _
      · exact Nat.lt_succ_of_lt (hlt r (List.mem_append_right _ hr))
  | attach d =>
    simp only [step]
    split
    · exact ⟨hn, hlt⟩
    · simp only [if_true, write, Separated]
      constructor
      · rw [← List.append_assoc, List.nodup_append_comm, List.singleton_append, List.nodup_cons]
        exact ⟨fun hm => Nat.lt_irrefl _ (hlt _ hm), hn⟩
      · intro r hr
        simp only [List.mem_append, List.mem_singleton] at hr
        rcases hr with hr | hr | rfl
        · exact Nat.lt_succ_of_lt (hlt r (List.mem_append_left _ hr))
        · exact Nat.lt_succ_of_lt (hlt r (List.mem_append_right _ hr))
        · exact Nat.lt_succ_self _
  | mutInst i p x =>
    simp only [step]
    split
    · exact ⟨hn, hlt⟩
    · exact ⟨hn, hlt⟩
  | mutDesc d p x =>
    simp only [step]
    split
    · exact ⟨hn, hlt⟩
    · exact ⟨hn, hlt⟩

theorem run_separated (ops : List Op) (s : St) (h : Separated s) : Separated (run true s ops) := by
  induction ops generalizing s with
  | nil => exact h
  | cons op ops ih => exact ih _ (step_separated s h op)

end Heap
