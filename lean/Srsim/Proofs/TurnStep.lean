import Srsim.Proofs.Turn
/-! Lemmas about the individual operations of the turn-manager model, used by `Props/C02.lean`. -/
namespace Turn

/-! ### `find?` / `gaugeOf` -/

theorem find_of_mem (l : List E) (hn : (l.map (·.1)).Nodup) (id g : Int) (h : (id, g) ∈ l) :
    l.find? (fun t => t.1 == id) = some (id, g) := by
  induction l with
  | nil => cases h
  | cons a r ih =>
    simp only [List.map_cons, List.nodup_cons] at hn
    rw [List.find?_cons]
    rcases List.mem_cons.mp h with rfl | h'
    · simp
    · have hne : a.1 ≠ id := by
        intro ha; apply hn.1; rw [ha]; exact List.mem_map.mpr ⟨(id, g), h', rfl⟩
      have hb : (a.1 == id) = false := by simpa using hne
      rw [hb]; exact ih hn.2 h'

theorem find_none_of_not_mem (l : List E) (id : Int) (h : id ∉ l.map (·.1)) :
    l.find? (fun t => t.1 == id) = none := by
  rw [List.find?_eq_none]
  intro x hx hxe
  apply h
  have : x.1 = id := by simpa using hxe
  rw [← this]; exact List.mem_map.mpr ⟨x, hx, rfl⟩

theorem mem_of_find (l : List E) (id : Int) (t : E) (h : l.find? (fun t => t.1 == id) = some t) :
    t ∈ l ∧ t.1 = id :=
  ⟨List.mem_of_find?_eq_some h, by simpa using List.find?_some h⟩

theorem gaugeOf_of_mem (s : S) (hn : (ids s).Nodup) (id g : Int) (h : (id, g) ∈ s.order) :
    gaugeOf s id = some g := by
  unfold gaugeOf
  rw [find_of_mem s.order hn id g h]; rfl

theorem mem_of_gaugeOf (s : S) (id g : Int) (h : gaugeOf s id = some g) : (id, g) ∈ s.order := by
  unfold gaugeOf at h
  cases hf : s.order.find? (fun t => t.1 == id) with
  | none => rw [hf] at h; cases h
  | some t =>
    rw [hf] at h
    obtain ⟨h1, h2⟩ := mem_of_find _ _ _ hf
    have h3 : t.2 = g := by simpa using h
    rw [← h2, ← h3]; exact h1

theorem gaugeOf_iff (s : S) (hn : (ids s).Nodup) (id g : Int) :
    gaugeOf s id = some g ↔ (id, g) ∈ s.order :=
  ⟨mem_of_gaugeOf s id g, gaugeOf_of_mem s hn id g⟩

theorem gaugeOf_none (s : S) (id : Int) (h : id ∉ ids s) : gaugeOf s id = none := by
  unfold gaugeOf
  rw [find_none_of_not_mem s.order id h]; rfl

/-! ### `setG`, `moveTo` -/

theorem setG_of_not_mem (l : List E) (id g : Int) (h : id ∉ l.map (·.1)) : setG l id g = l := by
  unfold setG
  conv => rhs; rw [← List.map_id l]
  apply List.map_congr_left
  intro t ht
  have hne : t.1 ≠ id := by
    intro he; apply h; rw [← he]; exact List.mem_map.mpr ⟨t, ht, rfl⟩
  have hb : (t.1 == id) = false := by simpa using hne
  simp [hb]

theorem moveTo_of_not_mem (l : List E) (id : Int) (n : Nat) (h : id ∉ l.map (·.1)) :
    moveTo l id n = l := by
  unfold moveTo
  rw [find_none_of_not_mem l id h]

/-- the list `sortOrder s (moveTo (setG l id g) id n)` is a rearrangement of `setG l id g` -/
theorem sortMove_perm (s : S) (l : List E) (hn : (l.map (·.1)).Nodup) (id g : Int) (n : Nat) :
    (sortOrder s (moveTo (setG l id g) id n)).Perm (setG l id g) :=
  (sortOrder_perm s _).trans (moveTo_perm _ _ _ (by rw [ids_setG]; exact hn))

theorem sortMove_ids_perm (s : S) (l : List E) (hn : (l.map (·.1)).Nodup) (id g : Int) (n : Nat) :
    ((sortOrder s (moveTo (setG l id g) id n)).map (·.1)).Perm (l.map (·.1)) := by
  have := (sortMove_perm s l hn id g n).map (·.1)
  rwa [ids_setG] at this

theorem mem_sortMove (s : S) (l : List E) (hn : (l.map (·.1)).Nodup) (id g : Int) (n : Nat) (x : E) :
    x ∈ sortOrder s (moveTo (setG l id g) id n) ↔
      (x.1 ≠ id ∧ x ∈ l) ∨ (x = (id, g) ∧ ∃ g', (id, g') ∈ l) := by
  rw [(sortMove_perm s l hn id g n).mem_iff, mem_setG]

/-! ### sorting -/

theorem le_trans' (s : S) : ∀ a b c : E, (!(decide (av s b < av s a))) = true →
    (!(decide (av s c < av s b))) = true → (!(decide (av s c < av s a))) = true := by
  intro a b c h1 h2
  rw [le_iff] at *; exact le_trans h1 h2

theorem le_total' (s : S) : ∀ a b : E,
    ((!(decide (av s b < av s a))) || (!(decide (av s a < av s b)))) = true := by
  intro a b
  simp only [Bool.or_eq_true, le_iff]
  exact le_total _ _

/-- head of the sorted order is minimal -/
theorem head_min (s : S) (l : List E) (hd : E) (tl : List E) (h : sortOrder s l = hd :: tl) :
    ∀ t ∈ l, av s hd ≤ av s t := by
  intro t ht
  have hs := sortOrder_sorted s l
  rw [h] at hs
  have ht' : t ∈ hd :: tl := by rw [← h]; exact (mem_sortOrder s l t).mpr ht
  rcases List.mem_cons.mp ht' with rfl | ht''
  · exact le_refl _
  · exact (List.pairwise_cons.mp hs).1 t ht''

/-- stability: a minimal head stays the head -/
theorem sortOrder_head (s : S) (a : E) (l : List E) (h : ∀ x ∈ l, av s a ≤ av s x) :
    (sortOrder s (a :: l)).head? = some a := by
  unfold sortOrder
  obtain ⟨l₁, l₂, h1, h2, h3⟩ := List.mergeSort_cons (le := fun a b => !(decide (av s b < av s a)))
    (le_trans' s) (le_total' s) a l
  rw [h1]
  cases l₁ with
  | nil => rfl
  | cons b r =>
    exfalso
    have hb := h3 b (by simp)
    have hbl : b ∈ l := by
      have : b ∈ l.mergeSort (fun a b => !(decide (av s b < av s a))) := by rw [h2]; simp
      exact (List.mergeSort_perm _ _).mem_iff.mp this
    have := (le_iff s a b).mpr (h b hbl)
    simp only [this, Bool.not_true] at hb
    exact absurd hb (by decide)

/-! ### arithmetic -/

theorem av_eq (s : S) (t : E) : av s t = (t.2 : Rat) / s.spd t.1 := rfl

theorem av_nonneg (s : S) (hs : SpeedsPos s) (t : E) (h : 0 ≤ t.2) : 0 ≤ av s t := by
  rw [av_eq]
  have h1 : (0 : Rat) < s.spd t.1 := by have := hs t.1; simpa using this
  have h2 : (0 : Rat) ≤ (t.2 : Rat) := by exact_mod_cast h
  exact div_nonneg h2 (le_of_lt h1)

theorem spd_pos (s : S) (hs : SpeedsPos s) (i : Int) : (0 : Rat) < s.spd i := by
  have := hs i; simpa using this

theorem av_mul_le (s : S) (hs : SpeedsPos s) (a : Rat) (t : E) (h : a ≤ av s t) :
    a * s.spd t.1 ≤ (t.2 : Rat) := by
  rw [av_eq] at h
  exact (le_div_iff₀ (spd_pos s hs t.1)).mp h

theorem clamp0_nonneg (g : Int) : 0 ≤ clamp0 g := by
  unfold clamp0; split_ifs <;> omega

/-! ### `setGaugeI` -/

theorem setGaugeOrder_eq (s : S) (id g : Int) :
    setGaugeOrder s id g = sortOrder s (moveTo (setG s.order id (clamp0 g)) id
      (if s.activeTurn && indexOf s.order id != 0 then 1 else 0)) := rfl

theorem setGaugeI_cases (s : S) (id g : Int) :
    ((setGaugeI s id g).1 = s ∧ (gaugeOf s id = none ∨ gaugeOf s id = some (clamp0 g))) ∨
    ((∃ prev, gaugeOf s id = some prev) ∧
      (setGaugeI s id g).1 = { s with order := setGaugeOrder s id g }) := by
  unfold setGaugeI
  cases hg : gaugeOf s id with
  | none => left; exact ⟨rfl, Or.inl rfl⟩
  | some prev =>
    simp only
    by_cases hp : prev = clamp0 g
    · left
      have hb : (prev == clamp0 g) = true := by simpa using hp
      simp only [hb, if_true]
      exact ⟨trivial, Or.inr (by rw [hp])⟩
    · right
      have hb : (prev == clamp0 g) = false := by simpa using hp
      simp only [hb, Bool.false_eq_true, if_false]
      exact ⟨⟨prev, rfl⟩, trivial⟩

theorem inv_setGaugeOrder (s : S) (h : Inv s) (id g : Int) :
    Inv { s with order := setGaugeOrder s id g } := by
  obtain ⟨h1, h2, h3, h4⟩ := h
  refine ⟨?_, ?_, h3, h4⟩
  · exact (sortMove_ids_perm s s.order h1 id (clamp0 g) _).nodup_iff.mpr h1
  · intro t ht
    rcases (mem_sortMove s s.order h1 id (clamp0 g) _ t).mp ht with ⟨_, hm⟩ | ⟨rfl, _⟩
    · exact h2 t hm
    · exact clamp0_nonneg g

theorem inv_setGaugeI (s : S) (hs : SpeedsPos s) (h : Inv s) (id g : Int) :
    Inv (setGaugeI s id g).1 ∧ SpeedsPos (setGaugeI s id g).1 := by
  rcases setGaugeI_cases s id g with ⟨he, _⟩ | ⟨_, he⟩
  · rw [he]; exact ⟨h, hs⟩
  · rw [he]; exact ⟨inv_setGaugeOrder s h id g, hs⟩

/-! ### `advance` -/

theorem ids_advance (s : S) (l : List E) (actor : Int) (a : Rat) :
    (advance s l actor a).map (·.1) = l.map (·.1) := by
  unfold advance
  rw [List.map_map]
  apply List.map_congr_left
  intro t _
  simp only [Function.comp]
  split_ifs <;> rfl

theorem mem_advance (s : S) (l : List E) (actor : Int) (a : Rat) (x : E) :
    x ∈ advance s l actor a ↔ ∃ t ∈ l, x = if t.1 = actor then (t.1, 0)
      else (t.1, t.2 - Rat.truncZ (a * s.spd t.1)) := by
  unfold advance
  simp only [List.mem_map]
  constructor
  · rintro ⟨t, ht, rfl⟩
    refine ⟨t, ht, ?_⟩
    by_cases hc : t.1 = actor
    · simp [hc]
    · simp [hc]
  · rintro ⟨t, ht, rfl⟩
    refine ⟨t, ht, ?_⟩
    by_cases hc : t.1 = actor
    · simp [hc]
    · simp [hc]

theorem advance_bounds (s : S) (hs : SpeedsPos s) (a : Rat) (ha : 0 ≤ a) (t : E) (hle : a ≤ av s t) :
    0 ≤ t.2 - Rat.truncZ (a * s.spd t.1) ∧
    (t.2 : Rat) - a * s.spd t.1 ≤ ((t.2 - Rat.truncZ (a * s.spd t.1) : Int) : Rat) ∧
    ((t.2 - Rat.truncZ (a * s.spd t.1) : Int) : Rat) < (t.2 : Rat) - a * s.spd t.1 + 1 := by
  have hx : 0 ≤ a * s.spd t.1 := mul_nonneg ha (le_of_lt (spd_pos s hs t.1))
  obtain ⟨h1, h2, h3⟩ := trunc_le _ hx
  have h4 := av_mul_le s hs a t hle
  have h5 : ((Rat.truncZ (a * s.spd t.1) : Int) : Rat) ≤ (t.2 : Rat) := le_trans h1 h4
  have h6 : Rat.truncZ (a * s.spd t.1) ≤ t.2 := by exact_mod_cast h5
  refine ⟨by omega, ?_, ?_⟩
  · push_cast; linarith
  · push_cast; linarith

theorem start_eq (s : S) (hna : s.activeTurn = false) (hd : E) (tl : List E)
    (hsort : sortOrder s s.order = hd :: tl) :
    (step s .start).1 = { s with order := advance s (hd :: tl) hd.1 (av s hd), cost := 1,
                                 activeTurn := true, active := hd.1,
                                 totalAV := s.totalAV + av s hd } := by
  unfold step
  simp only [hna, Bool.false_eq_true, if_false]
  rw [hsort]

theorem start_nil (s : S) (hna : s.activeTurn = false) (hsort : sortOrder s s.order = []) :
    (step s .start).1 = s := by
  unfold step
  simp only [hna, Bool.false_eq_true, if_false]
  rw [hsort]

theorem start_active (s : S) (hna : s.activeTurn = true) : (step s .start).1 = s := by
  unfold step
  simp only [hna, if_true]

/-! ### start: facts about the head of the sorted order -/

theorem start_facts (s : S) (hs : SpeedsPos s) (h : Inv s) (hd : E) (tl : List E)
    (hsort : sortOrder s s.order = hd :: tl) :
    hd ∈ s.order ∧ 0 ≤ av s hd ∧ ∀ t ∈ s.order, av s hd ≤ av s t := by
  have hm : hd ∈ s.order := (mem_sortOrder s s.order hd).mp (by rw [hsort]; simp)
  exact ⟨hm, av_nonneg s hs hd (h.2.1 hd hm), head_min s s.order hd tl hsort⟩

theorem inv_start (s : S) (hs : SpeedsPos s) (h : Inv s) :
    Inv (step s .start).1 ∧ SpeedsPos (step s .start).1 := by
  cases hna : s.activeTurn with
  | true => rw [start_active s hna]; exact ⟨h, hs⟩
  | false =>
    cases hsort : sortOrder s s.order with
    | nil => rw [start_nil s hna hsort]; exact ⟨h, hs⟩
    | cons hd tl =>
      rw [start_eq s hna hd tl hsort]
      obtain ⟨hm, ha, hmin⟩ := start_facts s hs h hd tl hsort
      obtain ⟨h1, h2, h3, h4⟩ := h
      refine ⟨⟨?_, ?_, ?_, ?_⟩, hs⟩
      · show ((advance s (hd :: tl) hd.1 (av s hd)).map (·.1)).Nodup
        rw [ids_advance, ← hsort]
        exact (ids_sortOrder_perm s s.order).nodup_iff.mpr h1
      · intro x hx
        obtain ⟨t, ht, rfl⟩ := (mem_advance s (hd :: tl) hd.1 (av s hd) x).mp hx
        have ht' : t ∈ s.order := (mem_sortOrder s s.order t).mp (by rw [hsort]; exact ht)
        split_ifs
        · exact le_refl _
        · exact (advance_bounds s hs (av s hd) ha t (hmin t ht')).1
      · have h3' : (0 : Rat) ≤ s.totalAV := by simpa using h3
        show @OfNat.ofNat Rat 0 (Num.instOfNat 0) ≤ (s.totalAV + av s hd : Rat)
        rw [Num.zero_rat]; exact add_nonneg h3' ha
      · show @OfNat.ofNat Rat 0 (Num.instOfNat 0) ≤ @OfNat.ofNat Rat 1 (Num.instOfNat 1)
        rw [Num.zero_rat, Num.one_rat]; exact zero_le_one

/-! ### add / remove -/

theorem ids_addOrder_perm (s : S) (l : List Int) : ((addOrder s l).map (·.1)).Perm (ids s ++ l) := by
  unfold addOrder
  refine (ids_sortOrder_perm s _).trans ?_
  rw [List.map_append, List.map_map]
  have : ((fun t : E => t.1) ∘ fun i => (i, baseGauge)) = id := by funext i; rfl
  rw [this, List.map_id]
  exact List.Perm.refl _

theorem inv_add (s : S) (h : Inv s) (l : List Int) (hl1 : l.Nodup) (hl2 : ∀ i ∈ l, i ∉ ids s) :
    Inv { s with order := addOrder s l } := by
  obtain ⟨h1, h2, h3, h4⟩ := h
  refine ⟨?_, ?_, h3, h4⟩
  · exact (ids_addOrder_perm s l).nodup_iff.mpr (h1.append hl1 (fun a ha hb => hl2 a hb ha))
  · intro t ht
    have ht' : t ∈ s.order ++ l.map (fun i => (i, baseGauge)) := (mem_sortOrder s _ t).mp ht
    rcases List.mem_append.mp ht' with hm | hm
    · exact h2 t hm
    · obtain ⟨i, _, rfl⟩ := List.mem_map.mp hm
      show (0 : Int) ≤ baseGauge
      unfold baseGauge; decide

theorem inv_remove (s : S) (h : Inv s) (id : Int) : Inv (step s (.remove id)).1 := by
  simp only [step]
  split_ifs
  · obtain ⟨h1, h2, h3, h4⟩ := h
    refine ⟨?_, ?_, h3, h4⟩
    · exact h1.sublist (List.eraseP_sublist.map _)
    · intro t ht; exact h2 t (List.mem_of_mem_eraseP ht)
  · exact h

theorem remove_spd (s : S) (id : Int) : (step s (.remove id)).1.spd = s.spd := by
  simp only [step]
  split_ifs <;> rfl

/-! ### reset -/

theorem ofI_base : (ofI baseGauge : Rat) = 10000 := by
  show ((10000 : Int) : Rat) = 10000
  norm_num

theorem resetOrder_eq (s : S) :
    resetOrder s = sortOrder s (moveTo (setG s.order s.active (Rat.truncZ (10000 * s.cost)))
      s.active s.order.length) := by
  unfold resetOrder
  rw [ofI_base]; rfl

theorem reset_eq (s : S) (hact : s.activeTurn = true) :
    (step s .reset).1 = { s with activeTurn := false, order := resetOrder s } := by
  unfold step
  simp only [hact, Bool.not_true, Bool.false_eq_true, if_false]

theorem reset_inactive (s : S) (hact : s.activeTurn = false) : (step s .reset).1 = s := by
  unfold step
  simp only [hact, Bool.not_false, if_true]

theorem inv_reset (s : S) (hs : SpeedsPos s) (h : Inv s) :
    Inv (step s .reset).1 ∧ SpeedsPos (step s .reset).1 := by
  cases hact : s.activeTurn with
  | false => rw [reset_inactive s hact]; exact ⟨h, hs⟩
  | true =>
    rw [reset_eq s hact, resetOrder_eq]
    obtain ⟨h1, h2, h3, h4⟩ := h
    refine ⟨⟨?_, ?_, h3, h4⟩, hs⟩
    · exact (sortMove_ids_perm s s.order h1 _ _ _).nodup_iff.mpr h1
    · intro t ht
      rcases (mem_sortMove s s.order h1 _ _ _ t).mp ht with ⟨_, hm⟩ | ⟨rfl, _⟩
      · exact h2 t hm
      · have h4' : (0 : Rat) ≤ s.cost := by simpa using h4
        exact (trunc_le (10000 * s.cost) (by positivity)).2.1

/-! ### full description of `setGaugeI` -/

theorem setGaugeI_mem (s : S) (h : Inv s) (id g : Int) (x : E) :
    x ∈ (setGaugeI s id g).1.order ↔
      (x.1 ≠ id ∧ x ∈ s.order) ∨ (x = (id, clamp0 g) ∧ ∃ g', (id, g') ∈ s.order) := by
  have h1 := h.1
  rcases setGaugeI_cases s id g with ⟨he, hc⟩ | ⟨_, he⟩
  · rw [he]
    rcases hc with hc | hc
    · have hno : ∀ g', (id, g') ∉ s.order := by
        intro g' hg'
        rw [gaugeOf_of_mem s h1 id g' hg'] at hc; cases hc
      constructor
      · intro hx
        left
        refine ⟨?_, hx⟩
        intro he'
        apply hno x.2; rw [← he']; exact hx
      · rintro (⟨_, hx⟩ | ⟨_, g', hg'⟩)
        · exact hx
        · exact absurd hg' (hno g')
    · have hin := mem_of_gaugeOf s id _ hc
      constructor
      · intro hx
        by_cases he' : x.1 = id
        · right
          exact ⟨List.inj_on_of_nodup_map h1 hx hin he', _, hin⟩
        · left; exact ⟨he', hx⟩
      · rintro (⟨_, hx⟩ | ⟨rfl, _⟩)
        · exact hx
        · exact hin
  · rw [he]
    exact mem_sortMove s s.order h1 id (clamp0 g) _ x

theorem setGaugeI_ids (s : S) (h : Inv s) (id g : Int) :
    (ids (setGaugeI s id g).1).Perm (ids s) := by
  rcases setGaugeI_cases s id g with ⟨he, _⟩ | ⟨_, he⟩
  · rw [he]
  · rw [he]
    exact sortMove_ids_perm s s.order h.1 id (clamp0 g) _

/-! ### the acting unit keeps the front -/

theorem moveTo_cons_one (a : E) (l : List E) (id : Int) (ha : a.1 ≠ id) :
    ∃ l', moveTo (a :: l) id 1 = a :: l' := by
  unfold moveTo
  have hb : (a.1 == id) = false := by simpa using ha
  have hb' : (a.1 != id) = true := by simpa using ha
  rw [List.find?_cons, hb]
  cases l.find? (fun t => t.1 == id) with
  | none => exact ⟨l, rfl⟩
  | some t =>
    refine ⟨t :: l.filter (fun x => x.1 != id), ?_⟩
    simp only [List.filter_cons, hb', if_true]
    simp

theorem setG_cons_ne (a : E) (l : List E) (id g : Int) (ha : a.1 ≠ id) :
    setG (a :: l) id g = a :: setG l id g := by
  have hb : (a.1 == id) = false := by simpa using ha
  unfold setG
  rw [List.map_cons, hb]
  rfl

theorem indexOf_cons_ne (a : E) (l : List E) (id : Int) (ha : a.1 ≠ id) :
    (indexOf (a :: l) id != 0) = true := by
  have hb : (a.1 == id) = false := by simpa using ha
  unfold indexOf
  rw [List.findIdx_cons, hb]
  simp

theorem front_kept (s : S) (hs : SpeedsPos s) (h : Inv s) (hact : s.activeTurn = true)
    (rest : List E) (ho : s.order = (s.active, 0) :: rest) (id g : Int) (hne : id ≠ s.active) :
    (setGaugeOrder s id g).head? = some (s.active, 0) := by
  have hne' : ((s.active, (0 : Int)) : E).1 ≠ id := fun e => hne e.symm
  have hperm := moveTo_perm (setG s.order id (clamp0 g)) id 1 (by rw [ids_setG]; exact h.1)
  rw [setGaugeOrder_eq, hact]
  rw [ho] at hperm ⊢
  rw [indexOf_cons_ne _ _ _ hne', setG_cons_ne _ _ _ _ hne'] at *
  simp only [Bool.and_self, if_true] at *
  obtain ⟨l', hl'⟩ := moveTo_cons_one (s.active, 0) (setG rest id (clamp0 g)) id hne'
  rw [hl'] at hperm ⊢
  apply sortOrder_head
  intro x hx
  have hx1 : x ∈ (s.active, (0 : Int)) :: setG rest id (clamp0 g) :=
    hperm.mem_iff.mp (List.mem_cons_of_mem _ hx)
  have hx2 : x ∈ setG s.order id (clamp0 g) := by
    rw [ho, setG_cons_ne _ _ _ _ hne']; exact hx1
  have hx3 : 0 ≤ x.2 := by
    rcases (mem_setG _ _ _ _).mp hx2 with ⟨_, hm⟩ | ⟨rfl, _⟩
    · exact h.2.1 x hm
    · exact clamp0_nonneg g
  have h0 : av s (s.active, 0) = 0 := by
    rw [av_eq]; simp
  rw [h0]
  exact av_nonneg s hs x hx3

/-! ### the gauge operations of `step` -/

theorem step_modNorm_none (s : S) (id : Int) (amt : Rat) (hg : gaugeOf s id = none) :
    step s (.modNorm id amt) = (s, [Ev.err "unknown_target"]) := by
  simp only [step, hg]

theorem step_modNorm_some (s : S) (id g : Int) (amt : Rat) (hg : gaugeOf s id = some g) :
    step s (.modNorm id amt) = setGaugeI s id (Rat.truncZ ((g : Rat) + amt * 10000)) := by
  simp only [step, hg, ofI_base]; rfl

theorem step_modAV_none (s : S) (id : Int) (amt : Rat) (hg : gaugeOf s id = none) :
    step s (.modAV id amt) = (s, [Ev.err "unknown_target"]) := by
  simp only [step, hg]

theorem step_modAV_some (s : S) (id g : Int) (amt : Rat) (hg : gaugeOf s id = some g) :
    step s (.modAV id amt) = setGaugeI s id (Rat.truncZ ((g : Rat) + s.spd id * amt)) := by
  simp only [step, hg]; rfl

end Turn
