import Srsim.Proofs.ParseBasics
/-!
Totality of the gcs parser model: with fuel `a_fn + 6 * rem p` (where `a_fn ∈ {1..5}` ranks the
functions by the longest chain of calls that does not consume a token) no function of the mutual
block returns `Res.fuel`, and successful results consume tokens (`Res.good`).
The proof is one simultaneous induction on the fuel (`AllGood`), one step lemma per function.
-/
namespace Gcs.Parse
open Gcs.Lex

structure AllGood (f : Nat) : Prop where
  expr : ∀ p pre, 3 + 6 * rem p ≤ f → (parseExpr f p pre).good (rem p)
  infx : ∀ p pre l, 1 + 6 * rem p ≤ f → (infixLoop f p pre l).good (rem p + 1)
  pref : ∀ p, 2 + 6 * rem p ≤ f → (parsePrefix f p).good (rem p)
  mapl : ∀ p a fl, 4 + 6 * rem p ≤ f → (parseMapLoop f p a fl).good (rem p)
  cargs : ∀ p, 4 + 6 * rem p ≤ f → (parseCallArgs f p).good (rem p)
  crest : ∀ p a, 1 + 6 * rem p ≤ f → (callArgsRest f p a).good (rem p)
  fn : ∀ p b, 1 + 6 * rem p ≤ f → (parseFn f p b).good (rem p)
  fnargs : ∀ p a, 1 + 6 * rem p ≤ f → (parseFnArgs f p a).good (rem p)
  block : ∀ p, 1 + 6 * rem p ≤ f → (parseBlock f p).good (rem p)
  bloop : ∀ p a, 5 + 6 * rem p ≤ f → (blockLoop f p a).good (rem p)
  cbody : ∀ p a, 5 + 6 * rem p ≤ f → (caseBody f p a).good (rem p + 1)
  sloop : ∀ p c cs d, 1 + 6 * rem p ≤ f → (switchLoop f p c cs d).good (rem p)
  assign : ∀ p, 1 + 6 * rem p ≤ f → (parseAssign f p).good (rem p)
  plet : ∀ p, 1 + 6 * rem p ≤ f → (parseLet f p).good (rem p)
  stmt : ∀ p, 4 + 6 * rem p ≤ f → (parseStatement f p).good (rem p)
  pfor : ∀ p, 4 + 6 * rem p ≤ f → (parseFor f p).good (rem p)

theorem good_mono' {α : Type} {b b' : Nat} {r : Res α} (h : r.good b) (hb : b ≤ b') : r.good b' := good_mono h hb
grind_pattern good_mono' => Res.good b r, Res.good b' r


grind_pattern tk_pos' => tk p
grind_pattern isBinaryOp_ne_zero => isBinaryOp t
grind_pattern hasPrefix_ne_zero => hasPrefix t
grind_pattern rem_adv => adv p

macro "tokdefs" : tactic => `(tactic| try simp only [tError, tEOF, tTerm, tAssign, tComma, tLParen, tRParen, tLSq, tRSq, tLBrace, tRBrace, tColon, tPlus, tMinus, tAsterisk, tSlash, tNot, tAnd, tOr, tEq, tNe, tGt, tGe, tLt, tLe, tIdent, tNumber, tBool, tString, tNull, kLet, kWhile, kIf, kElse, kFn, kSwitch, kCase, kDefault, kBreak, kContinue, kFallthrough, kReturn, kFor])

theorem expr_step {f} (ih : AllGood f) (p pre) (h : 3 + 6 * rem p ≤ f + 1) :
    (parseExpr (f+1) p pre).good (rem p) := by
  simp only [parseExpr, next_eq]
  have := ih.pref
  have := ih.infx
  grind [Res.good]

theorem infx_step {f} (ih : AllGood f) (p pre l) (h : 1 + 6 * rem p ≤ f + 1) :
    (infixLoop (f+1) p pre l).good (rem p + 1) := by
  simp only [infixLoop, next_eq, peek_eq]
  tokdefs
  have := ih.expr
  have := ih.infx
  have := ih.cargs
  grind [Res.good]

theorem pref_step {f} (ih : AllGood f) (p) (h : 2 + 6 * rem p ≤ f + 1) :
    (parsePrefix (f+1) p).good (rem p) := by
  simp only [parsePrefix, next_eq, peek_eq]
  tokdefs
  have := ih.expr
  have := ih.fn
  have := ih.mapl
  grind [Res.good]


theorem mapl_step {f} (ih : AllGood f) (p a fl) (h : 4 + 6 * rem p ≤ f + 1) :
    (parseMapLoop (f+1) p a fl).good (rem p) := by
  simp only [parseMapLoop, next_eq, peek_eq]
  tokdefs
  obtain ⟨h1, h2, h3, h4, h5, h6, h7, h8, h9, h10, h11, h12, h13, h14, h15, h16⟩ := ih
  grind [Res.good]

theorem cargs_step {f} (ih : AllGood f) (p) (h : 4 + 6 * rem p ≤ f + 1) :
    (parseCallArgs (f+1) p).good (rem p) := by
  simp only [parseCallArgs, next_eq, peek_eq]
  tokdefs
  obtain ⟨h1, h2, h3, h4, h5, h6, h7, h8, h9, h10, h11, h12, h13, h14, h15, h16⟩ := ih
  grind [Res.good]

theorem crest_step {f} (ih : AllGood f) (p a) (h : 1 + 6 * rem p ≤ f + 1) :
    (callArgsRest (f+1) p a).good (rem p) := by
  simp only [callArgsRest, next_eq, peek_eq]
  tokdefs
  obtain ⟨h1, h2, h3, h4, h5, h6, h7, h8, h9, h10, h11, h12, h13, h14, h15, h16⟩ := ih
  grind [Res.good]

theorem fn_step {f} (ih : AllGood f) (p n) (h : 1 + 6 * rem p ≤ f + 1) :
    (parseFn (f+1) p n).good (rem p) := by
  simp only [parseFn, next_eq, peek_eq]
  tokdefs
  obtain ⟨h1, h2, h3, h4, h5, h6, h7, h8, h9, h10, h11, h12, h13, h14, h15, h16⟩ := ih
  grind [Res.good]

theorem fnargs_step {f} (ih : AllGood f) (p a) (h : 1 + 6 * rem p ≤ f + 1) :
    (parseFnArgs (f+1) p a).good (rem p) := by
  simp only [parseFnArgs, next_eq, peek_eq]
  tokdefs
  obtain ⟨h1, h2, h3, h4, h5, h6, h7, h8, h9, h10, h11, h12, h13, h14, h15, h16⟩ := ih
  grind [Res.good]

theorem block_step {f} (ih : AllGood f) (p) (h : 1 + 6 * rem p ≤ f + 1) :
    (parseBlock (f+1) p).good (rem p) := by
  simp only [parseBlock, next_eq, peek_eq]
  tokdefs
  obtain ⟨h1, h2, h3, h4, h5, h6, h7, h8, h9, h10, h11, h12, h13, h14, h15, h16⟩ := ih
  grind [Res.good]

theorem bloop_step {f} (ih : AllGood f) (p a) (h : 5 + 6 * rem p ≤ f + 1) :
    (blockLoop (f+1) p a).good (rem p) := by
  simp only [blockLoop, next_eq, peek_eq]
  tokdefs
  obtain ⟨h1, h2, h3, h4, h5, h6, h7, h8, h9, h10, h11, h12, h13, h14, h15, h16⟩ := ih
  grind [Res.good]

theorem cbody_step {f} (ih : AllGood f) (p a) (h : 5 + 6 * rem p ≤ f + 1) :
    (caseBody (f+1) p a).good (rem p + 1) := by
  simp only [caseBody, next_eq, peek_eq]
  tokdefs
  obtain ⟨h1, h2, h3, h4, h5, h6, h7, h8, h9, h10, h11, h12, h13, h14, h15, h16⟩ := ih
  grind [Res.good]

theorem sloop_step {f} (ih : AllGood f) (p c cs d) (h : 1 + 6 * rem p ≤ f + 1) :
    (switchLoop (f+1) p c cs d).good (rem p) := by
  simp only [switchLoop, next_eq, peek_eq]
  tokdefs
  obtain ⟨h1, h2, h3, h4, h5, h6, h7, h8, h9, h10, h11, h12, h13, h14, h15, h16⟩ := ih
  grind [Res.good]

theorem assign_step {f} (ih : AllGood f) (p) (h : 1 + 6 * rem p ≤ f + 1) :
    (parseAssign (f+1) p).good (rem p) := by
  simp only [parseAssign, next_eq, peek_eq]
  tokdefs
  obtain ⟨h1, h2, h3, h4, h5, h6, h7, h8, h9, h10, h11, h12, h13, h14, h15, h16⟩ := ih
  grind [Res.good]

theorem plet_step {f} (ih : AllGood f) (p) (h : 1 + 6 * rem p ≤ f + 1) :
    (parseLet (f+1) p).good (rem p) := by
  simp only [parseLet, next_eq, peek_eq]
  tokdefs
  obtain ⟨h1, h2, h3, h4, h5, h6, h7, h8, h9, h10, h11, h12, h13, h14, h15, h16⟩ := ih
  grind [Res.good]

theorem stmt_step {f} (ih : AllGood f) (p) (h : 4 + 6 * rem p ≤ f + 1) :
    (parseStatement (f+1) p).good (rem p) := by
  simp only [parseStatement, next_eq, peek_eq]
  tokdefs
  have := ih.expr
  have := ih.plet
  have := ih.block
  have := ih.stmt
  have := ih.sloop
  have := ih.fn
  have := ih.pfor
  have := ih.assign
  clear ih
  grind (splits := 40) [Res.good]

theorem pfor_step {f} (ih : AllGood f) (p) (h : 4 + 6 * rem p ≤ f + 1) :
    (parseFor (f+1) p).good (rem p) := by
  simp only [parseFor, next_eq, peek_eq]
  tokdefs
  have := ih.expr
  have := ih.plet
  have := ih.block
  have := ih.assign
  clear ih
  grind (splits := 60) (gen := 30) [Res.good]


theorem allGood (f : Nat) : AllGood f := by
  induction f with
  | zero => constructor <;> (intros; omega)
  | succ f ih =>
    exact ⟨expr_step ih, infx_step ih, pref_step ih, mapl_step ih, cargs_step ih, crest_step ih,
      fn_step ih, fnargs_step ih, block_step ih, bloop_step ih, cbody_step ih, sloop_step ih,
      assign_step ih, plet_step ih, stmt_step ih, pfor_step ih⟩

theorem parseRows_ne_fuel (f : Nat) : ∀ (p : P) (acc : List Node), 5 + 6 * rem p ≤ f →
    parseRows f p acc ≠ Res.fuel := by
  induction f with
  | zero => intros; omega
  | succ f ih =>
    intro p acc h
    have hs := (allGood f).stmt p
    simp only [parseRows, peek_eq]
    tokdefs
    grind [Res.good]

theorem rem_init (toks : List Tok) : rem { toks := toks.toArray } = toks.length := by
  simp [rem]

theorem parseProgram_ne_fuel (toks : List Tok) : parseProgram toks ≠ Res.fuel := by
  unfold parseProgram fuelFor
  apply parseRows_ne_fuel
  rw [rem_init]
  omega

end Gcs.Parse
