import Srsim.Model.Gcs.Parse
/-!
Basic facts for the totality proof of the gcs parser model: the measure `rem` (number of tokens
not yet consumed), the abstract view of `P.next` as `(tk p, adv p)` and the predicate `Res.good`.
-/
namespace Gcs.Parse
open Gcs.Lex

/-- number of tokens not yet consumed -/
def rem (p : P) : Nat := ((p.toks.size : Int) - (p.pos + 1)).toNat

/-- the token returned by `next` -/
def tk (p : P) : Tok := p.next.1
/-- the state after `next` -/
def adv (p : P) : P := p.next.2

theorem next_eq (p : P) : p.next = (tk p, adv p) := rfl
theorem peek_eq (p : P) : p.peek = tk p := rfl

theorem rem_adv (p : P) : rem (adv p) = rem p - 1 := by
  simp only [rem, adv, P.next]
  omega

theorem tk_pos (p : P) (h : (tk p).typ ≠ 0) : 0 < rem p := by
  simp only [tk, P.next] at h
  simp only [rem]
  split at h
  · omega
  · exact absurd rfl h

theorem tk_pos_of_beq {p : P} {c : Nat} (h : ((tk p).typ == c) = true) (hc : c ≠ 0) : 0 < rem p := by
  apply tk_pos
  have h' : (tk p).typ = c := eq_of_beq h
  rw [h']; exact hc

theorem tk_pos' (p : P) : (tk p).typ = 0 ∨ 0 < rem p := by
  by_cases h : (tk p).typ = 0
  · exact Or.inl h
  · exact Or.inr (tk_pos p h)

theorem isBinaryOp_ne_zero (t : TT) (h : isBinaryOp t = true) : t ≠ 0 := by
  intro h0; subst h0; exact absurd h (by decide)

theorem hasPrefix_ne_zero (t : TT) (h : hasPrefix t = true) : t ≠ 0 := by
  intro h0; subst h0; exact absurd h (by decide)

/-- the result is not `fuel`, and a successful result leaves fewer than `b` tokens -/
def Res.good {α : Type} (b : Nat) : Res α → Prop
  | .ok _ p => rem p < b
  | .err => True
  | .fuel => False

@[simp] theorem good_ok {α : Type} (b : Nat) (a : α) (p : P) : (Res.ok a p).good b ↔ rem p < b := Iff.rfl
@[simp] theorem good_err {α : Type} (b : Nat) : (Res.err : Res α).good b ↔ True := Iff.rfl
@[simp] theorem good_fuel {α : Type} (b : Nat) : (Res.fuel : Res α).good b ↔ False := Iff.rfl

theorem good_mono {α : Type} {b b' : Nat} {r : Res α} (h : r.good b) (hb : b ≤ b') : r.good b' := by
  cases r with
  | ok a p => simp only [good_ok] at *; omega
  | err => trivial
  | fuel => exact h

end Gcs.Parse
